(* C10 — the rbtree of coq/Util (model of lib/util/src/rbtree.c), set up as dir_reader.c sets
   it up, meets DotModel.rbtree_contract; so the dcache theorems of DotProofs.v hold for the
   directory reader on the real tree, without a hypothesis about the container. *)
From Coq Require Import List NArith ZArith Bool Lia Sorting.Sorted.
From SqfsV Require Import Gen.Constants Base.Bytes Util.GenUtil Util.RbModel Util.RbOrder Util.RbBalance
     Util.RbTheorems Util.RbExamples
     C10.GenC10 C10.GenC10Dot C10.GenC10Rb C10.MetaModel C10.ClientModel C10.ApiModel
     C10.DotModel C10.DotProofs C10.DotRbModel.
Import ListNotations.
Local Open Scope N_scope.

(* ------------------------------------------------------------------ *)
(* the generated numbers against the models                             *)
(* ------------------------------------------------------------------ *)

(* what rbtree_init left in rd->dcache (GenC10Rb.v: read from a reader the library created) is
   what the Util model of rbtree_init computes for the sizes of the key and value types
   (GenC10Dot.v: sizeof of base.inode_number and of an inode reference); cmp_u32 of Util
   reads that many key bytes *)
Lemma rb_sizes_consistent :
  c10rb_key_size = c10d_inum_bytes /\ c10rb_value_size = c10d_ref_bytes /\
  rbtree_init c10rb_key_size c10rb_value_size
    = (0%Z, mk_rbtree Leaf c10rb_key_size c10rb_key_size_padded c10rb_value_size) /\
  c10rb_root_after_init_is_null = 1 /\
  256 ^ c10rb_key_size = u32m /\
  (forall a b, cmp_u32 a b = key_compare (RbModel.rd_le (firstn kbytes a)) (RbModel.rd_le (firstn kbytes b))).
Proof. repeat split. Qed.

Lemma rt_empty_val :
  rt_empty = Some (mk_rbtree Leaf c10rb_key_size c10rb_key_size_padded c10rb_value_size, 0).
Proof. reflexivity. Qed.

(* the node dcache_add really built for (c10rb_sample_inum, c10rb_sample_ref): same value
   offset, colour and ALL key_size_padded + value_size data bytes as the node of the model
   (so: byte order of key and value, zero padding, position of the value), and the model
   resolves the number to what sqfs_dir_reader_resolve_inum returned *)
Lemma sample_node_matches :
  rt_insert key_compare rt_empty c10rb_sample_inum c10rb_sample_ref
    = Some (mk_rbtree (Node 0 Leaf (negb (c10rb_sample_is_red =? 0)) c10rb_sample_value_offset c10rb_sample_data Leaf)
                      c10rb_key_size c10rb_key_size_padded c10rb_value_size, 1) /\
  rtb_insert cmp_u32 rt_empty c10rb_sample_inum c10rb_sample_ref
    = rt_insert key_compare rt_empty c10rb_sample_inum c10rb_sample_ref /\
  rt_lookup key_compare (rt_insert key_compare rt_empty c10rb_sample_inum c10rb_sample_ref) c10rb_sample_inum
    = Some c10rb_sample_resolved /\
  lenN c10rb_sample_data = c10rb_key_size_padded + c10rb_value_size /\
  2147483648 <= c10rb_sample_inum < u32m.
Proof. vm_compute. repeat split; intro; discriminate. Qed.

(* ------------------------------------------------------------------ *)
(* key and value bytes                                                  *)
(* ------------------------------------------------------------------ *)

Lemma rdle_le n : forall v r,
  RbModel.rd_le (Bytes.le n v ++ r) = v mod 256 ^ N.of_nat n + 256 ^ N.of_nat n * RbModel.rd_le r.
Proof.
  induction n as [|n IH]; intros v r.
  - cbn [Bytes.le app N.of_nat]. rewrite N.pow_0_r, N.mod_1_r. lia.
  - cbn [Bytes.le app RbModel.rd_le]. rewrite IH.
    rewrite Nat2N.inj_succ, N.pow_succ_r'.
    rewrite (N.mod_mul_r v 256 (256 ^ N.of_nat n)) by (try discriminate; apply N.pow_nonzero; discriminate).
    lia.
Qed.

Lemma enc_key_len k : lenN (enc_key k) = c10rb_key_size.
Proof. unfold lenN, enc_key. rewrite le_length. reflexivity. Qed.

Lemma enc_val_len v : lenN (enc_val v) = c10rb_value_size.
Proof. unfold lenN, enc_val. rewrite app_length, le_length. reflexivity. Qed.

(* the loaded key, before it is a sqfs_u32: in range for the bytes of a number < 2^32 *)
Definition inr (a : list N) : Prop := RbModel.rd_le (firstn kbytes a) < u32m.

Lemma rd_key k : k < u32m -> RbModel.rd_le (firstn kbytes (enc_key k)) = k.
Proof.
  intro H. unfold enc_key. rewrite <- (le_length kbytes k) at 1. rewrite firstn_all.
  rewrite <- (app_nil_r (Bytes.le kbytes k)), rdle_le. cbn [RbModel.rd_le].
  change (256 ^ N.of_nat kbytes) with u32m. rewrite N.mul_0_r, N.add_0_r. apply N.mod_small, H.
Qed.

Lemma enc_key_inr k : k < u32m -> inr (enc_key k).
Proof. intro H. unfold inr. rewrite rd_key; assumption. Qed.

Lemma dec_enc_key k : k < u32m -> dec_key (enc_key k) = k.
Proof. intro H. unfold dec_key. rewrite rd_key by exact H. apply N.mod_small, H. Qed.

Lemma dec_key_lt a : dec_key a < u32m.
Proof. unfold dec_key. apply N.mod_lt, u32m_pos. Qed.

Lemma dec_enc_val v : dec_val (enc_val v) = v.
Proof.
  unfold dec_val, enc_val. rewrite rdle_le. cbn [RbModel.rd_le].
  set (q := 256 ^ N.of_nat (vbytes - 1)).
  assert (Q : q <> 0) by (apply N.pow_nonzero; discriminate).
  pose proof (N.div_mod v q Q). lia.
Qed.

(* for a value of the type sqfs_u64 the value bytes are its 8 byte little-endian representation *)
Lemma le_snoc n : forall v, Bytes.le (S n) v = Bytes.le n v ++ [(v / 256 ^ N.of_nat n) mod 256].
Proof.
  induction n as [|n IH]; intro v.
  - cbn [Bytes.le app N.of_nat]. rewrite N.pow_0_r, N.div_1_r. reflexivity.
  - change (Bytes.le (S (S n)) v) with (v mod 256 :: Bytes.le (S n) (v / 256)).
    rewrite IH. cbn [Bytes.le app]. rewrite N.div_div by (try discriminate; apply N.pow_nonzero; discriminate).
    rewrite Nat2N.inj_succ, N.pow_succ_r'. reflexivity.
Qed.

Lemma enc_val_bytes v :
  v < 256 ^ c10rb_value_size -> enc_val v = Bytes.le vbytes v /\ bytes_ok (enc_val v).
Proof.
  intro H.
  assert (E : enc_val v = Bytes.le vbytes v).
  { unfold enc_val. change vbytes with (S (vbytes - 1)) at 3. rewrite le_snoc. f_equal. f_equal.
    symmetry. apply N.mod_small. apply N.div_lt_upper_bound; [apply N.pow_nonzero; discriminate|].
    exact H. }
  split; [exact E|]. rewrite E. apply le_bytes_ok.
Qed.

Lemma enc_key_bytes k : bytes_ok (enc_key k).
Proof. apply le_bytes_ok. Qed.

(* ------------------------------------------------------------------ *)
(* the comparator: one model of the C expression, two consumers         *)
(* ------------------------------------------------------------------ *)

(* lhs < rhs ? -1 : (lhs > rhs ? 1 : 0): the sign of the result is the order of the two
   loaded numbers.  DotModel.key_compare models exactly this expression. *)
Lemma key_compare_sign a b :
  ((key_compare a b < 0)%Z <-> a < b) /\ (key_compare a b = 0%Z <-> a = b) /\ ((key_compare a b > 0)%Z <-> b < a).
Proof.
  unfold key_compare. destruct (N.ltb_spec a b), (N.ltb_spec b a); repeat split; intros; try lia.
Qed.

(* C10's statement (Properties_C10.dcache_key_compare_total) follows from it ... *)
Lemma key_compare_total_from_sign : strict_total key_compare.
Proof.
  intros a b c _ _ _.
  pose proof (key_compare_sign a b) as (A1 & A2 & A3). pose proof (key_compare_sign b a) as (B1 & B2 & B3).
  pose proof (key_compare_sign b c) as (C1 & C2 & C3). pose proof (key_compare_sign a c) as (D1 & D2 & D3).
  split; [exact A2|]. split.
  - split; intro H; [apply B3, A1, H|apply A1, B3, H].
  - intros H1 H2. apply D1. apply A1 in H1. apply C1 in H2. lia.
Qed.

(* ... and so does C19's (Properties_C19.dcache_key_compare_is_order): Util.RbModel.cmp_u32 models
   the whole function dcache_key_compare on the key bytes -- the two loads
   *((const sqfs_u32 * )l), *((const sqfs_u32 * )r), then the same expression *)
Lemma cmp_u32_is_key_compare a b :
  cmp_u32 a b = key_compare (RbModel.rd_le (firstn kbytes a)) (RbModel.rd_le (firstn kbytes b)).
Proof. reflexivity. Qed.

Lemma cmp_u32_order_from_sign :
  (forall a b, (cmp_u32 a b < 0 <-> 0 < cmp_u32 b a)%Z) /\
  (forall a b c, (cmp_u32 a b <= 0 -> cmp_u32 b c <= 0 -> cmp_u32 a c <= 0)%Z).
Proof.
  split.
  - intros a b. rewrite !cmp_u32_is_key_compare.
    set (x := RbModel.rd_le (firstn kbytes a)). set (y := RbModel.rd_le (firstn kbytes b)).
    pose proof (key_compare_sign x y) as (A1 & A2 & A3). pose proof (key_compare_sign y x) as (B1 & B2 & B3).
    split; intro H.
    + apply Z.gt_lt, B3, A1, H.
    + apply A1, B3, Z.lt_gt, H.
  - intros a b c. rewrite !cmp_u32_is_key_compare.
    set (x := RbModel.rd_le (firstn kbytes a)). set (y := RbModel.rd_le (firstn kbytes b)).
    set (z := RbModel.rd_le (firstn kbytes c)).
    pose proof (key_compare_sign x y) as (A1 & A2 & A3). pose proof (key_compare_sign y z) as (B1 & B2 & B3).
    pose proof (key_compare_sign x z) as (C1 & C2 & C3).
    intros H1 H2.
    assert (X : x <= y).
    { destruct (Z.eq_dec (key_compare x y) 0) as [E|E]; [apply A2 in E; lia|].
      assert (L : (key_compare x y < 0)%Z) by lia. apply A1 in L. lia. }
    assert (Y : y <= z).
    { destruct (Z.eq_dec (key_compare y z) 0) as [E|E]; [apply B2 in E; lia|].
      assert (L : (key_compare y z < 0)%Z) by lia. apply B1 in L. lia. }
    destruct (Z_le_gt_dec (key_compare x z) 0) as [L|G]; [exact L|]. apply C3 in G. lia.
Qed.

(* the byte comparator of an abstract comparator that is a strict total order on sqfs_u32
   values is an order in the sense of coq/Util *)
Lemma lift_antisym cmp : strict_total cmp -> forall a b, (lift cmp a b < 0 <-> 0 < lift cmp b a)%Z.
Proof.
  intros ST a b. unfold lift.
  destruct (ST (dec_key a) (dec_key b) (dec_key a) (dec_key_lt a) (dec_key_lt b) (dec_key_lt a)) as (_ & S & _).
  split; intro H; [apply Z.gt_lt, S, H|apply S, Z.lt_gt, H].
Qed.

Lemma lift_trans cmp : strict_total cmp ->
  forall a b c, (lift cmp a b <= 0 -> lift cmp b c <= 0 -> lift cmp a c <= 0)%Z.
Proof.
  intros ST a b c. unfold lift.
  set (x := dec_key a). set (y := dec_key b). set (z := dec_key c).
  pose proof (dec_key_lt a) as X. pose proof (dec_key_lt b) as Y. pose proof (dec_key_lt c) as Z0.
  fold x in X. fold y in Y. fold z in Z0.
  destruct (ST x y z X Y Z0) as (E1 & _ & T1).
  destruct (ST y z y Y Z0 Y) as (E2 & _ & _).
  intros H1 H2.
  destruct (Z.eq_dec (cmp x y) 0) as [A|A].
  - apply E1 in A. rewrite A. exact H2.
  - destruct (Z.eq_dec (cmp y z) 0) as [B|B].
    + apply E2 in B. rewrite <- B. exact H1.
    + assert (L : (cmp x z < 0)%Z) by (apply T1; lia). lia.
Qed.

Lemma lift_keys cmp : strict_total cmp ->
  forall k k', k < u32m -> k' < u32m -> (lift cmp (enc_key k') (enc_key k) = 0%Z <-> k' = k).
Proof.
  intros ST k k' K K'. unfold lift. rewrite !dec_enc_key by assumption.
  destruct (ST k' k k' K' K K') as (E & _). exact E.
Qed.

Lemma cmp_u32_keys k k' : k < u32m -> k' < u32m -> (cmp_u32 (enc_key k') (enc_key k) = 0%Z <-> k' = k).
Proof.
  intros K K'. rewrite cmp_u32_is_key_compare, !rd_key by assumption.
  apply key_compare_sign.
Qed.

(* on keys that are the bytes of numbers < 2^32 -- all the tree ever sees -- the comparator of the
   abstract model, brought to the byte level, IS Util's model of the C function *)
Lemma lift_key_compare_cmp_u32 a b : inr a -> inr b -> lift key_compare a b = cmp_u32 a b.
Proof.
  unfold lift, dec_key, inr. intros A B. rewrite !N.mod_small by assumption. reflexivity.
Qed.

(* ------------------------------------------------------------------ *)
(* sorted insertion, find                                               *)
(* ------------------------------------------------------------------ *)

Lemma find_ins_sorted cmp ks (f : elem -> bool) x : forall l,
  (f x = true -> forall y, In y l -> f y = false) ->
  find f (ins_sorted cmp ks x l) = if f x then Some x else find f l.
Proof.
  induction l as [|y r IH]; intro H; cbn [ins_sorted find]; [reflexivity|].
  destruct (cmp (key ks x) (key ks y) <? 0)%Z; cbn [find]; [reflexivity|].
  rewrite IH by (intros F z Hz; apply H; [exact F|right; exact Hz]).
  destruct (f x) eqn:Fx; [|reflexivity].
  rewrite (H eq_refl y (or_introl eq_refl)). reflexivity.
Qed.

Lemma lenN_ins_sorted cmp ks x l : lenN (ins_sorted cmp ks x l) = lenN l + 1.
Proof.
  unfold lenN. induction l as [|y r IH]; cbn [ins_sorted]; [reflexivity|].
  destruct (cmp (key ks x) (key ks y) <? 0)%Z; cbn [length]; lia.
Qed.

Definition elem_val (vs : N) (e : elem) : N := dec_val (firstnN vs (skipnN (snd (fst e)) (snd e))).

Lemma rtb_lookup_find bc tr next k :
  rtb_lookup bc (Some (tr, next)) k
  = option_map (elem_val (rb_value_size tr)) (node_elem (rbtree_lookup bc tr (enc_key k))).
Proof. unfold rtb_lookup. destruct (rbtree_lookup bc tr (enc_key k)); reflexivity. Qed.

(* ------------------------------------------------------------------ *)
(* the real tree is a finite map on sqfs_u32 keys                       *)
(* ------------------------------------------------------------------ *)

Definition sizes_ok (tr : rbtree) : Prop :=
  rb_key_size tr = c10rb_key_size /\ rb_key_size_padded tr = c10rb_key_size_padded /\
  rb_value_size tr = c10rb_value_size.

(* the state of the cache: a tree (no NULL dereference happened) that satisfies the invariant
   of coq/Util (search order, red-black shape, node layout), holds pairwise different keys,
   has the sizes rbtree_init got, holds only keys that are the bytes of numbers < 2^32, and
   consists of as many nodes as were allocated *)
Definition rtb_inv (bc : list N -> list N -> Z) (t : rt) : Prop :=
  exists tr next, t = Some (tr, next) /\ rbtree_inv bc tr /\
    ssorted bc (rb_key_size tr) (elements (rb_root tr)) /\ sizes_ok tr /\
    Forall (fun e => inr (key (rb_key_size tr) e)) (elements (rb_root tr)) /\
    next = lenN (elements (rb_root tr)).

Section RealMap.
Variable bc : list N -> list N -> Z.     (* the comparator on key bytes the tree calls *)
Hypothesis bc_antisym : forall a b, (bc a b < 0 <-> 0 < bc b a)%Z.
Hypothesis bc_trans : forall a b c, (bc a b <= 0 -> bc b c <= 0 -> bc a c <= 0)%Z.
Hypothesis bc_keys : forall k k', k < u32m -> k' < u32m -> (bc (enc_key k') (enc_key k) = 0%Z <-> k' = k).

Lemma rtb_empty_inv : rtb_inv bc rt_empty.
Proof.
  exists (mk_rbtree Leaf c10rb_key_size c10rb_key_size_padded c10rb_value_size), 0.
  split; [reflexivity|]. split.
  - destruct (rbtree_init_inv bc c10rb_key_size c10rb_value_size eq_refl) as (_ & _ & _ & _ & _ & _ & I).
    exact I.
  - split; [constructor|]. split; [repeat split|]. split; [constructor|reflexivity].
Qed.

Lemma rtb_lookup_empty k : rtb_lookup bc rt_empty k = None.
Proof. reflexivity. Qed.

Lemma rtb_insert_law t k v :
  rtb_inv bc t -> k < u32m -> rtb_lookup bc t k = None ->
  rtb_inv bc (rtb_insert bc t k v) /\
  forall k', k' < u32m ->
    rtb_lookup bc (rtb_insert bc t k v) k' = if k' =? k then Some v else rtb_lookup bc t k'.
Proof.
  intros (tr & next & -> & Inv & SS & (K1 & K2 & K3) & KR & NX) Hk Hn.
  assert (L1 : lenN (enc_key k) = rb_key_size tr) by (rewrite K1; apply enc_key_len).
  assert (L2 : lenN (enc_val v) = rb_value_size tr) by (rewrite K3; apply enc_val_len).
  destruct (rbtree_insert_inv bc bc_antisym bc_trans tr next _ _ Inv L1 L2)
    as (t' & E & Inv' & S1 & S2 & S3 & Hel).
  cbn [rtb_insert]. rewrite E.
  set (x := new_elem tr next (enc_key k) (enc_val v)) in *.
  assert (Kx : key (rb_key_size tr) x = enc_key k).
  { unfold x, new_elem, key, e_data. cbn [snd]. apply mkdata_key, L1. }
  assert (Vx : elem_val (rb_value_size tr) x = v).
  { unfold elem_val, x, new_elem. cbn [fst snd]. rewrite mkdata_value; [apply dec_enc_val| |exact L1|exact L2].
    rewrite K1, K2. vm_compute. discriminate. }
  (* the key was absent *)
  assert (Abs : forall e, In e (elements (rb_root tr)) -> bc (enc_key k) (key (rb_key_size tr) e) <> 0%Z).
  { pose proof (rbtree_lookup_spec bc bc_antisym bc_trans tr (enc_key k) Inv) as Sp.
    unfold rtb_lookup in Hn. destruct (rbtree_lookup bc tr (enc_key k)); [exact Sp|discriminate]. }
  assert (SS' : ssorted bc (rb_key_size t') (elements (rb_root t'))).
  { rewrite S1, Hel. apply ins_sorted_ssorted; auto. intros y Hy. rewrite Kx. apply Abs, Hy. }
  split.
  - exists t', (next + 1). split; [reflexivity|]. split; [exact Inv'|]. split; [exact SS'|].
    split; [unfold sizes_ok; rewrite S1, S2, S3; auto|]. split.
    + rewrite S1, Hel. apply Forall_forall. intros e He. apply ins_sorted_In in He. destruct He as [->|He].
      * rewrite Kx. apply enc_key_inr, Hk.
      * rewrite Forall_forall in KR. apply KR, He.
    + rewrite Hel, NX. symmetry. apply lenN_ins_sorted.
  - intros k' Hk'. rewrite !rtb_lookup_find. unfold rbtree_lookup.
    rewrite (lookup_eq_find bc _ bc_antisym bc_trans _ _ SS'), (lookup_eq_find bc _ bc_antisym bc_trans _ _ SS).
    rewrite S1, S3, Hel. unfold amap_find.
    rewrite find_ins_sorted.
    + rewrite Kx. destruct (N.eqb_spec k' k) as [->|Ne].
      * replace (bc (enc_key k) (enc_key k) =? 0)%Z with true
          by (symmetry; apply Z.eqb_eq, bc_keys; auto).
        cbn [option_map]. rewrite Vx. reflexivity.
      * replace (bc (enc_key k') (enc_key k) =? 0)%Z with false; [reflexivity|].
        symmetry. apply Z.eqb_neq. intro F. apply bc_keys in F; auto.
    + rewrite Kx. intros F y Hy. apply Z.eqb_eq in F. apply bc_keys in F; auto. subst k'.
      apply Z.eqb_neq. apply Abs, Hy.
Qed.

Lemma rtb_map_laws : map_laws rt_empty (rtb_lookup bc) (rtb_insert bc).
Proof.
  exists (rtb_inv bc). split; [apply rtb_empty_inv|]. split; [intros; apply rtb_lookup_empty|].
  intros t k v I K L. apply rtb_insert_law; assumption.
Qed.

End RealMap.

(* ---- with Util's model of dcache_key_compare ---- *)
Lemma real_map_laws_cmp_u32 : map_laws rt_empty (rtb_lookup cmp_u32) (rtb_insert cmp_u32).
Proof.
  destruct cmp_u32_order_from_sign as [A T].
  exact (rtb_map_laws cmp_u32 A T cmp_u32_keys).
Qed.

(* ---- as the container of DotModel.v: for EVERY comparator that is a strict total order ---- *)
Theorem real_contract : rbtree_contract rt_empty rt_lookup rt_insert.
Proof.
  intros cmp ST.
  exact (rtb_map_laws (lift cmp) (lift_antisym cmp ST) (lift_trans cmp ST) (lift_keys cmp ST)).
Qed.

(* ------------------------------------------------------------------ *)
(* on the trees the reader builds, [lift key_compare] and cmp_u32       *)
(* drive the tree through the same steps                                *)
(* ------------------------------------------------------------------ *)

Lemma lookup_node_agree c1 c2 ks k : forall t,
  (forall e, In e (elements t) -> c1 k (key ks e) = c2 k (key ks e)) ->
  lookup_node c1 ks t k = lookup_node c2 ks t k.
Proof.
  induction t as [|i l IHl c v d r IHr]; intro H; cbn [lookup_node]; [reflexivity|].
  assert (E : c1 k (firstnN ks d) = c2 k (firstnN ks d)).
  { apply (H (i, v, d)). cbn [elements]. apply in_or_app. right. left. reflexivity. }
  rewrite E.
  rewrite IHl by (intros e He; apply H; cbn [elements]; apply in_or_app; left; exact He).
  rewrite IHr by (intros e He; apply H; cbn [elements]; apply in_or_app; right; right; exact He).
  reflexivity.
Qed.

Lemma subtree_insert_agree c1 c2 ks new : forall t,
  (forall e, In e (elements t) -> c1 (node_key ks new) (key ks e) = c2 (node_key ks new) (key ks e)) ->
  subtree_insert c1 ks t new = subtree_insert c2 ks t new.
Proof.
  induction t as [|i l IHl c v d r IHr]; intro H; cbn [subtree_insert]; [reflexivity|].
  assert (E : c1 (node_key ks new) (firstnN ks d) = c2 (node_key ks new) (firstnN ks d)).
  { apply (H (i, v, d)). cbn [elements]. apply in_or_app. right. left. reflexivity. }
  rewrite E.
  rewrite IHl by (intros e He; apply H; cbn [elements]; apply in_or_app; left; exact He).
  rewrite IHr by (intros e He; apply H; cbn [elements]; apply in_or_app; right; right; exact He).
  reflexivity.
Qed.

(* the state of a reader's cache in terms of Util's comparator *)
Definition rt_good : rt -> Prop := rtb_inv cmp_u32.

Lemma rt_ops_cmp_u32 t k :
  rt_good t -> k < u32m ->
  rt_lookup key_compare t k = rtb_lookup cmp_u32 t k /\
  forall v, rt_insert key_compare t k v = rtb_insert cmp_u32 t k v.
Proof.
  intros (tr & next & -> & Inv & SS & (K1 & K2 & K3) & KR & NX) Hk.
  rewrite Forall_forall in KR.
  assert (A : forall e, In e (elements (rb_root tr)) ->
              lift key_compare (enc_key k) (key (rb_key_size tr) e) = cmp_u32 (enc_key k) (key (rb_key_size tr) e)).
  { intros e He. apply lift_key_compare_cmp_u32; [apply enc_key_inr, Hk|apply KR, He]. }
  split.
  - unfold rt_lookup, rtb_lookup, rbtree_lookup.
    rewrite (lookup_node_agree (lift key_compare) cmp_u32 _ _ _ A). reflexivity.
  - intro v. unfold rt_insert, rtb_insert, rbtree_insert.
    rewrite (subtree_insert_agree (lift key_compare) cmp_u32); [reflexivity|].
    change (node_key (rb_key_size tr) (mknode tr next (enc_key k) (enc_val v)))
      with (firstnN (rb_key_size tr) (mkdata tr (enc_key k) (enc_val v))).
    rewrite mkdata_key by (rewrite K1; apply enc_key_len). exact A.
Qed.

(* the finite-map laws for the operations the reader model performs (comparator argument
   key_compare), with the invariant stated for Util's cmp_u32 *)
Lemma rt_good_empty : rt_good rt_empty.
Proof. apply rtb_empty_inv. Qed.

Lemma rt_good_insert_law t k v :
  rt_good t -> k < u32m -> rt_lookup key_compare t k = None ->
  rt_good (rt_insert key_compare t k v) /\
  forall k', k' < u32m ->
    rt_lookup key_compare (rt_insert key_compare t k v) k'
    = if k' =? k then Some v else rt_lookup key_compare t k'.
Proof.
  intros G K L.
  destruct (rt_ops_cmp_u32 t k G K) as [EL EI]. rewrite EL in L. rewrite EI.
  destruct cmp_u32_order_from_sign as [A T].
  destruct (rtb_insert_law cmp_u32 A T cmp_u32_keys t k v G K L) as [G' Law].
  split; [exact G'|]. intros k' K'.
  destruct (rt_ops_cmp_u32 _ k' G' K') as [-> _]. destruct (rt_ops_cmp_u32 t k' G K') as [-> _].
  apply Law, K'.
Qed.

(* ------------------------------------------------------------------ *)
(* the directory reader on the real tree                                *)
(* ------------------------------------------------------------------ *)

Section Reader.
Variable uncompress : list N -> N -> uresult.
Variable file : N -> N -> rd_res.
Variable fsize : N.

Notation runR := (drun uncompress file fsize rt rt_lookup rt_insert).
Notation getR := (dot_get_inode uncompress file fsize rt rt_lookup rt_insert).
Notation newR := (dot_create rt rt_empty).

Theorem order_free_real sb h1 h2 qs :
  let d1 := snd (runR sb (newR sb) h1) in
  let d2 := snd (runR sb (newR sb) h2) in
  same_set (dr_log d1) (dr_log d2) -> functional (dr_log d1) ->
  fst (runR sb d1 qs) = fst (runR sb d2 qs).
Proof. exact (dcache_order_free_l uncompress file fsize rt rt_empty rt_lookup rt_insert real_contract sb h1 h2 qs). Qed.

Theorem lookup_after_insert_real sb h ref i ops :
  let d := snd (runR sb (newR sb) h) in
  fst (getR sb d ref) = Done (Ok i) -> is_dir_inode i = true ->
  let d1 := snd (getR sb d ref) in
  exists r, resolve_inum rt rt_lookup (dr_t (snd (runR sb d1 ops))) (inum_of i) = Ok r /\
            In (inum_of i, r) (dr_log d1) /\
            (first_assoc (inum_of i) (dr_log d) = None -> r = ref).
Proof.
  exact (dcache_lookup_after_insert_l uncompress file fsize rt rt_empty rt_lookup rt_insert real_contract sb h ref i ops).
Qed.

Theorem monotone_real sb h ops k r :
  let d := snd (runR sb (newR sb) h) in
  resolve_inum rt rt_lookup (dr_t d) k = Ok r ->
  resolve_inum rt rt_lookup (dr_t (snd (runR sb d ops))) k = Ok r.
Proof.
  exact (dcache_answer_stable_l uncompress file fsize rt rt_empty rt_lookup rt_insert real_contract sb h ops k r).
Qed.

(* after every history: the cache is a tree (rbtree_insert never dereferenced NULL) satisfying
   Util's invariant for cmp_u32 with the sizes of rbtree_init and one node per allocation; it
   answers every sqfs_u32 key with the first reference the number was fetched under; and the
   steps it took are those of the tree driven by cmp_u32 *)
Theorem real_tree_good sb h :
  let d := snd (runR sb (newR sb) h) in
  rt_good (dr_t d) /\
  (forall k, k < u32m -> rtb_lookup cmp_u32 (dr_t d) k = first_assoc k (dr_log d)) /\
  (forall k v, k < u32m -> dc_insert rt rt_insert (dr_t d) k v = rtb_insert cmp_u32 (dr_t d) k v).
Proof.
  intro d.
  assert (O : dc_ok rt rt_lookup rt_good d).
  { apply (run_ok uncompress file fsize rt rt_lookup rt_insert rt_good rt_good_insert_law).
    apply create_ok; [exact rt_good_empty|]. intros k _. reflexivity. }
  destruct O as [G L]. split; [exact G|]. split.
  - intros k K. rewrite <- (L k K). symmetry. apply rt_ops_cmp_u32; assumption.
  - intros k v K. apply rt_ops_cmp_u32; assumption.
Qed.

End Reader.

(* ------------------------------------------------------------------ *)
(* witnesses on the real tree                                           *)
(* ------------------------------------------------------------------ *)

(* the insertion sequence of DotProofs.rb_sub_compare_loses_key (1, 2, 2^31+3, 4, 5): with
   dcache_key_compare -- as lifted from the abstract model and as Util's cmp_u32, both build the
   same tree -- every key is found with its value *)
Lemma real_key_compare_finds_all :
  map (rt_lookup key_compare (rt_of (lift key_compare) adversarial_keys)) adversarial_keys
    = map (fun k => Some (k + 1000)) adversarial_keys /\
  rt_of cmp_u32 adversarial_keys = rt_of (lift key_compare) adversarial_keys /\
  rt_keys (rt_of cmp_u32 adversarial_keys) = [1; 2; 4; 5; 2147483651].
Proof. vm_compute. repeat split. Qed.

(* with (int)(lhs - rhs) -- DotModel.sub_compare lifted, and Util's cmp_sub32: again the same
   tree -- the key 2^31+3 is in the tree (first in the in-order sequence) and is not found *)
Lemma real_sub_compare_loses_key :
  rt_of cmp_sub32 adversarial_keys = rt_of (lift sub_compare) adversarial_keys /\
  rt_keys (rt_of (lift sub_compare) adversarial_keys) = [2147483651; 1; 2; 4; 5] /\
  map (rt_lookup sub_compare (rt_of (lift sub_compare) adversarial_keys)) adversarial_keys
    = [Some 1001; Some 1002; None; Some 1004; Some 1005] /\
  rtb_lookup cmp_sub32 (rt_of cmp_sub32 adversarial_keys) 2147483651 = None.
Proof. vm_compute. repeat split. Qed.
