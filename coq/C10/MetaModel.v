(* C10 — model of lib/sqfs/src/meta_reader.c (sqfs_meta_reader_t: create, seek, read,
   get_position) over a file object [file] (sqfs_file_t.read_at as a function of
   offset and size; [read_at img] is the instance for an image [img : list N]) and
   a decompressor oracle.

   Definitions only; proofs are in MetaProofs.v.

   The model follows the code *with props/C10/fixes/F02-meta-reader-stale-tag.patch
   applied* when [fx = true] and the code as found when [fx = false] (the only
   difference: whether the cache tag / data_used / offset / next_block are reset
   before m->data is overwritten and data_used is committed only on success).

   Conventions: bytes are N < 256; machine integers are unbounded N (the places
   where the C code could wrap are unreachable, see the comment at [seek]);
   [m_data] is the fixed array data[SQFS_META_BLOCK_SIZE] as a list (writes
   replace a prefix and keep the rest, like memcpy into the array); scratch[] is
   not part of the state because it is never read before being written. *)
From Coq Require Import List NArith ZArith Bool.
From SqfsV Require Import Gen.Constants Base.Bytes C10.GenC10.
Import ListNotations.
Local Open Scope N_scope.

(* ---- results ---- *)
Inductive out (A : Type) : Type :=
| Ok (a : A)
| Err (e : Z)        (* graceful refusal: the SQFS_ERROR_* value returned *)
| Crash              (* the C code would access memory outside a buffer here *)
| Fuel.              (* model ran out of fuel (proved unreachable) *)
Arguments Ok {A} _.
Arguments Err {A} _.
Arguments Crash {A}.
Arguments Fuel {A}.

Definition is_ok {A} (r : out A) : bool := match r with Ok _ => true | _ => false end.

(* ---- the decompressor oracle: do_block(cmp, in, size, out, outsize) ---- *)
Inductive uresult :=
| UErr (e : Z)                         (* ret < 0 *)
| UOk (bytes : list N) (rest : list N).
  (* ret = length bytes; [rest] = what out[ret .. outsize) holds afterwards: a codec may scribble
     there (LZ4/zstd wild copies do) and data_reader.c exposes those bytes on damaged images *)

(* ---- the file: sqfs_file_t.read_at of lib/sqfs/src/io/file.c (pread loop) ---- *)
Definition len (l : list N) : N := N.of_nat (length l).
Definition slice (l : list N) (off n : N) : list N :=
  firstn (N.to_nat n) (skipn (N.to_nat off) l).

Inductive rd_res :=
| RdOk (bytes : list N)
| RdErr (e : Z) (partial : list N).   (* error; [partial] was already copied to the buffer *)

Definition off_t_limit : N := 9223372036854775808. (* 2^63: pread fails with EINVAL beyond *)

Definition read_at (img : list N) (off n : N) : rd_res :=
  if n =? 0 then RdOk []
  else if off_t_limit <=? off then RdErr c_SQFS_ERROR_IO []
  else if off + n <=? len img then RdOk (slice img off n)
  else RdErr c_SQFS_ERROR_OUT_OF_BOUNDS (if off <? len img then slice img off n else []).

(* memcpy(buf, new, length new) into a fixed array *)
Definition overwrite (new old : list N) : list N := new ++ skipn (length new) old.
Definition apply_writes (wr : list (list N)) (buf : list N) : list N :=
  fold_left (fun d w => overwrite w d) wr buf.

(* ---- reader state ---- *)
Record mr := mkMr {
  m_start : N; m_limit : N;
  m_used : N;          (* data_used *)
  m_tag : N;           (* block_offset: location of the cached block *)
  m_next : N;          (* next_block *)
  m_off : N;           (* offset *)
  m_data : list N      (* data[] *)
}.

Definition mr_create (start limit : N) : mr :=
  mkMr start limit c10_meta_init_used c10_meta_init_tag c10_meta_init_next c10_meta_init_off
       (repeat 0 (N.to_nat c10_meta_data_cap)).

Definition set_pos (m : mr) (tag next used off : N) : mr :=
  mkMr (m_start m) (m_limit m) used tag next off (m_data m).
Definition set_off (m : mr) (off : N) : mr :=
  mkMr (m_start m) (m_limit m) (m_used m) (m_tag m) (m_next m) off (m_data m).
Definition set_used (m : mr) (used : N) : mr :=
  mkMr (m_start m) (m_limit m) used (m_tag m) (m_next m) (m_off m) (m_data m).
Definition set_data (m : mr) (d : list N) : mr :=
  mkMr (m_start m) (m_limit m) (m_used m) (m_tag m) (m_next m) (m_off m) d.
(* the four assignments added by the F02 patch *)
Definition invalidate (m : mr) : mr :=
  set_pos m c10_meta_init_tag c10_meta_init_next c10_meta_init_used c10_meta_init_off.

(* ---- fetching one block: the part of sqfs_meta_reader_seek after the cache test,
   as a function of the image and the location only ---- *)
Inductive lres :=
| LPre (e : Z)                              (* refused before m->data was touched *)
| LPost (r : out unit) (wr : list (list N)) (* failed after; [wr] = the memcpy's into data[] so far *)
| LOk (pre : list (list N)) (content : list N) (size : N).
      (* data[] := content over the earlier writes [pre]; [size] = on-disk size *)

Section Meta.
Variable uncompress : list N -> N -> uresult.
Variable file : N -> N -> rd_res.   (* sqfs_file_t.read_at: a function of (offset, size) *)
Variable fsize : N.                 (* the size of the file; used for the fuel of the read loop only *)

Definition load (limit b : N) : lres :=
  match file b 2 with
  | RdErr e _ => LPre e                       (* header goes to a local variable *)
  | RdOk hb =>
    let header := rd16 hb in
    let compressed := header <? 32768 in      (* (header & 0x8000) == 0 *)
    let size := header mod 32768 in           (* header & 0x7FFF *)
    if c10_meta_data_cap <? size then LPre c_SQFS_ERROR_CORRUPTED
    else if limit <? b + 2 + size then LPre c_SQFS_ERROR_OUT_OF_BOUNDS
    else match file (b + 2) size with
      | RdErr e part => LPost (Err e) [part]
      | RdOk raw =>
        if compressed then
          match uncompress raw c10_meta_scratch_cap with
          | UErr e => LPost (Err e) [raw]
          | UOk o _ =>
            if c10_meta_data_cap <? len o then LPost Crash [raw]  (* memcpy(m->data, m->scratch, ret) past data[] *)
            else LOk [raw] o size
          end
        else LOk [] raw size
      end
  end.
(* No u64 wrap for a real file: b < limit < 2^64 and the header read at b succeeded, so
   b + 2 <= file size < 2^63 ([read_at] refuses anything else). *)

Variable fx : bool.   (* true: repaired code (F02 patch); false: code as found *)

Definition seek (m : mr) (b o : N) : out unit * mr :=
  if (b <? m_start m) || (m_limit m <=? b) then (Err c_SQFS_ERROR_OUT_OF_BOUNDS, m)
  else if b =? m_tag m then
    if m_used m <=? o then (Err c_SQFS_ERROR_OUT_OF_BOUNDS, m)
    else (Ok tt, set_off m o)
  else
    match load (m_limit m) b with
    | LPre e => (Err e, m)
    | LPost r wr =>
      let m0 := if fx then invalidate m else m in
      (r, set_data m0 (apply_writes wr (m_data m0)))
    | LOk pre content size =>
      let m0 := if fx then invalidate m else m in
      let m1 := set_data m0 (overwrite content (apply_writes pre (m_data m0))) in
      let used := len content in
      if fx then
        if used <=? o then (Err c_SQFS_ERROR_OUT_OF_BOUNDS, m1)
        else (Ok tt, set_pos m1 b (b + size + 2) used o)
      else
        let m2 := set_used m1 used in          (* m->data_used assigned before the test *)
        if used <=? o then (Err c_SQFS_ERROR_OUT_OF_BOUNDS, m2)
        else (Ok tt, set_pos m2 b (b + size + 2) used o)
    end.

Definition get_position (m : mr) : N * N :=
  if m_off m =? m_used m then (m_next m, 0) else (m_tag m, m_off m).

(* size_t subtraction data_used - offset *)
Definition size_t_modulus : N := 18446744073709551616.
Definition sub_size_t (a b : N) : N := if b <=? a then a - b else a + size_t_modulus - b.

Fixpoint read_loop (fuel : nat) (m : mr) (n : N) (acc : list N) : out (list N) * mr :=
  match fuel with
  | O => (Fuel, m)
  | S f =>
    if n =? 0 then (Ok acc, m)
    else
      let diff0 := sub_size_t (m_used m) (m_off m) in
      let '(r, m1) := if diff0 =? 0 then seek m (m_next m) 0 else (Ok tt, m) in
      match r with
      | Ok _ =>
        let diff := if diff0 =? 0 then m_used m1 else diff0 in
        let d := N.min diff n in
        if c10_meta_data_cap <? m_off m1 + d then (Crash, m1)   (* memcpy source runs past data[] *)
        else read_loop f (set_off m1 (m_off m1 + d)) (n - d) (acc ++ slice (m_data m1) (m_off m1) d)
      | Err e => (Err e, m1)
      | Crash => (Crash, m1)
      | Fuel => (Fuel, m1)
      end
  end.

(* every pass but the last delivers at least one byte of the request, and every
   pass but the first fetches a block header strictly further into the file *)
Definition read_fuel (n : N) : nat := S (S (S (S (N.to_nat (N.min n fsize))))).
Definition read (m : mr) (n : N) : out (list N) * mr := read_loop (read_fuel n) m n [].

(* ---- histories ---- *)
Inductive mop := MSeek (b o : N) | MRead (n : N) | MGetPos.
Inductive mresult := RSeek (r : out unit) | RRead (r : out (list N)) | RPos (p : N * N).

Definition step (m : mr) (op : mop) : mresult * mr :=
  match op with
  | MSeek b o => let '(r, m') := seek m b o in (RSeek r, m')
  | MRead n => let '(r, m') := read m n in (RRead r, m')
  | MGetPos => (RPos (get_position m), m)
  end.

Fixpoint run (m : mr) (ops : list mop) : list mresult * mr :=
  match ops with
  | [] => ([], m)
  | op :: rest =>
    let '(r, m') := step m op in
    let '(rs, m'') := run m' rest in (r :: rs, m'')
  end.

(* ---- the stateless specification ----
   The only thing a reader legitimately remembers is its position: the block it
   is in and the byte offset.  [canon p] is a reader that has just fetched the
   block of position p from the image; "spec of a call" = that call on [canon p]. *)
Definition position := option (N * N).
Definition pos_of (m : mr) : position :=
  if m_tag m =? c10_meta_init_tag then None else Some (m_tag m, m_off m).

Definition canon (start limit : N) (p : position) : mr :=
  match p with
  | None => mr_create start limit
  | Some (b, o) =>
    match load limit b with
    | LOk _ content size =>
      mkMr start limit (len content) b (b + size + 2) o
           (overwrite content (repeat 0 (N.to_nat c10_meta_data_cap)))
    | _ => mr_create start limit
    end
  end.

Definition spec_step (start limit : N) (p : position) (op : mop) : mresult :=
  fst (step (canon start limit p) op).

End Meta.
