(* GENERATED from /repo sources by props/C10/gen_c10.c -- do not edit *)
From Coq Require Import NArith.
Local Open Scope N_scope.
Definition c10_meta_data_cap : N := 8192.
Definition c10_meta_scratch_cap : N := 8192.
Definition c10_meta_init_tag : N := 18446744073709551615.
Definition c10_meta_init_next : N := 0.
Definition c10_meta_init_used : N := 0.
Definition c10_meta_init_off : N := 0.
Definition c10_blk_flag_bits : N := 1.
Definition c10_blk_uncompressed_flag : N := 16777216.
Definition c10_blk_size_modulus : N := 16777216.
Definition c10_sparse_is_size_zero : N := 1.
Definition c10_S_IFMT : N := 61440.
Definition c10_S_IFSOCK : N := 49152.
Definition c10_S_IFLNK : N := 40960.
Definition c10_S_IFREG : N := 32768.
Definition c10_S_IFBLK : N := 24576.
Definition c10_S_IFDIR : N := 16384.
Definition c10_S_IFCHR : N := 8192.
Definition c10_S_IFIFO : N := 4096.
Definition c10_XATTR_FLAG_OOL : N := 256.
Definition c10_XATTR_PREFIX_MASK : N := 255.
Definition c10_XATTR_USER : N := 0.
Definition c10_XATTR_TRUSTED : N := 1.
Definition c10_XATTR_SECURITY : N := 2.
