(* C10 — proofs about the data reader model (repaired code, fx = true): the two
   block caches are coherent after every history, and every answer equals the
   answer of a reader with empty caches holding the same fragment table. *)
From Coq Require Import List NArith ZArith Bool Lia.
From SqfsV Require Import Gen.Constants Base.Bytes C10.GenC10 C10.MetaModel C10.ClientModel C10.DataModel.
Import ListNotations.
Local Open Scope N_scope.

Section DataP.
Variable uncompress : list N -> N -> uresult.
Variable file : N -> N -> rd_res.
Variable fsize : N.
Variable bs : N.

Notation getb := (get_block uncompress file).
Notation pdata := (precache_data uncompress file bs true).
Notation pfrag := (precache_frag uncompress file bs).
Notation dstepT := (dstep uncompress file fsize bs true).
Notation drunT := (drun uncompress file fsize bs true).

Definition to_unit {A} (r : out A) : out unit :=
  match r with Ok _ => Ok tt | Err e => Err e | Crash => Crash | Fuel => Fuel end.

(* what a fresh lookup + load of fragment block idx yields *)
Definition frag_lookup (tbl : list (N * N)) (idx : N) : out blockbuf :=
  if len_tbl tbl <=? idx then Err c_SQFS_ERROR_OUT_OF_BOUNDS
  else match nth_error tbl (N.to_nat idx) with
       | None => Err c_SQFS_ERROR_OUT_OF_BOUNDS
       | Some (start, w) => getb start w bs
       end.

(* cache coherence: a cached block is exactly what unpacking its key yields now *)
Definition dcoherent (d : dr) : Prop :=
  (forall loc w b, d_blk d = Some (loc, w, b) -> getb loc w bs = Ok b) /\
  (forall idx b, d_frag d = Some (idx, b) -> frag_lookup (d_tbl d) idx = Ok b).

Lemma create_dcoherent : dcoherent dr_create.
Proof. split; cbn; intros; discriminate. Qed.

Lemma empty_dcoherent tbl : dcoherent (mkDr tbl None None).
Proof. split; cbn; intros; discriminate. Qed.

Lemma dcoh_set_blk d loc w b :
  dcoherent d -> getb loc w bs = Ok b -> dcoherent (set_blk d (Some (loc, w, b))).
Proof.
  intros [CB CF] G. split; cbn.
  - intros l w' b' H. inversion H; subst. exact G.
  - exact CF.
Qed.

Lemma dcoh_set_blk_none d : dcoherent d -> dcoherent (set_blk d None).
Proof. intros [CB CF]. split; cbn; [intros; discriminate|exact CF]. Qed.

Lemma dcoh_set_frag d idx b :
  dcoherent d -> frag_lookup (d_tbl d) idx = Ok b -> dcoherent (set_frag d (Some (idx, b))).
Proof.
  intros [CB CF] G. split; cbn.
  - exact CB.
  - intros i b' H. inversion H; subst. exact G.
Qed.

Lemma dcoh_set_frag_none d : dcoherent d -> dcoherent (set_frag d None).
Proof. intros [CB CF]. split; cbn; [exact CB|intros; discriminate]. Qed.

(* the miss path of precache_data_block *)
Definition pdata_miss (d : dr) (loc w : N) : out unit * dr :=
  match getb loc w bs with
  | Ok b => (Ok tt, set_blk d (Some (loc, w, b)))
  | Err e => (Err e, set_blk d None)
  | Crash => (Crash, set_blk d None)
  | Fuel => (Fuel, set_blk d None)
  end.

Lemma pdata_miss_char d loc w r d' :
  dcoherent d -> pdata_miss d loc w = (r, d') ->
  r = to_unit (getb loc w bs) /\ dcoherent d' /\ d_tbl d' = d_tbl d /\
  (forall b, getb loc w bs = Ok b -> blk_buf d' = fst b).
Proof.
  intros C. unfold pdata_miss.
  destruct (getb loc w bs) as [b|e| |] eqn:G; intro H; inversion H; subst r d'; clear H.
  - split; [reflexivity|]. split; [apply dcoh_set_blk; assumption|]. split; [reflexivity|].
    intros b' Hb. inversion Hb; subst b'. cbn. destruct b; reflexivity.
  - split; [reflexivity|]. split; [apply dcoh_set_blk_none; assumption|]. split; [reflexivity|]. intros; discriminate.
  - split; [reflexivity|]. split; [apply dcoh_set_blk_none; assumption|]. split; [reflexivity|]. intros; discriminate.
  - split; [reflexivity|]. split; [apply dcoh_set_blk_none; assumption|]. split; [reflexivity|]. intros; discriminate.
Qed.

Lemma pdata_char d loc w r d' :
  dcoherent d -> pdata d loc w = (r, d') ->
  r = to_unit (getb loc w bs) /\ dcoherent d' /\ d_tbl d' = d_tbl d /\
  (forall b, getb loc w bs = Ok b -> blk_buf d' = fst b).
Proof.
  intros C. unfold precache_data. fold (pdata_miss d loc w).
  destruct (d_blk d) as [[[l w'] b0]|] eqn:E; [|apply pdata_miss_char; exact C].
  destruct (N.eqb_spec l loc) as [El|El]; cbn [andb]; [|apply pdata_miss_char; exact C].
  destruct (N.eqb_spec w' w) as [Ew|Ew]; [|apply pdata_miss_char; exact C].
  subst l w'. destruct C as [CB CF]. pose proof (CB _ _ _ E) as G.
  intro H; inversion H; subst r d'; clear H.
  rewrite G. split; [reflexivity|]. split; [split; assumption|]. split; [reflexivity|].
  intros b Hb. inversion Hb; subst b. unfold blk_buf. rewrite E. destruct b0; reflexivity.
Qed.

(* the miss path of precache_fragment_block *)
Definition pfrag_miss (d : dr) (idx : N) : out unit * dr :=
  if len_tbl (d_tbl d) <=? idx then (Err c_SQFS_ERROR_OUT_OF_BOUNDS, d)
  else match nth_error (d_tbl d) (N.to_nat idx) with
       | None => (Err c_SQFS_ERROR_OUT_OF_BOUNDS, d)
       | Some (start, w) =>
         match getb start w bs with
         | Ok b => (Ok tt, set_frag d (Some (idx, b)))
         | Err e => (Err e, set_frag d None)
         | Crash => (Crash, set_frag d None)
         | Fuel => (Fuel, set_frag d None)
         end
       end.

Lemma pfrag_miss_char d idx r d' :
  dcoherent d -> pfrag_miss d idx = (r, d') ->
  r = to_unit (frag_lookup (d_tbl d) idx) /\ dcoherent d' /\ d_tbl d' = d_tbl d /\
  (forall b, frag_lookup (d_tbl d) idx = Ok b -> frag_buf d' = b).
Proof.
  intros C. unfold pfrag_miss.
  assert (FL : frag_lookup (d_tbl d) idx =
               if len_tbl (d_tbl d) <=? idx then Err c_SQFS_ERROR_OUT_OF_BOUNDS
               else match nth_error (d_tbl d) (N.to_nat idx) with
                    | None => Err c_SQFS_ERROR_OUT_OF_BOUNDS
                    | Some (start, w) => getb start w bs end) by reflexivity.
  destruct (len_tbl (d_tbl d) <=? idx).
  { intro H; inversion H; subst r d'; clear H. rewrite FL. repeat split; try assumption; try apply C. intros; discriminate. }
  destruct (nth_error (d_tbl d) (N.to_nat idx)) as [[start w]|].
  2:{ intro H; inversion H; subst r d'; clear H. rewrite FL. repeat split; try assumption; try apply C. intros; discriminate. }
  destruct (getb start w bs) as [b|e| |] eqn:G; intro H; inversion H; subst r d'; clear H; rewrite FL.
  - split; [reflexivity|]. split; [apply dcoh_set_frag; [assumption|rewrite FL; reflexivity]|]. split; [reflexivity|].
    intros b' Hb. inversion Hb; subst b'. reflexivity.
  - split; [reflexivity|]. split; [apply dcoh_set_frag_none; assumption|]. split; [reflexivity|]. intros; discriminate.
  - split; [reflexivity|]. split; [apply dcoh_set_frag_none; assumption|]. split; [reflexivity|]. intros; discriminate.
  - split; [reflexivity|]. split; [apply dcoh_set_frag_none; assumption|]. split; [reflexivity|]. intros; discriminate.
Qed.

Lemma pfrag_char d idx r d' :
  dcoherent d -> pfrag d idx = (r, d') ->
  r = to_unit (frag_lookup (d_tbl d) idx) /\ dcoherent d' /\ d_tbl d' = d_tbl d /\
  (forall b, frag_lookup (d_tbl d) idx = Ok b -> frag_buf d' = b).
Proof.
  intros C. unfold precache_frag. fold (pfrag_miss d idx).
  destruct (d_frag d) as [[i b0]|] eqn:E; [|apply pfrag_miss_char; exact C].
  destruct (N.eqb_spec i idx) as [Ei|Ei]; [|apply pfrag_miss_char; exact C].
  subst i. destruct C as [CB CF]. pose proof (CF _ _ E) as G.
  intro H; inversion H; subst r d'; clear H.
  rewrite G. split; [reflexivity|]. split; [split; assumption|]. split; [reflexivity|].
  intros b Hb. inversion Hb; subst b. unfold frag_buf. rewrite E. reflexivity.
Qed.


(* ---------------- any two coherent readers with the same table agree ---------------- *)

Definition R (d1 d2 : dr) : Prop := dcoherent d1 /\ dcoherent d2 /\ d_tbl d1 = d_tbl d2.

Lemma to_unit_ok {A} (r : out A) : to_unit r = Ok tt -> exists a, r = Ok a.
Proof. destruct r; cbn; try discriminate. eauto. Qed.

Lemma pdata_R d1 d2 loc w :
  R d1 d2 ->
  fst (pdata d1 loc w) = fst (pdata d2 loc w) /\
  R (snd (pdata d1 loc w)) (snd (pdata d2 loc w)) /\ d_tbl (snd (pdata d1 loc w)) = d_tbl d1 /\
  (fst (pdata d1 loc w) = Ok tt -> blk_buf (snd (pdata d1 loc w)) = blk_buf (snd (pdata d2 loc w))).
Proof.
  intros (C1 & C2 & T).
  destruct (pdata d1 loc w) as [r1 d1'] eqn:E1. destruct (pdata d2 loc w) as [r2 d2'] eqn:E2.
  destruct (pdata_char _ _ _ _ _ C1 E1) as (A1 & A2 & A3 & A4).
  destruct (pdata_char _ _ _ _ _ C2 E2) as (B1 & B2 & B3 & B4).
  cbn [fst snd]. split; [congruence|]. split; [split; [assumption|split; [assumption|congruence]]|]. split; [assumption|].
  intro H. rewrite A1 in H. destruct (to_unit_ok _ H) as [b Hb]. rewrite (A4 _ Hb), (B4 _ Hb). reflexivity.
Qed.

Lemma pfrag_R d1 d2 idx :
  R d1 d2 ->
  fst (pfrag d1 idx) = fst (pfrag d2 idx) /\
  R (snd (pfrag d1 idx)) (snd (pfrag d2 idx)) /\ d_tbl (snd (pfrag d1 idx)) = d_tbl d1 /\
  (fst (pfrag d1 idx) = Ok tt -> frag_buf (snd (pfrag d1 idx)) = frag_buf (snd (pfrag d2 idx))).
Proof.
  intros (C1 & C2 & T).
  destruct (pfrag d1 idx) as [r1 d1'] eqn:E1. destruct (pfrag d2 idx) as [r2 d2'] eqn:E2.
  destruct (pfrag_char _ _ _ _ C1 E1) as (A1 & A2 & A3 & A4).
  destruct (pfrag_char _ _ _ _ C2 E2) as (B1 & B2 & B3 & B4).
  cbn [fst snd]. rewrite <- T in B1, B4.
  split; [congruence|]. split; [split; [assumption|split; [assumption|congruence]]|]. split; [assumption|].
  intro H. rewrite A1 in H. destruct (to_unit_ok _ H) as [b Hb]. rewrite (A4 _ Hb), (B4 _ Hb). reflexivity.
Qed.

Notation copyb := (copy_blocks uncompress file bs true).

Lemma copy_blocks_R blocks : forall d1 d2 off offset size acc,
  R d1 d2 ->
  fst (copyb d1 blocks off offset size acc) = fst (copyb d2 blocks off offset size acc) /\
  R (snd (copyb d1 blocks off offset size acc)) (snd (copyb d2 blocks off offset size acc)) /\
  d_tbl (snd (copyb d1 blocks off offset size acc)) = d_tbl d1.
Proof.
  induction blocks as [|w rest IH]; intros d1 d2 off offset size acc Rd.
  - cbn. auto.
  - cbn [copy_blocks].
    destruct (size =? 0); [cbn; auto|].
    destruct (is_sparse w); [apply IH; exact Rd|].
    destruct (pdata_R d1 d2 off w Rd) as (E & Rp & Tp & Bp).
    destruct (pdata d1 off w) as [r1 d1'] eqn:E1. destruct (pdata d2 off w) as [r2 d2'] eqn:E2.
    cbn [fst snd] in *. subst r2.
    destruct r1 as [[]|e| |]; try (cbn; auto).
    rewrite (Bp eq_refl).
    destruct (IH d1' d2' ((off + on_disk w) mod u64m) 0 (size - N.min (bs - offset) size)
                 (acc ++ slice (blk_buf d2') offset (N.min (bs - offset) size)) Rp) as (I1 & I2 & I3).
    split; [exact I1|]. split; [exact I2|]. congruence.
Qed.

Notation areadT := (api_read uncompress file bs true).

Lemma api_read_R d1 d2 f offset size :
  R d1 d2 ->
  fst (areadT d1 f offset size) = fst (areadT d2 f offset size) /\
  R (snd (areadT d1 f offset size)) (snd (areadT d2 f offset size)) /\
  d_tbl (snd (areadT d1 f offset size)) = d_tbl d1.
Proof.
  intro Rd. unfold api_read.
  destruct (f_size f <=? offset); [cbn; auto|].
  set (sz := if f_size f - offset <? (if 2147483647 <=? size then 2147483646 else size)
             then f_size f - offset else (if 2147483647 <=? size then 2147483646 else size)).
  destruct (sz =? 0); [cbn; auto|].
  destruct (skip_blocks bs (f_blocks f) (f_start f) offset) as [[blocks off] offset'].
  destruct (copy_blocks_R blocks d1 d2 off offset' sz [] Rd) as (E & Rp & Tp).
  destruct (copyb d1 blocks off offset' sz []) as [r1 d1'] eqn:E1.
  destruct (copyb d2 blocks off offset' sz []) as [r2 d2'] eqn:E2.
  cbn [fst snd] in *. subst r2.
  destruct r1 as [[[acc o2] s2]|e| |]; try (cbn; auto).
  destruct (s2 =? 0); [cbn; auto|].
  destruct (pfrag_R d1' d2' (f_frag_idx f) Rp) as (F & Rf & Tf & Bf).
  destruct (pfrag d1' (f_frag_idx f)) as [q1 e1] eqn:Q1. destruct (pfrag d2' (f_frag_idx f)) as [q2 e2] eqn:Q2.
  cbn [fst snd] in *. subst q2.
  destruct q1 as [[]|e| |]; try (cbn; split; [reflexivity|split; [assumption|congruence]]).
  rewrite (Bf eq_refl).
  destruct (frag_buf e2) as [fb fsz].
  destruct (fsz <=? f_frag_off f + o2); [cbn; split; [reflexivity|split; [assumption|congruence]]|].
  destruct (fsz - (f_frag_off f + o2) <? s2); cbn; (split; [reflexivity|split; [assumption|congruence]]).
Qed.

Notation agetf := (api_get_fragment uncompress file bs).

Lemma api_get_fragment_R d1 d2 f :
  R d1 d2 ->
  fst (agetf d1 f) = fst (agetf d2 f) /\ R (snd (agetf d1 f)) (snd (agetf d2 f)) /\
  d_tbl (snd (agetf d1 f)) = d_tbl d1.
Proof.
  intro Rd. unfold api_get_fragment.
  destruct (f_size f <=? len (f_blocks f) * bs); [cbn; auto|].
  destruct (pfrag_R d1 d2 (f_frag_idx f) Rd) as (F & Rf & Tf & Bf).
  destruct (pfrag d1 (f_frag_idx f)) as [q1 e1] eqn:Q1. destruct (pfrag d2 (f_frag_idx f)) as [q2 e2] eqn:Q2.
  cbn [fst snd] in *. subst q2.
  destruct q1 as [[]|e| |]; try (cbn; auto).
  rewrite (Bf eq_refl).
  destruct (snd (frag_buf e2) <? f_frag_off f + f_size f mod bs); cbn; auto.
Qed.

Notation refill := (stream_refill uncompress file bs).

Lemma stream_refill_R d1 d2 s :
  R d1 d2 ->
  fst (refill d1 s) = fst (refill d2 s) /\ R (snd (refill d1 s)) (snd (refill d2 s)) /\
  d_tbl (snd (refill d1 s)) = d_tbl d1.
Proof.
  intro Rd. unfold stream_refill.
  destruct (s_filesz s =? 0); [cbn; auto|].
  destruct (s_blocks s) as [|w rest].
  - destruct (pfrag_R d1 d2 (s_frag_idx s) Rd) as (F & Rf & Tf & Bf).
    destruct (pfrag d1 (s_frag_idx s)) as [q1 e1] eqn:Q1. destruct (pfrag d2 (s_frag_idx s)) as [q2 e2] eqn:Q2.
    cbn [fst snd] in *. subst q2.
    destruct q1 as [[]|e| |]; try (cbn; auto).
    rewrite (Bf eq_refl).
    destruct (frag_buf e2) as [fb fsz].
    destruct ((fsz <? s_frag_off s) || (fsz - s_frag_off s <? (if s_filesz s <? bs then s_filesz s else bs))); cbn; auto.
  - destruct (on_disk w =? 0); [cbn; auto|].
    destruct (bs <? on_disk w); [cbn; auto|].
    destruct (file (s_disk_off s) (on_disk w)); [|cbn; auto].
    destruct (is_compressed w); [|cbn; auto].
    destruct (uncompress bytes (if s_filesz s <? bs then s_filesz s else bs)); [cbn; auto|].
    destruct (len bytes0 =? 0); [cbn; auto|].
    destruct ((if s_filesz s <? bs then s_filesz s else bs) <? len bytes0); cbn; auto.
Qed.

Notation sloop := (stream_read_loop uncompress file bs).

Lemma stream_read_loop_R fuel : forall d1 d2 s n acc,
  R d1 d2 ->
  fst (sloop fuel d1 s n acc) = fst (sloop fuel d2 s n acc) /\
  R (snd (sloop fuel d1 s n acc)) (snd (sloop fuel d2 s n acc)) /\
  d_tbl (snd (sloop fuel d1 s n acc)) = d_tbl d1.
Proof.
  induction fuel as [|fl IH]; intros d1 d2 s n acc Rd.
  - cbn. auto.
  - cbn [stream_read_loop].
    destruct (n =? 0); [cbn; auto|].
    destruct (s_buf_off s <? len (s_buf s)); [apply IH; exact Rd|].
    destruct (stream_refill_R d1 d2 s Rd) as (E & Rp & Tp).
    destruct (refill d1 s) as [[r1 s1] d1'] eqn:E1. destruct (refill d2 s) as [[r2 s2] d2'] eqn:E2.
    cbn [fst snd] in *. inversion E; subst r2 s2.
    destruct r1 as [[|]|e| |]; try (cbn; auto).
    destruct (IH d1' d2' s1 n acc Rp) as (I1 & I2 & I3).
    split; [exact I1|]. split; [exact I2|]. congruence.
Qed.

Lemma load_R d1 d2 a :
  dcoherent d1 -> dcoherent d2 ->
  fst (load_fragment_table uncompress file fsize d1 a) = fst (load_fragment_table uncompress file fsize d2 a) /\
  R (snd (load_fragment_table uncompress file fsize d1 a)) (snd (load_fragment_table uncompress file fsize d2 a)) /\
  d_tbl (snd (load_fragment_table uncompress file fsize d1 a)) = snd (frag_table_read uncompress file fsize a).
Proof.
  intros [B1 F1] [B2 F2]. unfold load_fragment_table.
  destruct (frag_table_read uncompress file fsize a) as [r t]. cbn.
  split; [reflexivity|]. split; [|reflexivity].
  split; [split; cbn; [exact B1|intros; discriminate]|].
  split; [split; cbn; [exact B2|intros; discriminate]|reflexivity].
Qed.

(* the table a reader holds after a history: that of the last load *)
Definition table_step (t : list (N * N)) (op : dop) : list (N * N) :=
  match op with DLoad a => snd (frag_table_read uncompress file fsize a) | _ => t end.

Lemma dstep_R d1 d2 op :
  R d1 d2 ->
  fst (dstepT d1 op) = fst (dstepT d2 op) /\ R (snd (dstepT d1 op)) (snd (dstepT d2 op)) /\
  d_tbl (snd (dstepT d1 op)) = table_step (d_tbl d1) op.
Proof.
  intro Rd. destruct op as [a|f o n|f i|f|s n]; cbn [dstep table_step].
  - destruct Rd as (C1 & C2 & T). destruct (load_R d1 d2 a C1 C2) as (A & B & C).
    destruct (load_fragment_table uncompress file fsize d1 a), (load_fragment_table uncompress file fsize d2 a).
    cbn in *. split; [congruence|]. split; assumption.
  - destruct (api_read_R d1 d2 f o n Rd) as (A & B & C).
    destruct (areadT d1 f o n), (areadT d2 f o n). cbn in *. split; [congruence|]. split; assumption.
  - cbn. split; [reflexivity|]. split; [exact Rd|reflexivity].
  - destruct (api_get_fragment_R d1 d2 f Rd) as (A & B & C).
    destruct (agetf d1 f), (agetf d2 f). cbn in *. split; [congruence|]. split; assumption.
  - unfold stream_read.
    set (fuel := S (S (2 * N.to_nat ((if 2147483647 <? n then 2147483647 else n) / (if bs =? 0 then 1 else bs) + 4)))).
    destruct (stream_read_loop_R fuel d1 d2 s (if 2147483647 <? n then 2147483647 else n) [] Rd) as (A & B & C).
    destruct (sloop fuel d1 s (if 2147483647 <? n then 2147483647 else n) []) as [[r1 s1] e1].
    destruct (sloop fuel d2 s (if 2147483647 <? n then 2147483647 else n) []) as [[r2 s2] e2].
    cbn in *. inversion A; subst. split; [reflexivity|]. split; assumption.
Qed.

Lemma drun_R ops : forall d1 d2,
  R d1 d2 ->
  fst (drunT d1 ops) = fst (drunT d2 ops) /\ R (snd (drunT d1 ops)) (snd (drunT d2 ops)) /\
  d_tbl (snd (drunT d1 ops)) = fold_left table_step ops (d_tbl d1).
Proof.
  induction ops as [|op rest IH]; intros d1 d2 Rd.
  - cbn. auto.
  - cbn [drun fold_left].
    destruct (dstep_R d1 d2 op Rd) as (A & B & C).
    destruct (dstepT d1 op) as [r1 e1]. destruct (dstepT d2 op) as [r2 e2]. cbn [fst snd] in *.
    destruct (IH e1 e2 B) as (A2 & B2 & C2).
    destruct (drunT e1 rest) as [rs1 g1]. destruct (drunT e2 rest) as [rs2 g2]. cbn [fst snd] in *.
    split; [congruence|]. split; [assumption|]. rewrite C2, C. reflexivity.
Qed.

Lemma R_refl d : dcoherent d -> R d d.
Proof. intro C. split; [assumption|split; [assumption|reflexivity]]. Qed.

Lemma data_cache_coherent_l ops : dcoherent (snd (drunT dr_create ops)).
Proof. destruct (drun_R ops dr_create dr_create (R_refl _ create_dcoherent)) as (_ & (C & _) & _). exact C. Qed.

Lemma data_table_l ops : d_tbl (snd (drunT dr_create ops)) = fold_left table_step ops [].
Proof. destruct (drun_R ops dr_create dr_create (R_refl _ create_dcoherent)) as (_ & _ & T). exact T. Qed.

(* the answer to any call after any history = the answer of a reader with empty
   caches holding the table of the last load of the history *)
Lemma data_history_free_l ops op :
  fst (dstepT (snd (drunT dr_create ops)) op) =
  dspec uncompress file fsize bs true (fold_left table_step ops []) op.
Proof.
  unfold dspec. rewrite <- data_table_l.
  set (d := snd (drunT dr_create ops)).
  assert (Rd : R d (mkDr (d_tbl d) None None)).
  { split; [apply data_cache_coherent_l|]. split; [apply empty_dcoherent|reflexivity]. }
  apply (dstep_R _ _ op Rd).
Qed.

End DataP.
