(* C10 — the DOT_ENTRIES inode cache of lib/sqfs/src/dir_reader.c on the REAL rbtree.

   DotModel.v runs the directory reader over an abstract container (T, t_empty, t_lookup,
   t_insert) that takes the key comparator as an argument.  Here that container is the
   statement-by-statement model of lib/util/src/rbtree.c of coq/Util/RbModel.v
   (rbtree_init / mknode / subtree_insert / subtree_balance / rotate_* / flip_colors /
   rbtree_insert / rbtree_lookup / rbtree_node_value), used the way dir_reader.c uses it:

     rbtree_init(&rd->dcache, sizeof(sqfs_u32), sizeof(sqfs_u64), dcache_key_compare)
                                  -> [rt_empty]   (sizes: GenC10Rb.v, read back from the
                                                   rbtree_t of a reader the library created)
     rbtree_lookup(&rd->dcache, &inum); *((sqfs_u64 * )rbtree_node_value(node))
                                  -> [rt_lookup]
     rbtree_insert(&rd->dcache, &inum, &ref)
                                  -> [rt_insert]

   The tree stores BYTES: the key is the object representation of the sqfs_u32 inode number
   ([enc_key], key_size bytes, then key_size_padded - key_size zero bytes), the value that of
   the sqfs_u64 reference ([enc_val], value_size bytes at value_offset = key_size_padded).
   The comparator the tree calls gets two pointers to key bytes: dcache_key_compare first
   loads  lhs = *((const sqfs_u32 * )l), rhs = *((const sqfs_u32 * )r)  ([dec_key]) and then
   evaluates  lhs < rhs ? -1 : (lhs > rhs ? 1 : 0)  (DotModel.key_compare).  [lift cmp] is
   that composition for any comparator [cmp] on loaded values, which is how the abstract
   container's "comparator argument" reaches the byte level.  For cmp = key_compare it
   coincides with Util.RbModel.cmp_u32 (the model of the whole C function that C19 ties to
   the code) on every pair of keys that are bytes (DotRbProofs.lift_key_compare_cmp_u32).

   The state is [option (rbtree * N)]: the tree and the allocation counter of the Util model;
   [None] = the C code would have dereferenced NULL inside rbtree_insert (proved unreachable:
   the invariant of DotRbProofs says [Some]).  Not modelled, as in coq/Util: allocation failure.

   Representation of numbers that do not fit: the reader model of DotModel.v keeps inode
   references as unbounded N (FRAMEWORK.md convention), C has sqfs_u64.  [enc_val] is the 8 byte
   little-endian representation for every v < 2^64 (enc_val_bytes); for larger v (which do not
   exist in C) the last digit is left oversized rather than truncated, so that no theorem
   silently identifies two references.  Keys are < 2^32 wherever the container is used
   (rbtree_contract quantifies over k < u32m; DotModel reduces inode numbers mod u32m). *)
From Coq Require Import List NArith ZArith Bool.
From SqfsV Require Import Gen.Constants Base.Bytes Util.GenUtil Util.RbModel
     C10.GenC10Dot C10.GenC10Rb C10.DotModel.
Import ListNotations.
Local Open Scope N_scope.

Definition kbytes : nat := N.to_nat c10rb_key_size.          (* sizeof(sqfs_u32) *)
Definition vbytes : nat := N.to_nat c10rb_value_size.        (* sizeof(sqfs_u64) *)

(* the bytes at &inum / at &ref *)
Definition enc_key (k : N) : list N := Bytes.le kbytes k.
Definition enc_val (v : N) : list N :=
  Bytes.le (vbytes - 1) v ++ [v / 256 ^ N.of_nat (vbytes - 1)].

(* *((const sqfs_u32 * )p): key_size bytes, little endian, a value of the type sqfs_u32 *)
Definition dec_key (a : list N) : N := RbModel.rd_le (firstn kbytes a) mod u32m.
(* *((sqfs_u64 * )rbtree_node_value(node)) *)
Definition dec_val (a : list N) : N := RbModel.rd_le a.

(* dcache_key_compare with the expression after the two loads replaced by [cmp] *)
Definition lift (cmp : N -> N -> Z) (a b : list N) : Z := cmp (dec_key a) (dec_key b).

(* ---- the container ---- *)
Definition rt : Type := option (rbtree * N).

Definition rt_empty : rt :=
  let '(rc, t) := rbtree_init c10rb_key_size c10rb_value_size in
  if (rc =? 0)%Z then Some (t, 0) else None.

(* with the comparator on key bytes that the tree really calls *)
Definition rtb_lookup (bc : list N -> list N -> Z) (t : rt) (k : N) : option N :=
  match t with
  | None => None
  | Some (tr, _) =>
    match rbtree_lookup bc tr (enc_key k) with
    | Leaf => None
    | n => Some (dec_val (node_value (rb_value_size tr) n))
    end
  end.

Definition rtb_insert (bc : list N -> list N -> Z) (t : rt) (k v : N) : rt :=
  match t with
  | None => None
  | Some (tr, next) => rbtree_insert bc tr next (enc_key k) (enc_val v)
  end.

(* in the shape DotModel.v expects: the comparator on loaded keys is the argument *)
Definition rt_lookup (cmp : N -> N -> Z) : rt -> N -> option N := rtb_lookup (lift cmp).
Definition rt_insert (cmp : N -> N -> Z) : rt -> N -> N -> rt := rtb_insert (lift cmp).

(* the tree of a key sequence (value = key + 1000, as DotProofs.rb_of) *)
Definition rt_of (bc : list N -> list N -> Z) (keys : list N) : rt :=
  fold_left (fun t k => rtb_insert bc t k (k + 1000)) keys rt_empty.

(* the keys a tree holds, in order (first key_size bytes of every node, loaded) *)
Fixpoint tree_keys (ks : N) (t : tree) : list N :=
  match t with
  | Leaf => []
  | Node _ l _ _ d r => tree_keys ks l ++ dec_key (firstnN ks d) :: tree_keys ks r
  end.
Definition rt_keys (t : rt) : list N :=
  match t with None => [] | Some (tr, _) => tree_keys (rb_key_size tr) (rb_root tr) end.
