(* C10 — history freedom of every client of the meta reader (repaired code). *)
From Coq Require Import List NArith ZArith Bool Lia PeanoNat.
From SqfsV Require Import Gen.Constants Base.Bytes C10.GenC10 C10.MetaModel C10.MetaProofs C10.ClientModel.
Import ListNotations.
Local Open Scope N_scope.

Section ClientP.
Variable uncompress : list N -> N -> uresult.
Variable file : N -> N -> rd_res.
Variable fsize : N.

Notation runC := (run_client uncompress file fsize true).
Notation coh := (coherent uncompress file).

(* two families of reader objects with arbitrary, unrelated pasts; [det i] says
   reader i has been positioned by the client itself, after which the two
   objects are interchangeable *)
Definition fam_ok (rs1 rs2 : readers) (det : nat -> bool) : Prop :=
  forall i, wf_limit (rs1 i) /\ coh (rs1 i) /\ coh (rs2 i) /\
            m_start (rs1 i) = m_start (rs2 i) /\ m_limit (rs1 i) = m_limit (rs2 i) /\
            (det i = true -> equiv (rs1 i) (rs2 i)).

Lemma u64_wf l : u64 l <= c10_meta_init_tag.
Proof.
  unfold u64. assert (l mod (c10_meta_init_tag + 1) < c10_meta_init_tag + 1).
  { apply N.mod_lt. discriminate. }
  lia.
Qed.

Lemma ok_unit (r : out unit) : is_ok r = true -> r = Ok tt.
Proof. destruct r as [[]| | |]; simpl; congruence. Qed.

Lemma wf_transfer a b : wf_limit a -> m_limit a = m_limit b -> wf_limit b.
Proof. unfold wf_limit. intros H E. rewrite <- E. exact H. Qed.

Lemma client_free_l : forall R (c : client R) rs1 rs2 det,
  fam_ok rs1 rs2 det -> fst (runC c rs1 det) = fst (runC c rs2 det).
Proof.
  induction c as [r|i s l k IH|i b o k IH|i n k IH|i k IH]; intros rs1 rs2 det F.
  - reflexivity.
  - cbn [run_client]. apply IH. intro j. unfold upd.
    destruct (Nat.eqb j i).
    + repeat split; try reflexivity; try apply u64_wf; try apply create_coherent.
    + apply F.
  - cbn [run_client].
    destruct (F i) as (W & C1 & C2 & S & L & E).
    pose proof (wf_transfer _ _ W L) as W2.
    destruct (coherent_seek uncompress file (rs1 i) b o W C1) as (C1' & W1' & S1' & L1').
    destruct (coherent_seek uncompress file (rs2 i) b o W2 C2) as (C2' & W2' & S2' & L2').
    destruct (seek_any uncompress file (rs1 i) (rs2 i) b o W C1 C2 S L) as [Rq Eq].
    assert (Eq2 : det i = true ->
                  equiv (snd (seek uncompress file true (rs1 i) b o)) (snd (seek uncompress file true (rs2 i) b o))).
    { intro D. apply (seek_equiv uncompress file (rs1 i) (rs2 i) b o (E D)). }
    destruct (seek uncompress file true (rs1 i) b o) as [r1 m1].
    destruct (seek uncompress file true (rs2 i) b o) as [r2 m2].
    cbn [fst snd] in *. subst r2.
    apply IH. intro j. unfold upd.
    destruct (Nat.eqb j i) eqn:J.
    + split; [assumption|]. split; [assumption|]. split; [assumption|].
      split; [congruence|]. split; [congruence|].
      destruct (is_ok r1) eqn:K.
      * intros _. apply Eq. apply ok_unit. exact K.
      * intro D. apply Eq2. apply Nat.eqb_eq in J. subst j. exact D.
    + destruct (F j) as (Wj & C1j & C2j & Sj & Lj & Ej).
      split; [assumption|]. split; [assumption|]. split; [assumption|].
      split; [assumption|]. split; [assumption|].
      destruct (is_ok r1); [|exact Ej].
      unfold upd. rewrite J. exact Ej.
  - cbn [run_client].
    destruct (F i) as (W & C1 & C2 & S & L & E).
    destruct (det i) eqn:D; [|reflexivity].
    specialize (E eq_refl).
    pose proof (wf_transfer _ _ W L) as W2.
    unfold read.
    destruct (read_loop_equiv uncompress file (read_fuel fsize n) (rs1 i) (rs2 i) n [] E
                              (coherent_off uncompress file _ C1)) as [Rq Eq].
    pose proof (coherent_read_loop uncompress file (read_fuel fsize n) (rs1 i) n [] W C1) as H1.
    pose proof (coherent_read_loop uncompress file (read_fuel fsize n) (rs2 i) n [] W2 C2) as H2.
    cbn zeta in H1, H2.
    destruct (read_loop uncompress file true (read_fuel fsize n) (rs1 i) n []) as [r1 m1].
    destruct (read_loop uncompress file true (read_fuel fsize n) (rs2 i) n []) as [r2 m2].
    cbn [fst snd] in *. subst r2.
    destruct H1 as (C1' & W1' & S1' & L1'). destruct H2 as (C2' & W2' & S2' & L2').
    apply IH. intro j. unfold upd.
    destruct (Nat.eqb j i) eqn:J.
    + split; [assumption|]. split; [assumption|]. split; [assumption|].
      split; [congruence|]. split; [congruence|]. intros _. exact Eq.
    + apply F.
  - cbn [run_client].
    destruct (F i) as (W & C1 & C2 & S & L & E).
    destruct (det i) eqn:D; [|reflexivity].
    rewrite (getpos_equiv _ _ (E eq_refl)). apply IH. exact F.
Qed.

(* reader objects that went through arbitrary histories *)
Definition after_history (hist : nat -> N * N * list mop) : readers :=
  fun i => let '(s, l, ops) := hist i in snd (run uncompress file fsize true (mr_create s (u64 l)) ops).
Definition fresh_objects (hist : nat -> N * N * list mop) : readers :=
  fun i => let '(s, l, _) := hist i in mr_create s (u64 l).

Lemma client_history_free_l R (c : client R) (hist : nat -> N * N * list mop) :
  fst (runC c (after_history hist) nothing_positioned) =
  fst (runC c (fresh_objects hist) nothing_positioned).
Proof.
  apply client_free_l. intro i. unfold after_history, fresh_objects.
  destruct (hist i) as [[s l] ops].
  destruct (coherent_run uncompress file fsize ops (mr_create s (u64 l)) (u64_wf l) (create_coherent uncompress file s (u64 l)))
    as (C & W & S & L).
  split; [assumption|]. split; [assumption|]. split; [apply create_coherent|].
  split; [assumption|]. split; [assumption|]. discriminate.
Qed.

End ClientP.
