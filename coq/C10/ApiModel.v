(* C10 — the metadata-reading API of libsquashfs as clients of the meta reader:
   read_inode.c (sqfs_meta_reader_read_inode through sqfs_dir_reader_get_inode),
   readdir.c / dir_reader.c (open_dir, read, resolve_path; reader created with
   flags = 0), xattr_reader.c (load, get_desc, seek_kv, read, read_key,
   read_value, read_all) and id_table.c (read, index_to_id).

   Reader objects: 0 = dir reader's meta_inode, 1 = its meta_dir, 2 = xattr idrd,
   3 = xattr kvrd.  Caller-owned cursors (sqfs_readdir_state_t) are explicit
   arguments and results.  Being [client]s, all of these are covered by
   [client_history_free]; that none of them ever reads an unpositioned reader is
   [api_clients_positioned] (ApiProofs.v).

   Allocation failure is not modelled (sizes taken from a damaged image can make
   calloc fail where the model goes on to a read error). *)
From Coq Require Import List NArith ZArith Bool.
From SqfsV Require Import Gen.Constants Base.Bytes C10.GenC10 C10.MetaModel C10.ClientModel C10.DataModel.
Import ListNotations.
Local Open Scope N_scope.

Record super := mkSuper {
  sb_block_size : N; sb_frag_count : N; sb_flags : N; sb_id_count : N; sb_root_ref : N;
  sb_bytes_used : N; sb_id_start : N; sb_xattr_start : N; sb_inode_start : N;
  sb_dir_start : N; sb_frag_start : N; sb_export_start : N
}.

Definition R_INODE : nat := 0.
Definition R_DIR : nat := 1.
Definition R_XID : nat := 2.
Definition R_XKV : nat := 3.

(* field k bytes at byte offset off of a little-endian struct image *)
Definition fld (l : list N) (off k : nat) : N := rd k (skipn off l).

Definition fail {R A} (r : out A) : client (out R) :=
  CRet (match r with Ok _ => Crash | Err e => Err e | Crash => Crash | Fuel => Fuel end).

(* ------------------------------------------------------------------ *)
(* inodes                                                               *)
(* ------------------------------------------------------------------ *)

Record inode := mkInode {
  i_base : list N;      (* type, mode (after set_mode), uid_idx, gid_idx, mod_time, inode_number *)
  i_fields : list N;    (* the type-specific struct, field by field in declaration order *)
  i_payload : list N    (* extra[0 .. payload_bytes_used) *)
}.
Definition i_type (i : inode) : N := nth 0 (i_base i) 0.

(* set_mode(): the S_IF* bits for an inode type *)
Definition mode_bits (t : N) : option N :=
  if (t =? c_SQFS_INODE_SOCKET) || (t =? c_SQFS_INODE_EXT_SOCKET) then Some c10_S_IFSOCK
  else if (t =? c_SQFS_INODE_SLINK) || (t =? c_SQFS_INODE_EXT_SLINK) then Some c10_S_IFLNK
  else if (t =? c_SQFS_INODE_FILE) || (t =? c_SQFS_INODE_EXT_FILE) then Some c10_S_IFREG
  else if (t =? c_SQFS_INODE_BDEV) || (t =? c_SQFS_INODE_EXT_BDEV) then Some c10_S_IFBLK
  else if (t =? c_SQFS_INODE_DIR) || (t =? c_SQFS_INODE_EXT_DIR) then Some c10_S_IFDIR
  else if (t =? c_SQFS_INODE_CDEV) || (t =? c_SQFS_INODE_EXT_CDEV) then Some c10_S_IFCHR
  else if (t =? c_SQFS_INODE_FIFO) || (t =? c_SQFS_INODE_EXT_FIFO) then Some c10_S_IFIFO
  else None.

Definition no_frag : N := 4294967295.

(* get_block_count() *)
Definition block_count (size bs fidx foff : N) : N :=
  size / bs + (if negb (size mod bs =? 0) && ((fidx =? no_frag) || (foff =? no_frag)) then 1 else 0).

Definition flds (b : list N) (layout : list (nat * nat)) : list N :=
  map (fun '(off, k) => fld b off k) layout.

(* the directory index of an extended directory inode *)
Fixpoint dir_index (count : nat) (acc : list N) (k : list N -> client (out inode)) : client (out inode) :=
  match count with
  | O => k acc
  | S c =>
    c_read R_INODE sizeof_sqfs_dir_index_t (fun ent =>
      c_read R_INODE (fld ent 8 4 + 1) (fun name => dir_index c (acc ++ ent ++ name) k))
  end.

Definition inode_client (sb : super) (ref : N) : client (out inode) :=
  let block := (ref / 65536 + sb_inode_start sb) mod u64m in
  let offset := ref mod 65536 in
  c_seek R_INODE block offset
   (c_read R_INODE sizeof_sqfs_inode_t (fun b =>
      let t := fld b 0 2 in
      match mode_bits t with
      | None => CRet (Err c_SQFS_ERROR_UNSUPPORTED)
      | Some ifmt =>
        let base := [t; fld b 2 2 mod (c10_S_IFMT / 15) + ifmt; fld b 4 2; fld b 6 2; fld b 8 4; fld b 12 4] in
        let simple (size : N) (layout : list (nat * nat)) :=
          c_read R_INODE size (fun d => CRet (Ok (mkInode base (flds d layout) []))) in
        if t =? c_SQFS_INODE_FILE then
          c_read R_INODE sizeof_sqfs_inode_file_t (fun d =>
            let f := flds d [(0, 4); (4, 4); (8, 4); (12, 4)]%nat in   (* blocks_start fragment_index fragment_offset file_size *)
            let count := block_count (fld d 12 4) (sb_block_size sb) (fld d 4 4) (fld d 8 4) in
            c_read R_INODE (count * 4) (fun p => CRet (Ok (mkInode base f p))))
        else if t =? c_SQFS_INODE_EXT_FILE then
          c_read R_INODE sizeof_sqfs_inode_file_ext_t (fun d =>
            (* blocks_start file_size sparse nlink fragment_idx fragment_offset xattr_idx *)
            let f := flds d [(0, 8); (8, 8); (16, 8); (24, 4); (28, 4); (32, 4); (36, 4)]%nat in
            let count := block_count (fld d 8 8) (sb_block_size sb) (fld d 28 4) (fld d 32 4) in
            c_read R_INODE (count * 4) (fun p => CRet (Ok (mkInode base f p))))
        else if t =? c_SQFS_INODE_SLINK then
          c_read R_INODE sizeof_sqfs_inode_slink_t (fun d =>
            c_read R_INODE (fld d 4 4) (fun p => CRet (Ok (mkInode base (flds d [(0, 4); (4, 4)]%nat) p))))
        else if t =? c_SQFS_INODE_EXT_SLINK then
          c_read R_INODE sizeof_sqfs_inode_slink_t (fun d =>
            c_read R_INODE (fld d 4 4) (fun p =>
              c_read R_INODE 4 (fun x => CRet (Ok (mkInode base (flds d [(0, 4); (4, 4)]%nat ++ [fld x 0 4]) p)))))
        else if t =? c_SQFS_INODE_EXT_DIR then
          c_read R_INODE sizeof_sqfs_inode_dir_ext_t (fun d =>
            (* nlink size start_block parent_inode inodex_count offset xattr_idx *)
            let f := flds d [(0, 4); (4, 4); (8, 4); (12, 4); (16, 2); (18, 2); (20, 4)]%nat in
            if fld d 4 4 =? 0 then CRet (Ok (mkInode base f []))
            else dir_index (N.to_nat (fld d 16 2)) [] (fun p => CRet (Ok (mkInode base f p))))
        else if t =? c_SQFS_INODE_DIR then
          (* start_block nlink size offset parent_inode *)
          simple sizeof_sqfs_inode_dir_t [(0, 4); (4, 4); (8, 2); (10, 2); (12, 4)]%nat
        else if (t =? c_SQFS_INODE_BDEV) || (t =? c_SQFS_INODE_CDEV) then
          simple sizeof_sqfs_inode_dev_t [(0, 4); (4, 4)]%nat
        else if (t =? c_SQFS_INODE_FIFO) || (t =? c_SQFS_INODE_SOCKET) then
          simple sizeof_sqfs_inode_ipc_t [(0, 4)]%nat
        else if (t =? c_SQFS_INODE_EXT_BDEV) || (t =? c_SQFS_INODE_EXT_CDEV) then
          simple sizeof_sqfs_inode_dev_ext_t [(0, 4); (4, 4); (8, 4)]%nat
        else
          simple sizeof_sqfs_inode_ipc_ext_t [(0, 4); (4, 4)]%nat
      end)).

(* the fields data_reader.c reads from a file inode *)
Definition words_of (p : list N) : list N :=
  (fix go (k : nat) (l : list N) := match k with O => [] | S k' => rd32 l :: go k' (skipn 4 l) end)
    (Nat.div (length p) 4) p.

Definition finode_of (i : inode) : option finode :=
  let f := i_fields i in
  if i_type i =? c_SQFS_INODE_FILE then
    Some (mkFinode (nth 3 f 0) (nth 0 f 0) (nth 1 f 0) (nth 2 f 0) (words_of (i_payload i)))
  else if i_type i =? c_SQFS_INODE_EXT_FILE then
    Some (mkFinode (nth 1 f 0) (nth 0 f 0) (nth 4 f 0) (nth 5 f 0) (words_of (i_payload i)))
  else None.

(* ------------------------------------------------------------------ *)
(* directories                                                          *)
(* ------------------------------------------------------------------ *)

Record rdstate := mkRd {                (* sqfs_readdir_state_t *)
  it_inode_block : N; it_block : N; it_offset : N; it_size : N; it_entries : N; it_inum_base : N
}.

(* sqfs_readdir_state_init (through sqfs_dir_reader_open_dir with flags 0) *)
Definition readdir_init (sb : super) (i : inode) : out rdstate :=
  let f := i_fields i in
  if i_type i =? c_SQFS_INODE_DIR then
    Ok (mkRd 0 ((nth 0 f 0 + sb_dir_start sb) mod u64m) (nth 3 f 0) (nth 2 f 0) 0 0)
  else if i_type i =? c_SQFS_INODE_EXT_DIR then
    Ok (mkRd 0 ((nth 2 f 0 + sb_dir_start sb) mod u64m) (nth 5 f 0) (nth 1 f 0) 0 0)
  else Err c_SQFS_ERROR_NOT_DIR.

Inductive rdres :=
| REnt (hdr name : list N) (iref : N)     (* the 8 header bytes, size+1 name bytes, inode reference *)
| REof
| RFail (r : out unit).

Definition as_unit {A} (r : out A) : out unit :=
  match r with Ok _ => Ok tt | Err e => Err e | Crash => Crash | Fuel => Fuel end.

Definition it_eof (it : rdstate) : rdstate :=
  mkRd (it_inode_block it) (it_block it) (it_offset it) 0 0 (it_inum_base it).

(* the second half of sqfs_meta_reader_readdir: one entry *)
Definition readdir_ent (it : rdstate) : client (rdres * rdstate) :=
  if it_size it <=? sizeof_sqfs_dir_node_t then CRet (REof, it_eof it)
  else
    CSeek R_DIR (it_block it) (it_offset it) (fun r =>
      match r with
      | Ok _ =>
        CRead R_DIR sizeof_sqfs_dir_node_t (fun r =>
          match r with
          | Ok h =>
            CRead R_DIR (fld h 6 2 + 1) (fun r =>
              match r with
              | Ok name =>
                CPos R_DIR (fun p =>
                  let size1 := it_size it - sizeof_sqfs_dir_node_t in
                  let cnt := fld h 6 2 + 1 in
                  let size2 := if size1 <=? cnt then 0 else size1 - cnt in
                  CRet (REnt h name (it_inode_block it * 65536 + fld h 0 2),
                        mkRd (it_inode_block it) (fst p) (snd p) size2 (it_entries it - 1) (it_inum_base it)))
              | e => CRet (RFail (as_unit e), it)
              end)
          | e => CRet (RFail (as_unit e), it)
          end)
      | e => CRet (RFail (as_unit e), it)
      end).

(* sqfs_meta_reader_readdir *)
Definition readdir_step (it : rdstate) : client (rdres * rdstate) :=
  if it_entries it =? 0 then
    if it_size it <=? sizeof_sqfs_dir_header_t then CRet (REof, it_eof it)
    else
      CSeek R_DIR (it_block it) (it_offset it) (fun r =>
        match r with
        | Ok _ =>
          CRead R_DIR sizeof_sqfs_dir_header_t (fun r =>
            match r with
            | Ok h =>
              if c_SQFS_MAX_DIR_ENT - 1 <? fld h 0 4 then CRet (RFail (Err c_SQFS_ERROR_CORRUPTED), it)
              else CPos R_DIR (fun p =>
                     readdir_ent (mkRd (fld h 4 4) (fst p) (snd p) (it_size it - sizeof_sqfs_dir_header_t)
                                       (fld h 0 4 + 1) (fld h 8 4)))
            | e => CRet (RFail (as_unit e), it)
            end)
        | e => CRet (RFail (as_unit e), it)
        end)
  else readdir_ent it.

(* up to [count] entries; stops at the first non-entry result.  Returns the entries, how it ended, the cursor *)
Fixpoint readdir_many (count : nat) (it : rdstate) (acc : list (list N * list N * N))
  : client (list (list N * list N * N) * rdres * rdstate) :=
  match count with
  | O => CRet (acc, REnt [] [] 0, it)                      (* asked-for number delivered *)
  | S c =>
    cbind (readdir_step it) (fun '(r, it') =>
      match r with
      | REnt h n ref => readdir_many c it' (acc ++ [(h, n, ref)])
      | other => CRet (acc, other, it')
      end)
  end.

(* sqfs_dir_reader_get_inode + sqfs_dir_reader_open_dir *)
Definition open_dir_client (sb : super) (ref : N) : client (out inode * out rdstate) :=
  cbind (inode_client sb ref) (fun r =>
    match r with
    | Ok i => CRet (Ok i, readdir_init sb i)
    | Err e => CRet (Err e, Err e)
    | Crash => CRet (Crash, Crash)
    | Fuel => CRet (Fuel, Fuel)
    end).

(* ---- sqfs_dir_reader_resolve_path (root = NULL) ---- *)

(* strncmp(name, path, n) == 0 on NUL-terminated strings *)
Fixpoint strncmp_eq (name path : list N) (n : nat) : bool :=
  match n with
  | O => true
  | S k =>
    let c1 := hd 0 name in let c2 := hd 0 path in
    if negb (c1 =? c2) then false
    else if c1 =? 0 then true
    else strncmp_eq (tl name) (tl path) k
  end.

Fixpoint skip_slashes (p : list N) : list N :=
  match p with
  | c :: r => if c =? 47 then skip_slashes r else p
  | [] => []
  end.

(* scan one directory for the next component; result: remaining path and the entry's inode ref *)
Fixpoint find_entry (fuel : nat) (it : rdstate) (path : list N) : client (out (list N * N)) :=
  match fuel with
  | O => CRet Fuel
  | S f =>
    cbind (readdir_step it) (fun '(r, it') =>
      match r with
      | REnt h name ref =>
        let n := length name in
        if strncmp_eq name path n then
          if Nat.ltb (length path) n then CRet Crash               (* path[len] past the terminator *)
          else
            let c := nth n path 0 in
            if (c =? 47) || (c =? 0) then CRet (Ok (skipn n path, ref))
            else find_entry f it' path
        else find_entry f it' path
      | REof => CRet (Err c_SQFS_ERROR_NO_ENTRY)
      | RFail e => fail e
      end)
  end.

Definition scan_fuel : nat := N.to_nat 300000.

Fixpoint resolve_loop (sb : super) (fuel : nat) (path : list N) (cur : N) : client (out N) :=
  match fuel with
  | O => CRet Fuel
  | S f =>
    match skip_slashes path with
    | [] => CRet (Ok cur)
    | p =>
      cbind (open_dir_client sb cur) (fun '(ri, rs) =>
        match rs with
        | Ok it =>
          cbind (find_entry scan_fuel it p) (fun r =>
            match r with
            | Ok (rest, ref) => resolve_loop sb f rest ref
            | Err e => CRet (Err e) | Crash => CRet Crash | Fuel => CRet Fuel
            end)
        | Err e => CRet (Err e) | Crash => CRet Crash | Fuel => CRet Fuel
        end)
    end
  end.

Definition resolve_path_client (sb : super) (path : list N) : client (out N) :=
  resolve_loop sb (S (length path)) path (sb_root_ref sb).

(* ------------------------------------------------------------------ *)
(* extended attributes                                                  *)
(* ------------------------------------------------------------------ *)

Record xreader := mkXr {                (* sqfs_xattr_reader_t after sqfs_xattr_reader_load *)
  xr_has_table : bool;                  (* idrd / kvrd != NULL *)
  xr_start : N; xr_end : N; xr_num_ids : N; xr_blocks : list N;
  xr_lo : N                             (* lower bound of both meta readers *)
}.
Definition xr_none : xreader := mkXr false 0 0 0 [] 0.

Section Xattr.
Variable file : N -> N -> rd_res.

Fixpoint check_locs (l : list N) (bytes_used : N) : bool :=
  match l with
  | [] => true
  | x :: r => if bytes_used <? x then false else check_locs r bytes_used
  end.

(* sqfs_xattr_reader_load (on a newly created reader object) *)
Definition xattr_load (sb : super) : out xreader :=
  if flag_set (sb_flags sb) c_SQFS_FLAG_NO_XATTRS then Ok xr_none
  else if sb_xattr_start sb =? c10_meta_init_tag then Ok xr_none
  else if sb_bytes_used sb <=? sb_xattr_start sb then Err c_SQFS_ERROR_OUT_OF_BOUNDS
  else match file (sb_xattr_start sb) sizeof_sqfs_xattr_id_table_t with
    | RdErr e _ => Err e
    | RdOk t =>
      let start := fld t 0 8 in
      let num_ids := fld t 8 4 in
      let nblocks := (num_ids * sizeof_sqfs_xattr_id_t + c_SQFS_META_BLOCK_SIZE - 1) / c_SQFS_META_BLOCK_SIZE in
      match file ((sb_xattr_start sb + sizeof_sqfs_xattr_id_table_t) mod u64m) (8 * nblocks) with
      | RdErr e _ => Err e
      | RdOk lb =>
        let locs := rd64s (N.to_nat nblocks) lb in
        if check_locs locs (sb_bytes_used sb) then
          Ok (mkXr true start (sb_bytes_used sb) num_ids locs (sb_id_start sb))
        else Err c_SQFS_ERROR_OUT_OF_BOUNDS
      end
    end.
End Xattr.

(* sqfs_xattr_reader_get_desc: (xattr ref, count, size) *)
Definition xattr_desc_client (xr : xreader) (idx : N) : client (out (N * N * N)) :=
  if idx =? no_frag then CRet (Ok (0, 0, 0))
  else if negb (xr_has_table xr) then
    CRet (if idx =? 0 then Ok (0, 0, 0) else Err c_SQFS_ERROR_OUT_OF_BOUNDS)
  else if xr_num_ids xr <=? idx then CRet (Err c_SQFS_ERROR_OUT_OF_BOUNDS)
  else
    let offset := (idx * sizeof_sqfs_xattr_id_t) mod c_SQFS_META_BLOCK_SIZE in
    let block := (idx * sizeof_sqfs_xattr_id_t) / c_SQFS_META_BLOCK_SIZE in
    c_seek R_XID (nth (N.to_nat block) (xr_blocks xr) 0) offset
      (c_read R_XID sizeof_sqfs_xattr_id_t (fun d => CRet (Ok (fld d 0 8, fld d 8 4, fld d 12 4)))).

Definition xattr_prefix (t : N) : option (list N) :=
  let id := t mod (c10_XATTR_PREFIX_MASK + 1) in
  if id =? c10_XATTR_USER then Some [117; 115; 101; 114; 46]                               (* "user." *)
  else if id =? c10_XATTR_TRUSTED then Some [116; 114; 117; 115; 116; 101; 100; 46]       (* "trusted." *)
  else if id =? c10_XATTR_SECURITY then Some [115; 101; 99; 117; 114; 105; 116; 121; 46]  (* "security." *)
  else None.

Definition is_ool (t : N) : bool := negb ((t / c10_XATTR_FLAG_OOL) mod 2 =? 0).

(* read_key_hdr + the key bytes: (type, full key = prefix ++ key) *)
Definition xattr_key_client {R} (k : N -> list N -> client (out R)) : client (out R) :=
  c_read R_XKV sizeof_sqfs_xattr_entry_t (fun h =>
    let t := fld h 0 2 in
    match xattr_prefix t with
    | None => CRet (Err c_SQFS_ERROR_UNSUPPORTED)
    | Some pfx => c_read R_XKV (fld h 2 2) (fun key => k t (pfx ++ key))
    end).

(* read_value_hdr + the value bytes + restoring the position after an out-of-line value *)
Definition xattr_value_client {R} (xr : xreader) (t : N) (k : list N -> client (out R)) : client (out R) :=
  c_read R_XKV sizeof_sqfs_xattr_value_t (fun v =>
    if is_ool t then
      c_read R_XKV 8 (fun rb =>
        let ref := fld rb 0 8 in
        let new_start := (xr_start xr + ref / 65536) mod u64m in
        let new_offset := ref mod 65536 in
        if (xr_end xr <=? new_start) || (c_SQFS_META_BLOCK_SIZE <=? new_offset) then
          CRet (Err c_SQFS_ERROR_OUT_OF_BOUNDS)
        else
          CPos R_XKV (fun saved =>
            c_seek R_XKV new_start new_offset
              (c_read R_XKV sizeof_sqfs_xattr_value_t (fun v2 =>
                 c_read R_XKV (fld v2 0 4) (fun value =>
                   c_seek R_XKV (fst saved) (snd saved) (k value))))))
    else c_read R_XKV (fld v 0 4) (fun value => k value)).

(* sqfs_xattr_reader_read, count times: list of (key, value) *)
Fixpoint xattr_pairs {R} (xr : xreader) (fuel : nat) (count : N) (acc : list (list N * list N))
  (k : list (list N * list N) -> client (out R)) : client (out R) :=
  match fuel with
  | O => CRet Fuel
  | S f =>
    if count =? 0 then k acc
    else xattr_key_client (fun t key =>
           xattr_value_client xr t (fun value => xattr_pairs xr f (count - 1) (acc ++ [(key, value)]) k))
  end.

Definition xattr_fuel : nat := N.to_nat 200000.

(* sqfs_xattr_reader_read_all *)
Definition xattr_all_client (xr : xreader) (idx : N) : client (out (list (list N * list N))) :=
  if idx =? no_frag then CRet (Ok [])
  else
    cbind (xattr_desc_client xr idx) (fun r =>
      match r with
      | Ok (x, count, _) =>
        (* sqfs_xattr_reader_seek_kv *)
        c_seek R_XKV ((xr_start xr + x / 65536) mod u64m) (x mod 65536)
          (xattr_pairs xr xattr_fuel count [] (fun l => CRet (Ok l)))
      | Err e => CRet (Err e) | Crash => CRet Crash | Fuel => CRet Fuel
      end).

(* the key/value API (sqfs_xattr_reader_read_key / read_value) used pair by pair for at most [k]
   pairs, the last one stopping after the key when k is odd — what the harness op XK does.
   Result: what was read (a key without value: None), whether it stopped after a key, the pair
   index reached, and how the last call ended *)
Fixpoint xattr_partial_loop (xr : xreader) (fuel : nat) (i k count : N) (acc : list (list N * option (list N)))
  : client (list (list N * option (list N)) * bool * N * out unit) :=
  match fuel with
  | O => CRet (acc, false, i, Fuel)
  | S f =>
    if (k <=? i) || (count <=? i) then CRet (acc, false, i, Ok tt)
    else
      cbind (xattr_key_client (fun t key => CRet (Ok (t, key)))) (fun r =>
        match r with
        | Ok (t, key) =>
          if (i + 1 =? k) && N.odd k then CRet (acc ++ [(key, None)], true, i + 1, Ok tt)
          else cbind (xattr_value_client xr t (fun v => CRet (Ok v))) (fun r2 =>
                 match r2 with
                 | Ok v => xattr_partial_loop xr f (i + 1) k count (acc ++ [(key, Some v)])
                 | e => CRet (acc ++ [(key, None)], false, i, as_unit e)
                 end)
        | e => CRet (acc, false, i, as_unit e)
        end)
  end.

(* ------------------------------------------------------------------ *)
(* id table                                                             *)
(* ------------------------------------------------------------------ *)

Section Ids.
Variable uncompress : list N -> N -> uresult.
Variable file : N -> N -> rd_res.
Variable fsize : N.

Fixpoint rd32s (k : nat) (l : list N) : list N :=
  match k with O => [] | S k' => rd32 l :: rd32s k' (skipn 4 l) end.

(* sqfs_id_table_read on a newly created table *)
Definition id_table_read (sb : super) : out (list N) :=
  if (sb_id_count sb =? 0) || (sb_bytes_used sb <=? sb_id_start sb) then Err c_SQFS_ERROR_CORRUPTED
  else
    let upper := sb_id_start sb in
    let lower0 := sb_dir_start sb in
    let lower1 := if (lower0 <? sb_frag_start sb) && (sb_frag_start sb <? upper) then sb_frag_start sb else lower0 in
    let lower2 := if (lower1 <? sb_export_start sb) && (sb_export_start sb <? upper) then sb_export_start sb else lower1 in
    match fst (run_client uncompress file fsize true
                 (read_table_client file (sb_id_count sb * 4) (sb_id_start sb) lower2 upper)
                 (fun _ => mr_create 0 0) nothing_positioned) with
    | Done (Ok raw) => Ok (rd32s (N.to_nat (sb_id_count sb)) raw)
    | Done (Err e) => Err e
    | Done Crash => Crash | Done Fuel => Fuel
    | Unpositioned => Crash
    end.

Definition id_lookup (tbl : list N) (idx : N) : out N :=
  if len tbl <=? idx then Err c_SQFS_ERROR_OUT_OF_BOUNDS else Ok (nth (N.to_nat idx) tbl 0).
End Ids.
