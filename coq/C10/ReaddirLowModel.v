(* C10 — the LOW-LEVEL public readdir API of lib/sqfs/src/readdir.c used directly:

     sqfs_readdir_state_init(s, super, inode)        on a caller-owned object s that may hold anything
                                                     (uninitialised memory, the cursor of an abandoned scan)
     sqfs_meta_reader_readdir(m, s, ent, inum, iref)

   ApiModel.readdir_init is the initial cursor as a VALUE (what sqfs_dir_reader_open_dir, which
   memsets its own state first, hands to its caller).  Here the initialiser is modelled as the C
   function is written: an update of the object it is given, [old] being the previous content.
   The statement that makes a reused cursor object harmless is [readdir_init_ignores_old_state]
   (ReaddirLowProofs.v; definitions only in this file).

   Strengthening, session 3 (seed C10-8: memset replaced by field assignments that forget
   `entries`). *)
From Coq Require Import List NArith ZArith Bool.
From SqfsV Require Import Gen.Constants Base.Bytes C10.GenC10 C10.MetaModel C10.ClientModel C10.DataModel C10.ApiModel.
Import ListNotations.
Local Open Scope N_scope.

(* the memset over the whole object *)
Definition rd_memset (s : rdstate) : rdstate := mkRd 0 0 0 0 0 0.

(* s->block = ..; s->offset = ..; s->size = ..   (the other three fields keep what they hold) *)
Definition rd_set_pos (s : rdstate) (block offset size : N) : rdstate :=
  mkRd (it_inode_block s) block offset size (it_entries s) (it_inum_base s).

(* sqfs_readdir_state_init: (return value, content of the object afterwards) *)
Definition readdir_state_init (old : rdstate) (sb : super) (i : inode) : out unit * rdstate :=
  let s := rd_memset old in
  let f := i_fields i in
  if i_type i =? c_SQFS_INODE_DIR then
    (Ok tt, rd_set_pos s ((nth 0 f 0 + sb_dir_start sb) mod u64m) (nth 3 f 0) (nth 2 f 0))
  else if i_type i =? c_SQFS_INODE_EXT_DIR then
    (Ok tt, rd_set_pos s ((nth 2 f 0 + sb_dir_start sb) mod u64m) (nth 5 f 0) (nth 1 f 0))
  else (Err c_SQFS_ERROR_NOT_DIR, s).

(* the inum result: it->inum_base + ent->inode_diff  (sqfs_u32 + sqfs_s16; [it'] = the cursor after the call) *)
Definition sext16 (x : N) : Z := if x <? 32768 then Z.of_N x else (Z.of_N x - 65536)%Z.
Definition ent_inum (it' : rdstate) (h : list N) : N :=
  Z.to_N ((Z.of_N (it_inum_base it') + sext16 (fld h 2 2)) mod 4294967296)%Z.

(* up to [count] calls of sqfs_meta_reader_readdir with inum and iref requested:
   (entry header, name, iref, inum) list, how it ended, the cursor *)
Fixpoint readdir_low_many (count : nat) (it : rdstate) (acc : list (list N * list N * N * N))
  : client (list (list N * list N * N * N) * rdres * rdstate) :=
  match count with
  | O => CRet (acc, REnt [] [] 0, it)
  | S c =>
    cbind (readdir_step it) (fun '(r, it') =>
      match r with
      | REnt h n ref => readdir_low_many c it' (acc ++ [(h, n, ref, ent_inum it' h)])
      | other => CRet (acc, other, it')
      end)
  end.

(* init a caller-owned object that holds [old], then read [count] entries *)
Definition low_scan (old : rdstate) (sb : super) (i : inode) (count : nat)
  : client (out unit * option (list (list N * list N * N * N) * rdres * rdstate)) :=
  match readdir_state_init old sb i with
  | (Ok _, it) => cbind (readdir_low_many count it []) (fun x => CRet (Ok tt, Some x))
  | (e, _) => CRet (e, None)
  end.

(* a mutant that clears field by field and forgets one is NOT of this kind: the faithful model of the
   seeded change keeps [it_entries old] *)
Definition readdir_state_init_forgetful (old : rdstate) (sb : super) (i : inode) : out unit * rdstate :=
  let f := i_fields i in
  let s := mkRd 0 (it_block old) (it_offset old) (it_size old) (it_entries old) 0 in
  if i_type i =? c_SQFS_INODE_DIR then
    (Ok tt, rd_set_pos s ((nth 0 f 0 + sb_dir_start sb) mod u64m) (nth 3 f 0) (nth 2 f 0))
  else if i_type i =? c_SQFS_INODE_EXT_DIR then
    (Ok tt, rd_set_pos s ((nth 2 f 0 + sb_dir_start sb) mod u64m) (nth 5 f 0) (nth 1 f 0))
  else (Err c_SQFS_ERROR_NOT_DIR, old).

