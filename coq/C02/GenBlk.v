(* GENERATED from /repo sources by props/C02/h_bp.c --gen-constants -- do not edit *)
From Coq Require Import NArith.
Local Open Scope N_scope.
Definition c_SQFS_BLK_DONT_COMPRESS : N := 1.
Definition c_SQFS_BLK_DONT_HASH : N := 2.
Definition c_SQFS_BLK_DONT_FRAGMENT : N := 4.
Definition c_SQFS_BLK_DONT_DEDUPLICATE : N := 8.
Definition c_SQFS_BLK_IGNORE_SPARSE : N := 16.
Definition c_SQFS_BLK_IS_SPARSE : N := 1024.
Definition c_SQFS_BLK_FIRST_BLOCK : N := 2048.
Definition c_SQFS_BLK_LAST_BLOCK : N := 4096.
Definition c_SQFS_BLK_IS_FRAGMENT : N := 8192.
Definition c_SQFS_BLK_FRAGMENT_BLOCK : N := 16384.
Definition c_SQFS_BLK_IS_COMPRESSED : N := 32768.
Definition c_SQFS_BLK_USER_SETTABLE_FLAGS : N := 31.
Definition c_SQFS_BLK_FLAGS_ALL : N := 64543.
Definition c_BLK_FLAG_MANUAL_SUBMISSION : N := 268435456.
Definition c_BLK_FLAG_INTERNAL : N := 268435456.
Definition c_BP_MIN_BACKLOG : N := 3.
