(* C02 — where the packers read the process environment for something that ends up in the image:
   lib/util/src/source_date_epoch.c (getenv SOURCE_DATE_EPOCH), used by
   lib/common/src/fstree_cli.c:parse_fstree_defaults for the default time stamp, which
   lib/common/src/writer/init.c copies into the super block and fstree uses for implicit directories
   and for every entry when gensquashfs scans a directory without --keep-time.
   The environment string and the mtime= sub-option are explicit inputs here. *)
From Coq Require Import List NArith Bool Lia.
Import ListNotations.
Local Open Scope N_scope.

Definition UINT32_MAX : N := 4294967295.
Definition isdigit (c : N) : bool := (48 <=? c) && (c <=? 57).

(* the for loop of get_source_date_epoch: None = "goto fail_ov / fail_nan" *)
Fixpoint sde_loop (s : list N) (tval : N) : option N :=
  match s with
  | [] => Some tval
  | c :: r =>
    if isdigit c then
      let x := c - 48 in
      if (UINT32_MAX - x) / 10 <? tval then None else sde_loop r (tval * 10 + x)
    else None
  end.

(* env = getenv("SOURCE_DATE_EPOCH") as a byte string; None = unset *)
Definition get_source_date_epoch (env : option (list N)) : N :=
  match env with
  | None => 0
  | Some [] => 0
  | Some s => match sde_loop s 0 with Some v => v | None => 0 end
  end.

(* parse_fstree_defaults: sb->mtime = get_source_date_epoch(); an mtime= sub-option overrides it
   (values above UINT32_MAX are refused by the parser) *)
Definition opt_ok (opt : option N) : Prop := match opt with Some v => v <= UINT32_MAX | None => True end.
Definition default_mtime (env : option (list N)) (opt : option N) : N :=
  match opt with Some v => v | None => get_source_date_epoch env end.

Lemma sde_loop_bound : forall s t v, t <= UINT32_MAX -> sde_loop s t = Some v -> v <= UINT32_MAX.
Proof.
  induction s as [|c r IH]; intros t v Ht H; cbn [sde_loop] in H.
  - inversion H; subst; exact Ht.
  - destruct (isdigit c) eqn:D; [|discriminate].
    destruct ((UINT32_MAX - (c - 48)) / 10 <? t) eqn:E; [discriminate|].
    apply N.ltb_ge in E. eapply IH; [|exact H].
    unfold isdigit in D. apply andb_prop in D. destruct D as [D1 D2].
    apply N.leb_le in D1. apply N.leb_le in D2.
    pose proof (N.mul_div_le (UINT32_MAX - (c - 48)) 10). unfold UINT32_MAX in *. lia.
Qed.

Lemma sde_bound env : get_source_date_epoch env <= UINT32_MAX.
Proof.
  unfold get_source_date_epoch. destruct env as [[|c r]|]; try (unfold UINT32_MAX; lia).
  destruct (sde_loop (c :: r) 0) eqn:E; [|unfold UINT32_MAX; lia].
  eapply sde_loop_bound; [|exact E]. unfold UINT32_MAX; lia.
Qed.

Lemma default_mtime_bound env opt : opt_ok opt -> default_mtime env opt < 4294967296.
Proof.
  intro H. unfold default_mtime. destruct opt as [v|].
  - cbn in H. unfold UINT32_MAX in H. lia.
  - pose proof (sde_bound env). unfold UINT32_MAX in *. lia.
Qed.
