(* C02 — the block processor refines the in-order specification of BpSpec.v, for every pool that
   refines a FIFO queue of [process_block], every max_backlog >= 3, every hash table and block writer. *)
From Coq Require Import List NArith ZArith Bool Lia Sorted.
From SqfsV Require Import C02.GenBlk C02.BpModel C02.BpSpec C02.BpLemmas C02.BpQueue.
Import ListNotations.
Local Open Scope N_scope.

#[local] Arguments s_pool {HT BW P} s.
#[local] Arguments s_ioq {HT BW P} s.
#[local] Arguments s_ioseq {HT BW P} s.
#[local] Arguments s_iodeq {HT BW P} s.
#[local] Arguments s_frag {HT BW P} s.
#[local] Arguments s_cur {HT BW P} s.
#[local] Arguments s_backlog {HT BW P} s.
#[local] Arguments s_ht {HT BW P} s.
#[local] Arguments s_ftbl {HT BW P} s.
#[local] Arguments s_ino {HT BW P} s.
#[local] Arguments s_bw {HT BW P} s.
#[local] Arguments s_writes {HT BW P} s.
#[local] Arguments st_pool {HT BW P} s v.
#[local] Arguments st_ioq {HT BW P} s v.
#[local] Arguments st_ioseq {HT BW P} s v.
#[local] Arguments st_iodeq {HT BW P} s v.
#[local] Arguments st_frag {HT BW P} s v.
#[local] Arguments st_cur {HT BW P} s v.
#[local] Arguments st_backlog {HT BW P} s v.
#[local] Arguments st_ht {HT BW P} s v.
#[local] Arguments st_ftbl {HT BW P} s v.
#[local] Arguments st_ino {HT BW P} s v.
#[local] Arguments st_bw {HT BW P} s v w.
#[local] Arguments release {HT BW P} s.
#[local] Arguments nothing_in_flight {HT BW P} s.
#[local] Arguments dq_fuel {HT BW P} s.
#[local] Arguments sp_frag {HT} s.
#[local] Arguments sp_ht {HT} s.
#[local] Arguments sp_nft {HT} s.
#[local] Arguments sp_out {HT} s.
#[local] Arguments mkSp {HT}.
#[local] Arguments sp_log {HT} s.

Lemma ftbl_set_len t : forall n v, len (ftbl_set t n v) = len t.
Proof.
  induction t as [|x t IH]; intros n v; [reflexivity|].
  destruct n; cbn [ftbl_set]; rewrite !len_cons; [reflexivity|]. rewrite IH. reflexivity.
Qed.

(* ------------------------------------------------------------------ *)
(* the front end produces well-formed call sequences                   *)
(* ------------------------------------------------------------------ *)
(* [evs_ok c l c']: starting with blk_current (non-)NULL as c says, the calls in l are balanced
   (a current block is obtained before it is submitted) and every submitted block carries only
   front-end flags; c' says whether a current block is left over. *)
Fixpoint evs_ok (c : bool) (l : list ev) (c' : bool) : Prop :=
  match l with
  | [] => c = c'
  | EvBegin _ :: r => evs_ok c r c'
  | EvSize _ _ :: r => evs_ok c r c'
  | EvNew :: r => c = false /\ evs_ok true r c'
  | EvSubmitCur b :: r => c = true /\ fe_flags_ok (b_fl b) /\ evs_ok false r c'
  | EvSentinel b :: r => fe_flags_ok (b_fl b) /\ evs_ok c r c'
  end.

Lemma evs_ok_app l1 : forall c c1 l2 c2, evs_ok c l1 c1 -> evs_ok c1 l2 c2 -> evs_ok c (l1 ++ l2) c2.
Proof.
  induction l1 as [|e l1 IH]; intros c c1 l2 c2 H1 H2; cbn [app].
  - cbn in H1. subst. exact H2.
  - destruct e; cbn [evs_ok] in *.
    + eapply IH; eassumption.
    + eapply IH; eassumption.
    + destruct H1. split; [assumption|]. eapply IH; eassumption.
    + destruct H1 as (? & ? & ?). repeat split; try assumption. eapply IH; eassumption.
    + destruct H1. split; [assumption|]. eapply IH; eassumption.
Qed.

(* front-end state consistent with "blk_current != NULL" = c *)
Definition fe_ok (f : fe) (c : bool) : Prop :=
  isSome (fe_cur f) = c /\ fe_flags_ok (fe_flags f) /\
  (forall cur, fe_cur f = Some cur -> fe_flags_ok (b_fl cur)).

Definition cur_weight (bs : N) (c : option blk) : nat :=
  match c with
  | None => 1
  | Some cur => if bs - len (b_data cur) =? 0 then 2 else 0
  end.

Lemma fe_append_loop_ok bs : 0 < bs -> forall fuel f data c,
  fe_ok f c -> (3 * length data + cur_weight bs (fe_cur f) < fuel)%nat ->
  exists f' evs, fe_append_loop fuel bs f data = Ok (f', evs) /\
    evs_ok c evs (isSome (fe_cur f')) /\ fe_ok f' (isSome (fe_cur f')) /\
    fe_begin f' = fe_begin f /\ fe_ino f' = fe_ino f /\
    (data <> [] -> fe_cur f' <> None) /\ (data = [] -> f' = f).
Proof.
  intros Hbs. induction fuel as [|n IH]; intros f data c Hok Hfuel; [lia|].
  cbn [fe_append_loop]. destruct data as [|d0 data'].
  - exists f, []. destruct Hok as (A & B & C).
    split; [reflexivity|]. split; [cbn; congruence|]. split; [split; [reflexivity|split; assumption]|].
    split; [reflexivity|]. split; [reflexivity|]. split; [congruence|reflexivity].
  - set (data := d0 :: data') in *.
    destruct Hok as (Hc & Hfl & Hcur).
    destruct (fe_cur f) as [cur|] eqn:Ecur.
    + (* a current block exists *)
      cbn in Hc.
      destruct (bs - len (b_data cur) =? 0) eqn:Ediff.
      * (* full: submit it *)
        destruct (IH (fe_with_cur f None) data false) as (f' & evs & E1 & E2 & E3 & E4 & E5 & E6 & E7).
        { split; [reflexivity|]. split; [exact Hfl|]. cbn. discriminate. }
        { unfold fe_with_cur; cbn [fe_cur cur_weight]. cbn [cur_weight] in Hfuel. rewrite Ediff in Hfuel. lia. }
        rewrite E1. exists f', (EvSubmitCur cur :: evs). split; [reflexivity|].
        split. { cbn [evs_ok]. split; [congruence|]. split; [apply Hcur; reflexivity|exact E2]. }
        split; [exact E3|]. split; [exact E4|]. split; [exact E5|].
        split; [intros _; apply E6; discriminate|discriminate].
      * (* room left: copy *)
        set (d := N.to_nat (N.min (bs - len (b_data cur)) (len data))).
        assert (Hd : (1 <= d)%nat).
        { apply N.eqb_neq in Ediff. unfold d, len in *. unfold data. cbn [length]. lia. }
        assert (Hd2 : (d <= length data)%nat).
        { unfold d, len. lia. }
        destruct (IH (fe_with_cur f (Some (with_data cur (b_data cur ++ firstn d data)))) (skipn d data) true)
          as (f' & evs & E1 & E2 & E3 & E4 & E5 & E6 & E7).
        { split; [reflexivity|]. split; [exact Hfl|]. cbn.
          intros cur' Hc'. inversion Hc'; subst. cbn. apply Hcur. reflexivity. }
        { unfold fe_with_cur; cbn [fe_cur]. rewrite skipn_length.
          assert (cur_weight bs (Some (with_data cur (b_data cur ++ firstn d data))) <= 2)%nat.
          { cbn [cur_weight]. match goal with |- context [if ?c then _ else _] => destruct c end; lia. }
          cbn [cur_weight] in Hfuel. rewrite Ediff in Hfuel. lia. }
        fold d. rewrite E1. exists f', evs. split; [reflexivity|].
        subst c. split; [exact E2|]. split; [exact E3|]. split; [exact E4|]. split; [exact E5|].
        split; [|discriminate].
        intros _. destruct (skipn d data) eqn:Es.
        -- rewrite (E7 eq_refl). cbn. discriminate.
        -- apply E6. discriminate.
    + (* no current block: get a new one *)
      cbn in Hc.
      set (nb := mkB (fe_ino f) 0 (fe_flags f) 0 (fe_index f) []).
      set (f1 := mkFe (fe_begin f) (fe_ino f) (setf FIRST false (fe_flags f)) (fe_index f + 1) (Some nb)).
      destruct (IH f1 data true) as (f' & evs & E1 & E2 & E3 & E4 & E5 & E6 & E7).
      { split; [reflexivity|]. split.
        - apply fe_flags_ok_setf; try discriminate; assumption.
        - cbn. intros cur' Hc'. inversion Hc'; subst. cbn. exact Hfl. }
      { unfold f1; cbn [fe_cur cur_weight b_data nb]. cbn [cur_weight] in Hfuel.
        replace (bs - len (@nil N)) with bs by (rewrite len_nil; lia).
        assert (bs =? 0 = false) by (apply N.eqb_neq; lia). rewrite H. lia. }
      rewrite E1. exists f', (EvNew :: evs). split; [reflexivity|].
      split. { cbn [evs_ok]. split; [congruence|exact E2]. }
      split; [exact E3|]. split; [exact E4|]. split; [exact E5|].
      split; [intros _; apply E6; discriminate|discriminate].
Qed.

Lemma fe_append_ok bs : 0 < bs -> forall f data c,
  fe_ok f c -> fe_begin f = true -> data <> [] ->
  exists f' evs, fe_append bs f data = Ok (f', evs) /\
    evs_ok c evs (isSome (fe_cur f')) /\ fe_ok f' (isSome (fe_cur f')) /\ fe_begin f' = true.
Proof.
  intros Hbs f data c Hok Hb Hd. unfold fe_append. rewrite Hb. cbn [negb].
  destruct (fe_append_loop_ok bs Hbs (3 * length data + 3) f data c Hok) as (f' & evs & E1 & E2 & E3 & E4 & E5 & E6 & _).
  { destruct (fe_cur f); cbn [cur_weight]; [match goal with |- context [if ?c then _ else _] => destruct c end|]; lia. }
  rewrite E1. specialize (E6 Hd). destruct E3 as (A & B & C).
  destruct (fe_cur f') as [cur|] eqn:Ec; [|congruence].
  destruct (len (b_data cur) =? bs).
  - exists (fe_with_cur f' None), (EvSize (fe_ino f) (len data) :: evs ++ [EvSubmitCur cur]).
    split; [reflexivity|]. split.
    { cbn [evs_ok]. eapply evs_ok_app; [exact E2|]. cbn. split; [reflexivity|]. split; [|reflexivity].
      apply C. reflexivity. }
    split; [|cbn; congruence].
    split; [reflexivity|]. split; [exact B|]. cbn. discriminate.
  - exists f', (EvSize (fe_ino f) (len data) :: evs). split; [reflexivity|].
    rewrite Ec. split; [exact E2|]. split; [|congruence].
    split; [rewrite Ec; reflexivity|]. split; [exact B|]. rewrite Ec. exact C.
Qed.

Lemma fe_appends_ok bs : 0 < bs -> forall chunks f c,
  fe_ok f c -> fe_begin f = true -> Forall (fun ch => ch <> []) chunks ->
  exists f' evs, fe_appends bs f chunks = Ok (f', evs) /\
    evs_ok c evs (isSome (fe_cur f')) /\ fe_ok f' (isSome (fe_cur f')) /\ fe_begin f' = true.
Proof.
  intros Hbs. induction chunks as [|ch chunks IH]; intros f c Hok Hb Hne; cbn [fe_appends].
  - exists f, []. destruct Hok as (A & B & C).
    split; [reflexivity|]. split; [cbn; congruence|]. split; [|assumption].
    split; [reflexivity|]. split; assumption.
  - inversion Hne; subst.
    destruct (fe_append_ok bs Hbs f ch c Hok Hb) as (f1 & e1 & E1 & E2 & E3 & E4); [assumption|].
    rewrite E1.
    destruct (IH f1 _ E3 E4) as (f2 & e2 & F1 & F2 & F3 & F4); [assumption|].
    rewrite F1. exists f2, (e1 ++ e2). split; [reflexivity|].
    split; [eapply evs_ok_app; eassumption|]. split; assumption.
Qed.

Definition file_ok (fl : file) : Prop :=
  N.ldiff (fst fl) c_SQFS_BLK_USER_SETTABLE_FLAGS = 0 /\ Forall (fun ch => ch <> []) (snd fl).

Lemma fe_file_ok bs : 0 < bs -> forall f ino fl,
  fe_begin f = false -> fe_cur f = None -> file_ok fl ->
  exists f' evs, fe_file bs f ino fl = Ok (f', evs) /\ evs_ok false evs false /\
    fe_begin f' = false /\ fe_cur f' = None.
Proof.
  intros Hbs f ino [uf chunks] Hb Hc (Hfl & Hch). cbn [fst snd] in *.
  unfold fe_file, fe_begin_file. cbn [fst snd]. rewrite Hb.
  assert (E : negb (N.ldiff uf c_SQFS_BLK_USER_SETTABLE_FLAGS =? 0) = false).
  { rewrite Hfl. reflexivity. }
  rewrite E.
  set (f1 := mkFe true ino (setf FIRST true (dec_flags uf)) 0 (fe_cur f)).
  destruct (fe_appends_ok bs Hbs chunks f1 false) as (f2 & e2 & E1 & E2 & E3 & E4).
  { unfold f1. split; [cbn; rewrite Hc; reflexivity|]. split.
    - cbn [fe_flags]. apply fe_flags_ok_setf; try discriminate. apply dec_user_flags_ok; assumption.
    - cbn. rewrite Hc. discriminate. }
  { reflexivity. }
  { assumption. }
  rewrite E1. unfold fe_end_file. rewrite E4. cbn [negb].
  destruct E3 as (A & B & C).
  destruct (fe_cur f2) as [cur|] eqn:Ecur.
  - specialize (C cur eq_refl).
    destruct (getf DF (fe_flags f2)).
    + eexists _, _. split; [reflexivity|]. split; [|split; reflexivity].
      cbn [app evs_ok]. eapply evs_ok_app; [exact E2|]. cbn. split; [reflexivity|]. split; [|reflexivity].
      apply fe_flags_ok_setf; try discriminate; assumption.
    + destruct (negb (getf FIRST (b_fl cur))).
      * eexists _, _. split; [reflexivity|]. split; [|split; reflexivity].
        cbn [app evs_ok]. eapply evs_ok_app; [exact E2|]. cbn.
        split; [apply fe_flags_ok_setf; try discriminate; assumption|].
        split; [reflexivity|]. split; [|reflexivity].
        apply fe_flags_ok_setf; try discriminate; assumption.
      * eexists _, _. split; [reflexivity|]. split; [|split; reflexivity].
        cbn [app evs_ok]. eapply evs_ok_app; [exact E2|]. cbn. split; [reflexivity|]. split; [|reflexivity].
        apply fe_flags_ok_setf; try discriminate; assumption.
  - destruct (negb (getf FIRST (fe_flags f2))).
    + eexists _, _. split; [reflexivity|]. split; [|split; reflexivity].
      cbn [app evs_ok]. eapply evs_ok_app; [exact E2|]. cbn. split; [|reflexivity].
      apply fe_flags_ok_setf; try discriminate; assumption.
    + eexists _, _. split; [reflexivity|]. split; [|split; reflexivity].
      cbn [app evs_ok]. eapply evs_ok_app; [exact E2|]. cbn. reflexivity.
Qed.

Lemma fe_files_ok bs : 0 < bs -> forall fls f ino,
  fe_begin f = false -> fe_cur f = None -> Forall file_ok fls ->
  exists f' evs, fe_files bs f ino fls = Ok (f', evs) /\ evs_ok false evs false.
Proof.
  intros Hbs. induction fls as [|fl fls IH]; intros f ino Hb Hc Hok; cbn [fe_files].
  - exists f, []. split; reflexivity.
  - inversion Hok; subst.
    destruct (fe_file_ok bs Hbs f ino fl Hb Hc) as (f1 & e1 & E1 & E2 & E3 & E4); [assumption|].
    rewrite E1. destruct (IH f1 (ino + 1) E3 E4) as (f2 & e2 & F1 & F2); [assumption|].
    rewrite F1. exists f2, (e1 ++ e2). split; [reflexivity|]. eapply evs_ok_app; eassumption.
Qed.

(* ------------------------------------------------------------------ *)
(* the back end                                                        *)
(* ------------------------------------------------------------------ *)
(* within one inode, a tail end never carries the block index of a non-empty data block
   (proved for the front end below: fe_files_fresh) *)
Definition frag_idx_fresh (D : list blk) : Prop :=
  forall d f, In d D -> In f D -> bhas ISFRAG f = true -> bhas ISFRAG d = false ->
              b_ino d = b_ino f -> b_data d <> [] -> b_idx d <> b_idx f.

Section Main.
Variable hash : list N -> N.
Variable compress : list N -> option (list N).
Variable HT : Type.
Variable ht_search : HT -> blk -> option (N * N).
Variable ht_insert : HT -> blk -> N * N -> HT.
Variable BW : Type.
Variable bw_write : BW -> blk -> BW * N.
Variable P : Type.
Variable p_submit : P -> blk -> P.
Variable p_dequeue : P -> option (blk * P).
Variable bs mb : N.
Variable bw0 : BW.

Notation pblock := (process_block hash compress).

(* the pool refines a FIFO queue of [process_block]: alpha = the pending items in submission order *)
Variable alpha : P -> list blk.
Hypothesis alpha_submit : forall p b, alpha (p_submit p b) = alpha p ++ [b].
Hypothesis alpha_deq_nil : forall p, alpha p = [] -> p_dequeue p = None.
Hypothesis alpha_deq_cons : forall p b r, alpha p = b :: r ->
  exists p', p_dequeue p = Some (pblock b, p') /\ alpha p' = r.
Hypothesis Hmb : 3 <= mb.

(* all blocks the front end will ever submit in this run *)
Variable Dall : list blk.
Hypothesis Hfresh : frag_idx_fresh Dall.
Hypothesis HDfl : Forall (fun d => fe_flags_ok (b_fl d)) Dall.

Notation state := (st HT BW P).
Notation spst := (sp HT).
Notation pcb' := (pcb HT BW bw_write P).
Notation pcf' := (pcf HT ht_search ht_insert BW P p_submit bs).
Notation enqueue' := (enqueue HT BW P p_submit).
Notation flush' := (flush_ioq HT BW bw_write P).
Notation dq_loop' := (dq_loop HT ht_search ht_insert BW bw_write P p_submit p_dequeue bs).
Notation dequeue_block' := (dequeue_block HT ht_search ht_insert BW bw_write P p_submit p_dequeue bs).
Notation gnb_loop' := (gnb_loop HT ht_search ht_insert BW bw_write P p_submit p_dequeue bs mb).
Notation get_new_block' := (get_new_block HT ht_search ht_insert BW bw_write P p_submit p_dequeue bs mb).
Notation sync_loop' := (sync_loop HT ht_search ht_insert BW bw_write P p_submit p_dequeue bs).
Notation sync' := (sync HT ht_search ht_insert BW bw_write P p_submit p_dequeue bs).
Notation finish' := (finish HT ht_search ht_insert BW bw_write P p_submit p_dequeue bs).
Notation be_event' := (be_event HT ht_search ht_insert BW bw_write P p_submit p_dequeue bs mb).
Notation be_events' := (be_events HT ht_search ht_insert BW bw_write P p_submit p_dequeue bs mb).
Notation run' := (run HT ht_search ht_insert BW bw_write P p_submit p_dequeue bs mb).
Notation spec_frag' := (spec_frag hash compress HT ht_search ht_insert bs).
Notation spec_step' := (spec_step hash compress HT ht_search ht_insert bs).
Notation spec_run' := (spec_run hash compress HT ht_search ht_insert bs).
Notation spec_fin' := (spec_fin hash compress HT).
Notation InvQ' := (InvQ hash compress BW bw_write bw0).

Definition Apool (s : state) : list blk := alpha (s_pool s).

Definition frag_ok (fb : blk) : Prop :=
  bhas FRAGBLK fb = true /\ bhas INTERNAL fb = false /\ bhas ISFRAG fb = false.

(* where an element of the output comes from *)
Definition src_ok (src : list blk) (e : blk) : Prop :=
  bhas FRAGBLK e = true \/
  exists d, In d src /\ bhas ISFRAG d = false /\ e = with_seq (pblock d) (b_seq e).

Definition fb_idx_ok (n : N) (e : blk) : Prop :=
  bhas FRAGBLK e = true -> b_idx e < n /\ bhas SPARSE e = false.

(* inodes (fragment reference, block-size list) and fragment table are the canonical functions of the
   specification's logs and the write log *)
Record ObsInv (s : state) (q : spst) : Prop := mkObs {
  O_fv : forall k, (i_fidx (s_ino s k), i_foff (s_ino s k)) = fref_of (ol_glog (sp_log q)) k;
  O_bv : forall k, i_blocks (s_ino s k) = blocks_canon (ol_sflog (sp_log q)) (map fst (s_writes s)) k;
  O_ft : s_ftbl s = ftbl_canon (sp_nft q) (s_writes s);
  O_src : incl (ol_src (sp_log q)) Dall;
  O_pool : incl (filter notFB (Apool s)) Dall;
  O_outsrc : Forall (src_ok (ol_src (sp_log q))) (sp_out q);
  O_fbidx : Forall (fb_idx_ok (sp_nft q)) (sp_out q);
  O_fragidx : forall fb, sp_frag q = Some fb -> b_idx fb < sp_nft q /\ bhas SPARSE fb = false
}.

(* [h] = blocks in the hands of the front end (blk_current, a sentinel being made) *)
Record Inv (h : N) (s : state) (q : spst) : Prop := mkInv {
  I_frag : s_frag s = sp_frag q;
  I_ht : s_ht s = sp_ht q;
  I_nft : len (s_ftbl s) = sp_nft q;
  I_fragok : forall fb, sp_frag q = Some fb -> frag_ok fb;
  I_q : InvQ' (Apool s) (s_ioq s) (s_ioseq s) (s_iodeq s) (s_bw s, s_writes s) (sp_out q);
  I_bl : s_backlog s = len (Apool s) + len (s_ioq s) + b2n (isSome (s_frag s)) + h;
  I_mb : s_backlog s <= mb;
  I_obs : ObsInv s q
}.

Ltac prj := cbn [s_pool s_ioq s_ioseq s_iodeq s_frag s_cur s_backlog s_ht s_ftbl s_ino s_bw s_writes
                 st_pool st_ioq st_ioseq st_iodeq st_frag st_cur st_backlog st_ht st_ftbl st_ino st_bw
                 release enqueue sp_frag sp_ht sp_nft sp_out sp_log ol_src ol_glog ol_sflog log_g log_sf log_src] in *.

(* lia after abstracting every list length (zify chokes on lengths of section-variable applications) *)
Ltac nlia :=
  repeat match goal with
  | |- context [@len ?T ?l] => let n := fresh "n" in set (n := @len T l) in *; clearbody n
  | H : context [@len ?T ?l] |- _ => let n := fresh "n" in set (n := @len T l) in *; clearbody n
  end; lia.


(* ---------------- the observation invariant: helpers ---------------- *)
Lemma ObsInv_ext (s s' : state) q :
  s_ino s' = s_ino s -> s_writes s' = s_writes s -> s_ftbl s' = s_ftbl s ->
  incl (filter notFB (Apool s')) (filter notFB (Apool s)) ->
  ObsInv s q -> ObsInv s' q.
Proof.
  intros E1 E2 E3 E4 []. constructor; rewrite ?E1, ?E2, ?E3; try assumption.
  eapply incl_tran; eassumption.
Qed.

Lemma Forall_firstn {A} (Q : A -> Prop) l : forall n, Forall Q l -> Forall Q (firstn n l).
Proof.
  induction l as [|x l IH]; intros [|n] H; cbn [firstn]; try constructor.
  - inversion H; assumption.
  - apply IH. inversion H; assumption.
Qed.

Lemma Q_writes Ap ioq n d bw wr out :
  InvQ' Ap ioq n d (bw, wr) out -> map fst wr = firstn (N.to_nat d) out.
Proof.
  intros []. change wr with (snd (bw, wr)). rewrite Q_wr. rewrite bw_run_blocks. reflexivity.
Qed.

Lemma src_ok_grow src x e : src_ok src e -> src_ok (src ++ [x]) e.
Proof.
  intros [H|(d & A & B & C)]; [left; exact H|right]. exists d. split; [apply in_or_app; left; exact A|]. auto.
Qed.

Lemma fb_idx_ok_grow n e : fb_idx_ok n e -> fb_idx_ok (n + 1) e.
Proof. intros H HF. destruct (H HF). split; [lia|assumption]. Qed.

(* what is already written does not touch cell idx(x) of inode ino(x) when x is a tail end *)
Lemma written_fresh (s : state) q x :
  ObsInv s q -> (exists n, map fst (s_writes s) = firstn n (sp_out q)) ->
  In x Dall -> bhas ISFRAG x = true ->
  Forall (fun b => b_ino b = b_ino x -> acts b -> N.to_nat (b_idx b) <> N.to_nat (b_idx x)) (map fst (s_writes s)).
Proof.
  intros [] (n & Hw) Hx Hfx. rewrite Hw. apply Forall_firstn.
  apply Forall_forall. intros e He Hino Hact.
  rewrite Forall_forall in O_outsrc0, O_fbidx0.
  destruct (O_outsrc0 e He) as [HF|(d & Hd & Hdf & Heq)].
  - destruct (O_fbidx0 e He HF) as (_ & Hsp). destruct Hact as [Ha|[_ Ha]]; congruence.
  - assert (HdD : In d Dall) by (apply O_src0; exact Hd).
    rewrite Forall_forall in HDfl. pose proof (HDfl d HdD) as Hfl. apply fe_flags_ok_elim in Hfl.
    destruct Hfl as (_ & _ & Hsp & _).
    assert (Hact' : acts (pblock d)).
    { rewrite Heq in Hact. exact Hact. }
    pose proof (pb_acts_nonempty hash compress d Hsp Hact') as Hne.
    assert (E1 : b_ino e = b_ino d) by (rewrite Heq; cbn [b_ino with_seq]; apply pb_ino).
    assert (E2 : b_idx e = b_idx d) by (rewrite Heq; cbn [b_idx with_seq]; apply pb_idx).
    rewrite E2. intro Hc. apply N2Nat.inj in Hc.
    apply (Hfresh d x HdD Hx Hfx Hdf); [congruence|exact Hne|exact Hc].
Qed.

(* fragment-block writes so far carry indices below the table size *)
Lemma written_ft_ok (s : state) q :
  ObsInv s q -> (exists n, map fst (s_writes s) = firstn n (sp_out q)) ->
  Forall (ft_ok (N.to_nat (sp_nft q))) (s_writes s).
Proof.
  intros [] (n & Hw).
  assert (H : Forall (fun b => bhas FRAGBLK b = true -> (N.to_nat (b_idx b) < N.to_nat (sp_nft q))%nat) (map fst (s_writes s))).
  { rewrite Hw. apply Forall_firstn. eapply Forall_impl; [|exact O_fbidx0].
    intros e He HF. destruct (He HF). lia. }
  apply Forall_map in H. exact H.
Qed.

Ltac obs_same H :=
  eapply ObsInv_ext; [| | | |exact H]; try reflexivity; unfold Apool; prj; try apply incl_refl.

(* ---------------- process_completed_block / the flush loop ---------------- *)
Lemma pcb_fields (s : state) b bw' loc : bw_write (s_bw s) b = (bw', loc) ->
  s_pool (pcb' s b) = s_pool s /\ s_ioq (pcb' s b) = s_ioq s /\ s_ioseq (pcb' s b) = s_ioseq s /\
  s_iodeq (pcb' s b) = s_iodeq s /\ s_frag (pcb' s b) = s_frag s /\ s_cur (pcb' s b) = s_cur s /\
  s_backlog (pcb' s b) = s_backlog s - 1 /\ s_ht (pcb' s b) = s_ht s /\
  len (s_ftbl (pcb' s b)) = len (s_ftbl s) /\ s_bw (pcb' s b) = bw' /\
  s_writes (pcb' s b) = s_writes s ++ [(b, loc)].
Proof.
  intro H. unfold pcb. rewrite H. destruct s as [xp xq xs xd xf xc xb xh xt xi xw xl]. cbn [s_bw s_writes st_bw s_pool s_ioq s_ioseq s_iodeq s_frag s_cur s_backlog s_ht s_ftbl s_ino].
  destruct (bhas SPARSE b); [|destruct (negb (len (b_data b) =? 0)); [destruct (bhas FRAGBLK b)|]];
    destruct (bhas LAST b);
    cbn [release st_ino st_ftbl st_backlog s_bw s_writes s_pool s_ioq s_ioseq s_iodeq s_frag s_cur s_backlog s_ht s_ftbl s_ino];
    rewrite ?ftbl_set_len; repeat split; reflexivity.
Qed.

Lemma it_upd_kv (t : itab) k f k' : keeps_views f ->
  i_fidx (it_upd t k f k') = i_fidx (t k') /\ i_foff (it_upd t k f k') = i_foff (t k') /\
  i_blocks (it_upd t k f k') = i_blocks (t k').
Proof. intro H. unfold it_upd. destruct (k' =? k); [apply H|auto]. Qed.

(* what process_completed_block does to the fragment table and to the two inode views *)
Lemma pcb_views (s : state) b bw' loc : bw_write (s_bw s) b = (bw', loc) ->
  s_ftbl (pcb' s b) = ftbl_apply (s_ftbl s) (b, loc) /\
  forall k, i_fidx (s_ino (pcb' s b) k) = i_fidx (s_ino s k) /\
            i_foff (s_ino (pcb' s b) k) = i_foff (s_ino s k) /\
            i_blocks (s_ino (pcb' s b) k) = flush_blk k (i_blocks (s_ino s k)) b.
Proof.
  intro H. unfold pcb. rewrite H. destruct s as [xp xq xs xd xf xc xb xh xt xi xw xl].
  unfold ftbl_apply, flush_blk. cbn [fst snd]. prj.
  assert (KL : forall (t : itab) k,
            i_fidx (it_upd t (b_ino b) (fun i => i_set_block_start i loc) k) = i_fidx (t k) /\
            i_foff (it_upd t (b_ino b) (fun i => i_set_block_start i loc) k) = i_foff (t k) /\
            i_blocks (it_upd t (b_ino b) (fun i => i_set_block_start i loc) k) = i_blocks (t k)).
  { intros t k. apply it_upd_kv. apply kv_set_block_start. }
  destruct (bhas SPARSE b).
  - (* sparse *)
    assert (KS : forall k,
       i_fidx (it_upd xi (b_ino b) (fun i => i_set_block_size (i_add_sparse (i_make_extended i) (len (b_data b))) (b_idx b) 0) k) = i_fidx (xi k) /\
       i_foff (it_upd xi (b_ino b) (fun i => i_set_block_size (i_add_sparse (i_make_extended i) (len (b_data b))) (b_idx b) 0) k) = i_foff (xi k) /\
       i_blocks (it_upd xi (b_ino b) (fun i => i_set_block_size (i_add_sparse (i_make_extended i) (len (b_data b))) (b_idx b) 0) k) =
         (if k =? b_ino b then upd_nth (N.to_nat (b_idx b)) 0 (i_blocks (xi k)) else i_blocks (xi k))).
    { intro k. unfold it_upd. destruct (k =? b_ino b); [|auto].
      destruct (kv_make_extended (xi k)) as (A & B & C). cbn [i_set_block_size i_add_sparse i_fidx i_foff i_blocks].
      rewrite A, B, C. auto. }
    destruct (bhas LAST b); prj; (split; [reflexivity|]); intro k.
    + destruct (KL (it_upd xi (b_ino b) (fun i => i_set_block_size (i_add_sparse (i_make_extended i) (len (b_data b))) (b_idx b) 0)) k) as (A & B & C).
      destruct (KS k) as (A' & B' & C'). rewrite A, B, C, A', B', C'. auto.
    + apply KS.
  - destruct (negb (len (b_data b) =? 0)).
    + destruct (bhas FRAGBLK b).
      * destruct (bhas LAST b); prj; (split; [reflexivity|]); intro k.
        -- destruct (KL xi k) as (A & B & C). rewrite A, B, C. destruct (k =? b_ino b); auto.
        -- destruct (k =? b_ino b); auto.
      * assert (KD : forall k,
          i_fidx (it_upd xi (b_ino b) (fun i => i_set_block_size i (b_idx b) (size_word b)) k) = i_fidx (xi k) /\
          i_foff (it_upd xi (b_ino b) (fun i => i_set_block_size i (b_idx b) (size_word b)) k) = i_foff (xi k) /\
          i_blocks (it_upd xi (b_ino b) (fun i => i_set_block_size i (b_idx b) (size_word b)) k) =
            (if k =? b_ino b then upd_nth (N.to_nat (b_idx b)) (size_word b) (i_blocks (xi k)) else i_blocks (xi k))).
        { intro k. unfold it_upd. destruct (k =? b_ino b); [|auto]. cbn. auto. }
        destruct (bhas LAST b); prj; (split; [reflexivity|]); intro k.
        -- destruct (KL (it_upd xi (b_ino b) (fun i => i_set_block_size i (b_idx b) (size_word b))) k) as (A & B & C).
           destruct (KD k) as (A' & B' & C'). rewrite A, B, C, A', B', C'. auto.
        -- apply KD.
    + destruct (bhas LAST b); prj; (split; [reflexivity|]); intro k.
      * destruct (KL xi k) as (A & B & C). rewrite A, B, C. destruct (k =? b_ino b); auto.
      * destruct (k =? b_ino b); auto.
Qed.

Lemma st_ioq_id (s : state) l : s_ioq s = l -> st_ioq s l = s.
Proof. intros <-. destruct s. reflexivity. Qed.

Lemma flush_step h (s : state) q e r :
  Inv h s q -> s_ioq s = e :: r -> b_seq e = s_iodeq s ->
  let s' := pcb' (st_iodeq (st_ioq s r) (s_iodeq s + 1)) e in
  Inv h s' q /\ s_pool s' = s_pool s /\ s_cur s' = s_cur s /\ s_frag s' = s_frag s /\
  s_backlog s' + 1 = s_backlog s /\ s_ioq s' = r.
Proof.
  intros [] Hq He.
  set (s0 := st_iodeq (st_ioq s r) (s_iodeq s + 1)).
  destruct (bw_write (s_bw s0) e) as [bw' loc] eqn:Hw.
  destruct (pcb_fields s0 e bw' loc Hw) as (F1 & F2 & F3 & F4 & F5 & F6 & F7 & F8 & F9 & F10 & F11).
  cbv zeta. fold s0.
  assert (G1 : s_pool s0 = s_pool s) by (destruct s; reflexivity).
  assert (G2 : s_ioq s0 = r) by (destruct s; reflexivity).
  assert (G3 : s_ioseq s0 = s_ioseq s) by (destruct s; reflexivity).
  assert (G4 : s_iodeq s0 = s_iodeq s + 1) by (destruct s; reflexivity).
  assert (G5 : s_frag s0 = s_frag s) by (destruct s; reflexivity).
  assert (G6 : s_cur s0 = s_cur s) by (destruct s; reflexivity).
  assert (G7 : s_backlog s0 = s_backlog s) by (destruct s; reflexivity).
  assert (G8 : s_ht s0 = s_ht s) by (destruct s; reflexivity).
  assert (G9 : s_ftbl s0 = s_ftbl s) by (destruct s; reflexivity).
  assert (G10 : s_bw s0 = s_bw s) by (destruct s; reflexivity).
  assert (G11 : s_writes s0 = s_writes s) by (destruct s; reflexivity).
  rewrite Hq in *.
  assert (Hbl : 1 <= s_backlog s) by (rewrite I_bl0, len_cons; lia).
  split; [|split; [congruence|split; [congruence|split; [congruence|split; [lia|congruence]]]]].
  constructor.
  - congruence.
  - congruence.
  - congruence.
  - assumption.
  - unfold Apool. rewrite F1, F2, F3, F4, F10, F11, G1, G2, G3, G4, G11.
    rewrite G10 in Hw. eapply Q_flush; [exact I_q0|exact He|exact Hw].
  - unfold Apool in *. rewrite F1, F2, F5, F7, G1, G2, G5, G7, I_bl0, len_cons. lia.
  - lia.
  - (* observations *)
    assert (G12 : s_ino s0 = s_ino s) by (destruct s; reflexivity).
    destruct (pcb_views s0 e bw' loc Hw) as (V1 & V2).
    destruct I_obs0 as [Ofv Obv Oft Osrc Opool Oout Ofb Ofr].
    constructor.
    + intro k. destruct (V2 k) as (A & B & _). rewrite A, B, G12. apply Ofv.
    + intro k. destruct (V2 k) as (_ & _ & C). rewrite C, F11, G11, G12, map_app. cbn [map fst].
      rewrite blocks_canon_flush, <- Obv. reflexivity.
    + rewrite V1, F11, G11, G9, ftbl_canon_snoc, <- Oft. reflexivity.
    + exact Osrc.
    + unfold Apool in *. rewrite F1, G1. exact Opool.
    + exact Oout.
    + exact Ofb.
    + exact Ofr.
Qed.

Lemma flush_ok h q : forall l (s : state),
  s_ioq s = l -> Inv h s q ->
  let s' := flush' l s in
  Inv h s' q /\ s_pool s' = s_pool s /\ s_cur s' = s_cur s /\ s_frag s' = s_frag s /\
  s_backlog s' <= s_backlog s /\
  (s_ioq s' = [] \/ exists e r, s_ioq s' = e :: r /\ b_seq e <> s_iodeq s').
Proof.
  induction l as [|e r IH]; intros s Hq Hinv; cbn [flush_ioq].
  - rewrite (st_ioq_id s [] Hq). cbv zeta.
    split; [assumption|]. split; [reflexivity|]. split; [reflexivity|]. split; [reflexivity|].
    split; [lia|]. left; assumption.
  - destruct (b_seq e =? s_iodeq s) eqn:E.
    + apply N.eqb_eq in E.
      destruct (flush_step h s q e r Hinv Hq E) as (A1 & A2 & A3 & A4 & A5 & A6).
      destruct (IH _ A6 A1) as (B1 & B2 & B3 & B4 & B5 & B6).
      cbv zeta in *.
      split; [assumption|]. split; [congruence|]. split; [congruence|]. split; [congruence|].
      split; [lia|assumption].
    + rewrite (st_ioq_id s (e :: r) Hq). cbv zeta. apply N.eqb_neq in E.
      split; [assumption|]. split; [reflexivity|]. split; [reflexivity|]. split; [reflexivity|].
      split; [lia|]. right. exists e, r. split; assumption.
Qed.

(* ---------------- process_completed_fragment ---------------- *)

Lemma frag_ok_new frag idx dc :
  frag_ok (with_fl (with_idx frag idx) (setf FRAGBLK true (setf DC dc no_flags))).
Proof.
  unfold frag_ok, bhas. cbn [b_fl with_fl].
  rewrite getf_setf_same, !getf_setf_other, !getf_no_flags by discriminate. auto.
Qed.

Lemma frag_ok_merge fb d dc : frag_ok fb -> frag_ok (with_fl (with_data fb d) (setf DC dc (b_fl fb))).
Proof.
  unfold frag_ok, bhas. cbn [b_fl with_fl]. rewrite !getf_setf_other by discriminate. auto.
Qed.

(* inode-level effect of the two operations of process_completed_fragment *)
Lemma sf_op_views i idx n :
  i_fidx (i_add_sparse (i_set_block_size (i_make_extended i) idx 0) n) = i_fidx i /\
  i_foff (i_add_sparse (i_set_block_size (i_make_extended i) idx 0) n) = i_foff i /\
  i_blocks (i_add_sparse (i_set_block_size (i_make_extended i) idx 0) n) = upd_nth (N.to_nat idx) 0 (i_blocks i).
Proof.
  destruct (kv_make_extended i) as (A & B & C). cbn [i_add_sparse i_set_block_size i_fidx i_foff i_blocks].
  rewrite A, B, C. auto.
Qed.

Lemma fv_g (t : itab) glog ino idx off :
  (forall k, (i_fidx (t k), i_foff (t k)) = fref_of glog k) ->
  forall k, (i_fidx (it_upd t ino (fun i => i_set_frag i idx off) k),
             i_foff (it_upd t ino (fun i => i_set_frag i idx off) k)) = fref_of (glog ++ [(ino, idx, off)]) k.
Proof.
  intros H k. rewrite fref_of_snoc. cbn [fst snd]. unfold it_upd. destruct (k =? ino); [reflexivity|apply H].
Qed.

Lemma bv_g (t : itab) ino idx off k :
  i_blocks (it_upd t ino (fun i => i_set_frag i idx off) k) = i_blocks (t k).
Proof. unfold it_upd. destruct (k =? ino); reflexivity. Qed.

(* the observation invariant across process_completed_fragment *)
Lemma pcf_obs h (s0 : state) q x :
  Inv (h + 1) s0 q -> In x Dall -> bhas ISFRAG x = true ->
  ObsInv (pcf' s0 (pblock x)) (spec_frag' q (pblock x)).
Proof.
  intros [Hf Hh Hn Hfo Hq Hbl Hmb' Hobs] Hx Hfx.
  assert (Hpre : exists n, map fst (s_writes s0) = firstn n (sp_out q)).
  { eexists. eapply Q_writes. exact Hq. }
  pose proof (written_fresh s0 q x Hobs Hpre Hx Hfx) as WF.
  pose proof (written_ft_ok s0 q Hobs Hpre) as WT.
  set (b := pblock x) in *.
  assert (Eino : b_ino b = b_ino x) by apply pb_ino.
  assert (Eidx : b_idx b = b_idx x) by apply pb_idx.
  unfold pcf, spec_frag.
  destruct s0 as [xp xq xs xd xf xc xb xh xt xi xw xl]. destruct q as [qf qh qn qo ql].
  unfold Apool in *. prj. subst xf xh qn.
  destruct Hobs as [Ofv Obv Oft Osrc Opool Oout Ofb Ofr]. unfold Apool in *. prj.
  destruct (bhas SPARSE b).
  { (* sparse tail end *)
    prj. constructor; unfold Apool; prj; try assumption.
    - intro k. rewrite <- Ofv. unfold it_upd. destruct (k =? b_ino b); [|reflexivity].
      destruct (sf_op_views (xi k) (b_idx b) (len (b_data b))) as (A & B & _). rewrite A, B. reflexivity.
    - intro k. rewrite Eino, Eidx, blocks_canon_sf by exact WF. rewrite <- Obv.
      unfold it_upd, sf_blk. cbn [fst snd]. rewrite <- Eino, <- Eidx. destruct (k =? b_ino b); [|reflexivity].
      destruct (sf_op_views (xi k) (b_idx b) (len (b_data b))) as (_ & _ & C). exact C. }
  destruct (if bhas DD b then None else ht_search qh b) as [[idx off]|].
  { (* duplicate of an earlier tail end *)
    prj. constructor; unfold Apool; prj; try assumption.
    - apply fv_g. exact Ofv.
    - intro k. rewrite bv_g. apply Obv. }
  destruct qf as [fb|].
  - destruct (Ofr fb eq_refl) as (Kidx & Ksp).
    pose proof (Hfo fb eq_refl) as (K1 & K2 & K3).
    destruct (bs <? len (b_data fb) + len (b_data b)); prj.
    + (* overflow, then a new fragment block *)
      constructor; unfold Apool; prj.
      * apply fv_g. exact Ofv.
      * intro k. rewrite bv_g. apply Obv.
      * rewrite ftbl_canon_grow by exact WT. rewrite <- Oft. reflexivity.
      * exact Osrc.
      * rewrite alpha_submit, filter_app. cbn [filter]. unfold notFB at 2. unfold bhas in *. cbn [b_fl with_seq].
        rewrite K1. cbn [negb]. rewrite app_nil_r. exact Opool.
      * apply Forall_app. split; [exact Oout|]. constructor; [|constructor]. left.
        rewrite pb_flag by discriminate. exact K1.
      * apply Forall_app. split.
        -- eapply Forall_impl; [|exact Ofb]. intros; apply fb_idx_ok_grow; assumption.
        -- constructor; [|constructor]. intros _. rewrite pb_idx. cbn [b_idx with_seq].
           split; [lia|]. rewrite pb_sparse_fb by exact K1. exact Ksp.
      * intros fb' E. inversion E; subst fb'. cbn [b_idx with_fl with_idx]. split; [lia|].
        unfold bhas. cbn [b_fl with_fl]. first [reflexivity|rewrite !getf_setf_other, getf_no_flags by discriminate; reflexivity].
    + (* merge *)
      constructor; unfold Apool; prj; try assumption.
      * apply fv_g. exact Ofv.
      * intro k. rewrite bv_g. apply Obv.
      * intros fb' E. inversion E; subst fb'. cbn [b_idx with_fl with_data]. split; [exact Kidx|].
        unfold bhas in *. cbn [b_fl with_fl]. rewrite getf_setf_other by discriminate. exact Ksp.
  - (* a new fragment block *)
    prj. constructor; unfold Apool; prj; try assumption.
    + apply fv_g. exact Ofv.
    + intro k. rewrite bv_g. apply Obv.
    + rewrite ftbl_canon_grow by exact WT. rewrite <- Oft. reflexivity.
    + eapply Forall_impl; [|exact Ofb]. intros; apply fb_idx_ok_grow; assumption.
    + intros fb' E. inversion E; subst fb'. cbn [b_idx with_fl with_idx]. split; [lia|].
      unfold bhas. cbn [b_fl with_fl]. first [reflexivity|rewrite !getf_setf_other, getf_no_flags by discriminate; reflexivity].
Qed.

(* x: a tail end taken out of the pool (still counted in the backlog: h + 1) *)
Lemma pcf_ok h (s0 : state) q x :
  Inv (h + 1) s0 q -> In x Dall -> bhas ISFRAG x = true ->
  let b := pblock x in
  let s' := pcf' s0 b in
  Inv h s' (spec_frag' q b) /\ s_cur s' = s_cur s0 /\ s_backlog s' <= s_backlog s0 /\
  filter notFB (Apool s') = filter notFB (Apool s0) /\
  (length (filter isFB (Apool s')) <= length (filter isFB (Apool s0)) + 1)%nat.
Proof.
  intros Hinv Hx Hfx. cbv zeta.
  pose proof (pcf_obs h s0 q x Hinv Hx Hfx) as Hobs'.
  destruct Hinv as [Hf Hh Hn Hfo Hq Hbl Hmb' Hobs]. clear Hobs.
  set (b := pblock x) in *. clearbody b.
  unfold pcf, spec_frag in *.
  destruct s0 as [xp xq xs xd xf xc xb xh xt xi xw xl]. unfold Apool in *. prj. subst xf xh.
  destruct (bhas SPARSE b).
  { (* sparse tail end *)
    unfold Apool; prj.
    split; [|split; [reflexivity|split; [nlia|split; [reflexivity|nlia]]]].
    constructor; unfold Apool; prj; try assumption; try reflexivity; nlia. }
  destruct (if bhas DD b then None else ht_search (sp_ht q) b) as [[idx off]|].
  { (* duplicate of an earlier tail end *)
    unfold Apool; prj.
    split; [|split; [reflexivity|split; [nlia|split; [reflexivity|nlia]]]].
    constructor; unfold Apool; prj; try assumption; try reflexivity; nlia. }
  destruct q as [qf qh qn qo ql]. prj. subst qn.
  destruct qf as [fb|].
  - pose proof (Hfo fb eq_refl) as (K1 & K2 & K3).
    destruct (bs <? len (b_data fb) + len (b_data b)) eqn:Eov; unfold Apool; prj.
    + (* overflow: the full fragment block is submitted with its I/O sequence number *)
      rewrite !alpha_submit.
      assert (Hq' := Q_submit_FB hash compress BW bw_write bw0 _ _ _ _ _ _ fb Hq K1 K2 K3).
      destruct Hq as [Hs _ _ _ _ _ _ _]. subst xs.
      split; [|split; [reflexivity|split; [nlia|split; [|]]]].
      * constructor; unfold Apool; prj; rewrite ?alpha_submit; try reflexivity; try assumption.
        -- rewrite len_app, len_cons, len_nil. reflexivity.
        -- intros fb' E. inversion E; subst. apply frag_ok_new.
        -- rewrite len_app, len_cons, len_nil. cbn [isSome b2n] in *. nlia.
      * rewrite filter_app. cbn [filter]. unfold notFB at 2. unfold bhas in *. cbn [b_fl with_seq].
        rewrite K1. cbn [negb]. apply app_nil_r.
      * rewrite filter_app, app_length. cbn [filter]. destruct (isFB _); cbn [length]; nlia.
    + (* room left: merge *)
      split; [|split; [reflexivity|split; [nlia|split; [reflexivity|nlia]]]].
      constructor; unfold Apool; prj; try reflexivity; try assumption.
      * intros fb' E. inversion E; subst. apply frag_ok_merge. split; [|split]; assumption.
      * cbn [isSome b2n] in *. nlia.
      * nlia.
  - (* no fragment block yet: this tail end becomes one *)
    unfold Apool; prj.
    split; [|split; [reflexivity|split; [nlia|split; [reflexivity|nlia]]]].
    constructor; unfold Apool; prj; try reflexivity; try assumption.
    + rewrite len_app, len_cons, len_nil. reflexivity.
    + intros fb' E. inversion E; subst. apply frag_ok_new.
    + cbn [isSome b2n] in *. nlia.
Qed.

(* ---------------- one pool->dequeue ---------------- *)
Definition mu (s : state) : nat :=
  (2 * length (filter notFB (Apool s)) + length (filter isFB (Apool s)))%nat.

Lemma filter_FB_split (l : list blk) : length l = (length (filter isFB l) + length (filter notFB l))%nat.
Proof.
  induction l as [|x l IH]; [reflexivity|]. cbn [filter]. unfold notFB, isFB in *.
  destruct (bhas FRAGBLK x); cbn [negb length]; lia.
Qed.

Definition pull_result (s : state) (b : blk) (p' : P) : state :=
  let s := st_pool s p' in
  if bhas ISFRAG b then pcf' s b
  else if negb (bhas FRAGBLK b) || bhas INTERNAL b
       then st_ioq (st_ioseq s (s_ioseq s + 1)) (store_io (s_ioq s) (with_seq b (s_ioseq s)))
       else st_ioq s (store_io (s_ioq s) b).

(* a data block or tail end leaves the pool: it is now "consumed" by the specification *)
Lemma Inv_pop_D h (s : state) q x rest p' :
  Inv h s q -> Apool s = x :: rest -> alpha p' = rest -> bhas FRAGBLK x = false ->
  Inv (h + 1) (st_pool s p') (mkSp (sp_frag q) (sp_ht q) (sp_nft q) (sp_out q) (log_src (sp_log q) x)) /\
  In x Dall.
Proof.
  intros [Hf Hh Hn Hfo Hq Hbl Hmb' Hobs] HA Hp' EFB.
  assert (N1 : notFB x = true) by (unfold notFB; rewrite EFB; reflexivity).
  assert (HxD : In x Dall).
  { destruct Hobs as [_ _ _ _ Opool _ _ _]. apply Opool. rewrite HA. cbn [filter]. rewrite N1. left; reflexivity. }
  split; [|exact HxD].
  rewrite HA in Hq, Hbl.
  assert (Hq' := Q_drop_D hash compress BW bw_write bw0 _ _ _ _ _ _ _ Hq EFB).
  destruct Hobs as [Ofv Obv Oft Osrc Opool Oout Ofb Ofr].
  destruct s as [xp xq xs xd xf xc xb xh xt xi xw xl]. destruct q as [qf qh qn qo ql]. unfold Apool in *. prj.
  constructor; unfold Apool; prj; rewrite ?Hp'; try assumption.
  - rewrite len_cons in Hbl. nlia.
  - constructor; unfold Apool; prj; rewrite ?Hp'; try assumption.
    + apply incl_app; [exact Osrc|]. intros y [<-|[]]. exact HxD.
    + rewrite HA in Opool. cbn [filter] in Opool. rewrite N1 in Opool. intros y Hy. apply Opool. right; exact Hy.
    + eapply Forall_impl; [|exact Oout]. intros; apply src_ok_grow; assumption.
Qed.

Lemma pull_ok h (s : state) q x rest p' :
  Inv h s q -> Apool s = x :: rest -> alpha p' = rest ->
  let s2 := pull_result s (pblock x) p' in
  exists ds, Inv h s2 (spec_run' q ds) /\
    filter notFB (Apool s) = ds ++ filter notFB (Apool s2) /\
    s_cur s2 = s_cur s /\ s_backlog s2 <= s_backlog s /\ (mu s2 < mu s)%nat.
Proof.
  intros Hinv HA Hp'. cbv zeta. unfold pull_result, mu. rewrite HA.
  destruct (bhas FRAGBLK x) eqn:EFB;
    [assert (N1 : notFB x = false) by (unfold notFB; rewrite EFB; reflexivity);
     assert (N2 : isFB x = true) by exact EFB
    |assert (N1 : notFB x = true) by (unfold notFB; rewrite EFB; reflexivity);
     assert (N2 : isFB x = false) by exact EFB].
  - (* a fragment block comes back *)
    destruct Hinv as [Hf Hh Hn Hfo Hq Hbl Hmb' Hobs]. rewrite HA in Hq, Hbl.
    assert (Hfb : fb_ok hash compress (sp_out q) (s_iodeq s) x).
    { destruct Hq as [_ Hfbs _ _ _ _ _ _]. cbn [filter] in Hfbs. rewrite N2 in Hfbs.
      inversion Hfbs; assumption. }
    destruct Hfb as (_ & F2 & F3 & _).
    rewrite (pb_flag hash compress ISFRAG) by discriminate. rewrite F3.
    rewrite (pb_flag hash compress FRAGBLK), (pb_flag hash compress INTERNAL) by discriminate.
    rewrite EFB, F2. cbn [negb orb].
    exists []. cbn [spec_run fold_left app].
    assert (Hq' := Q_pull_FB hash compress BW bw_write bw0 _ _ _ _ _ _ _ Hq EFB).
    assert (Hobs' : ObsInv (st_ioq (st_pool s p') (store_io (s_ioq (st_pool s p')) (pblock x))) q).
    { eapply ObsInv_ext; [| | | |exact Hobs]; try (destruct s; reflexivity).
      replace (Apool (st_ioq (st_pool s p') (store_io (s_ioq (st_pool s p')) (pblock x)))) with rest
        by (destruct s; symmetry; exact Hp').
      rewrite HA. cbn [filter]. rewrite N1. apply incl_refl. }
    destruct s as [xp xq xs xd xf xc xb xh xt xi xw xl]. unfold Apool in *. prj.
    cbn [filter]. rewrite N1, N2, Hp'.
    split; [|split; [reflexivity|split; [reflexivity|split; [lia|cbn [length]; lia]]]].
    constructor; unfold Apool; prj; rewrite ?Hp'; try assumption.
    rewrite store_io_len. rewrite len_cons in Hbl. nlia.
  - assert (EFB' : bhas FRAGBLK (pblock x) = false) by (rewrite pb_flag by discriminate; exact EFB).
    destruct (Inv_pop_D h s q x rest p' Hinv HA Hp' EFB) as (Hpop & HxD).
    destruct (bhas ISFRAG (pblock x)) eqn:EIF.
    + (* a tail end *)
      exists [x]. cbn [spec_run fold_left]. unfold spec_step. rewrite EIF.
      assert (Hfx : bhas ISFRAG x = true) by (rewrite <- EIF; symmetry; apply pb_flag; discriminate).
      destruct (pcf_ok h _ _ x Hpop HxD Hfx) as (A1 & A2 & A3 & A4 & A5). cbv zeta in *.
      assert (G1 : Apool (st_pool s p') = rest) by (destruct s; exact Hp').
      assert (G2 : s_cur (st_pool s p') = s_cur s) by (destruct s; reflexivity).
      assert (G3 : s_backlog (st_pool s p') = s_backlog s) by (destruct s; reflexivity).
      rewrite G1 in *.
      split; [exact A1|]. split.
      { cbn [filter]. rewrite N1. cbn [app]. rewrite A4. reflexivity. }
      split; [congruence|]. split; [lia|].
      rewrite A4. cbn [filter]. rewrite N1, N2. cbn [length]. lia.
    + (* a data block: next I/O sequence number, into the I/O queue *)
      rewrite EFB'. cbn [negb orb].
      exists [x]. cbn [spec_run fold_left]. unfold spec_step. rewrite EIF.
      assert (Hfx : bhas ISFRAG x = false) by (rewrite <- EIF; symmetry; apply pb_flag; discriminate).
      destruct Hpop as [Pf Ph Pn Pfo Pq Pbl Pmb Pobs].
      destruct Hinv as [Hf Hh Hn Hfo Hq Hbl Hmb' Hobs]. rewrite HA in Hq, Hbl.
      assert (Hq' := Q_pull_D hash compress BW bw_write bw0 _ _ _ _ _ _ _ Hq EFB).
      assert (Hs : s_ioseq s = len (sp_out q)) by (destruct Hq; assumption).
      destruct Pobs as [Ofv Obv Oft Osrc Opool Oout Ofb Ofr].
      destruct s as [xp xq xs xd xf xc xb xh xt xi xw xl]. destruct q as [qf qh qn qo ql]. unfold Apool in *. prj. subst xs.
      cbn [filter]. rewrite N1, N2, Hp'. cbn [app].
      split; [|split; [reflexivity|split; [reflexivity|split; [lia|cbn [length]; lia]]]].
      constructor; unfold Apool; prj; rewrite ?Hp'; try assumption.
      * rewrite store_io_len. rewrite len_cons in Hbl. nlia.
      * constructor; unfold Apool; prj; rewrite ?Hp'; try assumption.
        -- rewrite Hp' in Opool. exact Opool.
        -- apply Forall_app. split; [exact Oout|]. constructor; [|constructor]. right.
           exists x. split; [apply in_or_app; right; left; reflexivity|]. split; [exact Hfx|reflexivity].
        -- apply Forall_app. split; [exact Ofb|]. constructor; [|constructor].
           intro HF. exfalso. unfold bhas in HF, EFB'. cbn [b_fl with_seq] in HF. congruence.
Qed.

(* ---------------- dequeue_block ---------------- *)
Lemma no_progress_contra (s1 : state) q old :
  Inv (b2n (s_cur s1)) s1 q -> Apool s1 = [] ->
  (s_ioq s1 = [] \/ exists e r, s_ioq s1 = e :: r /\ b_seq e <> s_iodeq s1) ->
  1 <= old -> (s_backlog s1 <? old) = false -> nothing_in_flight s1 = false -> False.
Proof.
  intros [Hf Hh Hn Hfo Hq Hbl Hmb' Hobs] EA Hio Hold E1 E2.
  rewrite EA in *.
  assert (Hioq : s_ioq s1 = []).
  { destruct Hio as [|(e & r & He & Hne)]; [assumption|]. exfalso. apply Hne.
    rewrite He in Hq. eapply Q_progress; [exact Hq|reflexivity]. }
  rewrite Hioq in Hbl. change (len (@nil blk)) with 0 in Hbl. apply N.ltb_ge in E1.
  unfold nothing_in_flight in E2.
  destruct (s_frag s1), (s_cur s1); cbn [isSome b2n] in Hbl; rewrite Hbl in *; cbn in E2; try discriminate; lia.
Qed.

Lemma dq_loop_ok : forall fuel (s : state) q old,
  Inv (b2n (s_cur s)) s q -> 1 <= old -> (mu s < fuel)%nat ->
  exists s' ds,
    dq_loop' fuel old s = Ok s' /\
    Inv (b2n (s_cur s')) s' (spec_run' q ds) /\
    filter notFB (Apool s) = ds ++ filter notFB (Apool s') /\
    s_cur s' = s_cur s /\ s_backlog s' <= s_backlog s /\
    (s_backlog s' < old \/ nothing_in_flight s' = true).
Proof.
  induction fuel as [|n IH]; intros s q old Hinv Hold Hmu; [lia|].
  cbn [dq_loop].
  destruct (flush_ok _ q (s_ioq s) s eq_refl Hinv) as (A1 & A2 & A3 & A4 & A5 & A6). cbv zeta in *.
  set (s1 := flush' (s_ioq s) s) in *.
  assert (HA : Apool s1 = Apool s) by (unfold Apool; congruence).
  destruct (s_backlog s1 <? old) eqn:E1.
  { exists s1, []. split; [reflexivity|]. rewrite A3. split; [exact A1|]. split; [rewrite HA; reflexivity|].
    split; [reflexivity|]. split; [exact A5|]. left. apply N.ltb_lt; exact E1. }
  destruct (nothing_in_flight s1) eqn:E2.
  { exists s1, []. split; [reflexivity|]. rewrite A3. split; [exact A1|]. split; [rewrite HA; reflexivity|].
    split; [reflexivity|]. split; [exact A5|]. right; exact E2. }
  destruct (Apool s1) as [|x rest] eqn:EA.
  { exfalso. rewrite <- A3 in A1. eapply no_progress_contra; eassumption. }
  destruct (alpha_deq_cons _ _ _ EA) as (p' & Hd & Hp'). rewrite Hd.
  rewrite <- A3 in A1.
  destruct (pull_ok _ s1 q x rest p' A1 EA Hp') as (ds1 & B1 & B2 & B3 & B4 & B5).
  unfold pull_result in *. cbv zeta in *.
  match goal with |- context [if old <=? s_backlog ?t then _ else _] => set (s2 := t) in * end.
  assert (Hmu2 : (mu s2 < n)%nat).
  { assert (mu s1 = mu s) by (unfold mu; rewrite EA, HA; reflexivity). lia. }
  destruct (old <=? s_backlog s2) eqn:E3.
  - rewrite <- B3 in B1.
    destruct (IH s2 _ old B1 Hold Hmu2) as (s' & ds2 & C1 & C2 & C3 & C4 & C5 & C6).
    exists s', (ds1 ++ ds2). split; [exact C1|].
    unfold spec_run in *. rewrite fold_left_app.
    split; [exact C2|]. split; [rewrite <- HA, <- EA, B2, C3, app_assoc; reflexivity|].
    split; [congruence|]. split; [lia|exact C6].
  - exists s2, ds1. split; [reflexivity|]. rewrite B3.
    split; [exact B1|]. split; [rewrite <- HA, <- EA; exact B2|].
    split; [congruence|]. split; [lia|]. left. apply N.leb_gt; exact E3.
Qed.

Lemma mu_le_backlog h (s : state) q : Inv h s q -> (mu s < dq_fuel s)%nat.
Proof.
  intros [_ _ _ _ _ Hbl _ _]. unfold mu, dq_fuel.
  pose proof (filter_FB_split (Apool s)). unfold len in Hbl. lia.
Qed.

Lemma dequeue_block_ok (s : state) q :
  Inv (b2n (s_cur s)) s q -> 1 <= s_backlog s ->
  exists s' ds,
    dequeue_block' s = Ok s' /\
    Inv (b2n (s_cur s')) s' (spec_run' q ds) /\
    filter notFB (Apool s) = ds ++ filter notFB (Apool s') /\
    s_cur s' = s_cur s /\ s_backlog s' <= s_backlog s /\
    (s_backlog s' < s_backlog s \/ nothing_in_flight s' = true).
Proof.
  intros Hinv Hb. unfold dequeue_block. apply dq_loop_ok; [assumption|assumption|].
  eapply mu_le_backlog; eassumption.
Qed.

(* ---------------- get_new_block ---------------- *)
Lemma nif_le2 (s : state) : nothing_in_flight s = true -> s_backlog s <= 2.
Proof.
  unfold nothing_in_flight. intro H. apply orb_prop in H. destruct H as [H|H].
  - apply andb_prop in H. destruct H as [H _]. apply N.eqb_eq in H. lia.
  - apply andb_prop in H. destruct H as [H _]. apply andb_prop in H. destruct H as [H _]. apply N.eqb_eq in H. lia.
Qed.

Lemma Inv_bump h (s : state) q :
  Inv h s q -> s_backlog s < mb -> Inv (h + 1) (st_backlog s (s_backlog s + 1)) q.
Proof.
  intros [Hf Hh Hn Hfo Hq Hbl Hmb' Hobs] Hlt.
  destruct s as [xp xq xs xd xf xc xb xh xt xi xw xl]. unfold Apool in *. prj.
  constructor; unfold Apool; prj; try assumption; try nlia.
  obs_same Hobs.
Qed.

Lemma gnb_ok (s : state) q :
  Inv (b2n (s_cur s)) s q ->
  exists s' ds, get_new_block' s = Ok s' /\ Inv (b2n (s_cur s') + 1) s' (spec_run' q ds) /\
    filter notFB (Apool s) = ds ++ filter notFB (Apool s') /\ s_cur s' = s_cur s.
Proof.
  intro Hinv. unfold get_new_block.
  replace (N.to_nat (s_backlog s) + 2)%nat with (S (S (N.to_nat (s_backlog s)))) by lia.
  cbn [gnb_loop]. destruct (mb <=? s_backlog s) eqn:E.
  - apply N.leb_le in E.
    destruct (dequeue_block_ok s q Hinv) as (s1 & ds & C1 & C2 & C3 & C4 & C5 & C6); [lia|].
    rewrite C1. cbn [bind].
    assert (Hlt : s_backlog s1 < mb).
    { destruct C6 as [C6|C6]; [destruct Hinv; lia|apply nif_le2 in C6; lia]. }
    assert (E' : (mb <=? s_backlog s1) = false) by (apply N.leb_gt; exact Hlt).
    rewrite E'.
    exists (st_backlog s1 (s_backlog s1 + 1)), ds. split; [reflexivity|].
    assert (G1 : s_cur (st_backlog s1 (s_backlog s1 + 1)) = s_cur s1) by (destruct s1; reflexivity).
    assert (G2 : Apool (st_backlog s1 (s_backlog s1 + 1)) = Apool s1) by (destruct s1; reflexivity).
    rewrite G1, G2. split; [apply Inv_bump; assumption|]. split; [exact C3|exact C4].
  - apply N.leb_gt in E.
    exists (st_backlog s (s_backlog s + 1)), []. split; [reflexivity|].
    assert (G1 : s_cur (st_backlog s (s_backlog s + 1)) = s_cur s) by (destruct s; reflexivity).
    assert (G2 : Apool (st_backlog s (s_backlog s + 1)) = Apool s) by (destruct s; reflexivity).
    rewrite G1, G2. split; [apply Inv_bump; assumption|]. split; reflexivity.
Qed.

(* ---------------- sync ---------------- *)
Lemma sync_loop_ok : forall fuel (s : state) q,
  Inv (b2n (s_cur s)) s q -> (N.to_nat (s_backlog s) < fuel)%nat ->
  exists s' ds,
    sync_loop' fuel s = Ok s' /\
    Inv (b2n (s_cur s')) s' (spec_run' q ds) /\
    filter notFB (Apool s) = ds ++ filter notFB (Apool s') /\
    s_cur s' = s_cur s /\
    (s_backlog s' = 0 \/ nothing_in_flight s' = true).
Proof.
  induction fuel as [|n IH]; intros s q Hinv Hf; [lia|].
  cbn [sync_loop]. destruct (s_backlog s =? 0) eqn:E0.
  { exists s, []. split; [reflexivity|]. split; [exact Hinv|]. split; [reflexivity|]. split; [reflexivity|].
    left. apply N.eqb_eq; exact E0. }
  destruct (nothing_in_flight s) eqn:E1.
  { exists s, []. split; [reflexivity|]. split; [exact Hinv|]. split; [reflexivity|]. split; [reflexivity|].
    right; exact E1. }
  apply N.eqb_neq in E0.
  destruct (dequeue_block_ok s q Hinv) as (s1 & ds1 & C1 & C2 & C3 & C4 & C5 & C6); [lia|].
  rewrite C1. cbn [bind].
  destruct C6 as [C6|C6].
  - destruct (IH s1 _ C2) as (s' & ds2 & D1 & D2 & D3 & D4 & D5); [lia|].
    exists s', (ds1 ++ ds2). split; [exact D1|]. unfold spec_run in *. rewrite fold_left_app.
    split; [exact D2|]. split; [rewrite C3, D3, app_assoc; reflexivity|]. split; [congruence|exact D5].
  - destruct n as [|n']; [lia|]. cbn [sync_loop]. rewrite C6.
    destruct (s_backlog s1 =? 0) eqn:E2.
    + exists s1, ds1. split; [reflexivity|]. split; [exact C2|]. split; [exact C3|]. split; [exact C4|].
      left. apply N.eqb_eq; exact E2.
    + exists s1, ds1. split; [reflexivity|]. split; [exact C2|]. split; [exact C3|]. split; [exact C4|].
      right; exact C6.
Qed.

Lemma sync_ok (s : state) q :
  Inv (b2n (s_cur s)) s q ->
  exists s' ds,
    sync' s = Ok s' /\
    Inv (b2n (s_cur s')) s' (spec_run' q ds) /\
    filter notFB (Apool s) = ds ++ filter notFB (Apool s') /\
    s_cur s' = s_cur s /\
    (s_backlog s' = 0 \/ nothing_in_flight s' = true).
Proof. intro H. unfold sync. apply sync_loop_ok; [exact H|lia]. Qed.

(* after sync, with no current block: the pool and the I/O queue are empty *)
Lemma drained (s : state) q :
  Inv 0 s q -> s_cur s = false -> (s_backlog s = 0 \/ nothing_in_flight s = true) ->
  Apool s = [] /\ s_ioq s = [] /\ s_backlog s = b2n (isSome (s_frag s)).
Proof.
  intros [Hf Hh Hn Hfo Hq Hbl Hmb' Hobs] Hc Hend.
  assert (Hb : s_backlog s = b2n (isSome (s_frag s)) \/ (s_backlog s = 0)).
  { destruct Hend as [H|H]; [right; exact H|left].
    unfold nothing_in_flight in H. rewrite Hc in H. rewrite andb_false_r, orb_false_r in H.
    apply andb_prop in H. destruct H as [H1 H2]. apply N.eqb_eq in H1. rewrite orb_false_r in H2.
    rewrite H2. exact H1. }
  assert (len (Apool s) = 0 /\ len (s_ioq s) = 0).
  { destruct Hb as [Hb|Hb]; rewrite Hb in Hbl; nlia. }
  destruct H as [H1 H2]. apply len_0 in H1. apply len_0 in H2.
  split; [exact H1|]. split; [exact H2|]. rewrite H1, H2 in Hbl. change (len (@nil blk)) with 0 in Hbl. lia.
Qed.

(* ---------------- the front-end calls ---------------- *)
Lemma Inv_st_ino h (s : state) q k f :
  keeps_views f -> Inv h s q -> Inv h (st_ino s (it_upd (s_ino s) k f)) q.
Proof.
  intros Hkv [Hf Hh Hn Hfo Hq Hbl Hmb' Hobs].
  destruct s as [xp xq xs xd xf xc xb xh xt xi xw xl]. unfold Apool in *. prj.
  constructor; unfold Apool; prj; try assumption.
  destruct Hobs as [Ofv Obv Oft Osrc Opool Oout Ofb Ofr]. unfold Apool in *. prj.
  constructor; unfold Apool; prj; try assumption.
  - intro k'. destruct (it_upd_kv xi k f k' Hkv) as (A & B & _). rewrite A, B. apply Ofv.
  - intro k'. destruct (it_upd_kv xi k f k' Hkv) as (_ & _ & C). rewrite C. apply Obv.
Qed.

Lemma Inv_st_cur h (s : state) q v : Inv h s q -> Inv h (st_cur s v) q.
Proof.
  intros [Hf Hh Hn Hfo Hq Hbl Hmb' Hobs].
  destruct s as [xp xq xs xd xf xc xb xh xt xi xw xl]. unfold Apool in *. prj.
  constructor; unfold Apool; prj; try assumption.
  obs_same Hobs.
Qed.

Lemma Inv_enqueue h (s : state) q b :
  Inv (h + 1) s q -> bhas FRAGBLK b = false -> In b Dall -> Inv h (enqueue' s b) q.
Proof.
  intros [Hf Hh Hn Hfo Hq Hbl Hmb' Hobs] Hb HbD.
  assert (Hq' := Q_submit_D hash compress BW bw_write bw0 _ _ _ _ _ _ b Hq Hb).
  destruct s as [xp xq xs xd xf xc xb xh xt xi xw xl]. unfold Apool in *. prj.
  constructor; unfold Apool; prj; rewrite ?alpha_submit; try assumption.
  - rewrite len_app, len_cons, len_nil. nlia.
  - destruct Hobs as [Ofv Obv Oft Osrc Opool Oout Ofb Ofr]. unfold Apool in *. prj.
    constructor; unfold Apool; prj; rewrite ?alpha_submit; try assumption.
    rewrite filter_app. cbn [filter]. unfold notFB at 2. rewrite Hb. cbn [negb].
    apply incl_app; [exact Opool|]. intros y [<-|[]]. exact HbD.
Qed.

Lemma Apool_enqueue (s : state) b : Apool (enqueue' s b) = Apool s ++ [b].
Proof. destruct s as [xp xq xs xd xf xc xb xh xt xi xw xl]. unfold Apool. prj. apply alpha_submit. Qed.

Lemma filter_notFB_snoc l b : bhas FRAGBLK b = false -> filter notFB (l ++ [b]) = filter notFB l ++ [b].
Proof. intro H. rewrite filter_app. cbn [filter]. unfold notFB at 2. rewrite H. reflexivity. Qed.

Lemma be_events_ok : forall evs (s : state) q c',
  Inv (b2n (s_cur s)) s q -> evs_ok (s_cur s) evs c' ->
  exists s' ds, be_events' s evs = Ok s' /\ Inv (b2n c') s' (spec_run' q ds) /\ s_cur s' = c' /\
    filter notFB (Apool s) ++ dblocks evs = ds ++ filter notFB (Apool s').
Proof.
  induction evs as [|e evs IH]; intros s q c' Hinv Hev.
  - cbn in Hev. subst c'. exists s, []. split; [reflexivity|]. split; [exact Hinv|]. split; [reflexivity|].
    cbn [dblocks app]. apply app_nil_r.
  - cbn [be_events]. destruct e as [ino|ino n| |b|b]; cbn [evs_ok] in Hev; cbn [be_event bind dblocks].
    + (* EvBegin *)
      destruct (IH s q c' Hinv Hev) as (s' & ds & D1 & D2 & D3 & D4).
      exists s', ds. auto.
    + (* EvSize *)
      set (s1 := st_ino s _).
      assert (G1 : s_cur s1 = s_cur s) by (destruct s; reflexivity).
      assert (G2 : Apool s1 = Apool s) by (destruct s; reflexivity).
      destruct (IH s1 q c') as (s' & ds & D1 & D2 & D3 & D4).
      { rewrite G1. apply Inv_st_ino; exact Hinv. }
      { rewrite G1; exact Hev. }
      exists s', ds. rewrite <- G2. auto.
    + (* EvNew *)
      destruct Hev as (Hc & Hev).
      destruct (gnb_ok s q Hinv) as (s1 & ds1 & C1 & C2 & C3 & C4).
      rewrite C1. cbn [bind].
      set (s2 := st_cur s1 true).
      assert (G1 : s_cur s2 = true) by (destruct s1; reflexivity).
      assert (G2 : Apool s2 = Apool s1) by (destruct s1; reflexivity).
      destruct (IH s2 (spec_run' q ds1) c') as (s' & ds2 & D1 & D2 & D3 & D4).
      { rewrite G1. rewrite C4, Hc in C2. apply Inv_st_cur. exact C2. }
      { rewrite G1; exact Hev. }
      exists s', (ds1 ++ ds2). split; [exact D1|]. unfold spec_run in *. rewrite fold_left_app.
      split; [exact D2|]. split; [exact D3|].
      rewrite C3, <- app_assoc, <- G2, D4, app_assoc. reflexivity.
    + (* EvSubmitCur *)
      destruct Hev as (Hc & Hfl & Hev). apply fe_flags_ok_elim in Hfl. destruct Hfl as (Hfb & _).
      set (s1 := st_cur (enqueue' s b) false).
      assert (G1 : s_cur s1 = false) by (destruct s; reflexivity).
      assert (G2 : Apool s1 = Apool s ++ [b]).
      { rewrite <- Apool_enqueue. destruct s; reflexivity. }
      destruct (IH s1 q c') as (s' & ds & D1 & D2 & D3 & D4).
      { rewrite G1. apply Inv_st_cur. apply Inv_enqueue; [|exact Hfb]. rewrite Hc in Hinv. exact Hinv. }
      { rewrite G1; exact Hev. }
      exists s', ds. split; [exact D1|]. split; [exact D2|]. split; [exact D3|].
      rewrite G2, filter_notFB_snoc in D4 by exact Hfb. rewrite <- D4, <- app_assoc. reflexivity.
    + (* EvSentinel *)
      destruct Hev as (Hfl & Hev). apply fe_flags_ok_elim in Hfl. destruct Hfl as (Hfb & _).
      destruct (gnb_ok s q Hinv) as (s1 & ds1 & C1 & C2 & C3 & C4).
      rewrite C1. cbn [bind].
      set (s2 := enqueue' s1 b).
      assert (G1 : s_cur s2 = s_cur s1) by (destruct s1; reflexivity).
      assert (G2 : Apool s2 = Apool s1 ++ [b]) by apply Apool_enqueue.
      destruct (IH s2 (spec_run' q ds1) c') as (s' & ds2 & D1 & D2 & D3 & D4).
      { rewrite G1. apply Inv_enqueue; [exact C2|exact Hfb]. }
      { rewrite G1, C4; exact Hev. }
      exists s', (ds1 ++ ds2). split; [exact D1|]. unfold spec_run in *. rewrite fold_left_app.
      split; [exact D2|]. split; [exact D3|].
      rewrite G2, filter_notFB_snoc in D4 by exact Hfb.
      rewrite C3, <- !app_assoc. rewrite <- app_assoc in D4. cbn [app] in *. rewrite D4. reflexivity.
Qed.

(* ---------------- finish ---------------- *)
Lemma finish_ok (s : state) q :
  Inv 0 s q -> s_cur s = false ->
  exists s', finish' s = Ok s' /\
    (s_bw s', s_writes s') =
      bw_run BW bw_write bw0 [] (sp_out (spec_fin' (spec_run' q (filter notFB (Apool s))))) /\
    s_backlog s' = 0 /\ s_cur s' = false /\
    len (s_ftbl s') = sp_nft (spec_run' q (filter notFB (Apool s))).
Proof.
  intros Hinv Hc. unfold finish.
  destruct (sync_ok s q) as (s1 & ds1 & C1 & C2 & C3 & C4 & C5).
  { rewrite Hc. exact Hinv. }
  rewrite C1. cbn [bind].
  assert (Hc1 : s_cur s1 = false) by congruence. rewrite Hc1 in C2. cbn [b2n] in C2.
  destruct (drained s1 _ C2 Hc1 C5) as (E1 & E2 & E3).
  rewrite E1 in C3. cbn [filter] in C3. rewrite app_nil_r in C3. rewrite C3.
  set (q1 := spec_run' q ds1) in *.
  pose proof C2 as [Hf Hh Hn Hfo Hq Hbl Hmb' Hobs].
  destruct (s_frag s1) as [fb|] eqn:Efrag.
  - (* the last fragment block *)
    symmetry in Hf. destruct (Hfo fb Hf) as (K1 & K2 & K3).
    rewrite E1, E2 in Hq.
    assert (Hq' := Q_submit_FB hash compress BW bw_write bw0 _ _ _ _ _ _ fb Hq K1 K2 K3).
    assert (Hs : s_ioseq s1 = len (sp_out q1)) by (destruct Hq; assumption).
    set (s2 := enqueue' (st_ioseq (st_frag s1 None) (s_ioseq s1 + 1)) (with_seq fb (s_ioseq s1))).
    set (q2 := spec_fin' q1).
    assert (Hq2 : q2 = mkSp None (sp_ht q1) (sp_nft q1) (sp_out q1 ++ [pblock (with_seq fb (len (sp_out q1)))])).
    { unfold q2, spec_fin. rewrite Hf. reflexivity. }
    assert (G1 : Apool s2 = [with_seq fb (s_ioseq s1)]).
    { unfold s2. rewrite Apool_enqueue. replace (Apool (st_ioseq (st_frag s1 None) (s_ioseq s1 + 1))) with (Apool s1) by (destruct s1; reflexivity).
      rewrite E1. reflexivity. }
    assert (G2 : s_cur s2 = false) by (unfold s2; destruct s1; exact Hc1).
    assert (Hinv2 : Inv 0 s2 q2).
    { rewrite Hq2. rewrite <- Hs. clear Hq2 q2.
      constructor; rewrite ?G1.
      - unfold s2. destruct s1; reflexivity.
      - unfold s2. destruct s1; exact Hh.
      - unfold s2. destruct s1; exact Hn.
      - intros ? E; discriminate E.
      - replace (s_ioq s2) with (@nil blk) by (unfold s2; destruct s1; symmetry; exact E2).
        replace (s_ioseq s2) with (s_ioseq s1 + 1) by (unfold s2; destruct s1; reflexivity).
        replace (s_iodeq s2) with (s_iodeq s1) by (unfold s2; destruct s1; reflexivity).
        replace (s_bw s2) with (s_bw s1) by (unfold s2; destruct s1; reflexivity).
        replace (s_writes s2) with (s_writes s1) by (unfold s2; destruct s1; reflexivity).
        exact Hq'.
      - replace (s_ioq s2) with (@nil blk) by (unfold s2; destruct s1; symmetry; exact E2).
        replace (s_backlog s2) with (s_backlog s1) by (unfold s2; destruct s1; reflexivity).
        replace (s_frag s2) with (@None blk) by (unfold s2; destruct s1; reflexivity).
        rewrite E3. reflexivity.
      - replace (s_backlog s2) with (s_backlog s1) by (unfold s2; destruct s1; reflexivity). exact Hmb'. }
    destruct (sync_ok s2 q2) as (s3 & ds3 & F1 & F2 & F3 & F4 & F5).
    { rewrite G2. exact Hinv2. }
    fold s2. rewrite F1.
    assert (Hds3 : ds3 = []).
    { rewrite G1 in F3. cbn [filter] in F3. unfold notFB at 1 in F3. unfold bhas in F3, K1. cbn [b_fl with_seq] in F3.
      rewrite K1 in F3. cbn [negb] in F3. destruct ds3; [reflexivity|discriminate F3]. }
    subst ds3. cbn [spec_run fold_left] in F2.
    assert (Hc3 : s_cur s3 = false) by congruence. rewrite Hc3 in F2. cbn [b2n] in F2.
    destruct (drained s3 _ F2 Hc3 F5) as (H1 & H2 & H3).
    pose proof F2 as [Hf3 Hh3 Hn3 _ Hq3 _ _ Hobs3].
    rewrite H1, H2 in Hq3. apply Q_done in Hq3.
    exists s3. split; [reflexivity|]. split; [exact Hq3|].
    split; [rewrite H3, Hf3, Hq2; reflexivity|]. split; [exact Hc3|].
    rewrite Hn3, Hq2. reflexivity.
  - (* nothing left *)
    exists s1. split; [reflexivity|].
    assert (Hfin : spec_fin' q1 = q1) by (unfold spec_fin; rewrite <- Hf; reflexivity).
    rewrite Hfin. rewrite E1, E2 in Hq. apply Q_done in Hq.
    split; [exact Hq|]. split; [rewrite E3; reflexivity|]. split; [exact Hc1|exact Hn].
Qed.

(* ---------------- the whole run ---------------- *)
Lemma Inv_init p0 ht0 : alpha p0 = [] -> Inv 0 (init_st HT BW P p0 ht0 bw0) (sp_init HT ht0).
Proof.
  intro H. unfold init_st, sp_init.
  constructor; unfold Apool; prj; rewrite ?H; try reflexivity.
  - intros ? E; discriminate E.
  - apply InvQ_init.
  - cbn. lia.
Qed.

Theorem run_refines_spec p0 ht0 files :
  alpha p0 = [] -> 0 < bs -> Forall file_ok files ->
  exists s,
    run' p0 ht0 bw0 files = Ok s /\
    (s_bw s, s_writes s) = bw_run BW bw_write bw0 [] (spec_blocks hash compress HT ht_search ht_insert bs ht0 files) /\
    s_backlog s = 0.
Proof.
  intros Hp0 Hbs Hfiles. unfold run, spec_blocks.
  destruct (fe_files_ok bs Hbs files fe_init 0 eq_refl eq_refl Hfiles) as (f' & evs & E1 & E2).
  rewrite E1.
  pose proof (Inv_init p0 ht0 Hp0) as Hinit.
  set (s0 := init_st HT BW P p0 ht0 bw0) in *.
  destruct (be_events_ok evs s0 (sp_init HT ht0) false) as (s1 & ds & C1 & C2 & C3 & C4).
  { exact Hinit. }
  { exact E2. }
  rewrite C1. cbn [bind].
  assert (HA0 : Apool s0 = []) by exact Hp0.
  rewrite HA0 in C4. cbn [filter app] in C4.
  destruct (finish_ok s1 _ C2 C3) as (s2 & F1 & F2 & F3 & F4 & F5).
  exists s2. split; [exact F1|]. split; [|exact F3].
  rewrite F2. unfold spec_run. rewrite <- fold_left_app, <- C4. reflexivity.
Qed.

End Main.

(* ------------------------------------------------------------------ *)
(* corollaries                                                         *)
(* ------------------------------------------------------------------ *)
Lemma clamp_ge3 q : 3 <= clamp_backlog q.
Proof.
  unfold clamp_backlog. assert (H : 3 <= c_BP_MIN_BACKLOG) by (vm_compute; discriminate).
  destruct (q <? c_BP_MIN_BACKLOG) eqn:E; [exact H|]. apply N.ltb_ge in E. lia.
Qed.

Lemma clamp_id q : c_BP_MIN_BACKLOG <= q -> clamp_backlog q = q.
Proof. intro H. unfold clamp_backlog. destruct (q <? c_BP_MIN_BACKLOG) eqn:E; [apply N.ltb_lt in E; lia|reflexivity]. Qed.

(* the serial pool (threadpool_serial.c) satisfies the FIFO laws with alpha = identity *)
Section Serial.
Variable work : blk -> blk.
Lemma serial_submit (p : list blk) b : (fun x => x) (sp_submit p b) = (fun x : list blk => x) p ++ [b].
Proof. reflexivity. Qed.
Lemma serial_deq_nil (p : list blk) : (fun x : list blk => x) p = [] -> sp_dequeue work p = None.
Proof. intro H. cbn in H. subst. reflexivity. Qed.
Lemma serial_deq_cons (p : list blk) b r : (fun x : list blk => x) p = b :: r ->
  exists p', sp_dequeue work p = Some (work b, p') /\ (fun x : list blk => x) p' = r.
Proof. intro H. cbn in H. subst. exists r. split; reflexivity. Qed.
End Serial.

(* ---------------- the order of the output ---------------- *)
Section Order.
Variable hash : list N -> N.
Variable compress : list N -> option (list N).
Variable HT : Type.
Variable ht_search : HT -> blk -> option (N * N).
Variable ht_insert : HT -> blk -> N * N -> HT.
Variable bs : N.
Notation pblock := (process_block hash compress).
Notation spec_frag' := (spec_frag hash compress HT ht_search ht_insert bs).
Notation spec_step' := (spec_step hash compress HT ht_search ht_insert bs).
Notation spec_run' := (spec_run hash compress HT ht_search ht_insert bs).
Notation spec_fin' := (spec_fin hash compress HT).

Definition unseq (b : blk) : blk := with_seq b 0.
Definition frag_inv (q : sp HT) : Prop :=
  forall fb, sp_frag q = Some fb -> bhas FRAGBLK fb = true.

(* data blocks of the output, sequence numbers erased *)
Definition data_out (q : sp HT) : list blk := map unseq (filter notFB (sp_out q)).

Lemma notFB_pblock_seq fb n : bhas FRAGBLK fb = true -> notFB (pblock (with_seq fb n)) = false.
Proof.
  intro H. unfold notFB. rewrite pb_flag by discriminate. unfold bhas in *. cbn [b_fl with_seq]. rewrite H. reflexivity.
Qed.

Lemma spec_frag_order q b :
  frag_inv q -> frag_inv (spec_frag' q b) /\ data_out (spec_frag' q b) = data_out q.
Proof.
  intro Hq. unfold spec_frag.
  destruct (bhas SPARSE b); [split; [exact Hq|reflexivity]|].
  destruct (if bhas DD b then None else ht_search (sp_ht q) b) as [[? ?]|]; [split; [exact Hq|reflexivity]|].
  destruct q as [qf qh qn qo]. unfold frag_inv, data_out in *. cbn [sp_frag sp_ht sp_nft sp_out] in *.
  destruct qf as [fb|].
  - specialize (Hq fb eq_refl).
    destruct (bs <? len (b_data fb) + len (b_data b)); cbn [sp_frag sp_ht sp_nft sp_out].
    + split.
      * intros fb' E. inversion E; subst. unfold bhas. cbn [b_fl with_fl]. first [apply getf_setf_same|reflexivity].
      * rewrite filter_app. cbn [filter]. rewrite notFB_pblock_seq by exact Hq. rewrite app_nil_r. reflexivity.
    + split; [|reflexivity].
      intros fb' E. inversion E; subst. unfold bhas in *. cbn [b_fl with_fl].
      rewrite getf_setf_other by discriminate. exact Hq.
  - cbn [sp_frag sp_ht sp_nft sp_out]. split; [|reflexivity].
    intros fb' E. inversion E; subst. unfold bhas. cbn [b_fl with_fl]. first [apply getf_setf_same|reflexivity].
Qed.

Lemma unseq_with_seq b n : unseq (with_seq b n) = unseq b.
Proof. reflexivity. Qed.

Lemma spec_run_order : forall ds q,
  frag_inv q -> Forall (fun d => bhas FRAGBLK d = false) ds ->
  frag_inv (spec_run' q ds) /\
  data_out (spec_run' q ds) =
    data_out q ++ map (fun d => unseq (pblock d)) (filter (fun d => negb (bhas ISFRAG d)) ds).
Proof.
  induction ds as [|d ds IH]; intros q Hq Hds.
  - cbn. split; [exact Hq|]. rewrite app_nil_r. reflexivity.
  - inversion Hds as [|? ? Hd Hds']; subst. cbn [spec_run fold_left filter].
    unfold spec_step at 2 4. rewrite (pb_flag hash compress ISFRAG) by discriminate.
    destruct (bhas ISFRAG d) eqn:E; cbn [negb].
    + destruct (spec_frag_order q (pblock d) Hq) as (A1 & A2).
      destruct (IH _ A1 Hds') as (B1 & B2). split; [exact B1|]. unfold spec_run in *. rewrite B2, A2. reflexivity.
    + set (q1 := mkSp (sp_frag q) (sp_ht q) (sp_nft q) (sp_out q ++ [with_seq (pblock d) (len (sp_out q))])).
      assert (A1 : frag_inv q1) by exact Hq.
      destruct (IH _ A1 Hds') as (B1 & B2). split; [exact B1|]. unfold spec_run in *. rewrite B2.
      unfold data_out, q1. cbn [sp_out]. rewrite filter_app, map_app. cbn [filter].
      assert (Hn : notFB (with_seq (pblock d) (len (sp_out q))) = true).
      { unfold notFB, bhas. cbn [b_fl with_seq]. fold (bhas FRAGBLK (pblock d)). rewrite pb_flag by discriminate. rewrite Hd. reflexivity. }
      rewrite Hn. cbn [map]. rewrite unseq_with_seq, <- app_assoc. reflexivity.
Qed.

Lemma spec_fin_order q : frag_inv q -> data_out (spec_fin' q) = data_out q.
Proof.
  intro Hq. unfold spec_fin, data_out. destruct (sp_frag q) as [fb|] eqn:E; [|reflexivity].
  cbn [sp_out]. rewrite filter_app. cbn [filter]. rewrite notFB_pblock_seq by (apply Hq; exact E).
  rewrite app_nil_r. reflexivity.
Qed.

Lemma evs_ok_dblocks : forall evs c c', evs_ok c evs c' -> Forall (fun d => bhas FRAGBLK d = false) (dblocks evs).
Proof.
  induction evs as [|e evs IH]; intros c c' H; [constructor|].
  destruct e; cbn [evs_ok dblocks] in *.
  - eapply IH; eassumption.
  - eapply IH; eassumption.
  - destruct H. eapply IH; eassumption.
  - destruct H as (_ & Hf & H). constructor; [apply fe_flags_ok_elim in Hf; apply Hf|eapply IH; eassumption].
  - destruct H as (Hf & H). constructor; [apply fe_flags_ok_elim in Hf; apply Hf|eapply IH; eassumption].
Qed.

(* all data blocks are written in the order in which the front end submitted them *)
Theorem spec_blocks_data_order ht0 files f evs :
  0 < bs -> Forall file_ok files -> fe_files bs fe_init 0 files = Ok (f, evs) ->
  map unseq (filter notFB (spec_blocks hash compress HT ht_search ht_insert bs ht0 files)) =
  map (fun d => unseq (pblock d)) (filter (fun d => negb (bhas ISFRAG d)) (dblocks evs)).
Proof.
  intros Hbs Hfiles E. unfold spec_blocks. rewrite E.
  destruct (fe_files_ok bs Hbs files fe_init 0 eq_refl eq_refl Hfiles) as (f' & evs' & E1 & E2).
  rewrite E in E1. inversion E1; subst f' evs'.
  assert (H0 : frag_inv (sp_init HT ht0)) by (intros ? X; discriminate X).
  destruct (spec_run_order (dblocks evs) _ H0 (evs_ok_dblocks _ _ _ E2)) as (A1 & A2).
  fold (data_out (spec_fin' (spec_run' (sp_init HT ht0) (dblocks evs)))).
  rewrite spec_fin_order by exact A1. rewrite A2. reflexivity.
Qed.
End Order.
