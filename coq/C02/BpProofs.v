(* C02 — the block processor refines the in-order specification of BpSpec.v, for every pool that
   refines a FIFO queue of [process_block], every max_backlog >= 3, every hash table and block writer. *)
From Coq Require Import List NArith ZArith Bool Lia Sorted.
From SqfsV Require Import C02.GenBlk C02.BpModel C02.BpSpec C02.BpLemmas C02.BpQueue.
(* not used here: required so that `make C02/BpProofs.vo` builds everything Properties_C02.v needs *)
From SqfsV Require C02.BpConcrete C02.EnvModel.
Import ListNotations.
Local Open Scope N_scope.

#[local] Arguments s_pool {HT BW P} s.
#[local] Arguments s_ioq {HT BW P} s.
#[local] Arguments s_ioseq {HT BW P} s.
#[local] Arguments s_iodeq {HT BW P} s.
#[local] Arguments s_frag {HT BW P} s.
#[local] Arguments s_cur {HT BW P} s.
#[local] Arguments s_backlog {HT BW P} s.
#[local] Arguments s_ht {HT BW P} s.
#[local] Arguments s_ftbl {HT BW P} s.
#[local] Arguments s_ino {HT BW P} s.
#[local] Arguments s_bw {HT BW P} s.
#[local] Arguments s_writes {HT BW P} s.
#[local] Arguments st_pool {HT BW P} s v.
#[local] Arguments st_ioq {HT BW P} s v.
#[local] Arguments st_ioseq {HT BW P} s v.
#[local] Arguments st_iodeq {HT BW P} s v.
#[local] Arguments st_frag {HT BW P} s v.
#[local] Arguments st_cur {HT BW P} s v.
#[local] Arguments st_backlog {HT BW P} s v.
#[local] Arguments st_ht {HT BW P} s v.
#[local] Arguments st_ftbl {HT BW P} s v.
#[local] Arguments st_ino {HT BW P} s v.
#[local] Arguments st_bw {HT BW P} s v w.
#[local] Arguments release {HT BW P} s.
#[local] Arguments nothing_in_flight {HT BW P} s.
#[local] Arguments dq_fuel {HT BW P} s.
#[local] Arguments sp_frag {HT} s.
#[local] Arguments sp_ht {HT} s.
#[local] Arguments sp_nft {HT} s.
#[local] Arguments sp_out {HT} s.
#[local] Arguments mkSp {HT}.
#[local] Arguments sp_log {HT} s.

Lemma ftbl_set_len t : forall n v, len (ftbl_set t n v) = len t.
Proof.
  induction t as [|x t IH]; intros n v; [reflexivity|].
  destruct n; cbn [ftbl_set]; rewrite !len_cons; [reflexivity|]. rewrite IH. reflexivity.
Qed.

(* ------------------------------------------------------------------ *)
(* the front end produces well-formed call sequences                   *)
(* ------------------------------------------------------------------ *)
(* [evs_ok c l c']: starting with blk_current (non-)NULL as c says, the calls in l are balanced
   (a current block is obtained before it is submitted) and every submitted block carries only
   front-end flags; c' says whether a current block is left over. *)
Fixpoint evs_ok (c : bool) (l : list ev) (c' : bool) : Prop :=
  match l with
  | [] => c = c'
  | EvBegin _ :: r => evs_ok c r c'
  | EvSize _ _ :: r => evs_ok c r c'
  | EvNew :: r => c = false /\ evs_ok true r c'
  | EvSubmitCur b :: r => c = true /\ fe_flags_ok (b_fl b) /\ evs_ok false r c'
  | EvSentinel b :: r => fe_flags_ok (b_fl b) /\ evs_ok c r c'
  end.

Lemma evs_ok_app l1 : forall c c1 l2 c2, evs_ok c l1 c1 -> evs_ok c1 l2 c2 -> evs_ok c (l1 ++ l2) c2.
Proof.
  induction l1 as [|e l1 IH]; intros c c1 l2 c2 H1 H2; cbn [app].
  - cbn in H1. subst. exact H2.
  - destruct e; cbn [evs_ok] in *.
    + eapply IH; eassumption.
    + eapply IH; eassumption.
    + destruct H1. split; [assumption|]. eapply IH; eassumption.
    + destruct H1 as (? & ? & ?). repeat split; try assumption. eapply IH; eassumption.
    + destruct H1. split; [assumption|]. eapply IH; eassumption.
Qed.

(* front-end state consistent with "blk_current != NULL" = c *)
Definition fe_ok (f : fe) (c : bool) : Prop :=
  isSome (fe_cur f) = c /\ fe_flags_ok (fe_flags f) /\
  (forall cur, fe_cur f = Some cur -> fe_flags_ok (b_fl cur)).

Definition cur_weight (bs : N) (c : option blk) : nat :=
  match c with
  | None => 1
  | Some cur => if bs - len (b_data cur) =? 0 then 2 else 0
  end.

Lemma fe_append_loop_ok bs : 0 < bs -> forall fuel f data c,
  fe_ok f c -> (3 * length data + cur_weight bs (fe_cur f) < fuel)%nat ->
  exists f' evs, fe_append_loop fuel bs f data = Ok (f', evs) /\
    evs_ok c evs (isSome (fe_cur f')) /\ fe_ok f' (isSome (fe_cur f')) /\
    fe_begin f' = fe_begin f /\ fe_ino f' = fe_ino f /\
    (data <> [] -> fe_cur f' <> None) /\ (data = [] -> f' = f).
Proof.
  intros Hbs. induction fuel as [|n IH]; intros f data c Hok Hfuel; [lia|].
  cbn [fe_append_loop]. destruct data as [|d0 data'].
  - exists f, []. destruct Hok as (A & B & C).
    split; [reflexivity|]. split; [cbn; congruence|]. split; [split; [reflexivity|split; assumption]|].
    split; [reflexivity|]. split; [reflexivity|]. split; [congruence|reflexivity].
  - set (data := d0 :: data') in *.
    destruct Hok as (Hc & Hfl & Hcur).
    destruct (fe_cur f) as [cur|] eqn:Ecur.
    + (* a current block exists *)
      cbn in Hc.
      destruct (bs - len (b_data cur) =? 0) eqn:Ediff.
      * (* full: submit it *)
        destruct (IH (fe_with_cur f None) data false) as (f' & evs & E1 & E2 & E3 & E4 & E5 & E6 & E7).
        { split; [reflexivity|]. split; [exact Hfl|]. cbn. discriminate. }
        { unfold fe_with_cur; cbn [fe_cur cur_weight]. cbn [cur_weight] in Hfuel. rewrite Ediff in Hfuel. lia. }
        rewrite E1. exists f', (EvSubmitCur cur :: evs). split; [reflexivity|].
        split. { cbn [evs_ok]. split; [congruence|]. split; [apply Hcur; reflexivity|exact E2]. }
        split; [exact E3|]. split; [exact E4|]. split; [exact E5|].
        split; [intros _; apply E6; discriminate|discriminate].
      * (* room left: copy *)
        set (d := N.to_nat (N.min (bs - len (b_data cur)) (len data))).
        assert (Hd : (1 <= d)%nat).
        { apply N.eqb_neq in Ediff. unfold d, len in *. unfold data. cbn [length]. lia. }
        assert (Hd2 : (d <= length data)%nat).
        { unfold d, len. lia. }
        destruct (IH (fe_with_cur f (Some (with_data cur (b_data cur ++ firstn d data)))) (skipn d data) true)
          as (f' & evs & E1 & E2 & E3 & E4 & E5 & E6 & E7).
        { split; [reflexivity|]. split; [exact Hfl|]. cbn.
          intros cur' Hc'. inversion Hc'; subst. cbn. apply Hcur. reflexivity. }
        { unfold fe_with_cur; cbn [fe_cur]. rewrite skipn_length.
          assert (cur_weight bs (Some (with_data cur (b_data cur ++ firstn d data))) <= 2)%nat.
          { cbn [cur_weight]. match goal with |- context [if ?c then _ else _] => destruct c end; lia. }
          cbn [cur_weight] in Hfuel. rewrite Ediff in Hfuel. lia. }
        fold d. rewrite E1. exists f', evs. split; [reflexivity|].
        subst c. split; [exact E2|]. split; [exact E3|]. split; [exact E4|]. split; [exact E5|].
        split; [|discriminate].
        intros _. destruct (skipn d data) eqn:Es.
        -- rewrite (E7 eq_refl). cbn. discriminate.
        -- apply E6. discriminate.
    + (* no current block: get a new one *)
      cbn in Hc.
      set (nb := mkB (fe_ino f) 0 (fe_flags f) 0 (fe_index f) []).
      set (f1 := mkFe (fe_begin f) (fe_ino f) (setf FIRST false (fe_flags f)) (fe_index f + 1) (Some nb)).
      destruct (IH f1 data true) as (f' & evs & E1 & E2 & E3 & E4 & E5 & E6 & E7).
      { split; [reflexivity|]. split.
        - apply fe_flags_ok_setf; try discriminate; assumption.
        - cbn. intros cur' Hc'. inversion Hc'; subst. cbn. exact Hfl. }
      { unfold f1; cbn [fe_cur cur_weight b_data nb]. cbn [cur_weight] in Hfuel.
        replace (bs - len (@nil N)) with bs by (rewrite len_nil; lia).
        assert (bs =? 0 = false) by (apply N.eqb_neq; lia). rewrite H. lia. }
      rewrite E1. exists f', (EvNew :: evs). split; [reflexivity|].
      split. { cbn [evs_ok]. split; [congruence|exact E2]. }
      split; [exact E3|]. split; [exact E4|]. split; [exact E5|].
      split; [intros _; apply E6; discriminate|discriminate].
Qed.

Lemma fe_append_ok bs : 0 < bs -> forall f data c,
  fe_ok f c -> fe_begin f = true -> data <> [] ->
  exists f' evs, fe_append bs f data = Ok (f', evs) /\
    evs_ok c evs (isSome (fe_cur f')) /\ fe_ok f' (isSome (fe_cur f')) /\ fe_begin f' = true.
Proof.
  intros Hbs f data c Hok Hb Hd. unfold fe_append. rewrite Hb. cbn [negb].
  destruct (fe_append_loop_ok bs Hbs (3 * length data + 3) f data c Hok) as (f' & evs & E1 & E2 & E3 & E4 & E5 & E6 & _).
  { destruct (fe_cur f); cbn [cur_weight]; [match goal with |- context [if ?c then _ else _] => destruct c end|]; lia. }
  rewrite E1. specialize (E6 Hd). destruct E3 as (A & B & C).
  destruct (fe_cur f') as [cur|] eqn:Ec; [|congruence].
  destruct (len (b_data cur) =? bs).
  - exists (fe_with_cur f' None), (EvSize (fe_ino f) (len data) :: evs ++ [EvSubmitCur cur]).
    split; [reflexivity|]. split.
    { cbn [evs_ok]. eapply evs_ok_app; [exact E2|]. cbn. split; [reflexivity|]. split; [|reflexivity].
      apply C. reflexivity. }
    split; [|cbn; congruence].
    split; [reflexivity|]. split; [exact B|]. cbn. discriminate.
  - exists f', (EvSize (fe_ino f) (len data) :: evs). split; [reflexivity|].
    rewrite Ec. split; [exact E2|]. split; [|congruence].
    split; [rewrite Ec; reflexivity|]. split; [exact B|]. rewrite Ec. exact C.
Qed.

Lemma fe_appends_ok bs : 0 < bs -> forall chunks f c,
  fe_ok f c -> fe_begin f = true -> Forall (fun ch => ch <> []) chunks ->
  exists f' evs, fe_appends bs f chunks = Ok (f', evs) /\
    evs_ok c evs (isSome (fe_cur f')) /\ fe_ok f' (isSome (fe_cur f')) /\ fe_begin f' = true.
Proof.
  intros Hbs. induction chunks as [|ch chunks IH]; intros f c Hok Hb Hne; cbn [fe_appends].
  - exists f, []. destruct Hok as (A & B & C).
    split; [reflexivity|]. split; [cbn; congruence|]. split; [|assumption].
    split; [reflexivity|]. split; assumption.
  - inversion Hne; subst.
    destruct (fe_append_ok bs Hbs f ch c Hok Hb) as (f1 & e1 & E1 & E2 & E3 & E4); [assumption|].
    rewrite E1.
    destruct (IH f1 _ E3 E4) as (f2 & e2 & F1 & F2 & F3 & F4); [assumption|].
    rewrite F1. exists f2, (e1 ++ e2). split; [reflexivity|].
    split; [eapply evs_ok_app; eassumption|]. split; assumption.
Qed.

Definition file_ok (fl : file) : Prop :=
  N.ldiff (fst fl) c_SQFS_BLK_USER_SETTABLE_FLAGS = 0 /\ Forall (fun ch => ch <> []) (snd fl).

Lemma fe_file_ok bs : 0 < bs -> forall f ino fl,
  fe_begin f = false -> fe_cur f = None -> file_ok fl ->
  exists f' evs, fe_file bs f ino fl = Ok (f', evs) /\ evs_ok false evs false /\
    fe_begin f' = false /\ fe_cur f' = None.
Proof.
  intros Hbs f ino [uf chunks] Hb Hc (Hfl & Hch). cbn [fst snd] in *.
  unfold fe_file, fe_begin_file. cbn [fst snd]. rewrite Hb.
  assert (E : negb (N.ldiff uf c_SQFS_BLK_USER_SETTABLE_FLAGS =? 0) = false).
  { rewrite Hfl. reflexivity. }
  rewrite E.
  set (f1 := mkFe true ino (setf FIRST true (dec_flags uf)) 0 (fe_cur f)).
  destruct (fe_appends_ok bs Hbs chunks f1 false) as (f2 & e2 & E1 & E2 & E3 & E4).
  { unfold f1. split; [cbn; rewrite Hc; reflexivity|]. split.
    - cbn [fe_flags]. apply fe_flags_ok_setf; try discriminate. apply dec_user_flags_ok; assumption.
    - cbn. rewrite Hc. discriminate. }
  { reflexivity. }
  { assumption. }
  rewrite E1. unfold fe_end_file. rewrite E4. cbn [negb].
  destruct E3 as (A & B & C).
  destruct (fe_cur f2) as [cur|] eqn:Ecur.
  - specialize (C cur eq_refl).
    destruct (getf DF (fe_flags f2)).
    + eexists _, _. split; [reflexivity|]. split; [|split; reflexivity].
      cbn [app evs_ok]. eapply evs_ok_app; [exact E2|]. cbn. split; [reflexivity|]. split; [|reflexivity].
      apply fe_flags_ok_setf; try discriminate; assumption.
    + destruct (negb (getf FIRST (b_fl cur))).
      * eexists _, _. split; [reflexivity|]. split; [|split; reflexivity].
        cbn [app evs_ok]. eapply evs_ok_app; [exact E2|]. cbn.
        split; [apply fe_flags_ok_setf; try discriminate; assumption|].
        split; [reflexivity|]. split; [|reflexivity].
        apply fe_flags_ok_setf; try discriminate; assumption.
      * eexists _, _. split; [reflexivity|]. split; [|split; reflexivity].
        cbn [app evs_ok]. eapply evs_ok_app; [exact E2|]. cbn. split; [reflexivity|]. split; [|reflexivity].
        apply fe_flags_ok_setf; try discriminate; assumption.
  - destruct (negb (getf FIRST (fe_flags f2))).
    + eexists _, _. split; [reflexivity|]. split; [|split; reflexivity].
      cbn [app evs_ok]. eapply evs_ok_app; [exact E2|]. cbn. split; [|reflexivity].
      apply fe_flags_ok_setf; try discriminate; assumption.
    + eexists _, _. split; [reflexivity|]. split; [|split; reflexivity].
      cbn [app evs_ok]. eapply evs_ok_app; [exact E2|]. cbn. reflexivity.
Qed.

Lemma fe_files_ok bs : 0 < bs -> forall fls f ino,
  fe_begin f = false -> fe_cur f = None -> Forall file_ok fls ->
  exists f' evs, fe_files bs f ino fls = Ok (f', evs) /\ evs_ok false evs false.
Proof.
  intros Hbs. induction fls as [|fl fls IH]; intros f ino Hb Hc Hok; cbn [fe_files].
  - exists f, []. split; reflexivity.
  - inversion Hok; subst.
    destruct (fe_file_ok bs Hbs f ino fl Hb Hc) as (f1 & e1 & E1 & E2 & E3 & E4); [assumption|].
    rewrite E1. destruct (IH f1 (ino + 1) E3 E4) as (f2 & e2 & F1 & F2); [assumption|].
    rewrite F1. exists f2, (e1 ++ e2). split; [reflexivity|]. eapply evs_ok_app; eassumption.
Qed.

(* ------------------------------------------------------------------ *)
(* the back end                                                        *)
(* ------------------------------------------------------------------ *)
(* within one inode, a tail end never carries the block index of a non-empty data block
   (proved for the front end below: fe_files_fresh) *)
Definition frag_idx_fresh (D : list blk) : Prop :=
  forall d f, In d D -> In f D -> bhas ISFRAG f = true -> bhas ISFRAG d = false ->
              b_ino d = b_ino f -> b_data d <> [] -> b_idx d <> b_idx f.

Section Main.
Variable hash : list N -> N.
Variable compress : list N -> option (list N).
Variable HT : Type.
Variable ht_search : HT -> blk -> option (N * N).
Variable ht_insert : HT -> blk -> N * N -> HT.
Variable BW : Type.
Variable bw_write : BW -> blk -> BW * N.
Variable P : Type.
Variable p_submit : P -> blk -> P.
Variable p_dequeue : P -> option (blk * P).
Variable bs mb : N.
Variable bw0 : BW.

Notation pblock := (process_block hash compress).

(* the pool refines a FIFO queue of [process_block]: alpha = the pending items in submission order *)
Variable alpha : P -> list blk.
Hypothesis alpha_submit : forall p b, alpha (p_submit p b) = alpha p ++ [b].
Hypothesis alpha_deq_nil : forall p, alpha p = [] -> p_dequeue p = None.
Hypothesis alpha_deq_cons : forall p b r, alpha p = b :: r ->
  exists p', p_dequeue p = Some (pblock b, p') /\ alpha p' = r.
Hypothesis Hmb : 3 <= mb.

(* all blocks the front end will ever submit in this run *)
Variable Dall : list blk.
Hypothesis Hfresh : frag_idx_fresh Dall.
Hypothesis HDfl : Forall (fun d => fe_flags_ok (b_fl d)) Dall.
Hypothesis Hlast : forall k, (cntL k Dall <= 1)%nat.

Notation state := (st HT BW P).
Notation spst := (sp HT).
Notation pcb' := (pcb HT BW bw_write P).
Notation pcf' := (pcf HT ht_search ht_insert BW P p_submit bs).
Notation enqueue' := (enqueue HT BW P p_submit).
Notation flush' := (flush_ioq HT BW bw_write P).
Notation dq_loop' := (dq_loop HT ht_search ht_insert BW bw_write P p_submit p_dequeue bs).
Notation dequeue_block' := (dequeue_block HT ht_search ht_insert BW bw_write P p_submit p_dequeue bs).
Notation gnb_loop' := (gnb_loop HT ht_search ht_insert BW bw_write P p_submit p_dequeue bs mb).
Notation get_new_block' := (get_new_block HT ht_search ht_insert BW bw_write P p_submit p_dequeue bs mb).
Notation sync_loop' := (sync_loop HT ht_search ht_insert BW bw_write P p_submit p_dequeue bs).
Notation sync' := (sync HT ht_search ht_insert BW bw_write P p_submit p_dequeue bs).
Notation finish' := (finish HT ht_search ht_insert BW bw_write P p_submit p_dequeue bs).
Notation be_event' := (be_event HT ht_search ht_insert BW bw_write P p_submit p_dequeue bs mb).
Notation be_events' := (be_events HT ht_search ht_insert BW bw_write P p_submit p_dequeue bs mb).
Notation run' := (run HT ht_search ht_insert BW bw_write P p_submit p_dequeue bs mb).
Notation spec_frag' := (spec_frag hash compress HT ht_search ht_insert bs).
Notation spec_step' := (spec_step hash compress HT ht_search ht_insert bs).
Notation spec_run' := (spec_run hash compress HT ht_search ht_insert bs).
Notation spec_fin' := (spec_fin hash compress HT).
Notation InvQ' := (InvQ hash compress BW bw_write bw0).

Definition Apool (s : state) : list blk := alpha (s_pool s).

Definition frag_ok (fb : blk) : Prop :=
  bhas FRAGBLK fb = true /\ bhas INTERNAL fb = false /\ bhas ISFRAG fb = false.

(* where an element of the output comes from *)
Definition src_ok (src : list blk) (e : blk) : Prop :=
  bhas FRAGBLK e = true \/
  exists d, In d src /\ bhas ISFRAG d = false /\ e = with_seq (pblock d) (b_seq e).

Definition fb_idx_ok (n : N) (e : blk) : Prop :=
  bhas FRAGBLK e = true -> b_idx e < n /\ bhas SPARSE e = false.

(* inodes (fragment reference, block-size list) and fragment table are the canonical functions of the
   specification's logs and the write log *)
Record ObsInv (s : state) (q : spst) : Prop := mkObs {
  O_fv : forall k, (i_fidx (s_ino s k), i_foff (s_ino s k)) = fref_of (ol_glog (sp_log q)) k;
  O_bv : forall k, i_blocks (s_ino s k) = blocks_canon (ol_sflog (sp_log q)) (map fst (s_writes s)) k;
  O_ft : s_ftbl s = ftbl_canon (sp_nft q) (s_writes s);
  O_src : incl (ol_src (sp_log q)) Dall;
  O_pool : incl (filter notFB (Apool s)) Dall;
  O_outsrc : Forall (src_ok (ol_src (sp_log q))) (sp_out q);
  O_fbidx : Forall (fb_idx_ok (sp_nft q)) (sp_out q);
  O_fragidx : forall fb, sp_frag q = Some fb -> b_idx fb < sp_nft q /\ bhas SPARSE fb = false;
  (* type, sparse bytes and block start of every inode *)
  O_J : forall k, Jino (s_ino s k);
  O_sp : forall k, i_sparse (s_ino s k) = sparse_canon (ol_splog (sp_log q)) (map fst (s_writes s)) k;
  O_st : forall k, i_start (s_ino s k) = start_canon (s_writes s) k;
  (* the blocks consumed and waiting are a prefix of the D-stream; at most one LAST block per inode *)
  O_lcnt : forall k, (cntL k (sp_out q) <= cntL k (ol_src (sp_log q)))%nat;
  O_fraglast : forall fb, sp_frag q = Some fb -> bhas LAST fb = false;
  O_pre : exists rest, ol_src (sp_log q) ++ filter notFB (Apool s) ++ rest = Dall
}.

(* [h] = blocks in the hands of the front end (blk_current, a sentinel being made) *)
Record Inv (h : N) (s : state) (q : spst) : Prop := mkInv {
  I_frag : s_frag s = sp_frag q;
  I_ht : s_ht s = sp_ht q;
  I_nft : len (s_ftbl s) = sp_nft q;
  I_fragok : forall fb, sp_frag q = Some fb -> frag_ok fb;
  I_q : InvQ' (Apool s) (s_ioq s) (s_ioseq s) (s_iodeq s) (s_bw s, s_writes s) (sp_out q);
  I_bl : s_backlog s = len (Apool s) + len (s_ioq s) + b2n (isSome (s_frag s)) + h;
  I_mb : s_backlog s <= mb;
  I_obs : ObsInv s q
}.

Ltac prj := cbn [s_pool s_ioq s_ioseq s_iodeq s_frag s_cur s_backlog s_ht s_ftbl s_ino s_bw s_writes
                 st_pool st_ioq st_ioseq st_iodeq st_frag st_cur st_backlog st_ht st_ftbl st_ino st_bw
                 release enqueue sp_frag sp_ht sp_nft sp_out sp_log ol_src ol_glog ol_sflog ol_splog log_g log_sf log_src] in *.

(* lia after abstracting every list length (zify chokes on lengths of section-variable applications) *)
Ltac nlia :=
  repeat match goal with
  | |- context [@len ?T ?l] => let n := fresh "n" in set (n := @len T l) in *; clearbody n
  | H : context [@len ?T ?l] |- _ => let n := fresh "n" in set (n := @len T l) in *; clearbody n
  end; lia.


(* ---------------- the observation invariant: helpers ---------------- *)
Lemma ObsInv_ext (s s' : state) q :
  s_ino s' = s_ino s -> s_writes s' = s_writes s -> s_ftbl s' = s_ftbl s ->
  filter notFB (Apool s') = filter notFB (Apool s) ->
  ObsInv s q -> ObsInv s' q.
Proof.
  intros E1 E2 E3 E4 []. constructor; rewrite ?E1, ?E2, ?E3, ?E4; assumption.
Qed.

Lemma Forall_firstn {A} (Q : A -> Prop) l : forall n, Forall Q l -> Forall Q (firstn n l).
Proof.
  induction l as [|x l IH]; intros [|n] H; cbn [firstn]; try constructor.
  - inversion H; assumption.
  - apply IH. inversion H; assumption.
Qed.

Lemma Q_writes Ap ioq n d bw wr out :
  InvQ' Ap ioq n d (bw, wr) out -> map fst wr = firstn (N.to_nat d) out.
Proof.
  intros []. change wr with (snd (bw, wr)). rewrite Q_wr. rewrite bw_run_blocks. reflexivity.
Qed.

Lemma src_ok_grow src x e : src_ok src e -> src_ok (src ++ [x]) e.
Proof.
  intros [H|(d & A & B & C)]; [left; exact H|right]. exists d. split; [apply in_or_app; left; exact A|]. auto.
Qed.

Lemma fb_idx_ok_grow n e : fb_idx_ok n e -> fb_idx_ok (n + 1) e.
Proof. intros H HF. destruct (H HF). split; [lia|assumption]. Qed.

(* what is already written does not touch cell idx(x) of inode ino(x) when x is a tail end *)
Lemma written_fresh (s : state) q x :
  ObsInv s q -> (exists n, map fst (s_writes s) = firstn n (sp_out q)) ->
  In x Dall -> bhas ISFRAG x = true ->
  Forall (fun b => b_ino b = b_ino x -> acts b -> N.to_nat (b_idx b) <> N.to_nat (b_idx x)) (map fst (s_writes s)).
Proof.
  intros [] (n & Hw) Hx Hfx. rewrite Hw. apply Forall_firstn.
  apply Forall_forall. intros e He Hino Hact.
  rewrite Forall_forall in O_outsrc0, O_fbidx0.
  destruct (O_outsrc0 e He) as [HF|(d & Hd & Hdf & Heq)].
  - destruct (O_fbidx0 e He HF) as (_ & Hsp). destruct Hact as [Ha|[_ Ha]]; congruence.
  - assert (HdD : In d Dall) by (apply O_src0; exact Hd).
    rewrite Forall_forall in HDfl. pose proof (HDfl d HdD) as Hfl. apply fe_flags_ok_elim in Hfl.
    destruct Hfl as (_ & _ & Hsp & _).
    assert (Hact' : acts (pblock d)).
    { rewrite Heq in Hact. exact Hact. }
    pose proof (pb_acts_nonempty hash compress d Hsp Hact') as Hne.
    assert (E1 : b_ino e = b_ino d) by (rewrite Heq; cbn [b_ino with_seq]; apply pb_ino).
    assert (E2 : b_idx e = b_idx d) by (rewrite Heq; cbn [b_idx with_seq]; apply pb_idx).
    rewrite E2. intro Hc. apply N2Nat.inj in Hc.
    apply (Hfresh d x HdD Hx Hfx Hdf); [congruence|exact Hne|exact Hc].
Qed.

(* fragment-block writes so far carry indices below the table size *)
Lemma written_ft_ok (s : state) q :
  ObsInv s q -> (exists n, map fst (s_writes s) = firstn n (sp_out q)) ->
  Forall (ft_ok (N.to_nat (sp_nft q))) (s_writes s).
Proof.
  intros [] (n & Hw).
  assert (H : Forall (fun b => bhas FRAGBLK b = true -> (N.to_nat (b_idx b) < N.to_nat (sp_nft q))%nat) (map fst (s_writes s))).
  { rewrite Hw. apply Forall_firstn. eapply Forall_impl; [|exact O_fbidx0].
    intros e He HF. destruct (He HF). lia. }
  apply Forall_map in H. exact H.
Qed.

(* a block of the output that is flagged sparse is not empty *)
Lemma written_sparse (s : state) q e :
  ObsInv s q -> In e (sp_out q) -> bhas SPARSE e = true -> 0 < len (b_data e).
Proof.
  intros [] He Hsp. rewrite Forall_forall in O_outsrc0, O_fbidx0.
  assert (Hne : b_data e <> []).
  { destruct (O_outsrc0 e He) as [HF|(d & Hd & Hdf & Heq)].
    - destruct (O_fbidx0 e He HF) as (_ & H). congruence.
    - assert (HdD : In d Dall) by (apply O_src0; exact Hd).
      rewrite Forall_forall in HDfl. pose proof (HDfl d HdD) as Hfl. apply fe_flags_ok_elim in Hfl.
      destruct Hfl as (_ & _ & Hsd & _).
      rewrite Heq in Hsp |- *. unfold bhas in Hsp. cbn [b_fl b_data with_seq] in *.
      apply pb_sparse_nonempty; assumption. }
  destruct (b_data e); [congruence|]. rewrite len_cons. lia.
Qed.

Lemma cntL_pre (s : state) q k : ObsInv s q -> (cntL k (sp_out q) <= 1)%nat.
Proof.
  intros []. destruct O_pre0 as (rest & E). pose proof (Hlast k) as H. rewrite <- E, !cntL_app in H.
  specialize (O_lcnt0 k). lia.
Qed.

(* the LAST block of an inode is the first LAST block of that inode to be written: blocks_start is still 0 *)
Lemma written_last (s : state) q e n :
  ObsInv s q -> map fst (s_writes s) ++ [e] = firstn n (sp_out q) -> bhas LAST e = true ->
  i_start (s_ino s (b_ino e)) = 0.
Proof.
  intros Hobs Hw Hl. pose proof (cntL_pre s q (b_ino e) Hobs) as H1.
  pose proof (cntL_firstn (b_ino e) n (sp_out q)) as H2. rewrite <- Hw, cntL_app in H2.
  assert (H3 : cntL (b_ino e) [e] = 1%nat).
  { unfold cntL, isL. cbn [filter]. rewrite N.eqb_refl, Hl. reflexivity. }
  destruct Hobs. rewrite O_st0. unfold start_canon. apply st_fold_zero. lia.
Qed.

(* process_completed_block, inode by inode *)
Lemma pcb_ino_eq (s : state) b bw' loc : bw_write (s_bw s) b = (bw', loc) ->
  forall k, s_ino (pcb' s b) k = if k =? b_ino b then pcb_ino b loc (s_ino s k) else s_ino s k.
Proof.
  intros H k. unfold pcb, pcb_ino. rewrite H. destruct s as [xp xq xs xd xf xc xb xh xt xi xw xl]. prj.
  destruct (bhas SPARSE b); [|destruct (negb (len (b_data b) =? 0)); [destruct (bhas FRAGBLK b)|]];
    destruct (bhas LAST b); prj; unfold it_upd; destruct (k =? b_ino b); reflexivity.
Qed.

Ltac obs_same H :=
  eapply ObsInv_ext; [| | | |exact H]; try reflexivity.

(* ---------------- process_completed_block / the flush loop ---------------- *)
Lemma pcb_fields (s : state) b bw' loc : bw_write (s_bw s) b = (bw', loc) ->
  s_pool (pcb' s b) = s_pool s /\ s_ioq (pcb' s b) = s_ioq s /\ s_ioseq (pcb' s b) = s_ioseq s /\
  s_iodeq (pcb' s b) = s_iodeq s /\ s_frag (pcb' s b) = s_frag s /\ s_cur (pcb' s b) = s_cur s /\
  s_backlog (pcb' s b) = s_backlog s - 1 /\ s_ht (pcb' s b) = s_ht s /\
  len (s_ftbl (pcb' s b)) = len (s_ftbl s) /\ s_bw (pcb' s b) = bw' /\
  s_writes (pcb' s b) = s_writes s ++ [(b, loc)].
Proof.
  intro H. unfold pcb. rewrite H. destruct s as [xp xq xs xd xf xc xb xh xt xi xw xl]. cbn [s_bw s_writes st_bw s_pool s_ioq s_ioseq s_iodeq s_frag s_cur s_backlog s_ht s_ftbl s_ino].
  destruct (bhas SPARSE b); [|destruct (negb (len (b_data b) =? 0)); [destruct (bhas FRAGBLK b)|]];
    destruct (bhas LAST b);
    cbn [release st_ino st_ftbl st_backlog s_bw s_writes s_pool s_ioq s_ioseq s_iodeq s_frag s_cur s_backlog s_ht s_ftbl s_ino];
    rewrite ?ftbl_set_len; repeat split; reflexivity.
Qed.

Lemma it_upd_kv (t : itab) k f k' : keeps_views f ->
  i_fidx (it_upd t k f k') = i_fidx (t k') /\ i_foff (it_upd t k f k') = i_foff (t k') /\
  i_blocks (it_upd t k f k') = i_blocks (t k').
Proof. intro H. unfold it_upd. destruct (k' =? k); [apply H|auto]. Qed.

(* what process_completed_block does to the fragment table and to the two inode views *)
Lemma pcb_views (s : state) b bw' loc : bw_write (s_bw s) b = (bw', loc) ->
  s_ftbl (pcb' s b) = ftbl_apply (s_ftbl s) (b, loc) /\
  forall k, i_fidx (s_ino (pcb' s b) k) = i_fidx (s_ino s k) /\
            i_foff (s_ino (pcb' s b) k) = i_foff (s_ino s k) /\
            i_blocks (s_ino (pcb' s b) k) = flush_blk k (i_blocks (s_ino s k)) b.
Proof.
  intro H. unfold pcb. rewrite H. destruct s as [xp xq xs xd xf xc xb xh xt xi xw xl].
  unfold ftbl_apply, flush_blk. cbn [fst snd]. prj.
  assert (KL : forall (t : itab) k,
            i_fidx (it_upd t (b_ino b) (fun i => i_set_block_start i loc) k) = i_fidx (t k) /\
            i_foff (it_upd t (b_ino b) (fun i => i_set_block_start i loc) k) = i_foff (t k) /\
            i_blocks (it_upd t (b_ino b) (fun i => i_set_block_start i loc) k) = i_blocks (t k)).
  { intros t k. apply it_upd_kv. apply kv_set_block_start. }
  destruct (bhas SPARSE b).
  - (* sparse *)
    assert (KS : forall k,
       i_fidx (it_upd xi (b_ino b) (fun i => i_set_block_size (i_add_sparse (i_make_extended i) (len (b_data b))) (b_idx b) 0) k) = i_fidx (xi k) /\
       i_foff (it_upd xi (b_ino b) (fun i => i_set_block_size (i_add_sparse (i_make_extended i) (len (b_data b))) (b_idx b) 0) k) = i_foff (xi k) /\
       i_blocks (it_upd xi (b_ino b) (fun i => i_set_block_size (i_add_sparse (i_make_extended i) (len (b_data b))) (b_idx b) 0) k) =
         (if k =? b_ino b then upd_nth (N.to_nat (b_idx b)) 0 (i_blocks (xi k)) else i_blocks (xi k))).
    { intro k. unfold it_upd. destruct (k =? b_ino b); [|auto].
      destruct (kv_make_extended (xi k)) as (A & B & C). cbn [i_set_block_size i_add_sparse i_fidx i_foff i_blocks].
      rewrite A, B, C. auto. }
    destruct (bhas LAST b); prj; (split; [reflexivity|]); intro k.
    + destruct (KL (it_upd xi (b_ino b) (fun i => i_set_block_size (i_add_sparse (i_make_extended i) (len (b_data b))) (b_idx b) 0)) k) as (A & B & C).
      destruct (KS k) as (A' & B' & C'). rewrite A, B, C, A', B', C'. auto.
    + apply KS.
  - destruct (negb (len (b_data b) =? 0)).
    + destruct (bhas FRAGBLK b).
      * destruct (bhas LAST b); prj; (split; [reflexivity|]); intro k.
        -- destruct (KL xi k) as (A & B & C). rewrite A, B, C. destruct (k =? b_ino b); auto.
        -- destruct (k =? b_ino b); auto.
      * assert (KD : forall k,
          i_fidx (it_upd xi (b_ino b) (fun i => i_set_block_size i (b_idx b) (size_word b)) k) = i_fidx (xi k) /\
          i_foff (it_upd xi (b_ino b) (fun i => i_set_block_size i (b_idx b) (size_word b)) k) = i_foff (xi k) /\
          i_blocks (it_upd xi (b_ino b) (fun i => i_set_block_size i (b_idx b) (size_word b)) k) =
            (if k =? b_ino b then upd_nth (N.to_nat (b_idx b)) (size_word b) (i_blocks (xi k)) else i_blocks (xi k))).
        { intro k. unfold it_upd. destruct (k =? b_ino b); [|auto]. cbn. auto. }
        destruct (bhas LAST b); prj; (split; [reflexivity|]); intro k.
        -- destruct (KL (it_upd xi (b_ino b) (fun i => i_set_block_size i (b_idx b) (size_word b))) k) as (A & B & C).
           destruct (KD k) as (A' & B' & C'). rewrite A, B, C, A', B', C'. auto.
        -- apply KD.
    + destruct (bhas LAST b); prj; (split; [reflexivity|]); intro k.
      * destruct (KL xi k) as (A & B & C). rewrite A, B, C. destruct (k =? b_ino b); auto.
      * destruct (k =? b_ino b); auto.
Qed.

Lemma st_ioq_id (s : state) l : s_ioq s = l -> st_ioq s l = s.
Proof. intros <-. destruct s. reflexivity. Qed.

Lemma flush_step h (s : state) q e r :
  Inv h s q -> s_ioq s = e :: r -> b_seq e = s_iodeq s ->
  let s' := pcb' (st_iodeq (st_ioq s r) (s_iodeq s + 1)) e in
  Inv h s' q /\ s_pool s' = s_pool s /\ s_cur s' = s_cur s /\ s_frag s' = s_frag s /\
  s_backlog s' + 1 = s_backlog s /\ s_ioq s' = r.
Proof.
  intros [] Hq He.
  set (s0 := st_iodeq (st_ioq s r) (s_iodeq s + 1)).
  destruct (bw_write (s_bw s0) e) as [bw' loc] eqn:Hw.
  destruct (pcb_fields s0 e bw' loc Hw) as (F1 & F2 & F3 & F4 & F5 & F6 & F7 & F8 & F9 & F10 & F11).
  cbv zeta. fold s0.
  assert (G1 : s_pool s0 = s_pool s) by (destruct s; reflexivity).
  assert (G2 : s_ioq s0 = r) by (destruct s; reflexivity).
  assert (G3 : s_ioseq s0 = s_ioseq s) by (destruct s; reflexivity).
  assert (G4 : s_iodeq s0 = s_iodeq s + 1) by (destruct s; reflexivity).
  assert (G5 : s_frag s0 = s_frag s) by (destruct s; reflexivity).
  assert (G6 : s_cur s0 = s_cur s) by (destruct s; reflexivity).
  assert (G7 : s_backlog s0 = s_backlog s) by (destruct s; reflexivity).
  assert (G8 : s_ht s0 = s_ht s) by (destruct s; reflexivity).
  assert (G9 : s_ftbl s0 = s_ftbl s) by (destruct s; reflexivity).
  assert (G10 : s_bw s0 = s_bw s) by (destruct s; reflexivity).
  assert (G11 : s_writes s0 = s_writes s) by (destruct s; reflexivity).
  rewrite Hq in *.
  assert (Hbl : 1 <= s_backlog s) by (rewrite I_bl0, len_cons; lia).
  split; [|split; [congruence|split; [congruence|split; [congruence|split; [lia|congruence]]]]].
  constructor.
  - congruence.
  - congruence.
  - congruence.
  - assumption.
  - unfold Apool. rewrite F1, F2, F3, F4, F10, F11, G1, G2, G3, G4, G11.
    rewrite G10 in Hw. eapply Q_flush; [exact I_q0|exact He|exact Hw].
  - unfold Apool in *. rewrite F1, F2, F5, F7, G1, G2, G5, G7, I_bl0, len_cons. lia.
  - lia.
  - (* observations *)
    assert (G12 : s_ino s0 = s_ino s) by (destruct s; reflexivity).
    destruct (pcb_views s0 e bw' loc Hw) as (V1 & V2).
    assert (Hnth : nth_error (sp_out q) (N.to_nat (s_iodeq s)) = Some e).
    { destruct I_q0 as [_ _ _ Hio _ _ _ _]. apply Forall_inv in Hio. destruct Hio as (A & _). rewrite <- He. exact A. }
    assert (HLAST : bhas LAST e = true -> i_start (s_ino s (b_ino e)) = 0).
    { apply (written_last s q e (S (N.to_nat (s_iodeq s))) I_obs0).
      rewrite (firstn_succ_nth _ _ _ Hnth). f_equal. eapply Q_writes. exact I_q0. }
    assert (HSP : bhas SPARSE e = true -> 0 < len (b_data e)).
    { apply (written_sparse s q e I_obs0). eapply nth_error_In; exact Hnth. }
    destruct I_obs0 as [Ofv Obv Oft Osrc Opool Oout Ofb Ofr OJ Osp Ost Olc Ofl Opre].
    constructor.
    + intro k. destruct (V2 k) as (A & B & _). rewrite A, B, G12. apply Ofv.
    + intro k. destruct (V2 k) as (_ & _ & C). rewrite C, F11, G11, G12, map_app. cbn [map fst].
      rewrite blocks_canon_flush, <- Obv. reflexivity.
    + rewrite V1, F11, G11, G9, ftbl_canon_snoc, <- Oft. reflexivity.
    + exact Osrc.
    + unfold Apool in *. rewrite F1, G1. exact Opool.
    + exact Oout.
    + exact Ofb.
    + exact Ofr.
    + intro k. rewrite (pcb_ino_eq s0 e bw' loc Hw k), G12. destruct (k =? b_ino e) eqn:Ek; [|apply OJ].
      apply N.eqb_eq in Ek. subst k. apply pcb_ino_J; [apply OJ|intro HL; rewrite (HLAST HL); unfold U32MAX; lia|exact HSP].
    + intro k. rewrite (pcb_ino_eq s0 e bw' loc Hw k), G12, F11, G11, map_app. cbn [map fst].
      rewrite sparse_canon_flush. unfold sp_blk. destruct (k =? b_ino e) eqn:Ek; cbn [andb]; [|apply Osp].
      apply N.eqb_eq in Ek. subst k.
      destruct (pcb_ino_J e loc (s_ino s (b_ino e)) (OJ _)) as (_ & A & _);
        [intro HL; rewrite (HLAST HL); unfold U32MAX; lia|exact HSP|].
      rewrite A, Osp. reflexivity.
    + intro k. rewrite (pcb_ino_eq s0 e bw' loc Hw k), G12, F11, G11, start_canon_snoc. unfold st_blk. cbn [fst snd].
      destruct (k =? b_ino e) eqn:Ek; cbn [andb]; [|apply Ost].
      apply N.eqb_eq in Ek. subst k.
      destruct (pcb_ino_J e loc (s_ino s (b_ino e)) (OJ _)) as (_ & _ & A);
        [intro HL; rewrite (HLAST HL); unfold U32MAX; lia|exact HSP|].
      rewrite A, Ost. reflexivity.
    + exact Olc.
    + exact Ofl.
    + unfold Apool in *. rewrite F1, G1. exact Opre.
Qed.

Lemma flush_ok h q : forall l (s : state),
  s_ioq s = l -> Inv h s q ->
  let s' := flush' l s in
  Inv h s' q /\ s_pool s' = s_pool s /\ s_cur s' = s_cur s /\ s_frag s' = s_frag s /\
  s_backlog s' <= s_backlog s /\
  (s_ioq s' = [] \/ exists e r, s_ioq s' = e :: r /\ b_seq e <> s_iodeq s').
Proof.
  induction l as [|e r IH]; intros s Hq Hinv; cbn [flush_ioq].
  - rewrite (st_ioq_id s [] Hq). cbv zeta.
    split; [assumption|]. split; [reflexivity|]. split; [reflexivity|]. split; [reflexivity|].
    split; [lia|]. left; assumption.
  - destruct (b_seq e =? s_iodeq s) eqn:E.
    + apply N.eqb_eq in E.
      destruct (flush_step h s q e r Hinv Hq E) as (A1 & A2 & A3 & A4 & A5 & A6).
      destruct (IH _ A6 A1) as (B1 & B2 & B3 & B4 & B5 & B6).
      cbv zeta in *.
      split; [assumption|]. split; [congruence|]. split; [congruence|]. split; [congruence|].
      split; [lia|assumption].
    + rewrite (st_ioq_id s (e :: r) Hq). cbv zeta. apply N.eqb_neq in E.
      split; [assumption|]. split; [reflexivity|]. split; [reflexivity|]. split; [reflexivity|].
      split; [lia|]. right. exists e, r. split; assumption.
Qed.

(* ---------------- process_completed_fragment ---------------- *)

Lemma frag_ok_new frag idx dc :
  frag_ok (with_fl (with_idx frag idx) (setf FRAGBLK true (setf DC dc no_flags))).
Proof.
  unfold frag_ok, bhas. cbn [b_fl with_fl].
  rewrite getf_setf_same, !getf_setf_other, !getf_no_flags by discriminate. auto.
Qed.

Lemma frag_ok_merge fb d dc : frag_ok fb -> frag_ok (with_fl (with_data fb d) (setf DC dc (b_fl fb))).
Proof.
  unfold frag_ok, bhas. cbn [b_fl with_fl]. rewrite !getf_setf_other by discriminate. auto.
Qed.

(* inode-level effect of the two operations of process_completed_fragment *)
Lemma sf_op_views i idx n :
  i_fidx (i_add_sparse (i_set_block_size (i_make_extended i) idx 0) n) = i_fidx i /\
  i_foff (i_add_sparse (i_set_block_size (i_make_extended i) idx 0) n) = i_foff i /\
  i_blocks (i_add_sparse (i_set_block_size (i_make_extended i) idx 0) n) = upd_nth (N.to_nat idx) 0 (i_blocks i).
Proof.
  destruct (kv_make_extended i) as (A & B & C). cbn [i_add_sparse i_set_block_size i_fidx i_foff i_blocks].
  rewrite A, B, C. auto.
Qed.

Lemma fv_g (t : itab) glog ino idx off :
  (forall k, (i_fidx (t k), i_foff (t k)) = fref_of glog k) ->
  forall k, (i_fidx (it_upd t ino (fun i => i_set_frag i idx off) k),
             i_foff (it_upd t ino (fun i => i_set_frag i idx off) k)) = fref_of (glog ++ [(ino, idx, off)]) k.
Proof.
  intros H k. rewrite fref_of_snoc. cbn [fst snd]. unfold it_upd. destruct (k =? ino); [reflexivity|apply H].
Qed.

Lemma bv_g (t : itab) ino idx off k :
  i_blocks (it_upd t ino (fun i => i_set_frag i idx off) k) = i_blocks (t k).
Proof. unfold it_upd. destruct (k =? ino); reflexivity. Qed.

(* set_frag leaves type, sparse bytes and block start alone *)
Lemma sc_g (t : itab) ino idx off k :
  (Jino (t k) -> Jino (it_upd t ino (fun i => i_set_frag i idx off) k)) /\
  i_sparse (it_upd t ino (fun i => i_set_frag i idx off) k) = i_sparse (t k) /\
  i_start (it_upd t ino (fun i => i_set_frag i idx off) k) = i_start (t k).
Proof. unfold it_upd. destruct (k =? ino); cbn; auto. Qed.

Lemma isL_fb k fb n : bhas LAST fb = false -> isL k (pblock (with_seq fb n)) = false.
Proof.
  intro H. unfold isL. rewrite pb_flag by discriminate. unfold bhas in *. cbn [b_fl with_seq]. rewrite H.
  apply andb_false_r.
Qed.

Lemma new_fb_last frag idx dc :
  bhas LAST (with_fl (with_idx frag idx) (setf FRAGBLK true (setf DC dc no_flags))) = false.
Proof. unfold bhas. cbn [b_fl with_fl]. rewrite !getf_setf_other, getf_no_flags by discriminate. reflexivity. Qed.

(* the observation invariant across process_completed_fragment *)
Lemma pcf_obs h (s0 : state) q x :
  Inv (h + 1) s0 q -> In x Dall -> bhas ISFRAG x = true ->
  ObsInv (pcf' s0 (pblock x)) (spec_frag' q (pblock x)).
Proof.
  intros [Hf Hh Hn Hfo Hq Hbl Hmb' Hobs] Hx Hfx.
  assert (Hpre : exists n, map fst (s_writes s0) = firstn n (sp_out q)).
  { eexists. eapply Q_writes. exact Hq. }
  pose proof (written_fresh s0 q x Hobs Hpre Hx Hfx) as WF.
  pose proof (written_ft_ok s0 q Hobs Hpre) as WT.
  assert (Hxsp : bhas SPARSE x = false).
  { rewrite Forall_forall in HDfl. pose proof (HDfl x Hx) as Hfl. apply fe_flags_ok_elim in Hfl. apply Hfl. }
  pose proof (pb_sparse_nonempty hash compress x Hxsp) as HNE.
  set (b := pblock x) in *.
  assert (Eino : b_ino b = b_ino x) by apply pb_ino.
  assert (Eidx : b_idx b = b_idx x) by apply pb_idx.
  unfold pcf, spec_frag.
  destruct s0 as [xp xq xs xd xf xc xb xh xt xi xw xl]. destruct q as [qf qh qn qo ql].
  unfold Apool in *. prj. subst xf xh qn.
  destruct Hobs as [Ofv Obv Oft Osrc Opool Oout Ofb Ofr OJ Osp Ost Olc Ofl Opre]. unfold Apool in *. prj.
  destruct (bhas SPARSE b) eqn:ESP.
  { (* sparse tail end *)
    assert (Hlen : 0 < len (b_data b)).
    { specialize (HNE eq_refl). destruct (b_data b); [congruence|]. rewrite len_cons. lia. }
    assert (KJ : forall k, Jino (xi k) ->
       Jino (i_add_sparse (i_set_block_size (i_make_extended (xi k)) (b_idx b) 0) (len (b_data b))) /\
       i_sparse (i_add_sparse (i_set_block_size (i_make_extended (xi k)) (b_idx b) 0) (len (b_data b))) =
         i_sparse (xi k) + len (b_data b) /\
       i_start (i_add_sparse (i_set_block_size (i_make_extended (xi k)) (b_idx b) 0) (len (b_data b))) = i_start (xi k)).
    { intros k HJ. destruct (J_sp_ext (xi k) (len (b_data b)) HJ Hlen) as (A & B & C & _).
      split; [exact A|]. split; [exact B|exact C]. }
    prj. constructor; unfold Apool; prj; try assumption.
    - intro k. rewrite <- Ofv. unfold it_upd. destruct (k =? b_ino b); [|reflexivity].
      destruct (sf_op_views (xi k) (b_idx b) (len (b_data b))) as (A & B & _). rewrite A, B. reflexivity.
    - intro k. rewrite Eino, Eidx, blocks_canon_sf by exact WF. rewrite <- Obv.
      unfold it_upd, sf_blk. cbn [fst snd]. rewrite <- Eino, <- Eidx. destruct (k =? b_ino b); [|reflexivity].
      destruct (sf_op_views (xi k) (b_idx b) (len (b_data b))) as (_ & _ & C). exact C.
    - intro k. unfold it_upd. destruct (k =? b_ino b); [|apply OJ]. apply KJ. apply OJ.
    - intro k. rewrite sparse_canon_sp. unfold sp_add, it_upd. cbn [fst snd].
      destruct (k =? b_ino b); [|apply Osp]. destruct (KJ k (OJ k)) as (_ & B & _). rewrite B, Osp. reflexivity.
    - intro k. unfold it_upd. destruct (k =? b_ino b); [|apply Ost]. destruct (KJ k (OJ k)) as (_ & _ & C).
      rewrite C. apply Ost. }
  destruct (if bhas DD b then None else ht_search qh b) as [[idx off]|].
  { (* duplicate of an earlier tail end *)
    prj. constructor; unfold Apool; prj; try assumption.
    - apply fv_g. exact Ofv.
    - intro k. rewrite bv_g. apply Obv.
    - intro k. apply sc_g. apply OJ.
    - intro k. destruct (sc_g xi (b_ino b) idx off k) as (_ & A & _). rewrite A. apply Osp.
    - intro k. destruct (sc_g xi (b_ino b) idx off k) as (_ & _ & A). rewrite A. apply Ost. }
  destruct qf as [fb|].
  - destruct (Ofr fb eq_refl) as (Kidx & Ksp).
    pose proof (Hfo fb eq_refl) as (K1 & K2 & K3).
    pose proof (Ofl fb eq_refl) as KL.
    destruct (bs <? len (b_data fb) + len (b_data b)); prj.
    + (* overflow, then a new fragment block *)
      assert (EP : filter notFB (alpha (p_submit xp (with_seq fb xs))) = filter notFB (alpha xp)).
      { rewrite alpha_submit, filter_app. cbn [filter]. unfold notFB at 2. unfold bhas in *. cbn [b_fl with_seq].
        rewrite K1. cbn [negb]. apply app_nil_r. }
      constructor; unfold Apool; prj.
      * apply fv_g. exact Ofv.
      * intro k. rewrite bv_g. apply Obv.
      * rewrite ftbl_canon_grow by exact WT. rewrite <- Oft. reflexivity.
      * exact Osrc.
      * rewrite EP. exact Opool.
      * apply Forall_app. split; [exact Oout|]. constructor; [|constructor]. left.
        rewrite pb_flag by discriminate. exact K1.
      * apply Forall_app. split.
        -- eapply Forall_impl; [|exact Ofb]. intros; apply fb_idx_ok_grow; assumption.
        -- constructor; [|constructor]. intros _. rewrite pb_idx. cbn [b_idx with_seq].
           split; [lia|]. rewrite pb_sparse_fb by exact K1. exact Ksp.
      * intros fb' E. inversion E; subst fb'. cbn [b_idx with_fl with_idx]. split; [lia|].
        unfold bhas. cbn [b_fl with_fl]. first [reflexivity|rewrite !getf_setf_other, getf_no_flags by discriminate; reflexivity].
      * intro k. apply sc_g. apply OJ.
      * intro k. destruct (sc_g xi (b_ino b) (len xt) 0 k) as (_ & A & _). rewrite A. apply Osp.
      * intro k. destruct (sc_g xi (b_ino b) (len xt) 0 k) as (_ & _ & A). rewrite A. apply Ost.
      * intro k. rewrite cntL_snoc_not by (apply isL_fb; exact KL). apply Olc.
      * intros fb' E. inversion E; subst fb'. apply new_fb_last.
      * rewrite EP. exact Opre.
    + (* merge *)
      constructor; unfold Apool; prj; try assumption.
      * apply fv_g. exact Ofv.
      * intro k. rewrite bv_g. apply Obv.
      * intros fb' E. inversion E; subst fb'. cbn [b_idx with_fl with_data]. split; [exact Kidx|].
        unfold bhas in *. cbn [b_fl with_fl]. rewrite getf_setf_other by discriminate. exact Ksp.
      * intro k. apply sc_g. apply OJ.
      * intro k. destruct (sc_g xi (b_ino b) (b_idx fb) (len (b_data fb)) k) as (_ & A & _). rewrite A. apply Osp.
      * intro k. destruct (sc_g xi (b_ino b) (b_idx fb) (len (b_data fb)) k) as (_ & _ & A). rewrite A. apply Ost.
      * intros fb' E. inversion E; subst fb'. unfold bhas in *. cbn [b_fl with_fl].
        rewrite getf_setf_other by discriminate. exact KL.
  - (* a new fragment block *)
    prj. constructor; unfold Apool; prj; try assumption.
    + apply fv_g. exact Ofv.
    + intro k. rewrite bv_g. apply Obv.
    + rewrite ftbl_canon_grow by exact WT. rewrite <- Oft. reflexivity.
    + eapply Forall_impl; [|exact Ofb]. intros; apply fb_idx_ok_grow; assumption.
    + intros fb' E. inversion E; subst fb'. cbn [b_idx with_fl with_idx]. split; [lia|].
      unfold bhas. cbn [b_fl with_fl]. first [reflexivity|rewrite !getf_setf_other, getf_no_flags by discriminate; reflexivity].
    + intro k. apply sc_g. apply OJ.
    + intro k. destruct (sc_g xi (b_ino b) (len xt) 0 k) as (_ & A & _). rewrite A. apply Osp.
    + intro k. destruct (sc_g xi (b_ino b) (len xt) 0 k) as (_ & _ & A). rewrite A. apply Ost.
    + intros fb' E. inversion E; subst fb'. apply new_fb_last.
Qed.

(* x: a tail end taken out of the pool (still counted in the backlog: h + 1) *)
Lemma pcf_ok h (s0 : state) q x :
  Inv (h + 1) s0 q -> In x Dall -> bhas ISFRAG x = true ->
  let b := pblock x in
  let s' := pcf' s0 b in
  Inv h s' (spec_frag' q b) /\ s_cur s' = s_cur s0 /\ s_backlog s' <= s_backlog s0 /\
  filter notFB (Apool s') = filter notFB (Apool s0) /\
  (length (filter isFB (Apool s')) <= length (filter isFB (Apool s0)) + 1)%nat.
Proof.
  intros Hinv Hx Hfx. cbv zeta.
  pose proof (pcf_obs h s0 q x Hinv Hx Hfx) as Hobs'.
  destruct Hinv as [Hf Hh Hn Hfo Hq Hbl Hmb' Hobs]. clear Hobs.
  set (b := pblock x) in *. clearbody b.
  unfold pcf, spec_frag in *.
  destruct s0 as [xp xq xs xd xf xc xb xh xt xi xw xl]. unfold Apool in *. prj. subst xf xh.
  destruct (bhas SPARSE b).
  { (* sparse tail end *)
    unfold Apool; prj.
    split; [|split; [reflexivity|split; [nlia|split; [reflexivity|nlia]]]].
    constructor; unfold Apool; prj; try assumption; try reflexivity; nlia. }
  destruct (if bhas DD b then None else ht_search (sp_ht q) b) as [[idx off]|].
  { (* duplicate of an earlier tail end *)
    unfold Apool; prj.
    split; [|split; [reflexivity|split; [nlia|split; [reflexivity|nlia]]]].
    constructor; unfold Apool; prj; try assumption; try reflexivity; nlia. }
  destruct q as [qf qh qn qo ql]. prj. subst qn.
  destruct qf as [fb|].
  - pose proof (Hfo fb eq_refl) as (K1 & K2 & K3).
    destruct (bs <? len (b_data fb) + len (b_data b)) eqn:Eov; unfold Apool; prj.
    + (* overflow: the full fragment block is submitted with its I/O sequence number *)
      rewrite !alpha_submit.
      assert (Hq' := Q_submit_FB hash compress BW bw_write bw0 _ _ _ _ _ _ fb Hq K1 K2 K3).
      destruct Hq as [Hs _ _ _ _ _ _ _]. subst xs.
      split; [|split; [reflexivity|split; [nlia|split; [|]]]].
      * constructor; unfold Apool; prj; rewrite ?alpha_submit; try reflexivity; try assumption.
        -- rewrite len_app, len_cons, len_nil. reflexivity.
        -- intros fb' E. inversion E; subst. apply frag_ok_new.
        -- rewrite len_app, len_cons, len_nil. cbn [isSome b2n] in *. nlia.
      * rewrite filter_app. cbn [filter]. unfold notFB at 2. unfold bhas in *. cbn [b_fl with_seq].
        rewrite K1. cbn [negb]. apply app_nil_r.
      * rewrite filter_app, app_length. cbn [filter]. destruct (isFB _); cbn [length]; nlia.
    + (* room left: merge *)
      split; [|split; [reflexivity|split; [nlia|split; [reflexivity|nlia]]]].
      constructor; unfold Apool; prj; try reflexivity; try assumption.
      * intros fb' E. inversion E; subst. apply frag_ok_merge. split; [|split]; assumption.
      * cbn [isSome b2n] in *. nlia.
      * nlia.
  - (* no fragment block yet: this tail end becomes one *)
    unfold Apool; prj.
    split; [|split; [reflexivity|split; [nlia|split; [reflexivity|nlia]]]].
    constructor; unfold Apool; prj; try reflexivity; try assumption.
    + rewrite len_app, len_cons, len_nil. reflexivity.
    + intros fb' E. inversion E; subst. apply frag_ok_new.
    + cbn [isSome b2n] in *. nlia.
Qed.

(* ---------------- one pool->dequeue ---------------- *)
Definition mu (s : state) : nat :=
  (2 * length (filter notFB (Apool s)) + length (filter isFB (Apool s)))%nat.

Lemma filter_FB_split (l : list blk) : length l = (length (filter isFB l) + length (filter notFB l))%nat.
Proof.
  induction l as [|x l IH]; [reflexivity|]. cbn [filter]. unfold notFB, isFB in *.
  destruct (bhas FRAGBLK x); cbn [negb length]; lia.
Qed.

Definition pull_result (s : state) (b : blk) (p' : P) : state :=
  let s := st_pool s p' in
  if bhas ISFRAG b then pcf' s b
  else if negb (bhas FRAGBLK b) || bhas INTERNAL b
       then st_ioq (st_ioseq s (s_ioseq s + 1)) (store_io (s_ioq s) (with_seq b (s_ioseq s)))
       else st_ioq s (store_io (s_ioq s) b).

(* a data block or tail end leaves the pool: it is now "consumed" by the specification *)
Lemma Inv_pop_D h (s : state) q x rest p' :
  Inv h s q -> Apool s = x :: rest -> alpha p' = rest -> bhas FRAGBLK x = false ->
  Inv (h + 1) (st_pool s p') (mkSp (sp_frag q) (sp_ht q) (sp_nft q) (sp_out q) (log_src (sp_log q) x)) /\
  In x Dall.
Proof.
  intros [Hf Hh Hn Hfo Hq Hbl Hmb' Hobs] HA Hp' EFB.
  assert (N1 : notFB x = true) by (unfold notFB; rewrite EFB; reflexivity).
  assert (HxD : In x Dall).
  { destruct Hobs as [_ _ _ _ Opool _ _ _]. apply Opool. rewrite HA. cbn [filter]. rewrite N1. left; reflexivity. }
  split; [|exact HxD].
  rewrite HA in Hq, Hbl.
  assert (Hq' := Q_drop_D hash compress BW bw_write bw0 _ _ _ _ _ _ _ Hq EFB).
  destruct Hobs as [Ofv Obv Oft Osrc Opool Oout Ofb Ofr OJ Osp Ost Olc Ofl Opre].
  destruct s as [xp xq xs xd xf xc xb xh xt xi xw xl]. destruct q as [qf qh qn qo ql]. unfold Apool in *. prj.
  constructor; unfold Apool; prj; rewrite ?Hp'; try assumption.
  - rewrite len_cons in Hbl. nlia.
  - constructor; unfold Apool; prj; rewrite ?Hp'; try assumption.
    + apply incl_app; [exact Osrc|]. intros y [<-|[]]. exact HxD.
    + rewrite HA in Opool. cbn [filter] in Opool. rewrite N1 in Opool. intros y Hy. apply Opool. right; exact Hy.
    + eapply Forall_impl; [|exact Oout]. intros; apply src_ok_grow; assumption.
    + intro k. rewrite cntL_app. specialize (Olc k). lia.
    + destruct Opre as (R & E). exists R. rewrite HA in E. cbn [filter] in E. rewrite N1 in E.
      rewrite <- app_assoc. exact E.
Qed.

Lemma pull_ok h (s : state) q x rest p' :
  Inv h s q -> Apool s = x :: rest -> alpha p' = rest ->
  let s2 := pull_result s (pblock x) p' in
  exists ds, Inv h s2 (spec_run' q ds) /\
    filter notFB (Apool s) = ds ++ filter notFB (Apool s2) /\
    s_cur s2 = s_cur s /\ s_backlog s2 <= s_backlog s /\ (mu s2 < mu s)%nat.
Proof.
  intros Hinv HA Hp'. cbv zeta. unfold pull_result, mu. rewrite HA.
  destruct (bhas FRAGBLK x) eqn:EFB;
    [assert (N1 : notFB x = false) by (unfold notFB; rewrite EFB; reflexivity);
     assert (N2 : isFB x = true) by exact EFB
    |assert (N1 : notFB x = true) by (unfold notFB; rewrite EFB; reflexivity);
     assert (N2 : isFB x = false) by exact EFB].
  - (* a fragment block comes back *)
    destruct Hinv as [Hf Hh Hn Hfo Hq Hbl Hmb' Hobs]. rewrite HA in Hq, Hbl.
    assert (Hfb : fb_ok hash compress (sp_out q) (s_iodeq s) x).
    { destruct Hq as [_ Hfbs _ _ _ _ _ _]. cbn [filter] in Hfbs. rewrite N2 in Hfbs.
      inversion Hfbs; assumption. }
    destruct Hfb as (_ & F2 & F3 & _).
    rewrite (pb_flag hash compress ISFRAG) by discriminate. rewrite F3.
    rewrite (pb_flag hash compress FRAGBLK), (pb_flag hash compress INTERNAL) by discriminate.
    rewrite EFB, F2. cbn [negb orb].
    exists []. cbn [spec_run fold_left app].
    assert (Hq' := Q_pull_FB hash compress BW bw_write bw0 _ _ _ _ _ _ _ Hq EFB).
    assert (Hobs' : ObsInv (st_ioq (st_pool s p') (store_io (s_ioq (st_pool s p')) (pblock x))) q).
    { eapply ObsInv_ext; [| | | |exact Hobs]; try (destruct s; reflexivity).
      replace (Apool (st_ioq (st_pool s p') (store_io (s_ioq (st_pool s p')) (pblock x)))) with rest
        by (destruct s; symmetry; exact Hp').
      rewrite HA. cbn [filter]. rewrite N1. reflexivity. }
    destruct s as [xp xq xs xd xf xc xb xh xt xi xw xl]. unfold Apool in *. prj.
    cbn [filter]. rewrite N1, N2, Hp'.
    split; [|split; [reflexivity|split; [reflexivity|split; [lia|cbn [length]; lia]]]].
    constructor; unfold Apool; prj; rewrite ?Hp'; try assumption.
    rewrite store_io_len. rewrite len_cons in Hbl. nlia.
  - assert (EFB' : bhas FRAGBLK (pblock x) = false) by (rewrite pb_flag by discriminate; exact EFB).
    destruct (Inv_pop_D h s q x rest p' Hinv HA Hp' EFB) as (Hpop & HxD).
    destruct (bhas ISFRAG (pblock x)) eqn:EIF.
    + (* a tail end *)
      exists [x]. cbn [spec_run fold_left]. unfold spec_step. rewrite EIF.
      assert (Hfx : bhas ISFRAG x = true) by (rewrite <- EIF; symmetry; apply pb_flag; discriminate).
      destruct (pcf_ok h _ _ x Hpop HxD Hfx) as (A1 & A2 & A3 & A4 & A5). cbv zeta in *.
      assert (G1 : Apool (st_pool s p') = rest) by (destruct s; exact Hp').
      assert (G2 : s_cur (st_pool s p') = s_cur s) by (destruct s; reflexivity).
      assert (G3 : s_backlog (st_pool s p') = s_backlog s) by (destruct s; reflexivity).
      rewrite G1 in *.
      split; [exact A1|]. split.
      { cbn [filter]. rewrite N1. cbn [app]. rewrite A4. reflexivity. }
      split; [congruence|]. split; [lia|].
      rewrite A4. cbn [filter]. rewrite N1, N2. cbn [length]. lia.
    + (* a data block: next I/O sequence number, into the I/O queue *)
      rewrite EFB'. cbn [negb orb].
      exists [x]. cbn [spec_run fold_left]. unfold spec_step. rewrite EIF.
      assert (Hfx : bhas ISFRAG x = false) by (rewrite <- EIF; symmetry; apply pb_flag; discriminate).
      destruct Hpop as [Pf Ph Pn Pfo Pq Pbl Pmb Pobs].
      destruct Hinv as [Hf Hh Hn Hfo Hq Hbl Hmb' Hobs]. rewrite HA in Hq, Hbl.
      assert (Hq' := Q_pull_D hash compress BW bw_write bw0 _ _ _ _ _ _ _ Hq EFB).
      assert (Hs : s_ioseq s = len (sp_out q)) by (destruct Hq; assumption).
      assert (Olc0 : forall k, (cntL k (sp_out q) <= cntL k (ol_src (sp_log q)))%nat) by (destruct Hobs; assumption).
      destruct Pobs as [Ofv Obv Oft Osrc Opool Oout Ofb Ofr OJ Osp Ost Olc Ofl Opre].
      destruct s as [xp xq xs xd xf xc xb xh xt xi xw xl]. destruct q as [qf qh qn qo ql]. unfold Apool in *. prj. subst xs.
      cbn [filter]. rewrite N1, N2, Hp'. cbn [app].
      split; [|split; [reflexivity|split; [reflexivity|split; [lia|cbn [length]; lia]]]].
      constructor; unfold Apool; prj; rewrite ?Hp'; try assumption.
      * rewrite store_io_len. rewrite len_cons in Hbl. nlia.
      * constructor; unfold Apool; prj; rewrite ?Hp'; try assumption.
        -- rewrite Hp' in Opool. exact Opool.
        -- apply Forall_app. split; [exact Oout|]. constructor; [|constructor]. right.
           exists x. split; [apply in_or_app; right; left; reflexivity|]. split; [exact Hfx|reflexivity].
        -- apply Forall_app. split; [exact Ofb|]. constructor; [|constructor].
           intro HF. exfalso. unfold bhas in HF, EFB'. cbn [b_fl with_seq] in HF. congruence.
        -- intro k. rewrite !cntL_app. specialize (Olc0 k).
           assert (E : cntL k [with_seq (pblock x) (len qo)] = cntL k [x]).
           { unfold cntL, isL. cbn [filter]. unfold bhas. cbn [b_ino b_fl with_seq].
             fold (bhas LAST (pblock x)). fold (bhas LAST x). rewrite pb_ino, pb_flag by discriminate.
             destruct ((k =? b_ino x) && bhas LAST x); reflexivity. }
           rewrite E. lia.
        -- rewrite Hp' in Opre. exact Opre.
Qed.

(* ---------------- dequeue_block ---------------- *)
Lemma no_progress_contra (s1 : state) q old :
  Inv (b2n (s_cur s1)) s1 q -> Apool s1 = [] ->
  (s_ioq s1 = [] \/ exists e r, s_ioq s1 = e :: r /\ b_seq e <> s_iodeq s1) ->
  1 <= old -> (s_backlog s1 <? old) = false -> nothing_in_flight s1 = false -> False.
Proof.
  intros [Hf Hh Hn Hfo Hq Hbl Hmb' Hobs] EA Hio Hold E1 E2.
  rewrite EA in *.
  assert (Hioq : s_ioq s1 = []).
  { destruct Hio as [|(e & r & He & Hne)]; [assumption|]. exfalso. apply Hne.
    rewrite He in Hq. eapply Q_progress; [exact Hq|reflexivity]. }
  rewrite Hioq in Hbl. change (len (@nil blk)) with 0 in Hbl. apply N.ltb_ge in E1.
  unfold nothing_in_flight in E2.
  destruct (s_frag s1), (s_cur s1); cbn [isSome b2n] in Hbl; rewrite Hbl in *; cbn in E2; try discriminate; lia.
Qed.

Lemma dq_loop_ok : forall fuel (s : state) q old,
  Inv (b2n (s_cur s)) s q -> 1 <= old -> (mu s < fuel)%nat ->
  exists s' ds,
    dq_loop' fuel old s = Ok s' /\
    Inv (b2n (s_cur s')) s' (spec_run' q ds) /\
    filter notFB (Apool s) = ds ++ filter notFB (Apool s') /\
    s_cur s' = s_cur s /\ s_backlog s' <= s_backlog s /\
    (s_backlog s' < old \/ nothing_in_flight s' = true).
Proof.
  induction fuel as [|n IH]; intros s q old Hinv Hold Hmu; [lia|].
  cbn [dq_loop].
  destruct (flush_ok _ q (s_ioq s) s eq_refl Hinv) as (A1 & A2 & A3 & A4 & A5 & A6). cbv zeta in *.
  set (s1 := flush' (s_ioq s) s) in *.
  assert (HA : Apool s1 = Apool s) by (unfold Apool; congruence).
  destruct (s_backlog s1 <? old) eqn:E1.
  { exists s1, []. split; [reflexivity|]. rewrite A3. split; [exact A1|]. split; [rewrite HA; reflexivity|].
    split; [reflexivity|]. split; [exact A5|]. left. apply N.ltb_lt; exact E1. }
  destruct (nothing_in_flight s1) eqn:E2.
  { exists s1, []. split; [reflexivity|]. rewrite A3. split; [exact A1|]. split; [rewrite HA; reflexivity|].
    split; [reflexivity|]. split; [exact A5|]. right; exact E2. }
  destruct (Apool s1) as [|x rest] eqn:EA.
  { exfalso. rewrite <- A3 in A1. eapply no_progress_contra; eassumption. }
  destruct (alpha_deq_cons _ _ _ EA) as (p' & Hd & Hp'). rewrite Hd.
  rewrite <- A3 in A1.
  destruct (pull_ok _ s1 q x rest p' A1 EA Hp') as (ds1 & B1 & B2 & B3 & B4 & B5).
  unfold pull_result in *. cbv zeta in *.
  match goal with |- context [if old <=? s_backlog ?t then _ else _] => set (s2 := t) in * end.
  assert (Hmu2 : (mu s2 < n)%nat).
  { assert (mu s1 = mu s) by (unfold mu; rewrite EA, HA; reflexivity). lia. }
  destruct (old <=? s_backlog s2) eqn:E3.
  - rewrite <- B3 in B1.
    destruct (IH s2 _ old B1 Hold Hmu2) as (s' & ds2 & C1 & C2 & C3 & C4 & C5 & C6).
    exists s', (ds1 ++ ds2). split; [exact C1|].
    unfold spec_run in *. rewrite fold_left_app.
    split; [exact C2|]. split; [rewrite <- HA, <- EA, B2, C3, app_assoc; reflexivity|].
    split; [congruence|]. split; [lia|exact C6].
  - exists s2, ds1. split; [reflexivity|]. rewrite B3.
    split; [exact B1|]. split; [rewrite <- HA, <- EA; exact B2|].
    split; [congruence|]. split; [lia|]. left. apply N.leb_gt; exact E3.
Qed.

Lemma mu_le_backlog h (s : state) q : Inv h s q -> (mu s < dq_fuel s)%nat.
Proof.
  intros [_ _ _ _ _ Hbl _ _]. unfold mu, dq_fuel.
  pose proof (filter_FB_split (Apool s)). unfold len in Hbl. lia.
Qed.

Lemma dequeue_block_ok (s : state) q :
  Inv (b2n (s_cur s)) s q -> 1 <= s_backlog s ->
  exists s' ds,
    dequeue_block' s = Ok s' /\
    Inv (b2n (s_cur s')) s' (spec_run' q ds) /\
    filter notFB (Apool s) = ds ++ filter notFB (Apool s') /\
    s_cur s' = s_cur s /\ s_backlog s' <= s_backlog s /\
    (s_backlog s' < s_backlog s \/ nothing_in_flight s' = true).
Proof.
  intros Hinv Hb. unfold dequeue_block. apply dq_loop_ok; [assumption|assumption|].
  eapply mu_le_backlog; eassumption.
Qed.

(* ---------------- get_new_block ---------------- *)
Lemma nif_le2 (s : state) : nothing_in_flight s = true -> s_backlog s <= 2.
Proof.
  unfold nothing_in_flight. intro H. apply orb_prop in H. destruct H as [H|H].
  - apply andb_prop in H. destruct H as [H _]. apply N.eqb_eq in H. lia.
  - apply andb_prop in H. destruct H as [H _]. apply andb_prop in H. destruct H as [H _]. apply N.eqb_eq in H. lia.
Qed.

Lemma Inv_bump h (s : state) q :
  Inv h s q -> s_backlog s < mb -> Inv (h + 1) (st_backlog s (s_backlog s + 1)) q.
Proof.
  intros [Hf Hh Hn Hfo Hq Hbl Hmb' Hobs] Hlt.
  destruct s as [xp xq xs xd xf xc xb xh xt xi xw xl]. unfold Apool in *. prj.
  constructor; unfold Apool; prj; try assumption; try nlia.
  obs_same Hobs.
Qed.

Lemma gnb_ok (s : state) q :
  Inv (b2n (s_cur s)) s q ->
  exists s' ds, get_new_block' s = Ok s' /\ Inv (b2n (s_cur s') + 1) s' (spec_run' q ds) /\
    filter notFB (Apool s) = ds ++ filter notFB (Apool s') /\ s_cur s' = s_cur s.
Proof.
  intro Hinv. unfold get_new_block.
  replace (N.to_nat (s_backlog s) + 2)%nat with (S (S (N.to_nat (s_backlog s)))) by lia.
  cbn [gnb_loop]. destruct (mb <=? s_backlog s) eqn:E.
  - apply N.leb_le in E.
    destruct (dequeue_block_ok s q Hinv) as (s1 & ds & C1 & C2 & C3 & C4 & C5 & C6); [lia|].
    rewrite C1. cbn [bind].
    assert (Hlt : s_backlog s1 < mb).
    { destruct C6 as [C6|C6]; [destruct Hinv; lia|apply nif_le2 in C6; lia]. }
    assert (E' : (mb <=? s_backlog s1) = false) by (apply N.leb_gt; exact Hlt).
    rewrite E'.
    exists (st_backlog s1 (s_backlog s1 + 1)), ds. split; [reflexivity|].
    assert (G1 : s_cur (st_backlog s1 (s_backlog s1 + 1)) = s_cur s1) by (destruct s1; reflexivity).
    assert (G2 : Apool (st_backlog s1 (s_backlog s1 + 1)) = Apool s1) by (destruct s1; reflexivity).
    rewrite G1, G2. split; [apply Inv_bump; assumption|]. split; [exact C3|exact C4].
  - apply N.leb_gt in E.
    exists (st_backlog s (s_backlog s + 1)), []. split; [reflexivity|].
    assert (G1 : s_cur (st_backlog s (s_backlog s + 1)) = s_cur s) by (destruct s; reflexivity).
    assert (G2 : Apool (st_backlog s (s_backlog s + 1)) = Apool s) by (destruct s; reflexivity).
    rewrite G1, G2. split; [apply Inv_bump; assumption|]. split; reflexivity.
Qed.

(* ---------------- sync ---------------- *)
Lemma sync_loop_ok : forall fuel (s : state) q,
  Inv (b2n (s_cur s)) s q -> (N.to_nat (s_backlog s) < fuel)%nat ->
  exists s' ds,
    sync_loop' fuel s = Ok s' /\
    Inv (b2n (s_cur s')) s' (spec_run' q ds) /\
    filter notFB (Apool s) = ds ++ filter notFB (Apool s') /\
    s_cur s' = s_cur s /\
    (s_backlog s' = 0 \/ nothing_in_flight s' = true).
Proof.
  induction fuel as [|n IH]; intros s q Hinv Hf; [lia|].
  cbn [sync_loop]. destruct (s_backlog s =? 0) eqn:E0.
  { exists s, []. split; [reflexivity|]. split; [exact Hinv|]. split; [reflexivity|]. split; [reflexivity|].
    left. apply N.eqb_eq; exact E0. }
  destruct (nothing_in_flight s) eqn:E1.
  { exists s, []. split; [reflexivity|]. split; [exact Hinv|]. split; [reflexivity|]. split; [reflexivity|].
    right; exact E1. }
  apply N.eqb_neq in E0.
  destruct (dequeue_block_ok s q Hinv) as (s1 & ds1 & C1 & C2 & C3 & C4 & C5 & C6); [lia|].
  rewrite C1. cbn [bind].
  destruct C6 as [C6|C6].
  - destruct (IH s1 _ C2) as (s' & ds2 & D1 & D2 & D3 & D4 & D5); [lia|].
    exists s', (ds1 ++ ds2). split; [exact D1|]. unfold spec_run in *. rewrite fold_left_app.
    split; [exact D2|]. split; [rewrite C3, D3, app_assoc; reflexivity|]. split; [congruence|exact D5].
  - destruct n as [|n']; [lia|]. cbn [sync_loop]. rewrite C6.
    destruct (s_backlog s1 =? 0) eqn:E2.
    + exists s1, ds1. split; [reflexivity|]. split; [exact C2|]. split; [exact C3|]. split; [exact C4|].
      left. apply N.eqb_eq; exact E2.
    + exists s1, ds1. split; [reflexivity|]. split; [exact C2|]. split; [exact C3|]. split; [exact C4|].
      right; exact C6.
Qed.

Lemma sync_ok (s : state) q :
  Inv (b2n (s_cur s)) s q ->
  exists s' ds,
    sync' s = Ok s' /\
    Inv (b2n (s_cur s')) s' (spec_run' q ds) /\
    filter notFB (Apool s) = ds ++ filter notFB (Apool s') /\
    s_cur s' = s_cur s /\
    (s_backlog s' = 0 \/ nothing_in_flight s' = true).
Proof. intro H. unfold sync. apply sync_loop_ok; [exact H|lia]. Qed.

(* after sync, with no current block: the pool and the I/O queue are empty *)
Lemma drained (s : state) q :
  Inv 0 s q -> s_cur s = false -> (s_backlog s = 0 \/ nothing_in_flight s = true) ->
  Apool s = [] /\ s_ioq s = [] /\ s_backlog s = b2n (isSome (s_frag s)).
Proof.
  intros [Hf Hh Hn Hfo Hq Hbl Hmb' Hobs] Hc Hend.
  assert (Hb : s_backlog s = b2n (isSome (s_frag s)) \/ (s_backlog s = 0)).
  { destruct Hend as [H|H]; [right; exact H|left].
    unfold nothing_in_flight in H. rewrite Hc in H. rewrite andb_false_r, orb_false_r in H.
    apply andb_prop in H. destruct H as [H1 H2]. apply N.eqb_eq in H1. rewrite orb_false_r in H2.
    rewrite H2. exact H1. }
  assert (len (Apool s) = 0 /\ len (s_ioq s) = 0).
  { destruct Hb as [Hb|Hb]; rewrite Hb in Hbl; nlia. }
  destruct H as [H1 H2]. apply len_0 in H1. apply len_0 in H2.
  split; [exact H1|]. split; [exact H2|]. rewrite H1, H2 in Hbl. change (len (@nil blk)) with 0 in Hbl. lia.
Qed.

(* ---------------- the back end never touches a file size ---------------- *)
Lemma pcb_size (s : state) b k : i_size (s_ino (pcb' s b) k) = i_size (s_ino s k).
Proof.
  destruct (bw_write (s_bw s) b) as [bw' loc] eqn:Hw. rewrite (pcb_ino_eq s b bw' loc Hw k).
  destruct (k =? b_ino b); [apply pcb_ino_size|reflexivity].
Qed.

Lemma pcf_size (s : state) b k : i_size (s_ino (pcf' s b) k) = i_size (s_ino s k).
Proof.
  unfold pcf. destruct s as [xp xq xs xd xf xc xb xh xt xi xw xl]. prj.
  destruct (bhas SPARSE b).
  { prj. unfold it_upd. destruct (k =? b_ino b); [|reflexivity].
    cbn [i_size i_add_sparse i_set_block_size]. apply sz_make_extended. }
  destruct (if bhas DD b then None else ht_search xh b) as [[idx off]|].
  { prj. unfold it_upd. destruct (k =? b_ino b); reflexivity. }
  destruct xf as [fb|]; [destruct (bs <? len (b_data fb) + len (b_data b))|]; prj;
    unfold it_upd; destruct (k =? b_ino b); reflexivity.
Qed.

Lemma flush_size k : forall l (s : state), i_size (s_ino (flush' l s) k) = i_size (s_ino s k).
Proof.
  induction l as [|e r IH]; intro s; cbn [flush_ioq]; [destruct s; reflexivity|].
  destruct (b_seq e =? s_iodeq s); [|destruct s; reflexivity].
  rewrite IH, pcb_size. destruct s; reflexivity.
Qed.

Lemma dq_loop_size k : forall fuel old (s s' : state),
  dq_loop' fuel old s = Ok s' -> i_size (s_ino s' k) = i_size (s_ino s k).
Proof.
  induction fuel as [|n IH]; intros old s s' H; [discriminate H|]. cbn [dq_loop] in H.
  pose proof (flush_size k (s_ioq s) s) as E1. set (s1 := flush' (s_ioq s) s) in *.
  destruct (s_backlog s1 <? old); [inversion H; subst; exact E1|].
  destruct (nothing_in_flight s1); [inversion H; subst; exact E1|].
  destruct (p_dequeue (s_pool s1)) as [[b p']|]; [|discriminate H].
  match type of H with context [if old <=? s_backlog ?t then _ else _] => set (s2 := t) in * end.
  assert (E2 : i_size (s_ino s2 k) = i_size (s_ino s1 k)).
  { unfold s2. destruct (bhas ISFRAG b); [rewrite pcf_size; destruct s1; reflexivity|].
    destruct (negb (bhas FRAGBLK b) || bhas INTERNAL b); destruct s1; reflexivity. }
  destruct (old <=? s_backlog s2).
  - rewrite (IH _ _ _ H). congruence.
  - inversion H; subst. congruence.
Qed.

Lemma gnb_loop_size k : forall fuel (s s' : state),
  gnb_loop' fuel s = Ok s' -> i_size (s_ino s' k) = i_size (s_ino s k).
Proof.
  induction fuel as [|n IH]; intros s s' H; [discriminate H|]. cbn [gnb_loop] in H.
  destruct (mb <=? s_backlog s).
  - destruct (dequeue_block' s) as [s1| | |] eqn:E; cbn [bind] in H; try discriminate H.
    rewrite (IH _ _ H). eapply dq_loop_size. exact E.
  - inversion H; subst. destruct s; reflexivity.
Qed.

Lemma sync_loop_size k : forall fuel (s s' : state),
  sync_loop' fuel s = Ok s' -> i_size (s_ino s' k) = i_size (s_ino s k).
Proof.
  induction fuel as [|n IH]; intros s s' H; [discriminate H|]. cbn [sync_loop] in H.
  destruct (s_backlog s =? 0); [inversion H; subst; reflexivity|].
  destruct (nothing_in_flight s); [inversion H; subst; reflexivity|].
  destruct (dequeue_block' s) as [s1| | |] eqn:E; cbn [bind] in H; try discriminate H.
  rewrite (IH _ _ H). eapply dq_loop_size. exact E.
Qed.

Lemma finish_size k (s s' : state) : finish' s = Ok s' -> i_size (s_ino s' k) = i_size (s_ino s k).
Proof.
  unfold finish, sync. intro H.
  destruct (sync_loop' (N.to_nat (s_backlog s) + 2) s) as [s1| | |] eqn:E; cbn [bind] in H; try discriminate H.
  pose proof (sync_loop_size k _ _ _ E) as E1.
  destruct (s_frag s1) as [fb|]; [|inversion H; subst; exact E1].
  rewrite (sync_loop_size k _ _ _ H). rewrite <- E1. destruct s1; reflexivity.
Qed.

(* ---------------- the front-end calls ---------------- *)
(* append: file_size += n *)
Lemma Inv_set_size h (s : state) q k n :
  Inv h s q -> Inv h (st_ino s (it_upd (s_ino s) k (fun i => i_set_file_size i (i_size i + n)))) q.
Proof.
  intros [Hf Hh Hn Hfo Hq Hbl Hmb' Hobs].
  pose proof (kv_set_file_size n) as Hkv.
  set (f := fun i => i_set_file_size i (i_size i + n)) in *.
  destruct s as [xp xq xs xd xf xc xb xh xt xi xw xl]. unfold Apool in *. prj.
  constructor; unfold Apool; prj; try assumption.
  destruct Hobs as [Ofv Obv Oft Osrc Opool Oout Ofb Ofr OJ Osp Ost Olc Ofl Opre]. unfold Apool in *. prj.
  constructor; unfold Apool; prj; try assumption.
  - intro k'. destruct (it_upd_kv xi k f k' Hkv) as (A & B & _). rewrite A, B. apply Ofv.
  - intro k'. destruct (it_upd_kv xi k f k' Hkv) as (_ & _ & C). rewrite C. apply Obv.
  - intro k'. unfold it_upd. destruct (k' =? k); [|apply OJ]. apply J_set_file_size. apply OJ.
  - intro k'. unfold it_upd. destruct (k' =? k); [|apply Osp].
    destruct (J_set_file_size (xi k') n (OJ k')) as (_ & A & _). unfold f. rewrite A. apply Osp.
  - intro k'. unfold it_upd. destruct (k' =? k); [|apply Ost].
    destruct (J_set_file_size (xi k') n (OJ k')) as (_ & _ & A). unfold f. rewrite A. apply Ost.
Qed.

Lemma Inv_st_cur h (s : state) q v : Inv h s q -> Inv h (st_cur s v) q.
Proof.
  intros [Hf Hh Hn Hfo Hq Hbl Hmb' Hobs].
  destruct s as [xp xq xs xd xf xc xb xh xt xi xw xl]. unfold Apool in *. prj.
  constructor; unfold Apool; prj; try assumption.
  obs_same Hobs.
Qed.

Lemma Inv_enqueue h (s : state) q b :
  Inv (h + 1) s q -> bhas FRAGBLK b = false ->
  (exists rest, ol_src (sp_log q) ++ (filter notFB (Apool s) ++ [b]) ++ rest = Dall) -> Inv h (enqueue' s b) q.
Proof.
  intros [Hf Hh Hn Hfo Hq Hbl Hmb' Hobs] Hb Hnext.
  assert (HbD : In b Dall).
  { destruct Hnext as (R & E). rewrite <- E. apply in_or_app. right. apply in_or_app. left.
    apply in_or_app. right. left. reflexivity. }
  assert (Hq' := Q_submit_D hash compress BW bw_write bw0 _ _ _ _ _ _ b Hq Hb).
  destruct s as [xp xq xs xd xf xc xb xh xt xi xw xl]. unfold Apool in *. prj.
  constructor; unfold Apool; prj; rewrite ?alpha_submit; try assumption.
  - rewrite len_app, len_cons, len_nil. nlia.
  - destruct Hobs as [Ofv Obv Oft Osrc Opool Oout Ofb Ofr OJ Osp Ost Olc Ofl Opre]. unfold Apool in *. prj.
    constructor; unfold Apool; prj; rewrite ?alpha_submit; try assumption.
    + rewrite filter_app. cbn [filter]. unfold notFB at 2. rewrite Hb. cbn [negb].
      apply incl_app; [exact Opool|]. intros y [<-|[]]. exact HbD.
    + rewrite filter_app. cbn [filter]. unfold notFB at 2. rewrite Hb. cbn [negb]. exact Hnext.
Qed.

Lemma Apool_enqueue (s : state) b : Apool (enqueue' s b) = Apool s ++ [b].
Proof. destruct s as [xp xq xs xd xf xc xb xh xt xi xw xl]. unfold Apool. prj. apply alpha_submit. Qed.

Lemma filter_notFB_snoc l b : bhas FRAGBLK b = false -> filter notFB (l ++ [b]) = filter notFB l ++ [b].
Proof. intro H. rewrite filter_app. cbn [filter]. unfold notFB at 2. rewrite H. reflexivity. Qed.

(* the specification logs every block it consumes *)
Lemma spec_frag_src q b : ol_src (sp_log (spec_frag' q b)) = ol_src (sp_log q).
Proof.
  unfold spec_frag. destruct (bhas SPARSE b); [reflexivity|].
  destruct (if bhas DD b then None else ht_search (sp_ht q) b) as [[? ?]|]; [reflexivity|].
  destruct q as [qf qh qn qo ql]. prj.
  destruct qf as [fb|]; [|reflexivity].
  destruct (bs <? len (b_data fb) + len (b_data b)); reflexivity.
Qed.

Lemma spec_run_src : forall ds q, ol_src (sp_log (spec_run' q ds)) = ol_src (sp_log q) ++ ds.
Proof.
  induction ds as [|d ds IH]; intro q; cbn [spec_run fold_left]; [symmetry; apply app_nil_r|].
  unfold spec_run in IH. rewrite IH. unfold spec_step.
  destruct (bhas ISFRAG (pblock d)); [rewrite spec_frag_src|]; prj; rewrite <- app_assoc; reflexivity.
Qed.

Lemma be_events_ok : forall evs (s : state) q c',
  Inv (b2n (s_cur s)) s q -> evs_ok (s_cur s) evs c' ->
  ol_src (sp_log q) ++ filter notFB (Apool s) ++ dblocks evs = Dall ->
  exists s' ds, be_events' s evs = Ok s' /\ Inv (b2n c') s' (spec_run' q ds) /\ s_cur s' = c' /\
    filter notFB (Apool s) ++ dblocks evs = ds ++ filter notFB (Apool s') /\
    forall k, i_size (s_ino s' k) = fold_left (sz_ev k) evs (i_size (s_ino s k)).
Proof.
  induction evs as [|e evs IH]; intros s q c' Hinv Hev Hpre.
  - cbn in Hev. subst c'. exists s, []. split; [reflexivity|]. split; [exact Hinv|]. split; [reflexivity|].
    split; [cbn [dblocks app]; apply app_nil_r|]. reflexivity.
  - cbn [be_events]. destruct e as [ino|ino n| |b|b]; cbn [evs_ok] in Hev; cbn [be_event bind dblocks] in *.
    + (* EvBegin *)
      destruct (IH s q c' Hinv Hev Hpre) as (s' & ds & D1 & D2 & D3 & D4 & D5).
      exists s', ds. auto.
    + (* EvSize *)
      set (s1 := st_ino s _).
      assert (G1 : s_cur s1 = s_cur s) by (destruct s; reflexivity).
      assert (G2 : Apool s1 = Apool s) by (destruct s; reflexivity).
      assert (G3 : forall k, i_size (s_ino s1 k) = sz_ev k (i_size (s_ino s k)) (EvSize ino n)).
      { intro k. unfold s1. destruct s as [xp xq xs xd xf xc xb xh xt xi xw xl]. prj. unfold it_upd, sz_ev.
        destruct (k =? ino); [apply sz_set_file_size|reflexivity]. }
      destruct (IH s1 q c') as (s' & ds & D1 & D2 & D3 & D4 & D5).
      { rewrite G1. apply Inv_set_size; exact Hinv. }
      { rewrite G1; exact Hev. }
      { rewrite G2; exact Hpre. }
      exists s', ds. rewrite <- G2. split; [exact D1|]. split; [exact D2|]. split; [exact D3|]. split; [exact D4|].
      intro k. cbn [fold_left]. rewrite <- G3. apply D5.
    + (* EvNew *)
      destruct Hev as (Hc & Hev).
      destruct (gnb_ok s q Hinv) as (s1 & ds1 & C1 & C2 & C3 & C4).
      assert (C5 : forall k, i_size (s_ino s1 k) = i_size (s_ino s k)) by (intro k; eapply gnb_loop_size; exact C1).
      rewrite C1. cbn [bind].
      set (s2 := st_cur s1 true).
      assert (G1 : s_cur s2 = true) by (destruct s1; reflexivity).
      assert (G2 : Apool s2 = Apool s1) by (destruct s1; reflexivity).
      assert (G3 : s_ino s2 = s_ino s1) by (destruct s1; reflexivity).
      destruct (IH s2 (spec_run' q ds1) c') as (s' & ds2 & D1 & D2 & D3 & D4 & D5).
      { rewrite G1. rewrite C4, Hc in C2. apply Inv_st_cur. exact C2. }
      { rewrite G1; exact Hev. }
      { rewrite spec_run_src, G2, <- app_assoc. rewrite C3, <- app_assoc in Hpre. exact Hpre. }
      exists s', (ds1 ++ ds2). split; [exact D1|]. unfold spec_run in *. rewrite fold_left_app.
      split; [exact D2|]. split; [exact D3|]. split.
      { rewrite C3, <- app_assoc, <- G2, D4, app_assoc. reflexivity. }
      intro k. cbn [fold_left sz_ev]. rewrite D5, G3, C5. reflexivity.
    + (* EvSubmitCur *)
      destruct Hev as (Hc & Hfl & Hev). apply fe_flags_ok_elim in Hfl. destruct Hfl as (Hfb & _).
      set (s1 := st_cur (enqueue' s b) false).
      assert (G1 : s_cur s1 = false) by (destruct s; reflexivity).
      assert (G2 : Apool s1 = Apool s ++ [b]).
      { rewrite <- Apool_enqueue. destruct s; reflexivity. }
      assert (G3 : s_ino s1 = s_ino s) by (destruct s; reflexivity).
      assert (Hpre' : ol_src (sp_log q) ++ (filter notFB (Apool s) ++ [b]) ++ dblocks evs = Dall).
      { rewrite <- app_assoc. exact Hpre. }
      destruct (IH s1 q c') as (s' & ds & D1 & D2 & D3 & D4 & D5).
      { rewrite G1. apply Inv_st_cur. apply Inv_enqueue; [|exact Hfb|eexists; exact Hpre']. rewrite Hc in Hinv. exact Hinv. }
      { rewrite G1; exact Hev. }
      { rewrite G2, filter_notFB_snoc by exact Hfb. exact Hpre'. }
      exists s', ds. split; [exact D1|]. split; [exact D2|]. split; [exact D3|]. split.
      { rewrite G2, filter_notFB_snoc in D4 by exact Hfb. rewrite <- D4, <- app_assoc. reflexivity. }
      intro k. cbn [fold_left sz_ev]. rewrite D5, G3. reflexivity.
    + (* EvSentinel *)
      destruct Hev as (Hfl & Hev). apply fe_flags_ok_elim in Hfl. destruct Hfl as (Hfb & _).
      destruct (gnb_ok s q Hinv) as (s1 & ds1 & C1 & C2 & C3 & C4).
      assert (C5 : forall k, i_size (s_ino s1 k) = i_size (s_ino s k)) by (intro k; eapply gnb_loop_size; exact C1).
      rewrite C1. cbn [bind].
      set (s2 := enqueue' s1 b).
      assert (G1 : s_cur s2 = s_cur s1) by (destruct s1; reflexivity).
      assert (G2 : Apool s2 = Apool s1 ++ [b]) by apply Apool_enqueue.
      assert (G3 : s_ino s2 = s_ino s1) by (destruct s1; reflexivity).
      assert (Hpre' : ol_src (sp_log (spec_run' q ds1)) ++ (filter notFB (Apool s1) ++ [b]) ++ dblocks evs = Dall).
      { rewrite spec_run_src, <- !app_assoc. rewrite C3, <- app_assoc in Hpre. exact Hpre. }
      destruct (IH s2 (spec_run' q ds1) c') as (s' & ds2 & D1 & D2 & D3 & D4 & D5).
      { rewrite G1. apply Inv_enqueue; [exact C2|exact Hfb|eexists; exact Hpre']. }
      { rewrite G1, C4; exact Hev. }
      { rewrite G2, filter_notFB_snoc by exact Hfb. exact Hpre'. }
      exists s', (ds1 ++ ds2). split; [exact D1|]. unfold spec_run in *. rewrite fold_left_app.
      split; [exact D2|]. split; [exact D3|]. split.
      { rewrite G2, filter_notFB_snoc in D4 by exact Hfb.
        rewrite C3, <- !app_assoc. rewrite <- app_assoc in D4. cbn [app] in *. rewrite D4. reflexivity. }
      intro k. cbn [fold_left sz_ev]. rewrite D5, G3, C5. reflexivity.
Qed.

(* ---------------- finish ---------------- *)
Lemma finish_ok (s : state) q :
  Inv 0 s q -> s_cur s = false ->
  exists s', finish' s = Ok s' /\
    (s_bw s', s_writes s') =
      bw_run BW bw_write bw0 [] (sp_out (spec_fin' (spec_run' q (filter notFB (Apool s))))) /\
    s_backlog s' = 0 /\ s_cur s' = false /\
    ObsInv s' (spec_fin' (spec_run' q (filter notFB (Apool s)))).
Proof.
  intros Hinv Hc. unfold finish.
  destruct (sync_ok s q) as (s1 & ds1 & C1 & C2 & C3 & C4 & C5).
  { rewrite Hc. exact Hinv. }
  rewrite C1. cbn [bind].
  assert (Hc1 : s_cur s1 = false) by congruence. rewrite Hc1 in C2. cbn [b2n] in C2.
  destruct (drained s1 _ C2 Hc1 C5) as (E1 & E2 & E3).
  rewrite E1 in C3. cbn [filter] in C3. rewrite app_nil_r in C3. rewrite C3.
  set (q1 := spec_run' q ds1) in *.
  pose proof C2 as [Hf Hh Hn Hfo Hq Hbl Hmb' Hobs].
  destruct (s_frag s1) as [fb|] eqn:Efrag.
  - (* the last fragment block *)
    symmetry in Hf. destruct (Hfo fb Hf) as (K1 & K2 & K3).
    rewrite E1, E2 in Hq.
    assert (Hq' := Q_submit_FB hash compress BW bw_write bw0 _ _ _ _ _ _ fb Hq K1 K2 K3).
    assert (Hs : s_ioseq s1 = len (sp_out q1)) by (destruct Hq; assumption).
    set (s2 := enqueue' (st_ioseq (st_frag s1 None) (s_ioseq s1 + 1)) (with_seq fb (s_ioseq s1))).
    set (q2 := spec_fin' q1).
    assert (Hq2 : q2 = mkSp None (sp_ht q1) (sp_nft q1) (sp_out q1 ++ [pblock (with_seq fb (len (sp_out q1)))]) (sp_log q1)).
    { unfold q2, spec_fin. rewrite Hf. reflexivity. }
    assert (G1 : Apool s2 = [with_seq fb (s_ioseq s1)]).
    { unfold s2. rewrite Apool_enqueue. replace (Apool (st_ioseq (st_frag s1 None) (s_ioseq s1 + 1))) with (Apool s1) by (destruct s1; reflexivity).
      rewrite E1. reflexivity. }
    assert (G2 : s_cur s2 = false) by (unfold s2; destruct s1; exact Hc1).
    assert (GF : filter notFB (Apool s2) = []).
    { rewrite G1. cbn [filter]. unfold notFB, bhas in *. cbn [b_fl with_seq]. rewrite K1. reflexivity. }
    assert (Hinv2 : Inv 0 s2 q2).
    { rewrite Hq2. rewrite <- Hs. clear Hq2 q2.
      constructor; rewrite ?G1.
      - unfold s2. destruct s1; reflexivity.
      - unfold s2. destruct s1; exact Hh.
      - unfold s2. destruct s1; exact Hn.
      - intros ? E; discriminate E.
      - replace (s_ioq s2) with (@nil blk) by (unfold s2; destruct s1; symmetry; exact E2).
        replace (s_ioseq s2) with (s_ioseq s1 + 1) by (unfold s2; destruct s1; reflexivity).
        replace (s_iodeq s2) with (s_iodeq s1) by (unfold s2; destruct s1; reflexivity).
        replace (s_bw s2) with (s_bw s1) by (unfold s2; destruct s1; reflexivity).
        replace (s_writes s2) with (s_writes s1) by (unfold s2; destruct s1; reflexivity).
        exact Hq'.
      - replace (s_ioq s2) with (@nil blk) by (unfold s2; destruct s1; symmetry; exact E2).
        replace (s_backlog s2) with (s_backlog s1) by (unfold s2; destruct s1; reflexivity).
        replace (s_frag s2) with (@None blk) by (unfold s2; destruct s1; reflexivity).
        rewrite E3. reflexivity.
      - replace (s_backlog s2) with (s_backlog s1) by (unfold s2; destruct s1; reflexivity). exact Hmb'.
      - (* observations *)
        assert (I1 : s_ino s2 = s_ino s1) by (unfold s2; destruct s1; reflexivity).
        assert (I2 : s_writes s2 = s_writes s1) by (unfold s2; destruct s1; reflexivity).
        assert (I3 : s_ftbl s2 = s_ftbl s1) by (unfold s2; destruct s1; reflexivity).
        destruct Hobs as [Ofv Obv Oft Osrc Opool Oout Ofb Ofr OJ Osp Ost Olc Ofl Opre].
        destruct (Ofr fb Hf) as (Kidx & Ksp). pose proof (Ofl fb Hf) as KL.
        constructor; prj; rewrite ?I1, ?I2, ?I3, ?GF; try assumption.
        + intros y [].
        + apply Forall_app. split; [exact Oout|]. constructor; [|constructor]. left.
          rewrite pb_flag by discriminate. exact K1.
        + apply Forall_app. split; [exact Ofb|]. constructor; [|constructor]. intros _.
          rewrite pb_idx. cbn [b_idx with_seq]. split; [exact Kidx|]. rewrite pb_sparse_fb by exact K1. exact Ksp.
        + intros ? E; discriminate E.
        + intro k. rewrite cntL_snoc_not by (apply isL_fb; exact KL). apply Olc.
        + intros ? E; discriminate E.
        + rewrite E1 in Opre. exact Opre. }
    destruct (sync_ok s2 q2) as (s3 & ds3 & F1 & F2 & F3 & F4 & F5).
    { rewrite G2. exact Hinv2. }
    fold s2. rewrite F1.
    assert (Hds3 : ds3 = []).
    { rewrite GF in F3. destruct ds3; [reflexivity|discriminate F3]. }
    subst ds3. cbn [spec_run fold_left] in F2.
    assert (Hc3 : s_cur s3 = false) by congruence. rewrite Hc3 in F2. cbn [b2n] in F2.
    destruct (drained s3 _ F2 Hc3 F5) as (H1 & H2 & H3).
    pose proof F2 as [Hf3 Hh3 Hn3 _ Hq3 _ _ Hobs3].
    rewrite H1, H2 in Hq3. apply Q_done in Hq3.
    exists s3. split; [reflexivity|]. split; [exact Hq3|].
    split; [rewrite H3, Hf3, Hq2; reflexivity|]. split; [exact Hc3|exact Hobs3].
  - (* nothing left *)
    exists s1. split; [reflexivity|].
    assert (Hfin : spec_fin' q1 = q1) by (unfold spec_fin; rewrite <- Hf; reflexivity).
    rewrite Hfin. rewrite E1, E2 in Hq. apply Q_done in Hq.
    split; [exact Hq|]. split; [rewrite E3; reflexivity|]. split; [exact Hc1|exact Hobs].
Qed.

(* ---------------- the whole run ---------------- *)
Lemma Inv_init p0 ht0 : alpha p0 = [] -> Inv 0 (init_st HT BW P p0 ht0 bw0) (sp_init HT ht0).
Proof.
  intro H. unfold init_st, sp_init.
  constructor; unfold Apool; prj; rewrite ?H; try reflexivity.
  - intros ? E; discriminate E.
  - apply InvQ_init.
  - cbn. lia.
  - constructor; unfold Apool; prj; rewrite ?H; cbn [filter app]; try reflexivity.
    + intros y [].
    + intros y [].
    + constructor.
    + constructor.
    + intros ? E; discriminate E.
    + intros ? E; discriminate E.
    + exists Dall. reflexivity.
Qed.

Lemma inode_eq i e z sp st fi fo bl :
  i_ext i = e -> i_size i = z -> i_sparse i = sp -> i_start i = st -> i_fidx i = fi -> i_foff i = fo ->
  i_blocks i = bl -> i = mkI e z sp st fi fo bl.
Proof. destruct i; cbn; intros; subst; reflexivity. Qed.

(* the calls of the front end, then finish: writes, inodes and fragment table are those of the specification *)
Lemma run_events_ok p0 ht0 evs :
  alpha p0 = [] -> evs_ok false evs false -> dblocks evs = Dall ->
  let qf := spec_fin' (spec_run' (sp_init HT ht0) (dblocks evs)) in
  exists s, bind (be_events' (init_st HT BW P p0 ht0 bw0) evs) finish' = Ok s /\
    (s_bw s, s_writes s) = bw_run BW bw_write bw0 [] (sp_out qf) /\
    s_backlog s = 0 /\
    (forall k, s_ino s k = ino_canon (sp_log qf) (s_writes s) evs k) /\
    s_ftbl s = ftbl_canon (sp_nft qf) (s_writes s).
Proof.
  intros Hp0 Hev HD. cbv zeta.
  pose proof (Inv_init p0 ht0 Hp0) as Hinit.
  set (s0 := init_st HT BW P p0 ht0 bw0) in *.
  assert (HA0 : Apool s0 = []) by exact Hp0.
  destruct (be_events_ok evs s0 (sp_init HT ht0) false) as (s1 & ds & C1 & C2 & C3 & C4 & C5).
  { exact Hinit. }
  { exact Hev. }
  { rewrite HA0. exact HD. }
  rewrite C1. cbn [bind].
  rewrite HA0 in C4. cbn [filter app] in C4.
  destruct (finish_ok s1 _ C2 C3) as (s2 & F1 & F2 & F3 & F4 & F5).
  assert (EQ : spec_fin' (spec_run' (spec_run' (sp_init HT ht0) ds) (filter notFB (Apool s1))) =
               spec_fin' (spec_run' (sp_init HT ht0) (dblocks evs))).
  { unfold spec_run. rewrite <- fold_left_app, <- C4. reflexivity. }
  rewrite EQ in *.
  exists s2. split; [exact F1|]. split; [exact F2|]. split; [exact F3|].
  destruct F5 as [Ofv Obv Oft Osrc Opool Oout Ofb Ofr OJ Osp Ost Olc Ofl Opre].
  split; [|exact Oft].
  intro k. unfold ino_canon.
  assert (Esz : i_size (s_ino s2 k) = size_canon evs k).
  { rewrite (finish_size k s1 s2 F1), C5. reflexivity. }
  apply inode_eq.
  - rewrite (OJ k), Esz, Osp, Ost. reflexivity.
  - exact Esz.
  - apply Osp.
  - apply Ost.
  - rewrite <- Ofv. reflexivity.
  - rewrite <- Ofv. reflexivity.
  - apply Obv.
Qed.

End Main.

(* ------------------------------------------------------------------ *)
(* the blocks the front end submits: one LAST block per file at most, a tail end never shares its
   block index with a data block of the same file                                                  *)
(* ------------------------------------------------------------------ *)
Lemma dblocks_app a b : dblocks (a ++ b) = dblocks a ++ dblocks b.
Proof.
  induction a as [|e a IH]; [reflexivity|]. destruct e; cbn [app dblocks]; rewrite ?IH; reflexivity.
Qed.

Lemma evs_ok_flags : forall evs c c', evs_ok c evs c' -> Forall (fun d => fe_flags_ok (b_fl d)) (dblocks evs).
Proof.
  induction evs as [|e evs IH]; intros c c' H; [constructor|].
  destruct e; cbn [evs_ok dblocks] in *.
  - eapply IH; eassumption.
  - eapply IH; eassumption.
  - destruct H. eapply IH; eassumption.
  - destruct H as (_ & Hf & H). constructor; [exact Hf|eapply IH; eassumption].
  - destruct H as (Hf & H). constructor; [exact Hf|eapply IH; eassumption].
Qed.

(* where the front end stands inside a file: D = the blocks of this file submitted so far *)
Definition fbound (f : fe) : N := match fe_cur f with Some cur => b_idx cur | None => fe_index f end.

Definition blk_mid (ino n : N) (d : blk) : Prop :=
  b_ino d = ino /\ bhas LAST d = false /\ bhas ISFRAG d = false /\ b_idx d < n.

Record FI (ino : N) (f : fe) (D : list blk) : Prop := mkFI {
  FI_ino : fe_ino f = ino;
  FI_fl : getf LAST (fe_flags f) = false /\ getf ISFRAG (fe_flags f) = false;
  FI_D : Forall (blk_mid ino (fbound f)) D;
  FI_cur : forall cur, fe_cur f = Some cur -> blk_mid ino (fe_index f) cur
}.

Lemma blk_mid_mono ino n m d : n <= m -> blk_mid ino n d -> blk_mid ino m d.
Proof. intros H (A & B & C & E). repeat split; try assumption. lia. Qed.

Lemma fe_append_loop_FI bs ino : forall fuel f data f' evs D,
  fe_append_loop fuel bs f data = Ok (f', evs) -> FI ino f D -> FI ino f' (D ++ dblocks evs).
Proof.
  induction fuel as [|n IH]; intros f data f' evs D H HFI; [discriminate H|].
  cbn [fe_append_loop] in H. destruct data as [|d0 data'].
  { inversion H; subst. cbn [dblocks]. rewrite app_nil_r. exact HFI. }
  destruct HFI as [Hi Hfl HD Hcur].
  destruct (fe_cur f) as [cur|] eqn:Ecur.
  - pose proof (Hcur cur eq_refl) as Hc.
    destruct (bs - len (b_data cur) =? 0).
    + (* full: submitted *)
      match type of H with context [fe_append_loop n bs ?g ?x] =>
        destruct (fe_append_loop n bs g x) as [[f1 e1]| | |] eqn:E1; try discriminate H;
        specialize (IH g x f1 e1 (D ++ [cur]) E1) end.
      inversion H; subst. cbn [dblocks]. replace (D ++ cur :: dblocks e1) with ((D ++ [cur]) ++ dblocks e1)
        by (rewrite <- app_assoc; reflexivity).
      apply IH. constructor; unfold fbound, fe_with_cur; cbn [fe_ino fe_flags fe_cur fe_index].
      * first [exact Hi|reflexivity].
      * exact Hfl.
      * apply Forall_app. split.
        -- eapply Forall_impl; [|exact HD]. intros a Ha. unfold fbound in Ha. rewrite Ecur in Ha.
           destruct Hc as (_ & _ & _ & Hc). eapply blk_mid_mono; [|exact Ha]. lia.
        -- constructor; [exact Hc|constructor].
      * intros ? E; discriminate E.
    + (* room left *)
      eapply IH; [exact H|]. constructor; unfold fbound, fe_with_cur; cbn [fe_ino fe_flags fe_cur fe_index].
      * first [exact Hi|reflexivity].
      * exact Hfl.
      * unfold fbound in HD. rewrite Ecur in HD. exact HD.
      * intros c E. inversion E; subst c. exact Hc.
  - (* a new block *)
    match type of H with context [fe_append_loop n bs ?g ?x] =>
      destruct (fe_append_loop n bs g x) as [[f1 e1]| | |] eqn:E1; try discriminate H;
      specialize (IH g x f1 e1 D E1) end.
    inversion H; subst. cbn [dblocks]. apply IH.
    destruct Hfl as (Hl & Hf).
    constructor; unfold fbound; cbn [fe_ino fe_flags fe_cur fe_index b_idx].
    * first [exact Hi|reflexivity].
    * rewrite !getf_setf_other by discriminate. auto.
    * unfold fbound in HD. rewrite Ecur in HD. exact HD.
    * intros c E. inversion E; subst c. unfold blk_mid, bhas. cbn [b_ino b_fl b_idx].
      repeat split; try assumption. lia.
Qed.

Lemma FI_submit_cur ino f cur D :
  FI ino f D -> fe_cur f = Some cur -> FI ino (fe_with_cur f None) (D ++ [cur]).
Proof.
  intros [Hi Hfl HD Hcur] Ecur. pose proof (Hcur cur Ecur) as Hc.
  constructor; unfold fbound, fe_with_cur; cbn [fe_ino fe_flags fe_cur fe_index].
  - exact Hi.
  - exact Hfl.
  - apply Forall_app. split.
    + eapply Forall_impl; [|exact HD]. intros a Ha. unfold fbound in Ha. rewrite Ecur in Ha.
      destruct Hc as (_ & _ & _ & Hc). eapply blk_mid_mono; [|exact Ha]. lia.
    + constructor; [exact Hc|constructor].
  - intros ? E; discriminate E.
Qed.

Lemma fe_append_FI bs ino f data f' evs D :
  fe_append bs f data = Ok (f', evs) -> FI ino f D -> FI ino f' (D ++ dblocks evs).
Proof.
  unfold fe_append. intros H HFI. destruct (negb (fe_begin f)); [discriminate H|].
  destruct (fe_append_loop (3 * length data + 3) bs f data) as [[f1 e1]| | |] eqn:E1; try discriminate H.
  pose proof (fe_append_loop_FI bs ino _ _ _ _ _ D E1 HFI) as H1.
  destruct (fe_cur f1) as [cur|] eqn:Ecur; [|discriminate H].
  destruct (len (b_data cur) =? bs); inversion H; subst; cbn [dblocks].
  - rewrite dblocks_app. cbn [dblocks]. rewrite app_assoc. apply FI_submit_cur; assumption.
  - exact H1.
Qed.

Lemma fe_appends_FI bs ino : forall chunks f f' evs D,
  fe_appends bs f chunks = Ok (f', evs) -> FI ino f D -> FI ino f' (D ++ dblocks evs).
Proof.
  induction chunks as [|c r IH]; intros f f' evs D H HFI; cbn [fe_appends] in H.
  - inversion H; subst. cbn [dblocks]. rewrite app_nil_r. exact HFI.
  - destruct (fe_append bs f c) as [[f1 e1]| | |] eqn:E1; try discriminate H.
    destruct (fe_appends bs f1 r) as [[f2 e2]| | |] eqn:E2; try discriminate H.
    inversion H; subst. rewrite dblocks_app, app_assoc.
    eapply IH; [exact E2|]. eapply fe_append_FI; eassumption.
Qed.

Lemma cntL_nolast k D : Forall (fun d => bhas LAST d = false) D -> cntL k D = O.
Proof.
  induction D as [|d D IH]; intro H; [reflexivity|]. inversion H; subst.
  unfold cntL in *. cbn [filter]. unfold isL at 1. rewrite H2, andb_false_r. apply IH. assumption.
Qed.

Lemma cntL_single k x : (cntL k [x] <= 1)%nat.
Proof. unfold cntL. cbn [filter]. destruct (isL k x); cbn [length]; lia. Qed.

Lemma cntL_other k D : Forall (fun d => b_ino d <> k) D -> cntL k D = O.
Proof.
  induction D as [|d D IH]; intro H; [reflexivity|]. inversion H; subst.
  unfold cntL in *. cbn [filter]. unfold isL at 1.
  assert (E : (k =? b_ino d) = false) by (apply N.eqb_neq; congruence).
  rewrite E. cbn [andb]. apply IH. assumption.
Qed.

Lemma fresh_nofrag D : Forall (fun d => bhas ISFRAG d = false) D -> frag_idx_fresh D.
Proof.
  intros H d f _ Hf HFf. rewrite Forall_forall in H. rewrite (H f Hf) in HFf. discriminate HFf.
Qed.

Lemma fresh_tail D t c :
  Forall (fun d => bhas ISFRAG d = false /\ b_idx d < b_idx c) D ->
  Forall (fun d => d = c \/ b_data d = []) t ->
  (forall f, In f t -> bhas ISFRAG f = true -> f = c) ->
  frag_idx_fresh (D ++ t).
Proof.
  intros HD Ht Hc d f Hd Hf HFf HFd _ Hdata. rewrite Forall_forall in HD, Ht.
  apply in_app_or in Hf. destruct Hf as [Hf|Hf].
  { destruct (HD f Hf) as (A & _). congruence. }
  pose proof (Hc f Hf HFf) as ->.
  apply in_app_or in Hd. destruct Hd as [Hd|Hd].
  - destruct (HD d Hd) as (_ & A). lia.
  - destruct (Ht d Hd) as [-> |A]; congruence.
Qed.

(* the blocks of one file *)
Definition PF (ino : N) (D : list blk) : Prop :=
  Forall (fun d => b_ino d = ino) D /\ (forall k, (cntL k D <= 1)%nat) /\ frag_idx_fresh D.

Lemma fe_file_PF bs f ino fl f' evs :
  fe_cur f = None -> file_ok fl -> fe_file bs f ino fl = Ok (f', evs) -> PF ino (dblocks evs).
Proof.
  intros Hc (Hfl & _) H. destruct fl as [uf chunks]. cbn [fst snd] in *.
  unfold fe_file, fe_begin_file in H. cbn [fst snd] in H.
  destruct (fe_begin f); [discriminate H|].
  destruct (negb (N.ldiff uf c_SQFS_BLK_USER_SETTABLE_FLAGS =? 0)); [discriminate H|].
  set (f1 := mkFe true ino (setf FIRST true (dec_flags uf)) 0 (fe_cur f)) in *.
  destruct (fe_appends bs f1 chunks) as [[f2 e2]| | |] eqn:E2; try discriminate H.
  destruct (fe_end_file f2) as [[f3 e3]| | |] eqn:E3; try discriminate H.
  inversion H; subst. cbn [app dblocks]. rewrite dblocks_app.
  assert (H1 : FI ino f1 []).
  { constructor; unfold f1, fbound; cbn [fe_ino fe_flags fe_cur fe_index]; rewrite ?Hc.
    - reflexivity.
    - rewrite !getf_setf_other by discriminate.
      pose proof user_mask_internal as M. cbn [forallb] in M.
      repeat (apply andb_prop in M; destruct M as [?M M]).
      repeat match goal with H : (_ =? _) = true |- _ => apply N.eqb_eq in H end.
      unfold dec_flags; cbn [getf f_last f_isfrag]. split; apply user_flag_clear; assumption.
    - constructor.
    - intros ? E; discriminate E. }
  pose proof (fe_appends_FI bs ino _ _ _ _ [] E2 H1) as [Hi (Hl & Hf) HD Hcur]. cbn [app] in HD.
  set (D := dblocks e2) in *.
  assert (DI : Forall (fun d => b_ino d = ino) D) by (eapply Forall_impl; [|exact HD]; intros a Ha; apply Ha).
  assert (DL : Forall (fun d => bhas LAST d = false) D) by (eapply Forall_impl; [|exact HD]; intros a Ha; apply Ha).
  assert (DNF : Forall (fun d => bhas ISFRAG d = false) D) by (eapply Forall_impl; [|exact HD]; intros a Ha; apply Ha).
  unfold fe_end_file in E3. destruct (negb (fe_begin f2)); [discriminate E3|].
  assert (Hsent : b_ino (sentinel f2) = ino /\ b_data (sentinel f2) = [] /\ bhas ISFRAG (sentinel f2) = false).
  { unfold sentinel, bhas. cbn [b_ino b_data b_fl]. rewrite getf_setf_other by discriminate. auto. }
  destruct Hsent as (S1 & S2 & S3).
  destruct (fe_cur f2) as [cur|] eqn:Ecur.
  - destruct (Hcur cur eq_refl) as (C1 & C2 & C3 & C4).
    assert (DB : Forall (fun d => bhas ISFRAG d = false /\ b_idx d < b_idx cur) D).
    { eapply Forall_impl; [|exact HD]. intros a Ha. unfold fbound in Ha. rewrite Ecur in Ha.
      destruct Ha as (_ & _ & A & B). auto. }
    destruct (getf DF (fe_flags f2)).
    + (* the tail end stays a block of its own *)
      inversion E3; subst. cbn [dblocks]. split; [|split].
      * apply Forall_app. split; [exact DI|]. constructor; [exact C1|constructor].
      * intro k. rewrite cntL_app, (cntL_nolast k D DL). apply cntL_single.
      * apply fresh_nofrag. apply Forall_app. split; [exact DNF|]. constructor; [|constructor].
        unfold bhas in *. cbn [b_fl with_fl]. rewrite getf_setf_other by discriminate. exact C3.
    + set (cur' := with_fl cur (setf ISFRAG true (b_fl cur))) in *.
      assert (K1 : b_ino cur' = ino) by exact C1.
      assert (K2 : bhas LAST cur' = false).
      { unfold cur', bhas in *. cbn [b_fl with_fl]. rewrite getf_setf_other by discriminate. exact C2. }
      assert (DB' : Forall (fun d => bhas ISFRAG d = false /\ b_idx d < b_idx cur') D) by exact DB.
      destruct (negb (getf FIRST (b_fl cur))); inversion E3; subst; cbn [dblocks].
      * (* sentinel, then the tail end *)
        split; [|split].
        -- apply Forall_app. split; [exact DI|]. constructor; [exact S1|]. constructor; [exact K1|constructor].
        -- intro k. rewrite cntL_app, (cntL_nolast k D DL).
           change [sentinel f2; cur'] with ([sentinel f2] ++ [cur']). rewrite cntL_app.
           pose proof (cntL_single k (sentinel f2)).
           rewrite (cntL_nolast k [cur']) by (constructor; [exact K2|constructor]). lia.
        -- apply (fresh_tail D _ cur' DB').
           ++ constructor; [right; exact S2|]. constructor; [left; reflexivity|constructor].
           ++ intros x [<-|[<-|[]]] Hx; [congruence|reflexivity].
      * split; [|split].
        -- apply Forall_app. split; [exact DI|]. constructor; [exact K1|constructor].
        -- intro k. rewrite cntL_app, (cntL_nolast k D DL). apply cntL_single.
        -- apply (fresh_tail D _ cur' DB').
           ++ constructor; [left; reflexivity|constructor].
           ++ intros x [<-|[]] Hx. reflexivity.
  - destruct (negb (getf FIRST (fe_flags f2))); inversion E3; subst; cbn [dblocks].
    + split; [|split].
      * apply Forall_app. split; [exact DI|]. constructor; [exact S1|constructor].
      * intro k. rewrite cntL_app, (cntL_nolast k D DL). apply cntL_single.
      * apply fresh_nofrag. apply Forall_app. split; [exact DNF|]. constructor; [exact S3|constructor].
    + rewrite app_nil_r. split; [exact DI|]. split.
      * intro k. rewrite (cntL_nolast k D DL). lia.
      * apply fresh_nofrag. exact DNF.
Qed.

(* the blocks of a list of files numbered ino, ino + 1, ... *)
Definition PFs (ino : N) (D : list blk) : Prop :=
  Forall (fun d => ino <= b_ino d) D /\ (forall k, (cntL k D <= 1)%nat) /\ frag_idx_fresh D.

Lemma fe_files_PFs bs : 0 < bs -> forall fls f ino f' evs,
  fe_begin f = false -> fe_cur f = None -> Forall file_ok fls ->
  fe_files bs f ino fls = Ok (f', evs) -> PFs ino (dblocks evs).
Proof.
  intros Hbs. induction fls as [|fl fls IH]; intros f ino f' evs Hb Hc Hok H; cbn [fe_files] in H.
  - inversion H; subst. split; [constructor|]. split; [intro; apply Nat.le_0_l|]. intros ? ? [].
  - inversion Hok as [|? ? Hfl Hfls]; subst.
    destruct (fe_file_ok bs Hbs f ino fl Hb Hc Hfl) as (f1 & e1 & E1 & _ & E3 & E4).
    rewrite E1 in H.
    destruct (fe_files bs f1 (ino + 1) fls) as [[f2 e2]| | |] eqn:E2; try discriminate H.
    inversion H; subst. rewrite dblocks_app.
    destruct (fe_file_PF bs f ino fl f1 e1 Hc Hfl E1) as (A1 & A2 & A3).
    destruct (IH f1 (ino + 1) f' e2 E3 E4 Hfls E2) as (B1 & B2 & B3).
    rewrite Forall_forall in A1, B1.
    split; [|split].
    + apply Forall_app. split; apply Forall_forall; intros d Hd; [rewrite (A1 d Hd); lia|specialize (B1 d Hd); lia].
    + intro k. rewrite cntL_app. destruct (N.eq_dec k ino) as [->|Hne].
      * rewrite (cntL_other ino (dblocks e2)); [specialize (A2 ino); lia|].
        apply Forall_forall. intros d Hd. specialize (B1 d Hd). lia.
      * rewrite (cntL_other k (dblocks e1)); [apply B2|].
        apply Forall_forall. intros d Hd. rewrite (A1 d Hd). congruence.
    + intros d x Hd Hx HFx HFd Hino Hdata.
      apply in_app_or in Hd. apply in_app_or in Hx.
      destruct Hd as [Hd|Hd], Hx as [Hx|Hx].
      * apply (A3 d x); assumption.
      * exfalso. pose proof (A1 d Hd). specialize (B1 x Hx). lia.
      * exfalso. pose proof (A1 x Hx). specialize (B1 d Hd). lia.
      * apply (B3 d x); assumption.
Qed.

(* ------------------------------------------------------------------ *)
(* the sizes the front end announces: file k receives exactly the bytes handed to append *)
(* ------------------------------------------------------------------ *)
Lemma fe_append_loop_sz bs k : forall fuel f data f' evs,
  fe_append_loop fuel bs f data = Ok (f', evs) ->
  fe_ino f' = fe_ino f /\ forall a, fold_left (sz_ev k) evs a = a.
Proof.
  induction fuel as [|n IH]; intros f data f' evs H; [discriminate H|].
  cbn [fe_append_loop] in H. destruct data as [|d0 data'].
  { inversion H; subst. split; reflexivity. }
  destruct (fe_cur f) as [cur|].
  - destruct (bs - len (b_data cur) =? 0).
    + match type of H with context [fe_append_loop n bs ?g ?x] =>
        destruct (fe_append_loop n bs g x) as [[f1 e1]| | |] eqn:E1; try discriminate H;
        destruct (IH g x f1 e1 E1) as (A & B) end.
      inversion H; subst. split; [exact A|]. intro a. cbn [fold_left sz_ev]. apply B.
    + destruct (IH _ _ _ _ H) as (A & B). split; [exact A|exact B].
  - match type of H with context [fe_append_loop n bs ?g ?x] =>
      destruct (fe_append_loop n bs g x) as [[f1 e1]| | |] eqn:E1; try discriminate H;
      destruct (IH g x f1 e1 E1) as (A & B) end.
    inversion H; subst. split; [exact A|]. intro a. cbn [fold_left sz_ev]. apply B.
Qed.

Lemma fe_append_sz bs k f data f' evs :
  fe_append bs f data = Ok (f', evs) ->
  fe_ino f' = fe_ino f /\
  forall a, fold_left (sz_ev k) evs a = if k =? fe_ino f then a + len data else a.
Proof.
  unfold fe_append. intro H. destruct (negb (fe_begin f)); [discriminate H|].
  destruct (fe_append_loop (3 * length data + 3) bs f data) as [[f1 e1]| | |] eqn:E1; try discriminate H.
  destruct (fe_append_loop_sz bs k _ _ _ _ _ E1) as (A & B).
  destruct (fe_cur f1) as [cur|]; [|discriminate H].
  destruct (len (b_data cur) =? bs); inversion H; subst; (split; [exact A|]); intro a; cbn [fold_left sz_ev].
  - rewrite fold_left_app, B. reflexivity.
  - apply B.
Qed.

Lemma fe_appends_sz bs k : forall chunks f f' evs,
  fe_appends bs f chunks = Ok (f', evs) ->
  fe_ino f' = fe_ino f /\
  forall a, fold_left (sz_ev k) evs a = if k =? fe_ino f then a + len (concat chunks) else a.
Proof.
  induction chunks as [|c r IH]; intros f f' evs H; cbn [fe_appends] in H.
  - inversion H; subst. split; [reflexivity|]. intro a. cbn [fold_left concat]. rewrite len_nil.
    destruct (k =? fe_ino f'); [lia|reflexivity].
  - destruct (fe_append bs f c) as [[f1 e1]| | |] eqn:E1; try discriminate H.
    destruct (fe_appends bs f1 r) as [[f2 e2]| | |] eqn:E2; try discriminate H.
    inversion H; subst.
    destruct (fe_append_sz bs k _ _ _ _ E1) as (A1 & B1). destruct (IH _ _ _ E2) as (A2 & B2).
    split; [congruence|]. intro a. rewrite fold_left_app, B1, B2, A1. cbn [concat]. rewrite len_app.
    destruct (k =? fe_ino f); [lia|reflexivity].
Qed.

Lemma fe_file_sz bs k f ino fl f' evs :
  fe_file bs f ino fl = Ok (f', evs) ->
  forall a, fold_left (sz_ev k) evs a = if k =? ino then a + len (concat (snd fl)) else a.
Proof.
  intro H. destruct fl as [uf chunks]. cbn [fst snd] in *.
  unfold fe_file, fe_begin_file in H. cbn [fst snd] in H.
  destruct (fe_begin f); [discriminate H|].
  destruct (negb (N.ldiff uf c_SQFS_BLK_USER_SETTABLE_FLAGS =? 0)); [discriminate H|].
  match type of H with context [fe_appends bs ?g chunks] =>
    destruct (fe_appends bs g chunks) as [[f2 e2]| | |] eqn:E2; try discriminate H;
    destruct (fe_appends_sz bs k _ _ _ _ E2) as (_ & B) end.
  cbn [fe_ino] in B.
  destruct (fe_end_file f2) as [[f3 e3]| | |] eqn:E3; try discriminate H.
  inversion H; subst. intro a. cbn [app fold_left sz_ev]. rewrite fold_left_app, B.
  assert (E : forall x, fold_left (sz_ev k) e3 x = x).
  { unfold fe_end_file in E3. destruct (negb (fe_begin f2)); [discriminate E3|].
    destruct (fe_cur f2) as [cur|].
    - destruct (getf DF (fe_flags f2)); [inversion E3; reflexivity|].
      destruct (negb (getf FIRST (b_fl cur))); inversion E3; reflexivity.
    - destruct (negb (getf FIRST (fe_flags f2))); inversion E3; reflexivity. }
  apply E.
Qed.

(* bytes handed to append for file number k *)
Definition file_bytes (files : list file) (k : N) : N :=
  match nth_error files (N.to_nat k) with Some fl => len (concat (snd fl)) | None => 0 end.

Lemma fe_files_sz bs k : forall fls f ino f' evs a,
  fe_files bs f ino fls = Ok (f', evs) ->
  fold_left (sz_ev k) evs a = a + (if ino <=? k then file_bytes fls (k - ino) else 0).
Proof.
  induction fls as [|fl fls IH]; intros f ino f' evs a H; cbn [fe_files] in H.
  - inversion H; subst. cbn [fold_left]. unfold file_bytes. destruct (N.to_nat (k - ino)); cbn [nth_error];
      destruct (ino <=? k); lia.
  - destruct (fe_file bs f ino fl) as [[f1 e1]| | |] eqn:E1; try discriminate H.
    destruct (fe_files bs f1 (ino + 1) fls) as [[f2 e2]| | |] eqn:E2; try discriminate H.
    inversion H; subst. rewrite fold_left_app, (fe_file_sz bs k _ _ _ _ _ E1), (IH _ _ _ _ _ E2).
    unfold file_bytes.
    destruct (k =? ino) eqn:Ek.
    + apply N.eqb_eq in Ek. subst k.
      assert (E3 : (ino + 1 <=? ino) = false) by (apply N.leb_gt; lia).
      rewrite E3, N.leb_refl, N.sub_diag. cbn [N.to_nat nth_error]. lia.
    + apply N.eqb_neq in Ek. destruct (ino <=? k) eqn:El.
      * apply N.leb_le in El. assert (E3 : (ino + 1 <=? k) = true) by (apply N.leb_le; lia). rewrite E3.
        replace (N.to_nat (k - ino)) with (S (N.to_nat (k - (ino + 1)))) by lia. cbn [nth_error]. reflexivity.
      * apply N.leb_gt in El. assert (E3 : (ino + 1 <=? k) = false) by (apply N.leb_gt; lia). rewrite E3. reflexivity.
Qed.

(* ------------------------------------------------------------------ *)
(* the whole run                                                       *)
(* ------------------------------------------------------------------ *)
Section Run.
Variable hash : list N -> N.
Variable compress : list N -> option (list N).
Variable HT : Type.
Variable ht_search : HT -> blk -> option (N * N).
Variable ht_insert : HT -> blk -> N * N -> HT.
Variable BW : Type.
Variable bw_write : BW -> blk -> BW * N.
Variable P : Type.
Variable p_submit : P -> blk -> P.
Variable p_dequeue : P -> option (blk * P).
Variable bs mb : N.
Variable bw0 : BW.
Variable alpha : P -> list blk.
Hypothesis alpha_submit : forall p b, alpha (p_submit p b) = alpha p ++ [b].
Hypothesis alpha_deq_cons : forall p b r, alpha p = b :: r ->
  exists p', p_dequeue p = Some (process_block hash compress b, p') /\ alpha p' = r.
Hypothesis Hmb : 3 <= mb.

Notation run' := (run HT ht_search ht_insert BW bw_write P p_submit p_dequeue bs mb).

(* writes, inodes, fragment table: all three are the functions of the file list defined in BpSpec.v *)
Theorem run_refines_spec_full p0 ht0 files :
  alpha p0 = [] -> 0 < bs -> Forall file_ok files ->
  exists s,
    run' p0 ht0 bw0 files = Ok s /\
    (s_bw s, s_writes s) = bw_run BW bw_write bw0 [] (spec_blocks hash compress HT ht_search ht_insert bs ht0 files) /\
    s_backlog s = 0 /\
    (forall k, s_ino s k = spec_inodes hash compress HT ht_search ht_insert BW bw_write bs ht0 bw0 files k) /\
    s_ftbl s = spec_ftbl hash compress HT ht_search ht_insert BW bw_write bs ht0 bw0 files.
Proof.
  intros Hp0 Hbs Hfiles. unfold run, spec_blocks, spec_inodes, spec_ftbl, spec_final.
  destruct (fe_files_ok bs Hbs files fe_init 0 eq_refl eq_refl Hfiles) as (f' & evs & E1 & E2).
  destruct (fe_files_PFs bs Hbs files fe_init 0 f' evs eq_refl eq_refl Hfiles E1) as (_ & PL & PFr).
  rewrite E1.
  destruct (run_events_ok hash compress HT ht_search ht_insert BW bw_write P p_submit p_dequeue bs mb bw0
              alpha alpha_submit alpha_deq_cons Hmb (dblocks evs) PFr (evs_ok_flags _ _ _ E2) PL
              p0 ht0 evs Hp0 E2 eq_refl) as (s & R1 & R2 & R3 & R4 & R5).
  cbv zeta in *. exists s. split; [exact R1|]. split; [exact R2|]. split; [exact R3|].
  assert (EW : s_writes s = snd (bw_run BW bw_write bw0 []
             (sp_out (spec_fin hash compress HT (spec_run hash compress HT ht_search ht_insert bs (sp_init HT ht0) (dblocks evs)))))).
  { rewrite <- R2. reflexivity. }
  rewrite <- EW. split; [exact R4|exact R5].
Qed.

(* the inode type the specification computes is the smallest that holds the three scalar fields *)
Lemma spec_inodes_type ht0 files k :
  Jino (spec_inodes hash compress HT ht_search ht_insert BW bw_write bs ht0 bw0 files k).
Proof.
  unfold spec_inodes. destruct (fe_files bs fe_init 0 files) as [[f evs]| | |]; reflexivity.
Qed.

(* ... and its file size is the number of bytes handed to append for that file *)
Lemma spec_inodes_size ht0 files k :
  0 < bs -> Forall file_ok files ->
  i_size (spec_inodes hash compress HT ht_search ht_insert BW bw_write bs ht0 bw0 files k) = file_bytes files k.
Proof.
  clear Hmb. intros Hbs Hf. unfold spec_inodes.
  destruct (fe_files_ok bs Hbs files fe_init 0 eq_refl eq_refl Hf) as (f' & evs & E1 & _).
  rewrite E1. unfold ino_canon. cbn [i_size]. unfold size_canon.
  rewrite (fe_files_sz bs k _ _ _ _ _ 0 E1), N.sub_0_r.
  assert (E : (0 <=? k) = true) by (apply N.leb_le; lia). rewrite E. apply N.add_0_l.
Qed.

Theorem run_refines_spec p0 ht0 files :
  alpha p0 = [] -> 0 < bs -> Forall file_ok files ->
  exists s,
    run' p0 ht0 bw0 files = Ok s /\
    (s_bw s, s_writes s) = bw_run BW bw_write bw0 [] (spec_blocks hash compress HT ht_search ht_insert bs ht0 files) /\
    s_backlog s = 0.
Proof.
  intros H1 H2 H3. destruct (run_refines_spec_full p0 ht0 files H1 H2 H3) as (s & A & B & C & _).
  exists s. auto.
Qed.
End Run.

(* ------------------------------------------------------------------ *)
(* corollaries                                                         *)
(* ------------------------------------------------------------------ *)
Lemma clamp_ge3 q : 3 <= clamp_backlog q.
Proof.
  unfold clamp_backlog. assert (H : 3 <= c_BP_MIN_BACKLOG) by (vm_compute; discriminate).
  destruct (q <? c_BP_MIN_BACKLOG) eqn:E; [exact H|]. apply N.ltb_ge in E. lia.
Qed.

Lemma clamp_id q : c_BP_MIN_BACKLOG <= q -> clamp_backlog q = q.
Proof. intro H. unfold clamp_backlog. destruct (q <? c_BP_MIN_BACKLOG) eqn:E; [apply N.ltb_lt in E; lia|reflexivity]. Qed.

(* the serial pool (threadpool_serial.c) satisfies the FIFO laws with alpha = identity *)
Section Serial.
Variable work : blk -> blk.
Lemma serial_submit (p : list blk) b : (fun x => x) (sp_submit p b) = (fun x : list blk => x) p ++ [b].
Proof. reflexivity. Qed.
Lemma serial_deq_nil (p : list blk) : (fun x : list blk => x) p = [] -> sp_dequeue work p = None.
Proof. intro H. cbn in H. subst. reflexivity. Qed.
Lemma serial_deq_cons (p : list blk) b r : (fun x : list blk => x) p = b :: r ->
  exists p', sp_dequeue work p = Some (work b, p') /\ (fun x : list blk => x) p' = r.
Proof. intro H. cbn in H. subst. exists r. split; reflexivity. Qed.
End Serial.

(* ---------------- the order of the output ---------------- *)
Section Order.
Variable hash : list N -> N.
Variable compress : list N -> option (list N).
Variable HT : Type.
Variable ht_search : HT -> blk -> option (N * N).
Variable ht_insert : HT -> blk -> N * N -> HT.
Variable bs : N.
Notation pblock := (process_block hash compress).
Notation spec_frag' := (spec_frag hash compress HT ht_search ht_insert bs).
Notation spec_step' := (spec_step hash compress HT ht_search ht_insert bs).
Notation spec_run' := (spec_run hash compress HT ht_search ht_insert bs).
Notation spec_fin' := (spec_fin hash compress HT).

Definition unseq (b : blk) : blk := with_seq b 0.
Definition frag_inv (q : sp HT) : Prop :=
  forall fb, sp_frag q = Some fb -> bhas FRAGBLK fb = true.

(* data blocks of the output, sequence numbers erased *)
Definition data_out (q : sp HT) : list blk := map unseq (filter notFB (sp_out q)).

Lemma notFB_pblock_seq fb n : bhas FRAGBLK fb = true -> notFB (pblock (with_seq fb n)) = false.
Proof.
  intro H. unfold notFB. rewrite pb_flag by discriminate. unfold bhas in *. cbn [b_fl with_seq]. rewrite H. reflexivity.
Qed.

Lemma spec_frag_order q b :
  frag_inv q -> frag_inv (spec_frag' q b) /\ data_out (spec_frag' q b) = data_out q.
Proof.
  intro Hq. unfold spec_frag.
  destruct (bhas SPARSE b); [split; [exact Hq|reflexivity]|].
  destruct (if bhas DD b then None else ht_search (sp_ht q) b) as [[? ?]|]; [split; [exact Hq|reflexivity]|].
  destruct q as [qf qh qn qo]. unfold frag_inv, data_out in *. cbn [sp_frag sp_ht sp_nft sp_out] in *.
  destruct qf as [fb|].
  - specialize (Hq fb eq_refl).
    destruct (bs <? len (b_data fb) + len (b_data b)); cbn [sp_frag sp_ht sp_nft sp_out].
    + split.
      * intros fb' E. inversion E; subst. unfold bhas. cbn [b_fl with_fl]. first [apply getf_setf_same|reflexivity].
      * rewrite filter_app. cbn [filter]. rewrite notFB_pblock_seq by exact Hq. rewrite app_nil_r. reflexivity.
    + split; [|reflexivity].
      intros fb' E. inversion E; subst. unfold bhas in *. cbn [b_fl with_fl].
      rewrite getf_setf_other by discriminate. exact Hq.
  - cbn [sp_frag sp_ht sp_nft sp_out]. split; [|reflexivity].
    intros fb' E. inversion E; subst. unfold bhas. cbn [b_fl with_fl]. first [apply getf_setf_same|reflexivity].
Qed.

Lemma unseq_with_seq b n : unseq (with_seq b n) = unseq b.
Proof. reflexivity. Qed.

Lemma spec_run_order : forall ds q,
  frag_inv q -> Forall (fun d => bhas FRAGBLK d = false) ds ->
  frag_inv (spec_run' q ds) /\
  data_out (spec_run' q ds) =
    data_out q ++ map (fun d => unseq (pblock d)) (filter (fun d => negb (bhas ISFRAG d)) ds).
Proof.
  induction ds as [|d ds IH]; intros q Hq Hds.
  - cbn. split; [exact Hq|]. rewrite app_nil_r. reflexivity.
  - inversion Hds as [|? ? Hd Hds']; subst. cbn [spec_run fold_left filter].
    unfold spec_step at 2 4. rewrite (pb_flag hash compress ISFRAG) by discriminate.
    destruct (bhas ISFRAG d) eqn:E; cbn [negb].
    + set (q0 := mkSp (sp_frag q) (sp_ht q) (sp_nft q) (sp_out q) (log_src (sp_log q) d)).
      assert (Hq0 : frag_inv q0) by exact Hq.
      destruct (spec_frag_order q0 (pblock d) Hq0) as (A1 & A2).
      destruct (IH _ A1 Hds') as (B1 & B2). split; [exact B1|]. unfold spec_run in *. rewrite B2, A2. reflexivity.
    + cbn [sp_frag sp_ht sp_nft sp_out sp_log].
      set (q1 := mkSp (sp_frag q) (sp_ht q) (sp_nft q) (sp_out q ++ [with_seq (pblock d) (len (sp_out q))])
                      (log_src (sp_log q) d)).
      assert (A1 : frag_inv q1) by exact Hq.
      destruct (IH _ A1 Hds') as (B1 & B2). split; [exact B1|]. unfold spec_run in *. rewrite B2.
      unfold data_out, q1. cbn [sp_out]. rewrite filter_app, map_app. cbn [filter].
      assert (Hn : notFB (with_seq (pblock d) (len (sp_out q))) = true).
      { unfold notFB, bhas. cbn [b_fl with_seq]. fold (bhas FRAGBLK (pblock d)). rewrite pb_flag by discriminate. rewrite Hd. reflexivity. }
      rewrite Hn. cbn [map]. rewrite unseq_with_seq, <- app_assoc. reflexivity.
Qed.

Lemma spec_fin_order q : frag_inv q -> data_out (spec_fin' q) = data_out q.
Proof.
  intro Hq. unfold spec_fin, data_out. destruct (sp_frag q) as [fb|] eqn:E; [|reflexivity].
  cbn [sp_out]. rewrite filter_app. cbn [filter]. rewrite notFB_pblock_seq by (apply Hq; exact E).
  rewrite app_nil_r. reflexivity.
Qed.

Lemma evs_ok_dblocks : forall evs c c', evs_ok c evs c' -> Forall (fun d => bhas FRAGBLK d = false) (dblocks evs).
Proof.
  induction evs as [|e evs IH]; intros c c' H; [constructor|].
  destruct e; cbn [evs_ok dblocks] in *.
  - eapply IH; eassumption.
  - eapply IH; eassumption.
  - destruct H. eapply IH; eassumption.
  - destruct H as (_ & Hf & H). constructor; [apply fe_flags_ok_elim in Hf; apply Hf|eapply IH; eassumption].
  - destruct H as (Hf & H). constructor; [apply fe_flags_ok_elim in Hf; apply Hf|eapply IH; eassumption].
Qed.

(* all data blocks are written in the order in which the front end submitted them *)
Theorem spec_blocks_data_order ht0 files f evs :
  0 < bs -> Forall file_ok files -> fe_files bs fe_init 0 files = Ok (f, evs) ->
  map unseq (filter notFB (spec_blocks hash compress HT ht_search ht_insert bs ht0 files)) =
  map (fun d => unseq (pblock d)) (filter (fun d => negb (bhas ISFRAG d)) (dblocks evs)).
Proof.
  intros Hbs Hfiles E. unfold spec_blocks, spec_final. rewrite E.
  destruct (fe_files_ok bs Hbs files fe_init 0 eq_refl eq_refl Hfiles) as (f' & evs' & E1 & E2).
  rewrite E in E1. inversion E1; subst f' evs'.
  assert (H0 : frag_inv (sp_init HT ht0)) by (intros ? X; discriminate X).
  destruct (spec_run_order (dblocks evs) _ H0 (evs_ok_dblocks _ _ _ E2)) as (A1 & A2).
  fold (data_out (spec_fin' (spec_run' (sp_init HT ht0) (dblocks evs)))).
  rewrite spec_fin_order by exact A1. rewrite A2. reflexivity.
Qed.
End Order.
