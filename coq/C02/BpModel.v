(* C02 — executable model of the block processor of libsquashfs
   (lib/sqfs/src/block_processor/{frontend,backend,block_processor}.c), main thread only,
   over an abstract worker pool, an abstract fragment hash table and an abstract block writer.

   Structure (see props/C02/NOTES.md for the line-by-line correspondence):
     - flags          : SQFS_BLK_* as a record of booleans, numeric encoding from GenBlk.v
     - process_block  : block_processor.c:process_block      (the worker callback)
     - inode ops      : the few setters of lib/sqfs/src/inode.c that the block processor calls
     - front end      : frontend.c begin_file / append / end_file as a pure generator of the calls it
                        makes into the rest of the processor (get_new_block / enqueue_block / inode size)
     - back end       : get_new_block, enqueue_block, dequeue_block, store_io_block,
                        process_completed_block, process_completed_fragment, sync, finish
   Definitions only; proofs are in BpProofs.v. *)
From Coq Require Import List NArith ZArith Bool.
From SqfsV Require Import C02.GenBlk.
Import ListNotations.
Local Open Scope N_scope.

(* ------------------------------------------------------------------ *)
(* results                                                            *)
(* ------------------------------------------------------------------ *)
Inductive res (A : Type) : Type :=
| Ok (a : A)
| Err (e : Z)        (* graceful refusal, value = SQFS_ERROR_* *)
| Crash              (* the C code would dereference NULL here *)
| Fuel.              (* loop fuel exhausted: proved unreachable *)
Arguments Ok {A} a.
Arguments Err {A} e.
Arguments Crash {A}.
Arguments Fuel {A}.

Definition bind {A B} (r : res A) (f : A -> res B) : res B :=
  match r with Ok a => f a | Err e => Err e | Crash => Crash | Fuel => Fuel end.

(* error codes used (include/sqfs/error.h); compared with Gen/Constants.v in BpProofs.v *)
Definition E_INTERNAL : Z := (-4)%Z.
Definition E_UNSUPPORTED : Z := (-6)%Z.
Definition E_SEQUENCE : Z := (-17)%Z.

Definition len {A} (l : list A) : N := N.of_nat (length l).

(* ------------------------------------------------------------------ *)
(* block flags                                                        *)
(* ------------------------------------------------------------------ *)
Inductive flag := DC | DH | DF | DD | IGS | SPARSE | FIRST | LAST | ISFRAG | FRAGBLK | COMP | INTERNAL.

Record flags := mkF {
  f_dc : bool;      (* SQFS_BLK_DONT_COMPRESS *)
  f_dh : bool;      (* SQFS_BLK_DONT_HASH *)
  f_df : bool;      (* SQFS_BLK_DONT_FRAGMENT *)
  f_dd : bool;      (* SQFS_BLK_DONT_DEDUPLICATE *)
  f_igs : bool;     (* SQFS_BLK_IGNORE_SPARSE *)
  f_sparse : bool;  (* SQFS_BLK_IS_SPARSE *)
  f_first : bool;   (* SQFS_BLK_FIRST_BLOCK *)
  f_last : bool;    (* SQFS_BLK_LAST_BLOCK *)
  f_isfrag : bool;  (* SQFS_BLK_IS_FRAGMENT *)
  f_fragblk : bool; (* SQFS_BLK_FRAGMENT_BLOCK *)
  f_comp : bool;    (* SQFS_BLK_IS_COMPRESSED *)
  f_int : bool      (* BLK_FLAG_INTERNAL = BLK_FLAG_MANUAL_SUBMISSION *)
}.

Definition no_flags : flags := mkF false false false false false false false false false false false false.

Definition getf (k : flag) (f : flags) : bool :=
  match k with
  | DC => f_dc f | DH => f_dh f | DF => f_df f | DD => f_dd f | IGS => f_igs f
  | SPARSE => f_sparse f | FIRST => f_first f | LAST => f_last f | ISFRAG => f_isfrag f
  | FRAGBLK => f_fragblk f | COMP => f_comp f | INTERNAL => f_int f
  end.

Definition setf (k : flag) (v : bool) (f : flags) : flags :=
  match f with
  | mkF dc dh df dd igs sp fi la isf fb co it =>
    match k with
    | DC => mkF v dh df dd igs sp fi la isf fb co it
    | DH => mkF dc v df dd igs sp fi la isf fb co it
    | DF => mkF dc dh v dd igs sp fi la isf fb co it
    | DD => mkF dc dh df v igs sp fi la isf fb co it
    | IGS => mkF dc dh df dd v sp fi la isf fb co it
    | SPARSE => mkF dc dh df dd igs v fi la isf fb co it
    | FIRST => mkF dc dh df dd igs sp v la isf fb co it
    | LAST => mkF dc dh df dd igs sp fi v isf fb co it
    | ISFRAG => mkF dc dh df dd igs sp fi la v fb co it
    | FRAGBLK => mkF dc dh df dd igs sp fi la isf v co it
    | COMP => mkF dc dh df dd igs sp fi la isf fb v it
    | INTERNAL => mkF dc dh df dd igs sp fi la isf fb co v
    end
  end.

Definition flag_const (k : flag) : N :=
  match k with
  | DC => c_SQFS_BLK_DONT_COMPRESS | DH => c_SQFS_BLK_DONT_HASH | DF => c_SQFS_BLK_DONT_FRAGMENT
  | DD => c_SQFS_BLK_DONT_DEDUPLICATE | IGS => c_SQFS_BLK_IGNORE_SPARSE | SPARSE => c_SQFS_BLK_IS_SPARSE
  | FIRST => c_SQFS_BLK_FIRST_BLOCK | LAST => c_SQFS_BLK_LAST_BLOCK | ISFRAG => c_SQFS_BLK_IS_FRAGMENT
  | FRAGBLK => c_SQFS_BLK_FRAGMENT_BLOCK | COMP => c_SQFS_BLK_IS_COMPRESSED | INTERNAL => c_BLK_FLAG_INTERNAL
  end.

Definition all_flags : list flag := [DC; DH; DF; DD; IGS; SPARSE; FIRST; LAST; ISFRAG; FRAGBLK; COMP; INTERNAL].

Definition hasbits (n c : N) : bool := negb (N.land n c =? 0).

(* numeric value of a flag set (what the block writer sees) *)
Definition enc_flags (f : flags) : N :=
  fold_right (fun k a => if getf k f then N.lor (flag_const k) a else a) 0 all_flags.

(* flag word -> record *)
Definition dec_flags (n : N) : flags :=
  mkF (hasbits n (flag_const DC)) (hasbits n (flag_const DH)) (hasbits n (flag_const DF))
      (hasbits n (flag_const DD)) (hasbits n (flag_const IGS)) (hasbits n (flag_const SPARSE))
      (hasbits n (flag_const FIRST)) (hasbits n (flag_const LAST)) (hasbits n (flag_const ISFRAG))
      (hasbits n (flag_const FRAGBLK)) (hasbits n (flag_const COMP)) (hasbits n (flag_const INTERNAL)).

(* ------------------------------------------------------------------ *)
(* blocks  (sqfs_block_t; size = length of data; user pointer not modelled) *)
(* ------------------------------------------------------------------ *)
Record blk := mkB {
  b_ino : N;          (* which file's inode (blk->inode); files are numbered 0,1,2,... *)
  b_seq : N;          (* io_seq_num *)
  b_fl : flags;
  b_ck : N;           (* checksum *)
  b_idx : N;          (* index within the inode / fragment table index *)
  b_data : list N     (* data[0 .. size) *)
}.

Definition with_seq (b : blk) (v : N) := mkB (b_ino b) v (b_fl b) (b_ck b) (b_idx b) (b_data b).
Definition with_fl (b : blk) (v : flags) := mkB (b_ino b) (b_seq b) v (b_ck b) (b_idx b) (b_data b).
Definition with_ck (b : blk) (v : N) := mkB (b_ino b) (b_seq b) (b_fl b) v (b_idx b) (b_data b).
Definition with_idx (b : blk) (v : N) := mkB (b_ino b) (b_seq b) (b_fl b) (b_ck b) v (b_data b).
Definition with_data (b : blk) (v : list N) := mkB (b_ino b) (b_seq b) (b_fl b) (b_ck b) (b_idx b) v.

Definition bhas (k : flag) (b : blk) : bool := getf k (b_fl b).

(* ------------------------------------------------------------------ *)
(* inodes: the fields of sqfs_inode_generic_t the block processor touches *)
(* ------------------------------------------------------------------ *)
Record inode := mkI {
  i_ext : bool;        (* base.type = SQFS_INODE_EXT_FILE (else SQFS_INODE_FILE) *)
  i_size : N;          (* file_size *)
  i_sparse : N;        (* file_ext.sparse (0 while basic) *)
  i_start : N;         (* blocks_start *)
  i_fidx : N;          (* fragment index *)
  i_foff : N;          (* fragment offset *)
  i_blocks : list N    (* extra[0 .. payload_bytes_used/4) *)
}.

Definition U32MAX : N := 4294967295.   (* the literal 0x0FFFFFFFFUL of inode.c *)

(* sqfs_inode_make_extended on a file inode: nlink = 1, xattr = none, sparse = 0 *)
Definition i_make_extended (i : inode) : inode :=
  if i_ext i then i else mkI true (i_size i) 0 (i_start i) (i_fidx i) (i_foff i) (i_blocks i).

(* sqfs_inode_make_basic (xattr index is 0xFFFFFFFF and nlink is 1 here) *)
Definition i_make_basic (i : inode) : inode :=
  if negb (i_ext i) then i
  else if U32MAX <? i_start i then i
  else if U32MAX <? i_size i then i
  else if 0 <? i_sparse i then i
  else mkI false (i_size i) 0 (i_start i) (i_fidx i) (i_foff i) (i_blocks i).

Definition i_set_file_size (i : inode) (sz : N) : inode :=
  if i_ext i then
    let i' := mkI true sz (i_sparse i) (i_start i) (i_fidx i) (i_foff i) (i_blocks i) in
    if sz <? U32MAX then i_make_basic i' else i'
  else if U32MAX <? sz then
    let i' := i_make_extended i in
    mkI true sz (i_sparse i') (i_start i') (i_fidx i') (i_foff i') (i_blocks i')
  else mkI false sz (i_sparse i) (i_start i) (i_fidx i) (i_foff i) (i_blocks i).

Definition i_set_block_start (i : inode) (loc : N) : inode :=
  if i_ext i then
    let i' := mkI true (i_size i) (i_sparse i) loc (i_fidx i) (i_foff i) (i_blocks i) in
    if loc <? U32MAX then i_make_basic i' else i'
  else if U32MAX <? loc then
    let i' := i_make_extended i in
    mkI true (i_size i') (i_sparse i') loc (i_fidx i') (i_foff i') (i_blocks i')
  else mkI false (i_size i) (i_sparse i) loc (i_fidx i) (i_foff i) (i_blocks i).

Definition i_set_frag (i : inode) (idx off : N) : inode :=
  mkI (i_ext i) (i_size i) (i_sparse i) (i_start i) idx off (i_blocks i).

Definition i_add_sparse (i : inode) (n : N) : inode :=
  mkI (i_ext i) (i_size i) (i_sparse i + n) (i_start i) (i_fidx i) (i_foff i) (i_blocks i).

(* extra[index] = v; the array grows as needed (new cells read as 0 in the model; the C code leaves
   them uninitialised until they are written) *)
Fixpoint upd_nth (n : nat) (v : N) (l : list N) : list N :=
  match n, l with
  | O, [] => [v]
  | O, _ :: r => v :: r
  | S n', [] => 0 :: upd_nth n' v []
  | S n', x :: r => x :: upd_nth n' v r
  end.

(* backend.c:set_block_size *)
Definition i_set_block_size (i : inode) (idx v : N) : inode :=
  mkI (i_ext i) (i_size i) (i_sparse i) (i_start i) (i_fidx i) (i_foff i) (upd_nth (N.to_nat idx) v (i_blocks i)).

(* inode after sqfs_block_processor_begin_file *)
Definition new_inode : inode := mkI false 0 0 0 U32MAX U32MAX [].

(* the inode table: the caller's sqfs_inode_generic_t* variables, by file number.  begin_file(k) creates
   inode k (calloc; type FILE; fragment location 0xFFFFFFFF); no block of file k exists before that
   call, so the table is modelled as a total function that starts with a fresh inode everywhere and
   EvBegin leaves it alone. *)
Definition itab := N -> inode.

Definition it_upd (t : itab) (k : N) (f : inode -> inode) : itab :=
  fun k' => if k' =? k then f (t k') else t k'.

(* ------------------------------------------------------------------ *)
(* front end: frontend.c, as a generator of the calls into the back end *)
(* ------------------------------------------------------------------ *)
Inductive ev :=
| EvBegin (ino : N)              (* begin_file: *inode = calloc; type FILE; frag location 0xFFFFFFFF *)
| EvSize (ino : N) (n : N)       (* append: file_size += n *)
| EvNew                          (* append: get_new_block for blk_current (blk_current == NULL before) *)
| EvSubmitCur (b : blk)          (* enqueue_block(proc, proc->blk_current); blk_current = NULL *)
| EvSentinel (b : blk).          (* add_sentinel_block: get_new_block, then enqueue_block of it *)

Record fe := mkFe {
  fe_begin : bool;          (* begin_called *)
  fe_ino : N;               (* proc->inode *)
  fe_flags : flags;         (* proc->blk_flags *)
  fe_index : N;             (* proc->blk_index *)
  fe_cur : option blk       (* proc->blk_current *)
}.

Definition fe_init : fe := mkFe false 0 no_flags 0 None.

Definition fe_with_cur (f : fe) (c : option blk) := mkFe (fe_begin f) (fe_ino f) (fe_flags f) (fe_index f) c.

(* sqfs_block_processor_begin_file; [uflags] is the caller's flag word *)
Definition fe_begin_file (f : fe) (ino : N) (uflags : N) : res (fe * list ev) :=
  if fe_begin f then Err E_SEQUENCE
  else if negb (N.ldiff uflags c_SQFS_BLK_USER_SETTABLE_FLAGS =? 0) then Err E_UNSUPPORTED
  else Ok (mkFe true ino (setf FIRST true (dec_flags uflags)) 0 (fe_cur f), [EvBegin ino]).

(* the while (size > 0) loop of sqfs_block_processor_append *)
Fixpoint fe_append_loop (fuel : nat) (bs : N) (f : fe) (data : list N) : res (fe * list ev) :=
  match fuel with
  | O => Fuel
  | S n =>
    match data with
    | [] => Ok (f, [])
    | _ :: _ =>
      match fe_cur f with
      | None =>
        (* get_new_block; flags = blk_flags; index = blk_index++; blk_flags &= ~FIRST *)
        let nb := mkB (fe_ino f) 0 (fe_flags f) 0 (fe_index f) [] in
        let f' := mkFe (fe_begin f) (fe_ino f) (setf FIRST false (fe_flags f)) (fe_index f + 1) (Some nb) in
        match fe_append_loop n bs f' data with
        | Ok (f'', evs) => Ok (f'', EvNew :: evs)
        | e => e
        end
      | Some cur =>
        let diff := bs - len (b_data cur) in
        if diff =? 0 then
          match fe_append_loop n bs (fe_with_cur f None) data with
          | Ok (f'', evs) => Ok (f'', EvSubmitCur cur :: evs)
          | e => e
          end
        else
          let d := N.to_nat (N.min diff (len data)) in
          fe_append_loop n bs (fe_with_cur f (Some (with_data cur (b_data cur ++ firstn d data)))) (skipn d data)
      end
    end
  end.

Definition fe_append (bs : N) (f : fe) (data : list N) : res (fe * list ev) :=
  if negb (fe_begin f) then Err E_SEQUENCE
  else
    match fe_append_loop (3 * length data + 3) bs f data with
    | Ok (f', evs) =>
      match fe_cur f' with
      | None => Crash     (* proc->blk_current->size with blk_current == NULL (append of 0 bytes) *)
      | Some cur =>
        if len (b_data cur) =? bs
        then Ok (fe_with_cur f' None, EvSize (fe_ino f) (len data) :: evs ++ [EvSubmitCur cur])
        else Ok (f', EvSize (fe_ino f) (len data) :: evs)
      end
    | e => e
    end.

(* add_sentinel_block: memset(blk, 0); inode = proc->inode; flags = blk_flags | LAST *)
Definition sentinel (f : fe) : blk := mkB (fe_ino f) 0 (setf LAST true (fe_flags f)) 0 0 [].

(* sqfs_block_processor_end_file *)
Definition fe_end_file (f : fe) : res (fe * list ev) :=
  if negb (fe_begin f) then Err E_SEQUENCE
  else
    let done := mkFe false 0 no_flags (fe_index f) None in
    match fe_cur f with
    | None =>
      if negb (getf FIRST (fe_flags f)) then Ok (done, [EvSentinel (sentinel f)]) else Ok (done, [])
    | Some cur =>
      if getf DF (fe_flags f) then
        Ok (done, [EvSubmitCur (with_fl cur (setf LAST true (b_fl cur)))])
      else
        let cur' := with_fl cur (setf ISFRAG true (b_fl cur)) in
        if negb (getf FIRST (b_fl cur)) then Ok (done, [EvSentinel (sentinel f); EvSubmitCur cur'])
        else Ok (done, [EvSubmitCur cur'])
    end.

(* one file = begin_file; append for every chunk; end_file *)
Definition file := (N * list (list N))%type.    (* (flag word, chunks handed to append) *)

Fixpoint fe_appends (bs : N) (f : fe) (chunks : list (list N)) : res (fe * list ev) :=
  match chunks with
  | [] => Ok (f, [])
  | c :: r =>
    match fe_append bs f c with
    | Ok (f', e1) => match fe_appends bs f' r with Ok (f'', e2) => Ok (f'', e1 ++ e2) | e => e end
    | e => e
    end
  end.

Definition fe_file (bs : N) (f : fe) (ino : N) (fl : file) : res (fe * list ev) :=
  match fe_begin_file f ino (fst fl) with
  | Ok (f1, e1) =>
    match fe_appends bs f1 (snd fl) with
    | Ok (f2, e2) =>
      match fe_end_file f2 with
      | Ok (f3, e3) => Ok (f3, e1 ++ e2 ++ e3)
      | e => e
      end
    | e => e
    end
  | e => e
  end.

Fixpoint fe_files (bs : N) (f : fe) (ino : N) (fls : list file) : res (fe * list ev) :=
  match fls with
  | [] => Ok (f, [])
  | fl :: r =>
    match fe_file bs f ino fl with
    | Ok (f', e1) => match fe_files bs f' (ino + 1) r with Ok (f'', e2) => Ok (f'', e1 ++ e2) | e => e end
    | e => e
    end
  end.

(* ------------------------------------------------------------------ *)
(* worker callback and back end                                       *)
(* ------------------------------------------------------------------ *)
Section Backend.

(* oracles: no hypotheses about any of them *)
Variable hash : list N -> N.                       (* xxh32 *)
Variable compress : list N -> option (list N).     (* cmp->do_block: Some c = "ret > 0", None = "ret = 0" *)

Variable HT : Type.                                (* fragment hash table with its three byte sources *)
Variable ht_search : HT -> blk -> option (N * N).  (* hash_table_search_pre_hashed: Some (index, offset) *)
Variable ht_insert : HT -> blk -> N * N -> HT.     (* hash_table_insert_pre_hashed *)

Variable BW : Type.                                (* block writer *)
Variable bw_write : BW -> blk -> BW * N.           (* wr->write_data_block: new state, *location *)

Variable P : Type.                                 (* worker pool *)
Variable p_submit : P -> blk -> P.                 (* pool->submit *)
Variable p_dequeue : P -> option (blk * P).        (* pool->dequeue: None = NULL *)

Variable bs : N.     (* max_block_size *)
Variable mb : N.     (* max_backlog after the clamp of sqfs_block_processor_create_ex *)

Definition all_zero (l : list N) : bool := forallb (fun x => x =? 0) l.

(* block_processor.c:process_block *)
Definition process_block (b : blk) : blk :=
  match b_data b with
  | [] => b
  | _ :: _ =>
    (* !(flags & (IGNORE_SPARSE | FRAGMENT_BLOCK)) && is_memory_zero: an assembled fragment block is
       never marked sparse (repo commit "never treat an assembled fragment block as sparse") *)
    if negb (bhas IGS b || bhas FRAGBLK b) && all_zero (b_data b) then with_fl b (setf SPARSE true (b_fl b))
    else
      let b1 := with_ck b (if bhas DH b then 0 else hash (b_data b)) in
      if bhas ISFRAG b || bhas DC b then b1
      else match compress (b_data b) with
           | Some c => with_fl (with_data b1 c) (setf COMP true (b_fl b))
           | None => b1
           end
  end.

Record st := mkSt {
  s_pool : P;
  s_ioq : list blk;             (* io_queue, sorted by io_seq_num *)
  s_ioseq : N;                  (* io_seq_num *)
  s_iodeq : N;                  (* io_deq_seq_num *)
  s_frag : option blk;          (* frag_block *)
  s_cur : bool;                 (* blk_current != NULL *)
  s_backlog : N;
  s_ht : HT;
  s_ftbl : list (N * N);        (* fragment table: (start_offset, size word) *)
  s_ino : itab;
  s_bw : BW;
  s_writes : list (blk * N)     (* log of write_data_block calls with the returned location *)
}.

Definition st_pool s v := mkSt v (s_ioq s) (s_ioseq s) (s_iodeq s) (s_frag s) (s_cur s) (s_backlog s) (s_ht s) (s_ftbl s) (s_ino s) (s_bw s) (s_writes s).
Definition st_ioq s v := mkSt (s_pool s) v (s_ioseq s) (s_iodeq s) (s_frag s) (s_cur s) (s_backlog s) (s_ht s) (s_ftbl s) (s_ino s) (s_bw s) (s_writes s).
Definition st_ioseq s v := mkSt (s_pool s) (s_ioq s) v (s_iodeq s) (s_frag s) (s_cur s) (s_backlog s) (s_ht s) (s_ftbl s) (s_ino s) (s_bw s) (s_writes s).
Definition st_iodeq s v := mkSt (s_pool s) (s_ioq s) (s_ioseq s) v (s_frag s) (s_cur s) (s_backlog s) (s_ht s) (s_ftbl s) (s_ino s) (s_bw s) (s_writes s).
Definition st_frag s v := mkSt (s_pool s) (s_ioq s) (s_ioseq s) (s_iodeq s) v (s_cur s) (s_backlog s) (s_ht s) (s_ftbl s) (s_ino s) (s_bw s) (s_writes s).
Definition st_cur s v := mkSt (s_pool s) (s_ioq s) (s_ioseq s) (s_iodeq s) (s_frag s) v (s_backlog s) (s_ht s) (s_ftbl s) (s_ino s) (s_bw s) (s_writes s).
Definition st_backlog s v := mkSt (s_pool s) (s_ioq s) (s_ioseq s) (s_iodeq s) (s_frag s) (s_cur s) v (s_ht s) (s_ftbl s) (s_ino s) (s_bw s) (s_writes s).
Definition st_ht s v := mkSt (s_pool s) (s_ioq s) (s_ioseq s) (s_iodeq s) (s_frag s) (s_cur s) (s_backlog s) v (s_ftbl s) (s_ino s) (s_bw s) (s_writes s).
Definition st_ftbl s v := mkSt (s_pool s) (s_ioq s) (s_ioseq s) (s_iodeq s) (s_frag s) (s_cur s) (s_backlog s) (s_ht s) v (s_ino s) (s_bw s) (s_writes s).
Definition st_ino s v := mkSt (s_pool s) (s_ioq s) (s_ioseq s) (s_iodeq s) (s_frag s) (s_cur s) (s_backlog s) (s_ht s) (s_ftbl s) v (s_bw s) (s_writes s).
Definition st_bw s v w := mkSt (s_pool s) (s_ioq s) (s_ioseq s) (s_iodeq s) (s_frag s) (s_cur s) (s_backlog s) (s_ht s) (s_ftbl s) (s_ino s) v w.

Definition init_st (p0 : P) (ht0 : HT) (bw0 : BW) : st :=
  mkSt p0 [] 0 0 None false 0 ht0 [] (fun _ => new_inode) bw0 [].

(* release_old_block *)
Definition release (s : st) : st := st_backlog s (s_backlog s - 1).

(* enqueue_block: pool->submit.  (The copy kept in fblk_in_flight is part of the hash table oracle.) *)
Definition enqueue (s : st) (b : blk) : st := st_pool s (p_submit (s_pool s) b).

(* on-disk size word *)
Definition size_word (b : blk) : N := if bhas COMP b then len (b_data b) else len (b_data b) + 16777216.

(* sqfs_frag_table_set *)
Fixpoint ftbl_set (t : list (N * N)) (n : nat) (v : N * N) : list (N * N) :=
  match t, n with
  | [], _ => []
  | _ :: r, O => v :: r
  | x :: r, S n' => x :: ftbl_set r n' v
  end.

(* backend.c:process_completed_block *)
Definition pcb (s : st) (b : blk) : st :=
  let '(bw', loc) := bw_write (s_bw s) b in
  let s := st_bw s bw' (s_writes s ++ [(b, loc)]) in
  let s :=
    if bhas SPARSE b then
      st_ino s (it_upd (s_ino s) (b_ino b)
                 (fun i => i_set_block_size (i_add_sparse (i_make_extended i) (len (b_data b))) (b_idx b) 0))
    else if negb (len (b_data b) =? 0) then
      if bhas FRAGBLK b then st_ftbl s (ftbl_set (s_ftbl s) (N.to_nat (b_idx b)) (loc, size_word b))
      else st_ino s (it_upd (s_ino s) (b_ino b) (fun i => i_set_block_size i (b_idx b) (size_word b)))
    else s in
  let s :=
    if bhas LAST b then st_ino s (it_upd (s_ino s) (b_ino b) (fun i => i_set_block_start i loc)) else s in
  release s.

(* backend.c:process_completed_fragment *)
Definition pcf (s : st) (frag : blk) : st :=
  if bhas SPARSE frag then
    release (st_ino s (it_upd (s_ino s) (b_ino frag)
               (fun i => i_add_sparse (i_set_block_size (i_make_extended i) (b_idx frag) 0) (len (b_data frag)))))
  else
    match (if bhas DD frag then None else ht_search (s_ht s) frag) with
    | Some (idx, off) =>
      release (st_ino s (it_upd (s_ino s) (b_ino frag) (fun i => i_set_frag i idx off)))
    | None =>
      (* fragment block overflow: the full block gets its I/O sequence number now *)
      let s :=
        match s_frag s with
        | Some fb =>
          if bs <? len (b_data fb) + len (b_data frag) then
            st_frag (enqueue (st_ioseq s (s_ioseq s + 1)) (with_seq fb (s_ioseq s))) None
          else s
        | None => s
        end in
      match s_frag s with
      | None =>
        let index := len (s_ftbl s) in                       (* sqfs_frag_table_append(tbl, 0, 0, &index) *)
        let s := st_ftbl s (s_ftbl s ++ [(0, 0)]) in
        let fb := with_fl (with_idx frag index)
                    (setf FRAGBLK true (setf DC (bhas DC frag) no_flags)) in   (* flags &= DONT_COMPRESS; |= FRAGMENT_BLOCK *)
        let s := st_frag s (Some fb) in
        let s := st_ht s (ht_insert (s_ht s) frag (index, 0)) in
        st_ino s (it_upd (s_ino s) (b_ino frag) (fun i => i_set_frag i index 0))
      | Some fb =>
        let index := b_idx fb in
        let offset := len (b_data fb) in
        let fb' := with_fl (with_data fb (b_data fb ++ b_data frag))
                     (setf DC (bhas DC fb || bhas DC frag) (b_fl fb)) in
        let s := st_frag s (Some fb') in
        let s := st_ht s (ht_insert (s_ht s) frag (index, offset)) in
        release (st_ino s (it_upd (s_ino s) (b_ino frag) (fun i => i_set_frag i index offset)))
      end
    end.

(* backend.c:store_io_block *)
Fixpoint store_io (q : list blk) (b : blk) : list blk :=
  match q with
  | [] => [b]
  | x :: r => if b_seq x <? b_seq b then x :: store_io r b else b :: q
  end.

(* the inner while loop of dequeue_block *)
Fixpoint flush_ioq (q : list blk) (s : st) : st :=
  match q with
  | [] => st_ioq s []
  | e :: r =>
    if b_seq e =? s_iodeq s
    then flush_ioq r (pcb (st_iodeq (st_ioq s r) (s_iodeq s + 1)) e)
    else st_ioq s q
  end.

Definition isSome {A} (o : option A) : bool := match o with Some _ => true | None => false end.

(* the early-out tests shared by dequeue_block and sync *)
Definition nothing_in_flight (s : st) : bool :=
  ((s_backlog s =? 1) && (isSome (s_frag s) || s_cur s)) ||
  ((s_backlog s =? 2) && isSome (s_frag s) && s_cur s).

(* the do { } while (backlog >= backlog_old) loop of dequeue_block *)
Fixpoint dq_loop (fuel : nat) (old : N) (s : st) : res st :=
  match fuel with
  | O => Fuel
  | S n =>
    let s := flush_ioq (s_ioq s) s in
    if s_backlog s <? old then Ok s
    else if nothing_in_flight s then Ok s
    else
      match p_dequeue (s_pool s) with
      | None => Err E_INTERNAL        (* pool->dequeue returned NULL with status 0 *)
      | Some (b, p') =>
        let s := st_pool s p' in
        let s :=
          if bhas ISFRAG b then pcf s b
          else
            if negb (bhas FRAGBLK b) || bhas INTERNAL b
            then st_ioq (st_ioseq s (s_ioseq s + 1)) (store_io (s_ioq s) (with_seq b (s_ioseq s)))
            else st_ioq s (store_io (s_ioq s) b) in
        if old <=? s_backlog s then dq_loop n old s else Ok s
      end
  end.

(* enough for every reachable state (BpProofs.v: dq_loop never returns Fuel) *)
Definition dq_fuel (s : st) : nat := 2 * N.to_nat (s_backlog s) + 2.

Definition dequeue_block (s : st) : res st := dq_loop (dq_fuel s) (s_backlog s) s.

(* frontend.c:get_new_block (the allocation itself cannot fail in the model) *)
Fixpoint gnb_loop (fuel : nat) (s : st) : res st :=
  match fuel with
  | O => Fuel
  | S n =>
    if mb <=? s_backlog s
    then bind (dequeue_block s) (gnb_loop n)
    else Ok (st_backlog s (s_backlog s + 1))
  end.

Definition get_new_block (s : st) : res st := gnb_loop (N.to_nat (s_backlog s) + 2) s.

(* block_processor.c:sqfs_block_processor_sync *)
Fixpoint sync_loop (fuel : nat) (s : st) : res st :=
  match fuel with
  | O => Fuel
  | S n =>
    if s_backlog s =? 0 then Ok s
    else if nothing_in_flight s then Ok s
    else bind (dequeue_block s) (sync_loop n)
  end.

Definition sync (s : st) : res st := sync_loop (N.to_nat (s_backlog s) + 2) s.

(* block_processor.c:sqfs_block_processor_finish *)
Definition finish (s : st) : res st :=
  bind (sync s) (fun s =>
    match s_frag s with
    | Some fb =>
      sync (enqueue (st_ioseq (st_frag s None) (s_ioseq s + 1)) (with_seq fb (s_ioseq s)))
    | None => Ok s
    end).

(* execution of one front-end call by the rest of the processor *)
Definition be_event (s : st) (e : ev) : res st :=
  match e with
  | EvBegin ino => Ok s      (* inode [ino] is fresh: see itab *)
  | EvSize ino n => Ok (st_ino s (it_upd (s_ino s) ino (fun i => i_set_file_size i (i_size i + n))))
  | EvNew => bind (get_new_block s) (fun s => Ok (st_cur s true))
  | EvSubmitCur b => Ok (st_cur (enqueue s b) false)
  | EvSentinel b => bind (get_new_block s) (fun s => Ok (enqueue s b))
  end.

Fixpoint be_events (s : st) (l : list ev) : res st :=
  match l with
  | [] => Ok s
  | e :: r => bind (be_event s e) (fun s => be_events s r)
  end.

(* a complete run: every file through begin/append/end, then finish *)
Definition run (p0 : P) (ht0 : HT) (bw0 : BW) (files : list file) : res st :=
  match fe_files bs fe_init 0 files with
  | Ok (_, evs) => bind (be_events (init_st p0 ht0 bw0) evs) finish
  | Err e => Err e
  | Crash => Crash
  | Fuel => Fuel
  end.

End Backend.

(* the clamp of sqfs_block_processor_create_ex *)
Definition clamp_backlog (q : N) : N := if q <? c_BP_MIN_BACKLOG then c_BP_MIN_BACKLOG else q.

(* ------------------------------------------------------------------ *)
(* the serial pool (lib/util/src/threadpool_serial.c) = the FIFO specification of every pool *)
(* ------------------------------------------------------------------ *)
Section SerialPool.
Variable work : blk -> blk.     (* the worker callback *)
Definition sp_submit (q : list blk) (b : blk) : list blk := q ++ [b].
Definition sp_dequeue (q : list blk) : option (blk * list blk) :=
  match q with [] => None | b :: r => Some (work b, r) end.
End SerialPool.
