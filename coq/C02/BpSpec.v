(* C02 — the specification the block processor is proved against.

   The front end turns the input (list of files = flag word + chunks handed to append) into a list
   of calls [ev]; the blocks among them, in order, are the "D-stream".  The specification consumes the
   D-stream strictly in order, with no queue, no backlog and no pool: every block is processed
   (process_block) the moment it is submitted; a data block is appended to the output; a tail end is
   merged into the fragment block, and when that overflows the full fragment block is processed and
   appended to the output right there; [spec_fin] appends the last fragment block.

   The output list [sp_out] is the sequence of blocks handed to the block writer; the element at
   position n carries I/O sequence number n.  Nothing here depends on max_backlog, on the pool or on a
   schedule: it is a function of the input (and of the oracles) alone. *)
From Coq Require Import List NArith ZArith Bool.
From SqfsV Require Import C02.GenBlk C02.BpModel.
Import ListNotations.
Local Open Scope N_scope.

(* blocks submitted by the front end, in order *)
Fixpoint dblocks (l : list ev) : list blk :=
  match l with
  | [] => []
  | EvSubmitCur b :: r => b :: dblocks r
  | EvSentinel b :: r => b :: dblocks r
  | _ :: r => dblocks r
  end.

Section Spec.
Variable hash : list N -> N.
Variable compress : list N -> option (list N).
Variable HT : Type.
Variable ht_search : HT -> blk -> option (N * N).
Variable ht_insert : HT -> blk -> N * N -> HT.
Variable bs : N.

Notation pblock := (process_block hash compress).

(* what the specification remembers besides its output: the blocks consumed so far, the fragment
   references handed out (inode, index, offset), the sparse tail ends (inode, block index) and their
   sizes (inode, number of bytes) *)
Record obslog := mkLog {
  ol_src : list blk;
  ol_glog : list (N * N * N);
  ol_sflog : list (N * N);
  ol_splog : list (N * N)
}.

Record sp := mkSp {
  sp_frag : option blk;     (* the fragment block being filled *)
  sp_ht : HT;
  sp_nft : N;               (* fragment table entries allocated so far *)
  sp_out : list blk;        (* blocks in I/O order *)
  sp_log : obslog
}.

Definition sp_init (ht0 : HT) : sp := mkSp None ht0 0 [] (mkLog [] [] [] []).

Definition log_g (l : obslog) (e : N * N * N) : obslog := mkLog (ol_src l) (ol_glog l ++ [e]) (ol_sflog l) (ol_splog l).
Definition log_sf (l : obslog) (e : N * N) (n : N) : obslog :=
  mkLog (ol_src l) (ol_glog l) (ol_sflog l ++ [e]) (ol_splog l ++ [(fst e, n)]).
Definition log_src (l : obslog) (d : blk) : obslog := mkLog (ol_src l ++ [d]) (ol_glog l) (ol_sflog l) (ol_splog l).

(* a processed tail end arrives *)
Definition spec_frag (q : sp) (frag : blk) : sp :=
  if bhas SPARSE frag then
    mkSp (sp_frag q) (sp_ht q) (sp_nft q) (sp_out q) (log_sf (sp_log q) (b_ino frag, b_idx frag) (len (b_data frag)))
  else
    match (if bhas DD frag then None else ht_search (sp_ht q) frag) with
    | Some (idx, off) =>
      mkSp (sp_frag q) (sp_ht q) (sp_nft q) (sp_out q) (log_g (sp_log q) (b_ino frag, idx, off))
    | None =>
      let q1 :=
        match sp_frag q with
        | Some fb =>
          if bs <? len (b_data fb) + len (b_data frag)
          then mkSp None (sp_ht q) (sp_nft q) (sp_out q ++ [pblock (with_seq fb (len (sp_out q)))]) (sp_log q)
          else q
        | None => q
        end in
      match sp_frag q1 with
      | None =>
        let fb := with_fl (with_idx frag (sp_nft q1)) (setf FRAGBLK true (setf DC (bhas DC frag) no_flags)) in
        mkSp (Some fb) (ht_insert (sp_ht q1) frag (sp_nft q1, 0)) (sp_nft q1 + 1) (sp_out q1)
             (log_g (sp_log q1) (b_ino frag, sp_nft q1, 0))
      | Some fb =>
        let fb' := with_fl (with_data fb (b_data fb ++ b_data frag)) (setf DC (bhas DC fb || bhas DC frag) (b_fl fb)) in
        mkSp (Some fb') (ht_insert (sp_ht q1) frag (b_idx fb, len (b_data fb))) (sp_nft q1) (sp_out q1)
             (log_g (sp_log q1) (b_ino frag, b_idx fb, len (b_data fb)))
      end
    end.

(* a block is submitted *)
Definition spec_step (q : sp) (d : blk) : sp :=
  let d' := pblock d in
  let q := mkSp (sp_frag q) (sp_ht q) (sp_nft q) (sp_out q) (log_src (sp_log q) d) in
  if bhas ISFRAG d' then spec_frag q d'
  else mkSp (sp_frag q) (sp_ht q) (sp_nft q) (sp_out q ++ [with_seq d' (len (sp_out q))]) (sp_log q).

Definition spec_run (q : sp) (ds : list blk) : sp := fold_left spec_step ds q.

(* finish: the last fragment block *)
Definition spec_fin (q : sp) : sp :=
  match sp_frag q with
  | Some fb => mkSp None (sp_ht q) (sp_nft q) (sp_out q ++ [pblock (with_seq fb (len (sp_out q)))]) (sp_log q)
  | None => q
  end.

Definition spec_final (ht0 : HT) (files : list file) : sp :=
  match fe_files bs fe_init 0 files with
  | Ok (_, evs) => spec_fin (spec_run (sp_init ht0) (dblocks evs))
  | _ => sp_init ht0
  end.

(* the sequence of blocks written for a list of files *)
Definition spec_blocks (ht0 : HT) (files : list file) : list blk := sp_out (spec_final ht0 files).

(* what the block writer makes of a sequence of blocks *)
Section Writer.
Variable BW : Type.
Variable bw_write : BW -> blk -> BW * N.

Fixpoint bw_run (w : BW) (acc : list (blk * N)) (l : list blk) : BW * list (blk * N) :=
  match l with
  | [] => (w, acc)
  | b :: r => let '(w', loc) := bw_write w b in bw_run w' (acc ++ [(b, loc)]) r
  end.
End Writer.

End Spec.

(* ------------------------------------------------------------------ *)
(* what the inodes and the fragment table look like, as functions of the specification's logs and the
   write log alone (canonical order: sparse tail ends first, then the written blocks in I/O order) *)
(* ------------------------------------------------------------------ *)
Definition fref_of (glog : list (N * N * N)) (k : N) : N * N :=
  fold_left (fun acc e => if k =? fst (fst e) then (snd (fst e), snd e) else acc) glog (U32MAX, U32MAX).

Definition sf_blk (k : N) (l : list N) (e : N * N) : list N :=
  if k =? fst e then upd_nth (N.to_nat (snd e)) 0 l else l.

(* the effect of process_completed_block on extra[] of inode k *)
Definition flush_blk (k : N) (l : list N) (b : blk) : list N :=
  if k =? b_ino b then
    if bhas SPARSE b then upd_nth (N.to_nat (b_idx b)) 0 l
    else if negb (len (b_data b) =? 0) then
      if bhas FRAGBLK b then l else upd_nth (N.to_nat (b_idx b)) (size_word b) l
    else l
  else l.

Definition blocks_canon (sflog : list (N * N)) (ws : list blk) (k : N) : list N :=
  fold_left (flush_blk k) ws (fold_left (sf_blk k) sflog []).

(* the effect of process_completed_block on the fragment table *)
Definition ftbl_apply (t : list (N * N)) (w : blk * N) : list (N * N) :=
  if bhas SPARSE (fst w) then t
  else if negb (len (b_data (fst w)) =? 0) then
    if bhas FRAGBLK (fst w) then ftbl_set t (N.to_nat (b_idx (fst w))) (snd w, size_word (fst w)) else t
  else t.

Definition ftbl_canon (n : N) (ws : list (blk * N)) : list (N * N) :=
  fold_left ftbl_apply ws (repeat (0, 0) (N.to_nat n)).

(* ------------------------------------------------------------------ *)
(* the scalar fields of an inode, again as functions of the logs and the write log *)
(* ------------------------------------------------------------------ *)
(* file_ext.sparse: bytes of the sparse tail ends plus bytes of the sparse blocks written *)
Definition sp_add (k : N) (a : N) (e : N * N) : N := if k =? fst e then a + snd e else a.
Definition sp_blk (k : N) (a : N) (b : blk) : N :=
  if (k =? b_ino b) && bhas SPARSE b then a + len (b_data b) else a.

Definition sparse_canon (splog : list (N * N)) (ws : list blk) (k : N) : N :=
  fold_left (sp_blk k) ws (fold_left (sp_add k) splog 0).

(* blocks_start: the location returned for the LAST block of the file (0 until then) *)
Definition st_blk (k : N) (a : N) (w : blk * N) : N :=
  if (k =? b_ino (fst w)) && bhas LAST (fst w) then snd w else a.

Definition start_canon (ws : list (blk * N)) (k : N) : N := fold_left (st_blk k) ws 0.

(* file_size: the bytes handed to append *)
Definition sz_ev (k : N) (a : N) (e : ev) : N :=
  match e with EvSize i n => if k =? i then a + n else a | _ => a end.

Definition size_canon (evs : list ev) (k : N) : N := fold_left (sz_ev k) evs 0.

(* base.type: extended exactly if one of the three fields needs it (inode.c: make_basic refuses) *)
Definition ext_canon (size sparse start : N) : bool :=
  (0 <? sparse) || (U32MAX <? size) || (U32MAX <? start).

(* the inode of file k *)
Definition ino_canon (l : obslog) (ws : list (blk * N)) (evs : list ev) (k : N) : inode :=
  let sz := size_canon evs k in
  let spv := sparse_canon (ol_splog l) (map fst ws) k in
  let stv := start_canon ws k in
  mkI (ext_canon sz spv stv) sz spv stv (fst (fref_of (ol_glog l) k)) (snd (fref_of (ol_glog l) k))
      (blocks_canon (ol_sflog l) (map fst ws) k).

(* number of LAST blocks of inode k in a list *)
Definition isL (k : N) (b : blk) : bool := (k =? b_ino b) && bhas LAST b.
Definition cntL (k : N) (l : list blk) : nat := length (filter (isL k) l).

Section SpecObs.
Variable hash : list N -> N.
Variable compress : list N -> option (list N).
Variable HT : Type.
Variable ht_search : HT -> blk -> option (N * N).
Variable ht_insert : HT -> blk -> N * N -> HT.
Variable BW : Type.
Variable bw_write : BW -> blk -> BW * N.
Variable bs : N.

(* every inode and the fragment table after the run, computed from the file list alone *)
Definition spec_inodes (ht0 : HT) (bw0 : BW) (files : list file) (k : N) : inode :=
  match fe_files bs fe_init 0 files with
  | Ok (_, evs) =>
    let q := spec_final hash compress HT ht_search ht_insert bs ht0 files in
    ino_canon (sp_log HT q) (snd (bw_run BW bw_write bw0 [] (sp_out HT q))) evs k
  | _ => new_inode
  end.

Definition spec_ftbl (ht0 : HT) (bw0 : BW) (files : list file) : list (N * N) :=
  let q := spec_final hash compress HT ht_search ht_insert bs ht0 files in
  ftbl_canon (sp_nft HT q) (snd (bw_run BW bw_write bw0 [] (sp_out HT q))).
End SpecObs.
