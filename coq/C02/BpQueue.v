(* C02 — the queue invariant: what the pool, the I/O queue, the two I/O sequence counters and the write
   log have to do with the output list of the specification.  Pure list reasoning; the state machine
   itself is in BpProofs.v. *)
From Coq Require Import List NArith ZArith Bool Lia Sorted.
From SqfsV Require Import C02.GenBlk C02.BpModel C02.BpSpec C02.BpLemmas.
Import ListNotations.
Local Open Scope N_scope.

Definition isFB (x : blk) : bool := bhas FRAGBLK x.
Definition notFB (x : blk) : bool := negb (bhas FRAGBLK x).

Lemma NoDup_snoc {A} (l : list A) a : NoDup l -> ~ In a l -> NoDup (l ++ [a]).
Proof.
  induction l as [|x l IH]; intros Hn Hi; cbn.
  - constructor; [intros []|constructor].
  - inversion Hn; subst. constructor.
    + rewrite in_app_iff. cbn. intros [H|[H|[]]]; [contradiction|]. subst. apply Hi. left; reflexivity.
    + apply IH; [assumption|]. intro H. apply Hi. right; exact H.
Qed.

Section Queue.
Variable hash : list N -> N.
Variable compress : list N -> option (list N).
Variable BW : Type.
Variable bw_write : BW -> blk -> BW * N.
Variable bw0 : BW.
Notation pblock := (process_block hash compress).

(* a fragment block waiting in the pool: it already owns position b_seq of the output *)
Definition fb_ok (out : list blk) (deq : N) (x : blk) : Prop :=
  nth_error out (N.to_nat (b_seq x)) = Some (pblock x) /\
  bhas INTERNAL x = false /\ bhas ISFRAG x = false /\ deq <= b_seq x.

(* a block waiting in the I/O queue *)
Definition io_ok (out : list blk) (deq : N) (e : blk) : Prop :=
  nth_error out (N.to_nat (b_seq e)) = Some e /\ deq <= b_seq e.

Record InvQ (Ap ioq : list blk) (nseq deq : N) (w : BW * list (blk * N)) (out : list blk) : Prop := mkQ {
  Q_seq : nseq = len out;
  Q_fbs : Forall (fb_ok out deq) (filter isFB Ap);
  Q_fbnd : NoDup (map b_seq (filter isFB Ap));
  Q_ioq : Forall (io_ok out deq) ioq;
  Q_sorted : StronglySorted seq_lt ioq;
  Q_cross : forall e x, In e ioq -> In x (filter isFB Ap) -> b_seq e <> b_seq x;
  Q_count : deq + len ioq + len (filter isFB Ap) = nseq;
  Q_wr : w = bw_run BW bw_write bw0 [] (firstn (N.to_nat deq) out)
}.

Lemma fb_ok_grow out out' deq x : fb_ok out deq x -> fb_ok (out ++ out') deq x.
Proof. intros (A & B & C & D). repeat split; try assumption. apply nth_error_grow; exact A. Qed.

Lemma io_ok_grow out out' deq x : io_ok out deq x -> io_ok (out ++ out') deq x.
Proof. intros (A & B). split; [apply nth_error_grow; exact A|exact B]. Qed.

Lemma fb_ok_lt out deq x : fb_ok out deq x -> b_seq x < len out.
Proof. intros (A & _). eapply nth_error_lt; exact A. Qed.

Lemma io_ok_lt out deq x : io_ok out deq x -> b_seq x < len out.
Proof. intros (A & _). eapply nth_error_lt; exact A. Qed.

Lemma InvQ_init : InvQ [] [] 0 0 (bw0, []) [].
Proof.
  constructor; cbn; try constructor; try reflexivity.
  intros ? ? [].
Qed.

(* the front end submits a block *)
Lemma Q_submit_D Ap ioq n d w out b :
  InvQ Ap ioq n d w out -> bhas FRAGBLK b = false -> InvQ (Ap ++ [b]) ioq n d w out.
Proof.
  intros [] Hb.
  assert (E : filter isFB (Ap ++ [b]) = filter isFB Ap).
  { assert (Hb' : isFB b = false) by exact Hb.
    rewrite filter_app. cbn [filter]. rewrite Hb'. apply app_nil_r. }
  constructor; rewrite ?E; assumption.
Qed.

(* a full fragment block is handed to the pool: it takes the next output position now *)
Lemma Q_submit_FB Ap ioq n d w out fb :
  InvQ Ap ioq n d w out ->
  bhas FRAGBLK fb = true -> bhas INTERNAL fb = false -> bhas ISFRAG fb = false ->
  InvQ (Ap ++ [with_seq fb n]) ioq (n + 1) d w (out ++ [pblock (with_seq fb n)]).
Proof.
  intros [] H1 H2 H3.
  assert (E : filter isFB (Ap ++ [with_seq fb n]) = filter isFB Ap ++ [with_seq fb n]).
  { assert (Hb' : isFB (with_seq fb n) = true) by exact H1.
    rewrite filter_app. cbn [filter]. rewrite Hb'. reflexivity. }
  assert (Hd : d <= n) by lia.
  constructor; rewrite ?E.
  - rewrite len_app, len_cons, len_nil. lia.
  - apply Forall_app. split.
    + eapply Forall_impl; [|exact Q_fbs0]. intros; apply fb_ok_grow; assumption.
    + constructor; [|constructor]. unfold fb_ok. cbn [b_seq with_seq]. subst n.
      split; [apply nth_error_len|]. unfold bhas in *. cbn. auto.
  - rewrite map_app. cbn [map b_seq with_seq]. apply NoDup_snoc; [assumption|].
    intro Hin. apply in_map_iff in Hin. destruct Hin as (x & Hx1 & Hx2).
    rewrite Forall_forall in Q_fbs0. apply Q_fbs0 in Hx2. apply fb_ok_lt in Hx2. lia.
  - eapply Forall_impl; [|exact Q_ioq0]. intros; apply io_ok_grow; assumption.
  - assumption.
  - intros e x He Hx. apply in_app_iff in Hx. destruct Hx as [Hx|[<-|[]]].
    + apply Q_cross0; assumption.
    + cbn. rewrite Forall_forall in Q_ioq0. apply Q_ioq0, io_ok_lt in He. lia.
  - rewrite len_app, len_cons, len_nil. lia.
  - rewrite firstn_grow; [assumption|]. unfold len in *. lia.
Qed.

(* the head of the pool is a data block: it gets the next output position and goes to the I/O queue *)
Lemma Q_pull_D x rest ioq n d w out :
  InvQ (x :: rest) ioq n d w out -> bhas FRAGBLK x = false ->
  InvQ rest (store_io ioq (with_seq (pblock x) n)) (n + 1) d w (out ++ [with_seq (pblock x) n]).
Proof.
  intros [] Hx.
  assert (E : filter isFB (x :: rest) = filter isFB rest).
  { assert (Hb' : isFB x = false) by exact Hx. cbn [filter]. rewrite Hb'. reflexivity. }
  rewrite E in *.
  assert (Hd : d <= n) by lia.
  constructor.
  - rewrite len_app, len_cons, len_nil. lia.
  - eapply Forall_impl; [|exact Q_fbs0]. intros; apply fb_ok_grow; assumption.
  - assumption.
  - apply store_io_Forall.
    + unfold io_ok. cbn [b_seq with_seq]. subst n. split; [apply nth_error_len|assumption].
    + eapply Forall_impl; [|exact Q_ioq0]. intros; apply io_ok_grow; assumption.
  - apply store_io_sorted; [assumption|]. intros e He. cbn.
    rewrite Forall_forall in Q_ioq0. apply Q_ioq0, io_ok_lt in He. lia.
  - intros e y He Hy. apply store_io_in in He. destruct He as [-> |He].
    + cbn. rewrite Forall_forall in Q_fbs0. apply Q_fbs0, fb_ok_lt in Hy. lia.
    + apply Q_cross0; assumption.
  - rewrite store_io_len. lia.
  - rewrite firstn_grow; [assumption|]. unfold len in *. lia.
Qed.

(* the head of the pool is a tail end: it is not written itself *)
Lemma Q_drop_D x rest ioq n d w out :
  InvQ (x :: rest) ioq n d w out -> bhas FRAGBLK x = false -> InvQ rest ioq n d w out.
Proof.
  intros [] Hx.
  assert (E : filter isFB (x :: rest) = filter isFB rest).
  { assert (Hb' : isFB x = false) by exact Hx. cbn [filter]. rewrite Hb'. reflexivity. }
  rewrite E in *. constructor; assumption.
Qed.

(* the head of the pool is a fragment block: it goes to the I/O queue with the number it already has *)
Lemma Q_pull_FB x rest ioq n d w out :
  InvQ (x :: rest) ioq n d w out -> bhas FRAGBLK x = true ->
  InvQ rest (store_io ioq (pblock x)) n d w out.
Proof.
  intros [] Hx.
  assert (E : filter isFB (x :: rest) = x :: filter isFB rest).
  { assert (Hb' : isFB x = true) by exact Hx. cbn [filter]. rewrite Hb'. reflexivity. }
  rewrite E in *. cbn [map] in Q_fbnd0.
  inversion Q_fbs0 as [|? ? (F1 & F2 & F3 & F4) Hfbs]; subst.
  inversion Q_fbnd0 as [|? ? Hni Hnd]; subst.
  constructor.
  - reflexivity.
  - assumption.
  - assumption.
  - apply store_io_Forall; [|assumption]. unfold io_ok. rewrite pb_seq. split; assumption.
  - apply store_io_sorted; [assumption|]. intros e He. rewrite pb_seq. apply Q_cross0; [assumption|left; reflexivity].
  - intros e y He Hy. apply store_io_in in He. destruct He as [-> |He].
    + rewrite pb_seq. intro Heq. apply Hni. apply in_map_iff. exists y. split; [symmetry; assumption|assumption].
    + apply Q_cross0; [assumption|right; assumption].
  - rewrite store_io_len. rewrite len_cons in Q_count0. lia.
  - first [assumption|reflexivity].
Qed.

(* the head of the I/O queue carries the next number: it is written *)
Lemma Q_flush Ap e r n d bw wr out bw' loc :
  InvQ Ap (e :: r) n d (bw, wr) out -> b_seq e = d -> bw_write bw e = (bw', loc) ->
  InvQ Ap r n (d + 1) (bw', wr ++ [(e, loc)]) out.
Proof.
  intros [] He Hw.
  inversion Q_ioq0 as [|? ? (E1 & E2) Hio]; subst.
  inversion Q_sorted0 as [|? ? Hs Hall]; subst.
  constructor.
  - reflexivity.
  - apply Forall_forall. intros x Hx. pose proof Hx as Hx'.
    rewrite Forall_forall in Q_fbs0. apply Q_fbs0 in Hx. destruct Hx as (A & B & C & D).
    repeat split; try assumption.
    specialize (Q_cross0 e x (or_introl eq_refl) Hx'). lia.
  - assumption.
  - apply Forall_forall. intros x Hx. rewrite Forall_forall in Hio, Hall.
    destruct (Hio x Hx) as (A & B). specialize (Hall x Hx). unfold seq_lt in Hall. split; [assumption|lia].
  - assumption.
  - intros x y Hx Hy. apply Q_cross0; [right; assumption|assumption].
  - rewrite len_cons in Q_count0. lia.
  - replace (N.to_nat (b_seq e + 1)) with (S (N.to_nat (b_seq e))) by lia.
    rewrite (firstn_succ_nth _ _ _ E1), bw_run_snoc, <- Q_wr0, Hw. reflexivity.
Qed.

(* with no fragment block pending in the pool the head of the I/O queue is always writable *)
Lemma Q_progress Ap e r n d w out :
  InvQ Ap (e :: r) n d w out -> filter isFB Ap = [] -> b_seq e = d.
Proof.
  intros [] Hf. rewrite Hf, len_nil in Q_count0.
  apply (sorted_full_head e r d n); [assumption| |lia].
  eapply Forall_impl; [|exact Q_ioq0]. intros x Hx. split; [apply Hx|]. subst n. eapply io_ok_lt; exact Hx.
Qed.

(* everything written *)
Lemma Q_done n d w out : InvQ [] [] n d w out -> w = bw_run BW bw_write bw0 [] out.
Proof.
  intros []. cbn [filter] in Q_count0. rewrite !len_nil in Q_count0.
  rewrite Q_wr0. f_equal. apply firstn_all2. unfold len in *. lia.
Qed.

End Queue.
