(* C02 — concrete instances of the oracles of BpModel.v used by the correspondence check:
   the toy run-length compressor (identical to props/C02/h_bp.c), the fragment hash table by content,
   a model of lib/sqfs/src/block_writer.c over an in-memory file, the serial pool.
   Nothing is proved about these here: every theorem of Properties_C02.v holds for ALL instances. *)
From Coq Require Import List NArith ZArith Bool.
From SqfsV Require Import C02.GenBlk C02.BpModel.
Import ListNotations.
Local Open Scope N_scope.

(* ---------------- toy compressor ---------------- *)
(* a block that starts with a run of n >= 5 equal bytes x becomes [x; n as le24] ++ rest *)
Fixpoint run_len (x : N) (l : list N) : nat :=
  match l with
  | y :: r => if y =? x then S (run_len x r) else O
  | [] => O
  end.

Definition toy_compress (l : list N) : option (list N) :=
  match l with
  | [] => None
  | x :: _ =>
    let n := run_len x l in
    if (5 <=? n)%nat
    then let k := N.of_nat n in
         Some (x :: k mod 256 :: (k / 256) mod 256 :: (k / 65536) mod 256 :: skipn n l)
    else None
  end.

(* ---------------- fragment hash table, by content ---------------- *)
(* chunk_info_equals compares size, hash and then the bytes, so an entry is identified by
   (checksum, bytes); insert replaces an equal entry (hash_table.c:hash_table_insert). *)
Fixpoint list_eqb (a b : list N) : bool :=
  match a, b with
  | [], [] => true
  | x :: a', y :: b' => (x =? y) && list_eqb a' b'
  | _, _ => false
  end.

Definition cht := list ((N * list N) * (N * N)).

Definition key_eqb (k : N * list N) (b : blk) : bool := (fst k =? b_ck b) && list_eqb (snd k) (b_data b).

Fixpoint cht_search (t : cht) (b : blk) : option (N * N) :=
  match t with
  | [] => None
  | (k, v) :: r => if key_eqb k b then Some v else cht_search r b
  end.

Fixpoint cht_insert (t : cht) (b : blk) (v : N * N) : cht :=
  match t with
  | [] => [((b_ck b, b_data b), v)]
  | (k, w) :: r => if key_eqb k b then (k, v) :: r else (k, w) :: cht_insert r b v
  end.

(* ---------------- block writer (block_writer.c) over a byte list ---------------- *)
Record cbw := mkBw {
  w_file : list N;                    (* the output file *)
  w_blocks : list (N * (N * N));      (* blocks[]: (offset, (size word, checksum)) *)
  w_start : nat                       (* file_start *)
}.

Definition on_disk (w : N) : N := w mod 16777216.

Definition info_eqb (a b : N * (N * N)) : bool :=
  (fst (snd a) =? fst (snd b)) && (snd (snd a) =? snd (snd b)).

Definition nth_info (l : list (N * (N * N))) (n : nat) := nth n l (0, (0, 0)).

(* for (j = 0; j < count; ++j) if (blocks[i+j].hash != blocks[file_start+j].hash) break; *)
Fixpoint seq_match (l : list (N * (N * N))) (i fs : nat) (count : nat) : bool :=
  match count with
  | O => true
  | S c => info_eqb (nth_info l i) (nth_info l fs) && seq_match l (S i) (S fs) c
  end.

Definition range (f : list N) (off sz : N) : list N := firstn (N.to_nat sz) (skipn (N.to_nat off) f).

(* the outer loop of deduplicate_blocks: first i < file_start whose hash sequence and bytes match *)
Fixpoint dedup_find (w : cbw) (count : nat) (sz loc_a : N) (i : nat) (todo : nat) : nat :=
  match todo with
  | O => i
  | S t =>
    if seq_match (w_blocks w) i (w_start w) count &&
       list_eqb (range (w_file w) loc_a sz) (range (w_file w) (fst (nth_info (w_blocks w) i)) sz)
    then i
    else dedup_find w count sz loc_a (S i) t
  end.

Definition cbw_dedup (w : cbw) (dd : bool) : cbw * N :=
  let count := (length (w_blocks w) - w_start w)%nat in
  match count with
  | O => (w, 0)
  | S _ =>
    if dd then (w, fst (nth_info (w_blocks w) (w_start w)))
    else
      let sz := fold_right (fun x a => on_disk (fst (snd x)) + a) 0 (skipn (w_start w) (w_blocks w)) in
      let loc_a := fst (nth_info (w_blocks w) (w_start w)) in
      let i := dedup_find w count sz loc_a O (w_start w) in
      let out := fst (nth_info (w_blocks w) i) in
      if (w_start w <=? i)%nat then (w, out)
      else
        let used := if (w_start w - i <=? count)%nat then (i + count)%nat else w_start w in
        let last := nth_info (w_blocks w) (used - 1) in
        let fsz := fst last + on_disk (fst (snd last)) in
        (mkBw (firstn (N.to_nat fsz) (w_file w)) (firstn used (w_blocks w)) (w_start w), out)
  end.

Definition cbw_write (w : cbw) (b : blk) : cbw * N :=
  let w := if bhas FIRST b then mkBw (w_file w) (w_blocks w) (length (w_blocks w)) else w in
  let loc := len (w_file w) in
  let w :=
    if negb (len (b_data b) =? 0) && negb (bhas SPARSE b)
    then mkBw (w_file w ++ b_data b) (w_blocks w ++ [(loc, (size_word b, b_ck b))]) (w_start w)
    else w in
  if bhas LAST b then cbw_dedup w (bhas DD b) else (w, loc).

(* ---------------- the concrete run ---------------- *)
Definition cst := st cht cbw (list blk).

Definition run_concrete (hash : list N -> N) (bsz : N) (backlog : N) (files : list file) : res cst :=
  run cht cht_search cht_insert cbw cbw_write (list blk)
      sp_submit (sp_dequeue (process_block hash toy_compress))
      bsz (clamp_backlog backlog) [] [] (mkBw [] [] O) files.

(* the same run with an eager pool schedule is the specification used in the proofs; for the tie the
   driver prints these observables *)
Definition obs_writes (s : cst) : list (blk * N) := s_writes _ _ _ s.
Definition obs_inodes (s : cst) : itab := s_ino _ _ _ s.
Definition obs_ftbl (s : cst) : list (N * N) := s_ftbl _ _ _ s.
Definition obs_file (s : cst) : list N := w_file (s_bw _ _ _ s).
Definition obs_backlog (s : cst) : N := s_backlog _ _ _ s.
