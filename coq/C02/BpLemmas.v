(* C02 — auxiliary lemmas: flags, process_block, lists, the I/O queue, the writer fold. *)
From Coq Require Import List NArith ZArith Bool Lia Sorted.
From SqfsV Require Import C02.GenBlk C02.BpModel C02.BpSpec.
Import ListNotations.
Local Open Scope N_scope.

(* ---------------- flags ---------------- *)
Lemma getf_setf_same k v f : getf k (setf k v f) = v.
Proof. destruct f, k; reflexivity. Qed.

Lemma getf_setf_other k k' v f : k <> k' -> getf k' (setf k v f) = getf k' f.
Proof. intro H; destruct f, k, k'; try reflexivity; congruence. Qed.

Lemma getf_no_flags k : getf k no_flags = false.
Proof. destruct k; reflexivity. Qed.

(* the constants of the headers are what the model assumes: pairwise disjoint single bits, the
   user-settable mask covers exactly the first five and none of the internal ones *)
Lemma flag_consts_disjoint :
  forallb (fun k => forallb (fun k' => match k, k' with
     | DC, DC | DH, DH | DF, DF | DD, DD | IGS, IGS | SPARSE, SPARSE | FIRST, FIRST | LAST, LAST
     | ISFRAG, ISFRAG | FRAGBLK, FRAGBLK | COMP, COMP | INTERNAL, INTERNAL => negb (flag_const k =? 0)
     | _, _ => N.land (flag_const k) (flag_const k') =? 0 end) all_flags) all_flags = true.
Proof. vm_compute. reflexivity. Qed.

Lemma user_mask_internal :
  forallb (fun k => N.land c_SQFS_BLK_USER_SETTABLE_FLAGS (flag_const k) =? 0)
          [SPARSE; FIRST; LAST; ISFRAG; FRAGBLK; COMP; INTERNAL] = true.
Proof. vm_compute. reflexivity. Qed.

Lemma user_flag_clear n k :
  N.ldiff n c_SQFS_BLK_USER_SETTABLE_FLAGS = 0 ->
  N.land c_SQFS_BLK_USER_SETTABLE_FLAGS (flag_const k) = 0 ->
  hasbits n (flag_const k) = false.
Proof.
  intros H1 H2. unfold hasbits.
  assert (E : n = N.land n c_SQFS_BLK_USER_SETTABLE_FLAGS).
  { rewrite <- (N.lor_ldiff_and n c_SQFS_BLK_USER_SETTABLE_FLAGS) at 1. rewrite H1. apply N.lor_0_l. }
  rewrite E, <- N.land_assoc, H2, N.land_0_r. reflexivity.
Qed.

(* flags of a block handed over by the front end (a boolean equation, so that [split] leaves it alone) *)
Definition fe_flags_ok (f : flags) : Prop :=
  negb (getf FRAGBLK f) && negb (getf INTERNAL f) && negb (getf SPARSE f) && negb (getf COMP f) = true.

Lemma fe_flags_ok_elim f : fe_flags_ok f ->
  getf FRAGBLK f = false /\ getf INTERNAL f = false /\ getf SPARSE f = false /\ getf COMP f = false.
Proof.
  unfold fe_flags_ok. destruct (getf FRAGBLK f), (getf INTERNAL f), (getf SPARSE f), (getf COMP f); cbn; intuition congruence.
Qed.

Lemma fe_flags_ok_intro f :
  getf FRAGBLK f = false -> getf INTERNAL f = false -> getf SPARSE f = false -> getf COMP f = false -> fe_flags_ok f.
Proof. unfold fe_flags_ok. intros -> -> -> ->. reflexivity. Qed.

Lemma dec_user_flags_ok n :
  N.ldiff n c_SQFS_BLK_USER_SETTABLE_FLAGS = 0 -> fe_flags_ok (dec_flags n).
Proof.
  intro H. pose proof user_mask_internal as M. cbn [forallb] in M.
  repeat (apply andb_prop in M; destruct M as [?M M]).
  repeat match goal with H : (_ =? _) = true |- _ => apply N.eqb_eq in H end.
  apply fe_flags_ok_intro; unfold dec_flags; cbn [getf f_fragblk f_int f_sparse f_comp];
    apply user_flag_clear; assumption.
Qed.

Lemma fe_flags_ok_setf k v f :
  k <> FRAGBLK -> k <> INTERNAL -> k <> SPARSE -> k <> COMP -> fe_flags_ok f -> fe_flags_ok (setf k v f).
Proof.
  intros ? ? ? ? H. apply fe_flags_ok_elim in H. destruct H as (A & B & C & D).
  apply fe_flags_ok_intro; rewrite getf_setf_other by assumption; assumption.
Qed.

(* ---------------- process_block ---------------- *)
Section PB.
Variable hash : list N -> N.
Variable compress : list N -> option (list N).
Notation pblock := (process_block hash compress).

Lemma pb_seq b : b_seq (pblock b) = b_seq b.
Proof.
  unfold process_block. destruct (b_data b); [reflexivity|].
  destruct (_ && _); [reflexivity|].
  destruct (_ || _); [reflexivity|].
  destruct (compress _); reflexivity.
Qed.

Lemma pb_ino b : b_ino (pblock b) = b_ino b.
Proof.
  unfold process_block. destruct (b_data b); [reflexivity|].
  destruct (_ && _); [reflexivity|].
  destruct (_ || _); [reflexivity|].
  destruct (compress _); reflexivity.
Qed.

Lemma pb_flag k b : k <> SPARSE -> k <> COMP -> bhas k (pblock b) = bhas k b.
Proof.
  intros H1 H2. unfold process_block, bhas. destruct (b_data b); [reflexivity|].
  destruct (_ && _); [cbn; apply getf_setf_other; congruence|].
  destruct (_ || _); [reflexivity|].
  destruct (compress _); [cbn; apply getf_setf_other; congruence|reflexivity].
Qed.

(* a block flagged sparse by the worker is not empty *)
Lemma pb_sparse_nonempty b : bhas SPARSE b = false -> bhas SPARSE (pblock b) = true -> b_data (pblock b) <> [].
Proof.
  intros H0. unfold process_block, bhas in *. destruct (b_data b) eqn:E; [congruence|].
  destruct (_ && _).
  - cbn [b_fl b_data with_fl]. rewrite E. discriminate.
  - destruct (_ || _); [cbn [b_fl b_data with_ck]; congruence|].
    destruct (compress _); cbn [b_fl b_data with_fl with_data with_ck];
      [rewrite getf_setf_other by discriminate|]; congruence.
Qed.
End PB.

(* ---------------- lists ---------------- *)
Lemma len_app {A} (a b : list A) : len (a ++ b) = len a + len b.
Proof. unfold len. rewrite app_length. lia. Qed.

Lemma len_cons {A} (x : A) l : len (x :: l) = 1 + len l.
Proof. unfold len. cbn [length]. lia. Qed.

Lemma len_nil {A} : len (@nil A) = 0.
Proof. reflexivity. Qed.

Lemma len_0 {A} (l : list A) : len l = 0 -> l = [].
Proof. destruct l; [reflexivity|]. unfold len; cbn [length]; lia. Qed.

Lemma nth_error_grow {A} (l l' : list A) n x : nth_error l n = Some x -> nth_error (l ++ l') n = Some x.
Proof.
  intro H. rewrite nth_error_app1; [exact H|]. apply nth_error_Some. congruence.
Qed.

Lemma nth_error_len {A} (l : list A) x : nth_error (l ++ [x]) (N.to_nat (len l)) = Some x.
Proof.
  unfold len. rewrite Nat2N.id, nth_error_app2 by lia. rewrite Nat.sub_diag. reflexivity.
Qed.

Lemma nth_error_lt {A} (l : list A) n x : nth_error l (N.to_nat n) = Some x -> n < len l.
Proof.
  intro H. assert (N.to_nat n < length l)%nat by (apply nth_error_Some; congruence). unfold len. lia.
Qed.

Lemma firstn_succ_nth {A} (l : list A) n x : nth_error l n = Some x -> firstn (S n) l = firstn n l ++ [x].
Proof.
  revert n; induction l as [|y l IH]; intros [|n] H; cbn in *; try discriminate.
  - congruence.
  - rewrite (IH n H). reflexivity.
Qed.

Lemma firstn_grow {A} (l l' : list A) n : (n <= length l)%nat -> firstn n (l ++ l') = firstn n l.
Proof.
  intro H. rewrite firstn_app. replace (n - length l)%nat with O by lia. cbn. apply app_nil_r.
Qed.

(* ---------------- the I/O queue ---------------- *)
Definition seq_lt (a b : blk) : Prop := b_seq a < b_seq b.

Lemma store_io_in q b x : In x (store_io q b) <-> x = b \/ In x q.
Proof.
  induction q as [|y q IH]; cbn.
  - intuition.
  - destruct (b_seq y <? b_seq b); cbn; rewrite ?IH; intuition.
Qed.

Lemma store_io_len q b : len (store_io q b) = 1 + len q.
Proof.
  induction q as [|y q IH]; cbn [store_io]; [reflexivity|].
  destruct (b_seq y <? b_seq b); rewrite !len_cons, ?IH; lia.
Qed.

Lemma store_io_Forall (Q : blk -> Prop) q b : Q b -> Forall Q q -> Forall Q (store_io q b).
Proof.
  intros Hb Hq. apply Forall_forall. intros x Hx. apply store_io_in in Hx. destruct Hx as [-> |Hx]; [exact Hb|].
  rewrite Forall_forall in Hq. auto.
Qed.

Lemma store_io_sorted q b :
  StronglySorted seq_lt q -> (forall x, In x q -> b_seq x <> b_seq b) -> StronglySorted seq_lt (store_io q b).
Proof.
  induction q as [|y q IH]; intros Hs Hne; cbn [store_io].
  - constructor; constructor.
  - inversion Hs as [|? ? Hs' Hall]; subst.
    destruct (b_seq y <? b_seq b) eqn:E.
    + constructor.
      * apply IH; [exact Hs'|]. intros x Hx. apply Hne. right; exact Hx.
      * apply Forall_forall. intros x Hx. apply store_io_in in Hx. destruct Hx as [-> |Hx].
        -- unfold seq_lt. apply N.ltb_lt. exact E.
        -- rewrite Forall_forall in Hall. auto.
    + assert (Hlt : b_seq b < b_seq y).
      { apply N.ltb_ge in E. specialize (Hne y (or_introl eq_refl)). lia. }
      constructor; [exact Hs|]. constructor; [exact Hlt|].
      apply Forall_forall. intros x Hx. rewrite Forall_forall in Hall. specialize (Hall x Hx).
      unfold seq_lt in *. lia.
Qed.

(* a strictly sorted list inside [a, b) has at most b - a elements *)
Lemma sorted_bound l : forall a b,
  StronglySorted seq_lt l -> Forall (fun e => a <= b_seq e /\ b_seq e < b) l -> len l + a <= b \/ l = [].
Proof.
  induction l as [|x l IH]; intros a b Hs Hr; [right; reflexivity|left].
  inversion Hs as [|? ? Hs' Hall]; subst. inversion Hr as [|? ? [Hx1 Hx2] Hr']; subst.
  destruct (IH (b_seq x + 1) b Hs') as [H| ->].
  - apply Forall_forall. intros e He. rewrite Forall_forall in Hall, Hr'.
    specialize (Hall e He). specialize (Hr' e He). unfold seq_lt in Hall. lia.
  - rewrite len_cons. lia.
  - rewrite len_cons, len_nil. lia.
Qed.

(* ... and if it has exactly b - a elements its head is a *)
Lemma sorted_full_head x l a b :
  StronglySorted seq_lt (x :: l) -> Forall (fun e => a <= b_seq e /\ b_seq e < b) (x :: l) ->
  len (x :: l) + a = b -> b_seq x = a.
Proof.
  intros Hs Hr Hl.
  inversion Hs as [|? ? Hs' Hall]; subst. inversion Hr as [|? ? [Hx1 Hx2] Hr']; subst.
  destruct (sorted_bound l (b_seq x + 1) (len (x :: l) + a) Hs') as [H| ->].
  - apply Forall_forall. intros e He. rewrite Forall_forall in Hall, Hr'.
    specialize (Hall e He). specialize (Hr' e He). unfold seq_lt in Hall. lia.
  - rewrite len_cons in *. lia.
  - rewrite len_cons, len_nil in *. lia.
Qed.

(* ---------------- the writer fold ---------------- *)
Section BWRun.
Variable BW : Type.
Variable bw_write : BW -> blk -> BW * N.

Lemma bw_run_snoc l : forall w acc b,
  bw_run BW bw_write w acc (l ++ [b]) =
  let '(w', acc') := bw_run BW bw_write w acc l in
  let '(w'', loc) := bw_write w' b in (w'', acc' ++ [(b, loc)]).
Proof.
  induction l as [|x l IH]; intros w acc b; cbn [bw_run app].
  - destruct (bw_write w b). reflexivity.
  - destruct (bw_write w x). apply IH.
Qed.

Lemma bw_run_blocks l : forall w acc, map fst (snd (bw_run BW bw_write w acc l)) = map fst acc ++ l.
Proof.
  induction l as [|x l IH]; intros w acc; cbn [bw_run].
  - rewrite app_nil_r. reflexivity.
  - destruct (bw_write w x). rewrite IH, map_app, <- app_assoc. reflexivity.
Qed.
End BWRun.

Definition b2n (b : bool) : N := if b then 1 else 0.
