(* C02 — auxiliary lemmas: flags, process_block, lists, the I/O queue, the writer fold. *)
From Coq Require Import List NArith ZArith Bool Lia Sorted.
From SqfsV Require Import C02.GenBlk C02.BpModel C02.BpSpec.
Import ListNotations.
Local Open Scope N_scope.

(* ---------------- flags ---------------- *)
Lemma getf_setf_same k v f : getf k (setf k v f) = v.
Proof. destruct f, k; reflexivity. Qed.

Lemma getf_setf_other k k' v f : k <> k' -> getf k' (setf k v f) = getf k' f.
Proof. intro H; destruct f, k, k'; try reflexivity; congruence. Qed.

Lemma getf_no_flags k : getf k no_flags = false.
Proof. destruct k; reflexivity. Qed.

(* the constants of the headers are what the model assumes: pairwise disjoint single bits, the
   user-settable mask covers exactly the first five and none of the internal ones *)
Lemma flag_consts_disjoint :
  forallb (fun k => forallb (fun k' => match k, k' with
     | DC, DC | DH, DH | DF, DF | DD, DD | IGS, IGS | SPARSE, SPARSE | FIRST, FIRST | LAST, LAST
     | ISFRAG, ISFRAG | FRAGBLK, FRAGBLK | COMP, COMP | INTERNAL, INTERNAL => negb (flag_const k =? 0)
     | _, _ => N.land (flag_const k) (flag_const k') =? 0 end) all_flags) all_flags = true.
Proof. vm_compute. reflexivity. Qed.

Lemma user_mask_internal :
  forallb (fun k => N.land c_SQFS_BLK_USER_SETTABLE_FLAGS (flag_const k) =? 0)
          [SPARSE; FIRST; LAST; ISFRAG; FRAGBLK; COMP; INTERNAL] = true.
Proof. vm_compute. reflexivity. Qed.

Lemma user_flag_clear n k :
  N.ldiff n c_SQFS_BLK_USER_SETTABLE_FLAGS = 0 ->
  N.land c_SQFS_BLK_USER_SETTABLE_FLAGS (flag_const k) = 0 ->
  hasbits n (flag_const k) = false.
Proof.
  intros H1 H2. unfold hasbits.
  assert (E : n = N.land n c_SQFS_BLK_USER_SETTABLE_FLAGS).
  { rewrite <- (N.lor_ldiff_and n c_SQFS_BLK_USER_SETTABLE_FLAGS) at 1. rewrite H1. apply N.lor_0_l. }
  rewrite E, <- N.land_assoc, H2, N.land_0_r. reflexivity.
Qed.

(* flags of a block handed over by the front end (a boolean equation, so that [split] leaves it alone) *)
Definition fe_flags_ok (f : flags) : Prop :=
  negb (getf FRAGBLK f) && negb (getf INTERNAL f) && negb (getf SPARSE f) && negb (getf COMP f) = true.

Lemma fe_flags_ok_elim f : fe_flags_ok f ->
  getf FRAGBLK f = false /\ getf INTERNAL f = false /\ getf SPARSE f = false /\ getf COMP f = false.
Proof.
  unfold fe_flags_ok. destruct (getf FRAGBLK f), (getf INTERNAL f), (getf SPARSE f), (getf COMP f); cbn; intuition congruence.
Qed.

Lemma fe_flags_ok_intro f :
  getf FRAGBLK f = false -> getf INTERNAL f = false -> getf SPARSE f = false -> getf COMP f = false -> fe_flags_ok f.
Proof. unfold fe_flags_ok. intros -> -> -> ->. reflexivity. Qed.

Lemma dec_user_flags_ok n :
  N.ldiff n c_SQFS_BLK_USER_SETTABLE_FLAGS = 0 -> fe_flags_ok (dec_flags n).
Proof.
  intro H. pose proof user_mask_internal as M. cbn [forallb] in M.
  repeat (apply andb_prop in M; destruct M as [?M M]).
  repeat match goal with H : (_ =? _) = true |- _ => apply N.eqb_eq in H end.
  apply fe_flags_ok_intro; unfold dec_flags; cbn [getf f_fragblk f_int f_sparse f_comp];
    apply user_flag_clear; assumption.
Qed.

Lemma fe_flags_ok_setf k v f :
  k <> FRAGBLK -> k <> INTERNAL -> k <> SPARSE -> k <> COMP -> fe_flags_ok f -> fe_flags_ok (setf k v f).
Proof.
  intros ? ? ? ? H. apply fe_flags_ok_elim in H. destruct H as (A & B & C & D).
  apply fe_flags_ok_intro; rewrite getf_setf_other by assumption; assumption.
Qed.

(* ---------------- process_block ---------------- *)
Section PB.
Variable hash : list N -> N.
Variable compress : list N -> option (list N).
Notation pblock := (process_block hash compress).

Lemma pb_seq b : b_seq (pblock b) = b_seq b.
Proof.
  unfold process_block. destruct (b_data b); [reflexivity|].
  destruct (_ && _); [reflexivity|].
  destruct (_ || _); [reflexivity|].
  destruct (compress _); reflexivity.
Qed.

Lemma pb_ino b : b_ino (pblock b) = b_ino b.
Proof.
  unfold process_block. destruct (b_data b); [reflexivity|].
  destruct (_ && _); [reflexivity|].
  destruct (_ || _); [reflexivity|].
  destruct (compress _); reflexivity.
Qed.

Lemma pb_flag k b : k <> SPARSE -> k <> COMP -> bhas k (pblock b) = bhas k b.
Proof.
  intros H1 H2. unfold process_block, bhas. destruct (b_data b); [reflexivity|].
  destruct (_ && _); [cbn; apply getf_setf_other; congruence|].
  destruct (_ || _); [reflexivity|].
  destruct (compress _); [cbn; apply getf_setf_other; congruence|reflexivity].
Qed.

(* a block flagged sparse by the worker is not empty *)
Lemma pb_sparse_nonempty b : bhas SPARSE b = false -> bhas SPARSE (pblock b) = true -> b_data (pblock b) <> [].
Proof.
  intros H0. unfold process_block, bhas in *. destruct (b_data b) eqn:E; [congruence|].
  destruct (_ && _).
  - cbn [b_fl b_data with_fl]. rewrite E. discriminate.
  - destruct (_ || _); [cbn [b_fl b_data with_ck]; congruence|].
    destruct (compress _); cbn [b_fl b_data with_fl with_data with_ck];
      [rewrite getf_setf_other by discriminate|]; congruence.
Qed.
End PB.

(* ---------------- lists ---------------- *)
Lemma len_app {A} (a b : list A) : len (a ++ b) = len a + len b.
Proof. unfold len. rewrite app_length. lia. Qed.

Lemma len_cons {A} (x : A) l : len (x :: l) = 1 + len l.
Proof. unfold len. cbn [length]. lia. Qed.

Lemma len_nil {A} : len (@nil A) = 0.
Proof. reflexivity. Qed.

Lemma len_0 {A} (l : list A) : len l = 0 -> l = [].
Proof. destruct l; [reflexivity|]. unfold len; cbn [length]; lia. Qed.

Lemma nth_error_grow {A} (l l' : list A) n x : nth_error l n = Some x -> nth_error (l ++ l') n = Some x.
Proof.
  intro H. rewrite nth_error_app1; [exact H|]. apply nth_error_Some. congruence.
Qed.

Lemma nth_error_len {A} (l : list A) x : nth_error (l ++ [x]) (N.to_nat (len l)) = Some x.
Proof.
  unfold len. rewrite Nat2N.id, nth_error_app2 by lia. rewrite Nat.sub_diag. reflexivity.
Qed.

Lemma nth_error_lt {A} (l : list A) n x : nth_error l (N.to_nat n) = Some x -> n < len l.
Proof.
  intro H. assert (N.to_nat n < length l)%nat by (apply nth_error_Some; congruence). unfold len. lia.
Qed.

Lemma firstn_succ_nth {A} (l : list A) n x : nth_error l n = Some x -> firstn (S n) l = firstn n l ++ [x].
Proof.
  revert n; induction l as [|y l IH]; intros [|n] H; cbn in *; try discriminate.
  - congruence.
  - rewrite (IH n H). reflexivity.
Qed.

Lemma firstn_grow {A} (l l' : list A) n : (n <= length l)%nat -> firstn n (l ++ l') = firstn n l.
Proof.
  intro H. rewrite firstn_app. replace (n - length l)%nat with O by lia. cbn. apply app_nil_r.
Qed.

(* ---------------- the I/O queue ---------------- *)
Definition seq_lt (a b : blk) : Prop := b_seq a < b_seq b.

Lemma store_io_in q b x : In x (store_io q b) <-> x = b \/ In x q.
Proof.
  induction q as [|y q IH]; cbn.
  - intuition.
  - destruct (b_seq y <? b_seq b); cbn; rewrite ?IH; intuition.
Qed.

Lemma store_io_len q b : len (store_io q b) = 1 + len q.
Proof.
  induction q as [|y q IH]; cbn [store_io]; [reflexivity|].
  destruct (b_seq y <? b_seq b); rewrite !len_cons, ?IH; lia.
Qed.

Lemma store_io_Forall (Q : blk -> Prop) q b : Q b -> Forall Q q -> Forall Q (store_io q b).
Proof.
  intros Hb Hq. apply Forall_forall. intros x Hx. apply store_io_in in Hx. destruct Hx as [-> |Hx]; [exact Hb|].
  rewrite Forall_forall in Hq. auto.
Qed.

Lemma store_io_sorted q b :
  StronglySorted seq_lt q -> (forall x, In x q -> b_seq x <> b_seq b) -> StronglySorted seq_lt (store_io q b).
Proof.
  induction q as [|y q IH]; intros Hs Hne; cbn [store_io].
  - constructor; constructor.
  - inversion Hs as [|? ? Hs' Hall]; subst.
    destruct (b_seq y <? b_seq b) eqn:E.
    + constructor.
      * apply IH; [exact Hs'|]. intros x Hx. apply Hne. right; exact Hx.
      * apply Forall_forall. intros x Hx. apply store_io_in in Hx. destruct Hx as [-> |Hx].
        -- unfold seq_lt. apply N.ltb_lt. exact E.
        -- rewrite Forall_forall in Hall. auto.
    + assert (Hlt : b_seq b < b_seq y).
      { apply N.ltb_ge in E. specialize (Hne y (or_introl eq_refl)). lia. }
      constructor; [exact Hs|]. constructor; [exact Hlt|].
      apply Forall_forall. intros x Hx. rewrite Forall_forall in Hall. specialize (Hall x Hx).
      unfold seq_lt in *. lia.
Qed.

(* a strictly sorted list inside [a, b) has at most b - a elements *)
Lemma sorted_bound l : forall a b,
  StronglySorted seq_lt l -> Forall (fun e => a <= b_seq e /\ b_seq e < b) l -> len l + a <= b \/ l = [].
Proof.
  induction l as [|x l IH]; intros a b Hs Hr; [right; reflexivity|left].
  inversion Hs as [|? ? Hs' Hall]; subst. inversion Hr as [|? ? [Hx1 Hx2] Hr']; subst.
  destruct (IH (b_seq x + 1) b Hs') as [H| ->].
  - apply Forall_forall. intros e He. rewrite Forall_forall in Hall, Hr'.
    specialize (Hall e He). specialize (Hr' e He). unfold seq_lt in Hall. lia.
  - rewrite len_cons. lia.
  - rewrite len_cons, len_nil. lia.
Qed.

(* ... and if it has exactly b - a elements its head is a *)
Lemma sorted_full_head x l a b :
  StronglySorted seq_lt (x :: l) -> Forall (fun e => a <= b_seq e /\ b_seq e < b) (x :: l) ->
  len (x :: l) + a = b -> b_seq x = a.
Proof.
  intros Hs Hr Hl.
  inversion Hs as [|? ? Hs' Hall]; subst. inversion Hr as [|? ? [Hx1 Hx2] Hr']; subst.
  destruct (sorted_bound l (b_seq x + 1) (len (x :: l) + a) Hs') as [H| ->].
  - apply Forall_forall. intros e He. rewrite Forall_forall in Hall, Hr'.
    specialize (Hall e He). specialize (Hr' e He). unfold seq_lt in Hall. lia.
  - rewrite len_cons in *. lia.
  - rewrite len_cons, len_nil in *. lia.
Qed.

(* ---------------- the writer fold ---------------- *)
Section BWRun.
Variable BW : Type.
Variable bw_write : BW -> blk -> BW * N.

Lemma bw_run_snoc l : forall w acc b,
  bw_run BW bw_write w acc (l ++ [b]) =
  let '(w', acc') := bw_run BW bw_write w acc l in
  let '(w'', loc) := bw_write w' b in (w'', acc' ++ [(b, loc)]).
Proof.
  induction l as [|x l IH]; intros w acc b; cbn [bw_run app].
  - destruct (bw_write w b). reflexivity.
  - destruct (bw_write w x). apply IH.
Qed.

Lemma bw_run_blocks l : forall w acc, map fst (snd (bw_run BW bw_write w acc l)) = map fst acc ++ l.
Proof.
  induction l as [|x l IH]; intros w acc; cbn [bw_run].
  - rewrite app_nil_r. reflexivity.
  - destruct (bw_write w x). rewrite IH, map_app, <- app_assoc. reflexivity.
Qed.
End BWRun.

Definition b2n (b : bool) : N := if b then 1 else 0.

(* ---------------- inode views: fragment reference and block-size list ---------------- *)
Lemma upd_nth_comm : forall i j v w l, i <> j -> upd_nth i v (upd_nth j w l) = upd_nth j w (upd_nth i v l).
Proof.
  induction i as [|i IH]; intros [|j] v w l H; try congruence.
  - destruct l; reflexivity.
  - destruct l; reflexivity.
  - destruct l as [|x l]; cbn [upd_nth]; f_equal; apply IH; congruence.
Qed.

Lemma upd_nth_same0 : forall i l, upd_nth i 0 (upd_nth i 0 l) = upd_nth i 0 l.
Proof. induction i as [|i IH]; intros [|x l]; cbn [upd_nth]; try reflexivity; f_equal; apply IH. Qed.

(* an inode operation that touches neither the fragment reference nor extra[] *)
Definition keeps_views (f : inode -> inode) : Prop :=
  forall i, i_fidx (f i) = i_fidx i /\ i_foff (f i) = i_foff i /\ i_blocks (f i) = i_blocks i.

Lemma kv_make_extended : keeps_views i_make_extended.
Proof. intro i. unfold i_make_extended. destruct (i_ext i); cbn; auto. Qed.

Lemma kv_make_basic : keeps_views i_make_basic.
Proof.
  intro i. unfold i_make_basic. destruct (negb (i_ext i)); [auto|].
  destruct (U32MAX <? i_start i); [auto|]. destruct (U32MAX <? i_size i); [auto|].
  destruct (0 <? i_sparse i); cbn; auto.
Qed.

Lemma kv_set_file_size n : keeps_views (fun i => i_set_file_size i (i_size i + n)).
Proof.
  intro i. unfold i_set_file_size. destruct (i_ext i).
  - destruct (i_size i + n <? U32MAX); [|cbn; auto].
    match goal with |- context [i_make_basic ?x] => destruct (kv_make_basic x) as (A & B & C) end.
    rewrite A, B, C. cbn; auto.
  - destruct (U32MAX <? i_size i + n); [|cbn; auto].
    destruct (kv_make_extended i) as (A & B & C). cbn [i_fidx i_foff i_blocks]. auto.
Qed.

Lemma kv_set_block_start loc : keeps_views (fun i => i_set_block_start i loc).
Proof.
  intro i. unfold i_set_block_start. destruct (i_ext i).
  - destruct (loc <? U32MAX); [|cbn; auto].
    match goal with |- context [i_make_basic ?x] => destruct (kv_make_basic x) as (A & B & C) end.
    rewrite A, B, C. cbn; auto.
  - destruct (U32MAX <? loc); [|cbn; auto].
    destruct (kv_make_extended i) as (A & B & C). cbn [i_fidx i_foff i_blocks]. auto.
Qed.

Lemma it_upd_same (t : itab) k f : it_upd t k f k = f (t k).
Proof. unfold it_upd. rewrite N.eqb_refl. reflexivity. Qed.

Lemma it_upd_other (t : itab) k f k' : k' <> k -> it_upd t k f k' = t k'.
Proof. intro H. unfold it_upd. apply N.eqb_neq in H. rewrite H. reflexivity. Qed.

Lemma fref_of_snoc glog e k :
  fref_of (glog ++ [e]) k = if k =? fst (fst e) then (snd (fst e), snd e) else fref_of glog k.
Proof. unfold fref_of. rewrite fold_left_app. reflexivity. Qed.

Lemma blocks_canon_flush sflog ws b k :
  blocks_canon sflog (ws ++ [b]) k = flush_blk k (blocks_canon sflog ws k) b.
Proof. unfold blocks_canon. rewrite fold_left_app. reflexivity. Qed.

(* process_completed_block changes extra[] of the block's inode *)
Definition acts (b : blk) : Prop :=
  bhas SPARSE b = true \/ (len (b_data b) <> 0 /\ bhas FRAGBLK b = false).

Lemma flush_blk_idle k l b : ~ acts b -> flush_blk k l b = l.
Proof.
  intro H. unfold flush_blk, acts in *. destruct (k =? b_ino b); [|reflexivity].
  destruct (bhas SPARSE b); [exfalso; apply H; left; reflexivity|].
  destruct (len (b_data b) =? 0) eqn:E; cbn [negb]; [reflexivity|].
  destruct (bhas FRAGBLK b); [reflexivity|]. exfalso. apply H. right. apply N.eqb_neq in E. auto.
Qed.

(* a sparse tail end (cell i of inode k0) may be moved in front of a written block that does not set
   the same cell of the same inode *)
Lemma flush_blk_sf_comm k k0 i b l :
  (b_ino b = k0 -> acts b -> N.to_nat (b_idx b) <> N.to_nat i) ->
  flush_blk k (sf_blk k l (k0, i)) b = sf_blk k (flush_blk k l b) (k0, i).
Proof.
  intros H. unfold sf_blk. cbn [fst snd]. destruct (k =? k0) eqn:E; [|reflexivity].
  apply N.eqb_eq in E. subst k0.
  unfold flush_blk, acts in *. destruct (k =? b_ino b) eqn:Ek; [|reflexivity]. apply N.eqb_eq in Ek. symmetry in Ek.
  destruct (bhas SPARSE b).
  - apply upd_nth_comm. apply H; auto.
  - destruct (len (b_data b) =? 0) eqn:El; cbn [negb]; [reflexivity|].
    destruct (bhas FRAGBLK b); [reflexivity|].
    apply upd_nth_comm. apply H; [exact Ek|]. right. apply N.eqb_neq in El. auto.
Qed.

Lemma fold_flush_sf_comm k k0 i : forall ws l,
  Forall (fun b => b_ino b = k0 -> acts b -> N.to_nat (b_idx b) <> N.to_nat i) ws ->
  fold_left (flush_blk k) ws (sf_blk k l (k0, i)) = sf_blk k (fold_left (flush_blk k) ws l) (k0, i).
Proof.
  induction ws as [|b ws IH]; intros l H; [reflexivity|].
  inversion H; subst. cbn [fold_left]. rewrite flush_blk_sf_comm by assumption. apply IH. assumption.
Qed.

Lemma blocks_canon_sf sflog ws k k0 i :
  Forall (fun b => b_ino b = k0 -> acts b -> N.to_nat (b_idx b) <> N.to_nat i) ws ->
  blocks_canon (sflog ++ [(k0, i)]) ws k = sf_blk k (blocks_canon sflog ws k) (k0, i).
Proof.
  intro H. unfold blocks_canon. rewrite fold_left_app. cbn [fold_left]. apply fold_flush_sf_comm. exact H.
Qed.

(* ---------------- the fragment table ---------------- *)
Lemma ftbl_set_snoc t x : forall n v, n <> length t -> ftbl_set (t ++ [x]) n v = ftbl_set t n v ++ [x].
Proof.
  induction t as [|y t IH]; intros n v H; cbn [app ftbl_set length] in *.
  - destruct n; [congruence|reflexivity].
  - destruct n; [reflexivity|]. cbn [app]. f_equal. apply IH. congruence.
Qed.

Lemma ftbl_set_length t : forall n v, length (ftbl_set t n v) = length t.
Proof. induction t as [|y t IH]; intros [|n] v; cbn [ftbl_set length]; try reflexivity. rewrite IH. reflexivity. Qed.

Lemma ftbl_apply_length t w : length (ftbl_apply t w) = length t.
Proof.
  unfold ftbl_apply. destruct (bhas SPARSE (fst w)); [reflexivity|].
  destruct (negb _); [|reflexivity]. destruct (bhas FRAGBLK (fst w)); [apply ftbl_set_length|reflexivity].
Qed.

(* a fragment-block write with an index other than the current table size commutes with growing the table *)
Definition ft_ok (n : nat) (w : blk * N) : Prop :=
  bhas FRAGBLK (fst w) = true -> (N.to_nat (b_idx (fst w)) < n)%nat.

Lemma ftbl_fold_snoc : forall ws t x,
  Forall (ft_ok (length t)) ws ->
  fold_left ftbl_apply ws (t ++ [x]) = fold_left ftbl_apply ws t ++ [x].
Proof.
  induction ws as [|w ws IH]; intros t x H; [reflexivity|].
  inversion H as [|? ? Hw Hws]; subst. cbn [fold_left].
  assert (E : ftbl_apply (t ++ [x]) w = ftbl_apply t w ++ [x]).
  { unfold ftbl_apply. destruct (bhas SPARSE (fst w)); [reflexivity|].
    destruct (negb _); [|reflexivity]. destruct (bhas FRAGBLK (fst w)) eqn:EF; [|reflexivity].
    apply ftbl_set_snoc. specialize (Hw EF). lia. }
  rewrite E. apply IH. rewrite ftbl_apply_length. exact Hws.
Qed.

Lemma ftbl_canon_grow n ws :
  Forall (ft_ok (N.to_nat n)) ws -> ftbl_canon (n + 1) ws = ftbl_canon n ws ++ [(0, 0)].
Proof.
  intro H. unfold ftbl_canon. replace (N.to_nat (n + 1)) with (N.to_nat n + 1)%nat by lia.
  rewrite repeat_app. cbn [repeat]. apply ftbl_fold_snoc. rewrite repeat_length. exact H.
Qed.

Lemma ftbl_canon_snoc n ws w : ftbl_canon n (ws ++ [w]) = ftbl_apply (ftbl_canon n ws) w.
Proof. unfold ftbl_canon. rewrite fold_left_app. reflexivity. Qed.

(* process_block keeps inode, index, and the FRAGMENT_BLOCK / sparse relation *)
Section PB2.
Variable hash : list N -> N.
Variable compress : list N -> option (list N).
Notation pblock := (process_block hash compress).

Lemma pb_idx b : b_idx (pblock b) = b_idx b.
Proof.
  unfold process_block. destruct (b_data b); [reflexivity|].
  destruct (_ && _); [reflexivity|]. destruct (_ || _); [reflexivity|]. destruct (compress _); reflexivity.
Qed.

Lemma pb_sparse_fb b : bhas FRAGBLK b = true -> bhas SPARSE (pblock b) = bhas SPARSE b.
Proof.
  intro H. unfold process_block, bhas in *. destruct (b_data b); [reflexivity|].
  rewrite H, orb_true_r. cbn [negb andb].
  destruct (_ || _); [reflexivity|]. destruct (compress _); [|reflexivity].
  cbn [b_fl with_fl]. apply getf_setf_other. discriminate.
Qed.

(* a processed block acts on its inode only if the submitted block was not empty *)
Lemma pb_acts_nonempty b : bhas SPARSE b = false -> acts (pblock b) -> b_data b <> [].
Proof.
  intros H0 [H|[H _]].
  - intro E. unfold process_block in H. rewrite E in H. congruence.
  - intro E. unfold process_block in H. rewrite E in H. rewrite E in H. apply H. reflexivity.
Qed.
End PB2.

(* ---------------- inode scalars: type, file size, sparse bytes, block start ---------------- *)
(* the inode is extended exactly if one of its fields does not fit the basic layout *)
Definition Jino (i : inode) : Prop := i_ext i = ext_canon (i_size i) (i_sparse i) (i_start i).

(* all hypotheses must have been reverted into the goal *)
Ltac jsolve :=
  unfold Jino, ext_canon, i_set_block_start, i_set_file_size, i_make_basic, i_make_extended, i_add_sparse, U32MAX;
  cbn [i_ext i_size i_sparse i_start i_fidx i_foff i_blocks negb];
  repeat (match goal with
          | |- context [?a <? ?b] => destruct (N.ltb_spec a b)
          end; cbn [i_ext i_size i_sparse i_start i_fidx i_foff i_blocks negb orb andb]);
  intros; repeat split; try congruence; try lia.

Lemma J_new : Jino new_inode.
Proof. reflexivity. Qed.

Lemma J_set_block_size i idx v : Jino i -> Jino (i_set_block_size i idx v).
Proof. intro H. exact H. Qed.

Lemma J_set_frag i idx off : Jino i -> Jino (i_set_frag i idx off).
Proof. intro H. exact H. Qed.

(* make_extended followed by sparse += n, n > 0 *)
Lemma J_sp_ext i n : Jino i -> 0 < n ->
  Jino (i_add_sparse (i_make_extended i) n) /\
  i_sparse (i_add_sparse (i_make_extended i) n) = i_sparse i + n /\
  i_start (i_add_sparse (i_make_extended i) n) = i_start i /\
  i_size (i_add_sparse (i_make_extended i) n) = i_size i.
Proof.
  destruct i as [e sz sp st fi fo bl]. destruct e; jsolve.
Qed.

(* the block start is set once per file: it is still 0 (at any rate below 4G) when this happens *)
Lemma J_set_block_start i loc : Jino i -> i_start i <= U32MAX ->
  Jino (i_set_block_start i loc) /\
  i_sparse (i_set_block_start i loc) = i_sparse i /\
  i_start (i_set_block_start i loc) = loc /\
  i_size (i_set_block_start i loc) = i_size i.
Proof.
  destruct i as [e sz sp st fi fo bl]. destruct e; jsolve.
Qed.

(* file sizes only grow *)
Lemma J_set_file_size i n : Jino i ->
  Jino (i_set_file_size i (i_size i + n)) /\
  i_sparse (i_set_file_size i (i_size i + n)) = i_sparse i /\
  i_start (i_set_file_size i (i_size i + n)) = i_start i.
Proof.
  destruct i as [e sz sp st fi fo bl]. cbn [i_size]. set (z := sz + n). assert (Hz : sz <= z) by (unfold z; lia).
  clearbody z. revert Hz. destruct e; jsolve.
Qed.

(* file size: only set_file_size changes it *)
Lemma sz_make_extended i : i_size (i_make_extended i) = i_size i.
Proof. unfold i_make_extended. destruct (i_ext i); reflexivity. Qed.

Lemma sz_make_basic i : i_size (i_make_basic i) = i_size i.
Proof.
  unfold i_make_basic. destruct (negb (i_ext i)); [reflexivity|].
  destruct (U32MAX <? i_start i); [reflexivity|]. destruct (U32MAX <? i_size i); [reflexivity|].
  destruct (0 <? i_sparse i); reflexivity.
Qed.

Lemma sz_set_file_size i z : i_size (i_set_file_size i z) = z.
Proof.
  unfold i_set_file_size. destruct (i_ext i).
  - destruct (z <? U32MAX); [rewrite sz_make_basic|]; reflexivity.
  - destruct (U32MAX <? z); reflexivity.
Qed.

Lemma sz_set_block_start i loc : i_size (i_set_block_start i loc) = i_size i.
Proof.
  unfold i_set_block_start. destruct (i_ext i).
  - destruct (loc <? U32MAX); [rewrite sz_make_basic|]; reflexivity.
  - destruct (U32MAX <? loc); [cbn [i_size]; apply sz_make_extended|reflexivity].
Qed.

(* what process_completed_block does to the inode of the block *)
Definition pcb_ino (b : blk) (loc : N) (i : inode) : inode :=
  let i1 :=
    if bhas SPARSE b then i_set_block_size (i_add_sparse (i_make_extended i) (len (b_data b))) (b_idx b) 0
    else if negb (len (b_data b) =? 0) then
      if bhas FRAGBLK b then i else i_set_block_size i (b_idx b) (size_word b)
    else i in
  if bhas LAST b then i_set_block_start i1 loc else i1.

Lemma pcb_ino_size b loc i : i_size (pcb_ino b loc i) = i_size i.
Proof.
  unfold pcb_ino.
  assert (E : i_size (if bhas SPARSE b then i_set_block_size (i_add_sparse (i_make_extended i) (len (b_data b))) (b_idx b) 0
    else if negb (len (b_data b) =? 0) then
      if bhas FRAGBLK b then i else i_set_block_size i (b_idx b) (size_word b)
    else i) = i_size i).
  { destruct (bhas SPARSE b); [cbn [i_size i_set_block_size i_add_sparse]; apply sz_make_extended|].
    destruct (negb _); [|reflexivity]. destruct (bhas FRAGBLK b); reflexivity. }
  destruct (bhas LAST b); [rewrite sz_set_block_start|]; exact E.
Qed.

Lemma pcb_ino_J b loc i :
  Jino i -> (bhas LAST b = true -> i_start i <= U32MAX) -> (bhas SPARSE b = true -> 0 < len (b_data b)) ->
  Jino (pcb_ino b loc i) /\
  i_sparse (pcb_ino b loc i) = (if bhas SPARSE b then i_sparse i + len (b_data b) else i_sparse i) /\
  i_start (pcb_ino b loc i) = (if bhas LAST b then loc else i_start i).
Proof.
  intros HJ HL HS. unfold pcb_ino.
  set (i1 := if bhas SPARSE b then _ else _).
  assert (H1 : Jino i1 /\ i_sparse i1 = (if bhas SPARSE b then i_sparse i + len (b_data b) else i_sparse i) /\
               i_start i1 = i_start i).
  { unfold i1. destruct (bhas SPARSE b).
    - destruct (J_sp_ext i (len (b_data b)) HJ (HS eq_refl)) as (A & B & C & _).
      split; [apply J_set_block_size; exact A|]. split; [exact B|exact C].
    - destruct (negb _); [|auto]. destruct (bhas FRAGBLK b); [auto|].
      split; [apply J_set_block_size; exact HJ|auto]. }
  clearbody i1. destruct H1 as (A & B & C).
  destruct (bhas LAST b).
  - destruct (J_set_block_start i1 loc A) as (D & E & F & _); [rewrite C; apply HL; reflexivity|].
    split; [exact D|]. split; [rewrite E; exact B|exact F].
  - split; [exact A|]. split; [exact B|exact C].
Qed.

(* ---------------- LAST blocks per inode ---------------- *)
Lemma cntL_app k a b : cntL k (a ++ b) = (cntL k a + cntL k b)%nat.
Proof. unfold cntL. rewrite filter_app, app_length. reflexivity. Qed.

Lemma cntL_firstn k n l : (cntL k (firstn n l) <= cntL k l)%nat.
Proof. rewrite <- (firstn_skipn n l) at 2. rewrite cntL_app. lia. Qed.

Lemma cntL_snoc_not k l b : isL k b = false -> cntL k (l ++ [b]) = cntL k l.
Proof. intro H. rewrite cntL_app. unfold cntL at 2. cbn [filter]. rewrite H. cbn [length]. lia. Qed.

Lemma st_fold_zero k : forall ws a, cntL k (map fst ws) = O -> fold_left (st_blk k) ws a = a.
Proof.
  induction ws as [|w ws IH]; intros a H; [reflexivity|].
  cbn [fold_left map] in *. unfold cntL in H. cbn [filter] in H. unfold st_blk at 2. unfold isL in H at 1.
  destruct ((k =? b_ino (fst w)) && bhas LAST (fst w)); [discriminate H|]. apply IH. exact H.
Qed.

Lemma start_canon_snoc ws w k : start_canon (ws ++ [w]) k = st_blk k (start_canon ws k) w.
Proof. unfold start_canon. rewrite fold_left_app. reflexivity. Qed.

Lemma sparse_canon_flush splog ws b k :
  sparse_canon splog (ws ++ [b]) k = sp_blk k (sparse_canon splog ws k) b.
Proof. unfold sparse_canon. rewrite fold_left_app. reflexivity. Qed.

Lemma sp_fold_add k n : forall ws a, fold_left (sp_blk k) ws (a + n) = fold_left (sp_blk k) ws a + n.
Proof.
  induction ws as [|b ws IH]; intros a; [reflexivity|]. cbn [fold_left]. unfold sp_blk at 2 4.
  destruct ((k =? b_ino b) && bhas SPARSE b); [|apply IH].
  replace (a + n + len (b_data b)) with (a + len (b_data b) + n) by lia. apply IH.
Qed.

Lemma sparse_canon_sp splog ws k e :
  sparse_canon (splog ++ [e]) ws k = sp_add k (sparse_canon splog ws k) e.
Proof.
  unfold sparse_canon. rewrite fold_left_app. cbn [fold_left]. unfold sp_add at 1 3.
  destruct (k =? fst e); [apply sp_fold_add|reflexivity].
Qed.

Lemma size_canon_app a b k : size_canon (a ++ b) k = fold_left (sz_ev k) b (size_canon a k).
Proof. unfold size_canon. apply fold_left_app. Qed.
