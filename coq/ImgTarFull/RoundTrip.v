(* ImgTarFull — tar -> image bytes -> tar with NOTHING assumed.

   conv_roundtrip_full: for an archive in the shape sqfs2tar emits, the entries sqfs2tar's composed model (the reader
   models on the image BYTES, the walk with its hard link filter, xattr lists and file contents attached as read) hands
   to write_archive are C04's [reimage_all] of the archive — names, order, metadata, link structure (ImgTar),
   AND the xattr list of every entry in stored order AND the contents of every regular file.  ImgTar's
   reimage_is_theorem took the last two from reimage_all itself ("attach_all"); here they come out of the image.
   conv_fixpoint_full / conv_second_round_full: hence the archive sqfs2tar writes from the image tar2sqfs builds from
   sqfs2tar's archive of a listing is that archive, byte for byte. *)
From Coq Require Import List NArith ZArith Bool Lia Permutation Sorted.
From SqfsV Require Import Base.Bytes Gen.Constants C03.Common.
From SqfsV Require C04.TarNum C04.TarHdr C04.TarHdrProofs C04.TarStream C04.TarStreamProofs C04.TarArchiveProofs.
From SqfsV Require Import C01.GenC01 C01.InodeModel C01.XattrModel Img.TreeModel.
From SqfsV Require C01.Res.
From SqfsV Require Import C11.StrOrder C11.FstreeModel C11.PostModel.
From SqfsV Require Import ImgPost.Bridge ImgPost.PathsModel ImgPost.ListPos.
From SqfsV Require Import Image.FinishModel.
From SqfsV Require C05.RBase.
From SqfsV Require Import ImgReader.Embed ImgReader.ReadImage.
From SqfsV Require Import ImgTar.Model ImgTar.AddLookup ImgTar.Semantics ImgTar.Reimage ImgTar.Compose.
From SqfsV Require Import ImgE2E.PackAll ImgE2E.Hyps.
From SqfsV Require Import ImgTarFull.Model ImgTarFull.XattrOrder ImgTarFull.TreeOrder ImgTarFull.Bridge ImgTarFull.ReadsBack.
Import ListNotations.
Local Open Scope N_scope.

(* two descriptions of an entry from which sqfs2tar's write_entry + write_file_data produce the same bytes: meq on the
   header fields; the xattr list unless it is a hard link record (write_tar_header writes none for those); the contents
   of a regular file *)
Definition feq (o r : tentry) : Prop :=
  meq (te_e o, te_target o) r /\
  (TarHdr.e_hardlink (te_e o) = false -> te_xattr o = te_xattr r) /\
  (TarStream.is_reg (TarHdr.e_mode (te_e o)) && negb (TarHdr.e_hardlink (te_e o)) = true -> te_data o = te_data r).

Lemma write_entries_feq : forall out rs c, Forall2 feq out rs ->
  TarStream.write_entries out c = TarStream.write_entries rs c.
Proof.
  induction out as [|o out IH]; intros rs c F; inversion F as [|? r ? rs' M F']; subst; [reflexivity|].
  rewrite !TarArchiveProofs.write_entries_eq.
  destruct M as ((Mn & Mh & Mm & Mu & Mg & Mt & Ms & Md & Mtg) & Mx & Mdat). cbn [fst snd] in *.
  assert (Eh : TarStream.write_entry_hdr o c = TarStream.write_entry_hdr r c).
  { unfold TarStream.write_entry_hdr. apply TarArchiveProofs.write_tar_header_irrel; auto.
    intro H. rewrite (Mx H). reflexivity. }
  assert (Eb : TarArchiveProofs.body o = TarArchiveProofs.body r).
  { unfold TarArchiveProofs.body. rewrite <- Mm, <- Mh.
    destruct (TarStream.is_reg (TarHdr.e_mode (te_e o)) && negb (TarHdr.e_hardlink (te_e o))) eqn:R; [|reflexivity].
    rewrite (Mdat eq_refl). apply andb_prop in R. destruct R as [R _]. rewrite (Ms R). reflexivity. }
  rewrite Eh, Eb, (IH rs' (c + 1) F'). reflexivity.
Qed.

(* ------------------------------------------------------------------ positional lemmas *)
Lemma Forall2_of_nth {A B} (R : A -> B -> Prop) : forall l1 l2, length l1 = length l2 ->
  (forall k a b, nth_error l1 k = Some a -> nth_error l2 k = Some b -> R a b) -> Forall2 R l1 l2.
Proof.
  induction l1 as [|a l1 IH]; intros l2 L H; destruct l2 as [|b l2]; try discriminate; [constructor|].
  constructor; [apply (H O a b); reflexivity|]. apply IH; [cbn in L; lia|]. intros k x y Hx Hy. apply (H (S k)); assumption.
Qed.

Lemma Forall2_nth_both {A B} (R : A -> B -> Prop) l1 l2 : Forall2 R l1 l2 ->
  forall k a b, nth_error l1 k = Some a -> nth_error l2 k = Some b -> R a b.
Proof.
  induction 1 as [|x y l1 l2 Hxy F IH]; intros k a b Ha Hb; [destruct k; discriminate|].
  destruct k as [|k]; cbn [nth_error] in *; [injection Ha as <-; injection Hb as <-; exact Hxy|exact (IH k a b Ha Hb)].
Qed.

Lemma attach_all_length nx : forall ms es, length ms = length es -> length (s2t_attach_all nx ms es) = length ms.
Proof.
  induction ms as [|m ms IH]; intros es L; destruct es as [|e es]; try discriminate; [reflexivity|].
  cbn [s2t_attach_all length]. rewrite IH; [reflexivity|cbn in L; lia].
Qed.

Lemma attach_all_nth nx : forall ms es k o, nth_error (s2t_attach_all nx ms es) k = Some o ->
  exists m e, nth_error ms k = Some m /\ nth_error es k = Some e /\ o = s2t_attach nx m e.
Proof.
  induction ms as [|m ms IH]; intros es k o H; [destruct k; discriminate|].
  destruct es as [|e es]; [destruct k; discriminate|]. cbn [s2t_attach_all] in H.
  destruct k as [|k]; cbn [nth_error] in *; [injection H as <-; eauto|exact (IH es k o H)].
Qed.

Lemma reimage_all_nth : forall vs tbl k r t, nth_error (TarStream.reimage_all tbl vs) k = Some r -> nth_error vs k = Some t ->
  r = TarStream.reimage t (nth k (stored_all tbl (map te_xattr vs)) []).
Proof.
  induction vs as [|v vs IH]; intros tbl k r t Hr Ht; [destruct k; discriminate|].
  cbn [TarStream.reimage_all map stored_all] in *. destruct k as [|k]; cbn [nth_error nth] in *.
  - injection Hr as <-. injection Ht as <-. reflexivity.
  - exact (IH _ k r t Hr Ht).
Qed.

Lemma Forall2_length' {A B} (R : A -> B -> Prop) l1 l2 : Forall2 R l1 l2 -> length l1 = length l2.
Proof. induction 1; cbn; congruence. Qed.

(* ------------------------------------------------------------------ the payload sqfs2tar attaches *)
Lemma attach_feq tbl0 vs num ms out :
  NoDup (map ent_path vs) ->
  Forall2 meq ms (TarStream.reimage_all tbl0 vs) ->
  Forall2 (entry_back_x tbl0 vs num) vs out ->
  Forall2 feq (s2t_attach_all false ms out) (TarStream.reimage_all tbl0 vs).
Proof.
  intros ND Fms F.
  pose proof (Forall2_length' _ _ _ Fms) as L1. pose proof (Forall2_length' _ _ _ F) as L2.
  rewrite reimage_all_length in L1.
  apply Forall2_of_nth.
  - rewrite attach_all_length, reimage_all_length; congruence.
  - intros k o r Ho Hr. destruct (attach_all_nth false ms out k o Ho) as (m & e & Hm & He & ->).
    assert (Hk : (k < length vs)%nat) by (rewrite <- L1; apply nth_error_Some; congruence).
    destruct (nth_error vs k) as [t|] eqn:Ht; [|apply nth_error_None in Ht; lia].
    pose proof (Forall2_nth_both _ _ _ Fms k m r Hm Hr) as Mq.
    pose proof (Forall2_nth_both _ _ _ F k t e Ht He) as (id & u & Ix & _ & _ & _ & Self & Ed & Exs).
    pose proof (reimage_all_nth vs tbl0 k r t Hr Ht) as Er.
    destruct m as [me mt]. unfold feq, s2t_attach. cbn [TarStream.te_e TarStream.te_target TarStream.te_xattr TarStream.te_data fst snd].
    split; [exact Mq|].
    destruct Mq as (_ & Mh & Mm & _). cbn [fst] in Mh, Mm.
    assert (Eh : TarHdr.e_hardlink (te_e r) = t_hard t) by (rewrite Er; reflexivity).
    assert (Emode : TarHdr.e_mode (te_e r) = t_mode t) by (rewrite Er; reflexivity).
    assert (Plain : TarHdr.e_hardlink me = false -> id = ent_path t /\ u = t).
    { intro H. rewrite Mh, Eh in H. split; [|exact (Self H)].
      destruct Ix as (_ & _ & _ & _ & I). rewrite H in I. apply I. }
    split.
    + intro H. destruct (Plain H) as [-> _]. rewrite Exs, Er. cbn [TarStream.te_xattr TarStream.reimage].
      unfold stored_at.
      assert (Hpk : nth_error (map ent_path vs) k = Some (ent_path t)) by (rewrite nth_error_map, Ht; reflexivity).
      rewrite (nth_index_nodup _ _ _ ND Hpk). reflexivity.
    + intro H. apply andb_prop in H. destruct H as [R H]. apply negb_true_iff in H.
      destruct (Plain H) as [_ ->]. rewrite R, Ed. rewrite Mm, Emode in R. rewrite R, Er. reflexivity.
Qed.

(* ------------------------------------------------------------------ data_ok of what the tar reader sees *)
Lemma view_data_ok t : TarArchiveProofs.entry_ok t -> TarArchiveProofs.data_ok (TarArchiveProofs.view t).
Proof.
  intros (W & D & _) R.
  destruct (TarArchiveProofs.view_facts t) as (Fh & _ & _ & _ & _ & _ & Fs & _).
  pose proof (TarArchiveProofs.view_mode_gen t (TarHdrProofs.wf_mode _ _ _ W)) as Em.
  apply andb_prop in R. destruct R as [R Hh]. apply negb_true_iff in Hh. rewrite Fh in Hh.
  rewrite Em, Hh in R. cbn [orb] in R.
  destruct (TarHdr.ftype (TarHdr.e_mode (te_e t)) =? TarHdr.S_IFLNK) eqn:El; [discriminate|].
  assert (R2 : TarStream.is_reg (TarHdr.e_mode (te_e t)) && negb (TarHdr.e_hardlink (te_e t)) = true) by (rewrite R, Hh; reflexivity).
  rewrite (Fs R2), <- (D R2). unfold TarArchiveProofs.view. cbn [TarStream.te_data].
  change (TarStream.entry_of _ _) with (te_e (TarArchiveProofs.view t)). rewrite Em, Hh. cbn [orb]. rewrite R. reflexivity.
Qed.

Lemma views_data_ok es : Forall TarArchiveProofs.entry_ok es -> Forall TarArchiveProofs.data_ok (TarArchiveProofs.views es).
Proof.
  intro F. unfold TarArchiveProofs.views. apply Forall_forall. intros v Hv. apply in_flat_map in Hv.
  destruct Hv as (t & Ht & Hv). destruct (TarArchiveProofs.supported t); [|destruct Hv].
  destruct Hv as [<-|[]]. apply view_data_ok. rewrite Forall_forall in F. exact (F t Ht).
Qed.

(* ------------------------------------------------------------------ the statements *)
Section RT.
  Variable hashf : list N -> N.
  Variable dcompress : list N -> option (list N).
  Variable duncompress : list N -> nat -> option (list N).
  Hypothesis Hdcomp : forall b c, dcompress b = Some c ->
    (length c < length b)%nat /\ forall n, (length b <= n)%nat -> duncompress c n = Some b.
  Variable half : nat.
  Variable mcompress : list N -> cres.
  Variable muncompress : list N -> option (list N).
  Hypothesis Hmcomp : forall b c, mcompress b = CData c -> lenN c <= lenN b /\ muncompress c = Some b.
  Variable uc : list N -> N -> RBase.res (list N).
  Hypothesis uc_ok : uc_meets muncompress uc.
  Variable limit : N.
  Hypothesis Hlimit : limit <= 65535.
  Variable cfg : wcfg.
  Variable no_tail_pack : bool.
  Variable d : fsdefaults.
  Variable opts : list N.
  Variable sched : list nat.

  Notation t2s := (t2s_full opts0 no_tail_pack false d hashf dcompress duncompress half mcompress limit cfg opts sched).
  Notation okb vs r := (e2e_okb half cfg (pi_of no_tail_pack cfg d opts sched vs) (with_root r)).

  Theorem conv_roundtrip_full_s vs r depth efuel fuel :
    tree_shapeb vs = true -> Forall TarArchiveProofs.data_ok vs -> xattrs_ok vs ->
    t2s vs = PDone r -> okb vs r = true ->
    (e2e_depth r <= depth)%nat -> (e2e_efuel r <= efuel)%nat -> (e2e_fuel r <= fuel)%nat ->
    exists out,
      sqfs2tar_full uc muncompress duncompress false false (image_bytes (r_w r)) depth efuel fuel = S2Ok out /\
      Forall2 feq out (TarStream.reimage_all [] vs) /\
      TarStream.write_archive out = TarStream.write_archive (TarStream.reimage_all [] vs).
  Proof.
    intros Ts Hd Hx Hrun Hok B1 B2 B3.
    pose proof (t2s_is_pack_all no_tail_pack d hashf dcompress duncompress half mcompress limit cfg opts sched vs Ts
                  (okb_nox _ _ _ _ Hok) [] r eq_refl Hrun) as Hpack.
    destruct (rb_walk hashf dcompress duncompress Hdcomp half mcompress muncompress Hmcomp uc uc_ok limit Hlimit cfg
                no_tail_pack d opts sched vs [] (with_root r) Ts Hd (NoDup_nil _) Hpack Hok Hx xset_ok_nil depth efuel fuel B1 B2 B3)
      as (e0 & out & ms & RA & Ems & Fms & Enr & F).
    change (fst (TarStream.store_xattrs [] [])) with (@nil (list N)) in Fms, F.
    exists (s2t_attach_all false ms out).
    assert (Fq : Forall2 feq (s2t_attach_all false ms out) (TarStream.reimage_all [] vs)).
    { apply (attach_feq [] vs _ ms out (shape_nodup vs Ts) Fms F). }
    split; [|split; [exact Fq|]].
    - unfold sqfs2tar_full. change (image_bytes (r_w (with_root r))) with (image_bytes (r_w r)) in RA.
      rewrite RA. unfold s2t_full_entries. rewrite Ems, Enr. reflexivity.
    - unfold TarStream.write_archive. rewrite (write_entries_feq _ _ 0 Fq). reflexivity.
  Qed.

  Theorem conv_fixpoint_full_s es r depth efuel fuel :
    Forall TarArchiveProofs.entry_ok es -> Forall TarArchiveProofs.img_shape es -> TarArchiveProofs.settled [] es ->
    let vs := TarArchiveProofs.views es in
    tree_shapeb vs = true -> xattrs_ok vs ->
    t2s vs = PDone r -> okb vs r = true ->
    (e2e_depth r <= depth)%nat -> (e2e_efuel r <= efuel)%nat -> (e2e_fuel r <= fuel)%nat ->
    TarStream.read_archive (TarStream.write_archive es) = TarStream.RA_Ok vs /\
    exists out,
      sqfs2tar_full uc muncompress duncompress false false (image_bytes (r_w r)) depth efuel fuel = S2Ok out /\
      TarStream.write_archive out = TarStream.write_archive es.
  Proof.
    intros Hok Hsh Hst vs Ts Hx Hrun Hokb B1 B2 B3.
    split; [apply TarArchiveProofs.archive_rt_l; exact Hok|].
    destruct (conv_roundtrip_full_s vs r depth efuel fuel Ts (views_data_ok es Hok) Hx Hrun Hokb B1 B2 B3) as (out & S & _ & W).
    exists out. split; [exact S|]. rewrite W. unfold TarStream.write_archive. f_equal.
    unfold vs. rewrite TarArchiveProofs.views_all_supported.
    - apply TarArchiveProofs.write_entries_reimage; assumption.
    - eapply Forall_impl; [|exact Hsh]. intros t S'. apply (TarArchiveProofs.is_supported t S').
  Qed.

  Theorem conv_second_round_full_s es r depth efuel fuel :
    Forall TarArchiveProofs.entry_ok es -> Forall TarArchiveProofs.short_name es ->
    let es1 := TarStream.reimage_all [] (TarArchiveProofs.views es) in
    let vs := TarArchiveProofs.views es1 in
    tree_shapeb vs = true -> xattrs_ok vs ->
    t2s vs = PDone r -> okb vs r = true ->
    (e2e_depth r <= depth)%nat -> (e2e_efuel r <= efuel)%nat -> (e2e_fuel r <= fuel)%nat ->
    TarStream.convert es = TarStream.RA_Ok es1 /\
    TarStream.read_archive (TarStream.write_archive es1) = TarStream.RA_Ok vs /\
    exists out,
      sqfs2tar_full uc muncompress duncompress false false (image_bytes (r_w r)) depth efuel fuel = S2Ok out /\
      TarStream.write_archive out = TarStream.write_archive es1.
  Proof.
    intros Hok Hshort es1 vs Ts Hx Hrun Hokb B1 B2 B3.
    split.
    { unfold TarStream.convert. rewrite (TarArchiveProofs.archive_rt_l es Hok). reflexivity. }
    destruct (TarArchiveProofs.round_one es [] Hok Hshort) as (Hok1 & Hsh1 & Hst1).
    exact (conv_fixpoint_full_s es1 r depth efuel fuel Hok1 Hsh1 Hst1 Ts Hx Hrun Hokb B1 B2 B3).
  Qed.

  (* ... on BYTES: one round of the composed tools maps sqfs2tar's archive of such a listing to itself *)
  Theorem conv_round_fixpoint_s es r :
    Forall TarArchiveProofs.entry_ok es -> Forall TarArchiveProofs.img_shape es -> TarArchiveProofs.settled [] es ->
    let vs := TarArchiveProofs.views es in
    tree_shapeb vs = true -> xattrs_ok vs ->
    t2s vs = PDone r -> okb vs r = true -> uc = uc_of muncompress -> no_tail_pack = false ->
    exists out,
      conv_round hashf dcompress duncompress half mcompress muncompress limit cfg opts sched d (TarStream.write_archive es)
      = RoundOk (image_bytes (r_w r)) out (TarStream.write_archive es).
  Proof.
    intros Hok Hsh Hst vs Ts Hx Hrun Hokb Euc Entp.
    destruct (conv_fixpoint_full_s es r (e2e_depth r) (e2e_efuel r) (e2e_fuel r) Hok Hsh Hst Ts Hx Hrun Hokb
                (le_n _) (le_n _) (le_n _)) as (RA & out & S & W).
    exists out. unfold conv_round. rewrite RA. fold vs. subst no_tail_pack. rewrite Hrun. unfold round_fuels.
    subst uc. rewrite S, W. reflexivity.
  Qed.
End RT.
