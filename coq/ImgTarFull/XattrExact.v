(* ImgTarFull — the xattr reader specification returns the pairs of a block in the STORED order.

   ImgXattr.ImageXattr.image_xattr_roundtrip says: reading the set an index names from the image bytes returns a
   permutation of the node's key/value set.  Its proof establishes more — the list returned for block k is the block's
   pairs mapped through the key and value tables, in block order ([kmap xw blk]); this file states that. *)
From Coq Require Import List NArith ZArith Bool Lia.
From SqfsV Require Import Base.Bytes Gen.Constants C03.Common C03.ListN.
From SqfsV Require C14.SuperModel.
From SqfsV Require Import C01.GenC01 C01.Res C01.XattrModel C01.XattrProofs C01.XattrWriterProofs.
From SqfsV Require Import Image.FinishModel Image.ReaderModel Image.ValidModel Image.FinishProofs Image.ImageProofs.
From SqfsV Require Import ImgXattr.FlushModel ImgXattr.CodecRel ImgXattr.KvRefine ImgXattr.IdRefine ImgXattr.FlushShape
  ImgXattr.XattrRead ImgXattr.SectionProofs ImgXattr.RoundTrip ImgXattr.ImageXattr.
Import ListNotations.
Local Open Scope N_scope.

Section IXE.
  Variable compress : list N -> cres.
  Variable uncompress : list N -> option (list N).
  Hypothesis compress_ok :
    forall b c, compress b = CData c -> lenN c <= lenN b /\ uncompress c = Some b.
  Variable limit : N.
  Hypothesis limit_ok : limit <= 65535.
  Variable cfg : wcfg.
  Variable inp : winput.
  Variable w : wimage.
  Hypothesis Hw : write_image compress limit cfg inp = Ok w.
  Hypothesis Hdom : image_domain cfg inp = true.
  Hypothesis Hfit : image_fits w = true.
  Variable xw : xwr.
  Hypothesis Hx : xflush compress (o_xattr w) xw = Ok (in_xattr inp).
  Hypothesis Hcount : nlen (x_blocks xw) < 4294967296.
  Hypothesis Hinv : winv xw.
  Hypothesis Hblen : blen xw.
  Hypothesis Hbne : blocks_ne xw.
  Hypothesis H48 : lenN (w_xattrb w) < 281474976710656.
  Hypothesis Hnox : c_no_xattr cfg = false.
  Hypothesis Hnoidx : nlen (x_blocks xw) < NOIDX.

  Theorem image_xattr_exact_l k blk :
    nth_error (x_blocks xw) k = Some blk ->
    read_xattr_set uncompress (image_bytes w) (w_super w) (N.of_nat k) = Ok (kmap xw blk).
  Proof.
    intro Nb.
    assert (NE : x_blocks xw <> []) by (intro Z; rewrite Z in Nb; destruct k; discriminate).
    assert (EX0 : exists xb off, in_xattr inp = Some (xb, off)).
    { pose proof Hx as Hx'. destruct (in_xattr inp) as [[xb off]|]; [eauto|].
      exfalso. apply NE. apply (xflush_none compress (o_xattr w) xw Hbne). exact Hx'. }
    destruct EX0 as (xb & off & EX).
    destruct (write_image_shape compress limit cfg inp w Hw) as (dwr & f1 & f2 & _ & _ & _ & _ & _ & XW & _).
    rewrite EX, Hnox in XW. unfold xattr_write in XW. injection XW as EB ES _.
    pose proof (lay compress uncompress compress_ok limit limit_ok cfg inp w Hw Hdom Hfit) as Lay.
    destruct (il_used _ _ _ _ Lay) as [U _].
    assert (EX' : in_xattr inp = Some (w_xattrb w, off)) by (rewrite EX, EB; reflexivity).
    destruct (section_shape compress uncompress compress_ok inp w xw Hx off EX') as (kvr & idr & descs & SH).
    destruct Hinv as [KN VN T CR CK BR].
    assert (KL : N.of_nat k < nlen (x_blocks xw)).
    { assert (k < length (x_blocks xw))%nat by (apply nth_error_Some; congruence). unfold nlen. lia. }
    unfold read_xattr_set. destruct (N.eqb_spec (N.of_nat k) NOIDX) as [Z|_]; [lia|].
    rewrite (img_eq compress limit cfg inp w Hw).
    rewrite (read_xattr_table_written compress uncompress compress_ok _ _ _ _ _ _ _ SH _ (zeros (w_pad w)) (w_super w)
               (pre_len compress uncompress compress_ok limit limit_ok cfg inp w Hw Hdom)
               (eq_sym ES) U (used64 compress uncompress compress_ok limit limit_ok cfg inp w Hw Hdom Hfit) Hcount).
    unfold written_table.
    exact (xt_set_written compress uncompress compress_ok _ _ _ _ _ _ _ SH Hcount T BR Hbne Hblen H48 _ k blk Nb).
  Qed.
End IXE.
