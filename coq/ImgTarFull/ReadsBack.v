(* ImgTarFull — tar2sqfs_image_reads_back: the first sentence of C04 as a theorem about image BYTES.

   For every archive in the shape sqfs2tar emits (tree_shapeb: canonical names, strictly sorted in directory order,
   every directory listed, hard link records behind the name they point to) whose run of the composed tar2sqfs model
   succeeds within the decidable bounds of ImgE2E (e2e_okb on the corresponding pack_all input), the models of the REAL
   readers — C05 super block / id table / directory reader, C05 fragment table loader, C10 data reader — and the xattr
   reader specification return from the bytes of the image, in archive order, one entry per archive entry:
     - the path; mode, owner, clamped time stamp, size, device number, symbolic link target of the inode (item_ok),
     - the inode is the entry's own, or for a hard link record that of the entry it names (equal inode numbers),
     - the contents of a regular file: the bytes the tar file stream delivered (holes expanded: sparse_contents),
     - the key/value pairs of the inode: the supported pairs of the entry as a set (entry_back), and — for pairwise
       different keys per entry — the exact list in the order the xattr writer stores them (entry_back_x), which is
       C04's store_xattrs threaded through the archive as reimage_all threads it. *)
From Coq Require Import List NArith ZArith Bool Lia Permutation Sorted.
From SqfsV Require Import Base.Bytes Gen.Constants C03.Common C03.ListN.
From SqfsV Require C14.SuperModel.
From SqfsV Require C04.TarNum C04.TarHdr C04.TarStream C04.TarStreamProofs C04.TarArchiveProofs.
From SqfsV Require Import C01.GenC01 C01.InodeModel C01.XattrModel C01.XattrProofs C01.XattrWriterProofs Img.TreeModel.
From SqfsV Require C01.Res.
From SqfsV Require Import C11.StrOrder C11.FstreeModel C11.PostModel.
From SqfsV Require Import ImgPost.Bridge ImgPost.PathsModel ImgPost.ListPos ImgPost.TreeInv ImgPost.BridgeProofs ImgPost.PathsProofs.
From SqfsV Require Import C08.DedupModel.
From SqfsV Require Import Image.FinishModel Image.FinishProofs Image.ImageProofs.
From SqfsV Require Import ImgData.GlueModel.
From SqfsV Require Import ImgXattr.FlushModel ImgXattr.XattrRead ImgXattr.ImageXattr.
From SqfsV Require C05.RBase C05.Super.
From SqfsV Require C10.DataModel.
From SqfsV Require Import ImgReader.Embed ImgReader.ReadImage.
From SqfsV Require Import ImgTar.Model ImgTar.AddLookup ImgTar.Semantics ImgTar.Reimage ImgTar.Compose.
From SqfsV Require Import ImgE2E.PackAll ImgE2E.Hyps ImgE2E.BodyProofs ImgE2E.Facts ImgE2E.Compose.
From SqfsV Require Import ImgTarFull.Model ImgTarFull.XattrOrder ImgTarFull.XattrExact ImgTarFull.TreeOrder ImgTarFull.Bridge.
Import ListNotations.
Local Open Scope N_scope.

(* ------------------------------------------------------------------ what is expected of the entry read for [t] *)
(* the pairs the image stores for the node [id], in stored order *)
Definition stored_at (tbl0 : list (list N)) (vs : list tentry) (id : path) : list xattr :=
  match index_of id (map ent_path vs) with
  | Some k => nth k (stored_all tbl0 (map te_xattr vs)) []
  | None => []
  end.

Definition entry_back (vs : list tentry) (num : path -> N) (t : tentry) (e : rentry) : Prop :=
  exists id u,
    item_ok t (re_path e, re_view e, id) /\ re_ino e = num id /\
    ent_at vs id = Some u /\ t_hard u = false /\ (t_hard t = false -> u = t) /\
    re_data e = (if TarStream.is_reg (t_mode u) then Some (te_data u) else None) /\
    Permutation (re_xattrs e) (xkept (te_xattr u)).

Definition entry_back_x (tbl0 : list (list N)) (vs : list tentry) (num : path -> N) (t : tentry) (e : rentry) : Prop :=
  exists id u,
    item_ok t (re_path e, re_view e, id) /\ re_ino e = num id /\
    ent_at vs id = Some u /\ t_hard u = false /\ (t_hard t = false -> u = t) /\
    re_data e = (if TarStream.is_reg (t_mode u) then Some (te_data u) else None) /\
    re_xattrs e = stored_at tbl0 vs id.

(* the root: a directory with the attributes [d] — the defaults of the command line, or the attributes of the archive's root
   entry — and the pairs [rootx] *)
Definition root_back (d : fsdefaults) (rootx : list xattr) (e0 : rentry) : Prop :=
  re_path e0 = [] /\ re_data e0 = None /\
  pv_mode (re_view e0) = type_bits FDir + fd_perm d /\ pv_uid (re_view e0) = Some (fd_uid d) /\
  pv_gid (re_view e0) = Some (fd_gid d) /\ pv_mtime (re_view e0) = fd_mtime d /\
  Permutation (re_xattrs e0) rootx.

(* every entry's pairs: supported prefix, sizes that fit the format, pairwise different keys *)
Definition xattrs_ok (vs : list tentry) : Prop := Forall xset_ok (map te_xattr vs).

(* ------------------------------------------------------------------ read_nodes reports what the xattr reader returned *)
Lemma read_nodes_xattrs muncompress duncompress img s : forall l dr out,
  read_nodes muncompress duncompress img s dr l = RBase.Ok out ->
  Forall (fun e => read_xattr_set muncompress img (sm_of s) (pv_xattr (re_view e)) = Res.Ok (re_xattrs e)) out.
Proof.
  induction l as [|[[p v] ino] rest IH]; intros dr out H; cbn [read_nodes] in H.
  - injection H as <-. constructor.
  - destruct (read_contents duncompress img (Super.s_block_size s) dr (pv_kind v)) as [rd dr'].
    destruct rd as [dd|e| |]; cbn [RBase.bind] in H; try discriminate.
    destruct (read_xattr_set muncompress img (sm_of s) (pv_xattr v)) as [x|e| |] eqn:RX; cbn [of_res RBase.bind] in H;
      try discriminate.
    destruct (read_nodes muncompress duncompress img s dr' rest) as [tl|e| |] eqn:RN; cbn [RBase.bind] in H; try discriminate.
    injection H as <-. constructor; [cbn [re_view re_xattrs]; exact RX|exact (IH _ _ RN)].
Qed.

Lemma stored_of_reimage : forall vs tbl, map te_xattr (TarStream.reimage_all tbl vs) = stored_all tbl (map te_xattr vs).
Proof.
  induction vs as [|v r IH]; intro tbl; [reflexivity|]. cbn [TarStream.reimage_all map stored_all]. rewrite IH. reflexivity.
Qed.

Lemma Forall2_nth_error {A B} (R : A -> B -> Prop) l1 l2 : Forall2 R l1 l2 ->
  forall k a, nth_error l1 k = Some a -> exists b, nth_error l2 k = Some b /\ R a b.
Proof.
  induction 1 as [|x y l1 l2 Hxy F IH]; intros k a Hk; [destruct k; discriminate|].
  destruct k as [|k]; cbn [nth_error] in *; [injection Hk as <-; eauto|exact (IH k a Hk)].
Qed.

Section RB.
  Variable hashf : list N -> N.
  Variable dcompress : list N -> option (list N).
  Variable duncompress : list N -> nat -> option (list N).
  Hypothesis Hdcomp : forall b c, dcompress b = Some c ->
    (length c < length b)%nat /\ forall n, (length b <= n)%nat -> duncompress c n = Some b.
  Variable half : nat.
  Variable mcompress : list N -> cres.
  Variable muncompress : list N -> option (list N).
  Hypothesis Hmcomp : forall b c, mcompress b = CData c -> lenN c <= lenN b /\ muncompress c = Some b.
  Variable uc : list N -> N -> RBase.res (list N).
  Hypothesis uc_ok : uc_meets muncompress uc.
  Variable limit : N.
  Hypothesis Hlimit : limit <= 65535.
  Variable cfg : wcfg.
  Variable no_tail_pack : bool.
  Variable d : fsdefaults.
  Variable opts : list N.
  Variable sched : list nat.
  Variable vs : list tentry.
  Variable rootx : list xattr.          (* the pairs of the root node: [] without a root entry, else xkept of the entry's *)
  Variable r' : prun.
  Hypothesis Ts : tree_shapeb vs = true.
  Hypothesis Hdata : Forall TarArchiveProofs.data_ok vs.
  Hypothesis Hrootx : NoDup (map fst rootx).

  (* [d]: the defaults the root node shows (the command line's, or the root entry's attributes);
     the run, as a run of pack_all (Bridge.t2s_is_pack_all / t2s_rooted_is_pack_all) *)
  Let pi := pi_gen no_tail_pack cfg d opts sched rootx vs.
  Hypothesis Hpack : pack_all hashf dcompress duncompress half mcompress limit cfg pi = PDone r'.
  Hypothesis Hok : e2e_okb half cfg pi r' = true.

  Let fs := r_fs r'.
  Let pp := r_pp r'.
  Let st := r_st r'.
  Let xw := r_xw r'.
  Let idxs := r_idxs r'.
  Let w := r_w r'.
  Let img := image_bytes w.
  Let bsn := N.to_nat (c_block_size cfg).
  Let arr := pp_inodes pp.
  Let fb := fb_of bsn st (pi_contents pi) (pp_files pp).
  Let xa := xa_of (xattr_paths pp) idxs.
  Let sf := w_super w.
  Let regs := filter (fun t => TarStream.is_reg (t_mode t)) vs.

  Lemma rb_nox : c_no_xattr cfg = false.
  Proof. destruct (Compose.hyps half cfg pi r' Hok) as (_ & _ & _ & _ & _ & _ & H & _). exact H. Qed.

  Lemma rb_pack : pack_all hashf dcompress duncompress half mcompress limit cfg pi = PDone r'.
  Proof. exact Hpack. Qed.

  Lemma rb_run : run_adds d (fs_init d) (adds_of_entries opts0 d vs) = Some fs.
  Proof. destruct (Compose.run_facts _ _ _ _ _ _ _ _ _ rb_pack) as (s0 & w0 & _ & A & _). exact A. Qed.

  Lemma rb_post : post_process fs = POk pp.
  Proof. destruct (Compose.run_facts _ _ _ _ _ _ _ _ _ rb_pack) as (s0 & w0 & _ & _ & P & _). exact P. Qed.

  Lemma rb_facts : forall t, In t vs -> ent_facts vs t.
  Proof. exact (shape_ent_facts vs Ts). Qed.

  Lemma rb_nodup : NoDup (map ent_path vs).
  Proof. exact (shape_nodup vs Ts). Qed.

  Lemma rb_files : pp_files pp = map ent_path regs.
  Proof. exact (shape_files d vs fs Ts rb_run pp rb_post). Qed.

  Lemma rb_paths : xattr_paths pp = [] :: map ent_path vs.
  Proof. exact (shape_xattr_paths d vs fs Ts rb_run pp rb_post). Qed.

  (* the block processor left every regular file with the announced size *)
  Lemma rb_attached : files_attached fb vs.
  Proof.
    intros t Ht R Hh.
    assert (Hin : In (ent_path t) (pp_files pp)).
    { rewrite rb_files. apply in_map. apply filter_In. split; assumption. }
    destruct (index_of_in _ _ Hin) as [k Hk]. unfold fb, fb_of. rewrite Hk, pack_body_lkind. unfold file_lkind. cbn [kind_size].
    cbn [pi pi_gen pi_contents]. rewrite (ent_at_in vs t rb_nodup Ht). cbn [snd].
    rewrite Forall_forall in Hdata. apply (Hdata t Ht). unfold t_mode, t_hard in *. rewrite R, Hh. reflexivity.
  Qed.

  (* the denoted flattening, entry by entry *)
  Lemma rb_items fl : denotes fb xa (fs_root fs) fl ->
    exists x0 fl', fl = x0 :: fl' /\ fst3 x0 = [] /\ Forall2 item_ok vs fl'.
  Proof.
    intro Den. pose proof rb_run as Run. rewrite (shape_adds d vs Ts) in Run.
    destruct (adds_denote_l d (map op_of vs) fs fb xa fl (shape_ops_ok vs rb_facts rb_nodup) (shape_links vs rb_facts rb_nodup)
                Run Den) as (S1 & S2 & S3).
    assert (Epaths : map fst3 fl = [] :: map ent_path vs).
    { apply (sorted_unique path_lt path_lt_irrefl path_lt_asym); [exact S1|exact (shape_sorted vs Ts)|].
      intro p. rewrite S2. apply (shape_closure vs rb_facts). }
    destruct fl as [|x0 fl']; [discriminate|]. cbn [map] in Epaths. injection Epaths as E0 Epaths.
    inversion S3 as [|? ? _ S3']; subst.
    exists x0, fl'. split; [reflexivity|]. split; [exact E0|].
    exact (items_of_view d fb xa vs rb_facts rb_nodup rb_attached vs fl' Epaths (fun t H => H) S3').
  Qed.

  (* the node an item names is an entry that is not a hard link record *)
  Lemma rb_node t x : In t vs -> item_ok t x ->
    exists u, In u vs /\ snd x = ent_path u /\ t_hard u = false /\ (t_hard t = false -> u = t).
  Proof.
    intros Ht. destruct x as [[p v] id]. intros (_ & _ & _ & _ & I). cbn [snd]. destruct (t_hard t) eqn:Hh.
    - destruct I as ((tg & Etg & ->) & _).
      destruct (ef_hard _ _ (rb_facts t Ht) Hh) as (_ & u & Hu & Eu & Hhu & _).
      exists u. split; [exact Hu|]. rewrite Etg in Eu. injection Eu as ->. split; [reflexivity|]. split; [exact Hhu|discriminate].
    - destruct I as (-> & _). exists t. auto.
  Qed.

  Lemma rb_node_type u nd : In u vs -> t_hard u = false -> lookup_path (ent_path u) (fs_root fs) = Some nd ->
    (match a_type (node_attr nd) with FReg => true | _ => false end) = TarStream.is_reg (t_mode u).
  Proof.
    intros Hu Hh L. destruct (shape_node d vs fs Ts rb_run u Hu) as (nd' & L' & Ty). rewrite L in L'. injection L' as <-.
    rewrite Hh in Ty. rewrite <- (reg_of_mode vs Ts u Hu Hh), Ty. destruct (ftype_of_mode (t_mode u)); reflexivity.
  Qed.

  (* one entry: what entry_matches says, in the archive's terms *)
  Lemma rb_entry t x e : In t vs -> item_ok t x -> entry_matches pi (fs_root fs) arr x e ->
    entry_back vs (ino_of arr) t e.
  Proof.
    intros Ht Ix M. destruct (rb_node t x Ht Ix) as (u & Hu & Eid & Hhu & Self).
    destruct x as [[p v] id]. cbn [snd] in Eid. subst id.
    destruct M as (Ep & Ev & Ei & (nd & L & Ed) & Px).
    exists (ent_path u), u. rewrite Ep, Ev. split; [exact Ix|]. split; [exact Ei|].
    split; [apply (ent_at_in vs u rb_nodup Hu)|]. split; [exact Hhu|]. split; [exact Self|].
    cbn [pi pi_gen pi_contents pi_xattrs] in Ed, Px. rewrite (ent_at_in vs u rb_nodup Hu) in Ed, Px. cbn [snd] in Ed.
    split; [|rewrite (set_spec_nodup _ (xkept_keys (te_xattr u))) in Px; exact Px].
    rewrite Ed, <- (rb_node_type u nd Hu Hhu L). destruct (a_type (node_attr nd)); reflexivity.
  Qed.

  Lemma rb_entries : forall ts fl' out', (forall t, In t ts -> In t vs) ->
    Forall2 item_ok ts fl' -> Forall2 (entry_matches pi (fs_root fs) arr) fl' out' ->
    Forall2 (entry_back vs (ino_of arr)) ts out'.
  Proof.
    induction ts as [|t ts IH]; intros fl' out' Sub F1 F2.
    - inversion F1; subst. inversion F2; subst. constructor.
    - inversion F1 as [|? x ? fl'' Ix F1']; subst. inversion F2 as [|? e ? out'' M F2']; subst.
      constructor; [apply (rb_entry t x e (Sub t (or_introl eq_refl)) Ix M)|].
      apply (IH fl'' out''); [intros u Hu; apply Sub; right; exact Hu|exact F1'|exact F2'].
  Qed.

  (* the root is its own node *)
  Lemma rb_root_id id0 : resolves (fs_root fs) [] id0 -> id0 = [].
  Proof.
    intro Rs. inversion Rs as [? ? _ _|? nd1 ? L1 H1 _]; subst; [reflexivity|]. cbn [lookup_path] in L1. injection L1 as <-.
    pose proof (run_adds_root_dir d _ (fs_init d) fs eq_refl rb_run) as D.
    unfold is_dir in D. unfold is_hardlink in H1. apply ftype_eqb_eq in D. rewrite D in H1. discriminate.
  Qed.

  (* ---- everything the two statements share ---- *)
  Definition denoted (x : path * pview * path) : Prop :=
    let '(p, v, id) := x in exists nd, lookup_path id (fs_root fs) = Some nd /\ v = pview_of_node fb xa id nd.

  Lemma rb_core depth efuel fuel :
    (e2e_depth r' <= depth)%nat -> (e2e_efuel r' <= efuel)%nat -> (e2e_fuel r' <= fuel)%nat ->
    exists T v0 fl' e0 out,
      read_image_c05 uc depth efuel fuel img = RBase.Ok (sup_of sf, si_ids (w_img w), T) /\
      read_all uc muncompress duncompress img depth efuel fuel = RBase.Ok (e0 :: out) /\
      root_back d rootx e0 /\
      Forall2 item_ok vs fl' /\ Forall2 (entry_matches pi (fs_root fs) arr) fl' out /\ Forall denoted fl' /\
      (forall x y, In x ((([] : path), v0, ([] : path)) :: fl') -> In y ((([] : path), v0, ([] : path)) :: fl') ->
                   ino_of arr (snd x) = ino_of arr (snd y) -> snd x = snd y).
  Proof.
    intros Hd He Hf.
    destruct (pack_all_reads_back_l hashf dcompress duncompress Hdcomp mcompress muncompress Hmcomp uc uc_ok limit Hlimit
                half cfg pi r' rb_pack Hok depth efuel fuel Hd He Hf) as (T & fl & out & RT & Den & Fl & Nu & Inj & RA & M & _).
    change (fs_root (r_fs r')) with (fs_root fs) in Den, M. change (pp_inodes (r_pp r')) with arr in *.
    change (image_bytes (r_w r')) with img in RA, RT. change (r_w r') with w in RT.
    change (fb_of (N.to_nat (c_block_size cfg)) (r_st r') (pi_contents pi) (pp_files (r_pp r'))) with fb in Den.
    change (xa_of (xattr_paths (r_pp r')) (r_idxs r')) with xa in Den.
    destruct (rb_items fl Den) as (x0 & fl' & -> & E0 & Items).
    inversion M as [|? e0 ? out' M0 M']; subst.
    destruct x0 as [[p0 v0] id0]. unfold fst3 in E0. cbn [fst] in E0. subst p0.
    destruct Den as [_ Dn]. apply Forall_cons_iff in Dn. destruct Dn as [H0 Dn']. cbn beta iota in H0.
    destruct H0 as (Rs & nd0 & L0 & Ev0).
    pose proof (rb_root_id id0 Rs) as ->.
    exists T, v0, fl', e0, out'. split; [exact RT|]. split; [exact RA|].
    destruct M0 as (Ep & Ev & _ & (nd & L & Ed) & Px). split.
    { (* the root node: a directory with the attributes of the defaults; the pairs given for it *)
      cbn [lookup_path] in L, L0. injection L as <-. injection L0 as <-.
      pose proof (run_adds_root_dir d _ (fs_init d) fs eq_refl rb_run) as D. unfold is_dir in D. apply ftype_eqb_eq in D.
      destruct (si_attr _ _ _ (shape_inv d vs fs Ts rb_run) [] (fs_root fs) eq_refl) as (_ & Ap & Au & Ag & Am & _).
      assert (Fn : find_op [] (map op_of vs) = None).
      { apply find_op_none. rewrite map_map. intro I. apply (root_not_entry vs Ts).
        apply in_map_iff in I. destruct I as (t & Et & Ht). rewrite op_of_path in Et. rewrite <- Et. apply in_map. exact Ht. }
      unfold spec_attr in Ap, Au, Ag, Am. rewrite Fn in Ap, Au, Ag, Am.
      unfold root_back. rewrite Ev, Ev0, Ed. unfold pview_of_node. cbn [pv_mode pv_uid pv_gid pv_mtime].
      rewrite D, Ap, Au, Ag, Am.
      split; [exact Ep|]. split; [reflexivity|]. split; [reflexivity|]. split; [reflexivity|]. split; [reflexivity|].
      split; [reflexivity|].
      cbn [pi pi_gen pi_xattrs] in Px. rewrite (ent_at_none vs [] (root_not_entry vs Ts)) in Px.
      rewrite (set_spec_nodup rootx Hrootx) in Px. exact Px. }
    split; [exact Items|]. split; [exact M'|]. split; [|exact Inj].
    eapply Forall_impl; [|exact Dn']. intros [[p v] id] (_ & H). exact H.
  Qed.

  (* distinct nodes have distinct inode numbers: hard link groups are exactly the groups of equal numbers *)
  Lemma rb_numbers v0 fl' : Forall2 item_ok vs fl' ->
    (forall x y, In x ((([] : path), v0, ([] : path)) :: fl') -> In y ((([] : path), v0, ([] : path)) :: fl') ->
                 ino_of arr (snd x) = ino_of arr (snd y) -> snd x = snd y) ->
    forall p q, (p = [] \/ exists u, In u vs /\ t_hard u = false /\ p = ent_path u) ->
                (q = [] \/ exists u, In u vs /\ t_hard u = false /\ q = ent_path u) ->
                ino_of arr p = ino_of arr q -> p = q.
  Proof.
    intros Items Inj.
    assert (G : forall p', (p' = [] \/ exists u, In u vs /\ t_hard u = false /\ p' = ent_path u) ->
                exists x, In x ((([] : path), v0, ([] : path)) :: fl') /\ snd x = p').
    { intros p' [->|(u & Hu & Hh & ->)].
      - exists (([] : path), v0, ([] : path)). split; [left; reflexivity|reflexivity].
      - destruct (In_nth_error _ _ Hu) as [k Hk].
        destruct (Forall2_nth_error _ _ _ Items k u Hk) as (x & Hx & Ix).
        exists x. split; [right; eapply nth_error_In; exact Hx|].
        destruct x as [[px vx] idx]. destruct Ix as (_ & _ & _ & _ & I). rewrite Hh in I. cbn [snd]. apply I. }
    intros p q Hp Hq E. destruct (G p Hp) as (x & Hx & <-). destruct (G q Hq) as (y & Hy & <-). apply Inj; assumption.
  Qed.

  (* ---- the statement: sets ---- *)
  Theorem tar2sqfs_image_reads_back_s depth efuel fuel :
    (e2e_depth r' <= depth)%nat -> (e2e_efuel r' <= efuel)%nat -> (e2e_fuel r' <= fuel)%nat ->
    exists e0 out,
      read_all uc muncompress duncompress img depth efuel fuel = RBase.Ok (e0 :: out) /\
      root_back d rootx e0 /\
      Forall2 (entry_back vs (ino_of arr)) vs out /\
      (forall p q, (p = [] \/ exists u, In u vs /\ t_hard u = false /\ p = ent_path u) ->
                   (q = [] \/ exists u, In u vs /\ t_hard u = false /\ q = ent_path u) ->
                   ino_of arr p = ino_of arr q -> p = q).
  Proof.
    intros Hd He Hf.
    destruct (rb_core depth efuel fuel Hd He Hf) as (T & v0 & fl' & e0 & out & _ & RA & Rb & Items & M & _ & Inj).
    exists e0, out. split; [exact RA|]. split; [exact Rb|].
    split; [exact (rb_entries vs fl' out (fun t H => H) Items M)|exact (rb_numbers v0 fl' Items Inj)].
  Qed.

  (* ---- the exact order of the pairs ---- *)
  Hypothesis Hx : xattrs_ok vs.
  Hypothesis Hrx : xset_ok rootx.
  Let tbl0 := fst (TarStream.store_xattrs [] rootx).

  Lemma rb_sets : map (pi_xattrs pi) (xattr_paths pp) = rootx :: map te_xattr vs.
  Proof.
    rewrite rb_paths. unfold pi. rewrite (pi_xattrs_paths no_tail_pack d cfg opts sched vs Ts rootx). f_equal.
    rewrite map_map. apply map_ext_in. intros t Ht.
    unfold xattrs_ok in Hx. rewrite Forall_forall in Hx. destruct (Hx (te_xattr t) (in_map te_xattr vs t Ht)) as (A & _ & B).
    apply xkept_all; assumption.
  Qed.

  Lemma rb_xs : xw_sets xw_empty (rootx :: map te_xattr vs) = Res.Ok (xw, idxs).
  Proof.
    destruct (Compose.run_facts _ _ _ _ _ _ _ _ _ rb_pack) as (s0 & w0 & _ & _ & _ & XS & _).
    change (r_pp r') with pp in XS. rewrite rb_sets in XS. exact XS.
  Qed.

  Lemma reimage_all_length : forall l tbl, length (TarStream.reimage_all tbl l) = length l.
  Proof. induction l as [|a l IH]; intro tbl; [reflexivity|]. cbn [TarStream.reimage_all length]. rewrite IH. reflexivity. Qed.

  (* the index stored for the node of entry number k names a block that holds the stored list, read back exactly *)
  Lemma rb_read_exact k u : nth_error vs k = Some u ->
    read_xattr_set muncompress img (sm_of (sup_of sf)) (xa (ent_path u)) = Res.Ok (stored_at tbl0 vs (ent_path u)).
  Proof.
    intro Hk.
    assert (Hpk : nth_error (map ent_path vs) k = Some (ent_path u)) by (rewrite nth_error_map, Hk; reflexivity).
    pose proof (nth_index_nodup _ _ _ rb_nodup Hpk) as Ik.
    assert (Sok : Forall xset_ok (rootx :: map te_xattr vs)).
    { constructor; [exact Hrx|exact Hx]. }
    destruct winv_empty as [I0 B0].
    destruct (xw_sets_exact _ xw_empty I0 B0 Sok) as (w' & idxs' & E' & I' & BL' & _ & Len & D).
    rewrite rb_xs in E'. injection E' as <- <-.
    assert (Exa : xa (ent_path u) = nth (S k) idxs NOX).
    { unfold xa, xa_of. rewrite rb_paths. cbn [index_of].
      destruct (path_eqb [] (ent_path u)) eqn:E.
      - apply path_eqb_eq in E. exfalso. apply (root_not_entry vs Ts). rewrite E. eapply nth_error_In. exact Hpk.
      - rewrite Ik. reflexivity. }
    assert (Hkv : (k < length vs)%nat) by (apply nth_error_Some; congruence).
    assert (Hlen : (S k < length idxs)%nat).
    { rewrite Len. cbn [length]. rewrite map_length. lia. }
    assert (Hst : nth_error (stored_all (x_keys xw_empty) (rootx :: map te_xattr vs)) (S k) = Some (stored_at tbl0 vs (ent_path u))).
    { cbn [x_keys xw_empty stored_all nth_error]. fold tbl0.
      unfold stored_at. rewrite Ik. apply nth_error_nth'.
      rewrite <- stored_of_reimage, map_length, reimage_all_length. exact Hkv. }
    specialize (D (S k) (nth (S k) idxs NOX) _ (nth_error_nth' idxs NOX Hlen) Hst).
    rewrite Exa.
    destruct D as [[Z ->]|(NE & kb & blk & Ekb & Nb & Km)].
    - rewrite Z. reflexivity.
    - rewrite Ekb, <- Km.
      destruct (Compose.hyps half cfg pi r' Hok) as (_ & H2 & _ & _ & _ & _ & Hnox & _ & _ & _ & _ & _ & Hnoidx & H48).
      change (r_xw r') with xw in Hnoidx. change (r_w r') with w in H48.
      assert (Hcount : Res.nlen (x_blocks xw) < 4294967296) by (unfold NOIDX in Hnoidx; lia).
      assert (Hs : Forall set_ok (rootx :: map te_xattr vs)).
      { eapply Forall_impl; [|exact Sok]. intros s0 (A & B & _). split; assumption. }
      destruct (ImageXattr.run_facts xw (rootx :: map te_xattr vs) idxs Hs rb_xs) as (_ & _ & BNE & _).
      rewrite (read_xattr_set_start muncompress img (sm_of (sup_of sf)) sf _ eq_refl).
      exact (image_xattr_exact_l mcompress muncompress Hmcomp limit Hlimit cfg (r_inp r') w
               (Compose.image_written _ _ _ _ _ _ _ _ _ rb_pack)
               (Compose.image_dom hashf dcompress duncompress Hdcomp half mcompress muncompress Hmcomp limit Hlimit cfg pi r' rb_pack Hok)
               (Compose.image_fit half cfg pi r' Hok) xw
               (Compose.flush_at_final_offset _ _ _ _ _ _ _ _ _ rb_pack)
               Hcount I' BL' BNE H48 Hnox Hnoidx kb blk Nb).
  Qed.

  Lemma rb_entry_x t x e : In t vs -> item_ok t x -> entry_matches pi (fs_root fs) arr x e -> denoted x ->
    read_xattr_set muncompress img (sm_of (sup_of sf)) (pv_xattr (re_view e)) = Res.Ok (re_xattrs e) ->
    entry_back_x tbl0 vs (ino_of arr) t e.
  Proof.
    intros Ht Ix M Dx Rx.
    destruct (rb_entry t x e Ht Ix M) as (id & u & I1 & I2 & I3 & I4 & I5 & I6 & _).
    exists id, u. repeat (split; [assumption|]).
    destruct (rb_node t x Ht Ix) as (u' & Hu' & Eid & _).
    destruct x as [[p v] idx]. cbn [snd] in Eid. destruct M as (_ & Ev & _). destruct Dx as (nd & _ & Evn).
    (* the node of the item is the node of entry_back *)
    assert (Eid2 : id = idx).
    { destruct I1 as (_ & _ & _ & _ & J1). destruct Ix as (_ & _ & _ & _ & J2).
      destruct (t_hard t).
      - destruct J1 as ((tg1 & E1 & ->) & _). destruct J2 as ((tg2 & E2 & ->) & _). congruence.
      - destruct J1 as (-> & _). destruct J2 as (-> & _). reflexivity. }
    subst id. rewrite Ev, Evn in Rx. cbn [pv_xattr pview_of_node] in Rx. rewrite Eid in Rx |- *.
    destruct (In_nth_error _ _ Hu') as [k Hk]. rewrite (rb_read_exact k u' Hk) in Rx. injection Rx as ->. reflexivity.
  Qed.

  Lemma rb_entries_x : forall ts fl' out', (forall t, In t ts -> In t vs) ->
    Forall2 item_ok ts fl' -> Forall2 (entry_matches pi (fs_root fs) arr) fl' out' -> Forall denoted fl' ->
    Forall (fun e => read_xattr_set muncompress img (sm_of (sup_of sf)) (pv_xattr (re_view e)) = Res.Ok (re_xattrs e)) out' ->
    Forall2 (entry_back_x tbl0 vs (ino_of arr)) ts out'.
  Proof.
    induction ts as [|t ts IH]; intros fl' out' Sub F1 F2 F3 F4.
    - inversion F1; subst. inversion F2; subst. constructor.
    - inversion F1 as [|? x ? fl'' Ix F1']; subst. inversion F2 as [|? e ? out'' M F2']; subst.
      inversion F3 as [|? ? Dx F3']; subst. inversion F4 as [|? ? Rx F4']; subst.
      constructor; [apply (rb_entry_x t x e (Sub t (or_introl eq_refl)) Ix M Dx Rx)|].
      apply (IH fl'' out''); [intros u Hu; apply Sub; right; exact Hu|assumption..].
  Qed.

  Theorem tar2sqfs_image_reads_back_x depth efuel fuel :
    (e2e_depth r' <= depth)%nat -> (e2e_efuel r' <= efuel)%nat -> (e2e_fuel r' <= fuel)%nat ->
    exists e0 out,
      read_all uc muncompress duncompress img depth efuel fuel = RBase.Ok (e0 :: out) /\
      root_back d rootx e0 /\
      Forall2 (entry_back_x tbl0 vs (ino_of arr)) vs out /\
      (forall p q, (p = [] \/ exists u, In u vs /\ t_hard u = false /\ p = ent_path u) ->
                   (q = [] \/ exists u, In u vs /\ t_hard u = false /\ q = ent_path u) ->
                   ino_of arr p = ino_of arr q -> p = q).
  Proof.
    intros Hd He Hf.
    destruct (rb_core depth efuel fuel Hd He Hf) as (T & v0 & fl' & e0 & out & RT & RA & Rb & Items & M & Dn & Inj).
    exists e0, out. split; [exact RA|]. split; [exact Rb|]. split; [|exact (rb_numbers v0 fl' Items Inj)].
    assert (RX : Forall (fun e => read_xattr_set muncompress img (sm_of (sup_of sf)) (pv_xattr (re_view e)) = Res.Ok (re_xattrs e))
                        (e0 :: out)).
    { pose proof RA as RA'. unfold read_all in RA'. rewrite RT in RA'. cbn [RBase.bind] in RA'.
      destruct (Super.frag_table_read uc img fuel (sup_of sf)) as [raw|e| |]; cbn [RBase.bind] in RA'; try discriminate.
      exact (read_nodes_xattrs _ _ _ _ _ _ _ RA'). }
    inversion RX as [|? ? _ RX']; subst.
    exact (rb_entries_x vs fl' out (fun t H => H) Items M Dn RX').
  Qed.

  (* ------------------------------------------------------------------ sqfs2tar on that image *)
  Lemma rb_keys : forall fl out, Forall2 (entry_matches pi (fs_root fs) arr) fl out -> map key3 out = map (number arr) fl.
  Proof.
    induction 1 as [|x e fl out Mx _ IH]; [reflexivity|]. cbn [map]. rewrite IH. f_equal.
    destruct x as [[p v] id]. destruct Mx as (Ep & Ev & Ei & _). unfold key3, number. rewrite Ep, Ev, Ei. reflexivity.
  Qed.

  Lemma rb_nonroot : forall ts out, (forall t, In t ts -> In t vs) ->
    Forall2 (entry_back_x tbl0 vs (ino_of arr)) ts out -> filter nonroot out = out.
  Proof.
    induction ts as [|t ts IH]; intros out Sub F; inversion F as [|? e ? out' B F']; subst; [reflexivity|].
    cbn [filter]. destruct B as (id & u & (Ep & _) & _).
    destruct (tname_ok_facts t (ef_name _ _ (rb_facts t (Sub t (or_introl eq_refl))))) as (Pne & _).
    unfold nonroot at 1. rewrite Ep. destruct (ent_path t); [contradiction|].
    rewrite (IH out' (fun u Hu => Sub u (or_intror Hu)) F'). reflexivity.
  Qed.

  Lemma rb_walk depth efuel fuel :
    (e2e_depth r' <= depth)%nat -> (e2e_efuel r' <= efuel)%nat -> (e2e_fuel r' <= fuel)%nat ->
    exists e0 out ms,
      read_all uc muncompress duncompress img depth efuel fuel = RBase.Ok (e0 :: out) /\
      sqfs2tar_entries false (map key3 (e0 :: out)) = Some ms /\
      Forall2 meq ms (TarStream.reimage_all tbl0 vs) /\
      filter nonroot (e0 :: out) = out /\
      Forall2 (entry_back_x tbl0 vs (ino_of arr)) vs out.
  Proof.
    intros Hd He Hf.
    destruct (tar2sqfs_image_reads_back_x depth efuel fuel Hd He Hf) as (e0 & out & RA & (Ep & _) & F & _).
    destruct (pack_all_reads_back_l hashf dcompress duncompress Hdcomp mcompress muncompress Hmcomp uc uc_ok limit Hlimit
                half cfg pi r' rb_pack Hok depth efuel fuel Hd He Hf) as (T & fl & out2 & _ & Den & _ & _ & Inj & RA2 & M & _).
    change (image_bytes (r_w r')) with img in RA2. rewrite RA in RA2. injection RA2 as <-.
    change (fs_root (r_fs r')) with (fs_root fs) in Den, M. change (pp_inodes (r_pp r')) with arr in *.
    change (fb_of (N.to_nat (c_block_size cfg)) (r_st r') (pi_contents pi) (pp_files (r_pp r'))) with fb in Den.
    change (xa_of (xattr_paths (r_pp r')) (r_idxs r')) with xa in Den.
    destruct (reimage_meta_l d vs fs fb xa fl arr tbl0 Ts rb_run Den rb_attached Inj) as (ms & Ems & Fms).
    exists e0, out, ms. split; [exact RA|]. rewrite (rb_keys fl (e0 :: out) M). split; [exact Ems|]. split; [exact Fms|].
    split; [|exact F]. cbn [filter]. unfold nonroot at 1. rewrite Ep. exact (rb_nonroot vs out (fun t H => H) F).
  Qed.
End RB.

Lemma okb_nox half cfg pi r : e2e_okb half cfg pi r = true -> c_no_xattr cfg = false.
Proof. intro H. destruct (Compose.hyps half cfg pi r H) as (_ & _ & _ & _ & _ & _ & X & _). exact X. Qed.

Lemma xset_ok_nil : xset_ok [].
Proof. split; [constructor|]. split; [cbn; lia|constructor]. Qed.
