(* ImgTarFull — the statements of Properties_C04.v, section "ImgTarFull", section-free. *)
From Coq Require Import List NArith ZArith Bool Lia Permutation Sorted.
From SqfsV Require Import Base.Bytes Gen.Constants C03.Common.
From SqfsV Require C04.TarNum C04.TarHdr C04.TarStream C04.TarStreamProofs C04.TarArchiveProofs.
From SqfsV Require Import C01.GenC01 C01.InodeModel C01.XattrModel C01.XattrProofs C01.XattrWriterProofs Img.TreeModel.
From SqfsV Require C01.Res.
From SqfsV Require Import C11.StrOrder C11.FstreeModel C11.PostModel.
From SqfsV Require Import ImgPost.Bridge ImgPost.PathsModel.
From SqfsV Require Import Image.FinishModel.
From SqfsV Require C05.RBase.
From SqfsV Require Import ImgReader.Embed ImgReader.ReadImage.
From SqfsV Require ImgReader.Closed ImgPost.ListPos.
From SqfsV Require Import ImgTar.Model ImgTar.Semantics ImgTar.Reimage ImgTar.Compose.
From SqfsV Require ImgPost.InputOk.
From SqfsV Require Import ImgE2E.PackAll ImgE2E.Hyps.
From SqfsV Require Import ImgTarFull.Model ImgTarFull.XattrOrder ImgTarFull.TreeOrder ImgTarFull.Rooted ImgTarFull.Bridge ImgTarFull.ReadsBack
  ImgTarFull.RoundTrip ImgTarFull.Checks.
Import ListNotations.
Local Open Scope N_scope.

(* ---- sparse files: what the entry the tar iterator hands to process_tarball contains ---- *)
Lemma sparse_contents_stream_l : forall sched s out' data' pos',
  TarStream.stream_go sched (se_sparse s) (TarHdr.e_size (se_e s)) 0 (se_record s) [] = TarStream.S_Done out' data' pos' ->
  out' = se_data s.
Proof. intros sched s out' data' pos' H. exact (TarStreamProofs.sparse_stream_spec_l sched _ _ _ _ _ _ H). Qed.

Lemma sparse_contents_expand_l : forall s,
  se_sparse s <> [] -> TarStream.wf_map 0 (se_sparse s) (TarHdr.e_size (se_e s)) ->
  TarStream.map_bytes (se_sparse s) <= N.of_nat (length (se_record s)) ->
  se_data s = TarStream.expand 0 (se_sparse s) (se_record s) (TarHdr.e_size (se_e s)).
Proof. intros s A B C. exact (TarStreamProofs.sparse_expand_ok_l _ _ _ A B C). Qed.

Lemma sparse_contents_plain_l : forall s,
  se_sparse s = [] -> (N.to_nat (TarHdr.e_size (se_e s)) <= length (se_record s))%nat ->
  se_data s = firstn (N.to_nat (TarHdr.e_size (se_e s))) (se_record s).
Proof. intros s E L. unfold se_data. rewrite E. apply TarStreamProofs.fill_nomap. exact L. Qed.

Lemma te_of_se_data_l : forall s,
  te_data (te_of_se s) = if TarStream.is_reg (TarHdr.e_mode (se_e s)) then se_data s else [].
Proof. reflexivity. Qed.

(* ---- the xattr writer's order ---- *)
Lemma xattr_writer_order_l : forall w xs,
  winv w -> blen w -> Forall kv_ok xs -> Res.nlen xs < 4294967296 -> NoDup (map fst xs) ->
  exists w' idx, xw_set w xs = Res.Ok (w', idx) /\ winv w' /\ blen w' /\
    x_keys w' = fst (TarStream.store_xattrs (x_keys w) xs) /\
    ((xs = [] /\ idx = NOIDX) \/
     (xs <> [] /\ exists k blk, idx = N.of_nat k /\ nth_error (x_blocks w') k = Some blk /\
                                kmap w' blk = snd (TarStream.store_xattrs (x_keys w) xs))).
Proof.
  intros w xs I B F L N. destruct (xw_set_exact w xs I B F L N) as (w' & idx & E & I' & B' & _ & K & D).
  exists w', idx. auto.
Qed.

Lemma copy_xattr_is_set_l : forall w xs, copy_xattr false w xs = xw_set w (xkept xs).
Proof. exact copy_xattr_filter. Qed.

Lemma xkept_meaning_l : forall xs,
  NoDup (map fst (xkept xs)) /\
  (forall x, In x (xkept xs) -> In x xs /\ xsupported x = true) /\
  (Forall kv_ok xs -> NoDup (map fst xs) -> xkept xs = xs).
Proof.
  intro xs. split; [apply xkept_keys|]. split; [|apply xkept_all].
  intros x H. unfold xkept, xfilter in H. apply filter_In in H. destruct H as [H S]. split; [|exact S].
  destruct (xdedup_go_keys xs []) as [_ B]. apply (B x H).
Qed.

(* ---- bridge ---- *)
Lemma tar2sqfs_is_pack_all_l : forall no_tail_pack d hashf dcompress duncompress half mcompress limit cfg opts sched vs r,
  tree_shapeb vs = true -> c_no_xattr cfg = false ->
  t2s_full opts0 no_tail_pack false d hashf dcompress duncompress half mcompress limit cfg opts sched vs = PDone r ->
  pack_all hashf dcompress duncompress half mcompress limit cfg (pi_of no_tail_pack cfg d opts sched vs) = PDone (with_root r).
Proof.
  intros ntp d hashf dc du half mc limit cfg opts sched vs r Ts Hnox Hrun.
  exact (t2s_is_pack_all ntp d hashf dc du half mc limit cfg opts sched vs Ts Hnox [] r eq_refl Hrun).
Qed.

(* ... and with the archive's root entry in front *)
Lemma tar2sqfs_rooted_is_pack_all_l :
  forall no_tail_pack d0 hashf dcompress duncompress half mcompress limit cfg opts sched t0 e0 vs r,
  pt_op_of opts0 d0 t0 = PRootAttr e0 -> tree_shapeb vs = true -> c_no_xattr cfg = false ->
  t2s_full opts0 no_tail_pack false d0 hashf dcompress duncompress half mcompress limit cfg opts sched (t0 :: vs) = PDone r ->
  pack_all hashf dcompress duncompress half mcompress limit cfg
           (pi_gen no_tail_pack cfg (root_defaults true d0 e0) opts sched (xkept (te_xattr t0)) vs) = PDone r.
Proof.
  intros ntp d0 hashf dc du half mc limit cfg opts sched t0 e0 vs r Er Ts Hnox Hrun.
  exact (t2s_rooted_is_pack_all ntp _ hashf dc du half mc limit cfg opts sched vs Ts Hnox _ d0 t0 e0 r Er eq_refl eq_refl Hrun).
Qed.

(* what a root entry is, and what it gives the root *)
Lemma root_entry_meaning_l : forall d t e, pt_op_of opts0 d t = PRootAttr e ->
  t_name t = [] /\ t_hard t = false /\ mode_is_dir (t_mode t) = true /\
  e = gent_of [] (te_e t) (TarStream.clamp_mtime (TarHdr.e_mtime (te_e t))).
Proof.
  intros d t e. unfold pt_op_of, opts0, t_name, t_hard, t_mode, mode_is_dir. cbn [o_root o_keep_time].
  destruct (TarHdr.e_name (te_e t)) as [|c s]; [|discriminate].
  destruct (TarHdr.e_hardlink (te_e t)); cbn [orb]; [discriminate|].
  destruct (TarHdr.ftype (TarHdr.e_mode (te_e t)) =? TarHdr.S_IFDIR); cbn [negb]; [|discriminate].
  intro H. injection H as <-. auto.
Qed.

Lemma shape_orders_l : forall d vs fs pp,
  tree_shapeb vs = true ->
  run_adds d (fs_init d) (adds_of_entries opts0 d vs) = Some fs -> post_process fs = POk pp ->
  all_paths [] (pp_root pp) = [] :: map ent_path vs /\
  pp_files pp = map ent_path (filter (fun t => TarStream.is_reg (t_mode t)) vs).
Proof. intros d vs fs pp Ts R P. split; [exact (shape_xattr_paths d vs fs Ts R pp P)|exact (shape_files d vs fs Ts R pp P)]. Qed.

(* ---- what entry_back / entry_back_x / feq say ---- *)
Lemma entry_back_meaning_l : forall vs num t e,
  entry_back vs num t e <->
  exists id u,
    item_ok t (re_path e, re_view e, id) /\ re_ino e = num id /\
    ent_at vs id = Some u /\ t_hard u = false /\ (t_hard t = false -> u = t) /\
    re_data e = (if TarStream.is_reg (t_mode u) then Some (te_data u) else None) /\
    Permutation (re_xattrs e) (xkept (te_xattr u)).
Proof. intros. reflexivity. Qed.

Lemma entry_back_x_meaning_l : forall tbl0 vs num t e,
  entry_back_x tbl0 vs num t e <->
  exists id u,
    item_ok t (re_path e, re_view e, id) /\ re_ino e = num id /\
    ent_at vs id = Some u /\ t_hard u = false /\ (t_hard t = false -> u = t) /\
    re_data e = (if TarStream.is_reg (t_mode u) then Some (te_data u) else None) /\
    re_xattrs e = stored_at tbl0 vs id.
Proof. intros. reflexivity. Qed.

Lemma stored_at_is_reimage_l : forall tbl0 vs k t, NoDup (map ent_path vs) -> nth_error vs k = Some t ->
  exists r, nth_error (TarStream.reimage_all tbl0 vs) k = Some r /\ te_xattr r = stored_at tbl0 vs (ent_path t).
Proof.
  intros tbl0 vs k t ND Ht.
  assert (Hk : (k < length (TarStream.reimage_all tbl0 vs))%nat) by (rewrite reimage_all_length; apply nth_error_Some; congruence).
  destruct (nth_error (TarStream.reimage_all tbl0 vs) k) as [r|] eqn:Hr; [|apply nth_error_None in Hr; lia].
  exists r. split; [reflexivity|]. rewrite (reimage_all_nth vs tbl0 k r t Hr Ht). cbn [TarStream.reimage TarStream.te_xattr].
  unfold stored_at.
  assert (Hpk : nth_error (map ent_path vs) k = Some (ent_path t)) by (rewrite nth_error_map, Ht; reflexivity).
  rewrite (ListPos.nth_index_nodup _ _ _ ND Hpk). reflexivity.
Qed.

(* ---- tar2sqfs_image_reads_back ---- *)
Definition node_of (vs : list tentry) (p : path) : Prop := p = [] \/ exists u, In u vs /\ t_hard u = false /\ p = ent_path u.

Lemma tar2sqfs_image_reads_back_l :
  forall (hashf : list N -> N)
         (dcompress : list N -> option (list N)) (duncompress : list N -> nat -> option (list N)),
  (forall b c, dcompress b = Some c ->
     (length c < length b)%nat /\ forall n, (length b <= n)%nat -> duncompress c n = Some b) ->
  forall (mcompress : list N -> cres) (muncompress : list N -> option (list N)),
  (forall b c, mcompress b = CData c -> lenN c <= lenN b /\ muncompress c = Some b) ->
  forall uc, uc_meets muncompress uc ->
  forall limit, limit <= 65535 ->
  forall half cfg no_tail_pack d opts sched vs r,
  tree_shapeb vs = true -> Forall TarArchiveProofs.data_ok vs ->
  t2s_full opts0 no_tail_pack false d hashf dcompress duncompress half mcompress limit cfg opts sched vs = PDone r ->
  e2e_okb half cfg (pi_of no_tail_pack cfg d opts sched vs) (with_root r) = true ->
  forall depth efuel fuel,
  (e2e_depth r <= depth)%nat -> (e2e_efuel r <= efuel)%nat -> (e2e_fuel r <= fuel)%nat ->
  let num := ino_of (pp_inodes (r_pp r)) in
  exists e0 out,
    read_all uc muncompress duncompress (image_bytes (r_w r)) depth efuel fuel = RBase.Ok (e0 :: out) /\
    root_back d [] e0 /\
    Forall2 (entry_back vs num) vs out /\
    (forall p q, node_of vs p -> node_of vs q -> num p = num q -> p = q) /\
    (xattrs_ok vs -> Forall2 (entry_back_x [] vs num) vs out).
Proof.
  intros hashf dc du Hd mc mu Hm uc Hu limit Hl half cfg ntp d opts sched vs r Ts Hdat Hrun Hok depth efuel fuel B1 B2 B3 num.
  pose proof (t2s_is_pack_all ntp d hashf dc du half mc limit cfg opts sched vs Ts (okb_nox _ _ _ _ Hok) [] r eq_refl Hrun) as Hpack.
  destruct (tar2sqfs_image_reads_back_s hashf dc du Hd half mc mu Hm uc Hu limit Hl cfg ntp d opts sched vs [] (with_root r) Ts Hdat
              (NoDup_nil _) Hpack Hok depth efuel fuel B1 B2 B3) as (e0 & out & RA & Rb & F & Inj).
  exists e0, out. split; [exact RA|]. split; [exact Rb|]. split; [exact F|]. split; [exact Inj|].
  intro Hx.
  destruct (tar2sqfs_image_reads_back_x hashf dc du Hd half mc mu Hm uc Hu limit Hl cfg ntp d opts sched vs [] (with_root r) Ts Hdat
              (NoDup_nil _) Hpack Hok Hx xset_ok_nil depth efuel fuel B1 B2 B3) as (e0' & out' & RA' & _ & F' & _).
  change (image_bytes (r_w (with_root r))) with (image_bytes (r_w r)) in RA, RA'. rewrite RA in RA'. injection RA' as _ <-. exact F'.
Qed.

(* ---- the same for an archive WITH its root entry in front ("./", what tar -C dir -c . writes): the root shows the
        attributes and pairs of that entry ---- *)
Lemma tar2sqfs_rooted_image_reads_back_l :
  forall (hashf : list N -> N)
         (dcompress : list N -> option (list N)) (duncompress : list N -> nat -> option (list N)),
  (forall b c, dcompress b = Some c ->
     (length c < length b)%nat /\ forall n, (length b <= n)%nat -> duncompress c n = Some b) ->
  forall (mcompress : list N -> cres) (muncompress : list N -> option (list N)),
  (forall b c, mcompress b = CData c -> lenN c <= lenN b /\ muncompress c = Some b) ->
  forall uc, uc_meets muncompress uc ->
  forall limit, limit <= 65535 ->
  forall half cfg no_tail_pack d0 opts sched t0 e0 vs r,
  pt_op_of opts0 d0 t0 = PRootAttr e0 ->
  tree_shapeb vs = true -> Forall TarArchiveProofs.data_ok vs ->
  t2s_full opts0 no_tail_pack false d0 hashf dcompress duncompress half mcompress limit cfg opts sched (t0 :: vs) = PDone r ->
  let d := root_defaults true d0 e0 in
  let rootx := xkept (te_xattr t0) in
  e2e_okb half cfg (pi_gen no_tail_pack cfg d opts sched rootx vs) r = true ->
  forall depth efuel fuel,
  (e2e_depth r <= depth)%nat -> (e2e_efuel r <= efuel)%nat -> (e2e_fuel r <= fuel)%nat ->
  let num := ino_of (pp_inodes (r_pp r)) in
  exists r0 out,
    read_all uc muncompress duncompress (image_bytes (r_w r)) depth efuel fuel = RBase.Ok (r0 :: out) /\
    root_back d rootx r0 /\
    Forall2 (entry_back vs num) vs out /\
    (forall p q, node_of vs p -> node_of vs q -> num p = num q -> p = q) /\
    (xattrs_ok vs -> xset_ok rootx -> Forall2 (entry_back_x (fst (TarStream.store_xattrs [] rootx)) vs num) vs out).
Proof.
  intros hashf dc du Hd mc mu Hm uc Hu limit Hl half cfg ntp d0 opts sched t0 e0 vs r Er Ts Hdat Hrun d rootx Hok
         depth efuel fuel B1 B2 B3 num.
  pose proof (t2s_rooted_is_pack_all ntp d hashf dc du half mc limit cfg opts sched vs Ts (okb_nox _ _ _ _ Hok) rootx d0 t0 e0 r
                Er eq_refl eq_refl Hrun) as Hpack.
  assert (Hnd : NoDup (map fst rootx)) by apply xkept_keys.
  destruct (tar2sqfs_image_reads_back_s hashf dc du Hd half mc mu Hm uc Hu limit Hl cfg ntp d opts sched vs rootx r Ts Hdat
              Hnd Hpack Hok depth efuel fuel B1 B2 B3) as (r0 & out & RA & Rb & F & Inj).
  exists r0, out. split; [exact RA|]. split; [exact Rb|]. split; [exact F|]. split; [exact Inj|].
  intros Hx Hrx.
  destruct (tar2sqfs_image_reads_back_x hashf dc du Hd half mc mu Hm uc Hu limit Hl cfg ntp d opts sched vs rootx r Ts Hdat
              Hnd Hpack Hok Hx Hrx depth efuel fuel B1 B2 B3) as (r0' & out' & RA' & _ & F' & _).
  rewrite RA in RA'. injection RA' as _ <-. exact F'.
Qed.

(* ---- conv_roundtrip_full and the fixpoints ---- *)
Lemma conv_roundtrip_full_l :
  forall (hashf : list N -> N)
         (dcompress : list N -> option (list N)) (duncompress : list N -> nat -> option (list N)),
  (forall b c, dcompress b = Some c ->
     (length c < length b)%nat /\ forall n, (length b <= n)%nat -> duncompress c n = Some b) ->
  forall (mcompress : list N -> cres) (muncompress : list N -> option (list N)),
  (forall b c, mcompress b = CData c -> lenN c <= lenN b /\ muncompress c = Some b) ->
  forall uc, uc_meets muncompress uc ->
  forall limit, limit <= 65535 ->
  forall half cfg no_tail_pack d opts sched vs r depth efuel fuel,
  tree_shapeb vs = true -> Forall TarArchiveProofs.data_ok vs -> xattrs_ok vs ->
  t2s_full opts0 no_tail_pack false d hashf dcompress duncompress half mcompress limit cfg opts sched vs = PDone r ->
  e2e_okb half cfg (pi_of no_tail_pack cfg d opts sched vs) (with_root r) = true ->
  (e2e_depth r <= depth)%nat -> (e2e_efuel r <= efuel)%nat -> (e2e_fuel r <= fuel)%nat ->
  exists out,
    sqfs2tar_full uc muncompress duncompress false false (image_bytes (r_w r)) depth efuel fuel = S2Ok out /\
    Forall2 feq out (TarStream.reimage_all [] vs) /\
    TarStream.write_archive out = TarStream.write_archive (TarStream.reimage_all [] vs).
Proof.
  intros hashf dc du Hd mc mu Hm uc Hu limit Hl half cfg ntp d opts sched vs r depth efuel fuel.
  exact (conv_roundtrip_full_s hashf dc du Hd half mc mu Hm uc Hu limit Hl cfg ntp d opts sched vs r depth efuel fuel).
Qed.

Lemma conv_fixpoint_full_l :
  forall (hashf : list N -> N)
         (dcompress : list N -> option (list N)) (duncompress : list N -> nat -> option (list N)),
  (forall b c, dcompress b = Some c ->
     (length c < length b)%nat /\ forall n, (length b <= n)%nat -> duncompress c n = Some b) ->
  forall (mcompress : list N -> cres) (muncompress : list N -> option (list N)),
  (forall b c, mcompress b = CData c -> lenN c <= lenN b /\ muncompress c = Some b) ->
  forall uc, uc_meets muncompress uc ->
  forall limit, limit <= 65535 ->
  forall half cfg no_tail_pack d opts sched es r depth efuel fuel,
  Forall TarArchiveProofs.entry_ok es -> Forall TarArchiveProofs.img_shape es -> TarArchiveProofs.settled [] es ->
  let vs := TarArchiveProofs.views es in
  tree_shapeb vs = true -> xattrs_ok vs ->
  t2s_full opts0 no_tail_pack false d hashf dcompress duncompress half mcompress limit cfg opts sched vs = PDone r ->
  e2e_okb half cfg (pi_of no_tail_pack cfg d opts sched vs) (with_root r) = true ->
  (e2e_depth r <= depth)%nat -> (e2e_efuel r <= efuel)%nat -> (e2e_fuel r <= fuel)%nat ->
  TarStream.read_archive (TarStream.write_archive es) = TarStream.RA_Ok vs /\
  exists out,
    sqfs2tar_full uc muncompress duncompress false false (image_bytes (r_w r)) depth efuel fuel = S2Ok out /\
    TarStream.write_archive out = TarStream.write_archive es.
Proof.
  intros hashf dc du Hd mc mu Hm uc Hu limit Hl half cfg ntp d opts sched es r depth efuel fuel.
  exact (conv_fixpoint_full_s hashf dc du Hd half mc mu Hm uc Hu limit Hl cfg ntp d opts sched es r depth efuel fuel).
Qed.

Lemma conv_second_round_full_l :
  forall (hashf : list N -> N)
         (dcompress : list N -> option (list N)) (duncompress : list N -> nat -> option (list N)),
  (forall b c, dcompress b = Some c ->
     (length c < length b)%nat /\ forall n, (length b <= n)%nat -> duncompress c n = Some b) ->
  forall (mcompress : list N -> cres) (muncompress : list N -> option (list N)),
  (forall b c, mcompress b = CData c -> lenN c <= lenN b /\ muncompress c = Some b) ->
  forall uc, uc_meets muncompress uc ->
  forall limit, limit <= 65535 ->
  forall half cfg no_tail_pack d opts sched es r depth efuel fuel,
  Forall TarArchiveProofs.entry_ok es -> Forall TarArchiveProofs.short_name es ->
  let es1 := TarStream.reimage_all [] (TarArchiveProofs.views es) in
  let vs := TarArchiveProofs.views es1 in
  tree_shapeb vs = true -> xattrs_ok vs ->
  t2s_full opts0 no_tail_pack false d hashf dcompress duncompress half mcompress limit cfg opts sched vs = PDone r ->
  e2e_okb half cfg (pi_of no_tail_pack cfg d opts sched vs) (with_root r) = true ->
  (e2e_depth r <= depth)%nat -> (e2e_efuel r <= efuel)%nat -> (e2e_fuel r <= fuel)%nat ->
  TarStream.convert es = TarStream.RA_Ok es1 /\
  TarStream.read_archive (TarStream.write_archive es1) = TarStream.RA_Ok vs /\
  exists out,
    sqfs2tar_full uc muncompress duncompress false false (image_bytes (r_w r)) depth efuel fuel = S2Ok out /\
    TarStream.write_archive out = TarStream.write_archive es1.
Proof.
  intros hashf dc du Hd mc mu Hm uc Hu limit Hl half cfg ntp d opts sched es r depth efuel fuel.
  exact (conv_second_round_full_s hashf dc du Hd half mc mu Hm uc Hu limit Hl cfg ntp d opts sched es r depth efuel fuel).
Qed.

(* on BYTES: the composed round maps sqfs2tar's archive of such a listing to itself *)
Lemma conv_round_fixpoint_l :
  forall (hashf : list N -> N)
         (dcompress : list N -> option (list N)) (duncompress : list N -> nat -> option (list N)),
  (forall b c, dcompress b = Some c ->
     (length c < length b)%nat /\ forall n, (length b <= n)%nat -> duncompress c n = Some b) ->
  forall (mcompress : list N -> cres) (muncompress : list N -> option (list N)),
  (forall b c, mcompress b = CData c -> lenN c <= lenN b /\ muncompress c = Some b) ->
  forall limit, limit <= 65535 ->
  forall half cfg d opts sched es r,
  Forall TarArchiveProofs.entry_ok es -> Forall TarArchiveProofs.img_shape es -> TarArchiveProofs.settled [] es ->
  let vs := TarArchiveProofs.views es in
  tree_shapeb vs = true -> xattrs_ok vs ->
  t2s_full opts0 false false d hashf dcompress duncompress half mcompress limit cfg opts sched vs = PDone r ->
  e2e_okb half cfg (pi_of false cfg d opts sched vs) (with_root r) = true ->
  exists out,
    conv_round hashf dcompress duncompress half mcompress muncompress limit cfg opts sched d (TarStream.write_archive es)
    = RoundOk (image_bytes (r_w r)) out (TarStream.write_archive es).
Proof.
  intros hashf dc du Hd mc mu Hm limit Hl half cfg d opts sched es r Hok Hsh Hst vs Ts Hx Hrun Hokb.
  exact (conv_round_fixpoint_s hashf dc du Hd half mc mu Hm (uc_of mu) (ImgReader.Closed.uc_of_meets mu) limit Hl cfg false d opts sched
           es r Hok Hsh Hst Ts Hx Hrun Hokb eq_refl eq_refl).
Qed.

(* ---- archives with root entries, for the theorems of section "ImgTar" (audit W1) ---- *)
(* for EVERY archive: the tree tar2sqfs builds = the tree of its adds with the root entries' attributes applied in order *)
Lemma tar2sqfs_tree_with_root_entries_l : forall o d vs,
  forallb no_bad_root (pt_ops o d vs) = true -> forallb add_below_root (pt_ops o d vs) = true ->
  tar2sqfs_tree o d vs =
  option_map (apply_roots (o_keep_time o) (pt_ops o d vs)) (run_adds d (fs_init d) (adds_of_entries o d vs)).
Proof. intros o d vs B A. exact (pt_exec_rooted (o_keep_time o) d (pt_ops o d vs) (fs_init d) eq_refl B A). Qed.

(* root entry in front, no directory created implicitly: the tree of the remaining adds under the root entry's attributes
   as defaults — every statement about run_adds d (fs_init d) applies with these defaults *)
Lemma tar2sqfs_tree_root_first_l : forall o d t e vs,
  pt_op_of o d t = PRootAttr e ->
  forallb no_root_op (pt_ops o d vs) = true -> no_implicitb (adds_of_entries o d vs) = true ->
  let d' := root_defaults (o_keep_time o) d e in
  tar2sqfs_tree o d (t :: vs) = run_adds d' (fs_init d') (adds_of_entries o d vs).
Proof. exact tar2sqfs_tree_root_first. Qed.

Lemma image_view_of_adds_rooted_l : forall compress uncompress,
  (forall b c, compress b = CData c -> lenN c <= lenN b /\ uncompress c = Some b) ->
  forall limit, limit <= 65536 ->
  forall bs o d t e vs fs pp fb xa img,
  pt_op_of o d t = PRootAttr e ->
  forallb no_root_op (pt_ops o d vs) = true ->
  let ops := adds_of_entries o d vs in
  let d' := root_defaults (o_keep_time o) d e in
  no_implicitb ops = true -> ops_okb ops = true -> links_resolveb ops = true ->
  InputOk.input_okb bs d' ops = true ->
  tar2sqfs_tree o d (t :: vs) = Some fs ->
  post_process fs = POk pp ->
  InputOk.attached_okb bs fb xa pp = true ->
  serialize_fstree compress limit (to_img fb xa pp) = Res.Ok img ->
  trace_fits img = true ->
  exists lt fl,
    read_tree uncompress bs (si_itbl img) (si_dtbl img) (si_ids img) (length (pp_inodes pp)) (si_root img) = Some lt /\
    flat_lt [] lt = map (PathsProofs.number (pp_inodes pp)) fl /\
    Sorted.StronglySorted path_lt (map fst3 fl) /\
    (forall p, In p (map fst3 fl) <-> p = [] \/ in_closure p ops) /\
    Forall (fun x => let '(p, v, id) := x in
                     spec_resolve (S (length ops)) ops p = Some id /\ v = spec_pview fb xa d' ops id) fl /\
    (forall x y, In x fl -> In y fl ->
       ino_of (pp_inodes pp) (snd x) = ino_of (pp_inodes pp) (snd y) -> snd x = snd y).
Proof.
  intros compress uncompress Hc limit Hl bs o d t e vs fs pp fb xa img Er Nr ops d' Ni Ok Lr Hin Ht Hpost Hatt Hser Hfit.
  rewrite (tar2sqfs_tree_root_first o d t e vs Er Nr Ni) in Ht.
  exact (image_view_of_adds_l compress uncompress Hc limit Hl bs d' ops fs pp fb xa img Ok Lr Hin Ht Hpost Hatt Hser Hfit).
Qed.

Lemma tar_roundtrip_root_first_l : forall o d nl t e vs,
  pt_op_of o d t = PRootAttr e ->
  forallb no_root_op (pt_ops o d vs) = true -> no_implicitb (adds_of_entries o d vs) = true ->
  tar_roundtrip_entries o d nl (t :: vs) = tar_roundtrip_entries o (root_defaults (o_keep_time o) d e) nl vs.
Proof. exact tar_roundtrip_root_first. Qed.

Lemma shape_no_implicit_l : forall d vs, tree_shapeb vs = true -> no_implicitb (adds_of_entries opts0 d vs) = true.
Proof. exact shape_no_implicit. Qed.
