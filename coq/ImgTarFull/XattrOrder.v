(* ImgTarFull — the ORDER in which the xattr writer stores the pairs of one node, exactly.

   C01's refinement (XattrWriterProofs.xw_set_spec) says that the block a node's index names holds the node's key/value
   SET (a permutation).  sqfs2tar writes the pairs in the order the image stores them and the conversion fixpoint is
   about archive BYTES, so the order matters: sqfs_xattr_writer_end sorts the pairs of a node by (key index << 32 |
   value index).  For pairwise different keys per node that is C04's [store_xattrs] (TarStream.v): the keys some earlier
   node already used first, in key table order, then the new keys in list order — and the key table grows by the new
   keys in list order.  This file proves that the C01 model (xw_begin / xw_add_kv / xw_end, i.e. the model of
   xattr_writer_record.c) computes exactly that, and that tar2sqfs' copy_xattr with its "skip unsupported prefixes"
   rule is xw_set on the supported pairs. *)
From Coq Require Import List NArith ZArith Bool Lia Permutation Sorted.
From SqfsV Require Import Base.Bytes Gen.Constants.
From SqfsV Require C04.TarHdr C04.TarHdrProofs C04.TarStream C04.TarArchiveProofs.
From SqfsV Require Import C01.GenC01 C01.Res C01.XattrModel C01.XattrProofs C01.XattrWriterProofs.
From SqfsV Require Import ImgTar.Semantics.
From SqfsV Require Import ImgTarFull.Model.
Import ListNotations.
Local Open Scope N_scope.

Notation key_mem := TarStream.key_mem.
Notation key_pos := TarStream.key_pos.
Notation store_xattrs := TarStream.store_xattrs.
Notation xsort := TarStream.xsort.

(* ------------------------------------------------------------------ NoDup of an append *)
Lemma NoDup_app_disj {A} (l m : list A) x : NoDup (l ++ m) -> In x l -> ~ In x m.
Proof.
  induction l as [|a l IH]; intros ND I; [destruct I|]. cbn [app] in ND. inversion ND as [|? ? NI ND']; subst.
  destruct I as [->|I]; [intro Hm; apply NI; apply in_or_app; right; exact Hm|apply IH; assumption].
Qed.

Lemma NoDup_app_intro {A} (l m : list A) : NoDup l -> NoDup m -> (forall x, In x l -> In x m -> False) -> NoDup (l ++ m).
Proof.
  induction l as [|a l IH]; intros Nl Nm D; [exact Nm|]. inversion Nl as [|? ? NI Nl']; subst. cbn [app]. constructor.
  - rewrite in_app_iff. intros [I|I]; [exact (NI I)|exact (D a (or_introl eq_refl) I)].
  - apply IH; [exact Nl'|exact Nm|]. intros x Hx. apply D. right. exact Hx.
Qed.

(* ------------------------------------------------------------------ the two list_eqb *)
Lemma tar_list_eqb_iff a b : TarHdr.list_eqb a b = true <-> a = b.
Proof.
  split; [apply TarArchiveProofs.list_eqb_true|]. intros ->. apply TarHdrProofs.list_eqb_refl.
Qed.

Lemma key_mem_in tbl k : key_mem tbl k = true <-> In k tbl.
Proof.
  unfold TarStream.key_mem. rewrite existsb_exists. split.
  - intros (x & I & E). apply tar_list_eqb_iff in E. subst. exact I.
  - intro I. exists k. split; [exact I|apply tar_list_eqb_iff; reflexivity].
Qed.

Lemma key_mem_false tbl k : key_mem tbl k = false <-> ~ In k tbl.
Proof.
  split.
  - intros E I. apply key_mem_in in I. congruence.
  - intro NI. destruct (key_mem tbl k) eqn:E; [|reflexivity]. apply key_mem_in in E. contradiction.
Qed.

(* ------------------------------------------------------------------ key_pos *)
Lemma key_pos_in tbl k : In k tbl -> (key_pos tbl k < length tbl)%nat /\ nth (key_pos tbl k) tbl [] = k.
Proof.
  induction tbl as [|x r IH]; intro I; [destruct I|]. cbn [TarStream.key_pos].
  destruct (TarHdr.list_eqb x k) eqn:E.
  - apply tar_list_eqb_iff in E. subst. cbn. split; [lia|reflexivity].
  - destruct I as [->|I]; [rewrite TarHdrProofs.list_eqb_refl in E; discriminate|].
    destruct (IH I) as [A B]. cbn [length nth]. split; [lia|exact B].
Qed.

Lemma key_pos_notin tbl k : ~ In k tbl -> key_pos tbl k = length tbl.
Proof.
  induction tbl as [|x r IH]; intro NI; [reflexivity|]. cbn [TarStream.key_pos length].
  destruct (TarHdr.list_eqb x k) eqn:E.
  - apply tar_list_eqb_iff in E. subst. exfalso. apply NI. left. reflexivity.
  - rewrite IH; [reflexivity|]. intro I. apply NI. right. exact I.
Qed.

Lemma key_pos_app_in tbl m k : In k tbl -> key_pos (tbl ++ m) k = key_pos tbl k.
Proof.
  induction tbl as [|x r IH]; intro I; [destruct I|]. cbn [app TarStream.key_pos].
  destruct (TarHdr.list_eqb x k) eqn:E; [reflexivity|].
  destruct I as [->|I]; [rewrite TarHdrProofs.list_eqb_refl in E; discriminate|]. rewrite (IH I). reflexivity.
Qed.

Lemma key_pos_app_notin tbl m k : ~ In k tbl -> key_pos (tbl ++ m) k = (length tbl + key_pos m k)%nat.
Proof.
  induction tbl as [|x r IH]; intro NI; [reflexivity|]. cbn [app TarStream.key_pos length].
  destruct (TarHdr.list_eqb x k) eqn:E.
  - apply tar_list_eqb_iff in E. subst. exfalso. apply NI. left. reflexivity.
  - rewrite IH; [lia|]. intro I. apply NI. right. exact I.
Qed.

Lemma key_pos_nth tbl i : NoDup tbl -> (i < length tbl)%nat -> key_pos tbl (nth i tbl []) = i.
Proof.
  intros ND Hi. assert (I : In (nth i tbl []) tbl) by (apply nth_In; exact Hi).
  destruct (key_pos_in tbl _ I) as [A B]. exact (proj1 (NoDup_nth tbl []) ND _ _ A Hi B).
Qed.

Lemma key_pos_inj tbl a b : In a tbl -> In b tbl -> key_pos tbl a = key_pos tbl b -> a = b.
Proof.
  intros Ia Ib E. destruct (key_pos_in tbl a Ia) as [_ A]. destruct (key_pos_in tbl b Ib) as [_ B]. congruence.
Qed.

(* ------------------------------------------------------------------ the key table after the adds of one node *)
Definition addk (t : list (list N)) (k : list N) : list (list N) := fst (get_index t k).

Lemma addk_spec t k : addk t k = if key_mem t k then t else t ++ [k].
Proof.
  unfold addk, get_index. destruct (find_str k t 0) as [j|] eqn:E; cbn [fst].
  - destruct (find_str_some _ _ _ _ E) as [i [_ Hi]]. apply nth_error_In in Hi. apply key_mem_in in Hi. rewrite Hi. reflexivity.
  - apply find_str_none in E. apply key_mem_false in E. rewrite E. reflexivity.
Qed.

Lemma add_kv_keys w k v w1 : xw_add_kv w k v = Ok w1 -> x_keys w1 = addk (x_keys w) k.
Proof.
  unfold xw_add_kv, addk. destruct (prefix_of k) as [[ty sfx]|]; [|discriminate].
  destruct (KEY_MAX <? nlen sfx); [discriminate|].
  destruct (get_index (x_keys w) k) as [keys ki]. destruct (get_index (x_vals w) v) as [vals vi].
  destruct (scan_cur (x_cur w) ki vi 0); intro H; injection H as <-; reflexivity.
Qed.

Lemma add_all_keys : forall xs w w1, xw_add_all w xs = Ok w1 -> x_keys w1 = fold_left addk (map fst xs) (x_keys w).
Proof.
  induction xs as [|[k v] r IH]; intros w w1 H; cbn [xw_add_all] in H.
  - injection H as <-. reflexivity.
  - destruct (xw_add_kv w k v) as [w0| | |] eqn:E; cbn [bind] in H; try discriminate.
    cbn [map fst fold_left]. rewrite <- (add_kv_keys _ _ _ _ E). apply IH. exact H.
Qed.

Lemma filter_ext_in' {A} (f g : A -> bool) l : (forall x, In x l -> f x = g x) -> filter f l = filter g l.
Proof.
  induction l as [|x r IH]; intro H; [reflexivity|]. cbn [filter]. rewrite (H x (or_introl eq_refl)).
  rewrite IH; [reflexivity|]. intros y Hy. apply H. right. exact Hy.
Qed.

Lemma fold_addk : forall ks t, NoDup ks ->
  fold_left addk ks t = t ++ filter (fun k => negb (key_mem t k)) ks.
Proof.
  induction ks as [|k r IH]; intros t ND; [cbn; rewrite app_nil_r; reflexivity|].
  inversion ND as [|? ? NI ND']; subst. cbn [fold_left filter]. rewrite (IH _ ND'), addk_spec.
  destruct (key_mem t k) eqn:E; cbn [negb].
  - reflexivity.
  - rewrite <- app_assoc. cbn [app]. f_equal. f_equal. apply filter_ext_in'. intros x Hx. f_equal.
    destruct (key_mem t x) eqn:Ex.
    + apply key_mem_in. apply in_or_app. left. apply key_mem_in. exact Ex.
    + apply key_mem_false. rewrite in_app_iff. intros [I|[I|[]]]; [apply key_mem_false in Ex; contradiction|].
      subst x. contradiction.
Qed.

Lemma map_fst_filter (f : list N -> bool) (xs : list xattr) :
  map fst (filter (fun x => f (fst x)) xs) = filter f (map fst xs).
Proof.
  induction xs as [|x r IH]; [reflexivity|]. cbn [filter map]. destruct (f (fst x)); cbn [map]; rewrite IH; reflexivity.
Qed.

Lemma store_keys tbl xs :
  fst (store_xattrs tbl xs) = tbl ++ filter (fun k => negb (key_mem tbl k)) (map fst xs).
Proof. unfold TarStream.store_xattrs. cbn [fst]. rewrite (map_fst_filter (fun k => negb (key_mem tbl k))). reflexivity. Qed.

(* ------------------------------------------------------------------ pairwise different keys: the set is the list *)
Lemma set_put_fresh k v l : ~ In k (map fst l) -> set_put k v l = l ++ [(k, v)].
Proof.
  induction l as [|[k' v'] r IH]; intro NI; [reflexivity|]. cbn [set_put].
  destruct (XattrModel.list_eqb k' k) eqn:E.
  - apply list_eqb_eq in E. subst. exfalso. apply NI. left. reflexivity.
  - cbn [app]. rewrite IH; [reflexivity|]. intro I. apply NI. right. exact I.
Qed.

Lemma set_spec_nodup_aux : forall xs acc, NoDup (map fst (acc ++ xs)) ->
  fold_left (fun l kv => set_put (fst kv) (snd kv) l) xs acc = acc ++ xs.
Proof.
  induction xs as [|[k v] r IH]; intros acc ND; [cbn; rewrite app_nil_r; reflexivity|].
  cbn [fold_left fst snd]. rewrite set_put_fresh.
  - rewrite IH; rewrite <- app_assoc; [reflexivity|exact ND].
  - rewrite map_app in ND. cbn [map fst] in ND. apply NoDup_remove_2 in ND. intro I. apply ND. apply in_or_app. left. exact I.
Qed.

Lemma set_spec_nodup xs : NoDup (map fst xs) -> set_spec xs = xs.
Proof. intro ND. unfold set_spec. apply (set_spec_nodup_aux xs []). exact ND. Qed.

(* ------------------------------------------------------------------ sort_pairs on pairwise different key indices *)
Definition fstlt (a b : nat * nat) : Prop := (fst a < fst b)%nat.

Lemma pair_leb_fst a b : fst a <> fst b -> pair_leb a b = Nat.ltb (fst a) (fst b).
Proof.
  intro NE. unfold pair_leb. destruct (Nat.eqb_spec (fst a) (fst b)); [contradiction|]. cbn [andb]. apply orb_false_r.
Qed.

Lemma insert_pair_sorted p : forall l, StronglySorted fstlt l -> ~ In (fst p) (map fst l) ->
  StronglySorted fstlt (insert_pair p l).
Proof.
  induction l as [|x r IH]; intros S NI; cbn [insert_pair]; [constructor; constructor|].
  apply StronglySorted_inv in S. destruct S as [S F].
  assert (NE : fst p <> fst x) by (intro E; apply NI; left; symmetry; exact E).
  rewrite (pair_leb_fst p x NE). destruct (Nat.ltb_spec (fst p) (fst x)) as [L|L].
  - constructor; [constructor; assumption|]. constructor; [exact L|].
    eapply Forall_impl; [|exact F]. unfold fstlt. intros y Hy. lia.
  - constructor.
    + apply IH; [exact S|]. intro I. apply NI. right. exact I.
    + apply Forall_forall. intros y Hy. apply (Permutation_in _ (insert_pair_perm p r)) in Hy.
      destruct Hy as [<-|Hy]; [unfold fstlt; lia|]. rewrite Forall_forall in F. apply F. exact Hy.
Qed.

Lemma sort_pairs_sorted : forall l, NoDup (map fst l) -> StronglySorted fstlt (sort_pairs l).
Proof.
  induction l as [|x r IH]; intro ND; cbn [sort_pairs]; [constructor|]. cbn [map] in ND. inversion ND as [|? ? NI ND']; subst.
  apply insert_pair_sorted; [apply IH; exact ND'|].
  intro I. apply NI. apply (Permutation_in _ (Permutation_map fst (sort_pairs_perm r))). exact I.
Qed.

Lemma sorted_map {A B} (R : A -> A -> Prop) (Q : B -> B -> Prop) (g : A -> B) (P : A -> Prop) :
  (forall a b, P a -> P b -> R a b -> Q (g a) (g b)) ->
  forall l, Forall P l -> StronglySorted R l -> StronglySorted Q (map g l).
Proof.
  intros H. induction l as [|x r IH]; intros F S; [constructor|]. inversion F as [|? ? Px Fr]; subst.
  apply StronglySorted_inv in S. destruct S as [S Fx]. cbn [map]. constructor; [apply IH; assumption|].
  apply Forall_forall. intros y Hy. apply in_map_iff in Hy. destruct Hy as (z & <- & Hz).
  rewrite Forall_forall in Fx, Fr. apply H; [exact Px|apply Fr; exact Hz|apply Fx; exact Hz].
Qed.

(* ------------------------------------------------------------------ store_xattrs is sorted by position in the NEW table *)
Section Store.
  Variable tbl : list (list N).
  Variable xs : list xattr.
  Hypothesis NDt : NoDup tbl.
  Hypothesis NDx : NoDup (map fst xs).
  Let old := filter (fun x : xattr => key_mem tbl (fst x)) xs.
  Let nw := filter (fun x : xattr => negb (key_mem tbl (fst x))) xs.
  Let tbl' := tbl ++ map fst nw.
  Definition klt (t : list (list N)) (a b : xattr) : Prop := (key_pos t (fst a) < key_pos t (fst b))%nat.

  Lemma nodup_filter_keys (f : xattr -> bool) : NoDup (map fst (filter f xs)).
  Proof.
    clear - NDx. induction xs as [|x r IH]; [constructor|]. cbn [map] in NDx. inversion NDx as [|? ? NI ND']; subst.
    cbn [filter]. destruct (f x); [|apply IH; exact ND']. cbn [map]. constructor; [|apply IH; exact ND'].
    intro I. apply NI. apply in_map_iff in I. destruct I as (y & E & Hy). apply filter_In in Hy.
    apply in_map_iff. exists y. split; [exact E|apply Hy].
  Qed.

  Lemma old_in x : In x (xsort tbl old) -> In (fst x) tbl.
  Proof.
    intro I. apply (Permutation_in _ (TarArchiveProofs.xsort_perm tbl old)) in I. apply filter_In in I.
    apply key_mem_in. apply I.
  Qed.

  Lemma nw_notin x : In x nw -> ~ In (fst x) tbl.
  Proof. intro I. apply filter_In in I. destruct I as [_ E]. apply negb_true_iff in E. apply key_mem_false. exact E. Qed.

  (* adjacent order -> strong order *)
  Lemma xsorted_strong : forall l, TarArchiveProofs.xsorted tbl l ->
    StronglySorted (fun a b => (key_pos tbl (fst a) <= key_pos tbl (fst b))%nat) l.
  Proof.
    induction l as [|x r IH]; intro H; [constructor|]. cbn [TarArchiveProofs.xsorted] in H. destruct H as [H1 H2].
    specialize (IH H2). constructor; [exact IH|].
    destruct r as [|y r']; [constructor|]. apply StronglySorted_inv in IH. destruct IH as [_ Fy].
    constructor; [exact H1|]. eapply Forall_impl; [|exact Fy]. cbn beta. intros z Hz. lia.
  Qed.

  Lemma le_to_lt : forall l, NoDup (map fst l) -> (forall x, In x l -> In (fst x) tbl) ->
    StronglySorted (fun a b => (key_pos tbl (fst a) <= key_pos tbl (fst b))%nat) l -> StronglySorted (klt tbl) l.
  Proof.
    induction l as [|x r IH]; intros ND Hin S; [constructor|]. cbn [map] in ND. inversion ND as [|? ? NI ND']; subst.
    apply StronglySorted_inv in S. destruct S as [S F]. constructor.
    - apply IH; [exact ND'|intros y Hy; apply Hin; right; exact Hy|exact S].
    - apply Forall_forall. intros y Hy. rewrite Forall_forall in F. specialize (F y Hy). unfold klt.
      destruct (Nat.eq_dec (key_pos tbl (fst x)) (key_pos tbl (fst y))) as [E|NE]; [|lia].
      exfalso. apply NI. apply (key_pos_inj tbl) in E; [|apply Hin; left; reflexivity|apply Hin; right; exact Hy].
      rewrite E. apply in_map. exact Hy.
  Qed.

  Lemma old_sorted : StronglySorted (klt tbl') (xsort tbl old).
  Proof.
    assert (S : StronglySorted (klt tbl) (xsort tbl old)).
    { apply le_to_lt.
      - apply (Permutation_NoDup (Permutation_map fst (Permutation_sym (TarArchiveProofs.xsort_perm tbl old)))).
        apply nodup_filter_keys.
      - exact old_in.
      - apply xsorted_strong. apply TarArchiveProofs.xsort_sorted. }
    assert (G : forall l, (forall x, In x l -> In (fst x) tbl) -> StronglySorted (klt tbl) l -> StronglySorted (klt tbl') l).
    { induction l as [|x r IH]; intros Hin S'; [constructor|]. apply StronglySorted_inv in S'. destruct S' as [S' F].
      constructor; [apply IH; [intros y Hy; apply Hin; right; exact Hy|exact S']|].
      apply Forall_forall. intros y Hy. rewrite Forall_forall in F. specialize (F y Hy). unfold klt, tbl' in *.
      rewrite !key_pos_app_in; [exact F|apply Hin; right; exact Hy|apply Hin; left; reflexivity]. }
    apply G; [exact old_in|exact S].
  Qed.

  Lemma tail_sorted : forall (l : list xattr) pre, NoDup (pre ++ map fst l) ->
    StronglySorted (klt (pre ++ map fst l)) l.
  Proof.
    induction l as [|x r IH]; intros pre ND; [constructor|]. cbn [map] in *.
    assert (E : pre ++ fst x :: map fst r = (pre ++ [fst x]) ++ map fst r) by (rewrite <- app_assoc; reflexivity).
    constructor.
    - rewrite E. apply IH. rewrite <- E. exact ND.
    - assert (Nx : ~ In (fst x) pre).
      { intro I. apply NoDup_remove_2 in ND. apply ND. apply in_or_app. left. exact I. }
      apply Forall_forall. intros y Hy. unfold klt.
      rewrite (key_pos_app_notin pre _ (fst x) Nx). cbn [TarStream.key_pos]. rewrite TarHdrProofs.list_eqb_refl.
      assert (Ny : ~ In (fst y) (pre ++ [fst x])).
      { rewrite E in ND. intro I. apply (NoDup_app_disj _ _ (fst y) ND I). apply in_map. exact Hy. }
      rewrite E, (key_pos_app_notin _ _ (fst y) Ny), app_length. cbn [length]. lia.
  Qed.

  Lemma tbl'_nodup : NoDup tbl'.
  Proof.
    unfold tbl'. apply NoDup_app_intro; [exact NDt|apply nodup_filter_keys|].
    intros k I1 I2. apply in_map_iff in I2. destruct I2 as (x & <- & Hx). exact (nw_notin x Hx I1).
  Qed.

  Lemma store_sorted : StronglySorted (klt tbl') (snd (store_xattrs tbl xs)).
  Proof.
    unfold TarStream.store_xattrs. cbn [snd]. fold old nw.
    apply (sorted_app (klt tbl')); [exact old_sorted|apply tail_sorted; exact tbl'_nodup|].
    intros x y Hx Hy. unfold klt, tbl'.
    rewrite (key_pos_app_in tbl _ (fst x) (old_in x Hx)), (key_pos_app_notin tbl _ (fst y) (nw_notin y Hy)).
    destruct (key_pos_in tbl _ (old_in x Hx)) as [L _]. lia.
  Qed.
End Store.

(* ------------------------------------------------------------------ one node *)
Lemma xw_end_block w : x_cur w <> [] ->
  exists k, snd (xw_end w) = N.of_nat k /\ nth_error (x_blocks (fst (xw_end w))) k = Some (sort_pairs (x_cur w)) /\
            x_keys (fst (xw_end w)) = x_keys w /\ x_vals (fst (xw_end w)) = x_vals w.
Proof.
  intro NE. unfold xw_end. destruct (x_cur w) as [|c0 cr] eqn:EC; [contradiction|]. rewrite <- EC.
  set (blk := sort_pairs (x_cur w)).
  destruct (find_block blk (x_blocks w) 0) as [i|] eqn:EF; cbn [fst snd x_blocks x_keys x_vals].
  - destruct (find_block_some _ _ _ _ EF) as [k [K1 K2]]. cbn in K1. subst i. exists k. auto.
  - exists (length (x_blocks w)). split; [reflexivity|]. split; [|auto].
    rewrite nth_error_app2, Nat.sub_diag by lia. reflexivity.
Qed.

Theorem xw_set_exact w xs :
  winv w -> blen w -> Forall kv_ok xs -> nlen xs < 4294967296 -> NoDup (map fst xs) ->
  exists w' idx, xw_set w xs = Ok (w', idx) /\ winv w' /\ blen w' /\ stable w w' /\
    x_keys w' = fst (store_xattrs (x_keys w) xs) /\
    ((xs = [] /\ idx = NOIDX) \/
     (xs <> [] /\ exists k blk, idx = N.of_nat k /\ nth_error (x_blocks w') k = Some blk /\
                                kmap w' blk = snd (store_xattrs (x_keys w) xs))).
Proof.
  intros I BL F LN ND.
  destruct (xw_set_spec w xs I BL (conj F LN)) as (w' & idx & E & I' & BL' & ST & _).
  exists w', idx. split; [exact E|]. split; [exact I'|]. split; [exact BL'|]. split; [exact ST|].
  (* replay the run *)
  assert (I0 : winv (xw_begin w)).
  { destruct I as [KN VN [TK TV] CR CK BR]. constructor; cbn [xw_begin x_keys x_vals x_cur x_blocks]; auto; constructor; assumption. }
  destruct (add_all_spec xs (xw_begin w) I0 F) as [w1 [E1 [I1 [S1 [B1 K1]]]]].
  cbn [xw_begin x_cur kmap map] in K1. fold (set_spec xs) in K1. rewrite (set_spec_nodup xs ND) in K1.
  unfold xw_set in E. rewrite E1 in E. cbn [bind] in E. injection E as E.
  pose proof (add_all_keys xs _ _ E1) as KK. cbn [xw_begin x_keys] in KK.
  rewrite (fold_addk _ _ ND) in KK.
  assert (KN : NoDup (x_keys w)) by (destruct I; assumption).
  destruct xs as [|x0 xr] eqn:EX.
  - (* no pairs *)
    cbn [xw_add_all] in E1. injection E1 as <-. cbn in E. injection E as <- <-.
    split; [cbn; rewrite app_nil_r; reflexivity|]. left. split; reflexivity.
  - rewrite <- EX in *.
    assert (NE : x_cur w1 <> []).
    { intro Z. rewrite Z in K1. cbn in K1. rewrite EX in K1. discriminate. }
    destruct (xw_end_block w1 NE) as (k & Ek & Nb & Kk & Kv).
    rewrite E in Ek, Nb, Kk, Kv. cbn [fst snd] in Ek, Nb, Kk, Kv.
    split; [rewrite Kk, KK, store_keys; reflexivity|]. right. split; [rewrite EX; discriminate|].
    exists k, (sort_pairs (x_cur w1)). split; [exact Ek|]. split; [exact Nb|].
    assert (Ekm : kmap w' (sort_pairs (x_cur w1)) = kmap w1 (sort_pairs (x_cur w1))).
    { unfold kmap, pair_kv. rewrite Kk, Kv. reflexivity. }
    rewrite Ekm. clear Ekm.
    set (tbl := x_keys w) in *.
    set (tbl' := tbl ++ map fst (filter (fun x : xattr => negb (key_mem tbl (fst x))) xs)).
    assert (Et' : x_keys w1 = tbl').
    { rewrite KK. unfold tbl'. rewrite (map_fst_filter (fun k => negb (key_mem tbl k))). reflexivity. }
    destruct I1 as [KN1 VN1 T1 CR1 CK1 BR1].
    apply (sorted_unique (klt tbl')).
    + unfold klt. intros a. lia.
    + unfold klt. intros a b. lia.
    + (* the stored block, read through the tables, is sorted by key index *)
      unfold kmap. apply (sorted_map fstlt (klt tbl') (pair_kv w1) (pair_ok w1)).
      * intros a b [Pa _] [Pb _] L. unfold klt, pair_kv, fstlt in *. cbn [fst].
        rewrite <- Et', !key_pos_nth by assumption. exact L.
      * eapply Permutation_Forall; [apply Permutation_sym, sort_pairs_perm|exact CR1].
      * apply sort_pairs_sorted. exact CK1.
    + apply store_sorted; assumption.
    + intro x. split; intro Hx.
      * apply (Permutation_in _ (Permutation_sym (TarArchiveProofs.store_xattrs_perm tbl xs))).
        rewrite <- K1. unfold kmap in *. apply (Permutation_in _ (Permutation_map _ (sort_pairs_perm (x_cur w1)))). exact Hx.
      * apply (Permutation_in _ (TarArchiveProofs.store_xattrs_perm tbl xs)) in Hx. rewrite <- K1 in Hx.
        unfold kmap in *. apply (Permutation_in _ (Permutation_map _ (Permutation_sym (sort_pairs_perm (x_cur w1))))). exact Hx.
Qed.

(* ------------------------------------------------------------------ a whole run *)
(* what the blocks hold, per set, with the key table threaded as C04's reimage_all threads it *)
Fixpoint stored_all (tbl : list (list N)) (sets : list (list xattr)) : list (list xattr) :=
  match sets with
  | [] => []
  | s :: r => snd (store_xattrs tbl s) :: stored_all (fst (store_xattrs tbl s)) r
  end.

Definition xset_ok (s : list xattr) : Prop := Forall kv_ok s /\ nlen s < 4294967296 /\ NoDup (map fst s).

(* the block an index names, in a (later) writer state *)
Definition holds (w : xwr) (idx : N) (l : list xattr) : Prop :=
  (l = [] /\ idx = NOIDX) \/
  (l <> [] /\ exists k blk, idx = N.of_nat k /\ nth_error (x_blocks w) k = Some blk /\ kmap w blk = l).

Lemma holds_stable w w' idx l : winv w -> stable w w' -> holds w idx l -> holds w' idx l.
Proof.
  intros I S [A|[NE [k [blk [E [Nb P]]]]]]; [left; exact A|right]. split; [exact NE|].
  exists k, blk. split; [exact E|]. destruct S as [SK [SV [mb SB]]]. split.
  - rewrite SB. rewrite nth_error_app1 by (apply nth_error_Some; congruence). exact Nb.
  - assert (F : Forall (pair_ok w) blk).
    { destruct I as [_ _ _ _ _ BR]. rewrite Forall_forall in BR. apply BR. eapply nth_error_In. exact Nb. }
    destruct (kmap_stable w w' blk (conj SK (conj SV (ex_intro _ mb SB))) F) as [_ E2]. rewrite E2. exact P.
Qed.

Lemma store_nonempty tbl s : s <> [] -> snd (store_xattrs tbl s) <> [].
Proof.
  intros NE Z. pose proof (TarArchiveProofs.store_xattrs_perm tbl s) as P. rewrite Z in P.
  apply Permutation_nil in P. contradiction.
Qed.

Theorem xw_sets_exact : forall sets w,
  winv w -> blen w -> Forall xset_ok sets ->
  exists w' idxs, xw_sets w sets = Ok (w', idxs) /\ winv w' /\ blen w' /\ stable w w' /\
    length idxs = length sets /\
    forall i idx l, nth_error idxs i = Some idx -> nth_error (stored_all (x_keys w) sets) i = Some l -> holds w' idx l.
Proof.
  induction sets as [|s r IH]; intros w I BL F.
  - exists w, []. split; [reflexivity|]. split; [exact I|]. split; [exact BL|]. split; [apply stable_refl|].
    split; [reflexivity|]. intros i idx l H. destruct i; discriminate.
  - inversion F as [|? ? (Fs & Ls & Ns) Fr]; subst.
    destruct (xw_set_exact w s I BL Fs Ls Ns) as (w1 & i1 & E1 & I1 & B1 & S1 & K1 & D1).
    destruct (IH w1 I1 B1 Fr) as (w2 & is & E2 & I2 & B2 & S2 & L2 & D2).
    exists w2, (i1 :: is). cbn [xw_sets]. rewrite E1. cbn [bind]. rewrite E2. cbn [bind].
    split; [reflexivity|]. split; [exact I2|]. split; [exact B2|]. split; [eapply stable_trans; eassumption|].
    split; [cbn [length]; lia|].
    intros i idx l Hi Hl. destruct i as [|i]; cbn [nth_error stored_all] in *.
    + injection Hi as <-. injection Hl as <-. apply (holds_stable w1 w2 _ _ I1 S2).
      destruct D1 as [[-> ->]|[NE (k & blk & A & B & C)]].
      * left. split; reflexivity.
      * right. split; [apply store_nonempty; exact NE|]. exists k, blk. auto.
    + rewrite <- K1 in Hl. exact (D2 i idx l Hi Hl).
Qed.

(* ------------------------------------------------------------------ copy_xattr *)
Lemma copy_adds_filter : forall xs w, copy_xattr_adds false w xs = xw_add_all w (xfilter xs).
Proof.
  induction xs as [|[k v] r IH]; intro w; [reflexivity|]. cbn [copy_xattr_adds xfilter filter].
  unfold xsupported. cbn [fst]. destruct (prefix_of k) as [[ty sfx]|] eqn:P.
  - cbn [xw_add_all]. destruct (xw_add_kv w k v) as [w1|e| |] eqn:E; cbn [bind]; try reflexivity.
    + apply IH.
    + (* an error of a supported key is not UNSUPPORTED *)
      unfold xw_add_kv in E. rewrite P in E. destruct (KEY_MAX <? nlen sfx) eqn:L.
      * injection E as <-. reflexivity.
      * destruct (get_index (x_keys w) k), (get_index (x_vals w) v), (scan_cur (x_cur w) _ _ 0); discriminate.
  - rewrite (add_kv_bad_prefix w k v P). rewrite Z.eqb_refl. cbn [andb negb]. apply IH.
Qed.

Lemma copy_xattr_filter w xs : copy_xattr false w xs = xw_set w (xkept xs).
Proof.
  unfold copy_xattr, copy_xattr_with, xw_set, xkept. rewrite copy_adds_filter.
  destruct (xw_add_all (xw_begin w) (xfilter (xdedup xs))); reflexivity.
Qed.

Lemma copy_xattrs_filter : forall sets w, copy_xattrs false w sets = xw_sets w (map xkept sets).
Proof.
  induction sets as [|s r IH]; intro w; [reflexivity|]. cbn [copy_xattrs map xw_sets]. rewrite copy_xattr_filter.
  destruct (xw_set w (xkept s)) as [[w1 i]|e| |]; cbn [bind]; try reflexivity. rewrite IH.
  destruct (xw_sets w1 (map xkept r)) as [[w2 is]|e| |]; reflexivity.
Qed.

Lemma xfilter_all xs : Forall kv_ok xs -> xfilter xs = xs.
Proof.
  intro F. unfold xfilter. apply TarArchiveProofs.filter_all. eapply Forall_impl; [|exact F].
  intros x [(ty & sfx & P & _) _]. unfold xsupported. rewrite P. reflexivity.
Qed.

(* the duplicate test *)
Lemma xdedup_go_fresh : forall xs seen, NoDup (map fst xs) -> (forall k, In k seen -> ~ In k (map fst xs)) ->
  xdedup_go seen xs = xs.
Proof.
  induction xs as [|[k v] r IH]; intros seen ND D; [reflexivity|]. cbn [xdedup_go]. cbn [map fst] in ND, D.
  inversion ND as [|? ? NI ND']; subst.
  destruct (existsb (XattrModel.list_eqb k) seen) eqn:E.
  - apply existsb_exists in E. destruct E as (k' & Hk' & E). apply list_eqb_eq in E. subst k'.
    exfalso. apply (D k Hk'). left. reflexivity.
  - f_equal. apply IH; [exact ND'|]. intros k' [<-|Hk'] I; [contradiction|]. apply (D k' Hk'). right. exact I.
Qed.

Lemma xdedup_nodup xs : NoDup (map fst xs) -> xdedup xs = xs.
Proof. intro ND. apply xdedup_go_fresh; [exact ND|intros k []]. Qed.

Lemma xdedup_go_keys : forall xs seen,
  NoDup (map fst (xdedup_go seen xs)) /\ (forall x, In x (xdedup_go seen xs) -> In x xs /\ ~ In (fst x) seen).
Proof.
  induction xs as [|[k v] r IH]; intro seen; [split; [constructor|intros x []]|]. cbn [xdedup_go].
  destruct (existsb (XattrModel.list_eqb k) seen) eqn:E.
  - destruct (IH seen) as [A B]. split; [exact A|]. intros x Hx. destruct (B x Hx). split; [right; assumption|assumption].
  - destruct (IH (k :: seen)) as [A B]. split.
    + cbn [map fst]. constructor; [|exact A]. intro I. apply in_map_iff in I. destruct I as (x & Ex & Hx).
      destruct (B x Hx) as [_ N]. apply N. left. symmetry. exact Ex.
    + intros x [<-|Hx].
      * split; [left; reflexivity|]. cbn [fst]. intro I.
        assert (X : existsb (XattrModel.list_eqb k) seen = true).
        { apply existsb_exists. exists k. split; [exact I|apply list_eqb_eq; reflexivity]. }
        congruence.
      * destruct (B x Hx) as [I N]. split; [right; exact I|]. intro J. apply N. right. exact J.
Qed.

Lemma xkept_keys xs : NoDup (map fst (xkept xs)).
Proof.
  unfold xkept, xfilter. destruct (xdedup_go_keys xs []) as [A _]. fold (xdedup xs) in A.
  induction (xdedup xs) as [|x r IH]; [constructor|]. cbn [map] in A. inversion A as [|? ? NI ND]; subst.
  cbn [filter]. destruct (xsupported x); [|apply IH; exact ND]. cbn [map]. constructor; [|apply IH; exact ND].
  intro I. apply NI. apply in_map_iff in I. destruct I as (y & E & Hy). apply filter_In in Hy. apply in_map_iff.
  exists y. split; [exact E|apply Hy].
Qed.

Lemma xkept_all xs : Forall kv_ok xs -> NoDup (map fst xs) -> xkept xs = xs.
Proof. intros F ND. unfold xkept. rewrite (xdedup_nodup xs ND). apply xfilter_all. exact F. Qed.
