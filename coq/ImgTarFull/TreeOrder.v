(* ImgTarFull — for an archive in the shape sqfs2tar emits, ARCHIVE order is TREE order.

   tar2sqfs calls copy_xattr and write_file while it reads the archive; gensquashfs (ImgE2E.pack_all) walks the finished
   tree: apply_dfs in pre-order over sorted children ([all_paths]) and pack_files over fs->files = file_list_dfs
   ([file_list]).  For an archive that is strictly sorted in directory order and lists every directory (tree_shapeb)
   the two orders coincide:
     all_paths [] root  = the root, then the entries' paths in archive order          (shape_all_paths)
     fs->files          = the paths of the regular-file entries in archive order      (shape_files)
   This is the bridge that lets the composed model of tar2sqfs reuse pack_all_reads_back. *)
From Coq Require Import List NArith ZArith Bool Lia Sorted.
From SqfsV Require C04.TarNum C04.TarHdr C04.TarHdrProofs C04.TarStream C04.TarArchiveProofs.
From SqfsV Require Import C01.GenC01 C01.InodeModel Img.TreeModel.
From SqfsV Require Import C11.StrOrder C11.FstreeModel C11.PostModel C11.TreeProofs C11.PostProofs.
From SqfsV Require Import ImgPost.Bridge ImgPost.TreeInv ImgPost.StructInv ImgPost.ResolveInv ImgPost.BridgeProofs
  ImgPost.PathsModel ImgPost.PathsProofs.
From SqfsV Require Import ImgTar.Model ImgTar.AddLookup ImgTar.Semantics ImgTar.Reimage.
Import ListNotations.
Local Open Scope N_scope.

(* ------------------------------------------------------------------ file_list as a filter of the node paths *)
Definition regat (n : tnode) (q : path) : bool :=
  match lookup_path q n with
  | Some nd => ftype_eqb (a_type (node_attr nd)) FReg
  | None => false
  end.

Lemma file_list_unfold pp nm a ch :
  file_list pp (TNode nm a ch) =
  if ftype_eqb (a_type a) FReg then [pp]
  else if ftype_eqb (a_type a) FDir then concat (map (fun c => file_list (pp ++ [node_name c]) c) ch)
  else [].
Proof.
  cbn [file_list]. destruct (ftype_eqb (a_type a) FReg); [reflexivity|]. destruct (ftype_eqb (a_type a) FDir); [|reflexivity].
  induction ch as [|c r IH]; [reflexivity|]. cbn [map concat]. rewrite <- IH. reflexivity.
Qed.

Lemma filter_concat {A} (f : A -> bool) (ls : list (list A)) : filter f (concat ls) = concat (map (filter f) ls).
Proof. induction ls as [|l r IH]; [reflexivity|]. cbn [concat map]. rewrite filter_app, IH. reflexivity. Qed.

Lemma filter_map_comm {A B} (f : B -> bool) (g : A -> B) l : filter f (map g l) = map g (filter (fun x => f (g x)) l).
Proof. induction l as [|x r IH]; [reflexivity|]. cbn [map filter]. destruct (f (g x)); cbn [map]; rewrite IH; reflexivity. Qed.

Lemma filter_ext_in2 {A} (f g : A -> bool) l : (forall x, In x l -> f x = g x) -> filter f l = filter g l.
Proof.
  induction l as [|x r IH]; intro H; [reflexivity|]. cbn [filter]. rewrite (H x (or_introl eq_refl)).
  rewrite IH; [reflexivity|]. intros y Hy. apply H. right. exact Hy.
Qed.

Lemma concat_map_ext_in {A B} (f g : A -> list B) l : (forall x, In x l -> f x = g x) -> concat (map f l) = concat (map g l).
Proof.
  induction l as [|x r IH]; intro H; [reflexivity|]. cbn [map concat]. rewrite (H x (or_introl eq_refl)).
  rewrite IH; [reflexivity|]. intros y Hy. apply H. right. exact Hy.
Qed.

Lemma file_list_rel : forall n, snames n -> forall pp,
  file_list pp n = map (app pp) (filter (regat n) (rel_paths n)).
Proof.
  induction n as [nm a ch IH] using tnode_ind'. intros Sn pp. destruct (snames_inv _ _ _ Sn) as [Ss Sc].
  pose proof (sorted_names_nodup _ Ss) as ND.
  rewrite file_list_unfold. cbn [rel_paths]. unfold is_dir. cbn [node_attr filter].
  unfold regat at 1. cbn [lookup_path node_attr].
  destruct (ftype_eqb (a_type a) FReg) eqn:R.
  - assert (D : ftype_eqb (a_type a) FDir = false) by (apply ftype_eqb_eq in R; rewrite R; reflexivity).
    rewrite D. cbn [filter map]. rewrite app_nil_r. reflexivity.
  - destruct (ftype_eqb (a_type a) FDir) eqn:D; [|reflexivity].
    rewrite filter_concat, map_map, concat_map, map_map.
    apply concat_map_ext_in. intros c Hc. rewrite Forall_forall in IH, Sc.
    rewrite (IH c Hc (Sc c Hc)), filter_map_comm, map_map.
    assert (E : filter (fun x => regat (TNode nm a ch) (node_name c :: x)) (rel_paths c) = filter (regat c) (rel_paths c)).
    { apply filter_ext_in2. intros q _. unfold regat. rewrite lookup_cons, D. cbn [negb].
      rewrite (find_child_of_in ch c ND Hc). reflexivity. }
    rewrite E. apply map_ext. intro q. rewrite <- app_assoc. reflexivity.
Qed.

Lemma rel_paths_decorate st : forall n pp, rel_paths (decorate st pp n) = rel_paths n.
Proof.
  induction n as [nm a ch IH] using tnode_ind'. intro pp. cbn [decorate rel_paths]. f_equal.
  unfold is_dir. cbn [node_attr set_post a_type].
  destruct (ftype_eqb (a_type a) FDir); [|reflexivity]. rewrite map_map. f_equal.
  rewrite Forall_forall in IH. apply map_ext_in. intros c Hc. rewrite (IH c Hc).
  destruct c; reflexivity.
Qed.

Lemma regat_decorate st root q : regat (decorate st [] root) q = regat root q.
Proof.
  unfold regat. rewrite lookup_decorate. destruct (lookup_path q root) as [nd|]; [|reflexivity].
  cbn [option_map]. rewrite decorate_type. reflexivity.
Qed.

(* ------------------------------------------------------------------ the tree of an archive in sqfs2tar's shape *)
Section Shape.
  Variable d : fsdefaults.
  Variable vs : list tentry.
  Variable fs : fstree.
  Hypothesis Ts : tree_shapeb vs = true.
  Hypothesis Run : run_adds d (fs_init d) (adds_of_entries opts0 d vs) = Some fs.

  Lemma shape_sorted : StronglySorted path_lt ([] :: map ent_path vs).
  Proof. unfold tree_shapeb in Ts. apply andb_prop in Ts. apply ssortedb_sound. apply Ts. Qed.

  Lemma shape_ent_facts : forall t, In t vs -> ent_facts vs t.
  Proof.
    unfold tree_shapeb in Ts. apply andb_prop in Ts. destruct Ts as [Sh _].
    apply (shape_facts vs vs [] Sh); [intros u []|auto].
  Qed.

  Lemma shape_nodup : NoDup (map ent_path vs).
  Proof. apply sorted_nodup. pose proof shape_sorted as S. apply StronglySorted_inv in S. apply S. Qed.

  Lemma shape_adds : adds_of_entries opts0 d vs = map op_of vs.
  Proof. apply adds_shape. apply Forall_forall. intros t Ht. apply (ef_name _ _ (shape_ent_facts t Ht)). Qed.

  Lemma shape_run : run_adds d (fs_init d) (map op_of vs) = Some fs.
  Proof. rewrite <- shape_adds. exact Run. Qed.

  Lemma shape_snames : snames (fs_root fs).
  Proof. apply swf_snames. eapply run_adds_swf; [|exact Run]. apply init_swf. Qed.

  Lemma shape_inv : sem_inv d (map op_of vs) (fs_root fs).
  Proof. apply (run_adds_sem d _ fs (shape_ops_ok vs shape_ent_facts shape_nodup) shape_run). Qed.

  (* pre-order over the tree = the root, then archive order *)
  Lemma shape_rel_paths : rel_paths (fs_root fs) = [] :: map ent_path vs.
  Proof.
    apply (sorted_unique path_lt path_lt_irrefl path_lt_asym);
      [apply rel_paths_sorted; exact shape_snames|exact shape_sorted|].
    intro p. rewrite (rel_paths_exists _ shape_snames p), (si_exists _ _ _ shape_inv p).
    apply (shape_closure vs shape_ent_facts).
  Qed.

  Lemma shape_all_paths : all_paths [] (fs_root fs) = [] :: map ent_path vs.
  Proof. rewrite all_paths_root. exact shape_rel_paths. Qed.

  (* the type of the node of an entry *)
  Lemma shape_node t : In t vs ->
    exists nd, lookup_path (ent_path t) (fs_root fs) = Some nd /\
               a_type (node_attr nd) = (if t_hard t then FLnk else ftype_of_mode (t_mode t)).
  Proof.
    intro Ht.
    assert (Ex : exists_at (ent_path t) (fs_root fs)).
    { apply (rel_paths_exists _ shape_snames). rewrite shape_rel_paths. right. apply in_map. exact Ht. }
    destruct Ex as [nd L]. exists nd. split; [exact L|].
    destruct (si_attr _ _ _ shape_inv _ _ L) as (T & _). rewrite T.
    unfold spec_attr. rewrite (find_op_of vs shape_nodup t Ht). unfold op_of, op_attr. cbn [gent_of e_hard e_type a_type].
    reflexivity.
  Qed.

  Lemma reg_of_mode t : In t vs -> t_hard t = false ->
    ftype_eqb (ftype_of_mode (t_mode t)) FReg = TarStream.is_reg (t_mode t).
  Proof.
    intros Ht Hh. destruct (ef_plain _ _ (shape_ent_facts t Ht) Hh) as (Ty & _).
    unfold TarHdr.type_of_mode in Ty. cbv zeta in Ty. unfold ftype_of_mode, TarStream.is_reg.
    destruct (TarHdr.ftype (t_mode t) =? TarHdr.S_IFREG) eqn:R.
    - apply N.eqb_eq in R. rewrite R. reflexivity.
    - destruct (TarHdr.ftype (t_mode t) =? TarHdr.S_IFDIR); [reflexivity|].
      destruct (TarHdr.ftype (t_mode t) =? TarHdr.S_IFLNK); [reflexivity|].
      destruct (TarHdr.ftype (t_mode t) =? TarHdr.S_IFBLK); [reflexivity|].
      destruct (TarHdr.ftype (t_mode t) =? TarHdr.S_IFCHR); [reflexivity|].
      destruct (TarHdr.ftype (t_mode t) =? TarHdr.S_IFIFO); [reflexivity|].
      exfalso. apply Ty. reflexivity.
  Qed.

  Lemma shape_regat t : In t vs -> regat (fs_root fs) (ent_path t) = TarStream.is_reg (t_mode t).
  Proof.
    intro Ht. destruct (shape_node t Ht) as (nd & L & Ty). unfold regat. rewrite L, Ty.
    destruct (t_hard t) eqn:Hh.
    - destruct (ef_hard _ _ (shape_ent_facts t Ht) Hh) as (Em & _). rewrite Em. reflexivity.
    - apply reg_of_mode; assumption.
  Qed.

  Lemma shape_root_dir : regat (fs_root fs) [] = false.
  Proof.
    unfold regat. cbn [lookup_path].
    pose proof (run_adds_root_dir d _ (fs_init d) fs eq_refl Run) as D. unfold is_dir in D. apply ftype_eqb_eq in D. rewrite D. reflexivity.
  Qed.

  (* fs->files of the tree BEFORE post processing ... *)
  Lemma shape_file_list : file_list [] (fs_root fs) = map ent_path (filter (fun t => TarStream.is_reg (t_mode t)) vs).
  Proof.
    rewrite (file_list_rel _ shape_snames []), shape_rel_paths. cbn [filter]. rewrite shape_root_dir.
    rewrite filter_map_comm, map_map. rewrite (filter_ext_in2 _ (fun t => TarStream.is_reg (t_mode t)) vs shape_regat).
    apply map_ext. reflexivity.
  Qed.

  (* ... and after *)
  Variable pp : ppout.
  Hypothesis Post : post_process fs = POk pp.

  Lemma shape_post_facts : post_facts (fs_root fs) (fs_unres fs) pp.
  Proof.
    apply post_process_facts; [exact shape_snames| | |exact Post].
    - apply (run_adds_root_dir d _ (fs_init d) fs eq_refl Run).
    - eapply run_adds_links_queued; [|exact Run]. apply init_links_queued.
  Qed.

  Theorem shape_xattr_paths : all_paths [] (pp_root pp) = [] :: map ent_path vs.
  Proof.
    destruct shape_post_facts as (st & _ & Er & _). rewrite Er, all_paths_root, rel_paths_decorate. exact shape_rel_paths.
  Qed.

  Theorem shape_files : pp_files pp = map ent_path (filter (fun t => TarStream.is_reg (t_mode t)) vs).
  Proof.
    destruct shape_post_facts as (st & _ & Er & Ef & _). rewrite Ef, Er.
    rewrite (file_list_rel _ (snames_decorate st _ [] shape_snames) []), rel_paths_decorate.
    rewrite (filter_ext_in2 _ (regat (fs_root fs)) _ (fun q _ => regat_decorate st (fs_root fs) q)).
    rewrite <- (file_list_rel _ shape_snames []). exact shape_file_list.
  Qed.
End Shape.
