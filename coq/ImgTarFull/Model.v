(* ImgTarFull — tar2sqfs and sqfs2tar as COMPOSED models from the decoded archive entries to the image BYTES and back,
   including file contents and extended attributes.  Definitions only.

   bin/tar2sqfs/src/tar2sqfs.c main()                       model
   sqfs_writer_init                                         SuperModel.super_init; [file0] = provisional super block +
                                                            compressor options (as ImgE2E.PackAll.pack_all)
   process_tarball, per entry the tar iterator delivers     ImgTar.Model.pt_op_of (mtime clamp, --root-becomes, -k, root entry)
     create_node_and_repack_data
       fstree_add_generic                                   C11 fs_add through ImgTar.Model.tar2sqfs_tree
       if (!cfg.no_xattr) copy_xattr(node):                 [copy_xattr]: it->read_xattr = the entry's decoded list
         sqfs_xattr_writer_begin                              (te_xattr, front to back), C01 xw_begin / xw_add_kv / xw_end;
         for each (not overridden by a later record,          an element whose key occurred in front of it is skipped
           fix F26): sqfs_xattr_writer_add                    ([xdedup]); SQFS_ERROR_UNSUPPORTED (unknown prefix) is skipped with a
           UNSUPPORTED -> warning + continue (or fail           warning unless --no-skip; every other error fails;
           with --no-skip)                                    node->xattr_idx = the index end() hands out — for EVERY
         sqfs_xattr_writer_end(&node->xattr_idx)              node, hard link nodes included (their index is never
                                                              serialized, but their keys enter the key table)
       if (S_ISREG(ent->mode)) write_file:                  [t2s_fcalls]: file number k of the block processor run = the
         flags = no_tail_pack && ent->size > block_size       k-th regular entry that was added, IN ARCHIVE ORDER; its
                   ? SQFS_BLK_DONT_FRAGMENT : 0               inode belongs to the node at the path of that add;
         splice the tar iterator's file stream into           the bytes = te_data = what the tar file stream delivers
         the block processor                                  (C04 TarStream.stream_go: holes expanded, [se_data])
     set_root_attribs (root entry)                          ImgTar.Model.set_root_attr; copy_xattr on the root node
   fstree_post_process                                      C11 PostModel.post_process
   sqfs_writer_finish                                       C08 DedupModel.pack's finish, ImgXattr.FlushModel.xflush at the
                                                            offset where the id table ends, Image.FinishModel.write_image
                                                            (exactly as pack_all)
   The fstree, the xattr writer and the block processor do not read each other's state: the single pass factors into
   the tree (tar2sqfs_tree), the copy_xattr calls in archive order ([t2s_xcalls]) and the write_file calls in archive
   order ([t2s_fcalls]); ImgDet.TarDet.pt_walk_factors is that statement for tree + data.

   bin/sqfs2tar/src/sqfs2tar.c main()                       model
   sqfs_super_read, id table, dir reader,                   ImgE2E.PackAll.read_all on the image BYTES: C05 tree reader,
   data reader, xattr reader                                C05 fragment table loader, C10 data reader, the xattr reader
                                                            specification (ImgXattr.XattrRead)
   tar_compat_iterator / dir_rec / hard link filter         ImgTar.Model.sqfs2tar_entries on (path, view, inode number)
   write_entry: it->read_xattr (unless --no-xattr),         [s2t_attach]: xattr list as read (image order), contents of a
     write_tar_header, write_file_data for S_ISREG            regular file that is not a hard link record
   -> the entries handed to C04's write_archive             [sqfs2tar_full] *)
From Coq Require Import List NArith ZArith Bool.
From SqfsV Require Import Base.Bytes Gen.Constants C03.Common.
From SqfsV Require C14.SuperModel.
From SqfsV Require C04.TarNum C04.TarHdr C04.TarStream C04.TarStreamProofs.
From SqfsV Require Import C01.GenC01 C01.InodeModel C01.XattrModel Img.TreeModel.
From SqfsV Require C01.Res.
From SqfsV Require Import C11.StrOrder C11.FstreeModel C11.PostModel.
From SqfsV Require Import ImgPost.Bridge ImgPost.PathsModel.
From SqfsV Require Import C08.DedupModel.
From SqfsV Require Import Image.FinishModel Image.FinishProofs.
From SqfsV Require Import ImgData.GlueModel.
From SqfsV Require Import ImgXattr.FlushModel.
From SqfsV Require C05.RBase.
From SqfsV Require Import ImgReader.ReadImage.
From SqfsV Require Import ImgTar.Model ImgE2E.PackAll ImgE2E.Hyps.
Import ListNotations.
Local Open Scope N_scope.

Notation tentry := TarStream.tentry.
Notation te_e := TarStream.te_e.
Notation te_target := TarStream.te_target.
Notation te_xattr := TarStream.te_xattr.
Notation te_data := TarStream.te_data.
Notation xattr := TarHdr.xattr.

(* ------------------------------------------------------------------ sparse entries *)
(* an entry as read_header decodes it: the sparse map (old GNU, GNU 0.0 / 0.1 / 1.0; [] = not sparse), the bytes of its
   record, [e_size] = the real size *)
Record sentry := mkSe {
  se_e : TarHdr.entry;
  se_target : option (list N);
  se_xattr : list xattr;
  se_sparse : list (N * N);
  se_record : list N
}.

(* what the tar iterator's file stream delivers for it under EVERY consumer schedule (C04 sparse_stream_spec): the
   position-wise expansion of the map over the record *)
Definition se_data (s : sentry) : list N :=
  TarStreamProofs.fill (N.to_nat (TarHdr.e_size (se_e s))) 0 (se_sparse s) (se_record s).

(* the entry the tar iterator hands to process_tarball *)
Definition te_of_se (s : sentry) : tentry :=
  TarStream.mkte (se_e s) (se_target s) (se_xattr s)
                 (if TarStream.is_reg (TarHdr.e_mode (se_e s)) then se_data s else []).

(* ------------------------------------------------------------------ copy_xattr *)
(* the tar reader builds its xattr list back to front (C04 TarHdr: the PAX handlers prepend): an element in front of
   another one with the same key comes from a LATER record and overrides it (fix F26: copy_xattr skips an element whose
   key already occurred in front of it).  [xdedup] keeps the first element of every key. *)
Fixpoint xdedup_go (seen : list (list N)) (xs : list xattr) : list xattr :=
  match xs with
  | [] => []
  | (k, v) :: r => if existsb (XattrModel.list_eqb k) seen then xdedup_go seen r else (k, v) :: xdedup_go (k :: seen) r
  end.
Definition xdedup (xs : list xattr) : list xattr := xdedup_go [] xs.

Section CopyXattr.
  Variable dont_skip : bool.                     (* --no-skip *)

  (* the for loop behind the duplicate test *)
  Fixpoint copy_xattr_adds (w : xwr) (xs : list xattr) : Res.res xwr :=
    match xs with
    | [] => Res.Ok w
    | (k, v) :: r =>
        match xw_add_kv w k v with
        | Res.Ok w1 => copy_xattr_adds w1 r
        | Res.Err e =>
            if (e =? c_SQFS_ERROR_UNSUPPORTED)%Z && negb dont_skip then copy_xattr_adds w r else Res.Err e
        | Res.Crash => Res.Crash
        | Res.OutOfFuel => Res.OutOfFuel
        end
    end.

  Definition copy_xattr_with (pre : list xattr -> list xattr) (w : xwr) (xs : list xattr) : Res.res (xwr * N) :=
    match copy_xattr_adds (xw_begin w) (pre xs) with
    | Res.Ok w1 => Res.Ok (xw_end w1)
    | Res.Err e => Res.Err e
    | Res.Crash => Res.Crash
    | Res.OutOfFuel => Res.OutOfFuel
    end.

  Definition copy_xattr : xwr -> list xattr -> Res.res (xwr * N) := copy_xattr_with xdedup.
  (* the code before fix F26 added every element: the LAST add of a key = the FIRST record of the archive won *)
  Definition copy_xattr_old : xwr -> list xattr -> Res.res (xwr * N) := copy_xattr_with (fun xs => xs).

  Fixpoint copy_xattrs (w : xwr) (sets : list (list xattr)) : Res.res (xwr * list N) :=
    match sets with
    | [] => Res.Ok (w, [])
    | s :: r =>
        match copy_xattr w s with
        | Res.Ok (w1, i) =>
            match copy_xattrs w1 r with
            | Res.Ok (w2, is) => Res.Ok (w2, i :: is)
            | e => e
            end
        | Res.Err e => Res.Err e
        | Res.Crash => Res.Crash
        | Res.OutOfFuel => Res.OutOfFuel
        end
    end.
End CopyXattr.

(* the pairs a node keeps: per key the element the latest record gave, if SquashFS knows its prefix *)
Definition xsupported (x : xattr) : bool := match prefix_of (fst x) with Some _ => true | None => false end.
Definition xfilter (xs : list xattr) : list xattr := filter xsupported xs.
Definition xkept (xs : list xattr) : list xattr := xfilter (xdedup xs).

(* ------------------------------------------------------------------ tar2sqfs *)
Definition t2s_flags (dont_fragment : bool) : uflags :=
  {| uf_dont_compress := false; uf_dont_hash := false; uf_dont_fragment := dont_fragment;
     uf_dont_dedup := false; uf_ignore_sparse := false |}.

(* node->xattr_idx after the run: the LAST copy_xattr call for that node counts (a second root entry overwrites) *)
Fixpoint xa_last (paths : list path) (idxs : list N) (p : path) : N :=
  match paths, idxs with
  | q :: paths', i :: idxs' =>
      let later := xa_last paths' idxs' p in
      if path_eqb q p then (if existsb (path_eqb p) paths' then later else i) else later
  | _, _ => NOX
  end.

(* n->data.file.inode of the regular file at path p: file number = position among the write_file calls *)
Definition fb_calls (bs : nat) (st : proc) (fcalls : list (path * (uflags * list N))) (p : path) : ibody :=
  match PostModel.index_of p (map fst fcalls) with
  | Some k => pack_body bs st k (length (snd (snd (nth k fcalls ([], (t2s_flags false, []))))))
  | None => new_file_inode
  end.

Section T2S.
  Variable o : t2s_opts.                         (* --root-becomes, -S, -k *)
  Variable no_tail_pack : bool.                  (* -T *)
  Variable dont_skip : bool.                     (* --no-skip *)
  Variable dflt : fsdefaults.                    (* --defaults *)
  Variable hashf : list N -> N.
  Variable dcompress : list N -> option (list N).
  Variable duncompress : list N -> nat -> option (list N).
  Variable half : nat.
  Variable mcompress : list N -> cres.
  Variable limit : N.
  Variable cfg : wcfg.
  Variable opts : list N.                        (* what cmp->write_options wrote *)
  Variable sched : list nat.                     (* worker pool schedule (C08) *)

  (* the node a loop iteration works on: the added node / the root; None = entry dropped *)
  Definition t2s_node (t : tentry) : option path :=
    match pt_op_of o dflt t with
    | PAdd e _ => Some (e_path e)
    | PRootAttr _ => Some []
    | _ => None
    end.

  (* the copy_xattr calls in archive order *)
  Definition t2s_xcalls (vs : list tentry) : list (path * list xattr) :=
    flat_map (fun t => match t2s_node t with Some p => [(p, te_xattr t)] | None => [] end) vs.

  (* the write_file calls in archive order *)
  Definition t2s_fcalls (vs : list tentry) : list (path * (uflags * list N)) :=
    flat_map (fun t => match pt_op_of o dflt t with
                       | PAdd e _ =>
                           if TarStream.is_reg (t_mode t)
                           then [(e_path e,
                                  (t2s_flags (no_tail_pack && (c_block_size cfg <? TarHdr.e_size (te_e t))), te_data t))]
                           else []
                       | _ => []
                       end) vs.

  Definition t2s_xattrs (vs : list tentry) : Res.res (xwr * list N) :=
    if c_no_xattr cfg then Res.Ok (xw_empty, [])
    else copy_xattrs dont_skip xw_empty (map snd (t2s_xcalls vs)).

  Definition t2s_inp (vs : list tentry) (pp : ppout) (idxs : list N) (st : proc) (file0 : list N)
                     (x : option (list N * N)) : winput :=
    let bs := N.to_nat (c_block_size cfg) in
    mkIn opts (data_of (length file0) st) (frag_table_of st)
         (to_img (fb_calls bs st (t2s_fcalls vs))
                 (if c_no_xattr cfg then (fun _ => NOX) else xa_last (map fst (t2s_xcalls vs)) idxs) pp) x.

  (* the whole run; result type and failure classes of ImgE2E.PackAll *)
  Definition t2s_full (vs : list tentry) : pres :=
    match SuperModel.super_init (c_block_size cfg) (c_mtime cfg) (c_comp_id cfg) with
    | SuperModel.Ok s0 =>
      let file0 := SuperModel.encode s0 ++ opts in
      match tar2sqfs_tree o dflt vs with
      | None => PAddErr
      | Some fs =>
        match t2s_xattrs vs with
        | Res.Ok (xw, idxs) =>
          match pack hashf dcompress duncompress (N.to_nat (c_block_size cfg)) false true half file0
                     (map snd (t2s_fcalls vs)) sched with
          | DedupModel.Ok st =>
            match post_process fs with
            | POk pp =>
              match write_image mcompress limit cfg (t2s_inp vs pp idxs st file0 None) with
              | Res.Ok w0 =>
                match xflush mcompress (o_xattr w0) xw with
                | Res.Ok x =>
                  let inp := t2s_inp vs pp idxs st file0 x in
                  match write_image mcompress limit cfg inp with
                  | Res.Ok w => PDone (mkRun fs pp xw idxs st inp w)
                  | r => PFinishErr (res_unit r)
                  end
                | r => PFinishErr (res_unit r)
                end
              | r => PFinishErr (res_unit r)
              end
            | _ => PPostErr
            end
          | _ => PDataErr
          end
        | r => PXattrErr (res_unit r)
        end
      end
    | _ => PInitErr
    end.

  Definition t2s_image (vs : list tentry) : option (list N) :=
    match t2s_full vs with
    | PDone r => Some (image_bytes (r_w r))
    | _ => None
    end.

  (* from the entries as read_header decodes them (sparse maps, records) *)
  Definition t2s_sparse (ss : list sentry) : pres := t2s_full (map te_of_se ss).
End T2S.

(* ------------------------------------------------------------------ sqfs2tar *)

(* what write_entry adds to the iterator's entry: the xattr list as the xattr reader returns it (image order; nothing
   with --no-xattr) and, for S_ISREG — a hard link record has S_IFLNK — the contents *)
Definition s2t_attach (no_xattr : bool) (m : mentry) (e : rentry) : tentry :=
  TarStream.mkte (fst m) (snd m) (if no_xattr then [] else re_xattrs e)
    (if TarStream.is_reg (TarHdr.e_mode (fst m))
     then match re_data e with Some d => d | None => [] end else []).

Fixpoint s2t_attach_all (no_xattr : bool) (ms : list mentry) (es : list rentry) : list tentry :=
  match ms, es with
  | m :: ms', e :: es' => s2t_attach no_xattr m e :: s2t_attach_all no_xattr ms' es'
  | _, _ => []
  end.

Definition key3 (e : rentry) : path * pview * N := (re_path e, re_view e, re_ino e).
Definition nonroot (e : rentry) : bool := match re_path e with [] => false | _ => true end.

(* the entries of the walk (root omitted, hard link filter) with their payload *)
Definition s2t_full_entries (no_links no_xattr : bool) (out : list rentry) : option (list tentry) :=
  match sqfs2tar_entries no_links (map key3 out) with
  | Some ms => Some (s2t_attach_all no_xattr ms (filter nonroot out))
  | None => None
  end.

Inductive s2t_res :=
| S2Ok (es : list tentry)
| S2ReadErr (r : RBase.res unit)       (* a reader failed *)
| S2IdErr.                             (* uid / gid index outside the id table *)

Definition rb_unit {A} (r : RBase.res A) : RBase.res unit :=
  match r with
  | RBase.Ok _ => RBase.Ok tt
  | RBase.Err e => RBase.Err e
  | RBase.Crash => RBase.Crash
  | RBase.OutOfFuel => RBase.OutOfFuel
  end.

Section S2T.
  Variable uc : list N -> N -> RBase.res (list N).
  Variable muncompress : list N -> option (list N).
  Variable duncompress : list N -> nat -> option (list N).

  Definition sqfs2tar_full (no_links no_xattr : bool) (img : list N) (depth efuel fuel : nat) : s2t_res :=
    match read_all uc muncompress duncompress img depth efuel fuel with
    | RBase.Ok out =>
        match s2t_full_entries no_links no_xattr out with
        | Some es => S2Ok es
        | None => S2IdErr
        end
    | r => S2ReadErr (rb_unit r)
    end.
End S2T.

(* ------------------------------------------------------------------ one conversion round on BYTES *)
(* archive bytes -> tar iterator -> tar2sqfs -> image bytes -> sqfs2tar -> archive bytes *)
Inductive round_res :=
| RoundOk (img : list N) (es : list tentry) (tar : list N)
| RoundTarErr (r : TarStream.ra_res)
| RoundPackErr
| RoundS2TErr.

Section Round.
  Variable hashf : list N -> N.
  Variable dcompress : list N -> option (list N).
  Variable duncompress : list N -> nat -> option (list N).
  Variable half : nat.
  Variable mcompress : list N -> cres.
  Variable muncompress : list N -> option (list N).
  Variable limit : N.
  Variable cfg : wcfg.
  Variable opts : list N.
  Variable sched : list nat.
  Variable dflt : fsdefaults.

  Definition round_fuels (r : prun) : nat * nat * nat := (e2e_depth r, e2e_efuel r, e2e_fuel r).

  Definition conv_round (tar : list N) : round_res :=
    match TarStream.read_archive tar with
    | TarStream.RA_Ok vs =>
        match t2s_full opts0 false false dflt hashf dcompress duncompress half mcompress limit cfg opts sched vs with
        | PDone r =>
            let '(depth, efuel, fuel) := round_fuels r in
            match sqfs2tar_full (uc_of muncompress) muncompress duncompress false false (image_bytes (r_w r))
                                depth efuel fuel with
            | S2Ok es => RoundOk (image_bytes (r_w r)) es (TarStream.write_archive es)
            | _ => RoundS2TErr
            end
        | _ => RoundPackErr
        end
    | x => RoundTarErr x
    end.
End Round.
