(* ImgTarFull — entry points of the tie's driver (props/C04/full_driver.ml).  Definitions only.

   The composed models with a fixed oracle instantiation: no data compression, C03's toy metadata compressor in store
   mode, a polynomial checksum.  What the tie compares — the entries sqfs2tar writes (names, order, metadata, link
   structure, contents, xattr lists in stored order) — does not depend on the compressor or the checksum: the real
   tools run with gzip and xxHash32. *)
From Coq Require Import List NArith ZArith Bool.
From SqfsV Require Import Base.Bytes Gen.Constants C03.Common.
From SqfsV Require C04.TarHdr C04.TarStream C04.TarArchiveProofs.
From SqfsV Require Import C01.GenC01 Img.TreeModel.
From SqfsV Require Import C11.FstreeModel.
From SqfsV Require Import Image.FinishModel.
From SqfsV Require C05.RBase.
From SqfsV Require Import ImgReader.ReadImage.
From SqfsV Require Import ImgTar.Model ImgE2E.PackAll ImgE2E.Hyps.
From SqfsV Require Import ImgTarFull.Model ImgTarFull.Rooted ImgTarFull.Bridge ImgTarFull.ReadsBack ImgTarFull.Checks.
Import ListNotations.
Local Open Scope N_scope.

Definition drv_hash (l : list N) : N := fold_left (fun a b => (a * 31 + b) mod 4294967296) l 7.
Definition drv_dc (b : list N) : option (list N) := None.
Definition drv_du (c : list N) (n : nat) : option (list N) := Some c.
Definition drv_cfg (bs mtime : N) (no_xattr : bool) : wcfg := mkCfg bs mtime 1 4096 false no_xattr.

Inductive drv_out :=
| DOk (es : list tentry) (hyps : bool)      (* sqfs2tar's entries; do the hypotheses of conv_roundtrip_full hold? *)
| DPack                                      (* tar2sqfs fails *)
| DRead.                                     (* sqfs2tar fails *)

(* tar entries -> tar2sqfs -> image bytes -> sqfs2tar's entries *)
Definition drv_conv (o : t2s_opts) (ntp dont_skip : bool) (d : fsdefaults) (bs : N) (nox_t nolinks nox_s : bool)
                    (vs : list tentry) : drv_out :=
  let cfg := drv_cfg bs (fd_mtime d) nox_t in
  match t2s_full o ntp dont_skip d drv_hash drv_dc drv_du 4096%nat (img_compress 0) c_id_table_limit cfg [] [] vs with
  | PDone r =>
      match sqfs2tar_full (uc_of (img_uncompress 0)) (img_uncompress 0) drv_du nolinks nox_s (image_bytes (r_w r))
                          (e2e_depth r) (e2e_efuel r) (e2e_fuel r) with
      | S2Ok es =>
          DOk es (match vs with
                  | t0 :: vs' =>
                      match pt_op_of o d t0 with
                      | PRootAttr e0 =>      (* tar2sqfs_rooted_image_reads_back: the root entry in front *)
                          let rootx := xkept (te_xattr t0) in
                          tree_shapeb vs' && forallb data_okb vs' && xattrs_okb vs' && xset_okb rootx &&
                          e2e_okb 4096%nat cfg (pi_gen ntp cfg (root_defaults true d e0) [] [] rootx vs') r
                      | _ =>                 (* tar2sqfs_image_reads_back / conv_roundtrip_full *)
                          tree_shapeb vs && forallb data_okb vs && xattrs_okb vs &&
                          e2e_okb 4096%nat cfg (pi_of ntp cfg d [] [] vs) (with_root r)
                      end
                  | [] => false
                  end)
      | _ => DRead
      end
  | _ => DPack
  end.
