(* ImgTarFull — boolean forms of the archive-level hypotheses (for the examples and for the tie's driver), with
   soundness. *)
From Coq Require Import List NArith ZArith Bool Lia.
From SqfsV Require Import Base.Bytes Gen.Constants C03.Common.
From SqfsV Require C04.TarNum C04.TarHdr C04.TarStream C04.TarArchiveProofs.
From SqfsV Require Import C01.GenC01 C01.XattrModel C01.XattrProofs C01.XattrWriterProofs.
From SqfsV Require C01.Res.
From SqfsV Require Import ImgE2E.Hyps ImgE2E.Facts.
From SqfsV Require Import ImgTar.Model.
From SqfsV Require Import ImgTarFull.Model ImgTarFull.XattrOrder ImgTarFull.ReadsBack.
Import ListNotations.
Local Open Scope N_scope.

Fixpoint keys_nodupb (l : list (list N)) : bool :=
  match l with
  | [] => true
  | k :: r => negb (existsb (XattrModel.list_eqb k) r) && keys_nodupb r
  end.

Lemma keys_nodupb_sound l : keys_nodupb l = true -> NoDup l.
Proof.
  induction l as [|k r IH]; cbn [keys_nodupb]; intro H; [constructor|]. apply andb_prop in H. destruct H as [H1 H2].
  constructor; [|apply IH; exact H2]. intro I. apply negb_true_iff in H1.
  assert (X : existsb (XattrModel.list_eqb k) r = true).
  { apply existsb_exists. exists k. split; [exact I|apply list_eqb_eq; reflexivity]. }
  congruence.
Qed.

Definition xset_okb (s : list xattr) : bool :=
  forallb kv_okb s && (Res.nlen s <? 4294967296) && keys_nodupb (map fst s).

Lemma xset_okb_sound s : xset_okb s = true -> xset_ok s.
Proof.
  unfold xset_okb, xset_ok. rewrite !andb_true_iff, N.ltb_lt. intros [[A B] C]. split; [|split; [exact B|apply keys_nodupb_sound; exact C]].
  apply Forall_forall. intros kv H. apply kv_okb_ok. rewrite forallb_forall in A. apply A. exact H.
Qed.

Definition xattrs_okb (vs : list tentry) : bool := forallb (fun t => xset_okb (te_xattr t)) vs.

Lemma xattrs_okb_sound vs : xattrs_okb vs = true -> xattrs_ok vs.
Proof.
  unfold xattrs_okb, xattrs_ok. intro H. apply Forall_forall. intros s Hs. apply in_map_iff in Hs. destruct Hs as (t & <- & Ht).
  apply xset_okb_sound. rewrite forallb_forall in H. apply H. exact Ht.
Qed.

Definition data_okb (t : tentry) : bool :=
  if TarStream.is_reg (TarHdr.e_mode (te_e t)) && negb (TarHdr.e_hardlink (te_e t))
  then N.of_nat (length (te_data t)) =? TarHdr.e_size (te_e t) else true.

Lemma data_okb_sound vs : forallb data_okb vs = true -> Forall TarArchiveProofs.data_ok vs.
Proof.
  intro H. apply Forall_forall. intros t Ht R. rewrite forallb_forall in H. specialize (H t Ht). unfold data_okb in H.
  rewrite R in H. apply N.eqb_eq. exact H.
Qed.
