(* ImgTarFull — non-vacuity: one archive through both composed tools, twice, by computation.

     d/       directory, user.a = "0"
     d/f      regular file "hello"; decoded xattr list user.b = "2", user.a = "1" (user.a is already in the key table:
              the image stores user.a first)
     d/h      hard link record -> d/f
     d/s      SPARSE file: real size 10, map (0,3) (6,4), record 1..7: one hole of three bytes
     l        symbolic link -> d/f
   Block size 4096, constant checksum, C08's toy run-length data compressor, the zero-run-length metadata compressor
   (the same as ImgE2E.Example). *)
From Coq Require Import List NArith ZArith Bool.
From SqfsV Require Import Base.Bytes Gen.Constants C03.Common.
From SqfsV Require C04.TarNum C04.TarHdr C04.TarStream C04.TarStreamProofs C04.TarArchiveProofs.
From SqfsV Require Import C01.GenC01 C01.InodeModel C01.XattrModel Img.TreeModel.
From SqfsV Require C01.Res C01.XattrWriterProofs.
From SqfsV Require Import C11.StrOrder C11.FstreeModel C11.PostModel.
From SqfsV Require Import ImgPost.Bridge ImgPost.PathsModel.
From SqfsV Require Import C08.DedupModel C08.DedupTheorems.
From SqfsV Require Import Image.FinishModel Image.FinishProofs.
From SqfsV Require Import ImgReader.Embed ImgReader.ReadImage.
From SqfsV Require C05.RBase.
From SqfsV Require Import ImgTar.Model.
From SqfsV Require Import ImgE2E.PackAll ImgE2E.Hyps.
From SqfsV Require ImgTarFull.Rooted.
From SqfsV Require Import ImgTarFull.Model ImgTarFull.Bridge ImgTarFull.ReadsBack ImgTarFull.Checks.
Import ListNotations.
Local Open Scope N_scope.

Definition fx_d : list N := [100].
Definition fx_f : list N := [100; 47; 102].
Definition fx_h : list N := [100; 47; 104].
Definition fx_s : list N := [100; 47; 115].
Definition fx_l : list N := [108].
Definition fx_ka : list N := [117; 115; 101; 114; 46; 97].     (* user.a *)
Definition fx_kb : list N := [117; 115; 101; 114; 46; 98].     (* user.b *)
Definition fx_hello : list N := [104; 101; 108; 108; 111].

Definition fx_ss : list sentry :=
  [ mkSe (TarHdr.mkentry fx_d 16877 0 0 0 1600000000%Z 0 false) None [(fx_ka, [48])] [] [];
    mkSe (TarHdr.mkentry fx_f 33188 1000 100 5 1600000001%Z 0 false) None [(fx_kb, [50]); (fx_ka, [49])] [] fx_hello;
    mkSe (TarHdr.mkentry fx_h 41471 1000 100 0 1600000001%Z 0 true) (Some fx_f) [] [] [];
    mkSe (TarHdr.mkentry fx_s 33188 0 0 10 5%Z 0 false) None [] [(0, 3); (6, 4)] [1; 2; 3; 4; 5; 6; 7];
    mkSe (TarHdr.mkentry fx_l 41471 0 0 0 7%Z 0 false) (Some fx_f) [] [] [] ].

Definition fx_vs : list tentry := map te_of_se fx_ss.
Definition fx_d0 : fsdefaults := mkDefaults 0 0 0 493.
Definition fx_cfg : wcfg := mkCfg 4096 77 1 4096 true false.
Definition fx_half : nat := 4096.

Definition fx_t2s (vs : list tentry) : pres :=
  t2s_full opts0 false false fx_d0 const_hash toy_compress toy_uncompress fx_half (img_compress 3) c_id_table_limit fx_cfg []
           [0%nat; 0%nat] vs.
Definition fx_okb (vs : list tentry) (r : prun) : bool :=
  e2e_okb fx_half fx_cfg (pi_of false fx_cfg fx_d0 [] [0%nat; 0%nat] vs) (with_root r).
Definition fx_read (r : prun) : RBase.res (list rentry) :=
  read_all (uc_of (img_uncompress 3)) (img_uncompress 3) toy_uncompress (image_bytes (r_w r))
           (e2e_depth r) (e2e_efuel r) (e2e_fuel r).
Definition fx_s2t (r : prun) : s2t_res :=
  sqfs2tar_full (uc_of (img_uncompress 3)) (img_uncompress 3) toy_uncompress false false (image_bytes (r_w r))
                (e2e_depth r) (e2e_efuel r) (e2e_fuel r).
Definition fx_round (tar : list N) : round_res :=
  conv_round const_hash toy_compress toy_uncompress fx_half (img_compress 3) (img_uncompress 3) c_id_table_limit fx_cfg []
             [0%nat; 0%nat] fx_d0 tar.

(* the sparse file as the tar iterator's stream delivers it: the hole expanded *)
Lemma fx_sparse :
  match nth_error fx_ss 3 with
  | Some s =>
      se_data s = [1; 2; 3; 0; 0; 0; 4; 5; 6; 7] /\
      se_data s = TarStream.expand 0 (se_sparse s) (se_record s) (TarHdr.e_size (se_e s)) /\
      TarStream.wf_map 0 (se_sparse s) (TarHdr.e_size (se_e s))
  | None => False
  end.
Proof. vm_compute. repeat split; try reflexivity; discriminate. Qed.

(* every hypothesis of tar2sqfs_image_reads_back *)
Lemma fx_hyps :
  tree_shapeb fx_vs = true /\ forallb data_okb fx_vs = true /\ xattrs_okb fx_vs = true /\
  match fx_t2s fx_vs with
  | PDone r => fx_okb fx_vs r = true
  | _ => False
  end.
Proof. vm_compute. repeat split; reflexivity. Qed.

(* ... and what the reader models return from the bytes of the image: paths, inode numbers (d/f and d/h share one), modes,
   contents (holes expanded), xattr lists in stored order (user.a in front of user.b for d/f) *)
Lemma fx_back :
  match fx_t2s fx_vs with
  | PDone r =>
      match fx_read r with
      | RBase.Ok out =>
          map (fun e => (re_path e, re_ino e, pv_mode (re_view e), re_data e, re_xattrs e)) out =
          [ ([], 5, 16877, None, []);
            ([[100]], 3, 16877, None, [(fx_ka, [48])]);
            ([[100]; [102]], 1, 33188, Some fx_hello, [(fx_ka, [49]); (fx_kb, [50])]);
            ([[100]; [104]], 1, 33188, Some fx_hello, [(fx_ka, [49]); (fx_kb, [50])]);
            ([[100]; [115]], 2, 33188, Some [1; 2; 3; 0; 0; 0; 4; 5; 6; 7], []);
            ([[108]], 4, 41471, None, []) ]
      | _ => False
      end
  | _ => False
  end.
Proof. vm_compute. reflexivity. Qed.

(* sqfs2tar's entries for that image, and the second round: the archive sqfs2tar writes is a fixpoint of
   tar iterator -> tar2sqfs -> image bytes -> sqfs2tar, byte for byte; all hypotheses of conv_fixpoint_full hold of it *)
Lemma fx_second_round :
  match fx_t2s fx_vs with
  | PDone r =>
      match fx_s2t r with
      | S2Ok es =>
          map (fun t => (TarHdr.e_name (te_e t), TarHdr.e_hardlink (te_e t), te_target t, te_xattr t, te_data t)) es =
          [ ([100; 47], false, None, [(fx_ka, [48])], []);
            (fx_f, false, None, [(fx_ka, [49]); (fx_kb, [50])], fx_hello);
            (fx_h, true, Some fx_f, [(fx_ka, [49]); (fx_kb, [50])], []);
            (fx_s, false, None, [], [1; 2; 3; 0; 0; 0; 4; 5; 6; 7]);
            (fx_l, false, Some fx_f, [], []) ] /\
          forallb TarArchiveProofs.entry_okb es && forallb TarArchiveProofs.img_shapeb es && TarArchiveProofs.settledb [] es = true /\
          tree_shapeb (TarArchiveProofs.views es) = true /\ xattrs_okb (TarArchiveProofs.views es) = true /\
          match fx_t2s (TarArchiveProofs.views es) with
          | PDone r2 => fx_okb (TarArchiveProofs.views es) r2 = true
          | _ => False
          end /\
          match fx_round (TarStream.write_archive es) with
          | RoundOk img2 es2 tar2 => tar2 = TarStream.write_archive es /\ es2 = es
          | _ => False
          end
      | _ => False
      end
  | _ => False
  end.
Proof. vm_compute. repeat split; reflexivity. Qed.

(* ------------------------------------------------------------------ corners *)
Definition fx_kc : list N := [117; 115; 101; 114; 46; 99].     (* user.c *)
Definition fx_file (name : list N) (xs : list xattr) : tentry :=
  TarStream.mkte (TarHdr.mkentry name 33188 0 0 1 5%Z 0 false) None xs [120].

Definition fx_xattrs_of (vs : list tentry) : option (list (list N * list xattr)) :=
  match fx_t2s vs with
  | PDone r =>
      match fx_s2t r with
      | S2Ok es => Some (map (fun t => (TarHdr.e_name (te_e t), te_xattr t)) es)
      | _ => None
      end
  | _ => None
  end.

(* FINDING F26.  A PAX header that repeats a keyword: SCHILY.xattr.user.a=1, then SCHILY.xattr.user.a=2.  POSIX pax,
   GNU tar and Python tarfile: the later record overrides (the file has user.a = "2").  The tar reader prepends every
   record: decoded list [a=2; a=1].  copy_xattr before the fix added both, and in the xattr writer the LATER add of a
   key replaces the value: the image held user.a = "1", the value of the FIRST record.  With the fix (an element whose key
   occurred in front of it is skipped) the image holds "2". *)
Definition fx_dup_archive : list N :=
  TarStream.write_archive [fx_file [102] [(fx_ka, [50]); (fx_ka, [49])]].    (* write_entry reverses: records a=1, a=2 *)

Lemma fx_dup_key_refuted :
  match TarStream.read_archive fx_dup_archive with
  | TarStream.RA_Ok [t] =>
      te_xattr t = [(fx_ka, [50]); (fx_ka, [49])] /\
      (* the unrepaired copy_xattr: one pair, value "1" *)
      match copy_xattr_old false xw_empty (te_xattr t) with
      | Res.Ok (w, idx) => idx = 0 /\ map (XattrWriterProofs.kmap w) (x_blocks w) = [[(fx_ka, [49])]]
      | _ => False
      end /\
      (* the repaired one: value "2" *)
      match copy_xattr false xw_empty (te_xattr t) with
      | Res.Ok (w, idx) => idx = 0 /\ map (XattrWriterProofs.kmap w) (x_blocks w) = [[(fx_ka, [50])]]
      | _ => False
      end /\
      fx_xattrs_of [t] = Some [([102], [(fx_ka, [50])])]
  | _ => False
  end.
Proof. vm_compute. repeat split; reflexivity. Qed.

(* xattrs on a hard link RECORD (a foreign archive; sqfs2tar writes none): they are not stored — the record is a second
   name of f's inode and shows f's pairs — but their keys enter the key table: g's decoded list [c; a] is stored [a; c]
   because the record used user.a first; without the pairs on the record it is stored [c; a]. *)
Definition fx_hl_archive (on_record : list xattr) : list tentry :=
  [ fx_file [102] [(fx_kb, [49])];
    TarStream.mkte (TarHdr.mkentry [104] 41471 0 0 0 5%Z 0 true) (Some [102]) on_record [];
    fx_file [105] [(fx_kc, [50]); (fx_ka, [51])] ].

Lemma fx_hard_link_record_xattrs :
  fx_xattrs_of (fx_hl_archive [(fx_ka, [57])]) =
    Some [([102], [(fx_kb, [49])]); ([104], [(fx_kb, [49])]); ([105], [(fx_ka, [51]); (fx_kc, [50])])] /\
  fx_xattrs_of (fx_hl_archive []) =
    Some [([102], [(fx_kb, [49])]); ([104], [(fx_kb, [49])]); ([105], [(fx_kc, [50]); (fx_ka, [51])])].
Proof. vm_compute. split; reflexivity. Qed.

(* a key whose prefix SquashFS does not know ("foo.bar"): dropped (tar2sqfs prints a warning); with --no-skip tar2sqfs
   fails *)
Definition fx_foreign : list tentry := [fx_file [102] [([102; 111; 111; 46; 98; 97; 114], [49]); (fx_ka, [50])]].

Lemma fx_foreign_prefix_dropped :
  fx_xattrs_of fx_foreign = Some [([102], [(fx_ka, [50])])] /\
  match t2s_full opts0 false true fx_d0 const_hash toy_compress toy_uncompress fx_half (img_compress 3) c_id_table_limit fx_cfg []
                 [0%nat; 0%nat] fx_foreign with
  | PXattrErr _ => True
  | _ => False
  end.
Proof. vm_compute. split; [reflexivity|exact I]. Qed.

(* xattr_writer_order on a writer that already knows user.a: the decoded list [b; a] is stored [a; b] = store_xattrs *)
Lemma fx_writer_order :
  match xw_set xw_empty [(fx_ka, [48])] with
  | Res.Ok (w, _) =>
      let xs := [(fx_kb, [50]); (fx_ka, [49])] in
      forallb kv_okb xs = true /\
      match xw_set w xs with
      | Res.Ok (w', idx) =>
          idx = 1 /\ x_keys w' = fst (TarStream.store_xattrs (x_keys w) xs) /\
          map (XattrWriterProofs.kmap w') (x_blocks w') = [[(fx_ka, [48])]; snd (TarStream.store_xattrs (x_keys w) xs)] /\
          snd (TarStream.store_xattrs (x_keys w) xs) = [(fx_ka, [49]); (fx_kb, [50])]
      | _ => False
      end
  | _ => False
  end.
Proof. vm_compute. repeat split; reflexivity. Qed.

(* ------------------------------------------------------------------ an archive WITH its root entry in front ("./") *)
Definition fx_root : tentry :=
  TarStream.mkte (TarHdr.mkentry [] 16832 7 8 0 5%Z 0 false) None [(fx_kc, [57])] [].      (* 0700, uid 7, gid 8, user.c *)
Definition fx_root_gent : gent := gent_of [] (te_e fx_root) 5%Z.
Definition fx_dr : fsdefaults := ImgTarFull.Rooted.root_defaults true fx_d0 fx_root_gent.
Definition fx_rootx : list xattr := xkept (te_xattr fx_root).
Definition fx_okb_rooted (r : prun) : bool :=
  e2e_okb fx_half fx_cfg (pi_gen false fx_cfg fx_dr [] [0%nat; 0%nat] fx_rootx fx_vs) r.

(* every hypothesis of tar2sqfs_rooted_image_reads_back; the root comes back with the entry's mode, owner, time stamp and
   pairs (NOT the defaults), the rest as before *)
Lemma fx_rooted :
  pt_op_of opts0 fx_d0 fx_root = PRootAttr fx_root_gent /\
  tree_shapeb fx_vs = true /\ forallb data_okb fx_vs = true /\ xattrs_okb fx_vs = true /\ xset_okb fx_rootx = true /\
  match fx_t2s (fx_root :: fx_vs) with
  | PDone r =>
      fx_okb_rooted r = true /\
      match fx_read r with
      | RBase.Ok out =>
          map (fun e => (re_path e, pv_mode (re_view e), pv_uid (re_view e), pv_gid (re_view e), pv_mtime (re_view e), re_xattrs e)) out =
          [ ([], 16832, Some 7, Some 8, 5, [(fx_kc, [57])]);
            ([[100]], 16877, Some 0, Some 0, 1600000000, [(fx_ka, [48])]);
            ([[100]; [102]], 33188, Some 1000, Some 100, 1600000001, [(fx_ka, [49]); (fx_kb, [50])]);
            ([[100]; [104]], 33188, Some 1000, Some 100, 1600000001, [(fx_ka, [49]); (fx_kb, [50])]);
            ([[100]; [115]], 33188, Some 0, Some 0, 5, []);
            ([[108]], 41471, Some 0, Some 0, 7, []) ]
      | _ => False
      end
  | _ => False
  end.
Proof. vm_compute. repeat split; reflexivity. Qed.

(* the auditor's archive (root entry uid 7, then a file): the side conditions of tar2sqfs_tree_with_root_entries hold, the
   tree has the root entry's owner, the tree of the adds alone has the default's *)
Definition fx_audit_rooted : list tentry :=
  [ TarStream.mkte (TarHdr.mkentry [] 16832 7 8 0 5%Z 0 false) None [] [];
    TarStream.mkte (TarHdr.mkentry [97] 33188 1000 100 2 1600000000%Z 0 false) None [] [1; 2] ].

Lemma fx_audit_root_entry :
  forallb no_root_op (pt_ops opts0 fx_d0 fx_audit_rooted) = false /\
  forallb ImgTarFull.Rooted.no_bad_root (pt_ops opts0 fx_d0 fx_audit_rooted) = true /\
  forallb ImgTarFull.Rooted.add_below_root (pt_ops opts0 fx_d0 fx_audit_rooted) = true /\
  ImgTarFull.Rooted.no_implicitb (adds_of_entries opts0 fx_d0 (tl fx_audit_rooted)) = true /\
  match tar2sqfs_tree opts0 fx_d0 fx_audit_rooted, run_adds fx_d0 (fs_init fx_d0) (adds_of_entries opts0 fx_d0 fx_audit_rooted) with
  | Some fs, Some fs' =>
      a_uid (node_attr (fs_root fs)) = 7 /\ a_uid (node_attr (fs_root fs')) = 0 /\
      fs = ImgTarFull.Rooted.apply_roots true (pt_ops opts0 fx_d0 fx_audit_rooted) fs'
  | _, _ => False
  end.
Proof. vm_compute. repeat split; reflexivity. Qed.
