(* ImgTarFull — bridge: on an archive in the shape sqfs2tar emits, the composed model of tar2sqfs IS a run of
   ImgE2E.pack_all (the composed model of gensquashfs) on the input [pi_of]: same add operations; per path the contents,
   flags and (supported) pairs of the entry of that name.  The difference between the two programs — tar2sqfs feeds
   the xattr writer and the block processor in ARCHIVE order while it reads, gensquashfs in tree order afterwards — vanishes
   on such an archive (TreeOrder.shape_xattr_paths, shape_files).  The only trace left is the root: apply_dfs begins and
   ends an empty set for it (index 0xFFFFFFFF, writer state untouched), tar2sqfs does not touch it. *)
From Coq Require Import List NArith ZArith Bool Lia Sorted.
From SqfsV Require Import Base.Bytes Gen.Constants C03.Common.
From SqfsV Require C14.SuperModel.
From SqfsV Require C04.TarNum C04.TarHdr C04.TarStream C04.TarArchiveProofs.
From SqfsV Require Import C01.GenC01 C01.InodeModel C01.XattrModel C01.XattrProofs C01.XattrWriterProofs Img.TreeModel.
From SqfsV Require C01.Res.
From SqfsV Require Import C11.StrOrder C11.FstreeModel C11.PostModel.
From SqfsV Require Import ImgPost.Bridge ImgPost.PathsModel ImgPost.ListPos.
From SqfsV Require Import C08.DedupModel.
From SqfsV Require Import Image.FinishModel Image.FinishProofs.
From SqfsV Require Import ImgData.GlueModel ImgXattr.FlushModel.
From SqfsV Require Import ImgTar.Model ImgTar.AddLookup ImgTar.Semantics ImgTar.Reimage ImgTar.Compose.
From SqfsV Require Import ImgE2E.PackAll.
From SqfsV Require Import ImgTarFull.Model ImgTarFull.XattrOrder ImgTarFull.TreeOrder ImgTarFull.Rooted.
Import ListNotations.
Local Open Scope N_scope.

(* the entry of a name *)
Definition ent_at (vs : list tentry) (p : path) : option tentry := find (fun t => path_eqb (ent_path t) p) vs.

Definition t2s_file_flags (no_tail_pack : bool) (cfg : wcfg) (t : tentry) : uflags :=
  t2s_flags (no_tail_pack && (c_block_size cfg <? TarHdr.e_size (te_e t))).

(* the gensquashfs-style input that stands for the archive; [rootx] = the pairs of the root node (those of the archive's
   root entry, if it has one) *)
Definition pi_gen (no_tail_pack : bool) (cfg : wcfg) (d : fsdefaults) (opts : list N) (sched : list nat)
                  (rootx : list xattr) (vs : list tentry) : pinput :=
  mkPin d (adds_of_entries opts0 d vs)
        (fun p => match ent_at vs p with
                  | Some t => (t2s_file_flags no_tail_pack cfg t, te_data t)
                  | None => (t2s_flags false, [])
                  end)
        (fun p => match ent_at vs p with
                  | Some t => xkept (te_xattr t)
                  | None => match p with [] => rootx | _ => [] end
                  end)
        opts sched.

Definition pi_of (no_tail_pack : bool) (cfg : wcfg) (d : fsdefaults) (opts : list N) (sched : list nat)
                 (vs : list tentry) : pinput := pi_gen no_tail_pack cfg d opts sched [] vs.

Lemma ent_at_in vs t : NoDup (map ent_path vs) -> In t vs -> ent_at vs (ent_path t) = Some t.
Proof.
  intros ND Ht. unfold ent_at.
  destruct (find (fun u => path_eqb (ent_path u) (ent_path t)) vs) as [u|] eqn:F.
  - apply find_some in F. destruct F as [Hu E]. apply path_eqb_eq in E.
    rewrite (nodup_map_inj ent_path vs ND u t Hu Ht E). reflexivity.
  - exfalso. pose proof (find_none _ _ F t Ht) as E. cbn beta in E. rewrite path_eqb_refl in E. discriminate.
Qed.

Lemma ent_at_none vs p : ~ In p (map ent_path vs) -> ent_at vs p = None.
Proof.
  intro NI. unfold ent_at. destruct (find (fun u => path_eqb (ent_path u) p) vs) as [u|] eqn:F; [|reflexivity].
  apply find_some in F. destruct F as [Hu E]. apply path_eqb_eq in E. exfalso. apply NI. rewrite <- E. apply in_map. exact Hu.
Qed.

(* ------------------------------------------------------------------ to_img reads fb and xa pointwise *)
Lemma to_img_ext2 fb fb' xa xa' pp : (forall q, fb q = fb' q) -> (forall q, xa q = xa' q) ->
  to_img fb xa pp = to_img fb' xa' pp.
Proof.
  intros Hf Hx. unfold to_img. apply map_ext. intro p. unfold node_img.
  destruct (lookup_path p (pp_root pp)) as [[nm a ch]|]; [|reflexivity]. rewrite Hx, Hf. reflexivity.
Qed.

(* ------------------------------------------------------------------ xattr_idx per node *)
Lemma xa_last_nodup : forall paths idxs q, NoDup paths ->
  xa_last paths idxs q = match index_of q paths with Some k => nth k idxs NOX | None => NOX end.
Proof.
  induction paths as [|p r IH]; intros idxs q ND; [reflexivity|]. inversion ND as [|? ? NI ND']; subst.
  destruct idxs as [|i idxs].
  - cbn [xa_last index_of]. destruct (path_eqb p q); [reflexivity|]. destruct (index_of q r) as [k|]; cbn; [destruct k|]; reflexivity.
  - cbn [xa_last index_of]. rewrite (IH idxs q ND'). destruct (path_eqb p q) eqn:E.
    + apply path_eqb_eq in E. subst q.
      assert (X : existsb (path_eqb p) r = false).
      { destruct (existsb (path_eqb p) r) eqn:X; [|reflexivity]. apply existsb_exists in X. destruct X as (y & Hy & Ey).
        apply path_eqb_eq in Ey. subst y. contradiction. }
      rewrite X. reflexivity.
    + destruct (index_of q r) as [k|]; reflexivity.
Qed.

Lemma xa_root_first paths idxs q : NoDup paths -> ~ In [] paths ->
  xa_last paths idxs q = xa_of ([] :: paths) (NOIDX :: idxs) q.
Proof.
  intros ND NR. rewrite (xa_last_nodup paths idxs q ND). unfold xa_of. cbn [index_of].
  destruct (path_eqb [] q) eqn:E.
  - apply path_eqb_eq in E. subst q. destruct (index_of [] paths) as [k|] eqn:F; [|reflexivity].
    exfalso. apply NR. eapply nth_error_In. apply index_of_nth. exact F.
  - destruct (index_of q paths) as [k|]; reflexivity.
Qed.

(* ------------------------------------------------------------------ the calls on an archive in sqfs2tar's shape *)
Lemma shape_xcalls d : forall vs, (forall t, In t vs -> tname_okb t = true) ->
  t2s_xcalls opts0 d vs = map (fun t => (ent_path t, te_xattr t)) vs.
Proof.
  unfold t2s_xcalls, t2s_node. induction vs as [|t r IH]; intro Names; [reflexivity|]. cbn [flat_map map].
  rewrite (pt_op_shape d t (Names t (or_introl eq_refl))).
  rewrite IH by (intros u Hu; apply Names; right; exact Hu). reflexivity.
Qed.

Lemma shape_fcalls no_tail_pack d cfg : forall vs, (forall t, In t vs -> tname_okb t = true) ->
  t2s_fcalls opts0 no_tail_pack d cfg vs =
  map (fun t => (ent_path t, (t2s_file_flags no_tail_pack cfg t, te_data t)))
      (filter (fun t => TarStream.is_reg (t_mode t)) vs).
Proof.
  unfold t2s_fcalls. induction vs as [|t r IH]; intro Names; [reflexivity|]. cbn [flat_map filter].
  rewrite (pt_op_shape d t (Names t (or_introl eq_refl))).
  rewrite IH by (intros u Hu; apply Names; right; exact Hu).
  destruct (TarStream.is_reg (t_mode t)); reflexivity.
Qed.

Lemma shape_no_root d vs : (forall t, In t vs -> tname_okb t = true) -> forallb no_root_op (pt_ops opts0 d vs) = true.
Proof.
  intro Names. unfold pt_ops. rewrite forallb_forall. intros o Ho. apply in_map_iff in Ho. destruct Ho as (t & <- & Ht).
  rewrite (pt_op_shape d t (Names t Ht)). reflexivity.
Qed.

(* ------------------------------------------------------------------ the bridge *)
Section Bridge.
  Variable no_tail_pack : bool.
  Variable d : fsdefaults.
  Variable hashf : list N -> N.
  Variable dcompress : list N -> option (list N).
  Variable duncompress : list N -> nat -> option (list N).
  Variable half : nat.
  Variable mcompress : list N -> cres.
  Variable limit : N.
  Variable cfg : wcfg.
  Variable opts : list N.
  Variable sched : list nat.
  Variable vs : list tentry.
  Hypothesis Ts : tree_shapeb vs = true.
  Hypothesis Hnox : c_no_xattr cfg = false.

  Variable rootx : list xattr.
  Let pi := pi_gen no_tail_pack cfg d opts sched rootx vs.
  Let regs := filter (fun t => TarStream.is_reg (t_mode t)) vs.

  (* the run of pack_all that the run of tar2sqfs is: the same, with the root's empty set in front *)
  Definition with_root (r : prun) : prun :=
    mkRun (r_fs r) (r_pp r) (r_xw r) (NOIDX :: r_idxs r) (r_st r) (r_inp r) (r_w r).

  Lemma names_ok : forall t, In t vs -> tname_okb t = true.
  Proof.
    unfold tree_shapeb in Ts. apply andb_prop in Ts. destruct Ts as [Sh _].
    intros t Ht. apply (ef_name _ _ (shape_facts vs vs [] Sh (fun u (H : In u []) => match H with end) (fun u H => H) t Ht)).
  Qed.

  Lemma paths_nodup : NoDup (map ent_path vs).
  Proof.
    unfold tree_shapeb in Ts. apply andb_prop in Ts. destruct Ts as [_ So].
    apply sorted_nodup. pose proof (ssortedb_sound _ So) as S. apply StronglySorted_inv in S. apply S.
  Qed.

  Lemma root_not_entry : ~ In [] (map ent_path vs).
  Proof.
    intro I. apply in_map_iff in I. destruct I as (t & E & Ht).
    destruct (tname_ok_facts t (names_ok t Ht)) as (Pne & _). contradiction.
  Qed.

  Lemma pi_xattrs_paths : map (pi_xattrs pi) ([] :: map ent_path vs) = rootx :: map xkept (map te_xattr vs).
  Proof.
    cbn [map pi pi_gen pi_xattrs]. rewrite (ent_at_none vs [] root_not_entry). f_equal. rewrite !map_map.
    apply map_ext_in. intros t Ht. rewrite (ent_at_in vs t paths_nodup Ht). reflexivity.
  Qed.

  Lemma pi_contents_regs :
    map (pi_contents pi) (map ent_path regs) = map (fun t => (t2s_file_flags no_tail_pack cfg t, te_data t)) regs.
  Proof.
    rewrite map_map. apply map_ext_in. intros t Ht. apply filter_In in Ht. destruct Ht as [Ht _].
    cbn [pi pi_gen pi_contents]. rewrite (ent_at_in vs t paths_nodup Ht). reflexivity.
  Qed.

  Lemma fb_bridge d1 bs st q :
    fb_calls bs st (t2s_fcalls opts0 no_tail_pack d1 cfg vs) q = fb_of bs st (pi_contents pi) (map ent_path regs) q.
  Proof.
    rewrite (shape_fcalls no_tail_pack d1 cfg vs names_ok). fold regs. unfold fb_calls, fb_of. rewrite map_map. cbn [fst].
    destruct (index_of q (map ent_path regs)) as [k|] eqn:F; [|reflexivity].
    pose proof (index_of_nth _ _ _ F) as Hn. rewrite nth_error_map in Hn.
    destruct (nth_error regs k) as [t|] eqn:Ek; [|discriminate]. cbn [option_map] in Hn. injection Hn as <-.
    assert (Ht : In t vs) by (apply nth_error_In in Ek; apply filter_In in Ek; apply Ek).
    cbn [pi pi_gen pi_contents]. rewrite (ent_at_in vs t paths_nodup Ht). cbn [snd].
    erewrite (nth_error_nth (map _ regs)); [|rewrite nth_error_map, Ek; reflexivity]. reflexivity.
  Qed.

  Theorem t2s_is_pack_all r : rootx = [] ->
    t2s_full opts0 no_tail_pack false d hashf dcompress duncompress half mcompress limit cfg opts sched vs = PDone r ->
    pack_all hashf dcompress duncompress half mcompress limit cfg pi = PDone (with_root r).
  Proof.
    intro Erx. unfold t2s_full, pack_all.
    destruct (SuperModel.super_init (c_block_size cfg) (c_mtime cfg) (c_comp_id cfg)) as [s0|e|]; try discriminate.
    rewrite (tar2sqfs_tree_adds opts0 d vs (shape_no_root d vs names_ok)).
    change (pi_defaults pi) with d. change (pi_ops pi) with (adds_of_entries opts0 d vs). change (pi_opts pi) with opts.
    change (pi_sched pi) with sched.
    destruct (run_adds d (fs_init d) (adds_of_entries opts0 d vs)) as [fs|] eqn:Run; [|discriminate].
    unfold t2s_xattrs. rewrite Hnox.
    rewrite (shape_xcalls d vs names_ok), map_map. cbn [snd]. rewrite copy_xattrs_filter.
    destruct (xw_sets xw_empty (map xkept (map te_xattr vs))) as [[xw idxs]|e| |] eqn:XS; try discriminate.
    destruct (pack hashf dcompress duncompress (N.to_nat (c_block_size cfg)) false true half (SuperModel.encode s0 ++ opts)
                   (map snd (t2s_fcalls opts0 no_tail_pack d cfg vs)) sched) as [st| |] eqn:PK; try discriminate.
    destruct (post_process fs) as [pp| |] eqn:Post; try discriminate.
    (* the orders coincide *)
    pose proof (shape_xattr_paths d vs fs Ts Run pp Post) as XP.
    pose proof (shape_files d vs fs Ts Run pp Post) as FP. fold regs in FP.
    unfold xattr_paths. rewrite XP, pi_xattrs_paths, Erx. cbn [xw_sets].
    change (xw_set xw_empty []) with (Res.Ok (xw_empty, NOIDX)). cbn [Res.bind]. rewrite XS. cbn [Res.bind].
    unfold pack_files_list. rewrite FP, pi_contents_regs.
    assert (EF : map snd (t2s_fcalls opts0 no_tail_pack d cfg vs)
                 = map (fun t => (t2s_file_flags no_tail_pack cfg t, te_data t)) regs).
    { rewrite (shape_fcalls no_tail_pack d cfg vs names_ok), map_map. reflexivity. }
    rewrite EF in PK. rewrite PK.
    assert (EI : forall x, t2s_inp opts0 no_tail_pack d cfg opts vs pp idxs st (SuperModel.encode s0 ++ opts) x
                           = pack_inp cfg pi pp (NOIDX :: idxs) st (SuperModel.encode s0 ++ opts) x).
    { intro x. unfold t2s_inp, pack_inp. rewrite Hnox. change (pi_opts pi) with opts. f_equal.
      unfold xattr_paths. rewrite XP, FP. apply to_img_ext2.
      - intro q. apply (fb_bridge d).
      - intro q. rewrite (shape_xcalls d vs names_ok), map_map. cbn [fst].
        apply xa_root_first; [exact paths_nodup|exact root_not_entry]. }
    rewrite !EI.
    destruct (write_image mcompress limit cfg (pack_inp cfg pi pp (NOIDX :: idxs) st (SuperModel.encode s0 ++ opts) None))
      as [w0|e| |]; try discriminate.
    destruct (xflush mcompress (o_xattr w0) xw) as [x|e| |]; try discriminate.
    rewrite EI.
    destruct (write_image mcompress limit cfg (pack_inp cfg pi pp (NOIDX :: idxs) st (SuperModel.encode s0 ++ opts) x))
      as [w|e| |]; try discriminate.
    intro H. injection H as <-. reflexivity.
  Qed.

  (* ---- the same with the archive's ROOT ENTRY in front: set_root_attribs on the fresh tree = fstree_init with the root
     entry's attributes as defaults; no add creates a directory implicitly, so the adds do not read the defaults; copy_xattr
     on the root node comes first, as apply_dfs' begin / add / end for the root does: the two runs coincide exactly ---- *)
  Theorem t2s_rooted_is_pack_all d0 t0 e0 r :
    pt_op_of opts0 d0 t0 = PRootAttr e0 ->
    d = root_defaults true d0 e0 -> rootx = xkept (te_xattr t0) ->
    t2s_full opts0 no_tail_pack false d0 hashf dcompress duncompress half mcompress limit cfg opts sched (t0 :: vs) = PDone r ->
    pack_all hashf dcompress duncompress half mcompress limit cfg pi = PDone r.
  Proof.
    intros Er Ed Erx. unfold t2s_full, pack_all.
    destruct (SuperModel.super_init (c_block_size cfg) (c_mtime cfg) (c_comp_id cfg)) as [s0|e|]; try discriminate.
    rewrite (tar2sqfs_tree_root_first opts0 d0 t0 e0 vs Er (shape_no_root d0 vs names_ok) (shape_no_implicit d0 vs Ts)).
    cbn [o_keep_time opts0]. rewrite <- Ed.
    change (pi_defaults pi) with d. change (pi_ops pi) with (adds_of_entries opts0 d vs). change (pi_opts pi) with opts.
    change (pi_sched pi) with sched.
    rewrite (shape_adds d0 vs Ts), <- (shape_adds d vs Ts).
    destruct (run_adds d (fs_init d) (adds_of_entries opts0 d vs)) as [fs|] eqn:Run; [|discriminate].
    unfold t2s_xattrs. rewrite Hnox.
    assert (EX : t2s_xcalls opts0 d0 (t0 :: vs) = ([], te_xattr t0) :: map (fun t => (ent_path t, te_xattr t)) vs).
    { rewrite <- (shape_xcalls d0 vs names_ok). unfold t2s_xcalls. cbn [flat_map]. unfold t2s_node at 1. rewrite Er. reflexivity. }
    assert (EFC : t2s_fcalls opts0 no_tail_pack d0 cfg (t0 :: vs) = t2s_fcalls opts0 no_tail_pack d0 cfg vs).
    { unfold t2s_fcalls at 1. cbn [flat_map]. rewrite Er. reflexivity. }
    rewrite EX, EFC. cbn [map snd]. rewrite map_map. cbn [snd]. rewrite copy_xattrs_filter. cbn [map]. rewrite <- Erx.
    pose proof (fun pp Post => shape_xattr_paths d vs fs Ts Run pp Post) as XPf.
    pose proof (fun pp Post => shape_files d vs fs Ts Run pp Post) as FPf.
    destruct (xw_sets xw_empty (rootx :: map xkept (map te_xattr vs))) as [[xw idxs]|e| |] eqn:XS;
      try (destruct (post_process fs); discriminate).
    destruct (pack hashf dcompress duncompress (N.to_nat (c_block_size cfg)) false true half (SuperModel.encode s0 ++ opts)
                   (map snd (t2s_fcalls opts0 no_tail_pack d0 cfg vs)) sched) as [st| |] eqn:PK;
      try (destruct (post_process fs); discriminate).
    destruct (post_process fs) as [pp| |] eqn:Post; try discriminate.
    pose proof (XPf pp eq_refl) as XP. pose proof (FPf pp eq_refl) as FP. fold regs in FP.
    unfold xattr_paths. rewrite XP, pi_xattrs_paths, XS. cbn [Res.bind].
    unfold pack_files_list. rewrite FP, pi_contents_regs.
    assert (EF : map snd (t2s_fcalls opts0 no_tail_pack d0 cfg vs)
                 = map (fun t => (t2s_file_flags no_tail_pack cfg t, te_data t)) regs).
    { rewrite (shape_fcalls no_tail_pack d0 cfg vs names_ok), map_map. reflexivity. }
    rewrite EF in PK. rewrite PK.
    assert (EI : forall x, t2s_inp opts0 no_tail_pack d0 cfg opts (t0 :: vs) pp idxs st (SuperModel.encode s0 ++ opts) x
                           = pack_inp cfg pi pp idxs st (SuperModel.encode s0 ++ opts) x).
    { intro x. unfold t2s_inp, pack_inp. rewrite Hnox. change (pi_opts pi) with opts. f_equal.
      unfold xattr_paths. rewrite XP, FP, EX, EFC. apply to_img_ext2.
      - intro q. apply (fb_bridge d0).
      - intro q. cbn [map fst]. rewrite map_map. cbn [fst].
        rewrite xa_last_nodup; [reflexivity|].
        constructor; [exact root_not_entry|exact paths_nodup]. }
    rewrite !EI.
    destruct (write_image mcompress limit cfg (pack_inp cfg pi pp idxs st (SuperModel.encode s0 ++ opts) None))
      as [w0|e| |]; try discriminate.
    destruct (xflush mcompress (o_xattr w0) xw) as [x|e| |]; try discriminate.
    rewrite EI.
    destruct (write_image mcompress limit cfg (pack_inp cfg pi pp idxs st (SuperModel.encode s0 ++ opts) x))
      as [w|e| |]; try discriminate.
    intro H. exact H.
  Qed.
End Bridge.
