(* ImgTarFull — archives WITH an entry for the root directory ("./": what tar -C dir -c . writes).

   process_tarball hands such an entry to set_root_attribs: uid, gid, mode of the root node are overwritten, its
   mod_time too (keep_time), copy_xattr runs on the root node; no fstree_add_generic call.  ImgTar's theorems
   (process_tarball_is_adds, image_view_of_adds, tar_roundtrip_view) exclude these archives through [no_root_op].

   1. set_root_attribs commutes with fstree_add_generic (it touches only the root's attributes): for EVERY archive
      the tree tar2sqfs builds is the tree of the adds with the root entries' attributes applied in order
      (tar2sqfs_tree_rooted: the last root entry wins).
   2. The root node of fstree_init carries the defaults; set_root_attribs on the fresh tree = fstree_init with the
      root entry's attributes as defaults ([root_defaults]).  The defaults are used for ONE more thing: directories
      created implicitly.  If no add creates a directory implicitly ([no_implicitb]: every proper prefix of an added path
      was added earlier — true of what tar writes: a directory precedes its contents) the adds do not read the defaults
      (run_adds_defaults), so an archive with its root entry IN FRONT builds exactly the tree of the remaining entries
      under the root entry's attributes as defaults (tar2sqfs_tree_root_first) and every theorem about
      run_adds d (fs_init d) applies with d := those. *)
From Coq Require Import List NArith ZArith Bool Lia.
From SqfsV Require C04.TarNum C04.TarHdr C04.TarStream.
From SqfsV Require Import C01.GenC01 C01.InodeModel Img.TreeModel.
From SqfsV Require Import C11.StrOrder C11.FstreeModel C11.PostModel.
From SqfsV Require Import ImgPost.Bridge ImgPost.TreeInv ImgPost.BridgeProofs ImgPost.PathsModel.
From SqfsV Require Import ImgTar.Model ImgTar.AddLookup ImgTar.Semantics ImgTar.Reimage ImgTar.Compose.
From SqfsV Require Import ImgTarFull.TreeOrder.
Import ListNotations.
Local Open Scope N_scope.

(* ------------------------------------------------------------------ 1. set_root_attribs commutes with the adds *)
Definition set_attr (kt : bool) (a : tattr) (e : gent) : tattr :=
  mkAttr FDir (e_perm e) (e_uid e) (e_gid e) (if kt then trunc_u32 (e_mtime e) else a_mtime a)
         (a_links a) (a_implicit a) (a_hard a) (a_input a) (a_target a) (a_hardtgt a) (a_devno a) (a_resolved a).

Lemma set_root_attr_unfold kt fs e nm a ch : fs_root fs = TNode nm a ch ->
  set_root_attr kt fs e = mkFs (TNode nm (set_attr kt a e) ch) (fs_unres fs).
Proof. intro E. unfold set_root_attr. rewrite E. reflexivity. Qed.

Lemma add_path_set_root d kt e0 : forall comps e x nm a ch,
  ftype_eqb (a_type a) FDir = true ->
  add_path d comps e x (TNode nm (set_attr kt a e0) ch) =
  match add_path d comps e x (TNode nm a ch) with
  | Some (TNode nm' a' ch') => Some (TNode nm' (set_attr kt a' e0) ch')
  | None => None
  end.
Proof.
  intros comps e x nm a ch D. destruct comps as [|c rest]; cbn [add_path set_attr a_type]; rewrite D; cbn [ftype_eqb negb]; [reflexivity|].
  destruct rest as [|c2 rest].
  - destruct (find_child c ch) as [y|].
    + destruct (fill_dir y e); reflexivity.
    + destruct (mknode c e x); reflexivity.
  - destruct (find_child c ch) as [y|].
    + destruct (add_path d (c2 :: rest) e x y); reflexivity.
    + destruct (add_path d (c2 :: rest) e x (implicit_dir d c)); reflexivity.
Qed.

Lemma lookup_set_root kt e0 nm a ch c q : ftype_eqb (a_type a) FDir = true ->
  lookup_path (c :: q) (TNode nm (set_attr kt a e0) ch) = lookup_path (c :: q) (TNode nm a ch).
Proof. intro D. rewrite !lookup_cons. cbn [set_attr a_type]. rewrite D. reflexivity. Qed.

Lemma fs_add_set_root d kt e0 fs e x : is_dir (fs_root fs) = true -> e_path e <> [] ->
  fs_add d (set_root_attr kt fs e0) e x = option_map (fun f => set_root_attr kt f e0) (fs_add d fs e x).
Proof.
  intros D Hp. destruct fs as [[nm a ch] un]. unfold is_dir in D. cbn [fs_root node_attr] in D.
  unfold fs_add. rewrite (set_root_attr_unfold kt (mkFs (TNode nm a ch) un) e0 nm a ch eq_refl). cbn [fs_root fs_unres].
  unfold add_generic. destruct (ftype_eqb (e_type e) FLnk && match x with None => true | Some _ => false end); [reflexivity|].
  destruct (e_path e) as [|c q] eqn:Ep; [contradiction|].
  rewrite (add_path_set_root d kt e0 (c :: q) e x nm a ch D), (lookup_set_root kt e0 nm a ch c q D).
  destruct (add_path d (c :: q) e x (TNode nm a ch)) as [[nm' a' ch']|]; [|reflexivity].
  cbn [option_map]. unfold set_root_attr. cbn [fs_root fs_unres]. reflexivity.
Qed.

Lemma set_root_is_dir kt fs e : is_dir (fs_root (set_root_attr kt fs e)) = true.
Proof. destruct fs as [[nm a ch] un]. reflexivity. Qed.

Lemma run_adds_set_root d kt e0 : forall ops fs, is_dir (fs_root fs) = true ->
  forallb (fun o => negb (match op_path o with [] => true | _ => false end)) ops = true ->
  run_adds d (set_root_attr kt fs e0) ops = option_map (fun f => set_root_attr kt f e0) (run_adds d fs ops).
Proof.
  induction ops as [|[e x] r IH]; intros fs D F; [reflexivity|]. cbn [forallb] in F. apply andb_prop in F. destruct F as [F1 F2].
  cbn [run_adds]. rewrite (fs_add_set_root d kt e0 fs e x D).
  - destruct (fs_add d fs e x) as [fs1|] eqn:A; cbn [option_map]; [|reflexivity].
    apply IH; [|exact F2]. eapply fs_add_root_dir; eauto.
  - unfold op_path in F1. cbn [fst] in F1. destruct (e_path e); [discriminate|discriminate].
Qed.

(* the root entries of a run, applied in order to a tree *)
Fixpoint apply_roots (kt : bool) (ops : list pt_op) (fs : fstree) : fstree :=
  match ops with
  | [] => fs
  | PRootAttr e :: r => apply_roots kt r (set_root_attr kt fs e)
  | _ :: r => apply_roots kt r fs
  end.

Definition no_bad_root (o : pt_op) : bool := match o with PRootBad => false | _ => true end.
Definition add_below_root (o : pt_op) : bool :=
  match o with PAdd e _ => negb (match e_path e with [] => true | _ => false end) | _ => true end.

Lemma apply_roots_dir kt : forall ops fs, is_dir (fs_root fs) = true -> is_dir (fs_root (apply_roots kt ops fs)) = true.
Proof.
  induction ops as [|o r IH]; intros fs D; [exact D|]. destruct o; cbn [apply_roots]; try (apply IH; exact D).
  apply IH. apply set_root_is_dir.
Qed.

Lemma adds_below ops : forallb add_below_root ops = true ->
  forallb (fun o => negb (match op_path o with [] => true | _ => false end)) (adds_of ops) = true.
Proof.
  induction ops as [|o r IH]; intro F; [reflexivity|]. cbn [forallb] in F. apply andb_prop in F. destruct F as [F1 F2].
  unfold adds_of. cbn [flat_map]. fold (adds_of r). destruct o; cbn [app]; try (apply IH; exact F2).
  cbn [forallb]. rewrite (IH F2), andb_true_r. exact F1.
Qed.

(* for EVERY run of process_tarball: the tree is the tree of the adds with the root entries applied (the last one wins) *)
Theorem pt_exec_rooted kt d : forall ops fs, is_dir (fs_root fs) = true ->
  forallb no_bad_root ops = true -> forallb add_below_root ops = true ->
  pt_exec kt d fs ops = option_map (apply_roots kt ops) (run_adds d fs (adds_of ops)).
Proof.
  induction ops as [|o r IH]; intros fs D B A; [reflexivity|]. cbn [forallb] in B, A.
  apply andb_prop in B. destruct B as [B1 B2]. apply andb_prop in A. destruct A as [A1 A2].
  destruct o as [| |e|e x]; try discriminate; cbn [pt_exec adds_of flat_map app apply_roots].
  - apply IH; assumption.
  - rewrite (IH _ (set_root_is_dir kt fs e) B2 A2). fold (adds_of r).
    rewrite (run_adds_set_root d kt e (adds_of r) fs D (adds_below r A2)).
    destruct (run_adds d fs (adds_of r)); reflexivity.
  - fold (adds_of r). cbn [run_adds]. destruct (fs_add d fs e x) as [fs1|] eqn:E; [|reflexivity].
    apply IH; [eapply fs_add_root_dir; eauto|assumption|assumption].
Qed.


(* ------------------------------------------------------------------ 2. the adds read the defaults only for implicit directories *)
Lemma proper_prefixes_cons c c2 rest :
  proper_prefixes (c :: c2 :: rest) = [c] :: map (cons c) (proper_prefixes (c2 :: rest)).
Proof. reflexivity. Qed.

Lemma add_path_defaults d d' : forall comps e x n,
  (forall q, In q (proper_prefixes comps) -> exists_at q n) ->
  add_path d comps e x n = add_path d' comps e x n.
Proof.
  induction comps as [|c rest IH]; intros e x n P; destruct n as [nm a ch]; [reflexivity|].
  cbn [add_path]. destruct (negb (ftype_eqb (a_type a) FDir)) eqn:D; [reflexivity|].
  destruct rest as [|c2 rest]; [reflexivity|].
  assert (P1 : exists_at [c] (TNode nm a ch)) by (apply P; rewrite proper_prefixes_cons; left; reflexivity).
  destruct P1 as [y Ly]. rewrite lookup_cons, D in Ly.
  destruct (find_child c ch) as [y'|] eqn:F; [|discriminate]. cbn [lookup_path] in Ly. injection Ly as ->.
  rewrite (IH e x y); [reflexivity|].
  intros q Hq.
  assert (Pq : exists_at (c :: q) (TNode nm a ch)).
  { apply P. rewrite proper_prefixes_cons. right. apply in_map. exact Hq. }
  destruct Pq as [z Lz]. rewrite lookup_cons, D, F in Lz. exists z. exact Lz.
Qed.

Lemma fs_add_defaults d d' fs e x : e_path e <> [] ->
  (forall q, In q (proper_prefixes (e_path e)) -> exists_at q (fs_root fs)) ->
  fs_add d fs e x = fs_add d' fs e x.
Proof.
  intros Hp P. unfold fs_add, add_generic.
  destruct (ftype_eqb (e_type e) FLnk && match x with None => true | Some _ => false end); [reflexivity|].
  destruct (e_path e) as [|c q] eqn:Ep; [contradiction|].
  rewrite (add_path_defaults d d' (c :: q) e x (fs_root fs) P). reflexivity.
Qed.

(* no add creates a directory implicitly: every proper prefix of its path is the path of an EARLIER add *)
Fixpoint no_implicit_go (earlier : list path) (ops : list op) : bool :=
  match ops with
  | [] => true
  | o :: r =>
      negb (match op_path o with [] => true | _ => false end) &&
      forallb (fun q => existsb (path_eqb q) earlier) (proper_prefixes (op_path o)) &&
      no_implicit_go (op_path o :: earlier) r
  end.
Definition no_implicitb (ops : list op) : bool := no_implicit_go [] ops.

Lemma run_adds_defaults d d' : forall ops fs earlier,
  no_implicit_go earlier ops = true -> (forall q, In q earlier -> exists_at q (fs_root fs)) ->
  run_adds d fs ops = run_adds d' fs ops.
Proof.
  induction ops as [|[e x] r IH]; intros fs earlier N E; [reflexivity|]. cbn [no_implicit_go] in N.
  apply andb_prop in N. destruct N as [N N3]. apply andb_prop in N. destruct N as [N1 N2].
  unfold op_path in N1, N2, N3. cbn [fst] in N1, N2, N3.
  assert (Hp : e_path e <> []) by (destruct (e_path e); [discriminate|discriminate]).
  assert (P : forall q, In q (proper_prefixes (e_path e)) -> exists_at q (fs_root fs)).
  { intros q Hq. rewrite forallb_forall in N2. specialize (N2 q Hq). apply existsb_exists in N2.
    destruct N2 as (q' & I & Eq). apply path_eqb_eq in Eq. subst q'. apply E. exact I. }
  cbn [run_adds]. rewrite (fs_add_defaults d d' fs e x Hp P).
  destruct (fs_add d' fs e x) as [fs1|] eqn:A; [|reflexivity].
  apply (IH fs1 (e_path e :: earlier) N3).
  pose proof (fs_add_add_path d' fs e x fs1 Hp A) as AP.
  intros q [<-|I]; apply (add_path_exists d' _ _ _ _ _ AP).
  - right. apply is_prefix_path_refl.
  - left. apply E. exact I.
Qed.

(* the defaults that reproduce set_root_attribs on the fresh tree *)
Definition root_defaults (kt : bool) (d : fsdefaults) (e : gent) : fsdefaults :=
  mkDefaults (e_uid e) (e_gid e) (if kt then trunc_u32 (e_mtime e) else fd_mtime d) (e_perm e).

Lemma set_root_fresh kt d e : set_root_attr kt (fs_init d) e = fs_init (root_defaults kt d e).
Proof. reflexivity. Qed.

(* an archive whose FIRST entry is the root entry and whose adds create no directory implicitly *)
Theorem tar2sqfs_tree_root_first o d t e vs :
  pt_op_of o d t = PRootAttr e ->
  forallb no_root_op (pt_ops o d vs) = true ->
  no_implicitb (adds_of_entries o d vs) = true ->
  let d' := root_defaults (o_keep_time o) d e in
  tar2sqfs_tree o d (t :: vs) = run_adds d' (fs_init d') (adds_of_entries o d vs).
Proof.
  intros Er Nr Ni d'. unfold tar2sqfs_tree, pt_ops. cbn [map pt_exec]. rewrite Er. cbn [pt_exec].
  fold (pt_ops o d vs). rewrite (pt_exec_adds (o_keep_time o) d _ _ Nr), set_root_fresh. fold d'.
  apply (run_adds_defaults d d' _ (fs_init d') [] Ni). intros q [].
Qed.

(* an archive in sqfs2tar's shape creates no directory implicitly *)
Lemma shape_no_implicit_go : forall vs earlier,
  shape_go earlier vs = true ->
  no_implicit_go (map ent_path earlier) (map op_of vs) = true.
Proof.
  induction vs as [|t r IH]; intros earlier Sh; [reflexivity|]. cbn [shape_go] in Sh. apply andb_prop in Sh. destruct Sh as [Se Sh].
  cbn [map no_implicit_go]. rewrite op_of_path.
  unfold entry_shapeb in Se. apply andb_prop in Se. destruct Se as [Se Sp]. apply andb_prop in Se. destruct Se as [Se _].
  apply andb_prop in Se. destruct Se as [Sn _]. destruct (tname_ok_facts t Sn) as (Pne & _).
  apply andb_true_intro. split; [apply andb_true_intro; split|].
  - destruct (ent_path t); [contradiction|reflexivity].
  - apply forallb_forall. intros q Hq. rewrite forallb_forall in Sp. specialize (Sp q Hq). apply existsb_exists in Sp.
    destruct Sp as (u & Hu & Eu). apply path_eqb_eq in Eu. apply existsb_exists. exists (ent_path u).
    split; [apply in_map; exact Hu|]. apply path_eqb_eq. symmetry. exact Eu.
  - exact (IH (t :: earlier) Sh).
Qed.

Lemma shape_no_implicit d vs : tree_shapeb vs = true -> no_implicitb (adds_of_entries opts0 d vs) = true.
Proof.
  intro Ts. rewrite (shape_adds d vs Ts). unfold tree_shapeb in Ts. apply andb_prop in Ts. destruct Ts as [Sh _].
  exact (shape_no_implicit_go vs [] Sh).
Qed.

(* ------------------------------------------------------------------ 3. the tie's function on an archive with its root entry in front *)
Lemma pt_op_of_defaults o d d' t :
  (o_keep_time o = true \/ fd_mtime d = fd_mtime d') -> pt_op_of o d t = pt_op_of o d' t.
Proof.
  intro H. unfold pt_op_of. destruct (o_keep_time o) eqn:K; [reflexivity|].
  destruct H as [H|H]; [discriminate|]. rewrite H. reflexivity.
Qed.

Lemma root_defaults_mtime o d e : o_keep_time o = true \/ fd_mtime d = fd_mtime (root_defaults (o_keep_time o) d e).
Proof. destruct (o_keep_time o); [left; reflexivity|right; reflexivity]. Qed.

Theorem tar_roundtrip_root_first o d nl t e vs :
  pt_op_of o d t = PRootAttr e ->
  forallb no_root_op (pt_ops o d vs) = true ->
  no_implicitb (adds_of_entries o d vs) = true ->
  let d' := root_defaults (o_keep_time o) d e in
  tar_roundtrip_entries o d nl (t :: vs) = tar_roundtrip_entries o d' nl vs.
Proof.
  intros Er Nr Ni d'.
  assert (Eops : pt_ops o d vs = pt_ops o d' vs).
  { unfold pt_ops. apply map_ext. intro u. apply pt_op_of_defaults. apply root_defaults_mtime. }
  unfold tar_roundtrip_entries.
  rewrite (tar2sqfs_tree_root_first o d t e vs Er Nr Ni). fold d'.
  assert (Et : tar2sqfs_tree o d' vs = run_adds d' (fs_init d') (adds_of_entries o d vs)).
  { rewrite (tar2sqfs_tree_adds o d' vs) by (rewrite <- Eops; exact Nr). unfold adds_of_entries. rewrite Eops. reflexivity. }
  rewrite Et.
  assert (Es : sizes_of o d (t :: vs) = sizes_of o d' vs).
  { unfold sizes_of. cbn [flat_map]. rewrite Er. cbn [app]. apply flat_map_ext. intro u.
    rewrite (pt_op_of_defaults o d d' u (root_defaults_mtime o d e)). reflexivity. }
  rewrite Es. reflexivity.
Qed.
