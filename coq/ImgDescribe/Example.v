(* ImgDescribe — non-vacuity.  A tree with names and targets that need quoting ('a b', q'\, t<TAB>, target 'x y'), all
   inode types, a hard link (z -> d/a b), packed by the fstree model, serialized, read back; the reader-side tree meets the
   hypotheses of describe_repack_same_tree; describe's listing, parsed and packed again, reads back as the same paths with
   the same types, modes, owners, targets, device numbers — with z now a file of its own (inode 8 instead of 1), so the
   tables differ from the original's; the second-generation image is a fixed point; and for the same tree without the
   hard link the first and the second generation have identical tables. *)
From Coq Require Import List NArith ZArith Bool.
From SqfsV Require Import Gen.Constants C03.Common.
From SqfsV Require Import C01.GenC01 C01.Res C01.InodeModel Img.TreeModel.
From SqfsV Require Import C11.StrOrder C11.FstreeModel C11.PostModel.
From SqfsV Require Import ImgPost.Bridge ImgPost.InputOk ImgPost.PathsModel ImgPost.PathsProofs.
From SqfsV Require C16.DescribeModel C16.RoundTripSpec C16.WfDec C16.ParseModel.
From SqfsV Require Import ImgDescribe.RepackModel ImgDescribe.ReplayProofs ImgDescribe.RepackProofs ImgDescribe.SpecOk.
Import ListNotations.
Local Open Scope N_scope.

Definition y_d : name := [100].
Definition y_ab : name := [97; 32; 98].          (* a b *)
Definition y_q : name := [113; 34; 92].          (* q'\ *)
Definition y_t : name := [116; 9].               (* t<TAB> *)
Definition y_p : name := [112].
Definition y_s : name := [115].
Definition y_z : name := [122].
Definition y_e : name := [101].
Definition y_dflt : fsdefaults := mkDefaults 0 0 1600000000 493.
Definition y_ops : list op :=
  [ (mkEnt [y_d] FDir 448 1 2 1600000000%Z 0 false, None);
    (mkEnt [y_d; y_ab] FReg 420 1000 100 1600000000%Z 0 false, None);
    (mkEnt [y_d; y_q] FLnk 0 7 8 1600000000%Z 0 false, Some [120; 32; 121]);            (* -> 'x y' *)
    (mkEnt [y_t] FChr 384 0 0 1600000000%Z 259 false, None);
    (mkEnt [y_p] FFifo 420 0 0 1600000000%Z 0 false, None);
    (mkEnt [y_s] FSock 493 0 4294967295 1600000000%Z 0 false, None);
    (mkEnt [y_z] FLnk 0 0 0 0%Z 0 true, Some [100; 47; 97; 32; 98]);                     (* hard link to 'd/a b' *)
    (mkEnt [y_e] FReg 256 0 0 1600000000%Z 0 false, None) ].
Definition y_body := BFile 96 NOX NOX 5000 [4096; 904].
Definition y_fb (p : path) : ibody := if path_eqb p [y_d; y_ab] then y_body else BFile 0 NOX NOX 0 [].
(* after the cycle z is a file of its own with the same (deduplicated) data *)
Definition y_fb2 (p : path) : ibody :=
  if path_eqb p [y_d; y_ab] || path_eqb p [y_z] then y_body else BFile 0 NOX NOX 0 [].
Definition y_xa (p : path) : N := NOX.
Definition y_uroot : option (list N) := Some [47; 117; 110; 32; 112; 97; 99; 107].       (* /un pack *)

Definition read_of (pp : ppout) (fb : path -> ibody) : option (simg * ltree) :=
  match serialize_fstree (img_compress 3) c_id_table_limit (to_img fb y_xa pp) with
  | Ok img =>
      match read_tree (img_uncompress 3) 4096 (si_itbl img) (si_dtbl img) (si_ids img) (length (pp_inodes pp))
                      (si_root img) with
      | Some lt => if trace_fits img then Some (img, lt) else None
      | None => None
      end
  | _ => None
  end.
Definition gen1 (ops : list op) : option (ppout * simg * ltree) :=
  match pack_tree y_dflt ops with
  | Some pp => match read_of pp y_fb with Some (i, l) => Some (pp, i, l) | None => None end
  | None => None
  end.
Definition regen (fb : path -> ibody) (lt : ltree) : option (ppout * simg * ltree) :=
  match repack y_dflt y_uroot lt with
  | Some pp => match read_of pp fb with Some (i, l) => Some (pp, i, l) | None => None end
  | None => None
  end.
Definition y_dummy := LT (mkLv 0 None None 0 0 0 0 (LIpc false)) [].
Definition lt_of_gen (g : option (ppout * simg * ltree)) : ltree := match g with Some (_, _, l) => l | None => y_dummy end.
Definition y_lt : ltree := lt_of_gen (gen1 y_ops).
Definition y_lt2 : ltree := lt_of_gen (regen y_fb2 y_lt).

(* the hypotheses of describe_repack_same_tree on the tree read from the first image *)
Example ex_repack_hyps :
  lt_okb y_lt = true /\ RoundTripSpec.wf_root (describe_input [] y_lt) /\ RoundTripSpec.uroot_ok y_uroot /\
  input_okb 4096 y_dflt (calls_ops y_dflt (RoundTripSpec.root_calls y_uroot (describe_input [] y_lt))) = true /\
  match gen1 y_ops with
  | Some (pp, _, _) => representable 4096 (to_img y_fb y_xa pp) = true /\ length (pp_inodes pp) = 8%nat
  | None => False
  end.
Proof.
  split; [vm_compute; reflexivity|]. split; [apply WfDec.wf_rootb_sound; vm_compute; reflexivity|].
  split; [apply WfDec.uroot_okb_sound; vm_compute; reflexivity|]. split; vm_compute; [reflexivity|split; reflexivity].
Qed.

(* the listing describe prints for it (quoting included) *)
Example ex_repack_listing :
  DescribeModel.describe y_uroot (describe_input [] y_lt) =
  ((* dir / 0755 0 0 *)
   [100; 105; 114; 32; 47; 32; 48; 55; 53; 53; 32; 48; 32; 48; 10] ++
   (* dir d 0700 1 2 *)
   [100; 105; 114; 32; 100; 32; 48; 55; 48; 48; 32; 49; 32; 50; 10] ++
   (* file 'd/a b' 0644 1000 100 '/un pack/d/a b' *)
   [102; 105; 108; 101; 32; 34; 100; 47; 97; 32; 98; 34; 32; 48; 54; 52; 52; 32; 49; 48; 48; 48; 32; 49; 48; 48; 32;
    34; 47; 117; 110; 32; 112; 97; 99; 107; 47; 100; 47; 97; 32; 98; 34; 10] ++
   (* slink 'd/q\'\\' 0777 7 8 'x y' *)
   [115; 108; 105; 110; 107; 32; 34; 100; 47; 113; 92; 34; 92; 92; 34; 32; 48; 55; 55; 55; 32; 55; 32; 56; 32;
    34; 120; 32; 121; 34; 10] ++
   (* file e 0400 0 0 '/un pack/e' *)
   [102; 105; 108; 101; 32; 101; 32; 48; 52; 48; 48; 32; 48; 32; 48; 32; 34; 47; 117; 110; 32; 112; 97; 99; 107; 47; 101; 34; 10] ++
   (* pipe p 0644 0 0 *)
   [112; 105; 112; 101; 32; 112; 32; 48; 54; 52; 52; 32; 48; 32; 48; 10] ++
   (* sock s 0755 0 4294967295 *)
   [115; 111; 99; 107; 32; 115; 32; 48; 55; 53; 53; 32; 48; 32; 52; 50; 57; 52; 57; 54; 55; 50; 57; 53; 10] ++
   (* nod 't<TAB>' 0600 0 0 c 1 3 *)
   [110; 111; 100; 32; 34; 116; 9; 34; 32; 48; 54; 48; 48; 32; 48; 32; 48; 32; 99; 32; 49; 32; 51; 10] ++
   (* file z 0644 1000 100 '/un pack/z' *)
   [102; 105; 108; 101; 32; 122; 32; 48; 54; 52; 52; 32; 49; 48; 48; 48; 32; 49; 48; 48; 32;
    34; 47; 117; 110; 32; 112; 97; 99; 107; 47; 122; 34; 10], true).
Proof. vm_compute. reflexivity. Qed.

(* the conclusion computes: same entries; the hard link group {d/a b, z} of the original (inode 1) is split *)
Example ex_repack_same_tree :
  match gen1 y_ops, regen y_fb2 y_lt with
  | Some (pp1, img1, lt1), Some (pp2, img2, lt2) =>
      attached_okb 4096 y_fb2 y_xa pp2 = true /\
      map entry_view (flat_lt [] lt2) = map entry_view (flat_lt [] lt1) /\
      map entry_view (flat_lt [] lt1) =
        [([], 16877, Some 0, Some 0, EDir);
         ([y_d], 16832, Some 1, Some 2, EDir);
         ([y_d; y_ab], 33188, Some 1000, Some 100, EFile);
         ([y_d; y_q], 41471, Some 7, Some 8, ESlink [120; 32; 121]);
         ([y_e], 33024, Some 0, Some 0, EFile);
         ([y_p], 4516, Some 0, Some 0, EIpc false);
         ([y_s], 49645, Some 0, Some 4294967295, EIpc true);
         ([y_t], 8576, Some 0, Some 0, EDev true 259);
         ([y_z], 33188, Some 1000, Some 100, EFile)] /\
      map snd (flat_lt [] lt1) = [8; 3; 1; 2; 4; 5; 6; 7; 1] /\
      map snd (flat_lt [] lt2) = [9; 3; 1; 2; 4; 5; 6; 7; 8] /\
      pp_files pp2 = [[y_d; y_ab]; [y_e]; [y_z]] /\
      si_itbl img1 <> si_itbl img2
  | _, _ => False
  end.
Proof. vm_compute. repeat split; try reflexivity. discriminate. Qed.

(* the second generation is a fixed point: same hierarchy handed to describe, same fstree, same tables *)
Example ex_repack_fixed_point :
  describe_input [] y_lt2 = describe_input [] y_lt /\
  repack y_dflt y_uroot y_lt2 = repack y_dflt y_uroot y_lt /\
  match regen y_fb2 y_lt, regen y_fb2 y_lt2 with
  | Some (_, img2, _), Some (_, img3, _) => img3 = img2
  | _, _ => False
  end.
Proof. vm_compute. repeat split; reflexivity. Qed.

(* without the hard link (and with the time stamps the pack file format can express: all equal to the default) already
   the first and the second generation have identical tables *)
Definition y_ops_nl : list op := filter (fun o => negb (e_hard (fst o))) y_ops.
Example ex_repack_same_tables :
  match gen1 y_ops_nl with
  | Some (pp1, img1, lt1) =>
      match regen y_fb lt1 with
      | Some (pp2, img2, _) =>
          to_img y_fb y_xa pp2 = to_img y_fb y_xa pp1 /\
          si_itbl img2 = si_itbl img1 /\ si_dtbl img2 = si_dtbl img1 /\ si_ids img2 = si_ids img1 /\
          si_root img2 = si_root img1 /\ lenN (si_itbl img1) = 208 /\ lenN (si_dtbl img1) = 89
      | None => False
      end
  | None => False
  end.
Proof. vm_compute. repeat split; reflexivity. Qed.
