(* ImgDescribe — non-vacuity of describe_repack_contents.  The tree read from an image holding
     d/            directory
     d/'a b'       regular file, 5 bytes (tail end only: lands in the fragment block)
     d/q'\         symbolic link to 'x y'
     e             regular file, empty
     'm\ x'        regular file, 8195 bytes (two full blocks + a tail end)
     z             regular file, 4096 zero bytes (one sparse block)
   is unpacked below 'un pack' (relative to /w, where rdsquashfs runs), described with --unpack-root 'un pack', and packed
   by gensquashfs -D /w started in / (block size 4096).  Every hypothesis of the theorem holds, and read_all returns the
   same paths and the unpacked bytes.  ONE evaluation of the ImgE2E run. *)
From Coq Require Import List NArith ZArith Bool.
From SqfsV Require Import Gen.Constants C03.Common.
From SqfsV Require Import C01.GenC01 C01.Res C01.InodeModel Img.TreeModel.
From SqfsV Require Import C11.StrOrder C11.FstreeModel C11.PostModel.
From SqfsV Require Import ImgPost.Bridge ImgPost.InputOk ImgPost.PathsModel ImgPost.PathsProofs.
From SqfsV Require C16.DescribeModel C16.RoundTripSpec C16.WfDec C16.ParseModel.
From SqfsV Require Import C08.DedupModel C08.DedupTheorems.
From SqfsV Require Import Image.FinishModel Image.ImageProofs.
From SqfsV Require Import ImgReader.Embed ImgReader.ReadImage.
From SqfsV Require C05.RBase.
From SqfsV Require Import ImgE2E.PackAll ImgE2E.Hyps.
From SqfsV Require Import ImgDescribe.RepackModel ImgDescribe.RepackProofs ImgDescribe.Example ImgDescribe.HostModel
  ImgDescribe.ContentsProofs.
Import ListNotations.
Local Open Scope N_scope.

Definition c_m : name := [109; 92; 32; 120].      (* m\ x *)
Definition c_ops : list op :=
  [ (mkEnt [y_d] FDir 448 1 2 1600000000%Z 0 false, None);
    (mkEnt [y_d; y_ab] FReg 420 1000 100 1600000000%Z 0 false, None);
    (mkEnt [y_d; y_q] FLnk 0 7 8 1600000000%Z 0 false, Some [120; 32; 121]);
    (mkEnt [y_e] FReg 256 0 0 1600000000%Z 0 false, None);
    (mkEnt [c_m] FReg 384 0 0 1600000000%Z 0 false, None);
    (mkEnt [y_z] FReg 420 0 0 1600000000%Z 0 false, None) ].
Definition c_lt : ltree := lt_of_gen (gen1 c_ops).

Definition c_ab_data : list N := [104; 101; 108; 108; 111].
Definition c_blk (b : N) : list N := let x := repeat b 64 in concat (repeat x 64).
Definition c_m_data : list N := c_blk 65 ++ c_blk 66 ++ [1; 2; 3].
Definition c_z_data : list N := c_blk 0.
Definition c_data (p : path) : list N :=
  if path_eqb p [y_d; y_ab] then c_ab_data else if path_eqb p [c_m] then c_m_data
  else if path_eqb p [y_z] then c_z_data else [].

Definition c_uroot : option (list N) := Some [117; 110; 32; 112; 97; 99; 107].      (* un pack *)
Definition c_cwd_u : list N := [47; 119].                                              (* rdsquashfs runs in /w *)
Definition c_udir : list N := unpack_dir c_cwd_u c_uroot.                              (* /w/un pack *)
Definition c_cwd_g : list N := [47].                                                   (* gensquashfs runs in / ... *)
Definition c_optD : option (list N) := Some [47; 119].                                 (* ... with -D /w *)
Definition c_infile : list N := [47; 116; 109; 112; 47; 108].                          (* /tmp/l *)
Definition c_pcwd : list N := match gens_dir c_cwd_g c_optD c_infile with Some x => x | None => [] end.

Definition c_host : hostfs := unpack_host c_udir c_lt c_data.
Definition c_listing : list N := fst (DescribeModel.describe c_uroot (describe_input [] c_lt)).
Definition c_pi : pinput :=
  repack_input y_dflt c_listing c_host c_pcwd (fun _ => fl0) (fun _ => []) [] [0%nat; 0%nat; 0%nat; 0%nat].
Definition c_cfg : wcfg := mkCfg 4096 77 1 4096 true false.
Definition c_half : nat := 4096.
Definition c_run : pres :=
  pack_all const_hash toy_compress toy_uncompress c_half (img_compress 3) c_id_table_limit c_cfg c_pi.

(* the hypotheses about the tree, the directories, and the host map unpacking leaves *)
Example ex_contents_hyps :
  lt_okb c_lt = true /\ RoundTripSpec.wf_root (describe_input [] c_lt) /\ RoundTripSpec.uroot_ok c_uroot /\
  gens_dir c_cwd_g c_optD c_infile = Some c_pcwd /\ same_place c_uroot c_pcwd c_udir /\
  file_paths c_lt = [[y_d; y_ab]; [y_e]; [c_m]; [y_z]] /\
  map fst c_host =
    [ (* /w/un pack/d/a b *) [47; 119; 47; 117; 110; 32; 112; 97; 99; 107; 47; 100; 47; 97; 32; 98];
      (* /w/un pack/e *)     [47; 119; 47; 117; 110; 32; 112; 97; 99; 107; 47; 101];
      (* /w/un pack/m\ x *)  [47; 119; 47; 117; 110; 32; 112; 97; 99; 107; 47; 109; 92; 32; 120];
      (* /w/un pack/z *)     [47; 119; 47; 117; 110; 32; 112; 97; 99; 107; 47; 122] ] /\
  map (fun kv => N.of_nat (length (snd kv))) c_host = [5; 0; 8195; 4096].
Proof.
  split; [vm_compute; reflexivity|]. split; [apply WfDec.wf_rootb_sound; vm_compute; reflexivity|].
  split; [apply WfDec.uroot_okb_sound; vm_compute; reflexivity|].
  split; [vm_compute; reflexivity|]. split; [vm_compute; split; [discriminate|reflexivity]|].
  split; [vm_compute; reflexivity|]. split; vm_compute; reflexivity.
Qed.

(* the `file` lines of the listing carry the location 'un pack/<path>' as ONE token (quoted, backslash doubled) *)
Example ex_contents_listing :
  c_listing =
   (* dir / 0755 0 0 *)
   [100; 105; 114; 32; 47; 32; 48; 55; 53; 53; 32; 48; 32; 48; 10] ++
   (* dir d 0700 1 2 *)
   [100; 105; 114; 32; 100; 32; 48; 55; 48; 48; 32; 49; 32; 50; 10] ++
   (* file 'd/a b' 0644 1000 100 'un pack/d/a b' *)
   [102; 105; 108; 101; 32; 34; 100; 47; 97; 32; 98; 34; 32; 48; 54; 52; 52; 32; 49; 48; 48; 48; 32; 49; 48; 48; 32;
    34; 117; 110; 32; 112; 97; 99; 107; 47; 100; 47; 97; 32; 98; 34; 10] ++
   (* slink 'd/q'\' 0777 7 8 'x y' *)
   [115; 108; 105; 110; 107; 32; 34; 100; 47; 113; 92; 34; 92; 92; 34; 32; 48; 55; 55; 55; 32; 55; 32; 56; 32;
    34; 120; 32; 121; 34; 10] ++
   (* file e 0400 0 0 'un pack/e' *)
   [102; 105; 108; 101; 32; 101; 32; 48; 52; 48; 48; 32; 48; 32; 48; 32; 34; 117; 110; 32; 112; 97; 99; 107; 47; 101; 34; 10] ++
   (* file 'm\\ x' 0600 0 0 'un pack/m\\ x' *)
   [102; 105; 108; 101; 32; 34; 109; 92; 92; 32; 120; 34; 32; 48; 54; 48; 48; 32; 48; 32; 48; 32;
    34; 117; 110; 32; 112; 97; 99; 107; 47; 109; 92; 92; 32; 120; 34; 10] ++
   (* file z 0644 0 0 'un pack/z' *)
   [102; 105; 108; 101; 32; 122; 32; 48; 54; 52; 52; 32; 48; 32; 48; 32; 34; 117; 110; 32; 112; 97; 99; 107; 47; 122; 34; 10].
Proof. vm_compute. reflexivity. Qed.

(* the run: e2e_okb holds, and read_all returns the described paths with the unpacked bytes *)
Example ex_contents_run :
  match c_run with
  | PDone r =>
      e2e_okb c_half c_cfg c_pi r = true /\
      pp_files (r_pp r) = [[y_d; y_ab]; [y_e]; [c_m]; [y_z]] /\
      match read_all (uc_of (img_uncompress 3)) (img_uncompress 3) toy_uncompress (image_bytes (r_w r))
                     (e2e_depth r) (e2e_efuel r) (e2e_fuel r) with
      | RBase.Ok out =>
          map (fun e => entry_view (rtriple e)) out = map entry_view (flat_lt [] c_lt) /\
          map (fun e => (re_path e, pv_mode (re_view e), re_data e)) out =
            [ ([], 16877, None);
              ([y_d], 16832, None);
              ([y_d; y_ab], 33188, Some c_ab_data);
              ([y_d; y_q], 41471, None);
              ([y_e], 33024, Some []);
              ([c_m], 33152, Some c_m_data);
              ([y_z], 33188, Some c_z_data) ]
      | _ => False
      end
  | _ => False
  end.
Proof. vm_compute. repeat split; reflexivity. Qed.
