(* ImgDescribe — rdsquashfs --describe on a tree READ FROM AN IMAGE, piped into gensquashfs --pack-file, up to the
   serializer's input.  The composition of
     Img.TreeModel.ltree / read_tree        the tree a reader finds in the tables (the reader specification of coq/Img;
                                            tree_roundtrip / pack_paths_roundtrip say it is what was packed)
     [describe_input]                       the sqfs_tree_node_t hierarchy describe_tree walks (name, inode->base.mode,
                                            uid, gid resolved through the id table, symlink target, device number, children in
                                            directory order)
     C16.DescribeModel.describe             describe.c (with fixes F10 / F10b)
     C16.ParseModel.fstree_from_file_stream fstree_from_file.c, split_line.c, get_line.c, parse_int.c
     [do_add]                               fstree_add_generic on the fstree model of C11 (the sorted tree with link counts
                                            and the links_unresolved list) — C16's own FsModel is a flat list without these
     C11.PostModel.post_process             fstree_post_process
     ImgPost.Bridge.to_img                  what sqfs_serialize_fstree reads
   Definitions only. *)
From Coq Require Import List NArith ZArith Bool.
From SqfsV Require Import C01.GenC01 C01.Res C01.InodeModel Img.TreeModel.
From SqfsV Require Import C11.StrOrder C11.FstreeModel C11.PostModel ImgPost.Bridge ImgPost.PathsModel.
From SqfsV Require C18.CanonModel C18.CanonSpec C16.GenC16 C16.ParseModel C16.DescribeModel C16.RoundTripSpec.
Import ListNotations.
Local Open Scope N_scope.

Notation dnode := DescribeModel.tnode.
Notation DNode := DescribeModel.TNode.

(* ------------------------------------------------------------------ *)
(* reader side: ltree -> what describe_tree is handed                   *)
(* ------------------------------------------------------------------ *)

(* an owner index the id table does not resolve makes sqfs_dir_reader_get_full_hierarchy fail; such trees are outside
   [lt_ok] below, the 0 is never used *)
Definition opt0 (o : option N) : N := match o with Some v => v | None => 0 end.
Definition kind_target (k : lkind) : list N := match k with LSlink t => t | _ => [] end.
Definition kind_devno (k : lkind) : N := match k with LDev _ d => d | _ => 0 end.

Fixpoint describe_input (nm : list N) (t : ltree) : dnode :=
  match t with
  | LT v ents =>
      DNode nm (lv_mode v) (opt0 (lv_uid v)) (opt0 (lv_gid v)) (kind_target (lv_kind v)) (kind_devno (lv_kind v))
            (map (fun e => match e with (n, s) => describe_input n s end) ents)
  end.

(* ------------------------------------------------------------------ *)
(* packer side: the calls of the pack file parser on the C11 fstree     *)
(* ------------------------------------------------------------------ *)

(* switch (mode & S_IFMT) *)
Definition ftype_of_mode (m : N) : option ftype :=
  let k := N.land m c_S_IFMT in
  if k =? c_S_IFREG then Some FReg else if k =? c_S_IFDIR then Some FDir else if k =? c_S_IFLNK then Some FLnk
  else if k =? c_S_IFBLK then Some FBlk else if k =? c_S_IFCHR then Some FChr else if k =? c_S_IFIFO then Some FFifo
  else if k =? c_S_IFSOCK then Some FSock else None.

(* the '/'-separated canonical name as the component list the C11 model walks *)
Definition comps_of (name : list N) : path :=
  match name with [] => [] | _ => CanonSpec.split_slash name end.

(* the sqfs_dir_entry_t handle_line fills in: ent->mtime = fs->defaults.mtime *)
Definition gent_of_call (d : fsdefaults) (name : list N) (mode uid gid rdev flags : N) : option gent :=
  match ftype_of_mode mode with
  | Some ty =>
      Some (mkEnt (comps_of name) ty (N.land mode 4095) uid gid (Z.of_N (fd_mtime d)) rdev
                  (ParseModel.has_flag flags GenC16.c_SQFS_DIR_ENTRY_FLAG_HARD_LINK))
  | None => None
  end.

Definition op_of_call (d : fsdefaults) (c : ParseModel.call) : option op :=
  match c with
  | ParseModel.CAdd name mode uid gid rdev flags extra =>
      match gent_of_call d name mode uid gid rdev flags with
      | Some e => Some (e, extra)
      | None => None
      end
  | ParseModel.CGlob _ _ _ _ _ _ => None        (* glob lines: not in this composition (describe prints none) *)
  end.

(* the state machine behind the parser: fstree_add_generic *)
Definition do_add (d : fsdefaults) (fs : fstree) (c : ParseModel.call) : option fstree :=
  match op_of_call d c with
  | Some (e, x) => fs_add d fs e x
  | None => None
  end.

(* rdsquashfs --describe [--unpack-root uroot] IMAGE | gensquashfs --pack-file - : the fstree, the parser's verdict *)
Definition repack_fstree (d : fsdefaults) (uroot : option (list N)) (lt : ltree) : fstree * option ParseModel.perr :=
  let out := fst (DescribeModel.describe uroot (describe_input [] lt)) in
  ParseModel.fstree_from_file_stream fstree (do_add d) ParseModel.default_options (fs_init d) out.

(* ... followed by fstree_post_process *)
Definition repack (d : fsdefaults) (uroot : option (list N)) (lt : ltree) : option ppout :=
  if snd (DescribeModel.describe uroot (describe_input [] lt)) then
    match repack_fstree d uroot lt with
    | (fs, None) => match post_process fs with POk pp => Some pp | _ => None end
    | (_, Some _) => None
    end
  else None.

(* ------------------------------------------------------------------ *)
(* the tree the listing must build                                      *)
(* ------------------------------------------------------------------ *)

Definition mode_ftype (m : N) : ftype := match ftype_of_mode m with Some t => t | None => FReg end.

(* where gensquashfs finds the contents of a described file: the path, or <unpack root>/<path> *)
Definition location (uroot : option (list N)) (chain : path) : list N :=
  match uroot with
  | None => CanonSpec.join chain
  | Some u => u ++ [CanonModel.slash] ++ CanonSpec.join chain
  end.

(* the node mknode creates for an entry, after [nch] children were linked below it *)
Definition new_attr (d : fsdefaults) (ty : ftype) (mode uid gid : N) (loc target : list N) (devno : N) (nch : nat)
  : tattr :=
  mkAttr ty (if ftype_eqb ty FLnk then 511 else N.land mode 4095) uid gid (clamp_ts (Z.of_N (fd_mtime d)))
         (if ftype_eqb ty FDir then 2 + N.of_nat nch else 1) false false
         (if ftype_eqb ty FReg then Some loc else None)
         (if ftype_eqb ty FLnk then target else []) []
         (if ftype_eqb ty FBlk || ftype_eqb ty FChr then devno else 0) None.

Fixpoint build (d : fsdefaults) (uroot : option (list N)) (anc : path) (t : dnode) : tnode :=
  match t with
  | DNode name mode uid gid target devno children =>
      let chain := anc ++ [name] in
      let ty := mode_ftype mode in
      let ch := if ftype_eqb ty FDir then map (build d uroot chain) children else [] in
      TNode name (new_attr d ty mode uid gid (location uroot chain) target devno (length ch)) ch
  end.

(* the root: fstree_init's node, filled in by the `dir /` line (fill branch: mtime stored unclamped) *)
Definition build_root (d : fsdefaults) (uroot : option (list N)) (t : dnode) : tnode :=
  match t with
  | DNode _ mode uid gid _ _ children =>
      TNode [] (mkAttr FDir (N.land mode 4095) uid gid (trunc_u32 (Z.of_N (fd_mtime d)))
                       (2 + N.of_nat (length children)) false false None [] [] 0 None)
            (map (build d uroot []) children)
  end.

(* ------------------------------------------------------------------ *)
(* the domain: reader-side trees a describe / pack cycle can reproduce  *)
(* ------------------------------------------------------------------ *)

(* the kind of inode agrees with the type bits, a symbolic link has the permission bits lib/fstree gives every symlink
   (0777), only a directory has entries *)
Definition kind_okb (mode : N) (k : lkind) (nents : nat) : bool :=
  match k with
  | LDir _ => N.land mode c_S_IFMT =? c_S_IFDIR
  | LFile _ _ _ _ _ _ => (N.land mode c_S_IFMT =? c_S_IFREG) && Nat.eqb nents 0
  | LSlink _ => (mode =? c_S_IFLNK + 511) && Nat.eqb nents 0
  | LDev chr _ => (N.land mode c_S_IFMT =? (if chr then c_S_IFCHR else c_S_IFBLK)) && Nat.eqb nents 0
  | LIpc sock => (N.land mode c_S_IFMT =? (if sock then c_S_IFSOCK else c_S_IFIFO)) && Nat.eqb nents 0
  end.

Definition is_some {A} (o : option A) : bool := match o with Some _ => true | None => false end.

Fixpoint lt_okb (t : ltree) : bool :=
  match t with
  | LT v ents =>
      kind_okb (lv_mode v) (lv_kind v) (length ents) && is_some (lv_uid v) && is_some (lv_gid v) &&
      sorted_names (map fst ents) &&
      forallb (fun e => match e with (_, s) => lt_okb s end) ents
  end.

(* what the C16 property compares per path: type and permission bits, owner, symlink target / device number *)
Inductive ekind := EDir | EFile | ESlink (target : list N) | EDev (chr : bool) (devno : N) | EIpc (sock : bool).
Definition ekind_of (k : lkind) : ekind :=
  match k with
  | LDir _ => EDir
  | LFile _ _ _ _ _ _ => EFile
  | LSlink t => ESlink t
  | LDev c d => EDev c d
  | LIpc s => EIpc s
  end.
Definition entry_view (x : path * pview * N) : path * N * option N * option N * ekind :=
  let '(p, v, _) := x in (p, pv_mode v, pv_uid v, pv_gid v, ekind_of (pv_kind v)).
