(* ImgDescribe — where the file CONTENTS travel in the cycle
     rdsquashfs -u / [-p <dir>] IMG ; rdsquashfs -d [-p <uroot>] IMG > listing ; gensquashfs [-D <dir>] -F listing OUT
   Definitions only.

   The host file system between the two tools is a FINITE MAP from path strings to byte strings ([hostfs]; a model
   assumption: path strings are compared textually after the process' working directory is prefixed to a relative one —
   no symbolic links, no "." / ".." / "//" normalisation of the kernel; what the kernel adds is exercised by the tool
   level leg of props/C16/check.py which runs the real cycle on real files).

     bin/rdsquashfs/src/rdsquashfs.c   mkdir_p(unpack_root); chdir(unpack_root)           [unpack_dir]
     bin/rdsquashfs/src/fill_files.c   sqfs_tree_node_get_path + canonicalize_name, opened relative to that directory;
                                       one host file per regular file of the tree               [unpack_host]
     bin/rdsquashfs/src/describe.c     "file <path> <mode> <uid> <gid> <unpack_root>/<path>"  RepackModel.location
                                       (print_name(root, unpack_root): prefix, '/', canonical path — C16/DescribeModel.v)
     bin/gensquashfs/src/options.c     packdir = -D argument, else the pack file name up to its LAST '/' (strrchr),
                                       else none                                              [packdir_of]
     bin/gensquashfs/src/mkfs.c        pack_files: chdir(packdir) if there is one (an empty string makes chdir fail);
                                       per node of fs->files: path = node->data.file.input_file, or the canonical node
                                       path when that is NULL; sqfs_native_file_open(path)       [gens_dir], [input_path]
   [repack_input] is the input of ImgE2E.PackAll.pack_all for that gensquashfs run: the fstree_add_generic calls of
   the listing, and as contents of the file at tree path p what the host holds at the resolved location of p. *)
From Coq Require Import List NArith ZArith Bool.
From SqfsV Require Import C01.InodeModel Img.TreeModel.
From SqfsV Require Import C11.StrOrder C11.FstreeModel C11.PostModel ImgPost.Bridge ImgPost.PathsModel.
From SqfsV Require Import C08.DedupModel ImgE2E.PackAll.
From SqfsV Require C18.CanonModel C18.CanonSpec C16.ParseModel C16.RoundTripSpec.
From SqfsV Require Import ImgDescribe.RepackModel ImgDescribe.RepackProofs.
Import ListNotations.
Local Open Scope N_scope.

Notation slash := CanonModel.slash.

(* ------------------------------------------------------------------ path strings and working directories *)
Definition is_abs (p : list N) : bool := match p with c :: _ => c =? slash | [] => false end.

(* the file a process with working directory [cwd] names by [p] (open, chdir) *)
Definition at_cwd (cwd p : list N) : list N := if is_abs p then p else cwd ++ [slash] ++ p.

(* ------------------------------------------------------------------ rdsquashfs --unpack-path / [--unpack-root u] *)
Definition unpack_dir (cwd : list N) (u : option (list N)) : list N :=
  match u with Some r => at_cwd cwd r | None => cwd end.

Definition is_file_kind (k : lkind) : bool := match k with LFile _ _ _ _ _ _ => true | _ => false end.

(* the regular files of the tree the reader hands out, in directory order *)
Definition file_paths (lt : ltree) : list path :=
  map (fun x => fst (fst x)) (filter (fun x => is_file_kind (pv_kind (snd (fst x)))) (flat_lt [] lt)).

Definition hostfs := list (list N * list N).

(* what unpacking leaves below [udir]: per regular file one host file holding the bytes the data reader returned *)
Definition unpack_host (udir : list N) (lt : ltree) (data : path -> list N) : hostfs :=
  map (fun q => (at_cwd udir (CanonSpec.join q), data q)) (file_paths lt).

Fixpoint host_read (h : hostfs) (k : list N) : option (list N) :=
  match h with
  | [] => None
  | (k', b) :: r => if str_eqb k' k then Some b else host_read r k
  end.

(* ------------------------------------------------------------------ gensquashfs: where pack_files opens its inputs *)
(* strrchr(infile, '/'), strndup(infile, split - infile) *)
Fixpoint before_last_slash (s : list N) : option (list N) :=
  match s with
  | [] => None
  | c :: r =>
      match before_last_slash r with
      | Some p => Some (c :: p)
      | None => if c =? slash then Some [] else None
      end
  end.

Definition packdir_of (opt_D : option (list N)) (infile : list N) : option (list N) :=
  match opt_D with Some dir => Some dir | None => before_last_slash infile end.

(* the working directory while pack_files runs; None: chdir fails (ENOENT for the empty string) *)
Definition gens_dir (cwd : list N) (opt_D : option (list N)) (infile : list N) : option (list N) :=
  match packdir_of opt_D infile with
  | None => Some cwd
  | Some [] => None
  | Some pd => Some (at_cwd cwd pd)
  end.

(* const char *path = node->data.file.input_file; if (path == NULL) path = canonical fstree_get_path(node) *)
Definition input_path (root : tnode) (p : path) : option (list N) :=
  match lookup_path p root with
  | Some nd => Some (match a_input (node_attr nd) with Some loc => loc | None => CanonSpec.join p end)
  | None => None
  end.

(* the bytes pack_file splices into the block processor for the node at tree path p (nothing if the open fails: the
   real tool stops there; describe_repack_contents shows it does not happen) *)
Definition host_contents (h : hostfs) (pcwd : list N) (root : tnode) (flags : path -> uflags) (p : path)
  : uflags * list N :=
  (flags p,
   match input_path root p with
   | Some loc => match host_read h (at_cwd pcwd loc) with Some b => b | None => [] end
   | None => []
   end).

(* the fstree_add_generic calls fstree_from_file_stream performs on a listing (the parser of C16/ParseModel.v over the
   state machine that records its calls); None: the parser rejects the listing *)
Definition log_call (st : list ParseModel.call) (c : ParseModel.call) : option (list ParseModel.call) := Some (st ++ [c]).
Definition listing_calls (listing : list N) : option (list ParseModel.call) :=
  match ParseModel.fstree_from_file_stream (list ParseModel.call) log_call ParseModel.default_options [] listing with
  | (cs, None) => Some cs
  | (_, Some _) => None
  end.
Definition listing_ops (d : fsdefaults) (listing : list N) : list op :=
  match listing_calls listing with Some cs => calls_ops d cs | None => [] end.

(* the packing run of gensquashfs --pack-file <listing>: the adds are the parser's calls on the BYTES of the listing, the
   contents of the file at tree path p are what the host holds at the resolved location of p *)
Definition repack_input (d : fsdefaults) (listing : list N) (h : hostfs) (pcwd : list N)
           (flags : path -> uflags) (xattrs : path -> list (list N * list N)) (opts : list N) (sched : list nat)
  : pinput :=
  let ops := listing_ops d listing in
  let root := match run_adds d (fs_init d) ops with Some fs => fs_root fs | None => fs_root (fs_init d) end in
  mkPin d ops (host_contents h pcwd root flags) xattrs opts sched.

(* the two tools look at the same place: the directory gensquashfs works in, extended by the unpack root describe was
   given, is the directory the files were unpacked into (for an absolute unpack root: that root, wherever gensquashfs
   runs) *)
Definition same_place (uroot : option (list N)) (pcwd udir : list N) : Prop :=
  match uroot with
  | None => pcwd = udir
  | Some u => u <> [] /\ at_cwd pcwd u = udir
  end.
