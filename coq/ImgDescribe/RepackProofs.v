(* ImgDescribe — describe_repack_same_tree: a tree read from an image, printed by describe, parsed by the pack file
   parser, built by fstree_add_generic, post-processed and serialized again reads back as the same paths with the same
   types, permission bits, owners, symlink targets and device numbers.  Composition of
     C16.describe_parse_rt_l        describe's output makes the parser perform root_calls
     ReplayProofs.replay_root       those calls build [build_root] on the C11 fstree
     ImgPost.pack_paths_roundtrip_l the tables of that tree read back as its flattening
   and a structural comparison of that flattening with the flattening of the tree that was described. *)
From Coq Require Import List NArith ZArith Bool Lia Sorted.
From SqfsV Require C03.Common.
From SqfsV Require Import C01.GenC01 C01.Res C01.InodeModel C01.InodeProofs Img.TreeModel.
From SqfsV Require Import C11.StrOrder C11.FstreeModel C11.PostModel C11.TreeProofs C11.PostProofs.
From SqfsV Require Import ImgPost.Bridge ImgPost.InputOk ImgPost.TreeInv ImgPost.ResolveInv ImgPost.BridgeProofs
  ImgPost.PathsModel ImgPost.PathsProofs ImgPost.RoundTrip.
From SqfsV Require C18.CanonModel C18.CanonSpec.
From SqfsV Require C16.GenC16 C16.ParseModel C16.DescribeModel C16.RoundTripSpec C16.RoundTripProofs.
From SqfsV Require Import ImgDescribe.RepackModel ImgDescribe.ReplayProofs.
Import ListNotations.
Local Open Scope N_scope.

(* ------------------------------------------------------------------ induction on reader-side trees *)

Lemma ltree_ind' (P : ltree -> Prop) :
  (forall v ents, Forall (fun e => P (snd e)) ents -> P (LT v ents)) -> forall t, P t.
Proof.
  intros H. fix IH 1. intros [v ents]. apply H.
  induction ents as [|[n s] r IHr]; constructor; [apply IH|exact IHr].
Qed.

Definition dkids (ents : list (list N * ltree)) : list dnode :=
  map (fun e => match e with (n, s) => describe_input n s end) ents.

Lemma describe_input_unfold nm v ents :
  describe_input nm (LT v ents) =
  DNode nm (lv_mode v) (opt0 (lv_uid v)) (opt0 (lv_gid v)) (kind_target (lv_kind v)) (kind_devno (lv_kind v)) (dkids ents).
Proof. reflexivity. Qed.

Lemma dkids_names ents : map dname (dkids ents) = map fst ents.
Proof.
  unfold dkids. rewrite map_map. apply map_ext. intros [n [v e]]. reflexivity.
Qed.

Lemma sorted_names_strong : forall l, sorted_names l = true -> StronglySorted str_lt l.
Proof.
  induction l as [|a r IH]; intro H; [constructor|].
  destruct r as [|b r']; [repeat constructor|].
  cbn [sorted_names] in H. apply andb_true_iff in H. destruct H as [H1 H2]. apply name_ltb_lt in H1.
  specialize (IH H2). constructor; [exact IH|].
  inversion IH as [|? ? Hr Hb]; subst. constructor; [exact H1|].
  eapply Forall_impl; [|exact Hb]. intros c Hc. eapply str_lt_trans; eauto.
Qed.

Lemma lt_okb_inv v ents : lt_okb (LT v ents) = true ->
  kind_okb (lv_mode v) (lv_kind v) (length ents) = true /\ is_some (lv_uid v) = true /\ is_some (lv_gid v) = true /\
  sorted_names (map fst ents) = true /\ Forall (fun e => lt_okb (snd e) = true) ents.
Proof.
  cbn [lt_okb]. rewrite !andb_true_iff. intros [[[[A B] C] D] E]. repeat split; try assumption.
  rewrite forallb_forall in E. apply Forall_forall. intros [n s] Hin. exact (E _ Hin).
Qed.

(* a reader-side tree that C16 calls well formed and whose listings are sorted is in the domain of the replay *)
Lemma lt_rwf : forall s nm, lt_okb s = true -> RoundTripSpec.wf_node (describe_input nm s) -> rwf (describe_input nm s).
Proof.
  induction s as [v ents IH] using ltree_ind'. intros nm Hok Hwf.
  destruct (lt_okb_inv _ _ Hok) as (_ & _ & _ & Hs & Hch).
  rewrite describe_input_unfold in *. inversion Hwf as [? ? ? ? ? ? ? Hn Hm _ _ _ _ Hc]; subst.
  constructor; [exact Hn|exact Hm| |].
  - rewrite dkids_names. apply sorted_names_strong. exact Hs.
  - unfold dkids in *. rewrite Forall_forall in *. intros c Hin. apply in_map_iff in Hin.
    destruct Hin as ([n s] & <- & Hin). apply (IH _ Hin n); [exact (Hch _ Hin)|].
    apply Hc. apply in_map_iff. exists (n, s). split; [reflexivity|exact Hin].
Qed.

(* ------------------------------------------------------------------ the built tree *)

Inductive nohl : tnode -> Prop :=
| nohl_node nm a ch : a_hard a = false -> Forall nohl ch -> nohl (TNode nm a ch).

Lemma nohl_not_hardlink n : nohl n -> is_hardlink n = false.
Proof. intros [nm a ch H _]. unfold is_hardlink. cbn. rewrite H. apply andb_false_r. Qed.

Lemma build_name d uroot anc t : node_name (build d uroot anc t) = dname t.
Proof. destruct t; reflexivity. Qed.

Lemma build_nohl d uroot : forall t anc, nohl (build d uroot anc t).
Proof.
  induction t as [nm mode uid gid tg dev cs IH] using dnode_ind'. intro anc. cbn [build]. constructor; [reflexivity|].
  destruct (ftype_eqb (mode_ftype mode) FDir); [|constructor].
  rewrite Forall_forall in *. intros c Hc. apply in_map_iff in Hc. destruct Hc as (c0 & <- & Hc0). apply IH. exact Hc0.
Qed.

Lemma build_snames d uroot : forall t anc, rwf t -> snames (build d uroot anc t).
Proof.
  induction t as [nm mode uid gid tg dev cs IH] using dnode_ind'. intros anc W.
  inversion W as [? ? ? ? ? ? ? _ _ Hs Hc]; subst. cbn [build].
  destruct (ftype_eqb (mode_ftype mode) FDir); [|constructor; constructor].
  constructor.
  - unfold names_sorted. rewrite map_map. erewrite map_ext; [exact Hs|]. intro c. apply build_name.
  - rewrite Forall_forall in *. intros c Hin. apply in_map_iff in Hin. destruct Hin as (c0 & <- & Hc0).
    apply IH; [exact Hc0|apply Hc; exact Hc0].
Qed.

(* ------------------------------------------------------------------ flattening a tree without hard links *)

Section Flat.
  Variable fb : path -> ibody.
  Variable xa : path -> N.

  Fixpoint flat_nl (p : path) (n : tnode) : list (path * pview * path) :=
    match n with
    | TNode _ a ch =>
        (p, pview_of_node fb xa p n, p) ::
        (if ftype_eqb (a_type a) FDir then concat (map (fun c => flat_nl (p ++ [node_name c]) c) ch) else [])
    end.

  Lemma flat_nl_paths : forall n p, map (fun x => fst (fst x)) (flat_nl p n) = all_paths p n.
  Proof.
    induction n as [nm a ch IH] using tnode_ind'. intro p. cbn [flat_nl all_paths map fst]. f_equal.
    unfold is_dir. cbn [node_attr]. destruct (ftype_eqb (a_type a) FDir); [|reflexivity].
    rewrite concat_map, map_map. f_equal. apply map_ext_in. intros c Hc. rewrite Forall_forall in IH. apply IH. exact Hc.
  Qed.

  Variable root : tnode.
  Hypothesis Hsn : snames root.

  Lemma flat_nl_denotes : forall n p, nohl n -> lookup_path p root = Some n ->
    Forall (fun x => let '(q, v, id) := x in
                     resolves root q id /\ exists nd, lookup_path id root = Some nd /\ v = pview_of_node fb xa id nd)
           (flat_nl p n).
  Proof.
    induction n as [nm a ch IH] using tnode_ind'. intros p Hn L. cbn [flat_nl]. constructor.
    - split; [eapply rs_here; [exact L|apply nohl_not_hardlink; exact Hn]|]. exists (TNode nm a ch). auto.
    - destruct (ftype_eqb (a_type a) FDir) eqn:Ty; [|constructor].
      inversion Hn as [? ? ? _ Hch]; subst.
      pose proof (snames_lookup p root _ Hsn L) as Sn. destruct (snames_inv _ _ _ Sn) as [Sn1 _].
      pose proof (sorted_names_nodup _ Sn1) as ND.
      apply Forall_forall. intros x Hx. apply in_concat in Hx. destruct Hx as (l & Hl & Hx).
      apply in_map_iff in Hl. destruct Hl as (c & <- & Hc).
      rewrite Forall_forall in IH, Hch.
      assert (Lc : lookup_path (p ++ [node_name c]) root = Some c).
      { apply (lookup_app1 p root _ c L); [unfold is_dir; cbn; exact Ty|]. apply find_child_of_in; assumption. }
      pose proof (IH c Hc (p ++ [node_name c]) (Hch c Hc) Lc) as F. rewrite Forall_forall in F. exact (F x Hx).
  Qed.
End Flat.

Lemma denotes_nl fb xa root fl : snames root -> nohl root -> denotes fb xa root fl -> fl = flat_nl fb xa [] root.
Proof.
  intros S H D. apply (denotes_unique fb xa root); [exact D|]. split.
  - apply flat_nl_paths.
  - apply flat_nl_denotes; [exact S|exact H|reflexivity].
Qed.

(* ------------------------------------------------------------------ post processing a tree without links *)

Lemma post_nolinks R : exists arr,
  post_process (mkFs R []) = POk (mkOut (decorate (mkRs [] []) [] R) arr (file_list [] (decorate (mkRs [] []) [] R))).
Proof.
  destruct (post_process (mkFs R [])) as [pp| |] eqn:E.
  - unfold post_process in E. cbn [fs_root fs_unres resolve_all] in E.
    destruct (reorder_loop _ _ _ _) as [arr|]; [|discriminate]. injection E as <-. exists arr. reflexivity.
  - unfold post_process in E. cbn [fs_root fs_unres resolve_all] in E.
    destruct (reorder_loop _ _ _ _); discriminate.
  - apply post_process_fuel in E. discriminate E.
Qed.

(* ------------------------------------------------------------------ the parser's calls as a packing run *)

Definition calls_ops (d : fsdefaults) (cs : list ParseModel.call) : list op :=
  flat_map (fun c => match op_of_call d c with Some o => [o] | None => [] end) cs.

Lemma run_calls_adds d : forall cs fs fs',
  ParseModel.run_calls fstree (do_add d) fs cs = (fs', None) -> run_adds d fs (calls_ops d cs) = Some fs'.
Proof.
  induction cs as [|c r IH]; intros fs fs' H; cbn [ParseModel.run_calls] in H.
  - injection H as <-. reflexivity.
  - destruct (do_add d fs c) as [fs1|] eqn:A; [|discriminate]. unfold do_add in A.
    cbn [calls_ops flat_map]. destruct (op_of_call d c) as [[e x]|]; [|discriminate].
    cbn [app run_adds]. rewrite A. apply IH. exact H.
Qed.

(* ------------------------------------------------------------------ what is compared *)

Definition ev3 (x : path * pview * path) : path * N * option N * option N * ekind :=
  let '(p, v, _) := x in (p, pv_mode v, pv_uid v, pv_gid v, ekind_of (pv_kind v)).

Lemma entry_view_number arr x : entry_view (number arr x) = ev3 x.
Proof. destruct x as [[p v] id]. reflexivity. Qed.

Lemma file_kind bs b : file_body_okb bs b = true -> ekind_of (lkind_of_body b) = EFile.
Proof. destruct b; try discriminate; reflexivity. Qed.

Lemma is_some_opt0 (o : option N) : is_some o = true -> Some (opt0 o) = o.
Proof. destruct o; [reflexivity|discriminate]. Qed.

(* the type a mode word of a given kind has *)
Lemma kind_type mode k n ty :
  kind_okb mode k n = true -> ftype_of_mode mode = Some ty ->
  match k with
  | LDir _ => ty = FDir
  | LFile _ _ _ _ _ _ => ty = FReg /\ n = O
  | LSlink _ => ty = FLnk /\ mode = c_S_IFLNK + 511 /\ n = O
  | LDev chr _ => ty = (if chr then FChr else FBlk) /\ n = O
  | LIpc sock => ty = (if sock then FSock else FFifo) /\ n = O
  end.
Proof.
  unfold kind_okb, ftype_of_mode. intros K T.
  destruct k as [par|a1 a2 a3 a4 a5 a6|tg|chr dv|sock].
  - apply N.eqb_eq in K. rewrite K in T. cbn in T. congruence.
  - apply andb_true_iff in K. destruct K as [K1 K2]. apply N.eqb_eq in K1. apply Nat.eqb_eq in K2.
    rewrite K1 in T. cbn in T. split; congruence.
  - apply andb_true_iff in K. destruct K as [K1 K2]. apply N.eqb_eq in K1. apply Nat.eqb_eq in K2.
    rewrite K1 in T. cbn in T. repeat split; congruence.
  - apply andb_true_iff in K. destruct K as [K1 K2]. apply N.eqb_eq in K1. apply Nat.eqb_eq in K2.
    rewrite K1 in T. destruct chr; cbn in T; split; congruence.
  - apply andb_true_iff in K. destruct K as [K1 K2]. apply N.eqb_eq in K1. apply Nat.eqb_eq in K2.
    rewrite K1 in T. destruct sock; cbn in T; split; congruence.
Qed.

Section Compare.
  Variable bs : N.
  Variable d : fsdefaults.
  Variable uroot : option (list N).
  Variable fb : path -> ibody.
  Variable xa : path -> N.
  Variable root : tnode.
  Hypothesis Hfiles : forall q nd, lookup_path q root = Some nd -> a_type (node_attr nd) = FReg ->
                                   file_body_okb bs (fb q) = true.
  Hypothesis Hsn : snames root.

  (* the flattening of the built subtree is, field by field, the flattening of the subtree that was described *)
  Lemma compare_subtree : forall s nm anc,
    lt_okb s = true -> RoundTripSpec.wf_node (describe_input nm s) ->
    lookup_path (anc ++ [nm]) root = Some (build d uroot anc (describe_input nm s)) ->
    map ev3 (flat_nl fb xa (anc ++ [nm]) (build d uroot anc (describe_input nm s))) =
    map entry_view (flat_lt (anc ++ [nm]) s).
  Proof.
    induction s as [v ents IH] using ltree_ind'. intros nm anc Hok Hwf L.
    destruct (lt_okb_inv _ _ Hok) as (Hk & Hu & Hg & Hs & Hch).
    pose proof (lt_rwf _ nm Hok Hwf) as W.
    rewrite describe_input_unfold in *.
    inversion Hwf as [? ? ? ? ? ? ? Hn Hm _ _ _ _ Hc]; subst.
    destruct (mode_cases (lv_mode v) Hm) as (ty & p0 & Hp0 & Em & Ety & Eperm & _).
    assert (Ty : mode_ftype (lv_mode v) = ty) by (unfold mode_ftype; rewrite Ety; reflexivity).
    pose proof (kind_type _ _ _ ty Hk Ety) as KT.
    cbn [build] in *. rewrite Ty in *. cbn [flat_nl flat_lt map]. f_equal.
    - (* the node itself *)
      unfold ev3, entry_view, pview_of_node, pview_of_lview, new_attr.
      cbn [node_attr a_type a_perm a_uid a_gid a_mtime a_target a_devno pv_mode pv_uid pv_gid pv_kind].
      rewrite (is_some_opt0 _ Hu), (is_some_opt0 _ Hg), Eperm.
      destruct (lv_kind v) as [par|a1 a2 a3 a4 a5 a6|tg|chr dv|sock] eqn:Ek.
      + rewrite KT in *. cbn [ftype_eqb strip_kind ekind_of]. rewrite Em. reflexivity.
      + destruct KT as [-> _]. cbn [ftype_eqb strip_kind].
        rewrite (file_kind bs (fb (anc ++ [nm]))); [rewrite Em; reflexivity|].
        apply (Hfiles _ _ L). reflexivity.
      + destruct KT as (-> & Em' & _). cbn [ftype_eqb strip_kind ekind_of kind_target]. rewrite Em'. reflexivity.
      + destruct KT as [-> _]. destruct chr; cbn [ftype_eqb orb strip_kind ekind_of kind_devno]; rewrite Em; reflexivity.
      + destruct KT as [-> _]. destruct sock; cbn [ftype_eqb strip_kind ekind_of]; rewrite Em; reflexivity.
    - (* the entries *)
      cbn [a_type new_attr].
      destruct (ftype_eqb ty FDir) eqn:Edir.
      2:{ assert (E0 : length ents = O).
          { destruct (lv_kind v); [rewrite KT in Edir; discriminate| | | |]; tauto. }
          destruct ents; [reflexivity|discriminate]. }
      rewrite !concat_map, !map_map. f_equal. unfold dkids. rewrite map_map.
      apply map_ext_in. intros [n s] Hin.
      assert (Dn : dname (describe_input n s) = n) by (destruct s; reflexivity).
      rewrite build_name, Dn.
      set (c := build d uroot (anc ++ [nm]) (describe_input n s)).
      assert (Nc : node_name c = n) by (unfold c; rewrite build_name; exact Dn).
      rewrite Forall_forall in IH, Hch.
      apply (IH _ Hin n (anc ++ [nm])).
      + exact (Hch _ Hin).
      + rewrite Forall_forall in Hc. apply Hc. unfold dkids. apply in_map_iff. exists (n, s). split; [reflexivity|exact Hin].
      + assert (Lc : lookup_path ((anc ++ [nm]) ++ [node_name c]) root = Some c).
        { apply (lookup_app1 (anc ++ [nm]) root _ c L).
          - unfold is_dir. cbn. exact Edir.
          - cbn [node_children]. apply find_child_of_in.
            + pose proof (snames_lookup _ root _ Hsn L) as Sn. destruct (snames_inv _ _ _ Sn) as [Sn1 _].
              apply sorted_names_nodup. exact Sn1.
            + unfold dkids. rewrite map_map. apply in_map_iff. exists (n, s). split; [reflexivity|exact Hin]. }
        rewrite Nc in Lc. exact Lc.
  Qed.
End Compare.

(* ------------------------------------------------------------------ the root *)

Lemma build_root_nohl d uroot t : nohl (build_root d uroot t).
Proof.
  destruct t as [nm mode uid gid tg dev cs]. cbn [build_root]. constructor; [reflexivity|].
  apply Forall_forall. intros c Hc. apply in_map_iff in Hc. destruct Hc as (c0 & <- & _). apply build_nohl.
Qed.

Lemma build_root_snames d uroot t :
  StronglySorted str_lt (map dname (dchildren t)) -> Forall rwf (dchildren t) -> snames (build_root d uroot t).
Proof.
  destruct t as [nm mode uid gid tg dev cs]. cbn [dchildren build_root]. intros Hs Hc. constructor.
  - unfold names_sorted. rewrite map_map. erewrite map_ext; [exact Hs|]. intro c. apply build_name.
  - rewrite Forall_forall in *. intros c Hin. apply in_map_iff in Hin. destruct Hin as (c0 & <- & Hc0).
    apply build_snames. apply Hc. exact Hc0.
Qed.

(* what the hypotheses on the reader-side tree give for the described tree *)
Lemma root_facts v ents :
  lt_okb (LT v ents) = true -> RoundTripSpec.wf_root (describe_input [] (LT v ents)) ->
  StronglySorted str_lt (map dname (dkids ents)) /\ Forall rwf (dkids ents) /\
  Forall RoundTripSpec.wf_node (dkids ents) /\
  (exists p, p < 4096 /\ lv_mode v = c_S_IFDIR + p /\ N.land (lv_mode v) 4095 = p) /\
  (exists par, lv_kind v = LDir par).
Proof.
  intros Hok Hwf. destruct (lt_okb_inv _ _ Hok) as (Hk & _ & _ & Hs & Hch).
  rewrite describe_input_unfold in Hwf. destruct Hwf as (_ & (p & Hp & Hm) & _ & _ & Hc).
  split; [rewrite dkids_names; apply sorted_names_strong; exact Hs|].
  split.
  { unfold dkids in *. rewrite Forall_forall in *. intros c Hin. apply in_map_iff in Hin.
    destruct Hin as ([n s] & <- & Hin). apply lt_rwf; [exact (Hch _ Hin)|].
    apply Hc. apply in_map_iff. exists (n, s). split; [reflexivity|exact Hin]. }
  split; [exact Hc|].
  assert (Hmode : RoundTripSpec.mode_ok (lv_mode v)).
  { exists GenC16.c_S_IFDIR, p. split; [left; reflexivity|]. split; assumption. }
  destruct (mode_cases _ Hmode) as (ty & p' & Hp' & Em & Ety & Eperm & Kd & _).
  assert (Kd' : RoundTripSpec.is_k (lv_mode v) GenC16.c_S_IFDIR = true).
  { unfold RoundTripSpec.is_k. rewrite Hm.
    destruct (NumProofs.mode_facts GenC16.c_S_IFDIR p (or_introl eq_refl) Hp) as (F & _). rewrite F. reflexivity. }
  rewrite Kd' in Kd. symmetry in Kd. destruct ty; try discriminate.
  split.
  - exists p'. repeat split; assumption.
  - pose proof (kind_type _ _ _ FDir Hk Ety) as KT.
    destruct (lv_kind v) as [par| | | |]; [exists par; reflexivity| | | |];
      exfalso; try (destruct KT as [KT _]; destruct chr; discriminate); try (destruct KT as [KT _]; destruct sock; discriminate);
      destruct KT as [KT _]; discriminate.
Qed.

(* ------------------------------------------------------------------ the theorem *)

Section Main.
  Variable compress : list N -> Common.cres.
  Variable uncompress : list N -> option (list N).
  Hypothesis compress_ok :
    forall b c, compress b = Common.CData c -> Common.lenN c <= Common.lenN b /\ uncompress c = Some b.
  Variable limit : N.
  Hypothesis limit_ok : limit <= 65536.

  Theorem describe_repack_same_tree_l : forall bs d uroot lt,
    lt_okb lt = true ->
    RoundTripSpec.wf_root (describe_input [] lt) -> RoundTripSpec.uroot_ok uroot ->
    input_okb bs d (calls_ops d (RoundTripSpec.root_calls uroot (describe_input [] lt))) = true ->
    exists out pp2,
      DescribeModel.describe uroot (describe_input [] lt) = (out, true) /\
      ParseModel.fstree_from_file_stream fstree (do_add d) ParseModel.default_options (fs_init d) out =
        (mkFs (build_root d uroot (describe_input [] lt)) [], None) /\
      repack d uroot lt = Some pp2 /\
      forall fb2 xa2 img2,
        attached_okb bs fb2 xa2 pp2 = true ->
        serialize_fstree compress limit (to_img fb2 xa2 pp2) = Ok img2 ->
        trace_fits img2 = true ->
        exists lt2,
          read_tree uncompress bs (si_itbl img2) (si_dtbl img2) (si_ids img2) (length (pp_inodes pp2)) (si_root img2)
            = Some lt2 /\
          map entry_view (flat_lt [] lt2) = map entry_view (flat_lt [] lt).
  Proof.
    intros bs d uroot [v ents] Hok Hwf Hu Hin.
    destruct (root_facts v ents Hok Hwf) as (Hs & Hrw & Hwn & (p & Hp & Hm & Hl) & (par & Hkind)).
    set (t16 := describe_input [] (LT v ents)) in *.
    destruct (RoundTripProofs.describe_parse_rt_l fstree (do_add d) uroot t16 Hwf Hu) as (out & E1 & E2).
    pose proof (replay_root d uroot t16 Hwf Hs Hrw) as Rp.
    set (R := build_root d uroot t16) in *.
    destruct (post_nolinks R) as (arr & Epost).
    set (pp2 := mkOut (decorate (mkRs [] []) [] R) arr (file_list [] (decorate (mkRs [] []) [] R))) in *.
    assert (E3 : ParseModel.fstree_from_file_stream fstree (do_add d) ParseModel.default_options (fs_init d) out =
                 (mkFs R [], None)) by (rewrite E2; exact Rp).
    exists out, pp2. split; [exact E1|]. split; [exact E3|]. split.
    { unfold repack, repack_fstree. fold t16. rewrite E1. cbn [fst snd]. rewrite E3, Epost. reflexivity. }
    intros fb2 xa2 img2 Hatt Hser Hfit.
    pose proof (run_calls_adds d _ _ _ Rp) as Hrun.
    destruct (pack_paths_roundtrip_l compress uncompress compress_ok limit limit_ok bs d _ (mkFs R []) pp2 fb2 xa2 img2
                Hin Hrun Epost Hatt Hser Hfit) as (lt2 & fl2 & Rd & Dn & Fl & _).
    exists lt2. split; [exact Rd|].
    assert (SR : snames R) by (apply build_root_snames; assumption).
    cbn [fs_root] in Dn.
    rewrite (denotes_nl fb2 xa2 R fl2 SR (build_root_nohl d uroot t16) Dn) in Fl.
    rewrite Fl, map_map. erewrite map_ext; [|intro x; apply entry_view_number].
    (* files carry file inodes *)
    assert (Hfiles : forall q nd, lookup_path q R = Some nd -> a_type (node_attr nd) = FReg ->
                                  file_body_okb bs (fb2 q) = true).
    { intros q nd L T. unfold attached_okb in Hatt. apply andb_true_iff in Hatt. destruct Hatt as [Af _].
      rewrite forallb_forall in Af. apply Af. cbn [pp_files pp2].
      apply (file_list_complete q (decorate (mkRs [] []) [] R) [] (decorate (mkRs [] []) q nd)).
      - rewrite lookup_decorate, L. reflexivity.
      - rewrite decorate_type. exact T. }
    unfold R, t16. rewrite describe_input_unfold. cbn [build_root flat_nl flat_lt map a_type ftype_eqb]. f_equal.
    - unfold ev3, entry_view, pview_of_node, pview_of_lview.
      cbn [node_attr a_type a_perm a_uid a_gid pv_mode pv_uid pv_gid pv_kind type_bits].
      destruct (lt_okb_inv _ _ Hok) as (_ & Hu1 & Hg1 & _ & _).
      rewrite (is_some_opt0 _ Hu1), (is_some_opt0 _ Hg1), Hl, Hkind. cbn [strip_kind ekind_of]. rewrite Hm. reflexivity.
    - rewrite !concat_map, !map_map. f_equal. unfold dkids. rewrite map_map.
      apply map_ext_in. intros [n s] Hin'.
      assert (Dn' : dname (describe_input n s) = n) by (destruct s; reflexivity).
      rewrite build_name, Dn'.
      destruct (lt_okb_inv _ _ Hok) as (_ & _ & _ & _ & Hch). rewrite Forall_forall in Hch, Hwn.
      assert (Hin2 : In (describe_input n s) (dkids ents)).
      { unfold dkids. apply in_map_iff. exists (n, s). split; [reflexivity|exact Hin']. }
      apply (compare_subtree bs d uroot fb2 xa2 R Hfiles SR s n [] (Hch _ Hin') (Hwn _ Hin2)).
      set (c := build d uroot [] (describe_input n s)).
      assert (Nc : node_name c = n) by (unfold c; rewrite build_name; exact Dn').
      assert (Lc : lookup_path ([] ++ [node_name c]) R = Some c).
      { apply (lookup_app1 [] R R c eq_refl); [reflexivity|].
        unfold R, t16. rewrite describe_input_unfold. cbn [build_root node_children]. apply find_child_of_in.
        - destruct (snames_inv _ _ _ SR) as [Sn1 _]. apply sorted_names_nodup.
          unfold R, t16 in SR. rewrite describe_input_unfold in SR. cbn [build_root] in SR.
          destruct (snames_inv _ _ _ SR) as [Sn2 _]. exact Sn2.
        - apply in_map. exact Hin2. }
      rewrite Nc in Lc. exact Lc.
  Qed.
End Main.
