(* ImgDescribe — the reader-side tree of a representable serializer input is in the domain of the describe / pack cycle
   ([lt_okb]) as soon as its symbolic links carry the permission bits lib/fstree gives every symlink (0777): kinds agree
   with the type bits, owners resolve, listings are sorted, only directories have entries. *)
From Coq Require Import List NArith ZArith Bool Lia.
From SqfsV Require C03.Common.
From SqfsV Require Import C01.GenC01 C01.Res C01.InodeModel C01.InodeProofs Img.TreeModel Img.Domain Img.TreeRT.
From SqfsV Require C16.GenC16 C16.RoundTripSpec C16.NumProofs C16.DescribeModel.
From SqfsV Require Import ImgDescribe.RepackModel.
Import ListNotations.
Local Open Scope N_scope.

Definition slinks_0777 (t : fstree) : Prop :=
  forall j n tg, nth_error t j = Some n -> fn_payload n = PSlink tg -> fn_mode n = c_S_IFLNK + 511.

Lemma fmt_of_mode p m : payload_fmt p <= m < payload_fmt p + 4096 -> N.land m c_S_IFMT = payload_fmt p.
Proof.
  intro H. set (f := payload_fmt p) in *.
  assert (Hk : In f RoundTripSpec.kind_bits_list).
  { unfold f, RoundTripSpec.kind_bits_list. destruct p as [| | |c|s]; cbn [payload_fmt]; try destruct c; try destruct s;
      cbn; tauto. }
  replace m with (f + (m - f)) by lia.
  destruct (NumProofs.mode_facts f (m - f) Hk) as (F & _); [lia|]. exact F.
Qed.

Lemma spec_ents_inv (st : N -> option ltree) : forall ch ents,
  spec_ents st ch = Some ents ->
  map fst ents = map fst ch /\ Forall (fun e => exists c, st c = Some (snd e)) ents.
Proof.
  induction ch as [|[nm c] r IH]; intros ents H; cbn [spec_ents] in H.
  - injection H as <-. split; [reflexivity|constructor].
  - destruct (st c) as [s|] eqn:E; [|discriminate].
    destruct (spec_ents st r) as [rest|] eqn:Er; [|discriminate]. injection H as <-.
    destruct (IH rest eq_refl) as [A B]. split; [cbn; f_equal; exact A|].
    constructor; [exists c; exact E|exact B].
Qed.

Lemma spec_tree_ok bs t : representable bs t = true -> slinks_0777 t ->
  forall fuel ino lt, spec_tree t fuel ino = Some lt -> lt_okb lt = true.
Proof.
  intros Hrep Hsl. destruct (repr_facts bs t Hrep) as (_ & _ & _ & _ & Hn).
  induction fuel as [|f IH]; intros ino lt H; [discriminate|]. cbn [spec_tree] in H.
  destruct (get t ino) as [n|] eqn:G; [|discriminate].
  apply get_nth in G. destruct G as [Hi G].
  pose proof (fnode_okb_facts bs t _ n (Hn _ n G)) as FF.
  pose proof (fmt_of_mode _ _ (ff_mode _ _ _ FF)) as FM.
  pose proof (ff_payload _ _ _ FF) as FP.
  destruct (fn_payload n) as [par ch|b|tg|c dv|s] eqn:P.
  - destruct (spec_ents (spec_tree t f) ch) as [ents|] eqn:E; [|discriminate]. injection H as <-.
    destruct (spec_ents_inv _ _ _ E) as [A B].
    cbn [lt_okb lview_of_fnode lv_mode lv_kind lv_uid lv_gid lkind_of_payload kind_okb is_some]. rewrite P. cbn [lkind_of_payload kind_okb].
    rewrite FM. cbn [payload_fmt]. rewrite N.eqb_refl. cbn [andb]. rewrite A.
    cbn [payload_okb] in FP. rewrite !andb_true_iff in FP. destruct FP as [_ FS]. rewrite FS. cbn [andb].
    apply forallb_forall. intros [nm s] Hin. rewrite Forall_forall in B. destruct (B _ Hin) as (c & Ec). cbn [snd] in Ec.
    exact (IH c s Ec).
  - injection H as <-. cbn [lt_okb lview_of_fnode lv_mode lv_kind lv_uid lv_gid is_some forallb map sorted_names length andb].
    rewrite P. cbn [lkind_of_payload payload_okb] in *. rewrite !andb_true_r.
    destruct b; try discriminate; cbn [lkind_of_body kind_okb]; rewrite FM; reflexivity.
  - injection H as <-. cbn [lt_okb lview_of_fnode lv_mode lv_kind lv_uid lv_gid is_some forallb map sorted_names length andb].
    rewrite P. cbn [lkind_of_payload kind_okb]. rewrite !andb_true_r.
    rewrite (Hsl _ n tg G P). apply N.eqb_refl.
  - injection H as <-. cbn [lt_okb lview_of_fnode lv_mode lv_kind lv_uid lv_gid is_some forallb map sorted_names length andb].
    rewrite P. cbn [lkind_of_payload kind_okb]. rewrite !andb_true_r, FM. cbn [payload_fmt]. apply N.eqb_refl.
  - injection H as <-. cbn [lt_okb lview_of_fnode lv_mode lv_kind lv_uid lv_gid is_some forallb map sorted_names length andb].
    rewrite P. cbn [lkind_of_payload kind_okb]. rewrite !andb_true_r, FM. cbn [payload_fmt]. apply N.eqb_refl.
Qed.

(* tree_roundtrip with the domain fact attached *)
Section Read.
  Variable compress : list N -> Common.cres.
  Variable uncompress : list N -> option (list N).
  Hypothesis compress_ok :
    forall b c, compress b = Common.CData c -> Common.lenN c <= Common.lenN b /\ uncompress c = Some b.
  Variable limit : N.
  Hypothesis limit_ok : limit <= 65536.

  Lemma read_back_ok bs t img :
    representable bs t = true -> slinks_0777 t ->
    serialize_fstree compress limit t = Ok img -> trace_fits img = true ->
    exists lt, read_tree uncompress bs (si_itbl img) (si_dtbl img) (si_ids img) (length t) (si_root img) = Some lt /\
               lt_okb lt = true.
  Proof.
    intros Hrep Hsl Hser Hfit.
    destruct (tree_roundtrip_l compress uncompress compress_ok limit limit_ok bs t img Hrep Hser Hfit) as (lt & Sp & Rd).
    exists lt. split; [exact Rd|]. exact (spec_tree_ok bs t Hrep Hsl _ _ _ Sp).
  Qed.
End Read.
