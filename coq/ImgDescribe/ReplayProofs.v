(* ImgDescribe — replaying the calls of a described tree on the fstree model of C11: the calls [root_calls uroot t]
   (which C16.describe_parse_rt proves the parser performs on describe's output), run on fstree_init's tree through
   fstree_add_generic, build exactly [build_root d uroot t]: every entry one node with the attributes mknode gives it,
   siblings in the order of the listing (sorted), link counts 2 + number of entries for directories, nothing implicit,
   no hard link queued. *)
From Coq Require Import List NArith ZArith Bool Lia Sorted.
From SqfsV Require Import C01.GenC01 C01.Res C01.InodeModel Img.TreeModel.
From SqfsV Require Import C11.StrOrder C11.FstreeModel C11.PostModel C11.TreeProofs ImgPost.Bridge.
From SqfsV Require C18.CanonModel C18.CanonSpec C18.CanonProofs.
From SqfsV Require C16.GenC16 C16.ParseModel C16.DescribeModel C16.RoundTripSpec C16.NumProofs C16.RoundTripProofs.
From SqfsV Require Import ImgDescribe.RepackModel.
Import ListNotations.
Local Open Scope N_scope.

Definition dname (t : dnode) : list N := match t with DNode nm _ _ _ _ _ _ => nm end.
Definition dmode (t : dnode) : N := match t with DNode _ m _ _ _ _ _ => m end.
Definition dchildren (t : dnode) : list dnode := match t with DNode _ _ _ _ _ _ ch => ch end.

Lemma dnode_ind' (P : dnode -> Prop) :
  (forall nm mode uid gid tg dev cs, Forall P cs -> P (DNode nm mode uid gid tg dev cs)) -> forall t, P t.
Proof.
  intros H. fix IH 1. intros [nm mode uid gid tg dev cs]. apply H.
  induction cs as [|c r IHr]; constructor; auto.
Qed.

(* the trees the replay is about: names as C16 asks, one of the seven types plus permission bits, and below a directory
   the names strictly increasing in strcmp order (what a directory listing of an image is) *)
Inductive rwf : dnode -> Prop :=
| rwf_node nm mode uid gid tg dev cs :
    RoundTripSpec.name_ok nm -> RoundTripSpec.mode_ok mode ->
    StronglySorted str_lt (map dname cs) -> Forall rwf cs ->
    rwf (DNode nm mode uid gid tg dev cs).

(* ------------------------------------------------------------------ mode words *)

Lemma land_4095 kb p : In kb RoundTripSpec.kind_bits_list -> p < 4096 -> N.land (kb + p) 4095 = p.
Proof.
  intros Hk Hp. change 4095 with (N.ones 12). rewrite N.land_ones. change (2 ^ 12) with 4096.
  assert (E : exists k, kb = k * 4096).
  { unfold RoundTripSpec.kind_bits_list in Hk. cbn [In] in Hk.
    destruct Hk as [<-|[<-|[<-|[<-|[<-|[<-|[<-|[]]]]]]]];
      [exists 4|exists 8|exists 10|exists 2|exists 6|exists 1|exists 12]; reflexivity. }
  destruct E as [k ->]. rewrite N.add_comm, N.mod_add by discriminate. apply N.mod_small. exact Hp.
Qed.

(* everything the model asks about a mode word, per type *)
Lemma mode_cases mode : RoundTripSpec.mode_ok mode ->
  exists ty p, p < 4096 /\ mode = type_bits ty + p /\ ftype_of_mode mode = Some ty /\ N.land mode 4095 = p /\
    RoundTripSpec.is_k mode GenC16.c_S_IFDIR = ftype_eqb ty FDir /\
    RoundTripSpec.is_k mode GenC16.c_S_IFREG = ftype_eqb ty FReg /\
    RoundTripSpec.is_k mode GenC16.c_S_IFLNK = ftype_eqb ty FLnk /\
    RoundTripSpec.is_k mode GenC16.c_S_IFCHR = ftype_eqb ty FChr /\
    RoundTripSpec.is_k mode GenC16.c_S_IFBLK = ftype_eqb ty FBlk.
Proof.
  intros (kb & p & Hk & Hp & ->).
  pose proof (NumProofs.mode_facts kb p Hk Hp) as (F & _ & _).
  pose proof (land_4095 kb p Hk Hp) as L.
  unfold DescribeModel.fmt_bits in F. change GenC16.c_S_IFMT with c_S_IFMT in F.
  assert (G : forall ty, kb = type_bits ty ->
    ftype_of_mode (kb + p) = Some ty /\
    RoundTripSpec.is_k (kb + p) GenC16.c_S_IFDIR = ftype_eqb ty FDir /\
    RoundTripSpec.is_k (kb + p) GenC16.c_S_IFREG = ftype_eqb ty FReg /\
    RoundTripSpec.is_k (kb + p) GenC16.c_S_IFLNK = ftype_eqb ty FLnk /\
    RoundTripSpec.is_k (kb + p) GenC16.c_S_IFCHR = ftype_eqb ty FChr /\
    RoundTripSpec.is_k (kb + p) GenC16.c_S_IFBLK = ftype_eqb ty FBlk).
  { intros ty E. unfold RoundTripSpec.is_k, ftype_of_mode, DescribeModel.fmt_bits.
    change GenC16.c_S_IFMT with c_S_IFMT. rewrite F, E. destruct ty; repeat split; reflexivity. }
  unfold RoundTripSpec.kind_bits_list in Hk. cbn [In] in Hk.
  destruct Hk as [E|[E|[E|[E|[E|[E|[E|[]]]]]]]]; symmetry in E;
    [exists FDir|exists FReg|exists FLnk|exists FChr|exists FBlk|exists FFifo|exists FSock];
    exists p; (split; [exact Hp|]); (split; [rewrite E; reflexivity|]);
    (match goal with |- ftype_of_mode _ = Some ?t /\ _ => destruct (G t E) as (G1 & G2) end; split; [exact G1|]; split; [exact L|exact G2]).
Qed.

(* ------------------------------------------------------------------ names *)

Lemma comps_of_join chain : RoundTripProofs.chain_ok chain -> chain <> [] -> comps_of (CanonSpec.join chain) = chain.
Proof.
  intros Hc Hn. unfold comps_of.
  pose proof (RoundTripProofs.join_nonnil chain Hc Hn) as J.
  destruct (CanonSpec.join chain) as [|j0 jr] eqn:E; [congruence|]. rewrite <- E.
  apply CanonProofs.split_join; [|exact Hn]. apply CanonProofs.good_noslash, RoundTripProofs.chain_good. exact Hc.
Qed.

Lemma chain_ok_app anc nm : RoundTripProofs.chain_ok anc -> RoundTripSpec.name_ok nm -> RoundTripProofs.chain_ok (anc ++ [nm]).
Proof. intros H1 H2. unfold RoundTripProofs.chain_ok in *. apply Forall_app. split; [exact H1|constructor; [exact H2|constructor]]. Qed.

(* ------------------------------------------------------------------ one directory *)

Definition add_links (a : tattr) (k : nat) : tattr :=
  mkAttr (a_type a) (a_perm a) (a_uid a) (a_gid a) (a_mtime a) (a_links a + N.of_nat k) (a_implicit a) (a_hard a)
         (a_input a) (a_target a) (a_hardtgt a) (a_devno a) (a_resolved a).

Lemma add_links_0 a : add_links a 0 = a.
Proof. destruct a. unfold add_links. cbn. rewrite N.add_0_r. reflexivity. Qed.

Lemma add_links_inc a k : add_links (inc_links a) k = add_links a (S k).
Proof. unfold add_links, inc_links. cbn [a_links a_type a_perm a_uid a_gid a_mtime a_implicit a_hard a_input a_target a_hardtgt a_devno a_resolved]. f_equal. lia. Qed.

Lemma add_links_add a j k : add_links (add_links a j) k = add_links a (j + k).
Proof. unfold add_links. cbn [a_links a_type a_perm a_uid a_gid a_mtime a_implicit a_hard a_input a_target a_hardtgt a_devno a_resolved]. f_equal. lia. Qed.

Definition below (done : list tnode) (nm : name) : Prop := Forall (fun x => str_lt (node_name x) nm) done.

Lemma find_child_below nm done : below done nm -> find_child nm done = None.
Proof.
  induction 1 as [|x r Hx _ IH]; [reflexivity|]. cbn [find_child].
  destruct (str_eqb (node_name x) nm) eqn:E; [|exact IH].
  apply str_eqb_eq in E. rewrite E in Hx. exfalso. exact (str_lt_irrefl _ Hx).
Qed.

Lemma insert_sorted_below x done : below done (node_name x) -> insert_sorted x done = done ++ [x].
Proof.
  induction 1 as [|y r Hy _ IH]; [reflexivity|]. cbn [insert_sorted app].
  apply str_ltb_lt in Hy. rewrite Hy, IH. reflexivity.
Qed.

Lemma find_child_last nm done x : below done nm -> node_name x = nm -> find_child nm (done ++ [x]) = Some x.
Proof.
  intros B E. induction B as [|y r Hy _ IH]; cbn [app find_child].
  - rewrite E, str_eqb_refl. reflexivity.
  - destruct (str_eqb (node_name y) nm) eqn:Q; [|exact IH].
    apply str_eqb_eq in Q. rewrite Q in Hy. exfalso. exact (str_lt_irrefl _ Hy).
Qed.

Lemma replace_child_last nm done x x' : below done nm -> node_name x = nm ->
  replace_child nm x' (done ++ [x]) = done ++ [x'].
Proof.
  intros B E. induction B as [|y r Hy _ IH]; cbn [app replace_child].
  - rewrite E, str_eqb_refl. reflexivity.
  - destruct (str_eqb (node_name y) nm) eqn:Q; [|rewrite IH; reflexivity].
    apply str_eqb_eq in Q. rewrite Q in Hy. exfalso. exact (str_lt_irrefl _ Hy).
Qed.

(* ------------------------------------------------------------------ one call *)

Lemma add_generic_below d root e x :
  e_path e <> [] -> (ftype_eqb (e_type e) FLnk && match x with None => true | Some _ => false end) = false ->
  add_generic d root e x = add_path d (e_path e) e x root.
Proof. intros H1 H2. unfold add_generic. rewrite H2. destruct (e_path e); [congruence|reflexivity]. Qed.

Section Replay.
  Variable d : fsdefaults.
  Variable uroot : option (list N).

  Notation runcs := (ParseModel.run_calls fstree (do_add d)).

  (* the node mknode creates for the entry, before anything is linked below it *)
  Definition fresh_node (anc : path) (t : dnode) : tnode :=
    match t with
    | DNode nm mode uid gid tg dev _ =>
        TNode nm (new_attr d (mode_ftype mode) mode uid gid (location uroot (anc ++ [nm])) tg dev 0) []
    end.

  Lemma fresh_is_dir anc t : is_dir (fresh_node anc t) = ftype_eqb (mode_ftype (dmode t)) FDir.
  Proof. destruct t. reflexivity. Qed.

  (* fstree_add_generic for the entry of t in the directory anc *)
  Lemma add_entry anc nm mode uid gid tg dev cs root pn pa done u :
    RoundTripProofs.chain_ok anc -> RoundTripSpec.name_ok nm -> RoundTripSpec.mode_ok mode ->
    dir_at anc root = Some (TNode pn pa done) -> below done nm ->
    do_add d (mkFs root u)
           (RoundTripSpec.expected_call uroot (CanonSpec.join (anc ++ [nm])) mode uid gid tg dev) =
    Some (mkFs (subst_at anc (TNode pn (inc_links pa) (done ++ [fresh_node anc (DNode nm mode uid gid tg dev cs)])) root) u).
  Proof.
    intros Hanc Hnm Hmode D B.
    assert (Hc : RoundTripProofs.chain_ok (anc ++ [nm])) by (apply chain_ok_app; assumption).
    assert (Hne : anc ++ [nm] <> []) by (intro E; apply app_eq_nil in E as [_ E]; discriminate).
    destruct (mode_cases mode Hmode) as (ty & p & Hp & Em & Ety & Eperm & Kd & Kr & Kl & Kc & Kb).
    unfold do_add, RoundTripSpec.expected_call, op_of_call, gent_of_call.
    rewrite Ety, (comps_of_join _ Hc Hne), Eperm.
    change (ParseModel.has_flag 0 GenC16.c_SQFS_DIR_ENTRY_FLAG_HARD_LINK) with false.
    rewrite Kr, Kl, Kc, Kb.
    set (extra := if ftype_eqb ty FReg
                  then Some match uroot with
                            | Some u0 => u0 ++ [CanonModel.slash] ++ CanonSpec.join (anc ++ [nm])
                            | None => CanonSpec.join (anc ++ [nm]) end
                  else if ftype_eqb ty FLnk then Some tg else None).
    set (e := mkEnt (anc ++ [nm]) ty p uid gid (Z.of_N (fd_mtime d))
                    (if ftype_eqb ty FChr || ftype_eqb ty FBlk then dev else 0) false).
    assert (X : (ftype_eqb (e_type e) FLnk && match extra with None => true | Some _ => false end) = false).
    { unfold extra, e. cbn [e_type]. destruct ty; reflexivity. }
    unfold fs_add. cbn [fs_root fs_unres].
    rewrite (add_generic_below d root e extra Hne X). cbn [e_path e_hard e andb].
    rewrite (add_path_local d anc nm _ _ _ _ D).
    pose proof (dir_at_is_dir _ _ _ D) as Dd. unfold is_dir in Dd. cbn [node_attr] in Dd.
    cbn [add_path]. rewrite Dd. cbn [negb]. rewrite (find_child_below nm done B).
    assert (MK : mknode nm e extra =
                 Some (fresh_node anc (DNode nm mode uid gid tg dev cs))).
    { unfold mknode, fresh_node, new_attr, mode_ftype, location, e, extra.
      cbn [e_hard e_type e_perm e_uid e_gid e_mtime e_rdev]. rewrite Ety, Eperm.
      destruct ty; cbn [ftype_eqb andb orb negb]; reflexivity. }
    rewrite MK. cbn [option_map]. rewrite insert_sorted_below.
    - reflexivity.
    - cbn [fresh_node node_name]. exact B.
  Qed.

  (* the calls below one directory *)
  Definition children_calls (chain : path) :=
    fix go (cs : list dnode) : list ParseModel.call :=
      match cs with [] => [] | c :: r => RoundTripSpec.calls_of uroot chain c ++ go r end.

  Lemma run_calls_app c1 c2 st :
    runcs st (c1 ++ c2) = match runcs st c1 with (st', None) => runcs st' c2 | r => r end.
  Proof.
    revert st. induction c1 as [|c r IH]; intro st; [cbn; destruct (runcs st c2) as [s [e|]]; reflexivity|].
    cbn [app ParseModel.run_calls]. destruct (do_add d st c); [apply IH|reflexivity].
  Qed.

  (* what the replay of a subtree does to the directory it is listed in *)
  Definition replays (t : dnode) : Prop :=
    forall anc root pn pa done u,
      RoundTripProofs.chain_ok anc -> dir_at anc root = Some (TNode pn pa done) -> below done (dname t) ->
      runcs (mkFs root u) (RoundTripSpec.calls_of uroot anc t) =
      (mkFs (subst_at anc (TNode pn (inc_links pa) (done ++ [build d uroot anc t])) root) u, None).

  Lemma replay_children cs : Forall replays cs -> StronglySorted str_lt (map dname cs) ->
    forall anc root pn pa done u,
      RoundTripProofs.chain_ok anc -> dir_at anc root = Some (TNode pn pa done) ->
      Forall (fun c => below done (dname c)) cs ->
      runcs (mkFs root u) (children_calls anc cs) =
      (mkFs (subst_at anc (TNode pn (add_links pa (length cs)) (done ++ map (build d uroot anc) cs)) root) u, None).
  Proof.
    induction 1 as [|c r Hc _ IH]; intros Hs anc root pn pa done u Hanc D B.
    - cbn [children_calls ParseModel.run_calls map length]. rewrite add_links_0, app_nil_r.
      rewrite (subst_at_self anc root _ D). reflexivity.
    - cbn [children_calls]. fold (children_calls anc). rewrite run_calls_app.
      inversion B as [|? ? Bc Br]; subst. inversion Hs as [|? ? Hs1 Hs2]; subst.
      rewrite (Hc anc root pn pa done u Hanc D Bc).
      set (dn1 := TNode pn (inc_links pa) (done ++ [build d uroot anc c])).
      assert (D1 : dir_at anc (subst_at anc dn1 root) = Some dn1).
      { apply (dir_at_subst anc root _ dn1 D); [|reflexivity].
        pose proof (dir_at_is_dir _ _ _ D) as Dd. exact Dd. }
      rewrite (IH Hs1 anc (subst_at anc dn1 root) pn (inc_links pa) (done ++ [build d uroot anc c]) u Hanc D1).
      + rewrite (subst_subst anc root _ dn1 _ D eq_refl), add_links_inc. cbn [map length].
        rewrite <- app_assoc. reflexivity.
      + rewrite Forall_forall in *. intros c' Hc'. unfold below. apply Forall_app. split; [apply Br; exact Hc'|].
        constructor; [|constructor].
        assert (N1 : node_name (build d uroot anc c) = dname c) by (destruct c; reflexivity).
        rewrite N1. apply Hs2. apply in_map. exact Hc'.
  Qed.

  Lemma replay_subtree : forall t, rwf t -> replays t.
  Proof.
    induction t as [nm mode uid gid tg dev cs IH] using dnode_ind'. intro W.
    inversion W as [? ? ? ? ? ? ? Hnm Hmode Hsort Hcs]; subst.
    intros anc root pn pa done u Hanc D B. cbn [dname] in B.
    cbn [RoundTripSpec.calls_of].
    change (?a :: ?l) with ([a] ++ l). rewrite run_calls_app. cbn [ParseModel.run_calls].
    rewrite (add_entry anc nm mode uid gid tg dev cs root pn pa done u Hanc Hnm Hmode D B).
    set (x0 := fresh_node anc (DNode nm mode uid gid tg dev cs)).
    set (dn1 := TNode pn (inc_links pa) (done ++ [x0])).
    destruct (mode_cases mode Hmode) as (ty & p & Hp & Em & Ety & Eperm & Kd & _).
    assert (Ty : mode_ftype mode = ty) by (unfold mode_ftype; rewrite Ety; reflexivity).
    rewrite Kd. destruct (ftype_eqb ty FDir) eqn:Edir.
    2:{ cbn [ParseModel.run_calls]. unfold dn1, x0. cbn [build fresh_node]. rewrite Ty, Edir. reflexivity. }
    (* a directory: its children are replayed below anc ++ [nm] *)
    fold (children_calls (anc ++ [nm])).
    assert (D1 : dir_at anc (subst_at anc dn1 root) = Some dn1).
    { apply (dir_at_subst anc root _ dn1 D); [|reflexivity]. exact (dir_at_is_dir _ _ _ D). }
    assert (Nx : node_name x0 = nm) by reflexivity.
    assert (Dx : is_dir x0 = true) by (unfold x0; rewrite fresh_is_dir; cbn [dmode]; rewrite Ty; exact Edir).
    assert (D2 : dir_at (anc ++ [nm]) (subst_at anc dn1 root) = Some x0).
    { rewrite dir_at_app1, D1. cbn [dn1 node_children]. rewrite (find_child_last nm done x0 B Nx), Dx. reflexivity. }
    assert (IHs : Forall replays cs).
    { rewrite Forall_forall in *. intros c Hc. apply IH; [exact Hc|apply Hcs; exact Hc]. }
    destruct x0 as [xn xa xch] eqn:Ex0.
    assert (Xch : xch = []) by (unfold fresh_node in Ex0; injection Ex0 as _ _ <-; reflexivity).
    subst xch.
    rewrite (replay_children cs IHs Hsort (anc ++ [nm]) (subst_at anc dn1 root) xn xa [] u
               (chain_ok_app anc nm Hanc Hnm) D2).
    2:{ apply Forall_forall. intros c _. constructor. }
    cbn [app].
    rewrite (subst_at_app1 anc nm (subst_at anc dn1 root) pn (inc_links pa) (done ++ [TNode xn xa []])
               (TNode xn xa []) _ D1 (find_child_last nm done _ B Nx)).
    rewrite (subst_subst anc root _ dn1 _ D eq_refl).
    rewrite (replace_child_last nm done _ _ B Nx).
    f_equal. f_equal. f_equal. f_equal. f_equal.
    unfold fresh_node in Ex0. injection Ex0 as <- <-.
    cbn [build]. rewrite Ty, Edir. rewrite map_length. unfold new_attr, add_links. rewrite Edir.
    cbn [a_links a_type a_perm a_uid a_gid a_mtime a_implicit a_hard a_input a_target a_hardtgt a_devno a_resolved].
    replace (2 + N.of_nat 0 + N.of_nat (length cs)) with (2 + N.of_nat (length cs)) by lia. reflexivity.
  Qed.

  (* ------------------------------------------------------------------ the whole listing *)

  Lemma replay_root t :
    RoundTripSpec.wf_root t -> StronglySorted str_lt (map dname (dchildren t)) -> Forall rwf (dchildren t) ->
    runcs (fs_init d) (RoundTripSpec.root_calls uroot t) = (mkFs (build_root d uroot t) [], None).
  Proof.
    destruct t as [nm mode uid gid tg dev cs]. intros (-> & (p & Hp & Hm) & _ & _ & _) Hs Hc. cbn [dchildren] in *.
    cbn [RoundTripSpec.root_calls]. fold (children_calls []).
    change (?a :: ?l) with ([a] ++ l). rewrite run_calls_app. cbn [ParseModel.run_calls].
    assert (Hmode : RoundTripSpec.mode_ok mode).
    { exists GenC16.c_S_IFDIR, p. split; [left; reflexivity|]. split; assumption. }
    destruct (mode_cases mode Hmode) as (ty & p' & Hp' & Em & Ety & Eperm & Kd & _).
    assert (Kd' : RoundTripSpec.is_k mode GenC16.c_S_IFDIR = true).
    { unfold RoundTripSpec.is_k. rewrite Hm.
      destruct (NumProofs.mode_facts GenC16.c_S_IFDIR p (or_introl eq_refl) Hp) as (F & _). rewrite F. reflexivity. }
    rewrite Kd' in Kd. symmetry in Kd. destruct ty; try discriminate.
    assert (A1 : do_add d (fs_init d) (ParseModel.CAdd [] mode uid gid 0 0 None) =
                 Some (mkFs (TNode [] (mkAttr FDir p' uid gid (trunc_u32 (Z.of_N (fd_mtime d))) 2 false false None [] [] 0 None) []) [])).
    { unfold do_add, op_of_call, gent_of_call. rewrite Ety, Eperm. reflexivity. }
    rewrite A1.
    set (r1 := TNode [] (mkAttr FDir p' uid gid (trunc_u32 (Z.of_N (fd_mtime d))) 2 false false None [] [] 0 None) []).
    assert (IHs : Forall replays cs).
    { rewrite Forall_forall in *. intros c Hc'. apply replay_subtree. apply Hc. exact Hc'. }
    change (runcs (mkFs r1 []) (children_calls [] cs) = (mkFs (build_root d uroot (DNode [] mode uid gid tg dev cs)) [], None)).
    assert (RC := replay_children cs IHs Hs [] r1 [] _ [] [] (Forall_nil _) eq_refl).
    etransitivity; [apply RC; apply Forall_forall; intros c _; constructor|].
    cbn [subst_at app build_root]. unfold add_links.
    cbn [a_links a_type a_perm a_uid a_gid a_mtime a_implicit a_hard a_input a_target a_hardtgt a_devno a_resolved].
    rewrite Eperm. reflexivity.
  Qed.
End Replay.
