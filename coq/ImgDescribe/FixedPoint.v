(* ImgDescribe — the describe / pack cycle reproduces the described tree EXACTLY: the image packed from describe's output,
   read again, is handed to describe as the same sqfs_tree_node_t hierarchy (names, mode words, owners, targets, device
   numbers, shape and order), so describe prints the same listing byte for byte and packing that listing once more gives
   the same fstree, the same inode numbers and — for the same file inodes and xattr indices — the same serializer input,
   hence identical inode, directory and id tables: an image produced by the cycle is a fixed point of it. *)
From Coq Require Import List NArith ZArith Bool Lia Sorted.
From SqfsV Require C03.Common.
From SqfsV Require Import C01.GenC01 C01.Res C01.InodeModel C01.InodeProofs Img.TreeModel Img.TreeRT.
From SqfsV Require Import C11.StrOrder C11.FstreeModel C11.PostModel C11.TreeProofs C11.PostProofs.
From SqfsV Require Import ImgPost.Bridge ImgPost.InputOk ImgPost.TreeInv ImgPost.ResolveInv ImgPost.ListPos
  ImgPost.AllocInv ImgPost.ReorderInv ImgPost.BridgeProofs ImgPost.PathsModel ImgPost.PathsProofs ImgPost.RoundTrip.
From SqfsV Require C18.CanonModel C18.CanonSpec.
From SqfsV Require C16.GenC16 C16.ParseModel C16.DescribeModel C16.RoundTripSpec C16.RoundTripProofs.
From SqfsV Require Import ImgDescribe.RepackModel ImgDescribe.ReplayProofs ImgDescribe.RepackProofs.
Import ListNotations.
Local Open Scope N_scope.

(* how a reader presents a node of an fstree without hard links to describe_tree *)
Fixpoint t16_of (n : tnode) : dnode :=
  match n with
  | TNode nm a ch =>
      DNode nm (type_bits (a_type a) + a_perm a) (a_uid a) (a_gid a)
            (if ftype_eqb (a_type a) FLnk then a_target a else [])
            (if ftype_eqb (a_type a) FBlk || ftype_eqb (a_type a) FChr then a_devno a else 0)
            (if ftype_eqb (a_type a) FDir then map t16_of ch else [])
  end.

Lemma t16_of_decorate st : forall n pp, t16_of (decorate st pp n) = t16_of n.
Proof.
  induction n as [nm a ch IH] using tnode_ind'. intro pp. cbn [decorate t16_of set_post a_type a_perm a_uid a_gid a_target a_devno].
  f_equal. destruct (ftype_eqb (a_type a) FDir); [|reflexivity]. rewrite map_map. apply map_ext_in. intros c Hc.
  rewrite Forall_forall in IH. apply IH. exact Hc.
Qed.

(* ---- (1) the tree read back from the tables of a packing run, as a function of the post-processed tree ---- *)
Section ReadBack.
  Variable compress : list N -> Common.cres.
  Variable uncompress : list N -> option (list N).
  Hypothesis compress_ok :
    forall b c, compress b = Common.CData c -> Common.lenN c <= Common.lenN b /\ uncompress c = Some b.
  Variable limit : N.
  Hypothesis limit_ok : limit <= 65536.

  (* RoundTrip.pack_paths_roundtrip_l with its witness made explicit *)
  Lemma read_back_lt_of bs d ops fs pp fb xa img :
    input_okb bs d ops = true ->
    run_adds d (fs_init d) ops = Some fs ->
    post_process fs = POk pp ->
    attached_okb bs fb xa pp = true ->
    serialize_fstree compress limit (to_img fb xa pp) = Ok img ->
    trace_fits img = true ->
    read_tree uncompress bs (si_itbl img) (si_dtbl img) (si_ids img) (length (pp_inodes pp)) (si_root img) =
    Some (lt_of fb xa (pp_root pp) (pp_inodes pp) [] (pp_root pp)).
  Proof.
    intros Hin Hrun Hpost Hatt Hser Hfit.
    pose proof (post_tree_representable_l bs d ops fs pp fb xa Hin Hrun Hpost Hatt) as Rep.
    destruct (tree_roundtrip_l compress uncompress compress_ok limit limit_ok bs _ img Rep Hser Hfit)
      as (lt & Sp & Rd).
    destruct (facts bs d ops fs pp Hin Hrun Hpost) as (st & R & Er & Ef & El & I & P).
    pose proof (root0_wf bs d ops fs Hin Hrun) as W.
    pose proof (root0_queued d ops fs Hrun) as Q.
    pose proof (root0_dir d ops fs Hrun) as D0.
    set (arr := pp_inodes pp) in *. set (root := pp_root pp) in *.
    assert (Len : length (to_img fb xa pp) = length arr) by (unfold to_img; apply map_length).
    rewrite Len in *.
    assert (S1 : snames root) by (rewrite Er; apply snames_decorate, wf_snames; exact W).
    assert (TG : forall dp nd c, lookup_path dp root = Some nd -> is_dir nd = true -> In c (node_children nd) ->
                   is_hardlink c = true -> exists t, a_resolved (node_attr c) = Some t /\ good_target root t).
    { rewrite Er. apply (post_targets (fs_root fs) (fs_unres fs) st W Q R). }
    assert (Lr : lookup_path [] root = Some root) by reflexivity.
    assert (Hr : is_hardlink root = false).
    { rewrite Er, decorate_is_hardlink. destruct (is_hardlink (fs_root fs)) eqn:E; [|reflexivity].
      apply is_hardlink_not_dir in E. congruence. }
    assert (Pos : (1 <= length arr)%nat).
    { pose proof (inv_last _ _ I) as L. fold arr in L. destruct arr; [discriminate|]. simpl. lia. }
    assert (Ino : ino_of arr [] = nlen (to_img fb xa pp)).
    { unfold ino_of, nlen. rewrite Len.
      rewrite (nth_index_nodup arr (length arr - 1) [] (inv_nodup _ _ I) (inv_last _ _ I)). lia. }
    pose proof (spec_of_node fb xa root arr S1 I P TG root [] Lr Hr (length arr)) as Sp'.
    rewrite Ino in Sp'. unfold nlen in Sp'. rewrite Len in Sp'.
    change (map (node_img fb xa arr root) arr) with (to_img fb xa pp) in Sp'.
    unfold nlen in Sp. rewrite Len in Sp. rewrite Sp' in Sp by lia. injection Sp as <-. exact Rd.
  Qed.
End ReadBack.

(* ---- (2) what describe_tree is handed for that tree ---- *)
Section Present.
  Variable bs : N.
  Variable fb : path -> ibody.
  Variable xa : path -> N.
  Variable root : tnode.
  Variable arr : list path.
  Hypothesis Hsn : snames root.
  Hypothesis Hfiles : forall q nd, lookup_path q root = Some nd -> a_type (node_attr nd) = FReg ->
                                   file_body_okb bs (fb q) = true.

  Lemma file_kind_td b : file_body_okb bs b = true ->
    kind_target (lkind_of_body b) = [] /\ kind_devno (lkind_of_body b) = 0.
  Proof. destruct b; try discriminate; split; reflexivity. Qed.

  Lemma present_lt_of : forall n p, nohl n -> lookup_path p root = Some n ->
    describe_input (node_name n) (lt_of fb xa root arr p n) = t16_of n.
  Proof.
    induction n as [nm a ch IH] using tnode_ind'. intros p Hn L.
    inversion Hn as [? ? ? Hh Hch]; subst.
    cbn [lt_of node_name]. rewrite describe_input_unfold. cbn [t16_of].
    match goal with
    | |- DNode _ _ _ _ _ _ (dkids ?X) = _ =>
        assert (Kids : dkids X = (if ftype_eqb (a_type a) FDir then map t16_of ch else []))
    end.
    { destruct (ftype_eqb (a_type a) FDir) eqn:Ty; [|reflexivity]. unfold dkids. rewrite map_map.
      apply map_ext_in. intros c Hc. rewrite Forall_forall in IH, Hch.
      rewrite (nohl_not_hardlink c (Hch c Hc)).
      apply (IH c Hc (p ++ [node_name c]) (Hch c Hc)).
      apply (lookup_app1 p root _ c L); [unfold is_dir; cbn; exact Ty|].
      pose proof (snames_lookup p root _ Hsn L) as Sn. destruct (snames_inv _ _ _ Sn) as [Sn1 _].
      apply find_child_of_in; [apply sorted_names_nodup; exact Sn1|exact Hc]. }
    rewrite Kids. unfold view_at, node_img. rewrite L.
    destruct (a_type a) eqn:Ty; cbn [ftype_eqb orb] in *;
      try (rewrite Hh); cbn [lview_of_fnode lv_mode lv_uid lv_gid lv_kind fn_mode fn_uid fn_gid fn_payload
                              lkind_of_payload opt0 kind_target kind_devno];
      try reflexivity.
    (* a regular file: the inode the data path left is a file inode *)
    destruct (file_kind_td (fb p)) as [E1 E2]; [apply (Hfiles _ _ L); cbn; exact Ty|].
    rewrite E1, E2. reflexivity.
  Qed.
End Present.

(* ---- (3) building and presenting again gives back what was described ---- *)
Lemma present_build d uroot : forall s nm anc,
  lt_okb s = true -> RoundTripSpec.wf_node (describe_input nm s) ->
  t16_of (build d uroot anc (describe_input nm s)) = describe_input nm s.
Proof.
  induction s as [v ents IH] using ltree_ind'. intros nm anc Hok Hwf.
  destruct (lt_okb_inv _ _ Hok) as (Hk & Hu & Hg & Hs & Hch).
  rewrite describe_input_unfold in *.
  inversion Hwf as [? ? ? ? ? ? ? Hn Hm _ _ _ _ Hc]; subst.
  destruct (mode_cases (lv_mode v) Hm) as (ty & p0 & Hp0 & Em & Ety & Eperm & _).
  assert (Ty : mode_ftype (lv_mode v) = ty) by (unfold mode_ftype; rewrite Ety; reflexivity).
  pose proof (kind_type _ _ _ ty Hk Ety) as KT.
  cbn [build t16_of]. rewrite Ty. unfold new_attr.
  cbn [a_type a_perm a_uid a_gid a_target a_devno]. rewrite Eperm.
  assert (Kids : (if ftype_eqb ty FDir
                  then map t16_of (if ftype_eqb ty FDir then map (build d uroot (anc ++ [nm])) (dkids ents) else [])
                  else []) = dkids ents).
  { destruct (ftype_eqb ty FDir) eqn:Edir.
    - rewrite map_map. unfold dkids. rewrite map_map. apply map_ext_in. intros [n s] Hin.
      rewrite Forall_forall in IH, Hch, Hc. apply (IH _ Hin n (anc ++ [nm]) (Hch _ Hin)).
      apply Hc. unfold dkids. apply in_map_iff. exists (n, s). split; [reflexivity|exact Hin].
    - assert (E0 : length ents = O).
      { destruct (lv_kind v); [rewrite KT in Edir; discriminate| | | |]; tauto. }
      destruct ents; [reflexivity|discriminate]. }
  rewrite Kids.
  destruct (lv_kind v) as [par|a1 a2 a3 a4 a5 a6|tg|chr dv|sock] eqn:Ek.
  - rewrite KT. cbn [ftype_eqb orb kind_target kind_devno]. rewrite Em, KT. reflexivity.
  - destruct KT as [-> _]. cbn [ftype_eqb orb kind_target kind_devno]. rewrite Em. reflexivity.
  - destruct KT as (-> & Em' & _). cbn [ftype_eqb orb kind_target kind_devno]. rewrite Em'. reflexivity.
  - destruct KT as [-> _]. destruct chr; cbn [ftype_eqb orb kind_target kind_devno]; rewrite Em; reflexivity.
  - destruct KT as [-> _]. destruct sock; cbn [ftype_eqb orb kind_target kind_devno]; rewrite Em; reflexivity.
Qed.

Lemma present_build_root d uroot v ents :
  lt_okb (LT v ents) = true -> RoundTripSpec.wf_root (describe_input [] (LT v ents)) ->
  t16_of (build_root d uroot (describe_input [] (LT v ents))) = describe_input [] (LT v ents).
Proof.
  intros Hok Hwf.
  destruct (root_facts v ents Hok Hwf) as (_ & _ & Hwn & (p & Hp & Hm & Hl) & (par & Hkind)).
  destruct (lt_okb_inv _ _ Hok) as (_ & _ & _ & _ & Hch).
  rewrite describe_input_unfold. cbn [build_root t16_of a_type a_perm a_uid a_gid a_target a_devno ftype_eqb orb type_bits].
  rewrite Hl, Hkind. cbn [kind_target kind_devno]. rewrite Hm. f_equal.
  rewrite map_map. unfold dkids. rewrite map_map. apply map_ext_in. intros [n s] Hin.
  rewrite Forall_forall in Hch, Hwn. apply (present_build d uroot s n [] (Hch _ Hin)).
  apply Hwn. unfold dkids. apply in_map_iff. exists (n, s). split; [reflexivity|exact Hin].
Qed.

(* ---- (4) the theorem ---- *)
Section Fixed.
  Variable compress : list N -> Common.cres.
  Variable uncompress : list N -> option (list N).
  Hypothesis compress_ok :
    forall b c, compress b = Common.CData c -> Common.lenN c <= Common.lenN b /\ uncompress c = Some b.
  Variable limit : N.
  Hypothesis limit_ok : limit <= 65536.

  Theorem describe_repack_fixed_point_l : forall bs d uroot lt pp2 fb2 xa2 img2,
    lt_okb lt = true ->
    RoundTripSpec.wf_root (describe_input [] lt) -> RoundTripSpec.uroot_ok uroot ->
    input_okb bs d (calls_ops d (RoundTripSpec.root_calls uroot (describe_input [] lt))) = true ->
    repack d uroot lt = Some pp2 ->
    attached_okb bs fb2 xa2 pp2 = true ->
    serialize_fstree compress limit (to_img fb2 xa2 pp2) = Ok img2 ->
    trace_fits img2 = true ->
    exists lt2,
      read_tree uncompress bs (si_itbl img2) (si_dtbl img2) (si_ids img2) (length (pp_inodes pp2)) (si_root img2)
        = Some lt2 /\
      (* the reader hands describe the very same hierarchy ... *)
      describe_input [] lt2 = describe_input [] lt /\
      (* ... so the listing is the same, for every unpack root ... *)
      (forall u, DescribeModel.describe u (describe_input [] lt2) = DescribeModel.describe u (describe_input [] lt)) /\
      (* ... and packing it again gives the same fstree, numbering and file list, hence the same tables *)
      (forall d' u, repack d' u lt2 = repack d' u lt) /\
      (forall pp3, repack d uroot lt2 = Some pp3 ->
         serialize_fstree compress limit (to_img fb2 xa2 pp3) = Ok img2).
  Proof.
    intros bs d uroot lt pp2 fb2 xa2 img2 Hok Hwf Hu Hin Hrep Hatt Hser Hfit.
    destruct (describe_repack_same_tree_l compress uncompress compress_ok limit limit_ok bs d uroot lt Hok Hwf Hu Hin)
      as (out & pp2' & E1 & E3 & Hrep' & _).
    rewrite Hrep in Hrep'. injection Hrep' as <-.
    destruct lt as [v ents].
    destruct (root_facts v ents Hok Hwf) as (Hs & Hrw & Hwn & _ & _).
    set (t16 := describe_input [] (LT v ents)) in *.
    pose proof (replay_root d uroot t16 Hwf Hs Hrw) as Rp.
    set (R := build_root d uroot t16) in *.
    pose proof (run_calls_adds d _ _ _ Rp) as Hrun.
    destruct (post_nolinks R) as (arr & Epost).
    assert (Epp : pp2 = mkOut (decorate (mkRs [] []) [] R) arr (file_list [] (decorate (mkRs [] []) [] R))).
    { unfold repack, repack_fstree in Hrep. fold t16 in Hrep. rewrite E1 in Hrep. cbn [fst snd] in Hrep.
      rewrite E3, Epost in Hrep. injection Hrep as <-. reflexivity. }
    rewrite <- Epp in Epost.
    pose proof (read_back_lt_of compress uncompress compress_ok limit limit_ok bs d _ (mkFs R []) pp2 fb2 xa2 img2
                  Hin Hrun Epost Hatt Hser Hfit) as Rd.
    set (lt2 := lt_of fb2 xa2 (pp_root pp2) (pp_inodes pp2) [] (pp_root pp2)) in *.
    assert (SR : snames R) by (apply build_root_snames; assumption).
    assert (Key : describe_input [] lt2 = t16).
    { assert (Er : pp_root pp2 = decorate (mkRs [] []) [] R) by (rewrite Epp; reflexivity).
      assert (Nr : node_name (pp_root pp2) = []).
      { rewrite Er, decorate_name. unfold R, t16. rewrite describe_input_unfold. reflexivity. }
      unfold lt2. rewrite <- Nr at 1.
      rewrite (present_lt_of bs fb2 xa2 (pp_root pp2) (pp_inodes pp2)).
      - rewrite Er, t16_of_decorate. apply present_build_root; assumption.
      - rewrite Er. apply snames_decorate. exact SR.
      - intros q nd L T. unfold attached_okb in Hatt. apply andb_true_iff in Hatt. destruct Hatt as [Af _].
        rewrite forallb_forall in Af. apply Af. rewrite Epp. cbn [pp_files]. rewrite <- Er.
        apply (file_list_complete q (pp_root pp2) [] nd L T).
      - rewrite Er. clear -R. assert (H := build_root_nohl d uroot t16). fold R in H.
        revert H. generalize (@nil name). generalize R. clear.
        induction R as [nm a ch IH] using tnode_ind'. intros pp H. inversion H as [? ? ? Hh Hch]; subst.
        cbn [decorate]. constructor; [exact Hh|]. rewrite Forall_forall in *. intros c Hc. apply in_map_iff in Hc.
        destruct Hc as (c0 & <- & Hc0). apply IH; auto.
      - reflexivity. }
    exists lt2. split; [exact Rd|]. split; [exact Key|].
    split; [intro u; rewrite Key; reflexivity|].
    assert (Rpk : forall d' u, repack d' u lt2 = repack d' u (LT v ents)).
    { intros d' u. unfold repack, repack_fstree. rewrite Key. reflexivity. }
    split; [exact Rpk|].
    intros pp3 H3. rewrite Rpk, Hrep in H3. injection H3 as <-. exact Hser.
  Qed.
End Fixed.
