(* ImgDescribe — describe_repack_contents: the image gensquashfs --pack-file packs from (the listing describe printed, the
   files rdsquashfs -u wrote) reads back — through ImgE2E.read_all, the models of the real readers — as the described
   tree AND, for every regular file, the bytes that were unpacked.  Composition of
     C16.describe_parse_rt_l / ReplayProofs.replay_root   the listing makes the parser build [build_root]
     location_resolves (here)                             the location of a `file` line, opened from the directory
                                                          pack_files works in, is the host file unpack wrote for it
     ImgE2E.Compose.pack_all_reads_back_l                 the packer / reader end-to-end theorem
     RepackProofs.compare_subtree                         the metadata comparison of describe_repack_same_tree *)
From Coq Require Import List NArith ZArith Bool Lia Sorted.
From SqfsV Require C03.Common.
From SqfsV Require Import C01.GenC01 C01.Res C01.InodeModel C01.InodeProofs Img.TreeModel.
From SqfsV Require Import C11.StrOrder C11.FstreeModel C11.PostModel C11.TreeProofs C11.PostProofs.
From SqfsV Require Import ImgPost.Bridge ImgPost.InputOk ImgPost.TreeInv ImgPost.ResolveInv ImgPost.BridgeProofs
  ImgPost.PathsModel ImgPost.PathsProofs ImgPost.RoundTrip.
From SqfsV Require C18.CanonModel C18.CanonSpec C18.CanonProofs.
From SqfsV Require C16.GenC16 C16.ParseModel C16.DescribeModel C16.RoundTripSpec C16.RoundTripProofs.
From SqfsV Require Import C08.DedupModel Image.FinishModel.
From SqfsV Require C05.RBase.
From SqfsV Require Import ImgReader.Embed ImgReader.ReadImage.
From SqfsV Require Import ImgE2E.PackAll ImgE2E.Hyps ImgE2E.Compose.
From SqfsV Require Import ImgDescribe.RepackModel ImgDescribe.ReplayProofs ImgDescribe.RepackProofs ImgDescribe.HostModel.
Import ListNotations.
Local Open Scope N_scope.

(* ------------------------------------------------------------------ path strings *)
Lemma is_abs_app u r : u <> [] -> is_abs (u ++ r) = is_abs u.
Proof. destruct u; [contradiction|reflexivity]. Qed.

Lemma at_cwd_location uroot pcwd udir rel :
  same_place uroot pcwd udir -> is_abs rel = false ->
  at_cwd pcwd (match uroot with None => rel | Some u => u ++ [slash] ++ rel end) = at_cwd udir rel.
Proof.
  intros S A. destruct uroot as [u|]; cbn [same_place] in S.
  - destruct S as [Hu <-]. unfold at_cwd. rewrite (is_abs_app u _ Hu), A.
    destruct (is_abs u); [reflexivity|]. rewrite <- !app_assoc. reflexivity.
  - subst. reflexivity.
Qed.

Lemma join_rel q : RoundTripProofs.chain_ok q -> q <> [] -> is_abs (CanonSpec.join q) = false.
Proof.
  intros H Hq. destruct q as [|c r]; [contradiction|]. rewrite CanonProofs.join_cons.
  inversion H as [|? ? [_ Hc] _]; subst. unfold DescribeModel.comp_valid in Hc.
  rewrite !andb_true_iff in Hc. destruct Hc as [[[H1 H2] _] _].
  destruct c as [|a c']; [discriminate|]. cbn [app is_abs].
  destruct (a =? slash) eqn:E; [|reflexivity]. apply N.eqb_eq in E. subst a.
  apply negb_true_iff in H2.
  assert (X : CanonModel.has_slash (slash :: c') = true) by (apply CanonProofs.has_slash_In; left; reflexivity).
  congruence.
Qed.

Lemma join_inj a b :
  RoundTripProofs.chain_ok a -> a <> [] -> RoundTripProofs.chain_ok b -> b <> [] ->
  CanonSpec.join a = CanonSpec.join b -> a = b.
Proof.
  intros Ha Na Hb Nb E. rewrite <- (comps_of_join a Ha Na), <- (comps_of_join b Hb Nb), E. reflexivity.
Qed.

(* ------------------------------------------------------------------ the finite map *)
Lemma host_read_map (f g : path -> list N) : forall l q,
  (forall a b, In a l -> In b l -> f a = f b -> a = b) -> In q l ->
  host_read (map (fun q => (f q, g q)) l) (f q) = Some (g q).
Proof.
  induction l as [|a l IH]; intros q Inj Hq; [destruct Hq|]. cbn [map host_read].
  destruct (str_eqb (f a) (f q)) eqn:E.
  - apply str_eqb_eq in E. rewrite (Inj a q (or_introl eq_refl) Hq E). reflexivity.
  - destruct Hq as [->|Hq]; [rewrite str_eqb_refl in E; discriminate|].
    apply IH; [|exact Hq]. intros x y Hx Hy. apply Inj; right; assumption.
Qed.

(* ------------------------------------------------------------------ the paths of a well formed tree *)
Lemma flat_lt_chain : forall s nm anc,
  RoundTripSpec.wf_node (describe_input nm s) -> RoundTripProofs.chain_ok anc ->
  Forall (fun x : path * pview * N => RoundTripProofs.chain_ok (fst (fst x)) /\ fst (fst x) <> []) (flat_lt (anc ++ [nm]) s).
Proof.
  induction s as [v ents IH] using ltree_ind'. intros nm anc Hwf Ha.
  rewrite describe_input_unfold in Hwf. inversion Hwf as [? ? ? ? ? ? ? Hn _ _ _ _ _ Hc]; subst.
  assert (Hch : RoundTripProofs.chain_ok (anc ++ [nm])).
  { unfold RoundTripProofs.chain_ok. apply Forall_app. split; [exact Ha|]. constructor; [exact Hn|constructor]. }
  cbn [flat_lt]. constructor.
  - cbn [fst]. split; [exact Hch|]. intro E. apply app_eq_nil in E. destruct E; discriminate.
  - apply Forall_forall. intros x Hx. apply in_concat in Hx. destruct Hx as (l & Hl & Hx).
    apply in_map_iff in Hl. destruct Hl as ([n s'] & <- & Hin).
    rewrite Forall_forall in IH, Hc.
    assert (W : RoundTripSpec.wf_node (describe_input n s')).
    { apply Hc. unfold dkids. apply in_map_iff. exists (n, s'). split; [reflexivity|exact Hin]. }
    pose proof (IH _ Hin n (anc ++ [nm]) W Hch) as F. rewrite Forall_forall in F. exact (F x Hx).
Qed.

Lemma file_paths_chain v ents :
  lt_okb (LT v ents) = true -> RoundTripSpec.wf_root (describe_input [] (LT v ents)) ->
  forall q, In q (file_paths (LT v ents)) -> RoundTripProofs.chain_ok q /\ q <> [].
Proof.
  intros Hok Hwf q Hq.
  destruct (root_facts v ents Hok Hwf) as (_ & _ & Hwn & _ & (par & Hkind)).
  unfold file_paths in Hq. apply in_map_iff in Hq. destruct Hq as (x & <- & Hx).
  apply filter_In in Hx. destruct Hx as [Hx Hk]. cbn [flat_lt] in Hx. destruct Hx as [<-|Hx].
  - cbn [fst snd pview_of_lview pv_kind] in Hk. rewrite Hkind in Hk. discriminate.
  - apply in_concat in Hx. destruct Hx as (l & Hl & Hx).
    apply in_map_iff in Hl. destruct Hl as ([n s'] & <- & Hin).
    rewrite Forall_forall in Hwn.
    assert (W : RoundTripSpec.wf_node (describe_input n s')).
    { apply Hwn. unfold dkids. apply in_map_iff. exists (n, s'). split; [reflexivity|exact Hin]. }
    pose proof (flat_lt_chain s' n [] W (Forall_nil _)) as F. rewrite Forall_forall in F. exact (F x Hx).
Qed.

(* ------------------------------------------------------------------ location_resolves *)
(* the location describe prints for the regular file at q, opened from the directory pack_files works in, is the host
   file unpacking wrote for q *)
Lemma location_resolves_l uroot pcwd udir lt data :
  lt_okb lt = true -> RoundTripSpec.wf_root (describe_input [] lt) -> same_place uroot pcwd udir ->
  forall q, In q (file_paths lt) ->
    host_read (unpack_host udir lt data) (at_cwd pcwd (location uroot q)) = Some (data q).
Proof.
  intros Hok Hwf S q Hq. destruct lt as [v ents].
  pose proof (file_paths_chain v ents Hok Hwf) as Ch.
  destruct (Ch q Hq) as [Cq Nq].
  unfold location. rewrite (at_cwd_location uroot pcwd udir _ S (join_rel q Cq Nq)).
  unfold unpack_host.
  apply (host_read_map (fun q => at_cwd udir (CanonSpec.join q)) data); [|exact Hq].
  intros a b Ha Hb E. destruct (Ch a Ha) as [Ca Na]. destruct (Ch b Hb) as [Cb Nb].
  unfold at_cwd in E. rewrite (join_rel a Ca Na), (join_rel b Cb Nb) in E.
  apply app_inv_head in E. apply app_inv_head in E. exact (join_inj a b Ca Na Cb Nb E).
Qed.

(* ------------------------------------------------------------------ data.file.input_file of the built tree *)
Lemma build_input d uroot : forall t anc q nd,
  lookup_path q (build d uroot anc t) = Some nd -> a_type (node_attr nd) = FReg ->
  a_input (node_attr nd) = Some (location uroot (anc ++ [dname t] ++ q)).
Proof.
  induction t as [nm mode uid gid tg dev cs IH] using dnode_ind'. intros anc q nd L T. destruct q as [|c q].
  - cbn [lookup_path] in L. injection L as <-. cbn [build node_attr new_attr a_type a_input dname] in *.
    rewrite T. cbn [ftype_eqb]. rewrite app_nil_r. reflexivity.
  - cbn [build] in L. rewrite lookup_cons in L. cbn [new_attr a_type] in L.
    destruct (ftype_eqb (mode_ftype mode) FDir); [|discriminate]. cbn [negb] in L.
    destruct (find_child c (map (build d uroot (anc ++ [nm])) cs)) as [x|] eqn:F; [|discriminate].
    pose proof (find_child_name _ _ _ F) as Nx. apply find_child_in in F. apply in_map_iff in F.
    destruct F as (t0 & <- & Ht0). rewrite build_name in Nx. rewrite Forall_forall in IH.
    rewrite (IH t0 Ht0 (anc ++ [nm]) q nd L T), Nx. cbn [dname]. rewrite <- app_assoc. reflexivity.
Qed.

Lemma build_root_input d uroot t q nd :
  lookup_path q (build_root d uroot t) = Some nd -> a_type (node_attr nd) = FReg ->
  a_input (node_attr nd) = Some (location uroot q).
Proof.
  destruct t as [nm mode uid gid tg dev cs]. intros L T. destruct q as [|c q].
  - cbn [lookup_path] in L. injection L as <-. cbn in T. discriminate.
  - cbn [build_root] in L. rewrite lookup_cons in L. cbn [a_type ftype_eqb negb] in L.
    destruct (find_child c (map (build d uroot []) cs)) as [x|] eqn:F; [|discriminate].
    pose proof (find_child_name _ _ _ F) as Nx. apply find_child_in in F. apply in_map_iff in F.
    destruct F as (t0 & <- & Ht0). rewrite build_name in Nx.
    rewrite (build_input d uroot t0 [] q nd L T), Nx. reflexivity.
Qed.

(* ------------------------------------------------------------------ the metadata comparison at the root
   (the last step of RepackProofs.describe_repack_same_tree_l, as a lemma) *)
Lemma compare_root bs d uroot fb xa v ents :
  lt_okb (LT v ents) = true -> RoundTripSpec.wf_root (describe_input [] (LT v ents)) ->
  (forall q nd, lookup_path q (build_root d uroot (describe_input [] (LT v ents))) = Some nd ->
                a_type (node_attr nd) = FReg -> file_body_okb bs (fb q) = true) ->
  map ev3 (flat_nl fb xa [] (build_root d uroot (describe_input [] (LT v ents)))) = map entry_view (flat_lt [] (LT v ents)).
Proof.
  intros Hok Hwf Hfiles.
  destruct (root_facts v ents Hok Hwf) as (Hs & Hrw & Hwn & (p & Hp & Hm & Hl) & (par & Hkind)).
  set (t16 := describe_input [] (LT v ents)) in *.
  set (R := build_root d uroot t16) in *.
  assert (SR : snames R) by (apply build_root_snames; assumption).
  unfold R, t16. rewrite describe_input_unfold. cbn [build_root flat_nl flat_lt map a_type ftype_eqb]. f_equal.
  - unfold ev3, entry_view, pview_of_node, pview_of_lview.
    cbn [node_attr a_type a_perm a_uid a_gid pv_mode pv_uid pv_gid pv_kind type_bits].
    destruct (lt_okb_inv _ _ Hok) as (_ & Hu1 & Hg1 & _ & _).
    rewrite (is_some_opt0 _ Hu1), (is_some_opt0 _ Hg1), Hl, Hkind. cbn [strip_kind ekind_of]. rewrite Hm. reflexivity.
  - rewrite !concat_map, !map_map. f_equal. unfold dkids. rewrite map_map.
    apply map_ext_in. intros [n s] Hin'.
    assert (Dn' : dname (describe_input n s) = n) by (destruct s; reflexivity).
    rewrite build_name, Dn'.
    destruct (lt_okb_inv _ _ Hok) as (_ & _ & _ & _ & Hch). rewrite Forall_forall in Hch, Hwn.
    assert (Hin2 : In (describe_input n s) (dkids ents)).
    { unfold dkids. apply in_map_iff. exists (n, s). split; [reflexivity|exact Hin']. }
    apply (compare_subtree bs d uroot fb xa R Hfiles SR s n [] (Hch _ Hin') (Hwn _ Hin2)).
    set (c := build d uroot [] (describe_input n s)).
    assert (Nc : node_name c = n) by (unfold c; rewrite build_name; exact Dn').
    assert (Lc : lookup_path ([] ++ [node_name c]) R = Some c).
    { apply (lookup_app1 [] R R c eq_refl); [reflexivity|].
      unfold R, t16. rewrite describe_input_unfold. cbn [build_root node_children]. apply find_child_of_in.
      - destruct (snames_inv _ _ _ SR) as [Sn1 _]. apply sorted_names_nodup.
        unfold R, t16 in SR. rewrite describe_input_unfold in SR. cbn [build_root] in SR.
        destruct (snames_inv _ _ _ SR) as [Sn2 _]. exact Sn2.
      - apply in_map. exact Hin2. }
    rewrite Nc in Lc. exact Lc.
Qed.

(* ------------------------------------------------------------------ small list facts *)
Lemma flat_nl_id fb xa : forall n p, Forall (fun x : path * pview * path => snd x = fst (fst x)) (flat_nl fb xa p n).
Proof.
  induction n as [nm a ch IH] using tnode_ind'. intro p. cbn [flat_nl]. constructor; [reflexivity|].
  destruct (ftype_eqb (a_type a) FDir); [|constructor].
  apply Forall_forall. intros x Hx. apply in_concat in Hx. destruct Hx as (l & Hl & Hx).
  apply in_map_iff in Hl. destruct Hl as (c & <- & Hc). rewrite Forall_forall in IH.
  pose proof (IH c Hc (p ++ [node_name c])) as F. rewrite Forall_forall in F. exact (F x Hx).
Qed.

Lemma Forall2_in_r {A B} (P : A -> B -> Prop) l1 l2 : Forall2 P l1 l2 -> forall b, In b l2 -> exists a, In a l1 /\ P a b.
Proof.
  induction 1 as [|a b l1 l2 H _ IH]; intros b0 Hb; [destruct Hb|].
  destruct Hb as [<-|Hb]; [exists a; split; [left; reflexivity|exact H]|].
  destruct (IH b0 Hb) as (a0 & Ha & Pa). exists a0. split; [right; exact Ha|exact Pa].
Qed.

Lemma map_eq_in_l {A B C} (f : A -> C) (g : B -> C) : forall l1 l2, map f l1 = map g l2 ->
  forall a, In a l1 -> exists b, In b l2 /\ f a = g b.
Proof.
  induction l1 as [|x l1 IH]; intros l2 E a Ha; [destruct Ha|]. destruct l2 as [|y l2]; [discriminate|].
  cbn [map] in E. injection E as E1 E2. destruct Ha as [<-|Ha]; [exists y; split; [left; reflexivity|exact E1]|].
  destruct (IH l2 E2 a Ha) as (b & Hb & Eb). exists b. split; [right; exact Hb|exact Eb].
Qed.

Definition rtriple (e : rentry) : path * pview * N := (re_path e, re_view e, re_ino e).

Lemma matches_views pi root arr : forall fl out, Forall2 (entry_matches pi root arr) fl out ->
  map (fun e => entry_view (rtriple e)) out = map ev3 fl.
Proof.
  induction 1 as [|x e fl out H _ IH]; [reflexivity|]. cbn [map]. rewrite IH. f_equal.
  destruct x as [[p v] id]. destruct H as (E1 & E2 & _). unfold rtriple, entry_view, ev3. rewrite E1, E2. reflexivity.
Qed.

Lemma run_calls_log : forall cs st,
  ParseModel.run_calls (list ParseModel.call) log_call st cs = (st ++ cs, None).
Proof.
  induction cs as [|c r IH]; intro st; cbn [ParseModel.run_calls log_call]; [rewrite app_nil_r; reflexivity|].
  rewrite IH, <- app_assoc. reflexivity.
Qed.

(* ------------------------------------------------------------------ the theorem *)
Section Main.
  Variable hashf : list N -> N.
  Variable dcompress : list N -> option (list N).
  Variable duncompress : list N -> nat -> option (list N).
  Hypothesis Hdcomp : forall b c, dcompress b = Some c ->
    (length c < length b)%nat /\ forall n, (length b <= n)%nat -> duncompress c n = Some b.
  Variable mcompress : list N -> Common.cres.
  Variable muncompress : list N -> option (list N).
  Hypothesis Hmcomp : forall b c, mcompress b = Common.CData c -> Common.lenN c <= Common.lenN b /\ muncompress c = Some b.
  Variable uc : list N -> N -> RBase.res (list N).
  Hypothesis uc_ok : uc_meets muncompress uc.
  Variable limit : N.
  Hypothesis Hlimit : limit <= 65535.

  Theorem describe_repack_contents_l :
    forall half cfg d uroot lt (data : path -> list N) pcwd udir flags xattrs opts sched r,
    lt_okb lt = true -> RoundTripSpec.wf_root (describe_input [] lt) -> RoundTripSpec.uroot_ok uroot ->
    same_place uroot pcwd udir ->
    let host := unpack_host udir lt data in
    let listing := fst (DescribeModel.describe uroot (describe_input [] lt)) in
    let pi := repack_input d listing host pcwd flags xattrs opts sched in
    pack_all hashf dcompress duncompress half mcompress limit cfg pi = PDone r ->
    e2e_okb half cfg pi r = true ->
    forall depth efuel fuel,
    (e2e_depth r <= depth)%nat -> (e2e_efuel r <= efuel)%nat -> (e2e_fuel r <= fuel)%nat ->
    exists out,
      snd (DescribeModel.describe uroot (describe_input [] lt)) = true /\
      listing_calls listing = Some (RoundTripSpec.root_calls uroot (describe_input [] lt)) /\
      read_all uc muncompress duncompress (image_bytes (r_w r)) depth efuel fuel = RBase.Ok out /\
      map (fun e => entry_view (rtriple e)) out = map entry_view (flat_lt [] lt) /\
      (forall e, In e out -> ekind_of (pv_kind (re_view e)) = EFile ->
                 In (re_path e) (file_paths lt) /\ re_data e = Some (data (re_path e))) /\
      (forall e, In e out -> ekind_of (pv_kind (re_view e)) <> EFile -> re_data e = None) /\
      (forall q, In q (file_paths lt) -> exists e, In e out /\ re_path e = q /\ re_data e = Some (data q)).
  Proof.
    intros half cfg d uroot [v ents] data pcwd udir flags xattrs opts sched r Hok Hwf Hu Hsp host listing pi Hp Hhyp
           depth efuel fuel D E F.
    destruct (root_facts v ents Hok Hwf) as (Hs & Hrw & Hwn & _ & _).
    set (t16 := describe_input [] (LT v ents)) in *.
    pose proof (replay_root d uroot t16 Hwf Hs Hrw) as Rp.
    set (R := build_root d uroot t16) in *.
    pose proof (run_calls_adds d _ _ _ Rp) as Hrun.
    (* the listing *)
    destruct (RoundTripProofs.describe_parse_rt_l (list ParseModel.call) log_call uroot t16 Hwf Hu) as (o & D1 & D2).
    assert (Hl : listing = o) by (unfold listing; fold t16; rewrite D1; reflexivity).
    assert (Hlc : listing_calls listing = Some (RoundTripSpec.root_calls uroot t16)).
    { rewrite Hl. unfold listing_calls. rewrite (D2 []), run_calls_log. reflexivity. }
    assert (Hops : listing_ops d listing = calls_ops d (RoundTripSpec.root_calls uroot t16)).
    { unfold listing_ops. rewrite Hlc. reflexivity. }
    (* the run *)
    destruct (pack_all_inv _ _ _ _ _ _ _ _ _ Hp) as (s0 & w0 & _ & Hadds & Hpost & _).
    change (pi_defaults pi) with d in Hadds.
    change (pi_ops pi) with (listing_ops d listing) in Hadds.
    rewrite Hops, Hrun in Hadds. injection Hadds as Hfs.
    assert (Hcont : pi_contents pi = host_contents host pcwd R flags).
    { unfold pi, repack_input. cbn [pi_contents]. rewrite Hops, Hrun. reflexivity. }
    destruct (post_nolinks R) as (arr0 & Epost). rewrite <- Hfs in Hpost. rewrite Epost in Hpost. injection Hpost as Hpp.
    pose proof (attached hashf dcompress duncompress Hdcomp half mcompress muncompress Hmcomp limit Hlimit cfg pi r Hp Hhyp)
      as Hatt.
    destruct (pack_all_reads_back_l hashf dcompress duncompress Hdcomp mcompress muncompress Hmcomp uc uc_ok limit Hlimit
                half cfg pi r Hp Hhyp depth efuel fuel D E F) as (T & fl & out & _ & Dn & _ & _ & _ & Ro & Mo & _).
    rewrite <- Hfs in Dn, Mo. cbn [fs_root] in Dn, Mo.
    set (fb := fb_of (N.to_nat (c_block_size cfg)) (r_st r) (pi_contents pi) (pp_files (r_pp r))) in *.
    set (xa := xa_of (xattr_paths (r_pp r)) (r_idxs r)) in *.
    set (arr := pp_inodes (r_pp r)) in *.
    assert (SR : snames R) by (apply build_root_snames; assumption).
    pose proof (denotes_nl fb xa R fl SR (build_root_nohl d uroot t16) Dn) as Efl.
    assert (Hfiles : forall q nd, lookup_path q R = Some nd -> a_type (node_attr nd) = FReg ->
                                  file_body_okb (c_block_size cfg) (fb q) = true).
    { intros q nd L Ty. unfold attached_okb in Hatt. apply andb_true_iff in Hatt. destruct Hatt as [Af _].
      rewrite forallb_forall in Af. apply Af. rewrite <- Hpp. cbn [pp_files].
      apply (file_list_complete q (decorate (mkRs [] []) [] R) [] (decorate (mkRs [] []) q nd)).
      - rewrite lookup_decorate, L. reflexivity.
      - rewrite decorate_type. exact Ty. }
    pose proof (compare_root (c_block_size cfg) d uroot fb xa v ents Hok Hwf Hfiles) as Cmp.
    fold t16 in Cmp. fold R in Cmp. rewrite <- Efl in Cmp.
    pose proof (matches_views pi R arr fl out Mo) as Vw. rewrite Cmp in Vw.
    (* per entry: the node, its type and what was read *)
    assert (Node : forall e, In e out -> exists nd,
              lookup_path (re_path e) R = Some nd /\ re_view e = pview_of_node fb xa (re_path e) nd /\
              re_data e = match a_type (node_attr nd) with
                          | FReg => Some (snd (pi_contents pi (re_path e))) | _ => None end).
    { intros e He. destruct (Forall2_in_r _ _ _ Mo e He) as ([[p vv] id] & Hx & Hm).
      assert (Eid : id = p).
      { pose proof (flat_nl_id fb xa R []) as Fi. rewrite <- Efl in Fi. rewrite Forall_forall in Fi. exact (Fi _ Hx). }
      subst id. destruct Hm as (E1 & E2 & _ & (nd & L & Dd) & _).
      destruct Dn as [_ Dn2]. rewrite Forall_forall in Dn2. destruct (Dn2 _ Hx) as (_ & nd' & L' & Ev).
      rewrite L in L'. injection L' as <-. exists nd. rewrite E1, E2. repeat split; assumption. }
    assert (Kind : forall e nd, re_view e = pview_of_node fb xa (re_path e) nd -> lookup_path (re_path e) R = Some nd ->
              (ekind_of (pv_kind (re_view e)) = EFile <-> a_type (node_attr nd) = FReg)).
    { intros e nd Ev L. rewrite Ev. unfold pview_of_node. cbn [pv_kind].
      destruct (a_type (node_attr nd)) eqn:Ty; cbn [ekind_of]; try (split; intro; discriminate).
      split; [reflexivity|]. intros _. apply (file_kind (c_block_size cfg)). exact (Hfiles _ _ L Ty). }
    assert (Files : forall e, In e out -> ekind_of (pv_kind (re_view e)) = EFile ->
              In (re_path e) (file_paths (LT v ents)) /\ re_data e = Some (data (re_path e))).
    { intros e He Hk. destruct (Node e He) as (nd & L & Ev & Dd).
      pose proof (proj1 (Kind e nd Ev L) Hk) as Ty. rewrite Ty in Dd.
      assert (Hin : In (re_path e) (file_paths (LT v ents))).
      { destruct (map_eq_in_l _ _ _ _ Vw e He) as ([[p' v'] i'] & Hy & Ey).
        unfold rtriple, entry_view in Ey. injection Ey as Ep _ _ _ Ek. rewrite Hk in Ek.
        unfold file_paths. apply in_map_iff. exists (p', v', i'). split; [symmetry; exact Ep|].
        apply filter_In. split; [exact Hy|]. cbn [fst snd]. destruct (pv_kind v'); try discriminate. reflexivity. }
      split; [exact Hin|]. rewrite Dd, Hcont. unfold host_contents. cbn [snd]. unfold input_path. rewrite L.
      rewrite (build_root_input d uroot t16 _ nd L Ty).
      unfold host. rewrite (location_resolves_l uroot pcwd udir (LT v ents) data Hok Hwf Hsp _ Hin). reflexivity. }
    exists out. split; [fold t16; rewrite D1; reflexivity|]. split; [exact Hlc|].
    split; [exact Ro|]. split; [exact Vw|]. split; [exact Files|]. split.
    - intros e He Hk. destruct (Node e He) as (nd & L & Ev & Dd). rewrite Dd.
      destruct (a_type (node_attr nd)) eqn:Ty; try reflexivity.
      exfalso. apply Hk. apply (Kind e nd Ev L). exact Ty.
    - intros q Hq. unfold file_paths in Hq. apply in_map_iff in Hq. destruct Hq as ([[p' v'] i'] & <- & Hy).
      apply filter_In in Hy. destruct Hy as [Hy Hk]. cbn [fst snd] in *.
      destruct (map_eq_in_l _ _ _ _ (eq_sym Vw) _ Hy) as (e & He & Ee).
      unfold rtriple, entry_view in Ee. injection Ee as Ep _ _ _ Ek.
      assert (Hke : ekind_of (pv_kind (re_view e)) = EFile).
      { rewrite <- Ek. destruct (pv_kind v'); try discriminate. reflexivity. }
      destruct (Files e He Hke) as [_ Dd]. exists e. split; [exact He|]. split; [symmetry; exact Ep|].
      rewrite Dd, <- Ep. reflexivity.
  Qed.
End Main.

(* ------------------------------------------------------------------ the statements of Properties_C16.v *)
Lemma location_resolves_p : forall uroot cwd_u unp cwd_g opt_D infile pcwd lt data,
  lt_okb lt = true -> RoundTripSpec.wf_root (describe_input [] lt) ->
  gens_dir cwd_g opt_D infile = Some pcwd -> same_place uroot pcwd (unpack_dir cwd_u unp) ->
  forall q, In q (file_paths lt) ->
    host_read (unpack_host (unpack_dir cwd_u unp) lt data) (at_cwd pcwd (location uroot q)) = Some (data q).
Proof.
  intros uroot cwd_u unp cwd_g opt_D infile pcwd lt data Hok Hwf _ S. exact (location_resolves_l uroot pcwd _ lt data Hok Hwf S).
Qed.

Lemma describe_repack_contents_p :
  forall (hashf : list N -> N)
         (dcompress : list N -> option (list N)) (duncompress : list N -> nat -> option (list N)),
  (forall b c, dcompress b = Some c ->
     (length c < length b)%nat /\ forall n, (length b <= n)%nat -> duncompress c n = Some b) ->
  forall compress uncompress,
  (forall b c, compress b = Common.CData c -> Common.lenN c <= Common.lenN b /\ uncompress c = Some b) ->
  forall uc, uc_meets uncompress uc ->
  forall limit, limit <= 65535 ->
  forall half cfg d uroot lt (data : path -> list N) (cwd_u : list N) (unp : option (list N)) (cwd_g : list N)
         (opt_D : option (list N)) (infile pcwd : list N) flags xattrs opts sched r,
  lt_okb lt = true -> RoundTripSpec.wf_root (describe_input [] lt) -> RoundTripSpec.uroot_ok uroot ->
  gens_dir cwd_g opt_D infile = Some pcwd -> same_place uroot pcwd (unpack_dir cwd_u unp) ->
  let host := unpack_host (unpack_dir cwd_u unp) lt data in
  let listing := fst (DescribeModel.describe uroot (describe_input [] lt)) in
  let pi := repack_input d listing host pcwd flags xattrs opts sched in
  pack_all hashf dcompress duncompress half compress limit cfg pi = PDone r ->
  e2e_okb half cfg pi r = true ->
  forall depth efuel fuel,
  (e2e_depth r <= depth)%nat -> (e2e_efuel r <= efuel)%nat -> (e2e_fuel r <= fuel)%nat ->
  exists out,
    snd (DescribeModel.describe uroot (describe_input [] lt)) = true /\
    listing_calls listing = Some (RoundTripSpec.root_calls uroot (describe_input [] lt)) /\
    read_all uc uncompress duncompress (image_bytes (r_w r)) depth efuel fuel = RBase.Ok out /\
    map (fun e => entry_view (re_path e, re_view e, re_ino e)) out = map entry_view (flat_lt [] lt) /\
    (forall e, In e out -> ekind_of (pv_kind (re_view e)) = EFile ->
               In (re_path e) (file_paths lt) /\ re_data e = Some (data (re_path e))) /\
    (forall e, In e out -> ekind_of (pv_kind (re_view e)) <> EFile -> re_data e = None) /\
    (forall q, In q (file_paths lt) -> exists e, In e out /\ re_path e = q /\ re_data e = Some (data q)).
Proof.
  intros hashf dc du Hd c u Hm uc Hu limit Hl half cfg d uroot lt data cwd_u unp cwd_g opt_D infile pcwd flags xattrs opts
         sched r Hok Hwf Hur _ S host listing pi Hp He depth efuel fuel D E F.
  exact (describe_repack_contents_l hashf dc du Hd c u Hm uc Hu limit Hl half cfg d uroot lt data pcwd _ flags xattrs opts
           sched r Hok Hwf Hur S Hp He depth efuel fuel D E F).
Qed.
