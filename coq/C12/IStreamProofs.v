(* C12 — proofs about the buffered input stream (istream.c), the generic process theorem and the
   stream_api.c loops. *)
From Coq Require Import List NArith ZArith Bool Lia.
From SqfsV Require Import Gen.Constants C12.ListN C12.IoModel C12.RetryProofs.
Import ListNotations.
Local Open Scope N_scope.

Definition fail_rec (r : sysrec) : bool := match snd r with Fail => true | _ => false end.
Definition zero_rec (r : sysrec) : bool := match snd r with Zero => true | _ => false end.
Definition has_fail (t : list sysrec) : bool := existsb fail_rec t.
Definition has_zero (t : list sysrec) : bool := existsb zero_rec t.

Lemma has_fail_app a b : has_fail (a ++ b) = has_fail a || has_fail b.
Proof. apply existsb_app. Qed.
Lemma has_zero_app a b : has_zero (a ++ b) = has_zero a || has_zero b.
Proof. apply existsb_app. Qed.

(* ------------------------------------------------------------------ *)
(* refill under benign outcome streams: a function of the source only  *)
(* ------------------------------------------------------------------ *)

Lemma refill_spec bufsz : forall outs used src,
  benign outs ->
  exists t rest,
    refill bufsz used src outs
      = (Ok tt, takeN (bufsz - used) src, lenN src <? bufsz - used, dropN (bufsz - used) src, t, rest)
    /\ benign rest /\ (outs = [] -> rest = []).
Proof.
  induction outs as [|o outs IH]; intros used src Hb; cbn [refill].
  - destruct (N.leb_spec bufsz used) as [Hu|Hu].
    + replace (bufsz - used) with 0 by lia. rewrite takeN_0, dropN_0.
      replace (lenN src <? 0) with false by (symmetry; apply N.ltb_ge; lia).
      eexists _, _. split; [reflexivity|]. split; [constructor|reflexivity].
    + set (req := bufsz - used). remember (takeN req src) as d eqn:Hd.
      assert (Ld : lenN d = N.min req (lenN src)) by (subst d; apply lenN_takeN).
      destruct (N.eqb_spec (lenN d) req) as [E|E].
      * replace (lenN src <? req) with false by (symmetry; apply N.ltb_ge; lia).
        eexists _, _. split; [reflexivity|]. split; [constructor|reflexivity].
      * replace (lenN src <? req) with true by (symmetry; apply N.ltb_lt; lia).
        destruct (N.eqb_spec (lenN d) 0) as [E0|E0].
        -- assert (src = []) by (apply lenN_zero; unfold req in *; lia). subst src.
           rewrite (lenN_zero _ E0). rewrite dropN_nil.
           eexists _, _. split; [reflexivity|]. split; [constructor|reflexivity].
        -- eexists _, _. split; [reflexivity|]. split; [constructor|reflexivity].
  - pose proof (benign_head _ _ Hb) as Ho. pose proof (benign_tail _ _ Hb) as Hb'.
    destruct (N.leb_spec bufsz used) as [Hu|Hu].
    + replace (bufsz - used) with 0 by lia. rewrite takeN_0, dropN_0.
      replace (lenN src <? 0) with false by (symmetry; apply N.ltb_ge; lia).
      eexists _, _. split; [reflexivity|]. split; [exact Hb|discriminate].
    + set (req := bufsz - used). assert (Hreq : 0 < req) by (unfold req; lia).
      destruct o; try discriminate Ho.
      * pose proof (xfer_count_bounds n req Hreq) as [K1 K2].
        set (k := xfer_count n req) in *. remember (takeN k src) as d eqn:Hd.
        assert (Ld : lenN d = N.min k (lenN src)) by (subst d; apply lenN_takeN).
        destruct (N.eqb_spec (lenN d) 0) as [E0|E0].
        -- assert (src = []) by (apply lenN_zero; lia). subst src.
           rewrite takeN_nil, dropN_nil. replace (lenN (@nil N) <? req) with true by (symmetry; apply N.ltb_lt; cbn; lia).
           eexists _, _. split; [reflexivity|]. split; [exact Hb'|discriminate].
        -- destruct (IH (used + lenN d) (dropN k src) Hb') as (t & rest & E & Hr & _).
           rewrite E.
           replace (bufsz - (used + lenN d)) with (req - lenN d) by (unfold req; lia).
           assert (DK : dropN k src = dropN (lenN d) src) by (subst d; symmetry; apply dropN_lenN_takeN).
           assert (TS : d ++ takeN (req - lenN d) (dropN k src) = takeN req src).
           { rewrite DK. subst d. apply take_split. exact K2. }
           rewrite TS.
           assert (DS : dropN (req - lenN d) (dropN k src) = dropN req src).
           { rewrite dropN_dropN. destruct (N.le_gt_cases k (lenN src)) as [H|H].
             - f_equal. lia.
             - rewrite !dropN_all by lia. reflexivity. }
           rewrite DS.
           assert (EF : (lenN (dropN k src) <? req - lenN d) = (lenN src <? req)).
           { rewrite lenN_dropN. apply eq_true_iff_eq. rewrite !N.ltb_lt. lia. }
           rewrite EF.
           eexists _, _. split; [reflexivity|]. split; [exact Hr|discriminate].
      * destruct (IH used src Hb') as (t & rest & E & Hr & _). rewrite E.
        eexists _, _. split; [reflexivity|]. split; [exact Hr|discriminate].
Qed.

(* ------------------------------------------------------------------ *)
(* chunk freedom as a property of a call                                *)
(* ------------------------------------------------------------------ *)

(* [f] = an operation with everything but the outcome stream fixed.  Its value part (result,
   new state) under any benign stream is the value under the empty stream, i.e. when every call
   completes in full. *)
Definition chunk_free {X : Type} (f : list outcome -> X * list sysrec * list outcome) : Prop :=
  forall outs, benign outs ->
  exists x t t0 rest, f outs = (x, t, rest) /\ f [] = (x, t0, []) /\ benign rest.

Lemma spec_chunk_free {X} (f : list outcome -> X * list sysrec * list outcome) (x : X) :
  (forall outs, benign outs ->
     exists t rest, f outs = (x, t, rest) /\ benign rest /\ (outs = [] -> rest = [])) ->
  chunk_free f.
Proof.
  intros H outs Hb. destruct (H outs Hb) as (t & rest & E & Hr & _).
  destruct (H [] benign_nil) as (t0 & rest0 & E0 & _ & Hn). rewrite (Hn eq_refl) in E0.
  exists x, t, t0, rest. auto.
Qed.

Lemma refill_chunk_free bufsz used src : chunk_free (refill bufsz used src).
Proof.
  eapply spec_chunk_free. intros outs Hb.
  destruct (refill_spec bufsz outs used src Hb) as (t & rest & E & H). rewrite E.
  eexists _, _. split; [reflexivity|exact H].
Qed.

Lemma precache_chunk_free bufsz st src : chunk_free (precache bufsz st src).
Proof.
  intros outs Hb. unfold precache. destruct (i_eof st).
  - eexists _, _, _, _. split; [reflexivity|]. split; [reflexivity|exact Hb].
  - destruct (refill_chunk_free bufsz (lenN (i_buf st) - i_off st) src outs Hb)
      as (x & t & t0 & rest & E & E0 & Hr).
    rewrite E, E0. destruct x as [[[r g] e] s].
    eexists _, _, _, _. split; [reflexivity|]. split; [reflexivity|exact Hr].
Qed.

Lemma gbd_chunk_free bufsz st src want : chunk_free (get_buffered_data bufsz st src want).
Proof.
  intros outs Hb. unfold get_buffered_data.
  destruct ((lenN (i_buf st) =? 0) || (lenN (i_buf st) - i_off st <? (if bufsz <? want then bufsz else want))).
  - destruct (precache_chunk_free bufsz st src outs Hb) as (x & t & t0 & rest & E & E0 & Hr).
    rewrite E, E0. destruct x as [[r st'] src']. destruct r.
    + eexists _, _, _, _. split; [reflexivity|]. split; [reflexivity|exact Hr].
    + eexists _, _, _, _. split; [reflexivity|]. split; [reflexivity|exact Hr].
  - eexists _, _, _, _. split; [reflexivity|]. split; [reflexivity|exact Hb].
Qed.

Lemma read_at_chunk_free_l f off size : chunk_free (read_at f off size).
Proof. eapply spec_chunk_free. intros outs Hb. apply read_at_spec. exact Hb. Qed.

Lemma write_at_chunk_free_l f off data : chunk_free (write_at f off data).
Proof.
  eapply spec_chunk_free. intros outs Hb.
  destruct (write_at_spec f off data outs Hb) as (t & rest & E & H). rewrite E.
  eexists _, _. split; [reflexivity|exact H].
Qed.

Lemma truncate_chunk_free_l f len : chunk_free (truncate_file f len).
Proof.
  eapply spec_chunk_free. intros outs Hb.
  destruct (truncate_file_spec f len outs Hb) as (t & rest & E & H). rewrite E.
  eexists _, _. split; [reflexivity|exact H].
Qed.

Lemma append_chunk_free_l zchunk o d n : 0 < zchunk -> chunk_free (ostream_append zchunk o d n).
Proof.
  intro Hz. eapply spec_chunk_free. intros outs Hb.
  destruct (ostream_append_spec zchunk o d n outs Hz Hb) as (t & rest & E & H). rewrite E.
  eexists _, _. split; [reflexivity|exact H].
Qed.

Lemma flush_chunk_free_l zchunk o : 0 < zchunk -> chunk_free (ostream_flush zchunk o).
Proof.
  intro Hz. eapply spec_chunk_free. intros outs Hb. unfold ostream_flush.
  destruct (realize_sparse_spec zchunk o outs Hz Hb) as (t & rest & E & H). rewrite E.
  eexists _, _. split; [reflexivity|exact H].
Qed.

(* ------------------------------------------------------------------ *)
(* every process is chunk free                                          *)
(* ------------------------------------------------------------------ *)

Theorem run_chunk_free bufsz zchunk : 0 < zchunk ->
  forall (R : Type) (c : client R) (w : world), chunk_free (run bufsz zchunk c w).
Proof.
  intros Hz R c. induction c as [r|want k IH|n k IH|d n k IH|k IH|off size k IH|off d k IH|len k IH|k IH];
    intros w outs Hb; cbn [run].
  - eexists _, _, _, _. split; [reflexivity|]. split; [reflexivity|exact Hb].
  - destruct (gbd_chunk_free bufsz (w_in w) (w_src w) want outs Hb) as (x & t & t0 & rest & E & E0 & Hr).
    rewrite E, E0. destruct x as [[g st'] src'].
    destruct (IH g {| w_in := st'; w_src := src'; w_out := w_out w; w_file := w_file w |} rest Hr)
      as (x2 & t2 & t02 & rest2 & E2 & E02 & Hr2).
    rewrite E2, E02. destruct x2 as [r2 w2].
    eexists _, _, _, _. split; [reflexivity|]. split; [reflexivity|exact Hr2].
  - apply IH. exact Hb.
  - destruct (append_chunk_free_l zchunk (w_out w) d n Hz outs Hb) as (x & t & t0 & rest & E & E0 & Hr).
    rewrite E, E0. destruct x as [x o'].
    destruct (IH x {| w_in := w_in w; w_src := w_src w; w_out := o'; w_file := w_file w |} rest Hr)
      as (x2 & t2 & t02 & rest2 & E2 & E02 & Hr2).
    rewrite E2, E02. destruct x2 as [r2 w2].
    eexists _, _, _, _. split; [reflexivity|]. split; [reflexivity|exact Hr2].
  - destruct (flush_chunk_free_l zchunk (w_out w) Hz outs Hb) as (x & t & t0 & rest & E & E0 & Hr).
    rewrite E, E0. destruct x as [x o'].
    destruct (IH x {| w_in := w_in w; w_src := w_src w; w_out := o'; w_file := w_file w |} rest Hr)
      as (x2 & t2 & t02 & rest2 & E2 & E02 & Hr2).
    rewrite E2, E02. destruct x2 as [r2 w2].
    eexists _, _, _, _. split; [reflexivity|]. split; [reflexivity|exact Hr2].
  - destruct (read_at_chunk_free_l (w_file w) off size outs Hb) as (x & t & t0 & rest & E & E0 & Hr).
    rewrite E, E0.
    destruct (IH x w rest Hr) as (x2 & t2 & t02 & rest2 & E2 & E02 & Hr2).
    rewrite E2, E02. destruct x2 as [r2 w2].
    eexists _, _, _, _. split; [reflexivity|]. split; [reflexivity|exact Hr2].
  - destruct (write_at_chunk_free_l (w_file w) off d outs Hb) as (x & t & t0 & rest & E & E0 & Hr).
    rewrite E, E0. destruct x as [x f'].
    destruct (IH x {| w_in := w_in w; w_src := w_src w; w_out := w_out w; w_file := f' |} rest Hr)
      as (x2 & t2 & t02 & rest2 & E2 & E02 & Hr2).
    rewrite E2, E02. destruct x2 as [r2 w2].
    eexists _, _, _, _. split; [reflexivity|]. split; [reflexivity|exact Hr2].
  - destruct (truncate_chunk_free_l (w_file w) len outs Hb) as (x & t & t0 & rest & E & E0 & Hr).
    rewrite E, E0. destruct x as [x f'].
    destruct (IH x {| w_in := w_in w; w_src := w_src w; w_out := w_out w; w_file := f' |} rest Hr)
      as (x2 & t2 & t02 & rest2 & E2 & E02 & Hr2).
    rewrite E2, E02. destruct x2 as [r2 w2].
    eexists _, _, _, _. split; [reflexivity|]. split; [reflexivity|exact Hr2].
  - apply IH. exact Hb.
Qed.

(* operation lists: the results printed by the model driver, one by one *)
Lemma run_ops_chunk_free bufsz zchunk fuel : 0 < zchunk ->
  forall ops w outs, benign outs ->
  exists xs xs0 w' rest,
    run_ops bufsz zchunk fuel ops w outs = (xs, w', rest) /\
    run_ops bufsz zchunk fuel ops w [] = (xs0, w', []) /\
    map fst xs = map fst xs0 /\ benign rest.
Proof.
  intro Hz. induction ops as [|o ops IH]; intros w outs Hb; cbn [run_ops].
  - exists [], [], w, outs. auto.
  - destruct (run_chunk_free bufsz zchunk Hz _ (op_client fuel o) w outs Hb)
      as (x & t & t0 & rest & E & E0 & Hr).
    rewrite E, E0. destruct x as [x w1].
    destruct (IH w1 rest Hr) as (xs & xs0 & w' & rest2 & E2 & E02 & Hm & Hr2).
    rewrite E2, E02. eexists _, _, _, _. split; [reflexivity|]. split; [reflexivity|].
    split; [cbn; f_equal; exact Hm|exact Hr2].
Qed.

(* ------------------------------------------------------------------ *)
(* refill under *every* outcome stream                                  *)
(* ------------------------------------------------------------------ *)

Definition benign_rec (r : sysrec) : bool := benign_outcome (snd r).
Definition trace_benign (t : list sysrec) : Prop := Forall (fun r => benign_rec r = true) t.

Lemma trace_benign_no_fail t : trace_benign t -> has_fail t = false /\ has_zero t = false.
Proof.
  induction 1 as [|r t Hr _ [IH1 IH2]]; [split; reflexivity|].
  unfold has_fail, has_zero in *. cbn [existsb]. rewrite IH1, IH2.
  unfold benign_rec, fail_rec, zero_rec in *. destruct (snd r); try discriminate; split; reflexivity.
Qed.

Lemma trace_benign_app a b : trace_benign a -> trace_benign b -> trace_benign (a ++ b).
Proof. intros Ha Hb. apply Forall_app. split; assumption. Qed.

Ltac fin :=
  repeat split; try discriminate; try lia; auto;
  try solve [unfold trace_benign; repeat constructor];
  try solve [eapply benign_tail; eassumption];
  try solve [match goal with H : benign (_ :: _) |- _ => apply benign_head in H; discriminate H end].

Lemma refill_any bufsz : forall outs used src r g e s t rest,
  refill bufsz used src outs = (r, g, e, s, t, rest) ->
  src = g ++ s /\
  used + lenN g <= N.max used bufsz /\
  (has_fail t = is_err r) /\
  (has_zero t = false -> e = true -> s = []) /\
  (e = false -> is_err r = false -> bufsz <= used + lenN g) /\
  (is_err r = true -> e = false /\ r = Err e_io) /\
  lenN t <= (bufsz - used) + eintr_count t + 1 /\
  (benign outs -> trace_benign t /\ benign rest).
Proof.
  induction outs as [|o outs IH]; intros used src r g e s t rest; cbn [refill].
  - destruct (N.leb_spec bufsz used) as [Hu|Hu].
    + intro E; inversion E; subst. cbn. fin.
    + set (req := bufsz - used). remember (takeN req src) as d eqn:Hd.
      assert (Ld : lenN d = N.min req (lenN src)) by (subst d; apply lenN_takeN).
      assert (Hsplit : src = d ++ dropN req src) by (subst d; symmetry; apply takeN_dropN).
      destruct (N.eqb_spec (lenN d) req) as [E1|E1]; [|destruct (N.eqb_spec (lenN d) 0) as [E0|E0]];
        intro E; inversion E; subst r g e s t rest; rewrite ?lenN_cons, ?lenN_nil; unfold eintr_count; cbn.
      * fin; unfold req in *; lia.
      * assert (src = []) by (apply lenN_zero; unfold req in *; lia). fin.
      * assert (dropN req src = []) by (apply dropN_all; lia). fin; unfold req in *; lia.
  - destruct (N.leb_spec bufsz used) as [Hu|Hu].
    + intro E; inversion E; subst. cbn. fin.
    + set (req := bufsz - used). assert (Hreq : 0 < req) by (unfold req; lia).
      destruct o.
      * pose proof (xfer_count_bounds n req Hreq) as [K1 K2].
        set (k := xfer_count n req) in *. remember (takeN k src) as d eqn:Hd.
        assert (Ld : lenN d = N.min k (lenN src)) by (subst d; apply lenN_takeN).
        assert (Hsplit : src = d ++ dropN k src) by (subst d; symmetry; apply takeN_dropN).
        destruct (N.eqb_spec (lenN d) 0) as [E0|E0].
        -- intro E; inversion E; subst r g e s t rest.
           assert (src = []) by (apply lenN_zero; lia).
           rewrite lenN_cons, lenN_nil, eintr_count_cons. cbn. fin.
        -- destruct (refill bufsz (used + lenN d) (dropN k src) outs) as [[[[[r' g'] e'] s'] t'] rest'] eqn:ER.
           intro E; inversion E; subst r g e s t rest.
           destruct (IH _ _ _ _ _ _ _ _ ER) as (H1 & H2 & H3 & H4 & H5 & H6 & H7 & H8).
           rewrite lenN_cons, eintr_count_cons, lenN_app. cbn [is_eintr snd].
           split; [rewrite Hsplit at 1; rewrite H1, app_assoc; reflexivity|].
           split; [lia|]. split; [exact H3|]. split; [exact H4|].
           split; [intros A B; specialize (H5 A B); lia|]. split; [exact H6|].
           split; [unfold req; lia|].
           intro Hb. destruct (H8 (benign_tail _ _ Hb)) as [T1 T2]. split; [|exact T2].
           constructor; [reflexivity|exact T1].
      * destruct (refill bufsz used src outs) as [[[[[r' g'] e'] s'] t'] rest'] eqn:ER.
        intro E; inversion E; subst r g e s t rest.
        destruct (IH _ _ _ _ _ _ _ _ ER) as (H1 & H2 & H3 & H4 & H5 & H6 & H7 & H8).
        rewrite lenN_cons, eintr_count_cons. cbn [is_eintr snd].
        split; [exact H1|]. split; [exact H2|]. split; [exact H3|]. split; [exact H4|].
        split; [exact H5|]. split; [exact H6|]. split; [unfold req; lia|].
        intro Hb. destruct (H8 (benign_tail _ _ Hb)) as [T1 T2]. split; [|exact T2].
        constructor; [reflexivity|exact T1].
      * intro E; inversion E; subst r g e s t rest.
        rewrite lenN_cons, lenN_nil, eintr_count_cons. cbn. fin.
      * intro E; inversion E; subst r g e s t rest.
        rewrite lenN_cons, lenN_nil, eintr_count_cons. cbn. fin.
Qed.

(* ------------------------------------------------------------------ *)
(* the stream as its client sees it                                     *)
(* ------------------------------------------------------------------ *)

Definition window (st : istate) : list N := dropN (i_off st) (i_buf st).
(* everything the client has not consumed yet, in order *)
Definition pending (st : istate) (src : list N) : list N := window st ++ src.

(* buffer_offset < buffer_used, or both are 0 (what advance_buffer maintains); the buffer never
   exceeds BUFSZ *)
Definition wf (bufsz : N) (st : istate) : Prop :=
  (i_off st < lenN (i_buf st) \/ (i_off st = 0 /\ i_buf st = [])) /\ lenN (i_buf st) <= bufsz.
(* once eof is set the descriptor is exhausted (true as long as the kernel never answers a read
   with 0 before the end of the file) *)
Definition eof_ok (st : istate) (src : list N) : Prop := i_eof st = true -> src = [].

Lemma wf_init bufsz : wf bufsz istate_init.
Proof. unfold wf, istate_init; cbn. split; [right; auto|lia]. Qed.

Lemma eof_ok_init src : eof_ok istate_init src.
Proof. unfold eof_ok, istate_init; cbn. discriminate. Qed.

(* get_buffered_data, whatever the kernel does: nothing is lost, duplicated or reordered; data
   windows are never empty; an error is reported iff a call failed; end-of-stream is reported
   only with an empty window and the eof flag set (hence, by eof_ok, only after the last byte) *)
Lemma gbd_any bufsz st src want outs g st' src' t rest :
  0 < bufsz -> wf bufsz st ->
  get_buffered_data bufsz st src want outs = (g, st', src', t, rest) ->
  wf bufsz st' /\ pending st' src' = pending st src /\
  (eof_ok st src -> has_zero t = false -> eof_ok st' src') /\
  (benign outs -> trace_benign t /\ benign rest) /\
  match g with
  | GData w => w = window st' /\ w <> [] /\ has_fail t = false
  | GEof => window st' = [] /\ i_eof st' = true /\ has_fail t = false
  | GErr e => e = e_io /\ has_fail t = true
  end.
Proof.
  intros Hbz Hwf. unfold get_buffered_data.
  set (want' := if bufsz <? want then bufsz else want).
  destruct Hwf as (Hoff & Hlen).
  destruct ((lenN (i_buf st) =? 0) || (lenN (i_buf st) - i_off st <? want')) eqn:Hc.
  - unfold precache. destruct (i_eof st) eqn:EE.
    + (* already at eof: nothing is read *)
      intro E; inversion E; subst g st' src' t rest. rewrite EE. cbn [andb].
      fold (window st). split; [split; assumption|]. split; [reflexivity|]. split; [auto|].
      split; [intro Hb; split; [constructor|exact Hb]|].
      destruct (N.eqb_spec (lenN (window st)) 0) as [E0|E0].
      * split; [apply lenN_zero; exact E0|]. split; reflexivity.
      * split; [reflexivity|]. split; [|reflexivity]. intro H. rewrite H in E0. cbn in E0. lia.
    + set (used := lenN (i_buf st)) in *.
      set (moved := if (0 <? i_off st) && (i_off st <? used) then dropN (i_off st) (i_buf st) else i_buf st).
      assert (Hmoved : takeN (used - i_off st) moved = window st /\ lenN (window st) = used - i_off st).
      { unfold moved, window. destruct Hoff as [H|[H1 H2]].
        - destruct (N.ltb_spec 0 (i_off st)); destruct (N.ltb_spec (i_off st) used); cbn [andb]; try lia.
          + split; [apply takeN_all; rewrite lenN_dropN; fold used; lia|rewrite lenN_dropN; reflexivity].
          + replace (i_off st) with 0 by lia. rewrite dropN_0, N.sub_0_r.
            split; [apply takeN_all; fold used; lia|reflexivity].
        - unfold used. rewrite H1, H2. cbn. split; reflexivity. }
      destruct Hmoved as [Hm Lw]. rewrite Hm.
      destruct (refill bufsz (used - i_off st) src outs) as [[[[[r g0] e] s] t0] rest0] eqn:ER.
      destruct (refill_any bufsz _ _ _ _ _ _ _ _ _ ER) as (H1 & H2 & H3 & H4 & H5 & H6 & H7 & H8).
      set (st1 := {| i_buf := window st ++ g0; i_off := 0; i_eof := e |}).
      assert (W1 : window st1 = window st ++ g0) by (unfold window, st1; cbn [i_buf i_off]; apply dropN_0).
      assert (WF' : wf bufsz st1).
      { unfold wf, st1; cbn [i_buf i_off]. split.
        - destruct (window st ++ g0) eqn:EW; [right; auto|left; rewrite lenN_cons; lia].
        - rewrite lenN_app, Lw. unfold used in *. lia. }
      assert (PD : pending st1 s = pending st src).
      { unfold pending. rewrite W1, <- app_assoc, <- H1. reflexivity. }
      assert (EO : has_zero t0 = false -> eof_ok st1 s).
      { intros HZ He. unfold st1 in He; cbn in He. apply H4; assumption. }
      cbn [i_eof i_buf i_off]. rewrite dropN_0.
      destruct r as [u|err].
      * cbn in H3.
        destruct e; cbn [andb];
          intro E; inversion E; subst g st' src' t rest; fold st1;
          (split; [exact WF'|]); (split; [exact PD|]); (split; [intros _ HZ; exact (EO HZ)|]);
          (split; [exact H8|]); rewrite ?W1.
        -- destruct (N.eqb_spec (lenN (window st ++ g0)) 0) as [E0|E0]; cbv iota; rewrite ?W1.
           ++ split; [apply lenN_zero; exact E0|]. split; [reflexivity|exact H3].
           ++ split; [reflexivity|]. split; [|exact H3]. intro H. rewrite H in E0. cbn in E0. lia.
        -- split; [reflexivity|]. split; [|exact H3].
           specialize (H5 eq_refl eq_refl). intro H.
           pose proof (f_equal lenN H) as L. rewrite lenN_app, Lw in L. cbn in L. lia.
      * intro E; inversion E; subst g st' src' t rest. fold st1.
        split; [exact WF'|]. split; [exact PD|]. split; [intros _ HZ; exact (EO HZ)|]. split; [exact H8|].
        destruct (H6 eq_refl) as [_ HE]. inversion HE. split; [reflexivity|exact H3].
  - intro E; inversion E; subst g st' src' t rest.
    split; [split; assumption|]. split; [reflexivity|]. split; [auto|].
    split; [intro Hb; split; [constructor|exact Hb]|].
    apply orb_false_iff in Hc. destruct Hc as [Hc1 Hc2]. apply N.eqb_neq in Hc1.
    assert (Hw : lenN (window st) <> 0).
    { unfold window. rewrite lenN_dropN. destruct Hoff as [H|[_ H2]]; [lia|]. rewrite H2 in Hc1. cbn in Hc1. lia. }
    fold (window st). replace (lenN (window st) =? 0) with false by (symmetry; apply N.eqb_neq; exact Hw).
    rewrite andb_false_r. split; [reflexivity|]. split; [|reflexivity].
    intro H. rewrite H in Hw. cbn in Hw. lia.
Qed.

Lemma advance_any bufsz st src n :
  wf bufsz st ->
  wf bufsz (advance_buffer st n) /\
  pending (advance_buffer st n) src = dropN (N.min n (lenN (window st))) (pending st src) /\
  window (advance_buffer st n) = dropN n (window st) /\
  i_eof (advance_buffer st n) = i_eof st.
Proof.
  intros (Hoff & Hlen). unfold advance_buffer, pending.
  assert (Lw : lenN (window st) = lenN (i_buf st) - i_off st) by (unfold window; apply lenN_dropN).
  destruct (N.ltb_spec n (lenN (i_buf st) - i_off st)) as [H|H].
  - assert (W : window {| i_buf := i_buf st; i_off := i_off st + n; i_eof := i_eof st |} = dropN n (window st)).
    { unfold window; cbn [i_buf i_off]. rewrite dropN_dropN. reflexivity. }
    rewrite W. split; [|split; [|split; reflexivity]].
    + unfold wf; cbn [i_buf i_off]. split; [left; lia|exact Hlen].
    + rewrite N.min_l by lia. rewrite dropN_app. replace (n - lenN (window st)) with 0 by lia.
      rewrite dropN_0. reflexivity.
  - split; [|split; [|split; [|reflexivity]]].
    + unfold wf; cbn. split; [right; auto|lia].
    + rewrite N.min_r by lia. unfold window at 1; cbn [i_buf i_off]. rewrite dropN_nil.
      rewrite dropN_app_exact. reflexivity.
    + unfold window at 1; cbn [i_buf i_off]. rewrite dropN_nil. symmetry. apply dropN_all. lia.
Qed.

(* ------------------------------------------------------------------ *)
(* sqfs_istream_read under every outcome stream                         *)
(* ------------------------------------------------------------------ *)

Lemma prefix_take {A} (got P P' : list A) : P = got ++ P' -> takeN (lenN got) P = got /\ dropN (lenN got) P = P'.
Proof. intros ->. split; [apply takeN_app_exact|apply dropN_app_exact]. Qed.

Lemma read_c_any bufsz zchunk : 0 < bufsz -> forall fuel size acc w outs r w' t rest,
  wf bufsz (w_in w) ->
  run bufsz zchunk (read_c fuel size acc) w outs = (r, w', t, rest) ->
  wf bufsz (w_in w') /\ w_out w' = w_out w /\ w_file w' = w_file w /\
  (eof_ok (w_in w) (w_src w) -> has_zero t = false -> eof_ok (w_in w') (w_src w')) /\
  (benign outs -> trace_benign t /\ benign rest) /\
  (exists got,
     pending (w_in w) (w_src w) = got ++ pending (w_in w') (w_src w') /\ lenN got <= size /\
     match r with
     | RRet n d => n = lenN d /\ d = acc ++ got /\ has_fail t = false /\
                   (lenN got < size -> window (w_in w') = [] /\ i_eof (w_in w') = true)
     | RErr e => e = e_io /\ has_fail t = true
     | RFuel => N.of_nat fuel <= lenN got /\ lenN got < size
     end).
Proof.
  intro Hbz.
  assert (RET : forall size acc w outs, wf bufsz (w_in w) -> size = 0 ->
    wf bufsz (w_in w) /\ w_out w = w_out w /\ w_file w = w_file w /\
    (eof_ok (w_in w) (w_src w) -> has_zero [] = false -> eof_ok (w_in w) (w_src w)) /\
    (benign outs -> trace_benign [] /\ benign outs) /\
    (exists got,
       pending (w_in w) (w_src w) = got ++ pending (w_in w) (w_src w) /\ lenN got <= size /\
       (lenN acc = lenN acc /\ acc = acc ++ got /\ has_fail [] = false /\
        (lenN got < size -> window (w_in w) = [] /\ i_eof (w_in w) = true)))).
  { intros size acc w outs Hwf ->. split; [exact Hwf|]. split; [reflexivity|]. split; [reflexivity|].
    split; [auto|]. split; [intro Hb0; split; [constructor|exact Hb0]|].
    exists []. split; [reflexivity|]. split; [cbn; lia|]. split; [reflexivity|].
    split; [rewrite app_nil_r; reflexivity|]. split; [reflexivity|]. cbn. lia. }
  induction fuel as [|f IH]; intros size acc w outs r w' t rest Hwf; cbn [read_c].
  - destruct (N.eqb_spec size 0) as [Hs|Hs]; cbn [run]; intro E; inversion E; subst r w' t rest.
    + apply RET; assumption.
    + split; [exact Hwf|]. split; [reflexivity|]. split; [reflexivity|].
      split; [auto|]. split; [intro Hb0; split; [constructor|exact Hb0]|].
      exists []. split; [reflexivity|]. split; [cbn; lia|]. cbn. lia.
  - destruct (N.eqb_spec size 0) as [Hs|Hs]; cbn [run].
    + intro E; inversion E; subst r w' t rest. apply RET; assumption.
    + destruct (get_buffered_data bufsz (w_in w) (w_src w) size outs) as [[[[g st1] src1] t1] rest1] eqn:EG.
      destruct (gbd_any _ _ _ _ _ _ _ _ _ _ Hbz Hwf EG) as (W1 & P1 & EO1 & B1 & HG).
      destruct g as [e| |wd].
      * cbn [run]. intro E; inversion E; subst r w' t rest. cbn [w_in w_src w_out w_file].
        destruct HG as [He Hf]. rewrite app_nil_r.
        split; [exact W1|]. split; [reflexivity|]. split; [reflexivity|]. split; [exact EO1|]. split; [exact B1|].
        exists []. cbn. split; [symmetry; exact P1|]. split; [lia|]. split; assumption.
      * cbn [run]. intro E; inversion E; subst r w' t rest. cbn [w_in w_src w_out w_file].
        destruct HG as (Hw & He & Hf). rewrite app_nil_r.
        split; [exact W1|]. split; [reflexivity|]. split; [reflexivity|]. split; [exact EO1|]. split; [exact B1|].
        exists []. cbn. split; [symmetry; exact P1|]. split; [lia|].
        split; [reflexivity|]. split; [rewrite app_nil_r; reflexivity|]. split; [exact Hf|]. intros _. split; assumption.
      * destruct HG as (Hwd & Hne & Hf). cbn [run w_in w_src w_out w_file].
        set (d := takeN size wd).
        set (w1 := {| w_in := advance_buffer st1 (lenN d); w_src := src1; w_out := w_out w; w_file := w_file w |}).
        destruct (run bufsz zchunk (read_c f (size - lenN d) (acc ++ d)) w1 rest1) as [[[r2 w2] t2] rest2] eqn:ER.
        intro E; injection E as <- <- <- <-.
        destruct (advance_any bufsz st1 src1 (lenN d) W1) as (W2 & P2 & Wd2 & Ee2).
        assert (Ld : lenN d = N.min size (lenN wd)) by (unfold d; apply lenN_takeN).
        assert (Lwd : 0 < lenN wd).
        { destruct wd; [contradiction|rewrite lenN_cons; lia]. }
        rewrite <- Hwd in P2. rewrite N.min_l in P2 by lia.
        destruct (IH (size - lenN d) (acc ++ d) w1 rest1 r2 w2 t2 rest2 W2 ER)
          as (W3 & O3 & F3 & EO3 & B3 & got2 & PG & LG & HR).
        unfold w1 in O3, F3, EO3, PG; cbn [w_in w_src w_out w_file] in O3, F3, EO3, PG.
        split; [exact W3|]. split; [exact O3|]. split; [exact F3|].
        split.
        { intros E0 HZ. rewrite has_zero_app in HZ. apply orb_false_iff in HZ. destruct HZ as [Z1 Z2].
          apply EO3; [|exact Z2]. unfold eof_ok. rewrite Ee2. apply EO1; assumption. }
        split.
        { intro Hb. destruct (B1 Hb) as [T1 R1]. destruct (B3 R1) as [T2 R2].
          split; [apply trace_benign_app; assumption|exact R2]. }
        assert (Dpre : pending st1 src1 = d ++ dropN (lenN d) (pending st1 src1)).
        { unfold pending. rewrite <- Hwd. unfold d.
          rewrite dropN_app. rewrite lenN_takeN.
          replace (N.min size (lenN wd) - lenN wd) with 0 by lia. rewrite dropN_0.
          rewrite app_assoc. f_equal.
          rewrite <- (takeN_dropN size wd) at 1. f_equal.
          destruct (N.le_gt_cases size (lenN wd)); [rewrite N.min_l by lia; reflexivity|].
          rewrite N.min_r by lia. rewrite !dropN_all by lia. reflexivity. }
        exists (d ++ got2).
        split; [rewrite <- P1, Dpre, <- app_assoc; f_equal; rewrite <- PG; symmetry; exact P2|].
        split; [rewrite lenN_app; lia|].
        destruct r2 as [n2 d2|e2|].
        -- destruct HR as (Hn & Hd2 & Hf2 & Hshort).
           split; [exact Hn|]. split; [rewrite Hd2, app_assoc; reflexivity|].
           split; [rewrite has_fail_app, Hf, Hf2; reflexivity|].
           intro Hl. apply Hshort. rewrite lenN_app in Hl. lia.
        -- destruct HR as [He Hf2]. split; [exact He|]. rewrite has_fail_app, Hf2. apply orb_true_r.
        -- rewrite lenN_app. rewrite Nat2N.inj_succ. lia.
Qed.

(* the contract of sqfs_istream_read for a kernel that does not fail and reports 0 only at the end *)
Theorem istream_read_spec bufsz zchunk fuel size w outs r w' t rest :
  0 < bufsz -> wf bufsz (w_in w) -> eof_ok (w_in w) (w_src w) -> benign outs ->
  clamp32 size <= N.of_nat fuel ->
  run bufsz zchunk (istream_read fuel size) w outs = (r, w', t, rest) ->
  let P := pending (w_in w) (w_src w) in
  r = RRet (lenN (takeN (clamp32 size) P)) (takeN (clamp32 size) P) /\
  pending (w_in w') (w_src w') = dropN (clamp32 size) P /\
  wf bufsz (w_in w') /\ eof_ok (w_in w') (w_src w') /\ benign rest.
Proof.
  intros Hbz Hwf Heo Hb Hfuel. unfold istream_read. fold (clamp32 size). set (sz := clamp32 size) in *.
  intro E. destruct (read_c_any bufsz zchunk Hbz fuel sz [] w outs r w' t rest Hwf E)
    as (W & _ & _ & EO & B & got & PG & LG & HR).
  destruct (B Hb) as [TB RB]. destruct (trace_benign_no_fail _ TB) as [NF NZ].
  specialize (EO Heo NZ). cbn zeta.
  destruct (prefix_take _ _ _ PG) as [TK DR].
  destruct r as [n d|e|].
  - destruct HR as (Hn & Hd & _ & Hshort). cbn [app] in Hd. subst d n.
    destruct (N.eq_dec (lenN got) sz) as [EQ|NE].
    + rewrite <- EQ, TK, DR. split; [reflexivity|]. split; [reflexivity|]. split; [exact W|]. split; [exact EO|exact RB].
    + destruct (Hshort ltac:(lia)) as [Hw He].
      assert (PE : pending (w_in w') (w_src w') = []).
      { unfold pending. rewrite Hw, (EO He). reflexivity. }
      rewrite PE, app_nil_r in PG. rewrite PE. rewrite PG.
      rewrite takeN_all by lia. rewrite dropN_all by lia.
      split; [reflexivity|]. split; [reflexivity|]. split; [exact W|]. split; [exact EO|exact RB].
  - destruct HR as [_ HF]. congruence.
  - lia.
Qed.

(* ------------------------------------------------------------------ *)
(* sqfs_istream_skip under every outcome stream                         *)
(* ------------------------------------------------------------------ *)

Lemma skip_c_any bufsz zchunk : 0 < bufsz -> forall fuel size w outs r w' t rest,
  wf bufsz (w_in w) ->
  run bufsz zchunk (skip_c fuel size) w outs = (r, w', t, rest) ->
  wf bufsz (w_in w') /\ w_out w' = w_out w /\ w_file w' = w_file w /\
  (eof_ok (w_in w) (w_src w) -> has_zero t = false -> eof_ok (w_in w') (w_src w')) /\
  (benign outs -> trace_benign t /\ benign rest) /\
  (exists got,
     pending (w_in w) (w_src w) = got ++ pending (w_in w') (w_src w') /\ lenN got <= size /\
     match r with
     | RRet n d => n = 0 /\ d = [] /\ has_fail t = false /\
                   (lenN got < size -> window (w_in w') = [] /\ i_eof (w_in w') = true)
     | RErr e => e = e_io /\ has_fail t = true
     | RFuel => N.of_nat fuel <= lenN got /\ lenN got < size
     end).
Proof.
  intro Hbz.
  assert (RET : forall size w outs, wf bufsz (w_in w) -> size = 0 ->
    wf bufsz (w_in w) /\ w_out w = w_out w /\ w_file w = w_file w /\
    (eof_ok (w_in w) (w_src w) -> has_zero [] = false -> eof_ok (w_in w) (w_src w)) /\
    (benign outs -> trace_benign [] /\ benign outs) /\
    (exists got,
       pending (w_in w) (w_src w) = got ++ pending (w_in w) (w_src w) /\ lenN got <= size /\
       (0 = 0 /\ @nil N = [] /\ has_fail [] = false /\
        (lenN got < size -> window (w_in w) = [] /\ i_eof (w_in w) = true)))).
  { intros size w outs Hwf ->. split; [exact Hwf|]. split; [reflexivity|]. split; [reflexivity|].
    split; [auto|]. split; [intro Hb0; split; [constructor|exact Hb0]|].
    exists []. split; [reflexivity|]. split; [cbn; lia|]. split; [reflexivity|].
    split; [reflexivity|]. split; [reflexivity|]. cbn. lia. }
  induction fuel as [|f IH]; intros size w outs r w' t rest Hwf; cbn [skip_c].
  - destruct (N.eqb_spec size 0) as [Hs|Hs]; cbn [run]; intro E; inversion E; subst r w' t rest.
    + apply RET; assumption.
    + split; [exact Hwf|]. split; [reflexivity|]. split; [reflexivity|].
      split; [auto|]. split; [intro Hb0; split; [constructor|exact Hb0]|].
      exists []. split; [reflexivity|]. split; [cbn; lia|]. cbn. lia.
  - destruct (N.eqb_spec size 0) as [Hs|Hs]; cbn [run].
    + intro E; inversion E; subst r w' t rest. apply RET; assumption.
    + destruct (get_buffered_data bufsz (w_in w) (w_src w) size outs) as [[[[g st1] src1] t1] rest1] eqn:EG.
      destruct (gbd_any _ _ _ _ _ _ _ _ _ _ Hbz Hwf EG) as (W1 & P1 & EO1 & B1 & HG).
      destruct g as [e| |wd].
      * cbn [run]. intro E; inversion E; subst r w' t rest. cbn [w_in w_src w_out w_file].
        destruct HG as [He Hf]. rewrite app_nil_r.
        split; [exact W1|]. split; [reflexivity|]. split; [reflexivity|]. split; [exact EO1|]. split; [exact B1|].
        exists []. cbn. split; [symmetry; exact P1|]. split; [lia|]. split; assumption.
      * cbn [run]. intro E; inversion E; subst r w' t rest. cbn [w_in w_src w_out w_file].
        destruct HG as (Hw & He & Hf). rewrite app_nil_r.
        split; [exact W1|]. split; [reflexivity|]. split; [reflexivity|]. split; [exact EO1|]. split; [exact B1|].
        exists []. cbn. split; [symmetry; exact P1|]. split; [lia|].
        split; [reflexivity|]. split; [reflexivity|]. split; [exact Hf|]. intros _. split; assumption.
      * destruct HG as (Hwd & Hne & Hf). cbn [run w_in w_src w_out w_file].
        assert (Ed : N.min (lenN wd) size = lenN (takeN size wd)) by (rewrite lenN_takeN; lia).
        rewrite Ed. set (d := takeN size wd).
        set (w1 := {| w_in := advance_buffer st1 (lenN d); w_src := src1; w_out := w_out w; w_file := w_file w |}).
        destruct (run bufsz zchunk (skip_c f (size - lenN d)) w1 rest1) as [[[r2 w2] t2] rest2] eqn:ER.
        intro E; injection E as <- <- <- <-.
        destruct (advance_any bufsz st1 src1 (lenN d) W1) as (W2 & P2 & Wd2 & Ee2).
        assert (Ld : lenN d = N.min size (lenN wd)) by (unfold d; apply lenN_takeN).
        assert (Lwd : 0 < lenN wd).
        { destruct wd; [contradiction|rewrite lenN_cons; lia]. }
        rewrite <- Hwd in P2. rewrite N.min_l in P2 by lia.
        destruct (IH (size - lenN d) w1 rest1 r2 w2 t2 rest2 W2 ER)
          as (W3 & O3 & F3 & EO3 & B3 & got2 & PG & LG & HR).
        unfold w1 in O3, F3, EO3, PG; cbn [w_in w_src w_out w_file] in O3, F3, EO3, PG.
        split; [exact W3|]. split; [exact O3|]. split; [exact F3|].
        split.
        { intros E0 HZ. rewrite has_zero_app in HZ. apply orb_false_iff in HZ. destruct HZ as [Z1 Z2].
          apply EO3; [|exact Z2]. unfold eof_ok. rewrite Ee2. apply EO1; assumption. }
        split.
        { intro Hb. destruct (B1 Hb) as [T1 R1]. destruct (B3 R1) as [T2 R2].
          split; [apply trace_benign_app; assumption|exact R2]. }
        assert (Dpre : pending st1 src1 = d ++ dropN (lenN d) (pending st1 src1)).
        { unfold pending. rewrite <- Hwd. unfold d.
          rewrite dropN_app. rewrite lenN_takeN.
          replace (N.min size (lenN wd) - lenN wd) with 0 by lia. rewrite dropN_0.
          rewrite app_assoc. f_equal.
          rewrite <- (takeN_dropN size wd) at 1. f_equal.
          destruct (N.le_gt_cases size (lenN wd)); [rewrite N.min_l by lia; reflexivity|].
          rewrite N.min_r by lia. rewrite !dropN_all by lia. reflexivity. }
        exists (d ++ got2).
        split; [rewrite <- P1, Dpre, <- app_assoc; f_equal; rewrite <- PG; symmetry; exact P2|].
        split; [rewrite lenN_app; lia|].
        destruct r2 as [n2 d2|e2|].
        -- destruct HR as (Hn & Hd2 & Hf2 & Hshort).
           split; [exact Hn|]. split; [exact Hd2|].
           split; [rewrite has_fail_app, Hf, Hf2; reflexivity|].
           intro Hl. apply Hshort. rewrite lenN_app in Hl. lia.
        -- destruct HR as [He Hf2]. split; [exact He|]. rewrite has_fail_app, Hf2. apply orb_true_r.
        -- rewrite lenN_app. rewrite Nat2N.inj_succ. lia.
Qed.

(* sqfs_istream_skip on a benign stream: 0, and min(size, what is left) bytes are gone *)
Theorem istream_skip_spec bufsz zchunk fuel size w outs r w' t rest :
  0 < bufsz -> wf bufsz (w_in w) -> eof_ok (w_in w) (w_src w) -> benign outs ->
  size <= N.of_nat fuel ->
  run bufsz zchunk (skip_c fuel size) w outs = (r, w', t, rest) ->
  r = RRet 0 [] /\
  pending (w_in w') (w_src w') = dropN size (pending (w_in w) (w_src w)) /\
  wf bufsz (w_in w') /\ eof_ok (w_in w') (w_src w') /\ benign rest /\
  w_out w' = w_out w /\ w_file w' = w_file w.
Proof.
  intros Hbz Hwf Heo Hb Hfuel E.
  destruct (skip_c_any bufsz zchunk Hbz fuel size w outs r w' t rest Hwf E)
    as (W & O & F & EO & B & got & PG & LG & HR).
  destruct (B Hb) as [TB RB]. destruct (trace_benign_no_fail _ TB) as [NF NZ].
  specialize (EO Heo NZ).
  destruct (prefix_take _ _ _ PG) as [TK DR].
  destruct r as [n d|e|].
  - destruct HR as (Hn & Hd & _ & Hshort). subst d n.
    destruct (N.eq_dec (lenN got) size) as [EQ|NE].
    + rewrite <- EQ, DR. repeat (split; [first [reflexivity|assumption]|]). exact F.
    + destruct (Hshort ltac:(lia)) as [Hw He].
      assert (PE : pending (w_in w') (w_src w') = []).
      { unfold pending. rewrite Hw, (EO He). reflexivity. }
      rewrite PE, app_nil_r in PG. rewrite PE. rewrite PG.
      rewrite dropN_all by lia.
      repeat (split; [first [reflexivity|assumption]|]). exact F.
  - destruct HR as [_ HF]. congruence.
  - lia.
Qed.

(* ------------------------------------------------------------------ *)
(* sequencing                                                           *)
(* ------------------------------------------------------------------ *)

Lemma run_bind bufsz zchunk {R S : Type} (c : client R) (f : R -> client S) : forall w outs,
  run bufsz zchunk (bind c f) w outs =
  let '(r, w1, t1, rest1) := run bufsz zchunk c w outs in
  let '(r2, w2, t2, rest2) := run bufsz zchunk (f r) w1 rest1 in
  (r2, w2, t1 ++ t2, rest2).
Proof.
  induction c as [r|want k IH|n k IH|d n k IH|k IH|off size k IH|off d k IH|len k IH|k IH];
    intros w outs; cbn [bind run].
  - destruct (run bufsz zchunk (f r) w outs) as [[[r2 w2] t2] rest2]. reflexivity.
  - destruct (get_buffered_data bufsz (w_in w) (w_src w) want outs) as [[[[g st'] src'] t] rest].
    rewrite IH.
    destruct (run bufsz zchunk (k g) _ rest) as [[[r1 w1] t1] rest1].
    destruct (run bufsz zchunk (f r1) w1 rest1) as [[[r2 w2] t2] rest2].
    rewrite app_assoc. reflexivity.
  - apply IH.
  - destruct (ostream_append zchunk (w_out w) d n outs) as [[[x o'] t] rest].
    rewrite IH.
    destruct (run bufsz zchunk (k x) _ rest) as [[[r1 w1] t1] rest1].
    destruct (run bufsz zchunk (f r1) w1 rest1) as [[[r2 w2] t2] rest2].
    rewrite app_assoc. reflexivity.
  - destruct (ostream_flush zchunk (w_out w) outs) as [[[x o'] t] rest].
    rewrite IH.
    destruct (run bufsz zchunk (k x) _ rest) as [[[r1 w1] t1] rest1].
    destruct (run bufsz zchunk (f r1) w1 rest1) as [[[r2 w2] t2] rest2].
    rewrite app_assoc. reflexivity.
  - destruct (read_at (w_file w) off size outs) as [[x t] rest].
    rewrite IH.
    destruct (run bufsz zchunk (k x) w rest) as [[[r1 w1] t1] rest1].
    destruct (run bufsz zchunk (f r1) w1 rest1) as [[[r2 w2] t2] rest2].
    rewrite app_assoc. reflexivity.
  - destruct (write_at (w_file w) off d outs) as [[[x f'] t] rest].
    rewrite IH.
    destruct (run bufsz zchunk (k x) _ rest) as [[[r1 w1] t1] rest1].
    destruct (run bufsz zchunk (f r1) w1 rest1) as [[[r2 w2] t2] rest2].
    rewrite app_assoc. reflexivity.
  - destruct (truncate_file (w_file w) len outs) as [[[x f'] t] rest].
    rewrite IH.
    destruct (run bufsz zchunk (k x) _ rest) as [[[r1 w1] t1] rest1].
    destruct (run bufsz zchunk (f r1) w1 rest1) as [[[r2 w2] t2] rest2].
    rewrite app_assoc. reflexivity.
  - apply IH.
Qed.

(* ------------------------------------------------------------------ *)
(* tar: the raw header read and record_to_memory                        *)
(* ------------------------------------------------------------------ *)

(* the 512-byte header read of read_header: data iff 512 bytes are left, else "end of archive";
   the verdict and the bytes depend on the unconsumed input only *)
Theorem header_read_spec bufsz zchunk fuel w outs r w' t rest :
  0 < bufsz -> wf bufsz (w_in w) -> eof_ok (w_in w) (w_src w) -> benign outs ->
  sizeof_tar_header_t <= N.of_nat fuel ->
  run bufsz zchunk (header_read fuel) w outs = (r, w', t, rest) ->
  let P := pending (w_in w) (w_src w) in
  r = (if lenN P <? sizeof_tar_header_t then TShort else TData (takeN sizeof_tar_header_t P)) /\
  pending (w_in w') (w_src w') = dropN sizeof_tar_header_t P /\
  wf bufsz (w_in w') /\ eof_ok (w_in w') (w_src w') /\ benign rest.
Proof.
  intros Hbz Hwf Heo Hb Hfuel. unfold header_read. rewrite run_bind.
  destruct (run bufsz zchunk (istream_read fuel sizeof_tar_header_t) w outs) as [[[r1 w1] t1] rest1] eqn:E1.
  assert (CL : clamp32 sizeof_tar_header_t = sizeof_tar_header_t) by reflexivity.
  destruct (istream_read_spec bufsz zchunk fuel sizeof_tar_header_t w outs r1 w1 t1 rest1 Hbz Hwf Heo Hb
              ltac:(rewrite CL; exact Hfuel) E1) as (R1 & P1 & W1 & EO1 & B1).
  rewrite CL in R1, P1. cbn zeta. subst r1.
  set (P := pending (w_in w) (w_src w)) in *.
  rewrite lenN_takeN.
  destruct (N.ltb_spec (lenN P) sizeof_tar_header_t) as [Hl|Hl].
  - rewrite N.min_r by lia.
    replace (lenN P <? sizeof_tar_header_t) with true by (symmetry; apply N.ltb_lt; exact Hl).
    cbn [run]. intro E; inversion E; subst. rewrite ?app_nil_r. repeat (split; [assumption || reflexivity|]). exact B1.
  - rewrite N.min_l by lia. rewrite N.ltb_irrefl.
    cbn [run]. intro E; inversion E; subst. rewrite ?app_nil_r. repeat (split; [assumption || reflexivity|]). exact B1.
Qed.

Definition record_pad (size : N) : N :=
  if size mod tar_rec =? 0 then 0 else tar_rec - size mod tar_rec.

(* record_to_memory: the record iff all of it is there, then the padding is skipped *)
Theorem record_to_memory_spec bufsz zchunk fuel size w outs r w' t rest :
  0 < bufsz -> wf bufsz (w_in w) -> eof_ok (w_in w) (w_src w) -> benign outs ->
  size <= s32_max -> size + tar_rec <= N.of_nat fuel ->
  run bufsz zchunk (record_to_memory fuel size) w outs = (r, w', t, rest) ->
  let P := pending (w_in w) (w_src w) in
  r = (if lenN P <? size then TShort else TData (takeN size P)) /\
  pending (w_in w') (w_src w') = (if lenN P <? size then [] else dropN (size + record_pad size) P) /\
  wf bufsz (w_in w') /\ eof_ok (w_in w') (w_src w') /\ benign rest.
Proof.
  intros Hbz Hwf Heo Hb Hsz Hfuel. unfold record_to_memory. rewrite run_bind.
  destruct (run bufsz zchunk (istream_read fuel size) w outs) as [[[r1 w1] t1] rest1] eqn:E1.
  assert (CL : clamp32 size = size).
  { unfold clamp32. destruct (N.ltb_spec s32_max size); [lia|reflexivity]. }
  destruct (istream_read_spec bufsz zchunk fuel size w outs r1 w1 t1 rest1 Hbz Hwf Heo Hb
              ltac:(rewrite CL; lia) E1) as (R1 & P1 & W1 & EO1 & B1).
  rewrite CL in R1, P1. cbn zeta. subst r1.
  set (P := pending (w_in w) (w_src w)) in *.
  rewrite lenN_takeN.
  destruct (N.ltb_spec (lenN P) size) as [Hl|Hl].
  - rewrite N.min_r by lia.
    replace (lenN P <? size) with true by (symmetry; apply N.ltb_lt; exact Hl).
    cbn [run]. intro E; inversion E; subst. rewrite ?app_nil_r.
    split; [reflexivity|]. split; [rewrite P1; apply dropN_all; lia|].
    repeat (split; [assumption|]). exact B1.
  - rewrite N.min_l by lia. rewrite N.ltb_irrefl. unfold record_pad.
    destruct (N.eqb_spec (size mod tar_rec) 0) as [Em|Em].
    + cbn [run]. intro E; inversion E; subst. rewrite ?app_nil_r, N.add_0_r.
      repeat (split; [assumption || reflexivity|]). exact B1.
    + rewrite run_bind.
      destruct (run bufsz zchunk (skip_c fuel (tar_rec - size mod tar_rec)) w1 rest1) as [[[r2 w2] t2] rest2] eqn:E2.
      assert (Hm : size mod tar_rec < tar_rec) by (apply N.mod_lt; discriminate).
      assert (Hfs : tar_rec - size mod tar_rec <= N.of_nat fuel).
      { clear - Hfuel. generalize dependent (size mod tar_rec). intros m. lia. }
      destruct (istream_skip_spec bufsz zchunk fuel _ w1 rest1 r2 w2 t2 rest2 Hbz W1 EO1 B1 Hfs E2)
        as (R2 & P2 & W2 & EO2 & B2 & _ & _).
      subst r2. cbn [run]. intro E; inversion E; subst. rewrite ?app_nil_r.
      split; [reflexivity|]. split; [rewrite P2, P1, dropN_dropN; reflexivity|].
      repeat (split; [assumption|]). exact B2.
Qed.
