(* C12 — list operations indexed by N (sizes of the C code are size_t / sqfs_u64,
   modelled as unbounded N) and the handful of lemmas the chunking proofs need. *)
From Coq Require Import List NArith Lia.
Import ListNotations.
Local Open Scope N_scope.

Section ListN.
Context {A : Type}.

Definition lenN (l : list A) : N := N.of_nat (length l).
(* recursion on the list, so that a huge count (a 2^40-byte skip) costs nothing *)
Fixpoint takeN (n : N) (l : list A) : list A :=
  match l with
  | [] => []
  | x :: r => if n =? 0 then [] else x :: takeN (N.pred n) r
  end.
Fixpoint dropN (n : N) (l : list A) : list A :=
  match l with
  | [] => []
  | x :: r => if n =? 0 then l else dropN (N.pred n) r
  end.

Lemma takeN_firstn n (l : list A) : takeN n l = firstn (N.to_nat n) l.
Proof.
  revert n; induction l as [|x r IH]; intro n; cbn [takeN].
  - rewrite firstn_nil. reflexivity.
  - destruct (N.eqb_spec n 0) as [->|H]; [reflexivity|].
    replace (N.to_nat n) with (S (N.to_nat (N.pred n))) by lia.
    cbn [firstn]. rewrite IH. reflexivity.
Qed.

Lemma dropN_skipn n (l : list A) : dropN n l = skipn (N.to_nat n) l.
Proof.
  revert n; induction l as [|x r IH]; intro n; cbn [dropN].
  - rewrite skipn_nil. reflexivity.
  - destruct (N.eqb_spec n 0) as [->|H]; [reflexivity|].
    replace (N.to_nat n) with (S (N.to_nat (N.pred n))) by lia.
    cbn [skipn]. rewrite IH. reflexivity.
Qed.

Lemma lenN_nil : lenN (@nil A) = 0.
Proof. reflexivity. Qed.

Lemma lenN_cons x (l : list A) : lenN (x :: l) = 1 + lenN l.
Proof. unfold lenN. cbn [length]. lia. Qed.

Lemma lenN_app (l1 l2 : list A) : lenN (l1 ++ l2) = lenN l1 + lenN l2.
Proof. unfold lenN. rewrite app_length. lia. Qed.

Lemma lenN_zero (l : list A) : lenN l = 0 -> l = [].
Proof. unfold lenN. destruct l; [reflexivity|]. cbn [length]. lia. Qed.

Lemma lenN_takeN n (l : list A) : lenN (takeN n l) = N.min n (lenN l).
Proof. rewrite takeN_firstn. unfold lenN. rewrite firstn_length. lia. Qed.

Lemma lenN_dropN n (l : list A) : lenN (dropN n l) = lenN l - n.
Proof. rewrite dropN_skipn. unfold lenN. rewrite skipn_length. lia. Qed.

Lemma takeN_dropN n (l : list A) : takeN n l ++ dropN n l = l.
Proof. rewrite takeN_firstn, dropN_skipn. apply firstn_skipn. Qed.

Lemma takeN_0 (l : list A) : takeN 0 l = [].
Proof. destruct l; reflexivity. Qed.

Lemma dropN_0 (l : list A) : dropN 0 l = l.
Proof. destruct l; reflexivity. Qed.

Lemma takeN_nil n : takeN n (@nil A) = [].
Proof. reflexivity. Qed.

Lemma dropN_nil n : dropN n (@nil A) = [].
Proof. reflexivity. Qed.

Lemma takeN_all n (l : list A) : lenN l <= n -> takeN n l = l.
Proof. rewrite takeN_firstn. unfold lenN. intro H. apply firstn_all2. lia. Qed.

Lemma dropN_all n (l : list A) : lenN l <= n -> dropN n l = [].
Proof. rewrite dropN_skipn. unfold lenN. intro H. apply skipn_all2. lia. Qed.

Lemma takeN_app n (l1 l2 : list A) :
  takeN n (l1 ++ l2) = takeN n l1 ++ takeN (n - lenN l1) l2.
Proof.
  rewrite !takeN_firstn. unfold lenN. rewrite firstn_app. f_equal. f_equal. lia.
Qed.

Lemma dropN_app n (l1 l2 : list A) :
  dropN n (l1 ++ l2) = dropN n l1 ++ dropN (n - lenN l1) l2.
Proof.
  rewrite !dropN_skipn. unfold lenN. rewrite skipn_app. f_equal. f_equal. lia.
Qed.

Lemma takeN_app_exact (l1 l2 : list A) : takeN (lenN l1) (l1 ++ l2) = l1.
Proof.
  rewrite takeN_app, N.sub_diag, takeN_0, app_nil_r. apply takeN_all. lia.
Qed.

Lemma dropN_app_exact (l1 l2 : list A) : dropN (lenN l1) (l1 ++ l2) = l2.
Proof.
  rewrite dropN_app, N.sub_diag, dropN_0, dropN_all by lia. reflexivity.
Qed.

Lemma skipn_skipn_nat a b (l : list A) : skipn a (skipn b l) = skipn (b + a) l.
Proof.
  revert l; induction b as [|b IH]; intro l; [reflexivity|].
  destruct l as [|x l]; [cbn; apply skipn_nil|]. cbn [skipn Nat.add]. apply IH.
Qed.

Lemma dropN_dropN a b (l : list A) : dropN a (dropN b l) = dropN (b + a) l.
Proof. rewrite !dropN_skipn. rewrite skipn_skipn_nat. f_equal. lia. Qed.

Lemma takeN_takeN a b (l : list A) : takeN a (takeN b l) = takeN (N.min a b) l.
Proof. rewrite !takeN_firstn. rewrite firstn_firstn. f_equal. rewrite N2Nat.inj_min. reflexivity. Qed.

(* take a, then b more of the rest = take a + b *)
Lemma takeN_add a b (l : list A) : takeN (a + b) l = takeN a l ++ takeN b (dropN a l).
Proof.
  rewrite <- (takeN_dropN a l) at 1.
  rewrite takeN_app, lenN_takeN.
  destruct (N.le_gt_cases a (lenN l)) as [H|H].
  - rewrite N.min_l by exact H. rewrite takeN_all by (rewrite lenN_takeN; lia).
    f_equal. f_equal. lia.
  - rewrite N.min_r by lia. rewrite (dropN_all a l) by lia. rewrite !takeN_nil, !app_nil_r.
    rewrite (takeN_all a l) by lia. rewrite takeN_all by lia. reflexivity.
Qed.

Lemma takeN_short n (l : list A) : lenN (takeN n l) < n -> dropN n l = [].
Proof. rewrite lenN_takeN. intro H. apply dropN_all. lia. Qed.

Lemma takeN_short_all n (l : list A) : lenN (takeN n l) < n -> takeN n l = l.
Proof. rewrite lenN_takeN. intro H. apply takeN_all. lia. Qed.

Lemma dropN_lenN_takeN n (l : list A) : dropN (lenN (takeN n l)) l = dropN n l.
Proof.
  rewrite lenN_takeN. destruct (N.le_gt_cases n (lenN l)) as [H|H].
  - rewrite N.min_l by exact H. reflexivity.
  - rewrite N.min_r by lia. rewrite !dropN_all by lia. reflexivity.
Qed.

End ListN.

Definition zerosN (n : N) : list N := repeat 0 (N.to_nat n).

Lemma lenN_zerosN n : lenN (zerosN n) = n.
Proof. unfold lenN, zerosN. rewrite repeat_length. lia. Qed.

Lemma zerosN_add a b : zerosN (a + b) = zerosN a ++ zerosN b.
Proof. unfold zerosN. rewrite N2Nat.inj_add. apply repeat_app. Qed.

Lemma zerosN_0 : zerosN 0 = [].
Proof. reflexivity. Qed.

Lemma takeN_zerosN a b : takeN a (zerosN b) = zerosN (N.min a b).
Proof.
  rewrite takeN_firstn. unfold zerosN. rewrite N2Nat.inj_min.
  generalize (N.to_nat a) (N.to_nat b). intros n m. revert m.
  induction n as [|n IH]; intro m; [reflexivity|].
  destruct m as [|m]; [reflexivity|]. cbn. f_equal. apply IH.
Qed.
