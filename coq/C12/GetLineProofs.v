(* C12 — istream_get_line (get_line.c) over the buffered stream computes, for every benign
   outcome stream, the same line as the byte-at-a-time automaton spec_gl on the unsplit input. *)
From Coq Require Import List NArith ZArith Bool Lia.
From SqfsV Require Import Gen.Constants C12.ListN C12.IoModel C12.RetryProofs C12.IStreamProofs.
Import ListNotations.
Local Open Scope N_scope.

Lemma split_nl_notfound : forall w pre,
  split_nl w = (pre, false) ->
  pre = w /\
  forall flags line skipped P2,
    spec_gl flags line skipped (w ++ P2) = spec_gl flags (line ++ w) skipped P2.
Proof.
  induction w as [|b r IH]; intros pre H; cbn [split_nl] in H.
  - inversion H; subst. split; [reflexivity|]. intros. rewrite app_nil_r. reflexivity.
  - destruct (N.eqb_spec b 10) as [Eb|Eb]; [discriminate H|].
    destruct (split_nl r) as [p f] eqn:ES. inversion H; subst.
    destruct (IH p eq_refl) as [-> Hs]. split; [reflexivity|].
    intros flags line skipped P2. cbn [app spec_gl].
    replace (b =? 10) with false by (symmetry; apply N.eqb_neq; exact Eb).
    rewrite Hs, <- app_assoc. reflexivity.
Qed.

Lemma split_nl_found : forall w pre,
  split_nl w = (pre, true) ->
  exists w2, w = pre ++ 10 :: w2 /\
  forall flags line skipped P2,
    spec_gl flags line skipped (w ++ P2) =
    (let t := trim_flags flags (strip_cr (line ++ pre)) in
     if (0 <? lenN t) || negb (flag_skip_empty flags) then (LLine t skipped, w2 ++ P2)
     else spec_gl flags [] (skipped + 1) (w2 ++ P2)).
Proof.
  induction w as [|b r IH]; intros pre H; cbn [split_nl] in H.
  - discriminate H.
  - destruct (N.eqb_spec b 10) as [Eb|Eb].
    + inversion H; subst. exists r. split; [reflexivity|].
      intros flags line skipped P2. cbn [app spec_gl]. cbn [N.eqb Pos.eqb]. rewrite app_nil_r. reflexivity.
    + destruct (split_nl r) as [p f] eqn:ES. inversion H; subst.
      destruct (IH p eq_refl) as (w2 & -> & Hs). exists w2. split; [reflexivity|].
      intros flags line skipped P2. cbn [app spec_gl].
      replace (b =? 10) with false by (symmetry; apply N.eqb_neq; exact Eb).
      rewrite Hs, <- app_assoc. reflexivity.
Qed.

Lemma lenN_split_nl_pre : forall w pre f, split_nl w = (pre, f) -> lenN pre <= lenN w.
Proof.
  induction w as [|b r IH]; intros pre f H; cbn [split_nl] in H.
  - inversion H; subst. cbn. lia.
  - destruct (b =? 10).
    + inversion H; subst. rewrite lenN_cons. cbn. lia.
    + destruct (split_nl r) as [p f'] eqn:ES. inversion H; subst.
      specialize (IH p _ eq_refl). rewrite !lenN_cons. lia.
Qed.

Theorem get_line_spec bufsz zchunk flags : 0 < bufsz ->
  forall fuel line skipped w outs r w' t rest,
  wf bufsz (w_in w) -> eof_ok (w_in w) (w_src w) -> benign outs ->
  lenN (pending (w_in w) (w_src w)) < N.of_nat fuel ->
  run bufsz zchunk (get_line_c fuel flags line skipped) w outs = (r, w', t, rest) ->
  (r, pending (w_in w') (w_src w')) = spec_gl flags line skipped (pending (w_in w) (w_src w)) /\
  wf bufsz (w_in w') /\ eof_ok (w_in w') (w_src w') /\ benign rest /\
  w_out w' = w_out w /\ w_file w' = w_file w.
Proof.
  intro Hbz. induction fuel as [|f IH]; intros line skipped w outs r w' t rest Hwf Heo Hb Hfuel.
  - cbn in Hfuel. lia.
  - cbn [get_line_c run].
    destruct (get_buffered_data bufsz (w_in w) (w_src w) 0 outs) as [[[[g st1] src1] t1] rest1] eqn:EG.
    destruct (gbd_any _ _ _ _ _ _ _ _ _ _ Hbz Hwf EG) as (W1 & P1 & EO1 & B1 & HG).
    destruct (B1 Hb) as [TB1 RB1]. destruct (trace_benign_no_fail _ TB1) as [NF1 NZ1].
    specialize (EO1 Heo NZ1).
    destruct g as [e| |wd].
    + destruct HG as [_ HF]. congruence.
    + destruct HG as (Hw & He & _).
      assert (PE : pending (w_in w) (w_src w) = []).
      { rewrite <- P1. unfold pending. rewrite Hw, (EO1 He). reflexivity. }
      rewrite PE. cbn [spec_gl].
      assert (PE1 : pending st1 src1 = []) by (rewrite P1; exact PE).
      destruct (lenN line =? 0);
        [|destruct ((0 <? lenN (trim_flags flags line)) || negb (flag_skip_empty flags))];
        cbn [run]; intro E; inversion E; subst r w' t rest; cbn [w_in w_src w_out w_file];
        rewrite PE1; (split; [reflexivity|]); (split; [exact W1|]); (split; [exact EO1|]);
        (split; [exact RB1|]); split; reflexivity.
    + destruct HG as (Hwd & Hne & _).
      assert (PW : pending (w_in w) (w_src w) = wd ++ src1).
      { rewrite <- P1. unfold pending. rewrite <- Hwd. reflexivity. }
      assert (Lwd : 0 < lenN wd) by (destruct wd; [contradiction|rewrite lenN_cons; lia]).
      destruct (split_nl wd) as [pre found] eqn:ES.
      pose proof (lenN_split_nl_pre _ _ _ ES) as Lpre.
      destruct found.
      * destruct (split_nl_found _ _ ES) as (w2 & Ewd & Hs).
        cbn [run w_in w_src w_out w_file].
        destruct (advance_any bufsz st1 src1 (lenN pre + 1) W1) as (W2 & P2 & _ & Ee2).
        assert (Lw : lenN wd = lenN pre + 1 + lenN w2).
        { rewrite Ewd, lenN_app, lenN_cons. lia. }
        rewrite <- Hwd in P2. rewrite N.min_l in P2 by lia.
        assert (PA : pending (advance_buffer st1 (lenN pre + 1)) src1 = w2 ++ src1).
        { rewrite P2. unfold pending. rewrite <- Hwd. rewrite Ewd.
          replace (pre ++ 10 :: w2) with ((pre ++ [10]) ++ w2) by (rewrite <- app_assoc; reflexivity).
          rewrite <- app_assoc.
          replace (lenN pre + 1) with (lenN (pre ++ [10])) by (rewrite lenN_app; cbn; lia).
          apply dropN_app_exact. }
        assert (EO2 : eof_ok (advance_buffer st1 (lenN pre + 1)) src1).
        { unfold eof_ok. rewrite Ee2. exact EO1. }
        rewrite PW, Hs. cbn zeta.
        destruct ((0 <? lenN (trim_flags flags (strip_cr (line ++ pre)))) || negb (flag_skip_empty flags)).
        -- cbn [run]. intro E; inversion E; subst r w' t rest; cbn [w_in w_src w_out w_file].
           rewrite PA. split; [reflexivity|]. split; [exact W2|]. split; [exact EO2|].
           split; [exact RB1|]. split; reflexivity.
        -- set (w1 := {| w_in := advance_buffer st1 (lenN pre + 1); w_src := src1; w_out := w_out w; w_file := w_file w |}).
           destruct (run bufsz zchunk (get_line_c f flags [] (skipped + 1)) w1 rest1) as [[[r2 w2'] t2] rest2] eqn:ER.
           intro E; injection E as <- <- <- <-.
           assert (Hf2 : lenN (pending (w_in w1) (w_src w1)) < N.of_nat f).
           { unfold w1; cbn [w_in w_src]. rewrite PA. rewrite PW in Hfuel.
             rewrite lenN_app in *. rewrite Nat2N.inj_succ in Hfuel. lia. }
           destruct (IH [] (skipped + 1) w1 rest1 r2 w2' t2 rest2 W2 EO2 RB1 Hf2 ER)
             as (R2 & W3 & EO3 & B3 & O3 & F3).
           unfold w1 in R2, O3, F3; cbn [w_in w_src w_out w_file] in R2, O3, F3. rewrite PA in R2.
           split; [exact R2|]. split; [exact W3|]. split; [exact EO3|]. split; [exact B3|]. split; assumption.
      * destruct (split_nl_notfound _ _ ES) as [-> Hs].
        cbn [run w_in w_src w_out w_file].
        destruct (advance_any bufsz st1 src1 (lenN wd) W1) as (W2 & P2 & _ & Ee2).
        rewrite <- Hwd in P2. rewrite N.min_l in P2 by lia.
        assert (PA : pending (advance_buffer st1 (lenN wd)) src1 = src1).
        { rewrite P2. unfold pending. rewrite <- Hwd. apply dropN_app_exact. }
        assert (EO2 : eof_ok (advance_buffer st1 (lenN wd)) src1).
        { unfold eof_ok. rewrite Ee2. exact EO1. }
        set (w1 := {| w_in := advance_buffer st1 (lenN wd); w_src := src1; w_out := w_out w; w_file := w_file w |}).
        destruct (run bufsz zchunk (get_line_c f flags (line ++ wd) skipped) w1 rest1) as [[[r2 w2'] t2] rest2] eqn:ER.
        intro E; injection E as <- <- <- <-.
        assert (Hf2 : lenN (pending (w_in w1) (w_src w1)) < N.of_nat f).
        { unfold w1; cbn [w_in w_src]. rewrite PA. rewrite PW in Hfuel.
          rewrite lenN_app in Hfuel. rewrite Nat2N.inj_succ in Hfuel. lia. }
        destruct (IH (line ++ wd) skipped w1 rest1 r2 w2' t2 rest2 W2 EO2 RB1 Hf2 ER)
          as (R2 & W3 & EO3 & B3 & O3 & F3).
        unfold w1 in R2, O3, F3; cbn [w_in w_src w_out w_file] in R2, O3, F3. rewrite PA in R2.
        rewrite PW, Hs.
        split; [exact R2|]. split; [exact W3|]. split; [exact EO3|]. split; [exact B3|]. split; assumption.
Qed.

(* ------------------------------------------------------------------ *)
(* sqfs_istream_splice on benign streams                                *)
(* ------------------------------------------------------------------ *)

(* the output stream after [d] has been appended (in one piece or in many) *)
Definition append_data (o : ostate) (d : list N) : ostate := append_state o (Some d) (lenN d).

Lemma append_data_app o a b : append_data (append_data o a) b = append_data o (a ++ b).
Proof.
  unfold append_data, append_state. rewrite lenN_app.
  destruct (N.eqb_spec (lenN a) 0) as [Ea|Ea].
  - rewrite (lenN_zero _ Ea). cbn [app lenN length N.of_nat N.add]. reflexivity.
  - destruct (N.eqb_spec (lenN b) 0) as [Eb|Eb].
    + rewrite (lenN_zero _ Eb), app_nil_r.
      replace (lenN a + lenN [] =? 0) with false by (symmetry; apply N.eqb_neq; cbn; lia). reflexivity.
    + replace (lenN a + lenN b =? 0) with false by (symmetry; apply N.eqb_neq; lia).
      cbn [o_content o_sparse o_nosparse]. rewrite zerosN_0, app_nil_r, <- !app_assoc. reflexivity.
Qed.

Lemma append_data_nil o : append_data o [] = o.
Proof. reflexivity. Qed.

Theorem splice_spec bufsz zchunk : 0 < bufsz -> 0 < zchunk ->
  forall fuel size total w outs r w' t rest,
  wf bufsz (w_in w) -> eof_ok (w_in w) (w_src w) -> benign outs ->
  size <= N.of_nat fuel ->
  run bufsz zchunk (splice_c fuel size total) w outs = (r, w', t, rest) ->
  let P := pending (w_in w) (w_src w) in
  r = RRet (total + lenN (takeN size P)) [] /\
  pending (w_in w') (w_src w') = dropN size P /\
  w_out w' = append_data (w_out w) (takeN size P) /\
  wf bufsz (w_in w') /\ eof_ok (w_in w') (w_src w') /\ benign rest /\ w_file w' = w_file w.
Proof.
  intros Hbz Hz. induction fuel as [|f IH]; intros size total w outs r w' t rest Hwf Heo Hb Hfuel; cbn [splice_c].
  - assert (size = 0) by (cbn in Hfuel; lia). subst size. cbn [N.eqb run].
    intro E; inversion E; subst r w' t rest. cbn zeta. rewrite takeN_0, dropN_0. cbn [lenN length N.of_nat].
    rewrite N.add_0_r. repeat (split; [first [reflexivity|assumption]|]). reflexivity.
  - destruct (N.eqb_spec size 0) as [Hs|Hs].
    + subst size. cbn [run]. intro E; inversion E; subst r w' t rest. cbn zeta.
      rewrite takeN_0, dropN_0. cbn [lenN length N.of_nat].
      rewrite N.add_0_r. repeat (split; [first [reflexivity|assumption]|]). reflexivity.
    + cbn [run].
      destruct (get_buffered_data bufsz (w_in w) (w_src w) size outs) as [[[[g st1] src1] t1] rest1] eqn:EG.
      destruct (gbd_any _ _ _ _ _ _ _ _ _ _ Hbz Hwf EG) as (W1 & P1 & EO1 & B1 & HG).
      destruct (B1 Hb) as [TB1 RB1]. destruct (trace_benign_no_fail _ TB1) as [NF1 NZ1].
      specialize (EO1 Heo NZ1). cbn zeta.
      destruct g as [e| |wd].
      * destruct HG as [_ HF]. congruence.
      * destruct HG as (Hw & He & _).
        assert (PE : pending (w_in w) (w_src w) = []).
        { rewrite <- P1. unfold pending. rewrite Hw, (EO1 He). reflexivity. }
        cbn [run]. intro E; inversion E; subst r w' t rest; cbn [w_in w_src w_out w_file].
        rewrite PE, takeN_nil, dropN_nil. cbn [lenN length N.of_nat]. rewrite N.add_0_r, P1, PE.
        repeat (split; [first [reflexivity|assumption]|]). reflexivity.
      * destruct HG as (Hwd & Hne & _).
        assert (PW : pending (w_in w) (w_src w) = wd ++ src1).
        { rewrite <- P1. unfold pending. rewrite <- Hwd. reflexivity. }
        assert (Lwd : 0 < lenN wd) by (destruct wd; [contradiction|rewrite lenN_cons; lia]).
        cbn [run w_in w_src w_out w_file].
        set (d := takeN size wd).
        assert (Ld : lenN d = N.min size (lenN wd)) by (unfold d; apply lenN_takeN).
        destruct (ostream_append_spec zchunk (w_out w) (Some d) (lenN d) rest1 Hz RB1) as (ta & resta & EA & RBa & _).
        rewrite EA. cbn [run w_in w_src w_out w_file].
        fold (append_data (w_out w) d).
        set (w1 := {| w_in := advance_buffer st1 (lenN d); w_src := src1; w_out := append_data (w_out w) d;
                      w_file := w_file w |}).
        destruct (run bufsz zchunk (splice_c f (size - lenN d) (total + lenN d)) w1 resta) as [[[r2 w2] t2] rest2] eqn:ER.
        intro E; injection E as <- <- <- <-.
        destruct (advance_any bufsz st1 src1 (lenN d) W1) as (W2 & P2 & _ & Ee2).
        rewrite <- Hwd in P2. rewrite N.min_l in P2 by lia.
        assert (EO2 : eof_ok (advance_buffer st1 (lenN d)) src1).
        { unfold eof_ok. rewrite Ee2. exact EO1. }
        assert (Hf2 : size - lenN d <= N.of_nat f) by (rewrite Nat2N.inj_succ in Hfuel; lia).
        destruct (IH (size - lenN d) (total + lenN d) w1 resta r2 w2 t2 rest2 W2 EO2 RBa Hf2 ER)
          as (R2 & PP2 & O2 & W3 & EO3 & B3 & F3).
        unfold w1 in R2, PP2, O2, F3; cbn [w_in w_src w_out w_file] in R2, PP2, O2, F3.
        assert (PD : pending (advance_buffer st1 (lenN d)) src1 = dropN (lenN d) (wd ++ src1)).
        { rewrite P2. unfold pending. rewrite <- Hwd. reflexivity. }
        rewrite PD in R2, PP2, O2.
        assert (TD : takeN (lenN d) (wd ++ src1) = d).
        { unfold d. rewrite lenN_takeN, takeN_app.
          replace (N.min size (lenN wd) - lenN wd) with 0 by lia. rewrite takeN_0, app_nil_r.
          destruct (N.le_gt_cases size (lenN wd)); [rewrite N.min_l by lia; reflexivity|].
          rewrite N.min_r by lia. rewrite !takeN_all by lia. reflexivity. }
        assert (SPL : takeN size (wd ++ src1) = d ++ takeN (size - lenN d) (dropN (lenN d) (wd ++ src1))).
        { replace size with (lenN d + (size - lenN d)) at 1 by lia. rewrite takeN_add, TD. reflexivity. }
        rewrite PW, SPL.
        split; [rewrite R2, lenN_app; f_equal; lia|].
        split; [rewrite PP2, dropN_dropN; f_equal; lia|].
        split; [rewrite O2, append_data_app; reflexivity|].
        repeat (split; [assumption|]). exact F3.
Qed.

(* sqfs_istream_splice proper: the 0x7FFFFFFF clamp, total starts at 0 *)
Theorem istream_splice_spec bufsz zchunk fuel size w outs r w' t rest :
  0 < bufsz -> 0 < zchunk ->
  wf bufsz (w_in w) -> eof_ok (w_in w) (w_src w) -> benign outs ->
  clamp32 size <= N.of_nat fuel ->
  run bufsz zchunk (istream_splice fuel size) w outs = (r, w', t, rest) ->
  let P := pending (w_in w) (w_src w) in
  r = RRet (lenN (takeN (clamp32 size) P)) [] /\
  pending (w_in w') (w_src w') = dropN (clamp32 size) P /\
  w_out w' = append_data (w_out w) (takeN (clamp32 size) P) /\
  wf bufsz (w_in w') /\ eof_ok (w_in w') (w_src w') /\ benign rest /\ w_file w' = w_file w.
Proof.
  intros Hbz Hz Hwf Heo Hb Hfuel. unfold istream_splice. fold (clamp32 size). intro E.
  exact (splice_spec bufsz zchunk Hbz Hz fuel (clamp32 size) 0 w outs r w' t rest Hwf Heo Hb Hfuel E).
Qed.
