(* C12 extension (session 3): the output side on EVERY outcome stream -- zero_fill,
   realize_sparse, file_append, file_flush (ostream.c) and sqfs_istream_splice (stream_api.c):
   a success delivered everything (holes as zeros, data in full); a failed call (EAGAIN included,
   see Eagain.v) is an error. *)
From Coq Require Import List NArith ZArith Bool Lia.
From SqfsV Require Import Gen.Constants C12.ListN C12.IoModel C12.RetryProofs C12.IStreamProofs
  C12.GetLineProofs.
Import ListNotations.
Local Open Scope N_scope.

Lemma has_fail_failed t : has_fail t = true -> has_failed t = true.
Proof.
  unfold has_fail, has_failed. rewrite !existsb_exists. intros (x & Hin & Hx). exists x. split; [exact Hin|].
  unfold fail_rec in Hx. unfold failed_rec. destruct (snd x); try discriminate; reflexivity.
Qed.

Lemma zero_fill_ok bufsz : 0 < bufsz -> forall fuel sparse outs n s t rest,
  sparse <= N.of_nat fuel * bufsz ->
  zero_fill fuel bufsz sparse outs = (Ok tt, n, s, t, rest) -> n = sparse /\ s = 0.
Proof.
  intro Hpos. induction fuel as [|f IH]; intros sparse outs n s t rest Hf; cbn [zero_fill].
  - assert (sparse = 0) by lia. subst. cbn. intro E; inversion E; subst. split; reflexivity.
  - destruct (N.eqb_spec sparse 0) as [->|Hs].
    + intro E; inversion E; subst. split; reflexivity.
    + destruct (write_all (zerosN (N.min bufsz sparse)) outs) as [[[r1 wr] t1] rest1] eqn:EW.
      destruct (write_all_any _ _ _ _ _ _ EW) as (_ & _ & Hok & _).
      destruct r1 as [u|e]; [|intro E; discriminate E].
      destruct u. rewrite (Hok eq_refl), lenN_zerosN.
      destruct (zero_fill f bufsz (sparse - N.min bufsz sparse) rest1) as [[[[r2 n2] s2] t2] rest2] eqn:EZ.
      intro E; inversion E; subst.
      assert (Hf' : sparse - N.min bufsz sparse <= N.of_nat f * bufsz).
      { rewrite Nat2N.inj_succ, N.mul_succ_l in Hf. lia. }
      destruct (IH _ _ _ _ _ _ Hf' EZ) as [-> ->]. split; [lia|reflexivity].
Qed.

(* realize_sparse on every stream: success = the hole is there in full; a failed call = error *)
Lemma realize_sparse_any zchunk o outs r o' t rest :
  0 < zchunk -> realize_sparse zchunk o outs = (r, o', t, rest) ->
  (r = Ok tt -> o' = realized o) /\ (has_fail t = true -> is_err r = true).
Proof.
  intros Hz. unfold realize_sparse, realized.
  destruct (N.eqb_spec (o_sparse o) 0) as [E0|E0].
  - intro E; inversion E; subst. split; [|discriminate]. intros _.
    rewrite E0, zerosN_0, app_nil_r. destruct o' as [c s ns]. cbn in *. subst. reflexivity.
  - destruct (o_nosparse o) eqn:NS.
    + set (bufsz := if zchunk <? o_sparse o then zchunk else o_sparse o).
      assert (Hbz : 0 < bufsz) by (unfold bufsz; destruct (N.ltb_spec zchunk (o_sparse o)); lia).
      assert (Hfuel : o_sparse o <= N.of_nat (S (N.to_nat (o_sparse o / bufsz))) * bufsz).
      { rewrite Nat2N.inj_succ, N2Nat.id.
        pose proof (N.mul_succ_div_gt (o_sparse o) bufsz ltac:(lia)). lia. }
      destruct (zero_fill _ bufsz (o_sparse o) outs) as [[[[r1 n] s'] t1] rest1] eqn:EZ.
      intro E; inversion E; subst. split.
      * intros ->. destruct (zero_fill_ok bufsz Hbz _ _ _ _ _ _ _ Hfuel EZ) as [-> ->]. reflexivity.
      * intro HF. destruct (zero_fill_any _ _ _ _ _ _ _ _ _ EZ) as [Hf _]. apply Hf, has_fail_failed, HF.
    + destruct (ftruncate_loop (lenN (o_content o) + o_sparse o) outs) as [[r1 t1] rest1] eqn:EF.
      destruct (ftruncate_loop_any _ _ _ _ _ EF) as [Hf _].
      destruct r1 as [u|e]; intro E; inversion E; subst.
      * split; [reflexivity|]. intro HF. exact (Hf HF).
      * split; [discriminate|reflexivity].
Qed.

(* file_append / file_flush on every stream *)
Lemma ostream_append_any zchunk o data n outs r o' t rest :
  0 < zchunk -> ostream_append zchunk o data n outs = (r, o', t, rest) ->
  (r = Ok tt -> o' = append_state o data n) /\ (has_fail t = true -> is_err r = true).
Proof.
  intros Hz. unfold ostream_append, append_state. destruct data as [d|].
  - destruct (N.eqb_spec (lenN d) 0) as [E0|E0].
    + intro E; inversion E; subst. split; [reflexivity|discriminate].
    + destruct (realize_sparse zchunk o outs) as [[[r1 o1] t1] rest1] eqn:ER.
      destruct (realize_sparse_any _ _ _ _ _ _ _ Hz ER) as [Hok Hf].
      destruct r1 as [u|e].
      * destruct u. rewrite (Hok eq_refl).
        destruct (write_all d rest1) as [[[r2 wr] t2] rest2] eqn:EW.
        destruct (write_all_any _ _ _ _ _ _ EW) as (_ & Hf2 & Hok2 & _).
        intro E; inversion E; subst. split.
        -- intros ->. rewrite (Hok2 eq_refl). reflexivity.
        -- rewrite has_fail_app. intro HF. apply orb_true_iff in HF. destruct HF as [HF|HF].
           ++ specialize (Hf HF). discriminate Hf.
           ++ apply Hf2, has_fail_failed, HF.
      * intro E; inversion E; subst. split; [discriminate|reflexivity].
  - intro E; inversion E; subst. split; [reflexivity|discriminate].
Qed.

Lemma ostream_flush_any zchunk o outs r o' t rest :
  0 < zchunk -> ostream_flush zchunk o outs = (r, o', t, rest) ->
  (r = Ok tt -> o' = realized o) /\ (has_fail t = true -> is_err r = true).
Proof. exact (realize_sparse_any zchunk o outs r o' t rest). Qed.

(* ------------------------------------------------------------------ *)
(* sqfs_istream_splice on every stream                                  *)
(* ------------------------------------------------------------------ *)

(* [got] = the bytes taken off the input.  A success moved exactly [got] to the output stream, in
   order, and stopped short of [size] only at the real end of the input; a failed call on either
   side is an error (and then at most the piece in flight is affected: the input still holds
   everything that was not appended) *)
Theorem splice_any bufsz zchunk : 0 < bufsz -> 0 < zchunk ->
  forall fuel size total w outs r w' t rest,
  wf bufsz (w_in w) -> size <= N.of_nat fuel ->
  run bufsz zchunk (splice_c fuel size total) w outs = (r, w', t, rest) ->
  wf bufsz (w_in w') /\ w_file w' = w_file w /\
  (eof_ok (w_in w) (w_src w) -> has_zero t = false -> eof_ok (w_in w') (w_src w')) /\
  exists got,
    pending (w_in w) (w_src w) = got ++ pending (w_in w') (w_src w') /\ lenN got <= size /\
    match r with
    | RRet n d => d = [] /\ n = total + lenN got /\ has_fail t = false /\
                  w_out w' = append_data (w_out w) got /\
                  (lenN got < size -> window (w_in w') = [] /\ i_eof (w_in w') = true)
    | RErr e => True
    | RFuel => False
    end.
Proof.
  intros Hbz Hz. induction fuel as [|f IH]; intros size total w outs r w' t rest Hwf Hfuel; cbn [splice_c].
  - assert (size = 0) by (cbn in Hfuel; lia). subst size. cbn [N.eqb run].
    intro E; inversion E; subst r w' t rest. split; [exact Hwf|]. split; [reflexivity|]. split; [auto|].
    exists []. cbn [app lenN length N.of_nat]. split; [reflexivity|]. split; [lia|].
    rewrite N.add_0_r, append_data_nil. repeat (split; [reflexivity|]). lia.
  - destruct (N.eqb_spec size 0) as [Hs|Hs].
    + subst size. cbn [run]. intro E; inversion E; subst r w' t rest.
      split; [exact Hwf|]. split; [reflexivity|]. split; [auto|].
      exists []. cbn [app lenN length N.of_nat]. split; [reflexivity|]. split; [lia|].
      rewrite N.add_0_r, append_data_nil. repeat (split; [reflexivity|]). lia.
    + cbn [run].
      destruct (get_buffered_data bufsz (w_in w) (w_src w) size outs) as [[[[g st1] src1] t1] rest1] eqn:EG.
      destruct (gbd_any _ _ _ _ _ _ _ _ _ _ Hbz Hwf EG) as (W1 & P1 & EO1 & _ & HG).
      destruct g as [e| |wd].
      * destruct HG as [He HF]. cbn [run]. intro E; inversion E; subst r w' t rest; cbn [w_in w_src w_out w_file].
        rewrite app_nil_r. split; [exact W1|]. split; [reflexivity|]. split; [exact EO1|].
        exists []. cbn [app lenN length N.of_nat]. split; [symmetry; exact P1|]. split; [lia|].
        exact I.
      * destruct HG as (Hw & He & HF). cbn [run]. intro E; inversion E; subst r w' t rest; cbn [w_in w_src w_out w_file].
        rewrite app_nil_r. split; [exact W1|]. split; [reflexivity|]. split; [exact EO1|].
        exists []. cbn [app lenN length N.of_nat]. split; [symmetry; exact P1|]. split; [lia|].
        rewrite N.add_0_r, append_data_nil. split; [reflexivity|]. split; [reflexivity|]. split; [exact HF|].
        split; [reflexivity|]. intros _. split; assumption.
      * destruct HG as (Hwd & Hne & HF).
        assert (PW : pending (w_in w) (w_src w) = wd ++ src1).
        { rewrite <- P1. unfold pending. rewrite <- Hwd. reflexivity. }
        assert (Lwd : 0 < lenN wd) by (destruct wd; [contradiction|rewrite lenN_cons; lia]).
        cbn [run w_in w_src w_out w_file].
        set (d := takeN size wd).
        assert (Ld : lenN d = N.min size (lenN wd)) by (unfold d; apply lenN_takeN).
        destruct (ostream_append zchunk (w_out w) (Some d) (lenN d) rest1) as [[[x o1] ta] resta] eqn:EA.
        destruct (ostream_append_any _ _ _ _ _ _ _ _ _ Hz EA) as [Aok Af].
        destruct x as [u|e].
        -- destruct u. specialize (Aok eq_refl). fold (append_data (w_out w) d) in Aok. subst o1.
           assert (NFa : has_fail ta = false).
           { destruct (has_fail ta); [specialize (Af eq_refl); discriminate Af|reflexivity]. }
           cbn [run w_in w_src w_out w_file].
           set (w1 := {| w_in := advance_buffer st1 (lenN d); w_src := src1; w_out := append_data (w_out w) d;
                         w_file := w_file w |}).
           destruct (run bufsz zchunk (splice_c f (size - lenN d) (total + lenN d)) w1 resta) as [[[r2 w2] t2] rest2] eqn:ER.
           intro E; injection E as <- <- <- <-.
           destruct (advance_any bufsz st1 src1 (lenN d) W1) as (W2 & P2 & _ & Ee2).
           rewrite <- Hwd in P2. rewrite N.min_l in P2 by lia.
           assert (Hf2 : size - lenN d <= N.of_nat f) by (rewrite Nat2N.inj_succ in Hfuel; lia).
           destruct (IH (size - lenN d) (total + lenN d) w1 resta r2 w2 t2 rest2 W2 Hf2 ER)
             as (W3 & F3 & EO3 & got2 & PG2 & LG2 & M2).
           unfold w1 in F3, EO3, PG2, M2; cbn [w_in w_src w_out w_file] in F3, EO3, PG2, M2.
           assert (TD : wd = d ++ dropN (lenN d) wd).
           { unfold d. rewrite lenN_takeN.
             destruct (N.le_gt_cases size (lenN wd)); [rewrite N.min_l by lia; symmetry; apply takeN_dropN|].
             rewrite N.min_r by lia. rewrite takeN_all, dropN_all by lia. rewrite app_nil_r. reflexivity. }
           assert (PD : pending (advance_buffer st1 (lenN d)) src1 = dropN (lenN d) wd ++ src1).
           { rewrite P2. unfold pending. rewrite <- Hwd. rewrite TD at 1. rewrite <- app_assoc.
             apply dropN_app_exact. }
           rewrite PD in PG2.
           split; [exact W3|]. split; [exact F3|].
           split.
           { intros Heo NZ. rewrite !has_zero_app in NZ.
             apply orb_false_elim in NZ as [Z1 Z23]. apply orb_false_elim in Z23 as [Z2 Z3].
             apply EO3; [|exact Z3]. unfold eof_ok. rewrite Ee2. exact (EO1 Heo Z1). }
           exists (d ++ got2). split.
           { rewrite PW, TD at 1. rewrite <- !app_assoc. f_equal. exact PG2. }
           split; [rewrite lenN_app; lia|].
           destruct r2 as [n2 d2|e2|].
           ++ destruct M2 as (Hd2 & Hn2 & HF2 & HO2 & HS2).
              split; [exact Hd2|]. split; [rewrite lenN_app; lia|].
              split; [rewrite !has_fail_app, HF, NFa, HF2; reflexivity|].
              split; [rewrite HO2, append_data_app; reflexivity|].
              intro Hlt. apply HS2. rewrite lenN_app in Hlt. lia.
           ++ exact I.
           ++ exact M2.
        -- cbn [run]. intro E; inversion E; subst r w' t rest; cbn [w_in w_src w_out w_file].
           rewrite app_nil_r. split; [exact W1|]. split; [reflexivity|].
           split.
           { intros Heo NZ. rewrite has_zero_app in NZ. apply orb_false_elim in NZ as [Z1 _]. exact (EO1 Heo Z1). }
           exists []. cbn [app lenN length N.of_nat]. split; [symmetry; exact P1|]. split; [lia|].
           exact I.
Qed.
