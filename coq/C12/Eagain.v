(* C12 extension (session 3): errno in the kernel outcome stream.

   IoModel.v's oracle has one outcome [Fail] for "-1 with any errno other than EINTR".  Here the
   kernel's answer carries the errno itself, so that EAGAIN (a non-blocking descriptor that has
   run dry for now) is an outcome of its own, distinct from the 0 result (end of file / EPIPE
   case) and from EINTR:

       KXfer n      ret > 0 (as Xfer n)
       KZero        ret == 0
       KErrno e     ret < 0, errno = e          Eagain = KErrno 11, KErrno 4 = EINTR

   The five call sites are re-modelled over this stream with the errno test of the C code
   written out (all five read:  if (errno == EINTR) continue; return SQFS_ERROR_IO;  -- there is
   no EAGAIN/EWOULDBLOCK test anywhere in lib/sqfs/src/io, so a would-block is a hard error;
   istream.c tests ret == 0 before ret < 0, ostream.c likewise, file.c tests ret < 0 first):

       refill_k         istream.c precache's while loop          (read)
       write_all_k      ostream.c write_all                      (write)
       read_at_loop_k   file.c stdio_read_at                     (pread)
       write_at_loop_k  file.c stdio_write_at                    (pwrite)
       ftruncate_loop_k unix.c sqfs_native_file_seek(TRUNCATE)   (ftruncate)

   and each is proved equal to the IoModel loop on the stream [map classify ks]
   ([*_k_sim]).  Everything above the five loops (zero_fill, realize_sparse, append, flush,
   precache, get_buffered_data, run and all clients) never inspects an outcome, it only threads
   the stream through; [run_k] is therefore [run] on the classified stream. *)
From Coq Require Import List NArith ZArith Bool Lia.
From SqfsV Require Import Gen.Constants C12.ListN C12.IoModel.
Import ListNotations.
Local Open Scope N_scope.

Inductive kout := KXfer (n : N) | KZero | KErrno (e : N).

(* Linux values; the tie prints the harness's EINTR/EAGAIN/EIO and compares *)
Definition c_EINTR : N := 4.
Definition c_EIO : N := 5.
Definition c_EAGAIN : N := 11.
Definition Eagain : kout := KErrno c_EAGAIN.

(* what a call site makes of an answer: the (errno == EINTR) test is the only errno test *)
Definition classify (k : kout) : outcome :=
  match k with
  | KXfer n => Xfer n
  | KZero => Zero
  | KErrno e => if e =? c_EINTR then Eintr else Fail
  end.

(* istream.c precache:
     while (buffer_used < BUFSZ) { ret = read(...);
        if (ret == 0) { eof = true; break; }
        if (ret < 0) { if (errno == EINTR) continue; return SQFS_ERROR_IO; }
        buffer_used += ret; } *)
Fixpoint refill_k (bufsz used : N) (src : list N) (ks : list kout)
  : res unit * list N * bool * list N * list sysrec * list kout :=
  if bufsz <=? used then (Ok tt, [], false, src, [], ks) else
  let req := bufsz - used in
  match ks with
  | [] =>
      let d := takeN req src in
      if lenN d =? req then (Ok tt, d, false, dropN req src, [(KRead, req, 0, Xfer req)], [])
      else if lenN d =? 0 then (Ok tt, [], true, src, [(KRead, req, 0, Xfer req)], [])
      else (Ok tt, d, true, dropN req src,
            [(KRead, req, 0, Xfer req); (KRead, req - lenN d, 0, Xfer (req - lenN d))], [])
  | k :: ks' =>
      let rec := (KRead, req, 0, classify k) in
      match k with
      | KZero => (Ok tt, [], true, src, [rec], ks')                   (* ret == 0 *)
      | KErrno e =>                                                   (* ret < 0 *)
          if e =? c_EINTR then
            let '(r, g, e', s, t, rest) := refill_k bufsz used src ks' in (r, g, e', s, rec :: t, rest)
          else (Err e_io, [], false, src, [rec], ks')
      | KXfer n =>
          let k := xfer_count n req in
          let d := takeN k src in
          if lenN d =? 0 then (Ok tt, [], true, src, [rec], ks')
          else
            let '(r, g, e, s, t, rest) := refill_k bufsz (used + lenN d) (dropN k src) ks' in
            (r, d ++ g, e, s, rec :: t, rest)
      end
  end.

(* ostream.c write_all:
     ret = write(...); if (ret == 0) { errno = EPIPE; return SQFS_ERROR_IO; }
     if (ret < 0) { if (errno == EINTR) continue; return SQFS_ERROR_IO; } *)
Fixpoint write_all_k (data : list N) (ks : list kout)
  : res unit * list N * list sysrec * list kout :=
  if lenN data =? 0 then (Ok tt, [], [], ks) else
  match ks with
  | [] => (Ok tt, data, [(KWrite, lenN data, 0, Xfer (lenN data))], [])
  | k :: ks' =>
      let rec := (KWrite, lenN data, 0, classify k) in
      match k with
      | KZero => (Err e_io, [], [rec], ks')
      | KErrno e =>
          if e =? c_EINTR then
            let '(r, wr, t, rest) := write_all_k data ks' in (r, wr, rec :: t, rest)
          else (Err e_io, [], [rec], ks')
      | KXfer n =>
          let k := xfer_count n (lenN data) in
          let '(r, wr, t, rest) := write_all_k (dropN k data) ks' in
          (r, takeN k data ++ wr, rec :: t, rest)
      end
  end.

(* file.c stdio_read_at:
     if (ret < 0) { if (errno == EINTR) continue; return SQFS_ERROR_IO; }
     if (ret == 0) return SQFS_ERROR_OUT_OF_BOUNDS; *)
Fixpoint read_at_loop_k (content : list N) (off size : N) (ks : list kout)
  : res unit * list N * list sysrec * list kout :=
  if size =? 0 then (Ok tt, [], [], ks) else
  match ks with
  | [] =>
      let d := takeN size (dropN off content) in
      if lenN d =? size then (Ok tt, d, [(KPread, size, off, Xfer size)], [])
      else if lenN d =? 0 then (Err e_oob, [], [(KPread, size, off, Xfer size)], [])
      else (Err e_oob, d,
            [(KPread, size, off, Xfer size);
             (KPread, size - lenN d, off + lenN d, Xfer (size - lenN d))], [])
  | k :: ks' =>
      let rec := (KPread, size, off, classify k) in
      match k with
      | KErrno e =>
          if e =? c_EINTR then
            let '(r, g, t, rest) := read_at_loop_k content off size ks' in (r, g, rec :: t, rest)
          else (Err e_io, [], [rec], ks')
      | KZero => (Err e_oob, [], [rec], ks')
      | KXfer n =>
          let d := takeN (xfer_count n size) (dropN off content) in
          if lenN d =? 0 then (Err e_oob, [], [rec], ks')
          else
            let '(r, g, t, rest) := read_at_loop_k content (off + lenN d) (size - lenN d) ks' in
            (r, d ++ g, rec :: t, rest)
      end
  end.

(* file.c stdio_write_at: same tests as stdio_read_at *)
Fixpoint write_at_loop_k (off : N) (data : list N) (ks : list kout)
  : res unit * list N * list sysrec * list kout :=
  if lenN data =? 0 then (Ok tt, [], [], ks) else
  match ks with
  | [] => (Ok tt, data, [(KPwrite, lenN data, off, Xfer (lenN data))], [])
  | k :: ks' =>
      let rec := (KPwrite, lenN data, off, classify k) in
      match k with
      | KErrno e =>
          if e =? c_EINTR then
            let '(r, wr, t, rest) := write_at_loop_k off data ks' in (r, wr, rec :: t, rest)
          else (Err e_io, [], [rec], ks')
      | KZero => (Err e_oob, [], [rec], ks')
      | KXfer n =>
          let k := xfer_count n (lenN data) in
          let d := takeN k data in
          let '(r, wr, t, rest) := write_at_loop_k (off + lenN d) (dropN k data) ks' in
          (r, d ++ wr, rec :: t, rest)
      end
  end.

(* unix.c: while (ftruncate(fd, off) != 0) { if (errno != EINTR) return SQFS_ERROR_IO; } *)
Fixpoint ftruncate_loop_k (len : N) (ks : list kout) : res unit * list sysrec * list kout :=
  match ks with
  | [] => (Ok tt, [(KTrunc, 1, len, Xfer 1)], [])
  | k :: ks' =>
      let rec := (KTrunc, 1, len, classify k) in
      match k with
      | KErrno e =>
          if e =? c_EINTR then let '(r, t, rest) := ftruncate_loop_k len ks' in (r, rec :: t, rest)
          else (Err e_io, [rec], ks')
      | _ => (Ok tt, [rec], ks')
      end
  end.

(* ------------------------------------------------------------------ *)
(* the five loops are the IoModel loops on the classified stream        *)
(* ------------------------------------------------------------------ *)

Lemma refill_k_sim bufsz : forall ks used src,
  refill bufsz used src (map classify ks) =
  let '(r, g, e, s, t, rest) := refill_k bufsz used src ks in (r, g, e, s, t, map classify rest).
Proof.
  induction ks as [|k ks IH]; intros used src.
  - cbn [map refill refill_k]. destruct (bufsz <=? used); [reflexivity|].
    destruct (lenN (takeN (bufsz - used) src) =? bufsz - used); [reflexivity|].
    destruct (lenN (takeN (bufsz - used) src) =? 0); reflexivity.
  - cbn [map refill refill_k]. destruct (bufsz <=? used); [reflexivity|].
    destruct k as [n| |e]; cbn [classify].
    + destruct (lenN (takeN (xfer_count n (bufsz - used)) src) =? 0); [reflexivity|].
      rewrite IH. destruct (refill_k bufsz _ _ ks) as [[[[[r g] e] s] t] rest]. reflexivity.
    + reflexivity.
    + destruct (e =? c_EINTR); [|reflexivity].
      rewrite IH. destruct (refill_k bufsz used src ks) as [[[[[r g] e'] s] t] rest]. reflexivity.
Qed.

Lemma write_all_k_sim : forall ks data,
  write_all data (map classify ks) =
  let '(r, wr, t, rest) := write_all_k data ks in (r, wr, t, map classify rest).
Proof.
  induction ks as [|k ks IH]; intros data.
  - cbn [map write_all write_all_k]. destruct (lenN data =? 0); reflexivity.
  - cbn [map write_all write_all_k]. destruct (lenN data =? 0); [reflexivity|].
    destruct k as [n| |e]; cbn [classify].
    + rewrite IH. destruct (write_all_k _ ks) as [[[r wr] t] rest]. reflexivity.
    + reflexivity.
    + destruct (e =? c_EINTR); [|reflexivity].
      rewrite IH. destruct (write_all_k data ks) as [[[r wr] t] rest]. reflexivity.
Qed.

Lemma read_at_loop_k_sim content : forall ks off size,
  read_at_loop content off size (map classify ks) =
  let '(r, g, t, rest) := read_at_loop_k content off size ks in (r, g, t, map classify rest).
Proof.
  induction ks as [|k ks IH]; intros off size.
  - cbn [map read_at_loop read_at_loop_k]. destruct (size =? 0); [reflexivity|].
    destruct (lenN (takeN size (dropN off content)) =? size); [reflexivity|].
    destruct (lenN (takeN size (dropN off content)) =? 0); reflexivity.
  - cbn [map read_at_loop read_at_loop_k]. destruct (size =? 0); [reflexivity|].
    destruct k as [n| |e]; cbn [classify].
    + destruct (lenN (takeN (xfer_count n size) (dropN off content)) =? 0); [reflexivity|].
      rewrite IH. destruct (read_at_loop_k content _ _ ks) as [[[r g] t] rest]. reflexivity.
    + reflexivity.
    + destruct (e =? c_EINTR); [|reflexivity].
      rewrite IH. destruct (read_at_loop_k content off size ks) as [[[r g] t] rest]. reflexivity.
Qed.

Lemma write_at_loop_k_sim : forall ks off data,
  write_at_loop off data (map classify ks) =
  let '(r, wr, t, rest) := write_at_loop_k off data ks in (r, wr, t, map classify rest).
Proof.
  induction ks as [|k ks IH]; intros off data.
  - cbn [map write_at_loop write_at_loop_k]. destruct (lenN data =? 0); reflexivity.
  - cbn [map write_at_loop write_at_loop_k]. destruct (lenN data =? 0); [reflexivity|].
    destruct k as [n| |e]; cbn [classify].
    + rewrite IH. destruct (write_at_loop_k _ _ ks) as [[[r wr] t] rest]. reflexivity.
    + reflexivity.
    + destruct (e =? c_EINTR); [|reflexivity].
      rewrite IH. destruct (write_at_loop_k off data ks) as [[[r wr] t] rest]. reflexivity.
Qed.

Lemma ftruncate_loop_k_sim len : forall ks,
  ftruncate_loop len (map classify ks) =
  let '(r, t, rest) := ftruncate_loop_k len ks in (r, t, map classify rest).
Proof.
  induction ks as [|k ks IH].
  - reflexivity.
  - cbn [map ftruncate_loop ftruncate_loop_k].
    destruct k as [n| |e]; cbn [classify]; try reflexivity.
    destruct (e =? c_EINTR); [|reflexivity].
    rewrite IH. destruct (ftruncate_loop_k len ks) as [[r t] rest]. reflexivity.
Qed.

(* the process level: nothing above the five loops looks at an outcome *)
Definition run_k (bufsz zchunk : N) {R : Type} (c : client R) (w : world) (ks : list kout)
  : R * world * list sysrec * list outcome :=
  run bufsz zchunk c w (map classify ks).

Definition run_ops_k (bufsz zchunk : N) (fuel : nat) (ops : list iop) (w : world) (ks : list kout) :=
  run_ops bufsz zchunk fuel ops w (map classify ks).

(* ------------------------------------------------------------------ *)
(* EAGAIN is not end-of-file: head-of-stream behaviour of the loops     *)
(* ------------------------------------------------------------------ *)

Definition hard (k : kout) : bool :=
  match k with KErrno e => negb (e =? c_EINTR) | _ => false end.

Lemma classify_hard k : hard k = true -> classify k = Fail.
Proof. destruct k as [n| |e]; cbn; try discriminate. destruct (e =? c_EINTR); [discriminate|reflexivity]. Qed.

Lemma hard_eagain : hard Eagain = true.
Proof. reflexivity. Qed.

(* read(): a would-block (any errno but EINTR) is SQFS_ERROR_IO with the eof flag clear; the 0
   result is success with the eof flag set *)
Lemma refill_k_hard bufsz used src e ks : used < bufsz -> hard (KErrno e) = true ->
  refill_k bufsz used src (KErrno e :: ks) = (Err e_io, [], false, src, [(KRead, bufsz - used, 0, Fail)], ks).
Proof.
  intros Hu Hh. cbn [refill_k]. replace (bufsz <=? used) with false by (symmetry; apply N.leb_gt; exact Hu).
  rewrite (classify_hard _ Hh). cbn in Hh. destruct (e =? c_EINTR); [discriminate|reflexivity].
Qed.

Lemma refill_k_zero bufsz used src ks : used < bufsz ->
  refill_k bufsz used src (KZero :: ks) = (Ok tt, [], true, src, [(KRead, bufsz - used, 0, Zero)], ks).
Proof.
  intros Hu. cbn [refill_k]. replace (bufsz <=? used) with false by (symmetry; apply N.leb_gt; exact Hu).
  reflexivity.
Qed.

Lemma write_all_k_hard data e ks : 0 < lenN data -> hard (KErrno e) = true ->
  write_all_k data (KErrno e :: ks) = (Err e_io, [], [(KWrite, lenN data, 0, Fail)], ks).
Proof.
  intros Hd Hh. cbn [write_all_k]. replace (lenN data =? 0) with false by (symmetry; apply N.eqb_neq; lia).
  rewrite (classify_hard _ Hh). cbn in Hh. destruct (e =? c_EINTR); [discriminate|reflexivity].
Qed.

Lemma read_at_loop_k_hard content off size e ks : 0 < size -> hard (KErrno e) = true ->
  read_at_loop_k content off size (KErrno e :: ks) = (Err e_io, [], [(KPread, size, off, Fail)], ks).
Proof.
  intros Hd Hh. cbn [read_at_loop_k]. replace (size =? 0) with false by (symmetry; apply N.eqb_neq; lia).
  rewrite (classify_hard _ Hh). cbn in Hh. destruct (e =? c_EINTR); [discriminate|reflexivity].
Qed.

Lemma write_at_loop_k_hard off data e ks : 0 < lenN data -> hard (KErrno e) = true ->
  write_at_loop_k off data (KErrno e :: ks) = (Err e_io, [], [(KPwrite, lenN data, off, Fail)], ks).
Proof.
  intros Hd Hh. cbn [write_at_loop_k]. replace (lenN data =? 0) with false by (symmetry; apply N.eqb_neq; lia).
  rewrite (classify_hard _ Hh). cbn in Hh. destruct (e =? c_EINTR); [discriminate|reflexivity].
Qed.

(* ------------------------------------------------------------------ *)
(* An Eagain in the middle of a stream: each loop EITHER finishes before *)
(* reaching it (it is still among the unused answers) OR consumes it and *)
(* returns SQFS_ERROR_IO with exactly the answers behind it left over    *)
(* ------------------------------------------------------------------ *)

(* answers that do not stop a loop by themselves: a transfer or EINTR *)
Definition soft (k : kout) : bool :=
  match k with KXfer _ => true | KErrno e => e =? c_EINTR | KZero => false end.

Lemma refill_k_mid bufsz e post : hard (KErrno e) = true -> forall pre used src,
  forallb soft pre = true ->
  let '(r, g, eof, s, t, rest) := refill_k bufsz used src (pre ++ KErrno e :: post) in
  (r = Err e_io /\ eof = false /\ rest = post) \/ (exists rest', rest = rest' ++ KErrno e :: post).
Proof.
  intro Hh. assert (He : (e =? c_EINTR) = false) by (cbn in Hh; destruct (e =? c_EINTR); [discriminate|reflexivity]).
  induction pre as [|k pre IH]; intros used src Hs.
  - cbn [app refill_k]. destruct (bufsz <=? used).
    + right. exists []. reflexivity.
    + rewrite He. left. repeat split; reflexivity.
  - cbn [forallb] in Hs. apply andb_true_iff in Hs as [Hk Hs].
    cbn [app refill_k]. destruct (bufsz <=? used).
    + right. exists (k :: pre). reflexivity.
    + destruct k as [n| |e1]; [| discriminate Hk |].
      * destruct (lenN (takeN (xfer_count n (bufsz - used)) src) =? 0).
        -- right. exists pre. reflexivity.
        -- specialize (IH (used + lenN (takeN (xfer_count n (bufsz - used)) src))
                          (dropN (xfer_count n (bufsz - used)) src) Hs).
           destruct (refill_k bufsz _ _ (pre ++ KErrno e :: post)) as [[[[[r g] eof] s] t] rest]. exact IH.
      * cbn [soft] in Hk. rewrite Hk. specialize (IH used src Hs).
        destruct (refill_k bufsz used src (pre ++ KErrno e :: post)) as [[[[[r g] eof] s] t] rest]. exact IH.
Qed.

Lemma write_all_k_mid e post : hard (KErrno e) = true -> forall pre data,
  forallb soft pre = true ->
  let '(r, wr, t, rest) := write_all_k data (pre ++ KErrno e :: post) in
  (r = Err e_io /\ rest = post) \/ (exists rest', rest = rest' ++ KErrno e :: post).
Proof.
  intro Hh. assert (He : (e =? c_EINTR) = false) by (cbn in Hh; destruct (e =? c_EINTR); [discriminate|reflexivity]).
  induction pre as [|k pre IH]; intros data Hs.
  - cbn [app write_all_k]. destruct (lenN data =? 0).
    + right. exists []. reflexivity.
    + rewrite He. left. split; reflexivity.
  - cbn [forallb] in Hs. apply andb_true_iff in Hs as [Hk Hs].
    cbn [app write_all_k]. destruct (lenN data =? 0).
    + right. exists (k :: pre). reflexivity.
    + destruct k as [n| |e1]; [| discriminate Hk |].
      * specialize (IH (dropN (xfer_count n (lenN data)) data) Hs).
        destruct (write_all_k _ (pre ++ KErrno e :: post)) as [[[r wr] t] rest]. exact IH.
      * cbn [soft] in Hk. rewrite Hk. specialize (IH data Hs).
        destruct (write_all_k data (pre ++ KErrno e :: post)) as [[[r wr] t] rest]. exact IH.
Qed.

Lemma read_at_loop_k_mid content e post : hard (KErrno e) = true -> forall pre off size,
  forallb soft pre = true ->
  let '(r, g, t, rest) := read_at_loop_k content off size (pre ++ KErrno e :: post) in
  (r = Err e_io /\ rest = post) \/ (exists rest', rest = rest' ++ KErrno e :: post).
Proof.
  intro Hh. assert (He : (e =? c_EINTR) = false) by (cbn in Hh; destruct (e =? c_EINTR); [discriminate|reflexivity]).
  induction pre as [|k pre IH]; intros off size Hs.
  - cbn [app read_at_loop_k]. destruct (size =? 0).
    + right. exists []. reflexivity.
    + rewrite He. left. split; reflexivity.
  - cbn [forallb] in Hs. apply andb_true_iff in Hs as [Hk Hs].
    cbn [app read_at_loop_k]. destruct (size =? 0).
    + right. exists (k :: pre). reflexivity.
    + destruct k as [n| |e1]; [| discriminate Hk |].
      * destruct (lenN (takeN (xfer_count n size) (dropN off content)) =? 0).
        -- right. exists pre. reflexivity.
        -- specialize (IH (off + lenN (takeN (xfer_count n size) (dropN off content)))
                          (size - lenN (takeN (xfer_count n size) (dropN off content))) Hs).
           destruct (read_at_loop_k content _ _ (pre ++ KErrno e :: post)) as [[[r g] t] rest]. exact IH.
      * cbn [soft] in Hk. rewrite Hk. specialize (IH off size Hs).
        destruct (read_at_loop_k content off size (pre ++ KErrno e :: post)) as [[[r g] t] rest]. exact IH.
Qed.

Lemma write_at_loop_k_mid e post : hard (KErrno e) = true -> forall pre off data,
  forallb soft pre = true ->
  let '(r, wr, t, rest) := write_at_loop_k off data (pre ++ KErrno e :: post) in
  (r = Err e_io /\ rest = post) \/ (exists rest', rest = rest' ++ KErrno e :: post).
Proof.
  intro Hh. assert (He : (e =? c_EINTR) = false) by (cbn in Hh; destruct (e =? c_EINTR); [discriminate|reflexivity]).
  induction pre as [|k pre IH]; intros off data Hs.
  - cbn [app write_at_loop_k]. destruct (lenN data =? 0).
    + right. exists []. reflexivity.
    + rewrite He. left. split; reflexivity.
  - cbn [forallb] in Hs. apply andb_true_iff in Hs as [Hk Hs].
    cbn [app write_at_loop_k]. destruct (lenN data =? 0).
    + right. exists (k :: pre). reflexivity.
    + destruct k as [n| |e1]; [| discriminate Hk |].
      * specialize (IH (off + lenN (takeN (xfer_count n (lenN data)) data)) (dropN (xfer_count n (lenN data)) data) Hs).
        destruct (write_at_loop_k _ _ (pre ++ KErrno e :: post)) as [[[r wr] t] rest]. exact IH.
      * cbn [soft] in Hk. rewrite Hk. specialize (IH off data Hs).
        destruct (write_at_loop_k off data (pre ++ KErrno e :: post)) as [[[r wr] t] rest]. exact IH.
Qed.
