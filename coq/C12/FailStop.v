(* C12 extension (session 3): fail-stop ("no silent truncation") for the istream consumers on
   EVERY outcome stream -- get_line.c, the 512-byte header read of read_header.c and
   record_to_memory.c -- and the corollaries over the errno-carrying kernel stream of Eagain.v:
   a would-block (EAGAIN, or any errno other than EINTR) anywhere in the calls an operation makes
   turns the operation into an error; it never becomes an end-of-file / short / "end of archive"
   success, and a success always carries exactly the bytes of the one-shot run. *)
From Coq Require Import List NArith ZArith Bool Lia.
From SqfsV Require Import Gen.Constants C12.ListN C12.IoModel C12.RetryProofs C12.IStreamProofs
  C12.GetLineProofs C12.Eagain.
Import ListNotations.
Local Open Scope N_scope.

(* ------------------------------------------------------------------ *)
(* get_line on every stream                                             *)
(* ------------------------------------------------------------------ *)

(* error <-> a call failed; otherwise (no 0-byte read before the end) the line is the one the
   byte-at-a-time automaton finds in the unsplit bytes, LEof included *)
Definition gl_post (flags : N) (line : list N) (skipped : N) (P : list N) (eo : Prop)
  (r : lres) (P' : list N) (eo' : Prop) (t : list sysrec) : Prop :=
  match r with
  | LErr e => e = e_io /\ has_fail t = true
  | _ => has_fail t = false /\
         (eo -> has_zero t = false -> (r, P') = spec_gl flags line skipped P /\ eo')
  end.

Lemma gl_combine flags line skipped line2 skipped2 P P2 (eo eo1 eo3 : Prop) r P3 t1 t2 :
  has_fail t1 = false ->
  (eo -> has_zero t1 = false -> eo1) ->
  spec_gl flags line skipped P = spec_gl flags line2 skipped2 P2 ->
  gl_post flags line2 skipped2 P2 eo1 r P3 eo3 t2 ->
  gl_post flags line skipped P eo r P3 eo3 (t1 ++ t2).
Proof.
  intros HF HE HS HM. unfold gl_post in *. rewrite has_fail_app, HF. cbn [orb].
  destruct r; try exact HM;
    (destruct HM as [A B]; split; [exact A|]; intros Heo NZ; rewrite has_zero_app in NZ;
     apply orb_false_elim in NZ as [Z1 Z2]; rewrite HS; apply B; [apply HE; assumption|exact Z2]).
Qed.

Theorem get_line_any bufsz zchunk flags : 0 < bufsz ->
  forall fuel line skipped w outs r w' t rest,
  wf bufsz (w_in w) ->
  lenN (pending (w_in w) (w_src w)) < N.of_nat fuel ->
  run bufsz zchunk (get_line_c fuel flags line skipped) w outs = (r, w', t, rest) ->
  wf bufsz (w_in w') /\ w_out w' = w_out w /\ w_file w' = w_file w /\
  gl_post flags line skipped (pending (w_in w) (w_src w)) (eof_ok (w_in w) (w_src w))
          r (pending (w_in w') (w_src w')) (eof_ok (w_in w') (w_src w')) t.
Proof.
  intro Hbz. induction fuel as [|f IH]; intros line skipped w outs r w' t rest Hwf Hfuel.
  - cbn in Hfuel. lia.
  - cbn [get_line_c run].
    destruct (get_buffered_data bufsz (w_in w) (w_src w) 0 outs) as [[[[g st1] src1] t1] rest1] eqn:EG.
    destruct (gbd_any _ _ _ _ _ _ _ _ _ _ Hbz Hwf EG) as (W1 & P1 & EO1 & _ & HG).
    destruct g as [e| |wd].
    + destruct HG as [He HF]. cbn [run]. intro E; inversion E; subst r w' t rest; cbn [w_in w_src w_out w_file].
      rewrite app_nil_r. split; [exact W1|]. split; [reflexivity|]. split; [reflexivity|].
      unfold gl_post. split; assumption.
    + destruct HG as (Hw & He & HF).
      assert (SP : eof_ok (w_in w) (w_src w) -> has_zero t1 = false ->
                   pending (w_in w) (w_src w) = [] /\ eof_ok st1 src1).
      { intros Heo NZ. specialize (EO1 Heo NZ). split; [|exact EO1].
        rewrite <- P1. unfold pending. rewrite Hw, (EO1 He). reflexivity. }
      destruct (lenN line =? 0) eqn:EL;
        [|destruct ((0 <? lenN (trim_flags flags line)) || negb (flag_skip_empty flags)) eqn:ET];
        cbn [run]; intro E; inversion E; subst r w' t rest; cbn [w_in w_src w_out w_file]; rewrite app_nil_r;
        (split; [exact W1|]); (split; [reflexivity|]); (split; [reflexivity|]); unfold gl_post;
        (split; [exact HF|]); intros Heo NZ; destruct (SP Heo NZ) as [PE EO]; (split; [|exact EO]);
        (assert (PE1 : pending st1 src1 = []) by (rewrite P1; exact PE)); rewrite PE, PE1;
        cbn [spec_gl]; cbn zeta; rewrite EL, ?ET; reflexivity.
    + destruct HG as (Hwd & Hne & HF).
      assert (PW : pending (w_in w) (w_src w) = wd ++ src1).
      { rewrite <- P1. unfold pending. rewrite <- Hwd. reflexivity. }
      assert (Lwd : 0 < lenN wd) by (destruct wd; [contradiction|rewrite lenN_cons; lia]).
      destruct (split_nl wd) as [pre found] eqn:ES.
      pose proof (lenN_split_nl_pre _ _ _ ES) as Lpre.
      destruct found.
      * destruct (split_nl_found _ _ ES) as (w2 & Ewd & Hs).
        cbn [run w_in w_src w_out w_file].
        destruct (advance_any bufsz st1 src1 (lenN pre + 1) W1) as (W2 & P2 & _ & Ee2).
        assert (Lw : lenN wd = lenN pre + 1 + lenN w2).
        { rewrite Ewd, lenN_app, lenN_cons. lia. }
        rewrite <- Hwd in P2. rewrite N.min_l in P2 by lia.
        assert (PA : pending (advance_buffer st1 (lenN pre + 1)) src1 = w2 ++ src1).
        { rewrite P2. unfold pending. rewrite <- Hwd. rewrite Ewd.
          replace (pre ++ 10 :: w2) with ((pre ++ [10]) ++ w2) by (rewrite <- app_assoc; reflexivity).
          rewrite <- app_assoc.
          replace (lenN pre + 1) with (lenN (pre ++ [10])) by (rewrite lenN_app; cbn; lia).
          apply dropN_app_exact. }
        assert (EO2 : eof_ok (w_in w) (w_src w) -> has_zero t1 = false ->
                      eof_ok (advance_buffer st1 (lenN pre + 1)) src1).
        { intros Heo NZ. unfold eof_ok. rewrite Ee2. exact (EO1 Heo NZ). }
        rewrite PW. specialize (Hs flags line skipped src1). cbn zeta in Hs. cbn zeta.
        destruct ((0 <? lenN (trim_flags flags (strip_cr (line ++ pre)))) || negb (flag_skip_empty flags)) eqn:ET.
        -- cbn [run]. intro E; inversion E; subst r w' t rest; cbn [w_in w_src w_out w_file].
           rewrite app_nil_r, PA. split; [exact W2|]. split; [reflexivity|]. split; [reflexivity|].
           unfold gl_post. split; [exact HF|]. intros Heo NZ. split; [symmetry; exact Hs|exact (EO2 Heo NZ)].
        -- set (w1 := {| w_in := advance_buffer st1 (lenN pre + 1); w_src := src1; w_out := w_out w; w_file := w_file w |}).
           destruct (run bufsz zchunk (get_line_c f flags [] (skipped + 1)) w1 rest1) as [[[r2 w2'] t2] rest2] eqn:ER.
           intro E; injection E as <- <- <- <-.
           assert (Hf2 : lenN (pending (w_in w1) (w_src w1)) < N.of_nat f).
           { unfold w1; cbn [w_in w_src]. rewrite PA. rewrite PW in Hfuel.
             rewrite lenN_app in *. rewrite Nat2N.inj_succ in Hfuel. lia. }
           destruct (IH [] (skipped + 1) w1 rest1 r2 w2' t2 rest2 W2 Hf2 ER) as (W3 & O3 & F3 & M3).
           unfold w1 in O3, F3, M3; cbn [w_in w_src w_out w_file] in O3, F3, M3. rewrite PA in M3.
           split; [exact W3|]. split; [exact O3|]. split; [exact F3|].
           exact (gl_combine _ _ _ _ _ _ _ _ _ _ _ _ _ _ HF EO2 Hs M3).
      * destruct (split_nl_notfound _ _ ES) as [-> Hs].
        cbn [run w_in w_src w_out w_file].
        destruct (advance_any bufsz st1 src1 (lenN wd) W1) as (W2 & P2 & _ & Ee2).
        rewrite <- Hwd in P2. rewrite N.min_l in P2 by lia.
        assert (PA : pending (advance_buffer st1 (lenN wd)) src1 = src1).
        { rewrite P2. unfold pending. rewrite <- Hwd. apply dropN_app_exact. }
        assert (EO2 : eof_ok (w_in w) (w_src w) -> has_zero t1 = false ->
                      eof_ok (advance_buffer st1 (lenN wd)) src1).
        { intros Heo NZ. unfold eof_ok. rewrite Ee2. exact (EO1 Heo NZ). }
        set (w1 := {| w_in := advance_buffer st1 (lenN wd); w_src := src1; w_out := w_out w; w_file := w_file w |}).
        destruct (run bufsz zchunk (get_line_c f flags (line ++ wd) skipped) w1 rest1) as [[[r2 w2'] t2] rest2] eqn:ER.
        intro E; injection E as <- <- <- <-.
        assert (Hf2 : lenN (pending (w_in w1) (w_src w1)) < N.of_nat f).
        { unfold w1; cbn [w_in w_src]. rewrite PA. rewrite PW in Hfuel.
          rewrite lenN_app in Hfuel. rewrite Nat2N.inj_succ in Hfuel. lia. }
        destruct (IH (line ++ wd) skipped w1 rest1 r2 w2' t2 rest2 W2 Hf2 ER) as (W3 & O3 & F3 & M3).
        unfold w1 in O3, F3, M3; cbn [w_in w_src w_out w_file] in O3, F3, M3. rewrite PA in M3.
        rewrite PW.
        split; [exact W3|]. split; [exact O3|]. split; [exact F3|].
        exact (gl_combine _ _ _ _ _ _ _ _ _ _ _ _ _ _ HF EO2 (Hs flags line skipped src1) M3).
Qed.

(* ------------------------------------------------------------------ *)
(* the 512-byte header read and record_to_memory on every stream        *)
(* ------------------------------------------------------------------ *)

(* TShort is what the tar iterator takes for "end of archive" (a success): it is reported only
   when the input really ends inside the header -- never because a call failed *)
Theorem header_read_any bufsz zchunk fuel w outs r w' t rest :
  0 < bufsz -> wf bufsz (w_in w) -> sizeof_tar_header_t <= N.of_nat fuel ->
  run bufsz zchunk (header_read fuel) w outs = (r, w', t, rest) ->
  let P := pending (w_in w) (w_src w) in
  wf bufsz (w_in w') /\
  match r with
  | TErr e => e = e_io /\ has_fail t = true
  | TData d => has_fail t = false /\ d = takeN sizeof_tar_header_t P /\ lenN d = sizeof_tar_header_t /\
               pending (w_in w') (w_src w') = dropN sizeof_tar_header_t P
  | TShort => has_fail t = false /\
              (eof_ok (w_in w) (w_src w) -> has_zero t = false ->
               lenN P < sizeof_tar_header_t /\ pending (w_in w') (w_src w') = [])
  | TFuel => False
  end.
Proof.
  intros Hbz Hwf Hfuel. unfold header_read. rewrite run_bind.
  destruct (run bufsz zchunk (istream_read fuel sizeof_tar_header_t) w outs) as [[[r1 w1] t1] rest1] eqn:E1.
  unfold istream_read in E1.
  change (if s32_max <? sizeof_tar_header_t then s32_max else sizeof_tar_header_t) with sizeof_tar_header_t in E1.
  destruct (read_c_any bufsz zchunk Hbz fuel sizeof_tar_header_t [] w outs r1 w1 t1 rest1 Hwf E1)
    as (W1 & _ & _ & EO1 & _ & got & PG & LG & M).
  cbn zeta.
  destruct r1 as [n d|e|].
  - destruct M as (Hn & Hd & HF & HS). cbn [app] in Hd. subst d.
    destruct (N.ltb_spec n sizeof_tar_header_t) as [Hl|Hl];
      cbn [run]; intro E; inversion E; subst r w' t rest; rewrite app_nil_r; (split; [exact W1|]).
    + split; [exact HF|]. intros Heo NZ. specialize (EO1 Heo NZ).
      destruct (HS ltac:(lia)) as [Hw He].
      assert (PE : pending (w_in w1) (w_src w1) = []).
      { unfold pending. fold (window (w_in w1)). rewrite Hw, (EO1 He). reflexivity. }
      rewrite PE in PG. rewrite app_nil_r in PG. rewrite PG. split; [lia|exact PE].
    + assert (LE : lenN got = sizeof_tar_header_t) by lia.
      destruct (prefix_take _ _ _ PG) as [TK DR]. rewrite LE in TK, DR.
      split; [exact HF|]. split; [symmetry; exact TK|]. split; [exact LE|]. symmetry; exact DR.
  - destruct M as [He HF]. cbn [run]. intro E; inversion E; subst r w' t rest; rewrite app_nil_r.
    split; [exact W1|]. split; assumption.
  - exfalso. lia.
Qed.

Theorem record_to_memory_any bufsz zchunk fuel size w outs r w' t rest :
  0 < bufsz -> wf bufsz (w_in w) -> size <= s32_max -> size + tar_rec <= N.of_nat fuel ->
  run bufsz zchunk (record_to_memory fuel size) w outs = (r, w', t, rest) ->
  let P := pending (w_in w) (w_src w) in
  wf bufsz (w_in w') /\
  match r with
  | TErr e => e = e_io /\ has_fail t = true
  | TData d => has_fail t = false /\ d = takeN size P /\ lenN d = size
  | TShort => has_fail t = false /\
              (eof_ok (w_in w) (w_src w) -> has_zero t = false -> lenN P < size)
  | TFuel => False
  end.
Proof.
  intros Hbz Hwf Hsz Hfuel. unfold record_to_memory. rewrite run_bind.
  destruct (run bufsz zchunk (istream_read fuel size) w outs) as [[[r1 w1] t1] rest1] eqn:E1.
  unfold istream_read in E1.
  replace (if s32_max <? size then s32_max else size) with size in E1
    by (destruct (N.ltb_spec s32_max size); [lia|reflexivity]).
  destruct (read_c_any bufsz zchunk Hbz fuel size [] w outs r1 w1 t1 rest1 Hwf E1)
    as (W1 & _ & _ & EO1 & _ & got & PG & LG & M).
  cbn zeta.
  destruct r1 as [n d|e|].
  - destruct M as (Hn & Hd & HF & HS). cbn [app] in Hd. subst d.
    destruct (N.ltb_spec n size) as [Hl|Hl].
    + cbn [run]; intro E; inversion E; subst r w' t rest; rewrite app_nil_r; (split; [exact W1|]).
      split; [exact HF|]. intros Heo NZ. specialize (EO1 Heo NZ).
      destruct (HS ltac:(lia)) as [Hw He].
      assert (PE : pending (w_in w1) (w_src w1) = []).
      { unfold pending. fold (window (w_in w1)). rewrite Hw, (EO1 He). reflexivity. }
      rewrite PE in PG. rewrite app_nil_r in PG. rewrite PG. lia.
    + assert (LE : lenN got = size) by lia.
      destruct (prefix_take _ _ _ PG) as [TK _]. rewrite LE in TK.
      destruct (size mod tar_rec =? 0).
      * cbn [run]; intro E; inversion E; subst r w' t rest; rewrite app_nil_r; (split; [exact W1|]).
        split; [exact HF|]. split; [symmetry; exact TK|exact LE].
      * rewrite run_bind.
        destruct (run bufsz zchunk (skip_c fuel (tar_rec - size mod tar_rec)) w1 rest1) as [[[r2 w2] t2] rest2] eqn:E2.
        destruct (skip_c_any bufsz zchunk Hbz fuel _ w1 rest1 r2 w2 t2 rest2 W1 E2)
          as (W2 & _ & _ & _ & _ & got2 & _ & LG2 & M2).
        destruct r2 as [n2 d2|e2|].
        -- destruct M2 as (_ & _ & HF2 & _).
           cbn [run]; intro E; inversion E; subst r w' t rest; rewrite app_nil_r; (split; [exact W2|]).
           split; [rewrite has_fail_app, HF, HF2; reflexivity|]. split; [symmetry; exact TK|exact LE].
        -- destruct M2 as [He2 HF2].
           cbn [run]; intro E; inversion E; subst r w' t rest; rewrite app_nil_r; (split; [exact W2|]).
           split; [exact He2|]. rewrite has_fail_app, HF2. apply orb_true_r.
        -- exfalso. destruct M2 as [A B].
           pose proof (N.le_sub_l tar_rec (size mod tar_rec)) as C. lia.
  - destruct M as [He HF]. cbn [run]. intro E; inversion E; subst r w' t rest; rewrite app_nil_r.
    split; [exact W1|]. split; assumption.
  - exfalso. lia.
Qed.

(* ------------------------------------------------------------------ *)
(* EITHER the one-shot result OR an error, over the errno-carrying      *)
(* kernel stream (run_k, Eagain.v): no end-of-file-as-success           *)
(* ------------------------------------------------------------------ *)

(* [t] is the list of calls the operation made with the classified answers: has_fail t = true
   iff one of them was answered -1 with an errno other than EINTR (EAGAIN, EIO, ...) *)
Theorem get_line_either bufsz zchunk flags fuel w ks r w' t rest :
  0 < bufsz -> wf bufsz (w_in w) -> eof_ok (w_in w) (w_src w) ->
  lenN (pending (w_in w) (w_src w)) < N.of_nat fuel ->
  run_k bufsz zchunk (istream_get_line fuel flags) w ks = (r, w', t, rest) ->
  (r = LErr e_io /\ has_fail t = true) \/
  (has_fail t = false /\
   (has_zero t = false ->
    (r, pending (w_in w') (w_src w')) = spec_gl flags [] 0 (pending (w_in w) (w_src w)))).
Proof.
  intros Hbz Hwf Heo Hf E. unfold run_k, istream_get_line in E.
  destruct (get_line_any bufsz zchunk flags Hbz _ _ _ _ _ _ _ _ _ Hwf Hf E) as (_ & _ & _ & M).
  unfold gl_post in M.
  destruct r; try (right; destruct M as [A B]; split; [exact A|]; intro NZ; exact (proj1 (B Heo NZ))).
  left. destruct M as [-> HF]. split; [reflexivity|exact HF].
Qed.

Theorem header_read_either bufsz zchunk fuel w ks r w' t rest :
  0 < bufsz -> wf bufsz (w_in w) -> eof_ok (w_in w) (w_src w) ->
  sizeof_tar_header_t <= N.of_nat fuel ->
  run_k bufsz zchunk (header_read fuel) w ks = (r, w', t, rest) ->
  let P := pending (w_in w) (w_src w) in
  (r = TErr e_io /\ has_fail t = true) \/
  (has_fail t = false /\
   (has_zero t = false ->
    r = if lenN P <? sizeof_tar_header_t then TShort else TData (takeN sizeof_tar_header_t P))).
Proof.
  intros Hbz Hwf Heo Hf E. unfold run_k in E. cbn zeta.
  destruct (header_read_any bufsz zchunk fuel w _ r w' t rest Hbz Hwf Hf E) as (_ & M).
  destruct r as [d| |e|].
  - right. destruct M as (HF & Hd & Ld & _). split; [exact HF|]. intros _.
    rewrite Hd in Ld. rewrite lenN_takeN in Ld.
    replace (lenN (pending (w_in w) (w_src w)) <? sizeof_tar_header_t) with false
      by (symmetry; apply N.ltb_ge; lia).
    rewrite Hd. reflexivity.
  - right. destruct M as (HF & HS). split; [exact HF|]. intros NZ. destruct (HS Heo NZ) as [Hl _].
    replace (lenN (pending (w_in w) (w_src w)) <? sizeof_tar_header_t) with true
      by (symmetry; apply N.ltb_lt; exact Hl).
    reflexivity.
  - left. destruct M as [-> HF]. split; [reflexivity|exact HF].
  - contradiction.
Qed.

Theorem record_to_memory_either bufsz zchunk fuel size w ks r w' t rest :
  0 < bufsz -> wf bufsz (w_in w) -> eof_ok (w_in w) (w_src w) ->
  size <= s32_max -> size + tar_rec <= N.of_nat fuel ->
  run_k bufsz zchunk (record_to_memory fuel size) w ks = (r, w', t, rest) ->
  let P := pending (w_in w) (w_src w) in
  (r = TErr e_io /\ has_fail t = true) \/
  (has_fail t = false /\
   (has_zero t = false -> r = if lenN P <? size then TShort else TData (takeN size P))).
Proof.
  intros Hbz Hwf Heo Hsz Hf E. unfold run_k in E. cbn zeta.
  destruct (record_to_memory_any bufsz zchunk fuel size w _ r w' t rest Hbz Hwf Hsz Hf E) as (_ & M).
  destruct r as [d| |e|].
  - right. destruct M as (HF & Hd & Ld). split; [exact HF|]. intros _.
    rewrite Hd in Ld. rewrite lenN_takeN in Ld.
    replace (lenN (pending (w_in w) (w_src w)) <? size) with false by (symmetry; apply N.ltb_ge; lia).
    rewrite Hd. reflexivity.
  - right. destruct M as (HF & HS). split; [exact HF|]. intros NZ. pose proof (HS Heo NZ) as Hl.
    replace (lenN (pending (w_in w) (w_src w)) <? size) with true by (symmetry; apply N.ltb_lt; exact Hl).
    reflexivity.
  - left. destruct M as [-> HF]. split; [reflexivity|exact HF].
  - contradiction.
Qed.
