(* C12 — proofs about the retry loops of file.c / ostream.c / unix.c (pread, pwrite, write,
   ftruncate) over every outcome stream. *)
From Coq Require Import List NArith ZArith Bool Lia.
From SqfsV Require Import Gen.Constants C12.ListN C12.IoModel.
Import ListNotations.
Local Open Scope N_scope.

(* ------------------------------------------------------------------ *)
(* small facts                                                          *)
(* ------------------------------------------------------------------ *)

Lemma xfer_count_bounds n req : 0 < req -> 1 <= xfer_count n req /\ xfer_count n req <= req.
Proof. unfold xfer_count. lia. Qed.

Lemma benign_tail o outs : benign (o :: outs) -> benign outs.
Proof. intro H. inversion H; assumption. Qed.

Lemma benign_head o outs : benign (o :: outs) -> benign_outcome o = true.
Proof. intro H. inversion H; assumption. Qed.

Lemma benign_nil : benign [].
Proof. constructor. Qed.

(* take k (k <= size), then the rest of the request from what follows = take the whole request *)
Lemma take_split {A} k size (X : list A) :
  k <= size ->
  takeN k X ++ takeN (size - lenN (takeN k X)) (dropN (lenN (takeN k X)) X) = takeN size X.
Proof.
  intro Hk. rewrite dropN_lenN_takeN, lenN_takeN.
  destruct (N.le_gt_cases k (lenN X)) as [H|H].
  - rewrite N.min_l by exact H. rewrite <- takeN_add. f_equal. lia.
  - rewrite N.min_r by lia. rewrite (dropN_all k X) by lia. rewrite takeN_nil, app_nil_r.
    rewrite !takeN_all by lia. reflexivity.
Qed.

Lemma eintr_count_cons r t :
  eintr_count (r :: t) = (if is_eintr r then 1 else 0) + eintr_count t.
Proof.
  unfold eintr_count. cbn [filter]. destruct (is_eintr r); [rewrite lenN_cons|]; lia.
Qed.

Lemma eintr_count_nil : eintr_count [] = 0.
Proof. reflexivity. Qed.

Lemma eintr_count_app a b : eintr_count (a ++ b) = eintr_count a + eintr_count b.
Proof. unfold eintr_count. rewrite filter_app, lenN_app. reflexivity. Qed.

(* a call that the oracle failed (or, for writes, answered with 0) *)
Definition failed_rec (r : sysrec) : bool :=
  match snd r with Fail | Zero => true | _ => false end.
Definition has_failed (t : list sysrec) : bool := existsb failed_rec t.

Definition is_err {A} (r : res A) : bool := match r with Err _ => true | Ok _ => false end.

(* ------------------------------------------------------------------ *)
(* pwrite on the file model                                             *)
(* ------------------------------------------------------------------ *)

Lemma lenN_pad_to n c : lenN (pad_to n c) = N.max n (lenN c).
Proof. unfold pad_to. rewrite lenN_app, lenN_zerosN. lia. Qed.

Lemma lenN_pwrite_content c off d :
  lenN (pwrite_content c off d) = N.max (off + lenN d) (lenN c).
Proof.
  unfold pwrite_content. rewrite !lenN_app, lenN_takeN, lenN_pad_to, lenN_dropN. lia.
Qed.

(* two adjacent pwrites are one pwrite of the concatenation *)
Lemma pwrite_content_app c off a b :
  0 < lenN a ->
  pwrite_content (pwrite_content c off a) (off + lenN a) b = pwrite_content c off (a ++ b).
Proof.
  intro Ha. unfold pwrite_content at 1.
  set (c1 := pwrite_content c off a).
  assert (L1 : lenN c1 = N.max (off + lenN a) (lenN c)) by apply lenN_pwrite_content.
  assert (P : pad_to (off + lenN a) c1 = c1).
  { unfold pad_to. replace (off + lenN a - lenN c1) with 0 by lia. rewrite zerosN_0, app_nil_r. reflexivity. }
  rewrite P.
  set (h := takeN off (pad_to off c)).
  assert (Lh : lenN h = off).
  { unfold h. rewrite lenN_takeN, lenN_pad_to. lia. }
  assert (E1 : c1 = (h ++ a) ++ dropN (off + lenN a) c).
  { unfold c1, pwrite_content, h. rewrite app_assoc. reflexivity. }
  assert (Lha : lenN (h ++ a) = off + lenN a) by (rewrite lenN_app; lia).
  rewrite E1.
  rewrite <- Lha at 1. rewrite takeN_app_exact.
  replace (off + lenN a + lenN b) with (lenN (h ++ a) + lenN b) by lia.
  rewrite <- dropN_dropN. rewrite dropN_app_exact.
  rewrite dropN_dropN.
  unfold pwrite_content. fold h. rewrite lenN_app.
  rewrite <- !app_assoc. f_equal. f_equal. f_equal. f_equal. lia.
Qed.

(* ------------------------------------------------------------------ *)
(* stdio_read_at                                                        *)
(* ------------------------------------------------------------------ *)

Definition read_at_status (content : list N) (off size : N) : res unit :=
  if size <=? lenN (dropN off content) then Ok tt else Err e_oob.

Lemma read_at_loop_spec content : forall outs off size,
  benign outs ->
  exists t rest,
    read_at_loop content off size outs
      = (read_at_status content off size, takeN size (dropN off content), t, rest)
    /\ benign rest /\ (outs = [] -> rest = []).
Proof.
  induction outs as [|o outs IH]; intros off size Hb; cbn [read_at_loop]; unfold read_at_status.
  - destruct (N.eqb_spec size 0) as [->|Hs].
    + rewrite takeN_0. replace (0 <=? lenN (dropN off content)) with true by (symmetry; apply N.leb_le; lia).
      cbn. eexists _, _. split; [reflexivity|]. split; [constructor|reflexivity].
    + set (X := dropN off content). set (d := takeN size X).
      assert (Ld : lenN d = N.min size (lenN X)) by apply lenN_takeN.
      destruct (N.eqb_spec (lenN d) size) as [E|E].
      * replace (size <=? lenN X) with true by (symmetry; apply N.leb_le; lia).
        eexists _, _. split; [reflexivity|]. split; [constructor|reflexivity].
      * replace (size <=? lenN X) with false by (symmetry; apply N.leb_gt; lia).
        destruct (N.eqb_spec (lenN d) 0) as [E0|E0].
        -- rewrite (lenN_zero _ E0). eexists _, _. split; [reflexivity|]. split; [constructor|reflexivity].
        -- eexists _, _. split; [reflexivity|]. split; [constructor|reflexivity].
  - destruct (N.eqb_spec size 0) as [->|Hs].
    + rewrite takeN_0. replace (0 <=? lenN (dropN off content)) with true by (symmetry; apply N.leb_le; lia).
      cbn. eexists _, _. split; [reflexivity|]. split; [exact Hb|discriminate].
    + pose proof (benign_head _ _ Hb) as Ho. pose proof (benign_tail _ _ Hb) as Hb'.
      destruct o; try discriminate Ho.
      * (* Xfer *)
        set (X := dropN off content).
        pose proof (xfer_count_bounds n size ltac:(lia)) as [K1 K2].
        set (k := xfer_count n size) in *. set (d := takeN k X).
        assert (Ld : lenN d = N.min k (lenN X)) by apply lenN_takeN.
        destruct (N.eqb_spec (lenN d) 0) as [E0|E0].
        -- assert (lenN X = 0) by lia.
           replace (size <=? lenN X) with false by (symmetry; apply N.leb_gt; lia).
           rewrite (lenN_zero X H). rewrite takeN_nil.
           eexists _, _. split; [reflexivity|]. split; [exact Hb'|discriminate].
        -- destruct (IH (off + lenN d) (size - lenN d) Hb') as (t & rest & E & Hr & _).
           rewrite E. unfold read_at_status.
           assert (DD : dropN (off + lenN d) content = dropN (lenN d) X).
           { unfold X. rewrite dropN_dropN. reflexivity. }
           rewrite DD.
           assert (TS : d ++ takeN (size - lenN d) (dropN (lenN d) X) = takeN size X).
           { unfold d. apply take_split. exact K2. }
           rewrite TS.
           assert (ST : (size - lenN d <=? lenN (dropN (lenN d) X)) = (size <=? lenN X)).
           { rewrite lenN_dropN. apply eq_true_iff_eq. rewrite !N.leb_le. lia. }
           rewrite ST.
           eexists _, _. split; [reflexivity|]. split; [exact Hr|discriminate].
      * (* Eintr *)
        destruct (IH off size Hb') as (t & rest & E & Hr & _). rewrite E.
        eexists _, _. split; [reflexivity|]. split; [exact Hr|discriminate].
Qed.

(* the number of calls: one per byte at worst, plus the interrupted ones, plus the one that
   discovers the end of the file *)
Lemma read_at_loop_calls content : forall outs off size r g t rest,
  read_at_loop content off size outs = (r, g, t, rest) ->
  lenN t <= size + eintr_count t + 1 /\ (r = Ok tt -> lenN t <= size + eintr_count t).
Proof.
  induction outs as [|o outs IH]; intros off size r g t rest; cbn [read_at_loop].
  - destruct (N.eqb_spec size 0) as [->|Hs].
    + intro E; inversion E; subst. cbn. lia.
    + remember (takeN size (dropN off content)) as d eqn:Hd.
      assert (Ld : lenN d <= size) by (subst d; rewrite lenN_takeN; lia).
      clear Hd.
      destruct (N.eqb_spec (lenN d) size); [|destruct (N.eqb_spec (lenN d) 0)];
        intro E; inversion E; subst; rewrite ?lenN_cons, ?lenN_nil; unfold eintr_count; cbn;
        (split; [lia|try discriminate; lia]).
  - destruct (N.eqb_spec size 0) as [->|Hs].
    + intro E; inversion E; subst. cbn. lia.
    + destruct o.
      * pose proof (xfer_count_bounds n size ltac:(lia)) as [K1 K2].
        remember (takeN (xfer_count n size) (dropN off content)) as d eqn:Hd.
        assert (Ld : lenN d <= size) by (subst d; rewrite lenN_takeN; lia).
        clear Hd.
        destruct (N.eqb_spec (lenN d) 0) as [E0|E0].
        -- intro E; inversion E; subst. rewrite lenN_cons, lenN_nil, eintr_count_cons. cbn.
           split; [lia|discriminate].
        -- destruct (read_at_loop content (off + lenN d) (size - lenN d) outs) as [[[r' g'] t'] rest'] eqn:ER.
           intro E; inversion E; subst. destruct (IH _ _ _ _ _ _ ER) as [IH1 IH2].
           rewrite lenN_cons, eintr_count_cons. cbn [is_eintr snd].
           split; [lia|intro Hr; specialize (IH2 Hr); lia].
      * destruct (read_at_loop content off size outs) as [[[r' g'] t'] rest'] eqn:ER.
        intro E; inversion E; subst. destruct (IH _ _ _ _ _ _ ER) as [IH1 IH2].
        rewrite lenN_cons, eintr_count_cons. cbn [is_eintr snd].
        split; [lia|intro Hr; specialize (IH2 Hr); lia].
      * intro E; inversion E; subst. rewrite lenN_cons, lenN_nil, eintr_count_cons. cbn.
        split; [lia|discriminate].
      * intro E; inversion E; subst. rewrite lenN_cons, lenN_nil, eintr_count_cons. cbn.
        split; [lia|discriminate].
Qed.

(* whatever the oracle does: what was stored is a true prefix of the requested range, and a failed
   call makes the whole operation an error *)
Lemma read_at_loop_any content : forall outs off size r g t rest,
  read_at_loop content off size outs = (r, g, t, rest) ->
  (exists s, takeN size (dropN off content) = g ++ s) /\
  (has_failed t = true -> is_err r = true) /\
  (r = Ok tt -> g = takeN size (dropN off content) /\ lenN g = size).
Proof.
  induction outs as [|o outs IH]; intros off size r g t rest; cbn [read_at_loop].
  - destruct (N.eqb_spec size 0) as [->|Hs].
    + intro E; inversion E; subst. rewrite takeN_0. split; [exists []; reflexivity|].
      split; [discriminate|]. intros _. split; reflexivity.
    + remember (takeN size (dropN off content)) as d eqn:Hd. clear Hd.
      destruct (N.eqb_spec (lenN d) size) as [E1|E1]; [|destruct (N.eqb_spec (lenN d) 0)];
        intro E; inversion E; subst r g t rest.
      * split; [exists []; rewrite app_nil_r; reflexivity|]. split; [discriminate|]. intros _. split; [reflexivity|exact E1].
      * split; [exists d; reflexivity|]. split; [reflexivity|discriminate].
      * split; [exists []; rewrite app_nil_r; reflexivity|]. split; [reflexivity|discriminate].
  - destruct (N.eqb_spec size 0) as [->|Hs].
    + intro E; inversion E; subst. rewrite takeN_0. split; [exists []; reflexivity|].
      split; [discriminate|]. intros _. split; reflexivity.
    + destruct o.
      * set (X := dropN off content).
        pose proof (xfer_count_bounds n size ltac:(lia)) as [K1 K2].
        set (k := xfer_count n size) in *. set (d := takeN k X).
        destruct (N.eqb_spec (lenN d) 0) as [E0|E0].
        -- intro E; inversion E; subst r g t rest. split; [exists (takeN size X); reflexivity|].
           split; [reflexivity|discriminate].
        -- destruct (read_at_loop content (off + lenN d) (size - lenN d) outs) as [[[r' g'] t'] rest'] eqn:ER.
           intro E; inversion E; subst r g t rest. destruct (IH _ _ _ _ _ _ ER) as ((s & Hs1) & Hf & Hok).
           assert (DD : dropN (off + lenN d) content = dropN (lenN d) X).
           { unfold X. rewrite dropN_dropN. reflexivity. }
           rewrite DD in *.
           assert (TS : d ++ takeN (size - lenN d) (dropN (lenN d) X) = takeN size X).
           { unfold d. apply take_split. exact K2. }
           split; [exists s; rewrite <- TS, Hs1, app_assoc; reflexivity|].
           split.
           ++ unfold has_failed. cbn [existsb failed_rec snd]. cbn. exact Hf.
           ++ intro Hr. destruct (Hok Hr) as [G1 G2]. split.
              ** rewrite G1. exact TS.
              ** rewrite lenN_app, G2.
                 assert (lenN d <= size) by (unfold d; rewrite lenN_takeN; lia). lia.
      * destruct (read_at_loop content off size outs) as [[[r' g'] t'] rest'] eqn:ER.
        intro E; inversion E; subst. destruct (IH _ _ _ _ _ _ ER) as (Hp & Hf & Hok).
        split; [exact Hp|]. split; [|exact Hok].
        unfold has_failed. cbn [existsb failed_rec snd]. cbn. exact Hf.
      * intro E; inversion E; subst. split; [eexists; reflexivity|]. split; [reflexivity|discriminate].
      * intro E; inversion E; subst. split; [eexists; reflexivity|]. split; [reflexivity|discriminate].
Qed.

(* ------------------------------------------------------------------ *)
(* stdio_write_at, write_all                                            *)
(* ------------------------------------------------------------------ *)

Lemma write_at_loop_spec : forall outs off data,
  benign outs ->
  exists t rest, write_at_loop off data outs = (Ok tt, data, t, rest)
                 /\ benign rest /\ (outs = [] -> rest = []).
Proof.
  induction outs as [|o outs IH]; intros off data Hb; cbn [write_at_loop].
  - destruct (N.eqb_spec (lenN data) 0) as [E|E].
    + rewrite (lenN_zero _ E). eexists _, _. split; [reflexivity|]. split; [constructor|reflexivity].
    + eexists _, _. split; [reflexivity|]. split; [constructor|reflexivity].
  - destruct (N.eqb_spec (lenN data) 0) as [E|E].
    + rewrite (lenN_zero _ E). eexists _, _. split; [reflexivity|]. split; [exact Hb|discriminate].
    + pose proof (benign_head _ _ Hb) as Ho. pose proof (benign_tail _ _ Hb) as Hb'.
      destruct o; try discriminate Ho.
      * destruct (IH (off + lenN (takeN (xfer_count n (lenN data)) data))
                     (dropN (xfer_count n (lenN data)) data) Hb') as (t & rest & EQ & Hr & _).
        rewrite EQ. rewrite takeN_dropN.
        eexists _, _. split; [reflexivity|]. split; [exact Hr|discriminate].
      * destruct (IH off data Hb') as (t & rest & EQ & Hr & _). rewrite EQ.
        eexists _, _. split; [reflexivity|]. split; [exact Hr|discriminate].
Qed.

Lemma write_at_loop_any : forall outs off data r wr t rest,
  write_at_loop off data outs = (r, wr, t, rest) ->
  (exists s, data = wr ++ s) /\
  (has_failed t = true -> is_err r = true) /\
  (r = Ok tt -> wr = data) /\
  lenN t <= lenN data + eintr_count t.
Proof.
  induction outs as [|o outs IH]; intros off data r wr t rest; cbn [write_at_loop].
  - destruct (N.eqb_spec (lenN data) 0) as [E|E]; intro EQ; inversion EQ; subst.
    + rewrite (lenN_zero _ E). split; [exists []; reflexivity|]. split; [discriminate|]. split; [reflexivity|].
      cbn. lia.
    + split; [exists []; rewrite app_nil_r; reflexivity|]. split; [discriminate|]. split; [reflexivity|].
      rewrite lenN_cons, lenN_nil. unfold eintr_count; cbn. lia.
  - destruct (N.eqb_spec (lenN data) 0) as [E|E].
    + intro EQ; inversion EQ; subst. rewrite (lenN_zero _ E).
      split; [exists []; reflexivity|]. split; [discriminate|]. split; [reflexivity|]. cbn. lia.
    + destruct o.
      * pose proof (xfer_count_bounds n (lenN data) ltac:(lia)) as [K1 K2].
        set (k := xfer_count n (lenN data)) in *.
        destruct (write_at_loop (off + lenN (takeN k data)) (dropN k data) outs) as [[[r' wr'] t'] rest'] eqn:ER.
        intro EQ; inversion EQ; subst. destruct (IH _ _ _ _ _ _ ER) as ((s & Hs) & Hf & Hok & Hc).
        split; [exists s; rewrite <- app_assoc, <- Hs, takeN_dropN; reflexivity|].
        split; [unfold has_failed; cbn [existsb failed_rec snd]; cbn; exact Hf|].
        split; [intro Hr; rewrite (Hok Hr), takeN_dropN; reflexivity|].
        rewrite lenN_cons, eintr_count_cons. cbn [is_eintr snd].
        rewrite lenN_dropN in Hc. lia.
      * destruct (write_at_loop off data outs) as [[[r' wr'] t'] rest'] eqn:ER.
        intro EQ; inversion EQ; subst. destruct (IH _ _ _ _ _ _ ER) as (Hp & Hf & Hok & Hc).
        split; [exact Hp|]. split; [unfold has_failed; cbn [existsb failed_rec snd]; cbn; exact Hf|].
        split; [exact Hok|]. rewrite lenN_cons, eintr_count_cons. cbn [is_eintr snd]. lia.
      * intro EQ; inversion EQ; subst. split; [exists data; reflexivity|]. split; [reflexivity|].
        split; [discriminate|]. rewrite lenN_cons, lenN_nil, eintr_count_cons. cbn. lia.
      * intro EQ; inversion EQ; subst. split; [exists data; reflexivity|]. split; [reflexivity|].
        split; [discriminate|]. rewrite lenN_cons, lenN_nil, eintr_count_cons. cbn. lia.
Qed.

Lemma write_all_spec : forall outs data,
  benign outs ->
  exists t rest, write_all data outs = (Ok tt, data, t, rest)
                 /\ benign rest /\ (outs = [] -> rest = []).
Proof.
  induction outs as [|o outs IH]; intros data Hb; cbn [write_all].
  - destruct (N.eqb_spec (lenN data) 0) as [E|E].
    + rewrite (lenN_zero _ E). eexists _, _. split; [reflexivity|]. split; [constructor|reflexivity].
    + eexists _, _. split; [reflexivity|]. split; [constructor|reflexivity].
  - destruct (N.eqb_spec (lenN data) 0) as [E|E].
    + rewrite (lenN_zero _ E). eexists _, _. split; [reflexivity|]. split; [exact Hb|discriminate].
    + pose proof (benign_head _ _ Hb) as Ho. pose proof (benign_tail _ _ Hb) as Hb'.
      destruct o; try discriminate Ho.
      * destruct (IH (dropN (xfer_count n (lenN data)) data) Hb') as (t & rest & EQ & Hr & _).
        rewrite EQ. rewrite takeN_dropN.
        eexists _, _. split; [reflexivity|]. split; [exact Hr|discriminate].
      * destruct (IH data Hb') as (t & rest & EQ & Hr & _). rewrite EQ.
        eexists _, _. split; [reflexivity|]. split; [exact Hr|discriminate].
Qed.

Lemma write_all_any : forall outs data r wr t rest,
  write_all data outs = (r, wr, t, rest) ->
  (exists s, data = wr ++ s) /\
  (has_failed t = true -> is_err r = true) /\
  (r = Ok tt -> wr = data) /\
  lenN t <= lenN data + eintr_count t.
Proof.
  induction outs as [|o outs IH]; intros data r wr t rest; cbn [write_all].
  - destruct (N.eqb_spec (lenN data) 0) as [E|E]; intro EQ; inversion EQ; subst.
    + rewrite (lenN_zero _ E). split; [exists []; reflexivity|]. split; [discriminate|]. split; [reflexivity|].
      cbn. lia.
    + split; [exists []; rewrite app_nil_r; reflexivity|]. split; [discriminate|]. split; [reflexivity|].
      rewrite lenN_cons, lenN_nil. unfold eintr_count; cbn. lia.
  - destruct (N.eqb_spec (lenN data) 0) as [E|E].
    + intro EQ; inversion EQ; subst. rewrite (lenN_zero _ E).
      split; [exists []; reflexivity|]. split; [discriminate|]. split; [reflexivity|]. cbn. lia.
    + destruct o.
      * pose proof (xfer_count_bounds n (lenN data) ltac:(lia)) as [K1 K2].
        set (k := xfer_count n (lenN data)) in *.
        destruct (write_all (dropN k data) outs) as [[[r' wr'] t'] rest'] eqn:ER.
        intro EQ; inversion EQ; subst. destruct (IH _ _ _ _ _ ER) as ((s & Hs) & Hf & Hok & Hc).
        split; [exists s; rewrite <- app_assoc, <- Hs, takeN_dropN; reflexivity|].
        split; [unfold has_failed; cbn [existsb failed_rec snd]; cbn; exact Hf|].
        split; [intro Hr; rewrite (Hok Hr), takeN_dropN; reflexivity|].
        rewrite lenN_cons, eintr_count_cons. cbn [is_eintr snd].
        rewrite lenN_dropN in Hc. lia.
      * destruct (write_all data outs) as [[[r' wr'] t'] rest'] eqn:ER.
        intro EQ; inversion EQ; subst. destruct (IH _ _ _ _ _ ER) as (Hp & Hf & Hok & Hc).
        split; [exact Hp|]. split; [unfold has_failed; cbn [existsb failed_rec snd]; cbn; exact Hf|].
        split; [exact Hok|]. rewrite lenN_cons, eintr_count_cons. cbn [is_eintr snd]. lia.
      * intro EQ; inversion EQ; subst. split; [exists data; reflexivity|]. split; [reflexivity|].
        split; [discriminate|]. rewrite lenN_cons, lenN_nil, eintr_count_cons. cbn. lia.
      * intro EQ; inversion EQ; subst. split; [exists data; reflexivity|]. split; [reflexivity|].
        split; [discriminate|]. rewrite lenN_cons, lenN_nil, eintr_count_cons. cbn. lia.
Qed.

(* ------------------------------------------------------------------ *)
(* ftruncate loop                                                       *)
(* ------------------------------------------------------------------ *)

Lemma ftruncate_loop_spec len : forall outs,
  benign outs ->
  exists t rest, ftruncate_loop len outs = (Ok tt, t, rest) /\ benign rest /\ (outs = [] -> rest = []).
Proof.
  induction outs as [|o outs IH]; intro Hb; cbn [ftruncate_loop].
  - eexists _, _. split; [reflexivity|]. split; [constructor|reflexivity].
  - pose proof (benign_head _ _ Hb) as Ho. pose proof (benign_tail _ _ Hb) as Hb'.
    destruct o; try discriminate Ho.
    + eexists _, _. split; [reflexivity|]. split; [exact Hb'|discriminate].
    + destruct (IH Hb') as (t & rest & E & Hr & _). rewrite E.
      eexists _, _. split; [reflexivity|]. split; [exact Hr|discriminate].
Qed.

Lemma ftruncate_loop_any len : forall outs r t rest,
  ftruncate_loop len outs = (r, t, rest) ->
  (existsb (fun x => match snd x with Fail => true | _ => false end) t = true -> is_err r = true) /\
  lenN t <= 1 + eintr_count t.
Proof.
  induction outs as [|o outs IH]; intros r t rest; cbn [ftruncate_loop].
  - intro E; inversion E; subst. split; [discriminate|]. cbn. lia.
  - destruct o.
    + intro E; inversion E; subst. split; [discriminate|]. rewrite lenN_cons, lenN_nil, eintr_count_cons; cbn; lia.
    + destruct (ftruncate_loop len outs) as [[r' t'] rest'] eqn:ER.
      intro E; inversion E; subst. destruct (IH _ _ _ eq_refl) as [Hf Hc].
      split; [cbn; exact Hf|]. rewrite lenN_cons, eintr_count_cons. cbn [is_eintr snd]. lia.
    + intro E; inversion E; subst. split; [discriminate|]. rewrite lenN_cons, lenN_nil, eintr_count_cons; cbn; lia.
    + intro E; inversion E; subst. split; [reflexivity|]. rewrite lenN_cons, lenN_nil, eintr_count_cons; cbn; lia.
Qed.

(* ------------------------------------------------------------------ *)
(* file object: read_at / write_at / truncate                           *)
(* ------------------------------------------------------------------ *)

Definition read_at_result (f : fstate) (off size : N) : res (list N) :=
  match read_at_status (f_content f) off size with
  | Ok _ => Ok (takeN size (dropN off (f_content f)))
  | Err e => Err e
  end.

Lemma read_at_spec f off size outs :
  benign outs ->
  exists t rest, read_at f off size outs = (read_at_result f off size, t, rest)
                 /\ benign rest /\ (outs = [] -> rest = []).
Proof.
  intro Hb. unfold read_at, read_at_result.
  destruct (read_at_loop_spec (f_content f) outs off size Hb) as (t & rest & E & Hr & Hn).
  rewrite E. destruct (read_at_status (f_content f) off size); eexists _, _; (split; [reflexivity|split; assumption]).
Qed.

Definition write_at_state (f : fstate) (off : N) (data : list N) : fstate :=
  {| f_content := apply_written (f_content f) off data;
     f_size := if f_size f <=? off + lenN data then off + lenN data else f_size f |}.

Lemma write_at_spec f off data outs :
  benign outs ->
  exists t rest, write_at f off data outs = (Ok tt, write_at_state f off data, t, rest)
                 /\ benign rest /\ (outs = [] -> rest = []).
Proof.
  intro Hb. unfold write_at, write_at_state.
  destruct (write_at_loop_spec outs off data Hb) as (t & rest & E & Hr & Hn).
  rewrite E. eexists _, _. split; [reflexivity|split; assumption].
Qed.

Definition truncate_state (f : fstate) (len : N) : fstate :=
  {| f_content := truncate_content (f_content f) len; f_size := len |}.

Lemma truncate_file_spec f len outs :
  benign outs ->
  exists t rest, truncate_file f len outs = (Ok tt, truncate_state f len, t, rest)
                 /\ benign rest /\ (outs = [] -> rest = []).
Proof.
  intro Hb. unfold truncate_file, truncate_state.
  destruct (ftruncate_loop_spec len outs Hb) as (t & rest & E & Hr & Hn).
  rewrite E. eexists _, _. split; [reflexivity|split; assumption].
Qed.

(* ------------------------------------------------------------------ *)
(* ostream: zero_fill / realize_sparse / append / flush                 *)
(* ------------------------------------------------------------------ *)

Lemma zero_fill_spec bufsz : 0 < bufsz -> forall fuel sparse outs,
  benign outs -> sparse <= N.of_nat fuel * bufsz ->
  exists t rest, zero_fill fuel bufsz sparse outs = (Ok tt, sparse, 0, t, rest)
                 /\ benign rest /\ (outs = [] -> rest = []).
Proof.
  intro Hpos. induction fuel as [|f IH]; intros sparse outs Hb Hf; cbn [zero_fill].
  - assert (sparse = 0) by lia. subst. cbn. eexists _, _. split; [reflexivity|]. split; [exact Hb|auto].
  - destruct (N.eqb_spec sparse 0) as [->|Hs].
    + eexists _, _. split; [reflexivity|]. split; [exact Hb|auto].
    + destruct (write_all_spec outs (zerosN (N.min bufsz sparse)) Hb) as (t & rest & E & Hr & Hn).
      rewrite E.
      assert (Hf' : sparse - N.min bufsz sparse <= N.of_nat f * bufsz).
      { rewrite Nat2N.inj_succ, N.mul_succ_l in Hf. lia. }
      destruct (IH (sparse - N.min bufsz sparse) rest Hr Hf') as (t2 & rest2 & E2 & Hr2 & Hn2).
      rewrite E2. rewrite lenN_zerosN.
      replace (N.min bufsz sparse + (sparse - N.min bufsz sparse)) with sparse by lia.
      eexists _, _. split; [reflexivity|]. split; [exact Hr2|].
      intro H0. apply Hn2. apply Hn. exact H0.
Qed.

Definition realized (o : ostate) : ostate :=
  {| o_content := o_content o ++ zerosN (o_sparse o); o_sparse := 0; o_nosparse := o_nosparse o |}.

Lemma realize_sparse_spec zchunk o outs :
  0 < zchunk -> benign outs ->
  exists t rest, realize_sparse zchunk o outs = (Ok tt, realized o, t, rest)
                 /\ benign rest /\ (outs = [] -> rest = []).
Proof.
  intros Hz Hb. unfold realize_sparse, realized.
  destruct (N.eqb_spec (o_sparse o) 0) as [E0|E0].
  - rewrite E0, zerosN_0, app_nil_r. destruct o as [c s ns]. cbn in *. subst.
    eexists _, _. split; [reflexivity|]. split; [exact Hb|auto].
  - destruct (o_nosparse o) eqn:NS.
    + set (bufsz := if zchunk <? o_sparse o then zchunk else o_sparse o).
      assert (Hbz : 0 < bufsz) by (unfold bufsz; destruct (N.ltb_spec zchunk (o_sparse o)); lia).
      assert (Hfuel : o_sparse o <= N.of_nat (S (N.to_nat (o_sparse o / bufsz))) * bufsz).
      { rewrite Nat2N.inj_succ, N2Nat.id.
        pose proof (N.mul_succ_div_gt (o_sparse o) bufsz ltac:(lia)). lia. }
      destruct (zero_fill_spec bufsz Hbz _ (o_sparse o) outs Hb Hfuel) as (t & rest & E & Hr & Hn).
      rewrite E. eexists _, _. split; [reflexivity|]. split; assumption.
    + destruct (ftruncate_loop_spec (lenN (o_content o) + o_sparse o) outs Hb) as (t & rest & E & Hr & Hn).
      rewrite E. eexists _, _. split; [reflexivity|]. split; assumption.
Qed.

Definition append_state (o : ostate) (data : option (list N)) (n : N) : ostate :=
  match data with
  | None => {| o_content := o_content o; o_sparse := o_sparse o + n; o_nosparse := o_nosparse o |}
  | Some d =>
      if lenN d =? 0 then o
      else {| o_content := (o_content o ++ zerosN (o_sparse o)) ++ d; o_sparse := 0; o_nosparse := o_nosparse o |}
  end.

Lemma ostream_append_spec zchunk o data n outs :
  0 < zchunk -> benign outs ->
  exists t rest, ostream_append zchunk o data n outs = (Ok tt, append_state o data n, t, rest)
                 /\ benign rest /\ (outs = [] -> rest = []).
Proof.
  intros Hz Hb. unfold ostream_append, append_state. destruct data as [d|].
  - destruct (N.eqb_spec (lenN d) 0) as [E0|E0].
    + eexists _, _. split; [reflexivity|]. split; [exact Hb|auto].
    + destruct (realize_sparse_spec zchunk o outs Hz Hb) as (t & rest & E & Hr & Hn). rewrite E.
      destruct (write_all_spec rest d Hr) as (t2 & rest2 & E2 & Hr2 & Hn2). rewrite E2.
      cbn. eexists _, _. split; [reflexivity|]. split; [exact Hr2|].
      intro H0. apply Hn2, Hn, H0.
  - eexists _, _. split; [reflexivity|]. split; [exact Hb|auto].
Qed.

(* what has reached the descriptor is independent of the NO_SPARSE flag *)
Lemma append_state_flag_independent c s d n b1 b2 :
  o_content (append_state {| o_content := c; o_sparse := s; o_nosparse := b1 |} d n)
  = o_content (append_state {| o_content := c; o_sparse := s; o_nosparse := b2 |} d n).
Proof. unfold append_state. destruct d as [d|]; [destruct (lenN d =? 0)|]; reflexivity. Qed.

(* failing calls are errors; nothing but a prefix of the data is ever appended *)
Lemma zero_fill_any bufsz : forall fuel sparse outs r n s t rest,
  zero_fill fuel bufsz sparse outs = (r, n, s, t, rest) ->
  (has_failed t = true -> is_err r = true) /\ n <= sparse.
Proof.
  induction fuel as [|f IH]; intros sparse outs r n s t rest; cbn [zero_fill].
  - destruct (sparse =? 0); intro E; inversion E; subst; (split; [discriminate|lia]).
  - destruct (N.eqb_spec sparse 0) as [->|Hs].
    + intro E; inversion E; subst. split; [discriminate|lia].
    + destruct (write_all (zerosN (N.min bufsz sparse)) outs) as [[[r1 wr] t1] rest1] eqn:EW.
      destruct (write_all_any _ _ _ _ _ _ EW) as ((sfx & Hp) & Hf & Hok & _).
      assert (Lw : lenN wr <= N.min bufsz sparse).
      { pose proof (f_equal lenN Hp) as L. rewrite lenN_app, lenN_zerosN in L. lia. }
      destruct r1 as [u|e].
      * destruct (zero_fill f bufsz (sparse - N.min bufsz sparse) rest1) as [[[[r2 n2] s2] t2] rest2] eqn:EZ.
        intro E; inversion E; subst. destruct (IH _ _ _ _ _ _ _ EZ) as [Hf2 Hn2].
        split; [|lia].
        unfold has_failed in *. rewrite existsb_app. intro H. apply orb_true_iff in H. destruct H as [H|H].
        -- specialize (Hf H). discriminate.
        -- exact (Hf2 H).
      * intro E; inversion E; subst. split; [reflexivity|lia].
Qed.

(* ------------------------------------------------------------------ *)
(* the wrappers, under every outcome stream                             *)
(* ------------------------------------------------------------------ *)

Lemma read_at_any f off size outs r t rest :
  read_at f off size outs = (r, t, rest) ->
  lenN t <= size + eintr_count t + 1 /\
  (is_err r = false -> lenN t <= size + eintr_count t) /\
  (has_failed t = true -> is_err r = true) /\
  (forall b, r = Ok b -> b = takeN size (dropN off (f_content f)) /\ lenN b = size).
Proof.
  unfold read_at.
  destruct (read_at_loop (f_content f) off size outs) as [[[r0 g] t0] rest0] eqn:E.
  destruct (read_at_loop_calls _ _ _ _ _ _ _ _ E) as [C1 C2].
  destruct (read_at_loop_any _ _ _ _ _ _ _ _ E) as (_ & F & K).
  destruct r0 as [[]|e]; intro EQ; inversion EQ; subst r t rest.
  - split; [exact C1|]. split; [intros _; apply C2; reflexivity|]. split; [exact F|].
    intros b Hb. inversion Hb; subst b. apply K. reflexivity.
  - split; [exact C1|]. split; [discriminate|]. split; [reflexivity|]. discriminate.
Qed.

Lemma write_at_any f off data outs r f' t rest :
  write_at f off data outs = (r, f', t, rest) ->
  lenN t <= lenN data + eintr_count t /\
  (has_failed t = true -> is_err r = true) /\
  (exists wr s, data = wr ++ s /\ f_content f' = apply_written (f_content f) off wr /\
                (r = Ok tt -> s = [])) /\
  (is_err r = true -> f_size f' = f_size f).
Proof.
  unfold write_at.
  destruct (write_at_loop off data outs) as [[[r0 wr] t0] rest0] eqn:E.
  destruct (write_at_loop_any _ _ _ _ _ _ _ E) as ((s & Hs) & F & K & C).
  destruct r0 as [[]|e]; intro EQ; inversion EQ; subst r f' t rest; cbn [f_content f_size].
  - split; [exact C|]. split; [exact F|]. split; [|discriminate].
    exists wr, s. split; [exact Hs|]. split; [reflexivity|]. intros _.
    specialize (K eq_refl). rewrite K in Hs. rewrite <- (app_nil_r data) in Hs at 1.
    apply app_inv_head in Hs. symmetry. exact Hs.
  - split; [exact C|]. split; [exact F|]. split; [|reflexivity].
    exists wr, s. split; [exact Hs|]. split; [reflexivity|]. discriminate.
Qed.

(* what the one-shot result is *)
Lemma read_at_result_char f off size :
  (size = 0 \/ off + size <= lenN (f_content f) ->
     read_at_result f off size = Ok (takeN size (dropN off (f_content f)))) /\
  (0 < size -> lenN (f_content f) < off + size -> read_at_result f off size = Err e_oob).
Proof.
  unfold read_at_result, read_at_status. rewrite lenN_dropN. split.
  - intro H. replace (size <=? lenN (f_content f) - off) with true; [reflexivity|].
    symmetry. apply N.leb_le. lia.
  - intros H1 H2. replace (size <=? lenN (f_content f) - off) with false; [reflexivity|].
    symmetry. apply N.leb_gt. lia.
Qed.
