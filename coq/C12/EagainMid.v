(* C12 extension (session 3): a would-block in the MIDDLE of the kernel's answers, at the level of
   whole processes.  For every client tree (hence get_line, header_read, record_to_memory, splice,
   any op list) run on  pre ++ KErrno e :: post  where e is not EINTR (e.g. Eagain) and [pre]
   holds only transfers and EINTRs:
     EITHER the answer was consumed -- then the call log shows the failed call (has_fail t), which
            by the *_every_stream theorems makes get_line / header / record / read / skip an error,
     OR     it is still among the unused answers (the process finished before reaching it). *)
From Coq Require Import List NArith ZArith Bool Lia.
From SqfsV Require Import Gen.Constants C12.ListN C12.IoModel C12.RetryProofs C12.IStreamProofs C12.GetLineProofs
  C12.Eagain C12.FailStop.
Import ListNotations.
Local Open Scope N_scope.

Section Mid.
Variable e : N.
Variable post : list kout.
Hypothesis Hh : hard (KErrno e) = true.

Definition mid_ok (t : list sysrec) (rest : list outcome) : Prop :=
  has_fail t = true \/
  exists rest', forallb soft rest' = true /\ rest = map classify (rest' ++ KErrno e :: post).

Definition mid_fn {X : Type} (f : list outcome -> X * list sysrec * list outcome) : Prop :=
  forall pre, forallb soft pre = true ->
  let '(_, t, rest) := f (map classify (pre ++ KErrno e :: post)) in mid_ok t rest.

Lemma cls_e : classify (KErrno e) = Fail.
Proof. apply classify_hard, Hh. Qed.

Lemma mid_unconsumed pre t : forallb soft pre = true -> mid_ok t (map classify (pre ++ KErrno e :: post)).
Proof. intro H. right. exists pre. split; [exact H|reflexivity]. Qed.

Lemma mid_cons r t rest : mid_ok t rest -> mid_ok (r :: t) rest.
Proof.
  intros [H|H]; [left|right; exact H]. unfold has_fail in *. cbn [existsb]. rewrite H. apply orb_true_r.
Qed.

Lemma mid_app t1 t2 rest : mid_ok t2 rest -> mid_ok (t1 ++ t2) rest.
Proof. intros [H|H]; [left|right; exact H]. rewrite has_fail_app, H. apply orb_true_r. Qed.

Lemma mid_failed t1 t2 rest : has_fail t1 = true -> mid_ok (t1 ++ t2) rest.
Proof. intro H. left. rewrite has_fail_app, H. reflexivity. Qed.

Lemma soft_classify k : soft k = true -> classify k = Zero -> False.
Proof. destruct k as [n| |e1]; cbn; try discriminate. destruct (e1 =? c_EINTR); discriminate. Qed.

(* ---- the five loops ---- *)

Lemma refill_mid bufsz : forall used src, mid_fn (refill bufsz used src).
Proof.
  intros used src pre. revert used src. induction pre as [|k pre IH]; intros used src Hs.
  - cbn [app map refill]. rewrite cls_e. destruct (bufsz <=? used).
    + rewrite <- cls_e. apply (mid_unconsumed []). reflexivity.
    + left. reflexivity.
  - cbn [forallb] in Hs. apply andb_true_iff in Hs as [Hk Hs].
    cbn [app map refill]. destruct (bufsz <=? used).
    + apply (mid_unconsumed (k :: pre)). cbn [forallb]. rewrite Hk, Hs. reflexivity.
    + destruct k as [n| |e1]; [| discriminate Hk |]; cbn [classify].
      * destruct (lenN (takeN (xfer_count n (bufsz - used)) src) =? 0).
        -- apply mid_unconsumed, Hs.
        -- specialize (IH (used + lenN (takeN (xfer_count n (bufsz - used)) src))
                          (dropN (xfer_count n (bufsz - used)) src) Hs).
           destruct (refill bufsz _ _ (map classify (pre ++ KErrno e :: post))) as [[[[[r g] eof] s] t] rest].
           apply mid_cons, IH.
      * cbn [soft] in Hk. rewrite Hk. specialize (IH used src Hs).
        destruct (refill bufsz used src (map classify (pre ++ KErrno e :: post))) as [[[[[r g] eof] s] t] rest].
        apply mid_cons, IH.
Qed.

Lemma write_all_mid : forall data, mid_fn (write_all data).
Proof.
  intros data pre. revert data. induction pre as [|k pre IH]; intros data Hs.
  - cbn [app map write_all]. rewrite cls_e. destruct (lenN data =? 0).
    + rewrite <- cls_e. apply (mid_unconsumed []). reflexivity.
    + left. reflexivity.
  - cbn [forallb] in Hs. apply andb_true_iff in Hs as [Hk Hs].
    cbn [app map write_all]. destruct (lenN data =? 0).
    + apply (mid_unconsumed (k :: pre)). cbn [forallb]. rewrite Hk, Hs. reflexivity.
    + destruct k as [n| |e1]; [| discriminate Hk |]; cbn [classify].
      * specialize (IH (dropN (xfer_count n (lenN data)) data) Hs).
        destruct (write_all _ (map classify (pre ++ KErrno e :: post))) as [[[r wr] t] rest].
        apply mid_cons, IH.
      * cbn [soft] in Hk. rewrite Hk. specialize (IH data Hs).
        destruct (write_all data (map classify (pre ++ KErrno e :: post))) as [[[r wr] t] rest].
        apply mid_cons, IH.
Qed.

Lemma read_at_loop_mid content : forall off size, mid_fn (read_at_loop content off size).
Proof.
  intros off size pre. revert off size. induction pre as [|k pre IH]; intros off size Hs.
  - cbn [app map read_at_loop]. rewrite cls_e. destruct (size =? 0).
    + rewrite <- cls_e. apply (mid_unconsumed []). reflexivity.
    + left. reflexivity.
  - cbn [forallb] in Hs. apply andb_true_iff in Hs as [Hk Hs].
    cbn [app map read_at_loop]. destruct (size =? 0).
    + apply (mid_unconsumed (k :: pre)). cbn [forallb]. rewrite Hk, Hs. reflexivity.
    + destruct k as [n| |e1]; [| discriminate Hk |]; cbn [classify].
      * destruct (lenN (takeN (xfer_count n size) (dropN off content)) =? 0).
        -- apply mid_unconsumed, Hs.
        -- specialize (IH (off + lenN (takeN (xfer_count n size) (dropN off content)))
                          (size - lenN (takeN (xfer_count n size) (dropN off content))) Hs).
           destruct (read_at_loop content _ _ (map classify (pre ++ KErrno e :: post))) as [[[r g] t] rest].
           apply mid_cons, IH.
      * cbn [soft] in Hk. rewrite Hk. specialize (IH off size Hs).
        destruct (read_at_loop content off size (map classify (pre ++ KErrno e :: post))) as [[[r g] t] rest].
        apply mid_cons, IH.
Qed.

Lemma write_at_loop_mid : forall off data, mid_fn (write_at_loop off data).
Proof.
  intros off data pre. revert off data. induction pre as [|k pre IH]; intros off data Hs.
  - cbn [app map write_at_loop]. rewrite cls_e. destruct (lenN data =? 0).
    + rewrite <- cls_e. apply (mid_unconsumed []). reflexivity.
    + left. reflexivity.
  - cbn [forallb] in Hs. apply andb_true_iff in Hs as [Hk Hs].
    cbn [app map write_at_loop]. destruct (lenN data =? 0).
    + apply (mid_unconsumed (k :: pre)). cbn [forallb]. rewrite Hk, Hs. reflexivity.
    + destruct k as [n| |e1]; [| discriminate Hk |]; cbn [classify].
      * specialize (IH (off + lenN (takeN (xfer_count n (lenN data)) data))
                       (dropN (xfer_count n (lenN data)) data) Hs).
        destruct (write_at_loop _ _ (map classify (pre ++ KErrno e :: post))) as [[[r wr] t] rest].
        apply mid_cons, IH.
      * cbn [soft] in Hk. rewrite Hk. specialize (IH off data Hs).
        destruct (write_at_loop off data (map classify (pre ++ KErrno e :: post))) as [[[r wr] t] rest].
        apply mid_cons, IH.
Qed.

Lemma ftruncate_loop_mid len : mid_fn (ftruncate_loop len).
Proof.
  intros pre. induction pre as [|k pre IH]; intros Hs.
  - cbn [app map ftruncate_loop]. rewrite cls_e. left. reflexivity.
  - cbn [forallb] in Hs. apply andb_true_iff in Hs as [Hk Hs].
    cbn [app map ftruncate_loop].
    destruct k as [n| |e1]; [| discriminate Hk |]; cbn [classify].
    + apply mid_unconsumed, Hs.
    + cbn [soft] in Hk. rewrite Hk. specialize (IH Hs).
      destruct (ftruncate_loop len (map classify (pre ++ KErrno e :: post))) as [[r t] rest].
      apply mid_cons, IH.
Qed.

(* ---- the objects ---- *)

Lemma read_at_mid f off size : mid_fn (read_at f off size).
Proof.
  intros pre Hs. unfold read_at. pose proof (read_at_loop_mid (f_content f) off size pre Hs) as M.
  destruct (read_at_loop _ _ _ _) as [[[r b] t] rest]. destruct r; exact M.
Qed.

Lemma write_at_mid f off data : mid_fn (write_at f off data).
Proof.
  intros pre Hs. unfold write_at. pose proof (write_at_loop_mid off data pre Hs) as M.
  destruct (write_at_loop _ _ _) as [[[r wr] t] rest]. destruct r; exact M.
Qed.

Lemma truncate_file_mid f len : mid_fn (truncate_file f len).
Proof.
  intros pre Hs. unfold truncate_file. pose proof (ftruncate_loop_mid len pre Hs) as M.
  destruct (ftruncate_loop _ _) as [[r t] rest]. destruct r; exact M.
Qed.

Lemma zero_fill_mid bufsz : forall fuel sparse, mid_fn (zero_fill fuel bufsz sparse).
Proof.
  induction fuel as [|f IH]; intros sparse pre Hs; cbn [zero_fill].
  - destruct (sparse =? 0); lazy beta iota zeta; apply mid_unconsumed, Hs.
  - destruct (sparse =? 0); [lazy beta iota zeta; apply mid_unconsumed, Hs|].
    pose proof (write_all_mid (zerosN (N.min bufsz sparse)) pre Hs) as M.
    destruct (write_all _ _) as [[[r wr] t] rest]. lazy beta iota zeta in M. destruct r as [u|e1].
    + destruct M as [HF|(rest' & Hs' & ->)].
      * destruct (zero_fill f bufsz _ rest) as [[[[r2 n2] s2] t2] rest2]. apply mid_failed, HF.
      * specialize (IH (sparse - N.min bufsz sparse) rest' Hs').
        destruct (zero_fill f bufsz _ _) as [[[[r2 n2] s2] t2] rest2]. apply mid_app, IH.
    + exact M.
Qed.

Lemma realize_sparse_mid zchunk o : mid_fn (realize_sparse zchunk o).
Proof.
  intros pre Hs. unfold realize_sparse.
  destruct (o_sparse o =? 0); [lazy beta iota zeta; apply mid_unconsumed, Hs|].
  destruct (o_nosparse o).
  - cbv zeta.
    match goal with |- context [zero_fill ?a ?b ?c _] => pose proof (zero_fill_mid b a c pre Hs) as M end.
    destruct (zero_fill _ _ _ _) as [[[[r n] s'] t] rest]. exact M.
  - pose proof (ftruncate_loop_mid (lenN (o_content o) + o_sparse o) pre Hs) as M.
    destruct (ftruncate_loop _ _) as [[r t] rest]. destruct r; exact M.
Qed.

Lemma append_mid zchunk o d n : mid_fn (ostream_append zchunk o d n).
Proof.
  intros pre Hs. unfold ostream_append. destruct d as [d|]; [|lazy beta iota zeta; apply mid_unconsumed, Hs].
  destruct (lenN d =? 0); [lazy beta iota zeta; apply mid_unconsumed, Hs|].
  pose proof (realize_sparse_mid zchunk o pre Hs) as M.
  destruct (realize_sparse zchunk o _) as [[[r o1] t1] rest1]. lazy beta iota zeta in M.
  destruct r as [u|e1]; [|exact M].
  destruct M as [HF|(rest' & Hs' & ->)].
  - destruct (write_all d rest1) as [[[r2 wr] t2] rest2]. apply mid_failed, HF.
  - pose proof (write_all_mid d rest' Hs') as M2.
    destruct (write_all d _) as [[[r2 wr] t2] rest2]. apply mid_app, M2.
Qed.

Lemma flush_mid zchunk o : mid_fn (ostream_flush zchunk o).
Proof. exact (realize_sparse_mid zchunk o). Qed.

Lemma precache_mid bufsz st src : mid_fn (precache bufsz st src).
Proof.
  intros pre Hs. unfold precache. destruct (i_eof st); [lazy beta iota zeta; apply mid_unconsumed, Hs|].
  cbv zeta.
  match goal with |- context [refill bufsz ?u src _] => pose proof (refill_mid bufsz u src pre Hs) as M end.
  destruct (refill _ _ _ _) as [[[[[r g] eof] s] t] rest]. exact M.
Qed.

Lemma gbd_mid bufsz st src want : mid_fn (get_buffered_data bufsz st src want).
Proof.
  intros pre Hs. unfold get_buffered_data. cbv zeta. destruct (_ || _).
  - pose proof (precache_mid bufsz st src pre Hs) as M.
    destruct (precache _ _ _ _) as [[[[r st'] src'] t] rest]. destruct r; exact M.
  - lazy beta iota zeta. apply mid_unconsumed, Hs.
Qed.

(* ---- every process ---- *)

Lemma run_mid bufsz zchunk {R : Type} (c : client R) : forall w, mid_fn (run bufsz zchunk c w).
Proof.
  induction c as [r|want k IH|n k IH|d n k IH|k IH|off size k IH|off d k IH|len k IH|k IH];
    intros w pre Hs; cbn [run].
  - lazy beta iota zeta. apply mid_unconsumed, Hs.
  - pose proof (gbd_mid bufsz (w_in w) (w_src w) want pre Hs) as M.
    destruct (get_buffered_data _ _ _ _ _) as [[[[g st'] src'] t] rest]. lazy beta iota zeta in M.
    destruct M as [HF|(rest' & Hs' & ->)].
    + destruct (run bufsz zchunk (k g) _ rest) as [[[r1 w1] t1] rest1]. apply mid_failed, HF.
    + match goal with |- context [run bufsz zchunk (k g) ?w1 _] => pose proof (IH g w1 rest' Hs') as M2 end.
      destruct (run bufsz zchunk (k g) _ _) as [[[r1 w1] t1] rest1]. apply mid_app, M2.
  - apply IH, Hs.
  - pose proof (append_mid zchunk (w_out w) d n pre Hs) as M.
    destruct (ostream_append _ _ _ _ _) as [[[x o'] t] rest]. lazy beta iota zeta in M.
    destruct M as [HF|(rest' & Hs' & ->)].
    + destruct (run bufsz zchunk (k x) _ rest) as [[[r1 w1] t1] rest1]. apply mid_failed, HF.
    + match goal with |- context [run bufsz zchunk (k x) ?w1 _] => pose proof (IH x w1 rest' Hs') as M2 end.
      destruct (run bufsz zchunk (k x) _ _) as [[[r1 w1] t1] rest1]. apply mid_app, M2.
  - pose proof (flush_mid zchunk (w_out w) pre Hs) as M.
    destruct (ostream_flush _ _ _) as [[[x o'] t] rest]. lazy beta iota zeta in M.
    destruct M as [HF|(rest' & Hs' & ->)].
    + destruct (run bufsz zchunk (k x) _ rest) as [[[r1 w1] t1] rest1]. apply mid_failed, HF.
    + match goal with |- context [run bufsz zchunk (k x) ?w1 _] => pose proof (IH x w1 rest' Hs') as M2 end.
      destruct (run bufsz zchunk (k x) _ _) as [[[r1 w1] t1] rest1]. apply mid_app, M2.
  - pose proof (read_at_mid (w_file w) off size pre Hs) as M.
    destruct (read_at _ _ _ _) as [[x t] rest]. lazy beta iota zeta in M.
    destruct M as [HF|(rest' & Hs' & ->)].
    + destruct (run bufsz zchunk (k x) _ rest) as [[[r1 w1] t1] rest1]. apply mid_failed, HF.
    + pose proof (IH x w rest' Hs') as M2.
      destruct (run bufsz zchunk (k x) _ _) as [[[r1 w1] t1] rest1]. apply mid_app, M2.
  - pose proof (write_at_mid (w_file w) off d pre Hs) as M.
    destruct (write_at _ _ _ _) as [[[x f'] t] rest]. lazy beta iota zeta in M.
    destruct M as [HF|(rest' & Hs' & ->)].
    + destruct (run bufsz zchunk (k x) _ rest) as [[[r1 w1] t1] rest1]. apply mid_failed, HF.
    + match goal with |- context [run bufsz zchunk (k x) ?w1 _] => pose proof (IH x w1 rest' Hs') as M2 end.
      destruct (run bufsz zchunk (k x) _ _) as [[[r1 w1] t1] rest1]. apply mid_app, M2.
  - pose proof (truncate_file_mid (w_file w) len pre Hs) as M.
    destruct (truncate_file _ _ _) as [[[x f'] t] rest]. lazy beta iota zeta in M.
    destruct M as [HF|(rest' & Hs' & ->)].
    + destruct (run bufsz zchunk (k x) _ rest) as [[[r1 w1] t1] rest1]. apply mid_failed, HF.
    + match goal with |- context [run bufsz zchunk (k x) ?w1 _] => pose proof (IH x w1 rest' Hs') as M2 end.
      destruct (run bufsz zchunk (k x) _ _) as [[[r1 w1] t1] rest1]. apply mid_app, M2.
  - apply IH, Hs.
Qed.
End Mid.

(* every process, on a stream with a would-block after transfers/EINTRs only *)
Theorem run_k_mid bufsz zchunk {R : Type} (c : client R) w e post pre r w' t rest :
  hard (KErrno e) = true -> forallb soft pre = true ->
  run_k bufsz zchunk c w (pre ++ KErrno e :: post) = (r, w', t, rest) ->
  has_fail t = true \/
  exists rest', forallb soft rest' = true /\ rest = map classify (rest' ++ KErrno e :: post).
Proof.
  intros Hh Hs E. pose proof (run_mid e post Hh bufsz zchunk c w pre Hs) as M.
  unfold run_k in E. rewrite E in M. exact M.
Qed.

(* the consumers: the would-block is EITHER still unused OR the operation is an error -- in
   particular never LEof / TShort / a short line or record *)
Theorem get_line_would_block bufsz zchunk flags fuel w e post pre r w' t rest :
  0 < bufsz -> wf bufsz (w_in w) -> lenN (pending (w_in w) (w_src w)) < N.of_nat fuel ->
  hard (KErrno e) = true -> forallb soft pre = true ->
  run_k bufsz zchunk (istream_get_line fuel flags) w (pre ++ KErrno e :: post) = (r, w', t, rest) ->
  r = LErr e_io \/
  exists rest', forallb soft rest' = true /\ rest = map classify (rest' ++ KErrno e :: post).
Proof.
  intros Hbz Hwf Hf Hh Hs E.
  destruct (run_k_mid _ _ _ _ _ _ _ _ _ _ _ Hh Hs E) as [HF|U]; [left|right; exact U].
  unfold run_k, istream_get_line in E.
  destruct (get_line_any bufsz zchunk flags Hbz _ _ _ _ _ _ _ _ _ Hwf Hf E) as (_ & _ & _ & M).
  unfold gl_post in M. destruct r; destruct M as [A _]; congruence.
Qed.

Theorem header_read_would_block bufsz zchunk fuel w e post pre r w' t rest :
  0 < bufsz -> wf bufsz (w_in w) -> sizeof_tar_header_t <= N.of_nat fuel ->
  hard (KErrno e) = true -> forallb soft pre = true ->
  run_k bufsz zchunk (header_read fuel) w (pre ++ KErrno e :: post) = (r, w', t, rest) ->
  r = TErr e_io \/
  exists rest', forallb soft rest' = true /\ rest = map classify (rest' ++ KErrno e :: post).
Proof.
  intros Hbz Hwf Hf Hh Hs E.
  destruct (run_k_mid _ _ _ _ _ _ _ _ _ _ _ Hh Hs E) as [HF|U]; [left|right; exact U].
  unfold run_k in E.
  destruct (header_read_any bufsz zchunk fuel w _ r w' t rest Hbz Hwf Hf E) as (_ & M).
  destruct r; try (destruct M as [A _]; congruence). contradiction.
Qed.

Theorem record_to_memory_would_block bufsz zchunk fuel size w e post pre r w' t rest :
  0 < bufsz -> wf bufsz (w_in w) -> size <= s32_max -> size + tar_rec <= N.of_nat fuel ->
  hard (KErrno e) = true -> forallb soft pre = true ->
  run_k bufsz zchunk (record_to_memory fuel size) w (pre ++ KErrno e :: post) = (r, w', t, rest) ->
  r = TErr e_io \/
  exists rest', forallb soft rest' = true /\ rest = map classify (rest' ++ KErrno e :: post).
Proof.
  intros Hbz Hwf Hsz Hf Hh Hs E.
  destruct (run_k_mid _ _ _ _ _ _ _ _ _ _ _ Hh Hs E) as [HF|U]; [left|right; exact U].
  unfold run_k in E.
  destruct (record_to_memory_any bufsz zchunk fuel size w _ r w' t rest Hbz Hwf Hsz Hf E) as (_ & M).
  destruct r; try (destruct M as [A _]; congruence). contradiction.
Qed.
