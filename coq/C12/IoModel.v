(* C12 — executable model of the four places where /repo talks to the kernel's byte-transfer
   calls, and of everything that sits directly on top of them.

     lib/sqfs/src/io/file.c      stdio_read_at / stdio_write_at / stdio_truncate   (pread, pwrite, ftruncate)
     lib/sqfs/src/io/unix.c      sqfs_native_file_seek: the ftruncate/EINTR loop
     lib/sqfs/src/io/ostream.c   write_all, realize_sparse, file_append, file_flush (write, lseek+ftruncate)
     lib/sqfs/src/io/istream.c   precache, file_get_buffered_data, file_advance_buffer (read)
     lib/sqfs/src/io/stream_api.c sqfs_istream_read / _skip / _splice
     lib/util/src/get_line.c     istream_get_line (+ ltrim/rtrim/trim_flags)
     lib/tar/src/record_to_memory.c, the 512-byte header read of lib/tar/src/read_header.c

   The kernel is an oracle: a list of outcomes, one per system call, consumed in call order by
   whatever object makes the next call (one process-wide stream, as in reality).  When the list is
   exhausted every further call completes in full.  Definitions only; proofs are in IoProofs.v. *)
From Coq Require Import List NArith ZArith Bool.
From SqfsV Require Import Gen.Constants C12.ListN.
Import ListNotations.
Local Open Scope N_scope.

(* ------------------------------------------------------------------ *)
(* The OS oracle                                                       *)
(* ------------------------------------------------------------------ *)

(* One outcome per call.
   [Xfer n]  the kernel is willing to move up to max(n,1) bytes now: the call returns
             min(max(n,1), request, bytes available) -- 0 only if nothing is left (end of file).
   [Eintr]   -1 / errno = EINTR, nothing transferred.
   [Zero]    the call returns 0 although the request was not empty (not kernel behaviour for reads
             before end-of-file; for writes the code treats it as an error).
   [Fail]    -1 with any other errno. *)
Inductive outcome := Xfer (n : N) | Eintr | Zero | Fail.

Definition xfer_count (n req : N) : N := N.min (N.max n 1) req.

Inductive kind := KRead | KWrite | KPread | KPwrite | KTrunc.

(* what was asked (kind, request size, offset or 0) and what the oracle answered *)
Definition sysrec := (kind * N * N * outcome)%type.

Inductive res (A : Type) := Ok (a : A) | Err (e : Z).
Arguments Ok {A} a.
Arguments Err {A} e.

Definition e_io : Z := c_SQFS_ERROR_IO.
Definition e_oob : Z := c_SQFS_ERROR_OUT_OF_BOUNDS.

Definition benign_outcome (o : outcome) : bool :=
  match o with Xfer _ | Eintr => true | Zero | Fail => false end.
Definition benign (outs : list outcome) : Prop := Forall (fun o => benign_outcome o = true) outs.

Definition is_eintr (r : sysrec) : bool := match snd r with Eintr => true | _ => false end.
Definition eintr_count (t : list sysrec) : N := lenN (filter is_eintr t).

(* ------------------------------------------------------------------ *)
(* file.c: stdio_read_at                                               *)
(* ------------------------------------------------------------------ *)

(* while (size > 0) { ret = pread(fd, buffer, size, offset);
     if (ret < 0) { if (errno == EINTR) continue; return SQFS_ERROR_IO; }
     if (ret == 0) return SQFS_ERROR_OUT_OF_BOUNDS;
     buffer += ret; size -= ret; offset += ret; } return 0;
   Result: status, the bytes stored into the caller's buffer (in order), calls made, unused outcomes. *)
Fixpoint read_at_loop (content : list N) (off size : N) (outs : list outcome)
  : res unit * list N * list sysrec * list outcome :=
  if size =? 0 then (Ok tt, [], [], outs) else
  match outs with
  | [] =>
      (* every remaining call completes in full *)
      let d := takeN size (dropN off content) in
      if lenN d =? size then (Ok tt, d, [(KPread, size, off, Xfer size)], [])
      else if lenN d =? 0 then (Err e_oob, [], [(KPread, size, off, Xfer size)], [])
      else (Err e_oob, d,
            [(KPread, size, off, Xfer size);
             (KPread, size - lenN d, off + lenN d, Xfer (size - lenN d))], [])
  | o :: outs' =>
      let rec := (KPread, size, off, o) in
      match o with
      | Eintr =>
          let '(r, g, t, rest) := read_at_loop content off size outs' in (r, g, rec :: t, rest)
      | Fail => (Err e_io, [], [rec], outs')
      | Zero => (Err e_oob, [], [rec], outs')
      | Xfer n =>
          let d := takeN (xfer_count n size) (dropN off content) in
          if lenN d =? 0 then (Err e_oob, [], [rec], outs')
          else
            let '(r, g, t, rest) := read_at_loop content (off + lenN d) (size - lenN d) outs' in
            (r, d ++ g, rec :: t, rest)
      end
  end.

(* ------------------------------------------------------------------ *)
(* file.c: stdio_write_at / stdio_truncate / get_size                  *)
(* ------------------------------------------------------------------ *)

(* the bytes of a file after pwrite(data) at [off]: a gap behind the old end reads as zeros *)
Definition pad_to (n : N) (c : list N) : list N := c ++ zerosN (n - lenN c).
Definition pwrite_content (c : list N) (off : N) (data : list N) : list N :=
  takeN off (pad_to off c) ++ data ++ dropN (off + lenN data) c.
(* ftruncate(len) *)
Definition truncate_content (c : list N) (len : N) : list N := takeN len (pad_to len c).

Record fstate := { f_content : list N; f_size : N }.

(* while (size > 0) { ret = pwrite(fd, buffer, size, offset); ...EINTR: continue, <0: IO, 0: OUT_OF_BOUNDS
     buffer += ret; size -= ret; offset += ret; }
   returns status, the prefix of [data] that reached the file (piece k went to off + bytes before it),
   calls, unused outcomes *)
Fixpoint write_at_loop (off : N) (data : list N) (outs : list outcome)
  : res unit * list N * list sysrec * list outcome :=
  if lenN data =? 0 then (Ok tt, [], [], outs) else
  match outs with
  | [] => (Ok tt, data, [(KPwrite, lenN data, off, Xfer (lenN data))], [])
  | o :: outs' =>
      let rec := (KPwrite, lenN data, off, o) in
      match o with
      | Eintr =>
          let '(r, wr, t, rest) := write_at_loop off data outs' in (r, wr, rec :: t, rest)
      | Fail => (Err e_io, [], [rec], outs')
      | Zero => (Err e_oob, [], [rec], outs')
      | Xfer n =>
          let k := xfer_count n (lenN data) in
          let d := takeN k data in
          let '(r, wr, t, rest) := write_at_loop (off + lenN d) (dropN k data) outs' in
          (r, d ++ wr, rec :: t, rest)
      end
  end.

(* the file after the pwrite calls of one loop: they are contiguous, so their effect is one pwrite
   of what was written (pwrite_content_app in IoProofs.v); no call, no change *)
Definition apply_written (c : list N) (off : N) (wr : list N) : list N :=
  if lenN wr =? 0 then c else pwrite_content c off wr.

(* stdio_write_at: the loop, then  if (offset >= file->size) file->size = offset;  (only on success) *)
Definition write_at (f : fstate) (off : N) (data : list N) (outs : list outcome)
  : res unit * fstate * list sysrec * list outcome :=
  let '(r, wr, t, rest) := write_at_loop off data outs in
  let c' := apply_written (f_content f) off wr in
  let off' := off + lenN wr in
  match r with
  | Ok _ => (r, {| f_content := c'; f_size := if f_size f <=? off' then off' else f_size f |}, t, rest)
  | Err _ => (r, {| f_content := c'; f_size := f_size f |}, t, rest)
  end.

Definition read_at (f : fstate) (off size : N) (outs : list outcome)
  : res (list N) * list sysrec * list outcome :=
  let '(r, b, t, rest) := read_at_loop (f_content f) off size outs in
  match r with
  | Ok _ => (Ok b, t, rest)
  | Err e => (Err e, t, rest)
  end.

(* unix.c sqfs_native_file_seek with SQFS_FILE_SEEK_TRUNCATE:
     while (ftruncate(fd, off) != 0) { if (errno != EINTR) return SQFS_ERROR_IO; }
   Any outcome other than Eintr / Fail means ftruncate returned 0. *)
Fixpoint ftruncate_loop (len : N) (outs : list outcome) : res unit * list sysrec * list outcome :=
  match outs with
  | [] => (Ok tt, [(KTrunc, 1, len, Xfer 1)], [])
  | o :: outs' =>
      let rec := (KTrunc, 1, len, o) in
      match o with
      | Eintr => let '(r, t, rest) := ftruncate_loop len outs' in (r, rec :: t, rest)
      | Fail => (Err e_io, [rec], outs')
      | _ => (Ok tt, [rec], outs')
      end
  end.

(* stdio_truncate: seek+truncate, then file->size = size *)
Definition truncate_file (f : fstate) (len : N) (outs : list outcome)
  : res unit * fstate * list sysrec * list outcome :=
  let '(r, t, rest) := ftruncate_loop len outs in
  match r with
  | Ok _ => (r, {| f_content := truncate_content (f_content f) len; f_size := len |}, t, rest)
  | Err _ => (r, f, t, rest)
  end.

(* ------------------------------------------------------------------ *)
(* ostream.c                                                           *)
(* ------------------------------------------------------------------ *)

(* while (size > 0) { ret = write(fd, data, size);
     if (ret == 0) { errno = EPIPE; return SQFS_ERROR_IO; }
     if (ret < 0) { if (errno == EINTR) continue; return SQFS_ERROR_IO; }
     size -= ret; data += ret; }
   returns status, the prefix of [data] the descriptor received, calls, unused outcomes *)
Fixpoint write_all (data : list N) (outs : list outcome)
  : res unit * list N * list sysrec * list outcome :=
  if lenN data =? 0 then (Ok tt, [], [], outs) else
  match outs with
  | [] => (Ok tt, data, [(KWrite, lenN data, 0, Xfer (lenN data))], [])
  | o :: outs' =>
      let rec := (KWrite, lenN data, 0, o) in
      match o with
      | Eintr => let '(r, wr, t, rest) := write_all data outs' in (r, wr, rec :: t, rest)
      | Fail => (Err e_io, [], [rec], outs')
      | Zero => (Err e_io, [], [rec], outs')
      | Xfer n =>
          let k := xfer_count n (lenN data) in
          let '(r, wr, t, rest) := write_all (dropN k data) outs' in
          (r, takeN k data ++ wr, rec :: t, rest)
      end
  end.

(* o_content = everything the descriptor has received so far (it is positioned at its end) *)
Record ostate := { o_content : list N; o_sparse : N; o_nosparse : bool }.

(* the NO_SPARSE arm of realize_sparse:
     bufsz = sparse_count > 1024 ? 1024 : sparse_count;
     while (sparse_count > 0) { diff = min(bufsz, sparse_count); write_all(zeros, diff) or return;
                                sparse_count -= diff; }
   [zchunk] is the 1024 of the source (a parameter: the tie measures it, the theorems hold for
   every positive value).  Fuel = number of iterations, proved sufficient (zero_fill_complete).
   returns status, number of zero bytes written, remaining sparse_count, calls, unused outcomes *)
Fixpoint zero_fill (fuel : nat) (bufsz : N) (sparse : N) (outs : list outcome)
  : res unit * N * N * list sysrec * list outcome :=
  if sparse =? 0 then (Ok tt, 0, 0, [], outs) else
  match fuel with
  | O => (Ok tt, 0, sparse, [], outs)         (* unreachable with the fuel realize_sparse passes *)
  | S f =>
      let diff := N.min bufsz sparse in
      let '(r, wr, t, rest) := write_all (zerosN diff) outs in
      match r with
      | Err e => (Err e, lenN wr, sparse, t, rest)
      | Ok _ =>
          let '(r2, n2, s2, t2, rest2) := zero_fill f bufsz (sparse - diff) rest in
          (r2, lenN wr + n2, s2, t ++ t2, rest2)
      end
  end.

Definition realize_sparse (zchunk : N) (o : ostate) (outs : list outcome)
  : res unit * ostate * list sysrec * list outcome :=
  if o_sparse o =? 0 then (Ok tt, o, [], outs)
  else if o_nosparse o then
    let bufsz := if zchunk <? o_sparse o then zchunk else o_sparse o in
    let '(r, n, s', t, rest) :=
      zero_fill (S (N.to_nat (o_sparse o / bufsz))) bufsz (o_sparse o) outs in
    (r, {| o_content := o_content o ++ zerosN n; o_sparse := s'; o_nosparse := true |}, t, rest)
  else
    (* lseek(fd, sparse_count, SEEK_CUR) then the ftruncate loop: the file grows by zeros *)
    let '(r, t, rest) := ftruncate_loop (lenN (o_content o) + o_sparse o) outs in
    match r with
    | Ok _ => (r, {| o_content := o_content o ++ zerosN (o_sparse o); o_sparse := 0;
                     o_nosparse := false |}, t, rest)
    | Err _ => (r, o, t, rest)
    end.

(* file_append(strm, data, size); [None] = data == NULL (a hole of [n] bytes) *)
Definition ostream_append (zchunk : N) (o : ostate) (data : option (list N)) (n : N)
  (outs : list outcome) : res unit * ostate * list sysrec * list outcome :=
  match data with
  | None =>
      (Ok tt, {| o_content := o_content o; o_sparse := o_sparse o + n; o_nosparse := o_nosparse o |},
       [], outs)
  | Some d =>
      if lenN d =? 0 then (Ok tt, o, [], outs) else
      let '(r, o1, t1, rest1) := realize_sparse zchunk o outs in
      match r with
      | Err e => (Err e, o1, t1, rest1)
      | Ok _ =>
          let '(r2, wr, t2, rest2) := write_all d rest1 in
          (r2, {| o_content := o_content o1 ++ wr; o_sparse := o_sparse o1; o_nosparse := o_nosparse o1 |},
           t1 ++ t2, rest2)
      end
  end.

(* file_flush: realize_sparse, then fsync (not part of the oracle) *)
Definition ostream_flush (zchunk : N) (o : ostate) (outs : list outcome) :=
  realize_sparse zchunk o outs.

(* ------------------------------------------------------------------ *)
(* istream.c                                                           *)
(* ------------------------------------------------------------------ *)

(* i_buf = buffer[0 .. buffer_used), i_off = buffer_offset, i_eof = eof.
   [src] (kept beside the state) is what the descriptor has not delivered yet. *)
Record istate := { i_buf : list N; i_off : N; i_eof : bool }.

Definition istate_init : istate := {| i_buf := []; i_off := 0; i_eof := false |}.

(* the refill loop of precache:
     while (buffer_used < BUFSZ) { ret = read(fd, buffer + buffer_used, BUFSZ - buffer_used);
        if (ret == 0) { eof = true; break; }
        if (ret < 0) { if (errno == EINTR) continue; return SQFS_ERROR_IO; }
        buffer_used += ret; }
   [used] = buffer_used on entry; returns status, the bytes appended to the buffer, eof flag,
   remaining source, calls, unused outcomes *)
Fixpoint refill (bufsz used : N) (src : list N) (outs : list outcome)
  : res unit * list N * bool * list N * list sysrec * list outcome :=
  if bufsz <=? used then (Ok tt, [], false, src, [], outs) else
  let req := bufsz - used in
  match outs with
  | [] =>
      let d := takeN req src in
      if lenN d =? req then (Ok tt, d, false, dropN req src, [(KRead, req, 0, Xfer req)], [])
      else if lenN d =? 0 then (Ok tt, [], true, src, [(KRead, req, 0, Xfer req)], [])
      else (Ok tt, d, true, dropN req src,
            [(KRead, req, 0, Xfer req); (KRead, req - lenN d, 0, Xfer (req - lenN d))], [])
  | o :: outs' =>
      let rec := (KRead, req, 0, o) in
      match o with
      | Eintr =>
          let '(r, g, e, s, t, rest) := refill bufsz used src outs' in (r, g, e, s, rec :: t, rest)
      | Fail => (Err e_io, [], false, src, [rec], outs')
      | Zero => (Ok tt, [], true, src, [rec], outs')
      | Xfer n =>
          let k := xfer_count n req in
          let d := takeN k src in
          if lenN d =? 0 then (Ok tt, [], true, src, [rec], outs')
          else
            let '(r, g, e, s, t, rest) := refill bufsz (used + lenN d) (dropN k src) outs' in
            (r, d ++ g, e, s, rec :: t, rest)
      end
  end.

(* precache: eof short-cut, compaction, refill *)
Definition precache (bufsz : N) (st : istate) (src : list N) (outs : list outcome)
  : res unit * istate * list N * list sysrec * list outcome :=
  if i_eof st then (Ok tt, st, src, [], outs) else
  let used := lenN (i_buf st) in
  (* if (buffer_offset > 0 && buffer_offset < buffer_used) memmove(buffer, buffer + offset, used - offset) *)
  let moved := if (0 <? i_off st) && (i_off st <? used) then dropN (i_off st) (i_buf st)
               else i_buf st in
  (* buffer_used -= buffer_offset; buffer_offset = 0 *)
  let buf1 := takeN (used - i_off st) moved in
  let '(r, g, e, s, t, rest) := refill bufsz (used - i_off st) src outs in
  (r, {| i_buf := buf1 ++ g; i_off := 0; i_eof := e |}, s, t, rest).

Inductive gres := GErr (e : Z) | GEof | GData (w : list N).

(* file_get_buffered_data *)
Definition get_buffered_data (bufsz : N) (st : istate) (src : list N) (want : N) (outs : list outcome)
  : gres * istate * list N * list sysrec * list outcome :=
  let want := if bufsz <? want then bufsz else want in
  let used := lenN (i_buf st) in
  let finish (st' : istate) :=
    let w := dropN (i_off st') (i_buf st') in
    if i_eof st' && (lenN w =? 0) then GEof else GData w in
  if (used =? 0) || (used - i_off st <? want) then
    let '(r, st', src', t, rest) := precache bufsz st src outs in
    match r with
    | Err e => (GErr e, st', src', t, rest)
    | Ok _ => (finish st', st', src', t, rest)
    end
  else (finish st, st, src, [], outs).

(* file_advance_buffer *)
Definition advance_buffer (st : istate) (count : N) : istate :=
  if count <? lenN (i_buf st) - i_off st
  then {| i_buf := i_buf st; i_off := i_off st + count; i_eof := i_eof st |}
  else {| i_buf := []; i_off := 0; i_eof := i_eof st |}.

(* ------------------------------------------------------------------ *)
(* A process: any deterministic program whose only contact with the    *)
(* kernel's transfer calls is through these objects                    *)
(* ------------------------------------------------------------------ *)

Inductive client (R : Type) : Type :=
| Ret (r : R)
| Get (want : N) (k : gres -> client R)                 (* istream get_buffered_data *)
| Adv (n : N) (k : client R)                            (* istream advance_buffer *)
| Put (data : option (list N)) (n : N) (k : res unit -> client R)   (* ostream append *)
| Flush (k : res unit -> client R)                      (* ostream flush *)
| ReadAt (off size : N) (k : res (list N) -> client R)  (* file read_at *)
| WriteAt (off : N) (data : list N) (k : res unit -> client R)
| Trunc (len : N) (k : res unit -> client R)
| FSize (k : N -> client R).                            (* file get_size *)
Arguments Ret {R} r.
Arguments Get {R} want k.
Arguments Adv {R} n k.
Arguments Put {R} data n k.
Arguments Flush {R} k.
Arguments ReadAt {R} off size k.
Arguments WriteAt {R} off data k.
Arguments Trunc {R} len k.
Arguments FSize {R} k.

Fixpoint bind {R S : Type} (c : client R) (f : R -> client S) : client S :=
  match c with
  | Ret r => f r
  | Get w k => Get w (fun g => bind (k g) f)
  | Adv n k => Adv n (bind k f)
  | Put d n k => Put d n (fun r => bind (k r) f)
  | Flush k => Flush (fun r => bind (k r) f)
  | ReadAt o s k => ReadAt o s (fun r => bind (k r) f)
  | WriteAt o d k => WriteAt o d (fun r => bind (k r) f)
  | Trunc l k => Trunc l (fun r => bind (k r) f)
  | FSize k => FSize (fun n => bind (k n) f)
  end.

Record world := {
  w_in : istate; w_src : list N;        (* the input stream and what its descriptor still holds *)
  w_out : ostate;                        (* the output stream *)
  w_file : fstate                        (* the random-access file *)
}.

Section Run.
Variable bufsz : N.     (* BUFSZ of istream.c *)
Variable zchunk : N.    (* the 1024 of realize_sparse *)

Fixpoint run {R : Type} (c : client R) (w : world) (outs : list outcome)
  : R * world * list sysrec * list outcome :=
  match c with
  | Ret r => (r, w, [], outs)
  | Get want k =>
      let '(g, st', src', t, rest) := get_buffered_data bufsz (w_in w) (w_src w) want outs in
      let w' := {| w_in := st'; w_src := src'; w_out := w_out w; w_file := w_file w |} in
      let '(r, w2, t2, rest2) := run (k g) w' rest in
      (r, w2, t ++ t2, rest2)
  | Adv n k =>
      let w' := {| w_in := advance_buffer (w_in w) n; w_src := w_src w; w_out := w_out w;
                   w_file := w_file w |} in
      run k w' outs
  | Put d n k =>
      let '(x, o', t, rest) := ostream_append zchunk (w_out w) d n outs in
      let w' := {| w_in := w_in w; w_src := w_src w; w_out := o'; w_file := w_file w |} in
      let '(r, w2, t2, rest2) := run (k x) w' rest in
      (r, w2, t ++ t2, rest2)
  | Flush k =>
      let '(x, o', t, rest) := ostream_flush zchunk (w_out w) outs in
      let w' := {| w_in := w_in w; w_src := w_src w; w_out := o'; w_file := w_file w |} in
      let '(r, w2, t2, rest2) := run (k x) w' rest in
      (r, w2, t ++ t2, rest2)
  | ReadAt off size k =>
      let '(x, t, rest) := read_at (w_file w) off size outs in
      let '(r, w2, t2, rest2) := run (k x) w rest in
      (r, w2, t ++ t2, rest2)
  | WriteAt off d k =>
      let '(x, f', t, rest) := write_at (w_file w) off d outs in
      let w' := {| w_in := w_in w; w_src := w_src w; w_out := w_out w; w_file := f' |} in
      let '(r, w2, t2, rest2) := run (k x) w' rest in
      (r, w2, t ++ t2, rest2)
  | Trunc len k =>
      let '(x, f', t, rest) := truncate_file (w_file w) len outs in
      let w' := {| w_in := w_in w; w_src := w_src w; w_out := w_out w; w_file := f' |} in
      let '(r, w2, t2, rest2) := run (k x) w' rest in
      (r, w2, t ++ t2, rest2)
  | FSize k => run (k (f_size (w_file w))) w outs
  end.
End Run.

(* ------------------------------------------------------------------ *)
(* stream_api.c as clients                                             *)
(* ------------------------------------------------------------------ *)

Definition s32_max : N := 2147483647.     (* the 0x7FFFFFFF clamp of stream_api.c *)

Inductive rres := RRet (ret : N) (data : list N) | RErr (e : Z) | RFuel.

(* sqfs_istream_read; [acc] = bytes memcpy'd so far, total = lenN acc *)
Fixpoint read_c (fuel : nat) (size : N) (acc : list N) : client rres :=
  if size =? 0 then Ret (RRet (lenN acc) acc) else
  match fuel with
  | O => Ret RFuel
  | S f =>
      Get size (fun g =>
        match g with
        | GEof => Ret (RRet (lenN acc) acc)
        | GErr e => Ret (RErr e)
        | GData w =>
            let d := takeN size w in      (* if (diff > size) diff = size; memcpy *)
            Adv (lenN d) (read_c f (size - lenN d) (acc ++ d))
        end)
  end.
Definition istream_read (fuel : nat) (size : N) : client rres :=
  read_c fuel (if s32_max <? size then s32_max else size) [].

(* sqfs_istream_skip: 0 on success *or* premature end of stream *)
Fixpoint skip_c (fuel : nat) (size : N) : client rres :=
  if size =? 0 then Ret (RRet 0 []) else
  match fuel with
  | O => Ret RFuel
  | S f =>
      Get size (fun g =>
        match g with
        | GErr e => Ret (RErr e)
        | GEof => Ret (RRet 0 [])
        | GData w =>
            let diff := N.min (lenN w) size in
            Adv diff (skip_c f (size - diff))
        end)
  end.

(* sqfs_istream_splice into the ostream; returns the number of bytes moved *)
Fixpoint splice_c (fuel : nat) (size : N) (total : N) : client rres :=
  if size =? 0 then Ret (RRet total []) else
  match fuel with
  | O => Ret RFuel
  | S f =>
      Get size (fun g =>
        match g with
        | GErr e => Ret (RErr e)
        | GEof => Ret (RRet total [])
        | GData w =>
            let d := takeN size w in
            Put (Some d) (lenN d) (fun x =>
              match x with
              | Err e => Ret (RErr e)
              | Ok _ => Adv (lenN d) (splice_c f (size - lenN d) (total + lenN d))
              end)
        end)
  end.
Definition istream_splice (fuel : nat) (size : N) : client rres :=
  splice_c fuel (if s32_max <? size then s32_max else size) 0.

(* ------------------------------------------------------------------ *)
(* get_line.c                                                          *)
(* ------------------------------------------------------------------ *)

Definition is_space (b : N) : bool := (b =? 32) || ((9 <=? b) && (b <=? 13)).
(* the C string stored in a buffer: up to the first NUL *)
Fixpoint cstr (l : list N) : list N :=
  match l with [] => [] | b :: r => if b =? 0 then [] else b :: cstr r end.
Fixpoint ltrim_c (l : list N) : list N :=
  match l with [] => [] | b :: r => if is_space b then ltrim_c r else l end.
Definition rtrim_c (l : list N) : list N := rev (ltrim_c (rev l)).

Definition flag_ltrim (f : N) := N.testbit f 0.
Definition flag_rtrim (f : N) := N.testbit f 1.
Definition flag_skip_empty (f : N) := N.testbit f 2.

(* trim_flags: everything in it is strlen based, so it sees only the C string *)
Definition trim_flags (flags : N) (line : list N) : list N :=
  let l0 := cstr line in
  let l1 := if flag_ltrim flags then ltrim_c l0 else l0 in
  if flag_rtrim flags then rtrim_c l1 else l1.

(* for (i = 0; i < avail; ++i) if (ptr[i] == '\n') break;  ->  (bytes before, found?) *)
Fixpoint split_nl (w : list N) : list N * bool :=
  match w with
  | [] => ([], false)
  | b :: r => if b =? 10 then ([], true) else let '(p, f) := split_nl r in (b :: p, f)
  end.

(* if (line_len > 0 && line[line_len - 1] == '\r') line[--line_len] = '\0'; *)
Definition strip_cr (l : list N) : list N :=
  match rev l with
  | b :: r => if b =? 13 then rev r else l
  | [] => l
  end.

Inductive lres := LLine (line : list N) (skipped : N) | LEof (skipped : N) | LErr (e : Z) | LFuel.

(* istream_get_line; [line] = bytes accumulated so far, [skipped] = how often *line_num was bumped *)
Fixpoint get_line_c (fuel : nat) (flags : N) (line : list N) (skipped : N) : client lres :=
  match fuel with
  | O => Ret LFuel
  | S f =>
      Get 0 (fun g =>
        match g with
        | GErr e => Ret (LErr e)
        | GEof =>
            if lenN line =? 0 then Ret (LEof skipped) else
            let t := trim_flags flags line in
            if (0 <? lenN t) || negb (flag_skip_empty flags) then Ret (LLine t skipped)
            else Ret (LEof skipped)
        | GData w =>
            let '(pre, found) := split_nl w in
            if found then
              Adv (lenN pre + 1)
                (let t := trim_flags flags (strip_cr (line ++ pre)) in
                 if (0 <? lenN t) || negb (flag_skip_empty flags) then Ret (LLine t skipped)
                 else get_line_c f flags [] (skipped + 1))
            else
              Adv (lenN pre) (get_line_c f flags (line ++ pre) skipped)
        end)
  end.
Definition istream_get_line (fuel : nat) (flags : N) : client lres := get_line_c fuel flags [] 0.

(* ------------------------------------------------------------------ *)
(* tar: record_to_memory and the raw header read                       *)
(* ------------------------------------------------------------------ *)

Definition tar_rec : N := c_TAR_RECORD_SIZE.

Inductive tres := TData (d : list N) | TShort | TErr (e : Z) | TFuel.

(* record_to_memory(fp, size): read size bytes, fail on a short count, skip the padding *)
Definition record_to_memory (fuel : nat) (size : N) : client tres :=
  bind (istream_read fuel size) (fun r =>
    match r with
    | RFuel => Ret TFuel
    | RErr e => Ret (TErr e)
    | RRet n d =>
        if n <? size then Ret TShort else
        if size mod tar_rec =? 0 then Ret (TData d) else
        bind (skip_c fuel (tar_rec - size mod tar_rec)) (fun s =>
          match s with
          | RFuel => Ret TFuel
          | RErr e => Ret (TErr e)
          | RRet _ _ => Ret (TData d)
          end)
    end).

(* read_header: ret = sqfs_istream_read(fp, &hdr, sizeof(hdr)); ret < 0: fail; ret < 512: out_eof *)
Definition header_read (fuel : nat) : client tres :=
  bind (istream_read fuel sizeof_tar_header_t) (fun r =>
    match r with
    | RFuel => Ret TFuel
    | RErr e => Ret (TErr e)
    | RRet n d => if n <? sizeof_tar_header_t then Ret TShort else Ret (TData d)
    end).

(* ------------------------------------------------------------------ *)
(* operation lists (what the component harness executes)               *)
(* ------------------------------------------------------------------ *)

Inductive iop :=
| OpRead (n : N) | OpSkip (n : N) | OpSplice (n : N) | OpLine (flags : N)
| OpGet (want : N) | OpAdv (n : N) | OpRecord (size : N) | OpHeader
| OpPut (d : list N) | OpHole (n : N) | OpFlush
| OpReadAt (off size : N) | OpWriteAt (off : N) (d : list N) | OpTrunc (len : N) | OpFSize.

Inductive ores :=
| XR (r : rres) | XL (r : lres) | XT (r : tres) | XG (g : gres) | XU (r : res unit)
| XD (r : res (list N)) | XN (n : N) | XNone.

Definition op_client (fuel : nat) (o : iop) : client ores :=
  match o with
  | OpRead n => bind (istream_read fuel n) (fun r => Ret (XR r))
  | OpSkip n => bind (skip_c fuel n) (fun r => Ret (XR r))
  | OpSplice n => bind (istream_splice fuel n) (fun r => Ret (XR r))
  | OpLine fl => bind (istream_get_line fuel fl) (fun r => Ret (XL r))
  | OpGet want => Get want (fun g => Ret (XG g))
  | OpAdv n => Adv n (Ret XNone)
  | OpRecord size => bind (record_to_memory fuel size) (fun r => Ret (XT r))
  | OpHeader => bind (header_read fuel) (fun r => Ret (XT r))
  | OpPut d => Put (Some d) (lenN d) (fun r => Ret (XU r))
  | OpHole n => Put None n (fun r => Ret (XU r))
  | OpFlush => Flush (fun r => Ret (XU r))
  | OpReadAt off size => ReadAt off size (fun r => Ret (XD r))
  | OpWriteAt off d => WriteAt off d (fun r => Ret (XU r))
  | OpTrunc len => Trunc len (fun r => Ret (XU r))
  | OpFSize => FSize (fun n => Ret (XN n))
  end.

Fixpoint ops_client (fuel : nat) (ops : list iop) : client (list ores) :=
  match ops with
  | [] => Ret []
  | o :: r => bind (op_client fuel o) (fun x => bind (ops_client fuel r) (fun xs => Ret (x :: xs)))
  end.

(* one operation at a time, keeping the per-operation call log (what the model driver prints) *)
Fixpoint run_ops (bufsz zchunk : N) (fuel : nat) (ops : list iop) (w : world) (outs : list outcome)
  : list (ores * list sysrec) * world * list outcome :=
  match ops with
  | [] => ([], w, outs)
  | o :: r =>
      let '(x, w', t, rest) := run bufsz zchunk (op_client fuel o) w outs in
      let '(xs, w2, rest2) := run_ops bufsz zchunk fuel r w' rest in
      ((x, t) :: xs, w2, rest2)
  end.

(* ------------------------------------------------------------------ *)
(* What the same operations mean on the unsplit input (no buffer, no   *)
(* oracle): the reference the chunked runs are compared with           *)
(* ------------------------------------------------------------------ *)

(* istream_get_line as an automaton over the unsplit bytes: [line] = bytes of the current line so
   far.  Returns the result and the bytes left. *)
Fixpoint spec_gl (flags : N) (line : list N) (skipped : N) (P : list N) : lres * list N :=
  match P with
  | [] =>
      if lenN line =? 0 then (LEof skipped, []) else
      let t := trim_flags flags line in
      if (0 <? lenN t) || negb (flag_skip_empty flags) then (LLine t skipped, []) else (LEof skipped, [])
  | b :: r =>
      if b =? 10 then
        let t := trim_flags flags (strip_cr line) in
        if (0 <? lenN t) || negb (flag_skip_empty flags) then (LLine t skipped, r)
        else spec_gl flags [] (skipped + 1) r
      else spec_gl flags (line ++ [b]) skipped r
  end.

Definition clamp32 (n : N) : N := if s32_max <? n then s32_max else n.
