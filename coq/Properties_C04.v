(* C04 — tar <-> SquashFS conversion preserves the archive.  Statements only;
   every proof is one [exact] of a lemma from coq/C04/*Proofs.v.

   The models follow /repo as it is with the four repairs of props/C04/fixes
   applied (F21 --root-becomes retarget, F22 extension records of skipped
   entries, F23 sqfs2tar reverses the xattr list because the tar reader builds
   its list back to front, F24 sparse data beyond the file size). *)
From Coq Require Import List NArith ZArith Bool.
From SqfsV Require Import Gen.Constants C04.GenC04 C04.TarNum C04.TarNumProofs C04.TarHdr C04.TarHdrProofs
     C04.TarStream C04.TarStreamProofs C04.TarArchiveProofs C18.CanonModel.
Import ListNotations.
Local Open Scope N_scope.

(* ---- the byte layout the model splits a header block by is the one of
        tar_header_t in include/tar/format.h (regenerated on every run) ---- *)
Theorem layout_matches_headers :
  c_TAR_RECORD_SIZE = 512 /\ sizeof_tar_header_t = 512 /\
  off_tar_header_t_name = 0 /\ off_tar_header_t_mode = 100 /\ off_tar_header_t_uid = 108 /\
  off_tar_header_t_gid = 116 /\ off_tar_header_t_size = 124 /\ off_tar_header_t_mtime = 136 /\
  off_tar_header_t_chksum = 148 /\ off_tar_header_t_typeflag = 156 /\
  off_tar_header_t_linkname = 157 /\ off_tar_header_t_magic = 257 /\
  off_tar_header_t_version = 263 /\ off_tar_header_t_uname = 265 /\
  off_tar_header_t_gname = 297 /\ off_tar_header_t_devmajor = 329 /\
  off_tar_header_t_devminor = 337 /\ off_tar_header_t_tail = 345.
Proof. repeat split. Qed.

(* ... and so are the limits, type characters and window sizes the model uses
   (coq/C04/GenC04.v is printed by the harness compiled against the working tree) *)
Theorem constants_match_sources :
  c04_TAR_MAX_SYMLINK_LEN = MAX_LEN /\ c04_TAR_MAX_PATH_LEN = MAX_LEN /\ c04_TAR_MAX_PAX_LEN = MAX_LEN /\
  c04_TAR_MAX_SPARSE_ENT = 65536 /\ c04_TAR_RECORD_SIZE = 512 /\ c04_STREAM_BUFSZ = BUFSZ /\
  c04_S_IFMT = S_IFMT /\ c04_S_IFSOCK = S_IFSOCK /\ c04_S_IFLNK = S_IFLNK /\ c04_S_IFREG = S_IFREG /\
  c04_S_IFBLK = S_IFBLK /\ c04_S_IFDIR = S_IFDIR /\ c04_S_IFCHR = S_IFCHR /\ c04_S_IFIFO = S_IFIFO /\
  c04_T_FILE = T_FILE /\ c04_T_LINK = T_LINK /\ c04_T_SLINK = T_SLINK /\ c04_T_CHR = T_CHR /\
  c04_T_BLK = T_BLK /\ c04_T_DIR = T_DIR /\ c04_T_FIFO = T_FIFO /\ c04_T_GNU_SLINK = T_GNU_SLINK /\
  c04_T_GNU_PATH = T_GNU_PATH /\ c04_T_GNU_SPARSE = T_GNU_SPARSE /\ c04_T_PAX = T_PAX /\
  c04_T_PAX_GLOBAL = T_PAX_GLOBAL /\ c04_SPARSE_IN_HDR = 4 /\ c04_SPARSE_IN_EXT = 21 /\
  c04_OFF_GNU_SPARSE = 41 /\ c04_OFF_GNU_ISEXT = 137 /\ c04_OFF_GNU_REALSIZE = 138 /\
  c04_OFF_EXT_ISEXT = 504 /\ c04_SIZEOF_PREFIX = 155.
Proof. repeat split. Qed.

(* ---- numeric fields: write_number / write_number_signed vs read_number ---- *)

(* 8-byte fields (mode, uid, gid, devmajor, devminor): octal with terminator,
   octal without terminator, base-256 *)
Theorem number_rt_8 : forall v, v < 127 * 2 ^ 56 ->
  read_number (write_number v 8) = Some v.
Proof. exact read_write_number_8. Qed.
Print Assumptions number_rt_8.

(* the bound is sharp: at 127 * 2^56 the base-256 marker 0x80 turns the first
   byte into 0xFF and the reader takes the field for a negative number
   (no tool can reach this value: SquashFS ids and device numbers are 32 bit) *)
Theorem number_rt_8_bound_sharp :
  read_number (write_number (127 * 2 ^ 56) 8) <> Some (127 * 2 ^ 56).
Proof. exact lim8_witness. Qed.

(* 12-byte fields (size, mtime): every unsigned 64-bit value *)
Theorem number_rt_12 : forall v, v < 2 ^ 64 ->
  read_number (write_number v 12) = Some v.
Proof. exact read_write_number_12. Qed.
Print Assumptions number_rt_12.

(* signed 12-byte field (mtime), as decode_header interprets it *)
Theorem number_rt_signed_12 : forall v : Z, (- 2 ^ 63 < v < 2 ^ 63)%Z ->
  exists f, read_number (write_number_signed v 12) = Some f /\ s64_of_u64 f = v.
Proof. exact read_write_signed_12. Qed.
Print Assumptions number_rt_signed_12.

(* the checksum field written by update_checksum reads back *)
Theorem checksum_field_rt : forall c, c < 8 ^ 6 ->
  read_number (chksum_field c) = Some c.
Proof. exact read_chksum_field. Qed.
Print Assumptions checksum_field_rt.

(* ---- one entry: decode (encode e) = e ---- *)

(* For every entry, link target, xattr list and record counter the caller may
   pass (wf_entry: NUL-free byte strings, 16-bit mode, ids below 127*2^56, any
   64-bit size, any mtime but -2^63, 32-bit device number, names / targets /
   PAX payload up to TAR_MAX_*_LEN = 65536, xattr keys without '=' and NUL —
   no bound on which side of 100 bytes names and targets are, which of the
   three number encodings the fields need, how many xattrs there are):
   read_header consumes exactly the bytes write_tar_header produced — GNU 'K'
   and 'L' records, the SCHILY.xattr PAX record, the header block — and
   delivers the entry; whatever follows in the stream is left untouched.
   The xattr list comes back REVERSED: write_tar_header emits the records in
   list order, read_pax_header prepends each record to its list. *)
Theorem header_rt : forall e target xs counter rest b,
  wf_entry e target xs ->
  write_tar_header e target xs counter = W_Ok b ->
  read_header (b ++ rest) = RH_Ok (decoded_of e target xs) rest /\
  d_xattr (decoded_of e target xs) = (if e_hardlink e then [] else rev xs).
Proof. exact header_rt_full. Qed.
Print Assumptions header_rt.

(* ... which is why sqfs2tar's write_entry reverses the list it read from the
   image (fix F23): one entry through write_entry and read_header has its
   xattrs in the image's order again *)
Theorem entry_rt : forall t counter rest b,
  wf_entry (te_e t) (te_target t) (te_xattr t) ->
  write_entry_hdr t counter = W_Ok b ->
  exists d, read_header (b ++ rest) = RH_Ok d rest /\
            d = decoded_of (te_e t) (te_target t) (rev (te_xattr t)) /\
            d_xattr d = (if e_hardlink (te_e t) then [] else te_xattr t).
Proof. exact entry_rt_l. Qed.
Print Assumptions entry_rt.

(* the decoded mode of a non-link is the entry's mode *)
Theorem header_rt_mode : forall m, m < 65536 -> perm m + ftype m = m.
Proof. exact mode_recompose. Qed.

(* what tar cannot express (sockets) is refused before anything is written *)
Theorem unsupported_writes_nothing : forall e target xs counter,
  write_tar_header e target xs counter = W_Unsupported <->
  e_hardlink e = false /\ type_of_mode (e_mode e) = None.
Proof. exact unsupported_iff. Qed.
Print Assumptions unsupported_writes_nothing.

(* the PAX record length prefix counts itself: "<len> key=value\n" *)
Theorem pax_record_length : forall key value,
  N.of_nat (length (schily_record (key, value))) = rec_len key value.
Proof. exact schily_record_length. Qed.
Print Assumptions pax_record_length.

(* ---- sparse files: the stream handed out by the tar iterator ---- *)

(* for EVERY map, file size, record contents, and every schedule (what the
   consumer asks for, how much the underlying stream has buffered, how much
   the consumer takes): a stream that reports end-of-file has delivered the
   position-wise expansion of the map *)
Theorem sparse_stream_spec : forall sched m fsize data out' data' pos',
  stream_go sched m fsize 0 data [] = S_Done out' data' pos' ->
  out' = fill (N.to_nat fsize) 0 m data.
Proof. exact sparse_stream_spec_l. Qed.
Print Assumptions sparse_stream_spec.

(* ... never more than the file size, whatever the map claims (fix F24) *)
Theorem sparse_stream_bounded : forall sched m fsize data out' data' pos',
  stream_go sched m fsize 0 data [] = S_Done out' data' pos' ->
  N.of_nat (length out') <= fsize.
Proof. exact stream_go_bounded. Qed.
Print Assumptions sparse_stream_bounded.

(* ... the same bytes for every consumer *)
Theorem sparse_stream_schedule_independent : forall s1 s2 m fsize data o1 d1 p1 o2 d2 p2,
  stream_go s1 m fsize 0 data [] = S_Done o1 d1 p1 ->
  stream_go s2 m fsize 0 data [] = S_Done o2 d2 p2 -> o1 = o2.
Proof. exact stream_schedule_independent. Qed.

(* ... and it terminates: every step makes progress, fsize steps are enough *)
Theorem sparse_stream_terminates : forall sched m fsize data,
  fsize <= N.of_nat (length sched) ->
  match stream_go sched m fsize 0 data [] with S_More _ _ _ => False | _ => True end.
Proof. exact sparse_stream_terminates_l. Qed.
Print Assumptions sparse_stream_terminates.

(* for every sorted, non-overlapping map inside the file size (any number of
   entries, empty entries, GNU tar's end marker) the position-wise expansion
   is the sequential one: holes are zeros, data comes from the record in order *)
Theorem sparse_expand_ok : forall m data fsize,
  m <> [] -> wf_map 0 m fsize -> map_bytes m <= N.of_nat (length data) ->
  fill (N.to_nat fsize) 0 m data = expand 0 m data fsize.
Proof. exact sparse_expand_ok_l. Qed.
Print Assumptions sparse_expand_ok.

(* ---- archives ---- *)

(* sqfs2tar's output is a whole number of 512-byte records *)
Theorem archive_len_512 : forall es,
  Forall data_ok es -> (length (write_archive es) mod 512 = 0)%nat.
Proof. exact archive_len_512_l. Qed.
Print Assumptions archive_len_512.

(* the tar iterator reads back every entry sqfs2tar wrote — metadata, link
   target, xattrs in the order the image stores them, file contents — skips
   nothing, invents nothing, and stops at the terminator; entries tar cannot
   express are absent *)
Theorem archive_rt : forall es,
  Forall entry_ok es -> read_archive (write_archive es) = RA_Ok (views es).
Proof. exact archive_rt_l. Qed.
Print Assumptions archive_rt.

Theorem archive_rt_xattr_order : forall t,
  te_xattr (view t) = (if e_hardlink (te_e t) then [] else te_xattr t).
Proof. exact view_xattr. Qed.

(* ---- the conversion fixpoint (sqfs2tar writes, the tar iterator reads,
        tar2sqfs stores: [convert]) ---- *)

(* SCOPE of conv_fixpoint / conv_second_round / xattr_order_may_settle (audit, session 3): here an "image" is only a
   LIST of entries and [convert] = reimage_all [] (read_archive (write_archive es)) maps it entry by entry, keeping the
   list order; entry_ok / img_shape / settled say nothing about order, distinct names or parent directories (a list
   with the same name twice, a child in front of its directory and unsorted names meets them: it_weird_refused in
   section "ImgTar" below).  They are theorems about the archive codec and the per-entry transformation.  What the
   tree building (fstree_add_generic: duplicates refused, parents created implicitly, children sorted),
   fstree_post_process, the serializer, the reader and sqfs2tar's sorted walk with its hard link filter do is in the
   theorems of section "ImgTar" at the end of this file: image_view_of_adds, reimage_is_theorem,
   conv_fixpoint_composed, conv_second_round_composed. *)
(* an image whose entries have the shape tar2sqfs gives them (img_shape:
   canonical names, directories with sqfs2tar's trailing '/', 32-bit time
   stamps, links with mode 0777, nothing tar cannot express; settled: the
   xattrs of every inode in the order the xattr writer stores them for this
   sequence of entries — by index of the key in the image-wide key table)
   converts to an image from which sqfs2tar writes the same archive, byte for
   byte *)
Theorem conv_fixpoint : forall es,
  Forall entry_ok es -> Forall img_shape es -> settled [] es ->
  exists es', convert es = RA_Ok es' /\ write_archive es' = write_archive es.
Proof. exact conv_fixpoint_l. Qed.
Print Assumptions conv_fixpoint.

(* ... and ANY image (names shorter than TAR_MAX_PATH_LEN) has that shape
   after one round: the second conversion reproduces the first.  (The first
   round may rearrange the xattrs of an inode — xattr_order_may_settle below —
   which is why the statement is about the second round.) *)
Theorem conv_second_round : forall es,
  Forall entry_ok es -> Forall short_name es ->
  exists es1 es2, convert es = RA_Ok es1 /\ convert es1 = RA_Ok es2 /\
                  write_archive es2 = write_archive es1.
Proof. exact conv_second_round_l. Qed.
Print Assumptions conv_second_round.

(* the first round is not the identity on archives even for an image in
   img_shape: two files sharing xattr keys, the second listing them in another
   order than the key table of the NEW image will have *)
Theorem xattr_order_may_settle :
  convert settle_a = RA_Ok settle_b /\ convert settle_b = RA_Ok settle_b /\
  write_archive settle_b <> write_archive settle_a.
Proof. exact xattr_order_settles. Qed.

(* Without the reversal in sqfs2tar (the code before fix F23) this is false:
   a file with the two xattrs user.a, user.b converts to the image with
   user.b, user.a and back, the two archives differ — period 2. *)
Theorem conv_fixpoint_old_refuted :
  Forall entry_ok osc_a /\ Forall img_shape osc_a /\ settled [] osc_a /\
  convert_old osc_a = RA_Ok osc_b /\ convert_old osc_b = RA_Ok osc_a /\
  write_archive_old osc_b <> write_archive_old osc_a.
Proof. exact old_sqfs2tar_oscillates. Qed.
Print Assumptions conv_fixpoint_old_refuted.

(* ---- tar2sqfs --root-becomes link retargeting (fix F21) ---- *)
Theorem retarget_keeps_foreign_targets : forall root link,
  (forall r, canon_result link <> Some (root ++ 47 :: r)) -> retarget root link = link.
Proof. exact retarget_untouched. Qed.
Print Assumptions retarget_keeps_foreign_targets.

Theorem retarget_moves_prefixed_targets : forall root link r,
  canon_result link = Some (root ++ 47 :: r) -> retarget root link = 47 :: r.
Proof. exact retarget_prefixed. Qed.

(* the unpatched code violates the first of the two: "./a/../b" is stored as
   "a/a/../b" *)
Theorem retarget_corrupts_symlink_refuted :
  exists root link, (forall r, canon_result link <> Some (root ++ 47 :: r)) /\
                    retarget_old root link <> link.
Proof. exact retarget_old_refuted. Qed.
Print Assumptions retarget_corrupts_symlink_refuted.

(* ---- non-vacuity ---- *)
Example ex_num_oct7 : write_number 493 8 = [48;48;48;48;55;53;53;32].        (* "0000755 " *)
Proof. vm_compute. reflexivity. Qed.
Example ex_num_oct8 : write_number 2097152 8 = [49;48;48;48;48;48;48;48].    (* 8^7: no terminator *)
Proof. vm_compute. reflexivity. Qed.
Example ex_num_bin8 : write_number 16777216 8 = [128;0;0;0;1;0;0;0].          (* 8^8: base-256 *)
Proof. vm_compute. reflexivity. Qed.
Example ex_num_bin12 : write_number (2 ^ 36) 12 = [128;0;0;0;0;0;0;16;0;0;0;0].
Proof. vm_compute. reflexivity. Qed.
Example ex_num_neg : write_number_signed (-1) 12 = [128;0;0;0;255;255;255;255;255;255;255;255].
Proof. vm_compute. reflexivity. Qed.
Example ex_num_rd_neg : option_map s64_of_u64 (read_number [255;255;255;255;255;255;255;255;255;255;255;254]) = Some (-2)%Z.
Proof. vm_compute. reflexivity. Qed.

(* a symlink with a 120-byte name, a 150-byte target, two xattrs (one value
   with NUL, '=' and newline), uid needing base-256, negative mtime: the
   writer emits 'x', 'K', 'L' records and the header, 8 blocks in all, and
   the reader returns the entry *)
Definition ex_entry : entry :=
  mkentry (repeat 97 120) (S_IFLNK + 511) 4294967295 70000 150 (-5)%Z 0 false.
Definition ex_target : list N := repeat 98 150.
Definition ex_xattrs : list xattr := [([117;115;101;114;46;97], [1;0;61;10;255]); ([117;115;101;114;46;98], [])].

Example ex_header_blocks :
  match write_tar_header ex_entry (Some ex_target) ex_xattrs 7 with
  | W_Ok b => length b = 3584%nat
  | W_Unsupported => False
  end.
Proof. vm_compute. reflexivity. Qed.

Example ex_header_rt :
  match write_tar_header ex_entry (Some ex_target) ex_xattrs 7 with
  | W_Ok b => read_header (b ++ [1;2;3]) = RH_Ok (decoded_of ex_entry (Some ex_target) ex_xattrs) [1;2;3]
  | W_Unsupported => False
  end.
Proof. vm_compute. reflexivity. Qed.
(* the two xattrs come back in the opposite order ... *)
Example ex_header_rt_xattr :
  d_xattr (decoded_of ex_entry (Some ex_target) ex_xattrs) =
  [([117;115;101;114;46;98], []); ([117;115;101;114;46;97], [1;0;61;10;255])].
Proof. vm_compute. reflexivity. Qed.
(* ... and in the image's order through sqfs2tar's write_entry *)
Example ex_entry_rt :
  match write_entry_hdr (mkte ex_entry (Some ex_target) ex_xattrs []) 7 with
  | W_Ok b => match read_header (b ++ [1;2;3]) with
              | RH_Ok d rest => d_xattr d = ex_xattrs /\ rest = [1;2;3]
              | _ => False
              end
  | W_Unsupported => False
  end.
Proof. vm_compute. split; reflexivity. Qed.

Example ex_wf : wf_entry ex_entry (Some ex_target) ex_xattrs.
Proof.
  assert (NN : forall l, forallb (fun c => negb (c =? 0)) l = true -> no_nul l).
  { intros l H Hin. rewrite forallb_forall in H. specialize (H 0 Hin). discriminate. }
  assert (BB : forall l, forallb (fun c => c <? 256) l = true -> Forall byte_ok l).
  { intros l H. apply Forall_forall. intros x Hx. rewrite forallb_forall in H. apply N.ltb_lt. auto. }
  assert (KK : forall l, forallb (fun c => negb (c =? 0) && negb (c =? 61)) l = true -> key_ok l).
  { intros l H c Hc. rewrite forallb_forall in H. specialize (H c Hc). apply andb_prop in H.
    destruct H as [H1 H2]. split; intro E; subst; discriminate. }
  constructor.
  - split; [apply NN|apply BB]; vm_compute; reflexivity.
  - vm_compute; discriminate.
  - vm_compute; reflexivity.
  - vm_compute; reflexivity.
  - vm_compute; reflexivity.
  - vm_compute; reflexivity.
  - vm_compute; split; reflexivity.
  - vm_compute; reflexivity.
  - intros _. exists ex_target. split; [reflexivity|]. split; [split; [apply NN|apply BB]; vm_compute; reflexivity|].
    vm_compute. discriminate.
  - constructor; [split; [apply KK; vm_compute; reflexivity|vm_compute; reflexivity]|constructor; [split; [apply KK; vm_compute; reflexivity|vm_compute; reflexivity]|constructor]].
  - vm_compute; discriminate.
Qed.

(* a socket is refused *)
Example ex_socket : write_tar_header (mkentry [115] (S_IFSOCK + 420) 0 0 0 0%Z 0 false) None [] 0 = W_Unsupported.
Proof. vm_compute. reflexivity. Qed.

(* old-GNU style map with two data regions and a trailing hole, read in
   3-byte pieces from a stream that buffers 2 bytes at a time *)
Example ex_sparse :
  stream_go (repeat (2, 1, 2) 20) [(2, 3); (7, 2); (12, 0)] 12 0 [11;12;13;14;15;99] [] =
  S_Done [0;0;11;12;13;0;0;14;15;0;0;0] [99] 12.
Proof. vm_compute. reflexivity. Qed.
Example ex_sparse_wf : wf_map 0 [(2, 3); (7, 2); (12, 0)] 12.
Proof. vm_compute. repeat split; discriminate. Qed.
(* a map that claims more data than the file is long is clipped *)
Example ex_sparse_clipped :
  stream_go (repeat (two64, two64, two64) 5) [(7, 100)] 10 0 [1;2;3;4;5;6] [] = S_Done [0;0;0;0;0;0;0;1;2;3] [4;5;6] 10.
Proof. vm_compute. reflexivity. Qed.

(* a two-entry archive: directory and a 3-byte file; 4 blocks + terminator *)
Definition ex_archive : list tentry :=
  [mkte (mkentry [100;47] (S_IFDIR + 493) 0 0 0 0%Z 0 false) None [] [];
   mkte (mkentry [100;47;102] (S_IFREG + 420) 1000 1000 3 1700000000%Z 0 false) None [] [104;105;10]].
Example ex_archive_len : length (write_archive ex_archive) = 2560%nat.
Proof. vm_compute. reflexivity. Qed.
Example ex_archive_rt : read_archive (write_archive ex_archive) = RA_Ok (views ex_archive).
Proof. vm_compute. reflexivity. Qed.
Example ex_archive_names :
  map (fun t => e_name (te_e t)) (views ex_archive) = [[100]; [100;47;102]].
Proof. vm_compute. reflexivity. Qed.

(* an image as tar2sqfs writes it: directory, file with two xattrs, symlink,
   hard link; it satisfies the hypotheses of conv_fixpoint and is a fixpoint *)
Definition ex_image : list tentry :=
  [mkte (mkentry [100;47] (S_IFDIR + 493) 0 0 0 0%Z 0 false) None [] [];
   mkte (mkentry [100;47;102] (S_IFREG + 420) 1000 1000 3 1700000000%Z 0 false) None [x_user_a; x_user_b] [104;105;10];
   mkte (mkentry [100;47;108] (S_IFLNK + 511) 0 0 1 7%Z 0 false) (Some [102]) [x_user_b] [];
   mkte (mkentry [100;47;104] (S_IFLNK + 511) 1000 1000 0 1700000000%Z 0 true) (Some [100;47;102]) [] []].
Example ex_image_ok : forallb entry_okb ex_image && forallb img_shapeb ex_image && settledb [] ex_image = true.
Proof. vm_compute. reflexivity. Qed.
Example ex_image_hyps : Forall entry_ok ex_image /\ Forall img_shape ex_image /\ settled [] ex_image.
Proof.
  split; [|split]; [| |apply settledb_sound; vm_compute; reflexivity];
    apply Forall_forall; intros t Ht;
    [apply entry_okb_sound|apply img_shapeb_sound];
    cbn [ex_image In] in Ht; repeat (destruct Ht as [<-|Ht]; [vm_compute; reflexivity|]); contradiction.
Qed.
Example ex_image_fixpoint :
  match convert ex_image with
  | RA_Ok es' => write_archive es' = write_archive ex_image
  | _ => False
  end.
Proof. vm_compute. reflexivity. Qed.
(* an image that is not in that shape (name with "./" and "//", symlink mode
   0755, time stamp beyond 32 bit, a socket): the first round changes the
   archive, the second does not *)
Definition ex_rough : list tentry :=
  [mkte (mkentry [46;47;100;47;47;102] (S_IFREG + 420) 0 0 2 8589934592%Z 0 false) None [x_user_a; x_user_b] [1;2];
   mkte (mkentry [115] (S_IFSOCK + 420) 0 0 0 0%Z 0 false) None [] [];
   mkte (mkentry [108] (S_IFLNK + 493) 0 0 1 (-3)%Z 0 false) (Some [102]) [] []].
Example ex_rough_hyps : Forall entry_ok ex_rough /\ Forall short_name ex_rough.
Proof.
  split; apply Forall_forall; intros t Ht; cbn [ex_rough In] in Ht.
  - apply entry_okb_sound. repeat (destruct Ht as [<-|Ht]; [vm_compute; reflexivity|]). contradiction.
  - repeat (destruct Ht as [<-|Ht]; [vm_compute; reflexivity|]). contradiction.
Qed.
Example ex_rough_rounds :
  match convert ex_rough with
  | RA_Ok es1 =>
    list_eqb (write_archive es1) (write_archive ex_rough) = false /\
    match convert es1 with
    | RA_Ok es2 => write_archive es2 = write_archive es1
    | _ => False
    end
  | _ => False
  end.
Proof. vm_compute. split; reflexivity. Qed.
(* the repaired sqfs2tar on the witness of conv_fixpoint_old_refuted *)
Example ex_osc_fixed : convert osc_a = RA_Ok osc_a.
Proof. exact new_sqfs2tar_stable. Qed.

(* --root-becomes r: "r/b/f" -> "/b/f", "../x" and "/etc" stay *)
Example ex_retarget_1 : retarget [114] [114;47;98;47;102] = [47;98;47;102].
Proof. vm_compute. reflexivity. Qed.
Example ex_retarget_2 : retarget [114] [46;46;47;120] = [46;46;47;120].
Proof. vm_compute. reflexivity. Qed.
Example ex_retarget_3 : retarget [114] [47;101;116;99] = [47;101;116;99].
Proof. vm_compute. reflexivity. Qed.
Example ex_retarget_old : retarget_old [114] [46;47;97;47;46;46;47;98] = [97;47;97;47;46;46;47;98].
Proof. vm_compute. reflexivity. Qed.

(* ============================================================================================================
   ImgTar (session 3) — tar2sqfs -> image -> sqfs2tar with the tree in between

   coq/ImgTar/Model.v models process_tarball's per-entry step (pt_op_of: mtime clamp, --root-becomes strip and
   retarget, -k, the root entry = set_root_attribs, everything else one fstree_add_generic call with the entry's
   type / mode / uid / gid / mtime / device number and the link target as extra string) and what sqfs2tar's iterator
   stack delivers for a reader view (s2t_entries: walk order = the flattened view, root omitted, trailing '/' on
   directories, sqfs_hard_link_filter keyed by inode: the second and later paths of an inode that is not a directory
   become hard link records to the first path; sockets pass and are refused later by write_tar_header).  In between
   sit coq/C11 (fs_add, post_process), coq/ImgPost (to_img) and coq/Img (serialize_fstree, read_tree).
   ============================================================================================================ *)
From SqfsV Require C03.Common C01.Res C01.InodeModel Img.TreeModel C11.StrOrder C11.FstreeModel C11.PostModel.
From SqfsV Require ImgPost.Bridge ImgPost.InputOk ImgPost.PathsModel ImgPost.PathsProofs.
From SqfsV Require Import ImgTar.Model ImgTar.AddLookup ImgTar.Semantics ImgTar.Reimage ImgTar.Compose ImgTar.ViewProofs
  ImgTar.Example.
From Coq Require Import Sorted.

(* ---- (audit) what archive_rt says about one entry: every field of [view t], not only the xattr list ---- *)
Theorem archive_rt_fields : forall t,
  let e := te_e t in let v := view t in
  e_hardlink (te_e v) = e_hardlink e /\ e_uid (te_e v) = e_uid e /\ e_gid (te_e v) = e_gid e /\
  e_mtime (te_e v) = e_mtime e /\ e_name (te_e v) = canon_name (e_name e) /\
  (e_hardlink e = true \/ ftype (e_mode e) = S_IFLNK -> te_target v = te_target t) /\
  (is_reg (e_mode e) && negb (e_hardlink e) = true -> e_size (te_e v) = e_size e) /\
  (is_dev (e_mode e) = true -> e_hardlink e = false -> e_rdev (te_e v) = e_rdev e).
Proof. exact view_facts. Qed.
Print Assumptions archive_rt_fields.

(* ... and the mode: links (hard and symbolic) come back as S_IFLNK | 0777, everything else unchanged *)
Theorem archive_rt_mode : forall t,
  e_mode (te_e t) < 65536 ->
  e_mode (te_e (view t)) =
  if e_hardlink (te_e t) || (ftype (e_mode (te_e t)) =? S_IFLNK) then S_IFLNK + 511 else e_mode (te_e t).
Proof. exact view_mode_gen. Qed.
Print Assumptions archive_rt_mode.

(* (audit) the hypothesis of retarget_keeps_foreign_targets is met by root "r" and the targets "../x" and "/etc" *)
Example ex_retarget_foreign :
  (forall r, canon_result [46;46;47;120] <> Some ([114] ++ 47 :: r)) /\
  (forall r, canon_result [47;101;116;99] <> Some ([114] ++ 47 :: r)).
Proof. split; intro r; vm_compute; congruence. Qed.

(* ---- process_tarball: without a root entry the run is exactly the list of its fstree_add_generic calls ---- *)
Theorem process_tarball_is_adds : forall o d vs,
  forallb no_root_op (pt_ops o d vs) = true ->
  tar2sqfs_tree o d vs = Bridge.run_adds d (FstreeModel.fs_init d) (adds_of_entries o d vs).
Proof. exact tar2sqfs_tree_adds. Qed.
Print Assumptions process_tarball_is_adds.

(* ---- what a list of successful adds builds, without the tree (any order; implicit directories; fill-in of an
        implicit directory by its own later add; hard links before / after / through other hard links).
   ops_okb: every path below the root, no path twice, hard link entries have the link type, directory time stamps
   inside 32 bit (process_tarball clamps).  links_resolveb: every hard link add leads, through the targets of further
   hard link adds, to something that is not one (decidable; fstree_resolve_hard_links refuses the rest).
   For every [fl] that [denotes] the tree (ImgPost: the reader's flattened view before numbering):
   - its paths are strictly sorted in directory order (a directory in front of its contents, siblings by strcmp),
   - they are exactly the root, the added paths and their prefixes,
   - each carries the node [spec_resolve] names and the attributes [spec_pview] of that node: those of its add, the
     defaults for a directory nobody added. ---- *)
Theorem adds_denote : forall d ops fs fb xa fl,
  ops_okb ops = true -> links_resolveb ops = true ->
  Bridge.run_adds d (FstreeModel.fs_init d) ops = Some fs ->
  PathsModel.denotes fb xa (FstreeModel.fs_root fs) fl ->
  StronglySorted path_lt (map fst3 fl) /\
  (forall p, In p (map fst3 fl) <-> p = [] \/ in_closure p ops) /\
  Forall (fun x => let '(p, v, id) := x in
                   spec_resolve (S (length ops)) ops p = Some id /\ v = spec_pview fb xa d ops id) fl.
Proof. exact adds_denote_l. Qed.
Print Assumptions adds_denote.

(* ... end to end through sqfs_serialize_fstree and the reader (ImgPost.pack_paths_roundtrip): what a reader sees of
   the image tar2sqfs writes for any archive it accepts that has NO entry for the root directory ("./": such an entry is
   not an add but set_root_attribs; process_tarball_is_adds / no_root_op exclude it — audit 3, W1.  For archives WITH
   root entries see tar2sqfs_tree_with_root_entries, image_view_of_adds_rooted, tar_roundtrip_root_first and
   tar2sqfs_rooted_image_reads_back in section "ImgTarFull" at the end of this file).
   [compress] / [uncompress]: any pair meeting the metadata
   compressor contract; input_okb / attached_okb / trace_fits: the decidable bounds of pack_paths_roundtrip. *)
Theorem image_view_of_adds : forall compress uncompress,
  (forall b c, compress b = Common.CData c -> Common.lenN c <= Common.lenN b /\ uncompress c = Some b) ->
  forall limit, limit <= 65536 ->
  forall bs d ops fs pp fb xa img,
  ops_okb ops = true -> links_resolveb ops = true ->
  InputOk.input_okb bs d ops = true ->
  Bridge.run_adds d (FstreeModel.fs_init d) ops = Some fs ->
  PostModel.post_process fs = PostModel.POk pp ->
  InputOk.attached_okb bs fb xa pp = true ->
  TreeModel.serialize_fstree compress limit (Bridge.to_img fb xa pp) = Res.Ok img ->
  TreeModel.trace_fits img = true ->
  exists lt fl,
    TreeModel.read_tree uncompress bs (TreeModel.si_itbl img) (TreeModel.si_dtbl img) (TreeModel.si_ids img)
                        (length (PostModel.pp_inodes pp)) (TreeModel.si_root img) = Some lt /\
    PathsModel.flat_lt [] lt = map (PathsProofs.number (PostModel.pp_inodes pp)) fl /\
    StronglySorted path_lt (map fst3 fl) /\
    (forall p, In p (map fst3 fl) <-> p = [] \/ in_closure p ops) /\
    Forall (fun x => let '(p, v, id) := x in
                     spec_resolve (S (length ops)) ops p = Some id /\ v = spec_pview fb xa d ops id) fl /\
    (forall x y, In x fl -> In y fl ->
       Bridge.ino_of (PostModel.pp_inodes pp) (snd x) = Bridge.ino_of (PostModel.pp_inodes pp) (snd y) -> snd x = snd y).
Proof. exact image_view_of_adds_l. Qed.
Print Assumptions image_view_of_adds.

(* ---- reimage is a theorem.  For an archive in the shape sqfs2tar emits (tree_shapeb, decidable: canonical names
   below the root; strictly sorted in directory order, hence no name twice; every directory above an entry listed in
   front of it; a hard link record names an EARLIER entry that is neither a hard link record nor a directory and
   repeats that inode's owner and time stamp; symbolic links with mode 0777; nothing tar cannot express) the entries
   sqfs2tar's iterator stack delivers for the image tar2sqfs builds are C04's [reimage_all] of the archive, up to the
   fields write_tar_header does not read ([meq]: size of non-files, device number of non-devices, target of
   non-links).  files_attached: the block processor left every regular file with the announced size (C08). ---- *)
Theorem reimage_is_theorem : forall compress uncompress,
  (forall b c, compress b = Common.CData c -> Common.lenN c <= Common.lenN b /\ uncompress c = Some b) ->
  forall limit, limit <= 65536 ->
  forall bs d vs fs pp fb xa img tbl,
  tree_shapeb vs = true -> files_attached fb vs ->
  InputOk.input_okb bs d (adds_of_entries opts0 d vs) = true ->
  tar2sqfs_tree opts0 d vs = Some fs ->
  PostModel.post_process fs = PostModel.POk pp ->
  InputOk.attached_okb bs fb xa pp = true ->
  TreeModel.serialize_fstree compress limit (Bridge.to_img fb xa pp) = Res.Ok img ->
  TreeModel.trace_fits img = true ->
  exists lt out,
    TreeModel.read_tree uncompress bs (TreeModel.si_itbl img) (TreeModel.si_dtbl img) (TreeModel.si_ids img)
                        (length (PostModel.pp_inodes pp)) (TreeModel.si_root img) = Some lt /\
    sqfs2tar_entries false (PathsModel.flat_lt [] lt) = Some out /\
    Forall2 meq out (reimage_all tbl vs).
Proof. exact reimage_is_theorem_l. Qed.
Print Assumptions reimage_is_theorem.

(* the same at the level of lib/fstree alone (no serializer): any list [fl] that denotes the tree, numbered by any
   array that tells the denoted nodes apart *)
Theorem reimage_meta : forall d vs fs fb xa fl arr tbl,
  tree_shapeb vs = true ->
  Bridge.run_adds d (FstreeModel.fs_init d) (adds_of_entries opts0 d vs) = Some fs ->
  PathsModel.denotes fb xa (FstreeModel.fs_root fs) fl ->
  files_attached fb vs ->
  (forall x y, In x fl -> In y fl -> Bridge.ino_of arr (snd x) = Bridge.ino_of arr (snd y) -> snd x = snd y) ->
  exists out, sqfs2tar_entries false (map (PathsProofs.number arr) fl) = Some out /\
              Forall2 meq out (reimage_all tbl vs).
Proof. exact reimage_meta_l. Qed.
Print Assumptions reimage_meta.

(* ---- conv_fixpoint with that hypothesis discharged: sqfs2tar's archive of the image listing [es], read by the tar
   iterator, packed by process_tarball + lib/fstree + the serializer, read back and walked by sqfs2tar's iterators,
   is written as the same archive, byte for byte.  Names, order, types, modes, owners, time stamps, link targets,
   device numbers and the hard link structure of the second archive are computed by the composed models; the xattr
   list and the file contents of every entry are those of [reimage_all] (xattr writer order, data as read) — that
   part is still an assumption ([attach_all]). ---- *)
Theorem conv_fixpoint_composed : forall compress uncompress,
  (forall b c, compress b = Common.CData c -> Common.lenN c <= Common.lenN b /\ uncompress c = Some b) ->
  forall limit, limit <= 65536 ->
  forall bs d es fs pp fb xa img,
  Forall entry_ok es -> Forall img_shape es -> settled [] es ->
  let vs := views es in
  tree_shapeb vs = true -> files_attached fb vs ->
  InputOk.input_okb bs d (adds_of_entries opts0 d vs) = true ->
  tar2sqfs_tree opts0 d vs = Some fs ->
  PostModel.post_process fs = PostModel.POk pp ->
  InputOk.attached_okb bs fb xa pp = true ->
  TreeModel.serialize_fstree compress limit (Bridge.to_img fb xa pp) = Res.Ok img ->
  TreeModel.trace_fits img = true ->
  read_archive (write_archive es) = RA_Ok vs /\
  exists lt out,
    TreeModel.read_tree uncompress bs (TreeModel.si_itbl img) (TreeModel.si_dtbl img) (TreeModel.si_ids img)
                        (length (PostModel.pp_inodes pp)) (TreeModel.si_root img) = Some lt /\
    sqfs2tar_entries false (PathsModel.flat_lt [] lt) = Some out /\
    write_archive (attach_all out (reimage_all [] vs)) = write_archive es.
Proof. exact conv_fixpoint_composed_l. Qed.
Print Assumptions conv_fixpoint_composed.

(* ... and from any listing after one round (names shorter than TAR_MAX_PATH_LEN): round one establishes entry_ok,
   img_shape and settled (round_one); if its result is in directory order with hard links behind their first name —
   what sqfs2tar's walk produces, see it_rough_out for an archive that is NOT — round two reproduces it *)
Theorem conv_second_round_composed : forall compress uncompress,
  (forall b c, compress b = Common.CData c -> Common.lenN c <= Common.lenN b /\ uncompress c = Some b) ->
  forall limit, limit <= 65536 ->
  forall bs d es fs pp fb xa img,
  Forall entry_ok es -> Forall short_name es ->
  let es1 := reimage_all [] (views es) in
  let vs := views es1 in
  tree_shapeb vs = true -> files_attached fb vs ->
  InputOk.input_okb bs d (adds_of_entries opts0 d vs) = true ->
  tar2sqfs_tree opts0 d vs = Some fs ->
  PostModel.post_process fs = PostModel.POk pp ->
  InputOk.attached_okb bs fb xa pp = true ->
  TreeModel.serialize_fstree compress limit (Bridge.to_img fb xa pp) = Res.Ok img ->
  TreeModel.trace_fits img = true ->
  convert es = RA_Ok es1 /\
  read_archive (write_archive es1) = RA_Ok vs /\
  exists lt out,
    TreeModel.read_tree uncompress bs (TreeModel.si_itbl img) (TreeModel.si_dtbl img) (TreeModel.si_ids img)
                        (length (PostModel.pp_inodes pp)) (TreeModel.si_root img) = Some lt /\
    sqfs2tar_entries false (PathsModel.flat_lt [] lt) = Some out /\
    write_archive (attach_all out (reimage_all [] vs)) = write_archive es1.
Proof. exact conv_second_round_composed_l. Qed.
Print Assumptions conv_second_round_composed.

(* ---- the function the tie runs.  props/C04/imgtar.py compares the real tar2sqfs | sqfs2tar with
   [tar_roundtrip_entries] (extracted): process_tarball model, coq/C11 fs_add + post_process, the view computed on the
   post-processed tree, the walk.  It is an instance of the theorems above — no bound on the input and no condition on
   the file inodes is needed on this route (the tree is not serialized): the view is the numbering of THE list that
   denotes the tree, and the numbering tells the denoted nodes apart. ---- *)
Theorem tar_roundtrip_view : forall o d nl vs fs pp,
  let ops := adds_of_entries o d vs in
  let fb := fb_of (sizes_of o d vs) in
  forallb no_root_op (pt_ops o d vs) = true -> ops_okb ops = true -> links_resolveb ops = true ->
  tar2sqfs_tree o d vs = Some fs -> PostModel.post_process fs = PostModel.POk pp ->
  exists fl,
    tar_roundtrip_entries o d nl vs = sqfs2tar_entries nl (map (PathsProofs.number (PostModel.pp_inodes pp)) fl) /\
    StronglySorted path_lt (map fst3 fl) /\
    (forall p, In p (map fst3 fl) <-> p = [] \/ in_closure p ops) /\
    Forall (fun x => let '(p, v, id) := x in
                     spec_resolve (S (length ops)) ops p = Some id /\
                     v = spec_pview fb (fun _ => 4294967295) d ops id) fl /\
    (forall x y, In x fl -> In y fl ->
       Bridge.ino_of (PostModel.pp_inodes pp) (snd x) = Bridge.ino_of (PostModel.pp_inodes pp) (snd y) -> snd x = snd y).
Proof. exact tar_roundtrip_view_l. Qed.
Print Assumptions tar_roundtrip_view.

Theorem tar_roundtrip_reimage : forall d vs tbl,
  tree_shapeb vs = true ->
  files_attached (fb_of (sizes_of opts0 d vs)) vs ->
  forall fs pp, tar2sqfs_tree opts0 d vs = Some fs -> PostModel.post_process fs = PostModel.POk pp ->
  exists out, tar_roundtrip_entries opts0 d false vs = Some out /\ Forall2 meq out (reimage_all tbl vs).
Proof. exact tar_roundtrip_reimage_l. Qed.
Print Assumptions tar_roundtrip_reimage.

(* ---- non-vacuity ---- *)
(* it_es = the listing  d/  d/f  d/h => d/f  d/l -> f  dev  z => d/l  (a second name of a regular file and a second
   name of a SYMBOLIC LINK): every hypothesis of conv_fixpoint_composed holds (the pipeline ones by computation with
   the zero-run-length metadata compressor of the tie) ... *)
Example ex_composed_hyps :
  Forall entry_ok it_es /\ Forall img_shape it_es /\ settled [] it_es /\
  tree_shapeb it_vs = true /\ files_attached it_fb it_vs /\
  match it_run with
  | Some (inp, att, fits, _, _) => inp = true /\ att = true /\ fits = true
  | None => False
  end.
Proof. exact it_hyps. Qed.
(* ... and the conclusion computes: six entries in directory order, both second names as hard link records, and the
   archive sqfs2tar writes is the one it started from *)
Example ex_composed_concl :
  match it_run with
  | Some (_, _, _, lt, _) =>
      match sqfs2tar_entries false (PathsModel.flat_lt [] lt) with
      | Some out =>
          map (fun m => (e_name (fst m), e_hardlink (fst m), snd m)) out =
            [ ([100; 47], false, None); ([100; 47; 102], false, None); ([100; 47; 104], true, Some [100; 47; 102]);
              ([100; 47; 108], false, Some [102]); ([100; 101; 118], false, None); ([122], true, Some [100; 47; 108]) ] /\
          write_archive (attach_all out (reimage_all [] it_vs)) = write_archive it_es
      | None => False
      end
  | None => False
  end.
Proof. exact it_concl. Qed.

(* the auditor's list (same name twice, child before parent, unsorted) satisfies the hypotheses of the OLD
   conv_fixpoint and is a "fixpoint" of [convert]; the shape test of the new theorems refuses it and the model of
   tar2sqfs fails on it (the second z: EEXIST) *)
Example ex_weird_refused :
  forallb entry_okb it_weird && forallb img_shapeb it_weird && settledb [] it_weird = true /\
  convert it_weird = RA_Ok it_weird /\
  tree_shapeb (views it_weird) = false /\
  tar2sqfs_tree opts0 it_d (views it_weird) = None.
Proof. exact it_weird_refused. Qed.

(* a first-round archive (d/sub/f without entries for d and d/sub, a hard link chain in front of its target, d/ after
   its contents with mtime 2^32+5, a hard link to a symbolic link whose record carries another owner): the hypotheses
   of adds_denote / image_view_of_adds hold, it is not in sqfs2tar's shape ... *)
Example ex_rough_archive_hyps :
  forallb no_root_op (pt_ops opts0 it_d it_rough) = true /\ ops_okb it_rough_ops = true /\
  links_resolveb it_rough_ops = true /\ InputOk.input_okb 4096 it_d it_rough_ops = true /\
  tree_shapeb it_rough = false /\
  match tar2sqfs_tree opts0 it_d it_rough with
  | Some fs => match PostModel.post_process fs with PostModel.POk _ => True | _ => False end
  | None => False
  end.
Proof. exact it_rough_hyps. Qed.
(* ... and what sqfs2tar delivers for its image is NOT [reimage_all] of it: directory order, d/ and d/sub/ listed, the
   first name in directory order carries the inode (a, b) and the others (d/l2, d/sub/f, s) are records pointing at
   it, the record repeats the inode's owner.  [reimage] describes the rounds from sqfs2tar's own output on. *)
Example reimage_first_round_refuted :
  match tar_roundtrip_entries opts0 it_d false it_rough with
  | Some out =>
      map (fun m => (e_name (fst m), e_hardlink (fst m), e_uid (fst m), snd m)) out =
        [ ([66; 47], false, 0, None);
          ([97], false, 1000, None);
          ([98], false, 5, Some [116; 103; 116]);
          ([100; 47], false, 1, None);
          ([100; 47; 108; 50], true, 1000, Some [97]);
          ([100; 47; 115; 117; 98; 47], false, 0, None);
          ([100; 47; 115; 117; 98; 47; 102], true, 1000, Some [97]);
          ([115], true, 5, Some [98]) ] /\
      map (fun m => e_name (fst m)) out <> map (fun t => e_name (te_e t)) (reimage_all [] it_rough)
  | None => False
  end.
Proof. exact it_rough_out. Qed.

(* FINDING F25 (image side): an image in which a SOCKET has two names.  The hard link filter turns the second name
   into a hard link record to the first, write_tar_header refuses the first (tar cannot express sockets) and
   sqfs2tar skips it: the archive holds a hard link record whose target it does not contain.  The tar reader accepts
   it, process_tarball adds it, fstree_post_process fails ("Resolving hard link ... No such file or directory");
   reproduced with gensquashfs | sqfs2tar | tar2sqfs and with GNU tar -x (props/C04/NOTES.md). *)
Example sqfs2tar_socket_link_refuted :
  match sqfs2tar_entries false it_sock_view with
  | Some out =>
      let es := map (fun m => mkte (fst m) (snd m) [] []) out in
      match read_archive (write_archive es) with
      | RA_Ok vs =>
          map (fun t => (e_name (te_e t), e_hardlink (te_e t), te_target t)) vs =
            [([102], false, None); ([116], true, Some [115])] /\
          tar2sqfs_tree opts0 it_d vs <> None /\
          match tar2sqfs_tree opts0 it_d vs with
          | Some fs => PostModel.post_process fs = PostModel.PErr
          | None => False
          end
      | _ => False
      end
  | None => False
  end.
Proof. exact it_sock_dangling. Qed.

(* ==== sqfs2tar --subdir / --keep-as-dir / --root-becomes: the selection rule (session 3 strengthening, seed C04-6) ====
   coq/C04/SubdirModel.v = keep_entry() and the rewriting part of next() of bin/sqfs2tar/src/iterator.c on C strings;
   coq/C04/SubdirProofs.v.  [join] / [split_slash] / [good] are C18's (a path = list of components). *)
From SqfsV Require C04.SubdirModel C04.SubdirProofs C18.CanonSpec C18.CanonProofs.

(* string level, for ALL byte strings: keep_entry's loop body accepts n for the selection p iff n is p, or n is
   "p/..." or p is "n/..." - never a name that merely starts with p *)
Theorem subdir_keep_one_exact : forall p n : list N,
  SubdirModel.keep_one p n = true <->
  n = p \/ (exists t, n = p ++ CanonModel.slash :: t) \/ (exists t, p = n ++ CanonModel.slash :: t).
Proof. exact SubdirProofs.keep_one_iff. Qed.
Print Assumptions subdir_keep_one_exact.

(* component level: that is the documented selection (the selected path, everything below it, the directories leading to it) *)
Theorem subdir_selects_is_keep_one : forall ps cs : list (list N),
  SubdirProofs.wfp ps -> SubdirProofs.wfp cs ->
  SubdirModel.keep_one (CanonSpec.join ps) (CanonSpec.join cs) = SubdirModel.subdir_selects ps cs.
Proof. exact SubdirProofs.keep_one_selects. Qed.
Print Assumptions subdir_selects_is_keep_one.

(* one --subdir without -k: next() emits exactly the entries strictly below the selected path, and the name is the path
   relative to it (prefixed by --root-becomes, '/' appended to directories); the selected directory itself and what leads
   to it are not emitted *)
Theorem subdir_strip_is_relative_path : forall (ps cs : list (list N)) (rb : option (list N)) (d : bool),
  SubdirProofs.wfp ps -> SubdirProofs.wfp cs ->
  SubdirModel.s2t_name [CanonSpec.join ps] false rb d (CanonSpec.join cs) =
  match SubdirModel.subdir_strip ps cs with
  | Some r => Some (SubdirModel.with_dir_slash d (SubdirModel.with_root rb (CanonSpec.join r)))
  | None => None
  end.
Proof. exact SubdirProofs.s2t_name_single. Qed.
Print Assumptions subdir_strip_is_relative_path.

(* -k or several --subdir: exactly the selected entries under their own names *)
Theorem subdir_keep_as_dir : forall (subs : list (list (list N))) (cs : list (list N)) (k : bool) (rb : option (list N)) (d : bool),
  subs <> [] -> Forall SubdirProofs.wfp subs -> SubdirProofs.wfp cs ->
  SubdirModel.strip_of (map CanonSpec.join subs) k = None ->
  SubdirModel.s2t_name (map CanonSpec.join subs) k rb d (CanonSpec.join cs) =
  if existsb (fun ps => SubdirModel.subdir_selects ps cs) subs
  then Some (SubdirModel.with_dir_slash d (SubdirModel.with_root rb (CanonSpec.join cs))) else None.
Proof. exact SubdirProofs.s2t_name_keep. Qed.
Print Assumptions subdir_keep_as_dir.

(* the stripped names of two different entries never collide (whatever --root-becomes, whichever is a directory) *)
Theorem subdir_stripped_names_never_collide :
  forall (ps c1 c2 r1 r2 : list (list N)) (rb : option (list N)) (d1 d2 : bool),
  Forall CanonProofs.good c1 -> Forall CanonProofs.good c2 ->
  SubdirModel.subdir_strip ps c1 = Some r1 -> SubdirModel.subdir_strip ps c2 = Some r2 ->
  SubdirModel.with_dir_slash d1 (SubdirModel.with_root rb (CanonSpec.join r1)) =
  SubdirModel.with_dir_slash d2 (SubdirModel.with_root rb (CanonSpec.join r2)) -> c1 = c2.
Proof. exact SubdirProofs.strip_names_never_collide. Qed.
Print Assumptions subdir_stripped_names_never_collide.

Theorem subdir_kept_names_never_collide : forall (c1 c2 : list (list N)) (rb : option (list N)) (d1 d2 : bool),
  c1 <> [] -> c2 <> [] -> Forall CanonProofs.good c1 -> Forall CanonProofs.good c2 ->
  SubdirModel.with_dir_slash d1 (SubdirModel.with_root rb (CanonSpec.join c1)) =
  SubdirModel.with_dir_slash d2 (SubdirModel.with_root rb (CanonSpec.join c2)) -> c1 = c2.
Proof. exact SubdirProofs.kept_names_never_collide. Qed.
Print Assumptions subdir_kept_names_never_collide.

(* the seeded change C04-6 (prefix compare without the '/' test): "lib64/a" is kept for --subdir lib although it is not
   selected, and the strip turns it into "4/a" *)
Theorem subdir_prefix_only_refuted :
  exists ps cs, SubdirProofs.wfp ps /\ SubdirProofs.wfp cs /\
                SubdirModel.keep_one_noslash (CanonSpec.join ps) (CanonSpec.join cs) = true /\
                SubdirModel.subdir_selects ps cs = false /\
                skipn (S (length (CanonSpec.join ps))) (CanonSpec.join cs) = [52; CanonModel.slash; 97].
Proof. exact SubdirProofs.keep_one_noslash_refuted_proof. Qed.
Print Assumptions subdir_prefix_only_refuted.

(* non-vacuity: image walk lib/, lib/a, lib/lib/, lib64/, lib64/a, lib.conf, li under -d lib, -k -d lib, -d lib -d lib64/a -r top *)
Example ex_subdir_walk :
  let w := [(SubdirProofs.s_li, false); (SubdirProofs.s_lib, true); (SubdirProofs.s_lib ++ [47; 97], false);
            (SubdirProofs.s_lib ++ 47 :: SubdirProofs.s_lib, true); (SubdirProofs.s_libconf, false);
            (SubdirProofs.s_lib64, true); (SubdirProofs.s_lib64 ++ [47; 97], false)] in
  SubdirModel.s2t_names [SubdirProofs.s_lib] false None w = [[97]; SubdirProofs.s_lib ++ [47]] /\
  SubdirModel.s2t_names [SubdirProofs.s_lib] true None w =
    [SubdirProofs.s_lib ++ [47]; SubdirProofs.s_lib ++ [47; 97]; SubdirProofs.s_lib ++ 47 :: SubdirProofs.s_lib ++ [47]] /\
  SubdirModel.s2t_names [SubdirProofs.s_lib ++ 47 :: SubdirProofs.s_lib; SubdirProofs.s_lib64 ++ [47; 97]] false (Some [116]) w =
    [[116; 47]; 116 :: 47 :: SubdirProofs.s_lib ++ [47]; 116 :: 47 :: SubdirProofs.s_lib ++ 47 :: SubdirProofs.s_lib ++ [47];
     116 :: 47 :: SubdirProofs.s_lib64 ++ [47]; 116 :: 47 :: SubdirProofs.s_lib64 ++ [47; 97]].
Proof. repeat split. Qed.

Example ex_subdir_hyps :
  SubdirProofs.wfp [SubdirProofs.s_lib] /\ SubdirProofs.wfp [SubdirProofs.s_lib; SubdirProofs.s_a] /\
  Forall CanonProofs.good [SubdirProofs.s_lib; SubdirProofs.s_a] /\
  SubdirModel.subdir_strip [SubdirProofs.s_lib] [SubdirProofs.s_lib; SubdirProofs.s_a] = Some [SubdirProofs.s_a] /\
  SubdirModel.subdir_strip [SubdirProofs.s_lib] [SubdirProofs.s_lib64; SubdirProofs.s_a] = None /\
  SubdirModel.subdir_selects [SubdirProofs.s_lib; SubdirProofs.s_a] [SubdirProofs.s_lib] = true /\
  SubdirModel.subdir_selects [SubdirProofs.s_lib] [SubdirProofs.s_li] = false.
Proof.
  repeat split; try discriminate; try (repeat constructor; discriminate).
Qed.

(* ============================================================================================================
   ImgTarFull (session 3, builder E2) — C04's composed theorems from the metadata level to CONTENTS and XATTRS, and to
   image BYTES.  Section "ImgTar" above left "the xattr list and the file contents of every entry of the new image"
   assumed ([attach_all] took them from reimage_all).  coq/ImgTarFull composes
     tar2sqfs  = process_tarball (ImgTar.pt_op_of) + copy_xattr (C01 xattr writer, in ARCHIVE order, unknown prefixes
                 skipped, a key repeated in one PAX header: the latest record counts — fix F26) + write_file (C08 block
                 processor, in ARCHIVE order, contents = what the tar file stream delivers: holes expanded) + C11 fstree /
                 post_process + ImgXattr flush + Image.write_image                                      [t2s_full]
     sqfs2tar  = the reader models on the image BYTES (ImgE2E.read_all: C05 tree / id / fragment readers, C10 data
                 reader, xattr reader specification) + the walk with its hard link filter (ImgTar.s2t_go) + xattr
                 lists and contents as read                                                           [sqfs2tar_full]
   and proves, for archives in the shape sqfs2tar emits (tree_shapeb), that archive order is tree order
   (shape_orders), hence t2s_full IS a run of ImgE2E.pack_all (tar2sqfs_is_pack_all) and pack_all_reads_back applies.
   ============================================================================================================ *)
From SqfsV Require C01.XattrModel C01.XattrProofs C01.XattrWriterProofs C05.RBase Image.FinishModel.
From SqfsV Require ImgReader.Embed ImgReader.ReadImage.
From SqfsV Require Import ImgE2E.PackAll ImgE2E.Hyps.
From SqfsV Require Import ImgTarFull.Model ImgTarFull.XattrOrder ImgTarFull.Rooted ImgTarFull.Bridge ImgTarFull.ReadsBack ImgTarFull.RoundTrip
  ImgTarFull.Checks ImgTarFull.Closed ImgTarFull.Example.

(* ---- sparse files.  [sentry] = an entry as read_header decodes it (sparse map, record bytes, real size); [se_data] is
   what the tar iterator's file stream delivers for it under EVERY consumer schedule, and that is what write_file hands to
   the block processor ([te_of_se]); for a sorted map inside the file it is the hole expansion ---- *)
Theorem sparse_contents_stream : forall sched s out' data' pos',
  stream_go sched (se_sparse s) (e_size (se_e s)) 0 (se_record s) [] = S_Done out' data' pos' -> out' = se_data s.
Proof. exact sparse_contents_stream_l. Qed.
Print Assumptions sparse_contents_stream.

Theorem sparse_contents_expand : forall s,
  se_sparse s <> [] -> wf_map 0 (se_sparse s) (e_size (se_e s)) ->
  map_bytes (se_sparse s) <= N.of_nat (length (se_record s)) ->
  se_data s = expand 0 (se_sparse s) (se_record s) (e_size (se_e s)).
Proof. exact sparse_contents_expand_l. Qed.
Print Assumptions sparse_contents_expand.

Theorem sparse_contents_plain : forall s,
  se_sparse s = [] -> (N.to_nat (e_size (se_e s)) <= length (se_record s))%nat ->
  se_data s = firstn (N.to_nat (e_size (se_e s))) (se_record s).
Proof. exact sparse_contents_plain_l. Qed.

Theorem te_of_se_data : forall s, te_data (te_of_se s) = if is_reg (e_mode (se_e s)) then se_data s else [].
Proof. exact te_of_se_data_l. Qed.

(* ---- the ORDER in which the image keeps the pairs of a node.  C01's refinement gives the SET; the model of
   xattr_writer_record.c (begin, add_kv*, end: sort by key index << 32 | value index, de-duplication of blocks) computes,
   for pairwise different keys, exactly C04's [store_xattrs]: old keys first in key table order, new keys in list order,
   and the key table grows by the new keys — what reimage_all threads through the archive ---- *)
Theorem xattr_writer_order : forall w xs,
  XattrWriterProofs.winv w -> XattrWriterProofs.blen w -> Forall XattrWriterProofs.kv_ok xs ->
  Res.nlen xs < 4294967296 -> NoDup (map fst xs) ->
  exists w' idx, XattrModel.xw_set w xs = Res.Ok (w', idx) /\ XattrWriterProofs.winv w' /\ XattrWriterProofs.blen w' /\
    XattrModel.x_keys w' = fst (store_xattrs (XattrModel.x_keys w) xs) /\
    ((xs = [] /\ idx = XattrModel.NOIDX) \/
     (xs <> [] /\ exists k blk, idx = N.of_nat k /\ nth_error (XattrModel.x_blocks w') k = Some blk /\
                                XattrWriterProofs.kmap w' blk = snd (store_xattrs (XattrModel.x_keys w) xs))).
Proof. exact xattr_writer_order_l. Qed.
Print Assumptions xattr_writer_order.

(* ... on a writer that already knows user.a, the decoded list [user.b; user.a] is stored [user.a; user.b] *)
Example ex_xattr_writer_order :
  match XattrModel.xw_set XattrModel.xw_empty [(fx_ka, [48])] with
  | Res.Ok (w, _) =>
      let xs := [(fx_kb, [50]); (fx_ka, [49])] in
      forallb kv_okb xs = true /\
      match XattrModel.xw_set w xs with
      | Res.Ok (w', idx) =>
          idx = 1 /\ XattrModel.x_keys w' = fst (store_xattrs (XattrModel.x_keys w) xs) /\
          map (XattrWriterProofs.kmap w') (XattrModel.x_blocks w') = [[(fx_ka, [48])]; snd (store_xattrs (XattrModel.x_keys w) xs)] /\
          snd (store_xattrs (XattrModel.x_keys w) xs) = [(fx_ka, [49]); (fx_kb, [50])]
      | _ => False
      end
  | _ => False
  end.
Proof. exact fx_writer_order. Qed.

(* tar2sqfs' copy_xattr (without --no-skip) is one begin / add_kv* / end on [xkept]: per key the element the latest
   PAX record gave (fix F26), if SquashFS knows the prefix *)
Theorem copy_xattr_is_set : forall w xs, copy_xattr false w xs = XattrModel.xw_set w (xkept xs).
Proof. exact copy_xattr_is_set_l. Qed.

Theorem xkept_meaning : forall xs,
  NoDup (map fst (xkept xs)) /\
  (forall x, In x (xkept xs) -> In x xs /\ xsupported x = true) /\
  (Forall XattrWriterProofs.kv_ok xs -> NoDup (map fst xs) -> xkept xs = xs).
Proof. exact xkept_meaning_l. Qed.
Print Assumptions xkept_meaning.

(* ---- archive order is tree order, and the bridge to ImgE2E.pack_all ---- *)
Theorem shape_orders : forall d vs fs pp,
  tree_shapeb vs = true ->
  Bridge.run_adds d (FstreeModel.fs_init d) (adds_of_entries opts0 d vs) = Some fs ->
  PostModel.post_process fs = PostModel.POk pp ->
  PathsModel.all_paths [] (PostModel.pp_root pp) = [] :: map ent_path vs /\
  PostModel.pp_files pp = map ent_path (filter (fun t => is_reg (t_mode t)) vs).
Proof. exact shape_orders_l. Qed.
Print Assumptions shape_orders.

Theorem tar2sqfs_is_pack_all : forall no_tail_pack d hashf dcompress duncompress half mcompress limit cfg opts sched vs r,
  tree_shapeb vs = true -> FinishModel.c_no_xattr cfg = false ->
  t2s_full opts0 no_tail_pack false d hashf dcompress duncompress half mcompress limit cfg opts sched vs = PDone r ->
  pack_all hashf dcompress duncompress half mcompress limit cfg (pi_of no_tail_pack cfg d opts sched vs) = PDone (with_root r).
Proof. exact tar2sqfs_is_pack_all_l. Qed.
Print Assumptions tar2sqfs_is_pack_all.

(* ---- tar2sqfs_image_reads_back: the first sentence of C04 as a theorem about image BYTES.
   Hypotheses: the oracle contracts of pack_all_reads_back (data / metadata compressor pairs, uc_meets, id table limit);
   tree_shapeb (decidable shape of the archive); data_ok (the stream delivered as many bytes as the header announces);
   the run succeeds and meets the decidable bounds of ImgE2E (e2e_okb on the corresponding pack_all input: field ranges,
   supported keys of bounded size on what copy_xattr keeps, files < 2^31 - 1 bytes, image_fits, image < 2^63 bytes, ...);
   loop bounds of the reader models.
   Conclusion: read_all returns the root and then ONE ENTRY PER ARCHIVE ENTRY IN ARCHIVE ORDER with ([entry_back]): the
   path, mode / owner / clamped time stamp / size / device number / symbolic link target of the inode ([item_ok]); the
   inode of the entry itself or, for a hard link record, of the entry it names ([ent_at]); the contents of a regular file
   = the bytes of that entry's stream; the pairs = [xkept] of that entry's list, as a set — and as the exact list in
   stored order ([entry_back_x], [stored_at] = reimage_all's xattr lists) when every entry's keys are supported,
   bounded and pairwise different (xattrs_ok); inode numbers tell the nodes apart (hard link groups = equal numbers) ---- *)
Theorem tar2sqfs_image_reads_back :
  forall (hashf : list N -> N)
         (dcompress : list N -> option (list N)) (duncompress : list N -> nat -> option (list N)),
  (forall b c, dcompress b = Some c ->
     (length c < length b)%nat /\ forall n, (length b <= n)%nat -> duncompress c n = Some b) ->
  forall (mcompress : list N -> Common.cres) (muncompress : list N -> option (list N)),
  (forall b c, mcompress b = Common.CData c -> Common.lenN c <= Common.lenN b /\ muncompress c = Some b) ->
  forall uc, Embed.uc_meets muncompress uc ->
  forall limit, limit <= 65535 ->
  forall half cfg no_tail_pack d opts sched vs r,
  tree_shapeb vs = true -> Forall data_ok vs ->
  t2s_full opts0 no_tail_pack false d hashf dcompress duncompress half mcompress limit cfg opts sched vs = PDone r ->
  e2e_okb half cfg (pi_of no_tail_pack cfg d opts sched vs) (with_root r) = true ->
  forall depth efuel fuel,
  (e2e_depth r <= depth)%nat -> (e2e_efuel r <= efuel)%nat -> (e2e_fuel r <= fuel)%nat ->
  let num := Bridge.ino_of (PostModel.pp_inodes (r_pp r)) in
  exists e0 out,
    read_all uc muncompress duncompress (FinishModel.image_bytes (r_w r)) depth efuel fuel = RBase.Ok (e0 :: out) /\
    root_back d [] e0 /\
    Forall2 (entry_back vs num) vs out /\
    (forall p q, node_of vs p -> node_of vs q -> num p = num q -> p = q) /\
    (xattrs_ok vs -> Forall2 (entry_back_x [] vs num) vs out).
Proof. exact tar2sqfs_image_reads_back_l. Qed.
Print Assumptions tar2sqfs_image_reads_back.

(* ---- the same for an archive WITH an entry for the root directory in front ("./": what tar -C dir -c . writes; audit 3,
   W1).  [root_entry_meaning]: the entry has the empty canonical name, is a directory and no hard link record.
   process_tarball hands it to set_root_attribs (uid, gid, mode, mod_time of the root node; copy_xattr on the root node): on
   the fresh tree that is fstree_init with the entry's attributes as defaults ([root_defaults]); an archive in sqfs2tar's
   shape creates no directory implicitly, so nothing else reads the defaults (shape_no_implicit, tar2sqfs_tree_root_first),
   and the run IS the run of pack_all with these defaults and the entry's pairs for the root
   (tar2sqfs_rooted_is_pack_all).  Conclusion as above, and the root shows the ENTRY's mode / owner / time stamp / pairs
   ([root_back]).  The stored order of the other entries' pairs starts from the key table the root's pairs leave. ---- *)
Theorem root_entry_meaning : forall d t e, pt_op_of opts0 d t = PRootAttr e ->
  t_name t = [] /\ t_hard t = false /\ mode_is_dir (t_mode t) = true /\
  e = gent_of [] (te_e t) (clamp_mtime (e_mtime (te_e t))).
Proof. exact root_entry_meaning_l. Qed.

Theorem root_back_meaning : forall d rootx e0,
  root_back d rootx e0 <->
  re_path e0 = [] /\ re_data e0 = None /\
  PathsModel.pv_mode (re_view e0) = Bridge.type_bits FstreeModel.FDir + FstreeModel.fd_perm d /\
  PathsModel.pv_uid (re_view e0) = Some (FstreeModel.fd_uid d) /\ PathsModel.pv_gid (re_view e0) = Some (FstreeModel.fd_gid d) /\
  PathsModel.pv_mtime (re_view e0) = FstreeModel.fd_mtime d /\
  Permutation.Permutation (re_xattrs e0) rootx.
Proof. intros. reflexivity. Qed.

Theorem tar2sqfs_rooted_is_pack_all :
  forall no_tail_pack d0 hashf dcompress duncompress half mcompress limit cfg opts sched t0 e0 vs r,
  pt_op_of opts0 d0 t0 = PRootAttr e0 -> tree_shapeb vs = true -> FinishModel.c_no_xattr cfg = false ->
  t2s_full opts0 no_tail_pack false d0 hashf dcompress duncompress half mcompress limit cfg opts sched (t0 :: vs) = PDone r ->
  pack_all hashf dcompress duncompress half mcompress limit cfg
           (pi_gen no_tail_pack cfg (root_defaults true d0 e0) opts sched (xkept (te_xattr t0)) vs) = PDone r.
Proof. exact tar2sqfs_rooted_is_pack_all_l. Qed.
Print Assumptions tar2sqfs_rooted_is_pack_all.

Theorem tar2sqfs_rooted_image_reads_back :
  forall (hashf : list N -> N)
         (dcompress : list N -> option (list N)) (duncompress : list N -> nat -> option (list N)),
  (forall b c, dcompress b = Some c ->
     (length c < length b)%nat /\ forall n, (length b <= n)%nat -> duncompress c n = Some b) ->
  forall (mcompress : list N -> Common.cres) (muncompress : list N -> option (list N)),
  (forall b c, mcompress b = Common.CData c -> Common.lenN c <= Common.lenN b /\ muncompress c = Some b) ->
  forall uc, Embed.uc_meets muncompress uc ->
  forall limit, limit <= 65535 ->
  forall half cfg no_tail_pack d0 opts sched t0 e0 vs r,
  pt_op_of opts0 d0 t0 = PRootAttr e0 ->
  tree_shapeb vs = true -> Forall data_ok vs ->
  t2s_full opts0 no_tail_pack false d0 hashf dcompress duncompress half mcompress limit cfg opts sched (t0 :: vs) = PDone r ->
  let d := root_defaults true d0 e0 in
  let rootx := xkept (te_xattr t0) in
  e2e_okb half cfg (pi_gen no_tail_pack cfg d opts sched rootx vs) r = true ->
  forall depth efuel fuel,
  (e2e_depth r <= depth)%nat -> (e2e_efuel r <= efuel)%nat -> (e2e_fuel r <= fuel)%nat ->
  let num := Bridge.ino_of (PostModel.pp_inodes (r_pp r)) in
  exists r0 out,
    read_all uc muncompress duncompress (FinishModel.image_bytes (r_w r)) depth efuel fuel = RBase.Ok (r0 :: out) /\
    root_back d rootx r0 /\
    Forall2 (entry_back vs num) vs out /\
    (forall p q, node_of vs p -> node_of vs q -> num p = num q -> p = q) /\
    (xattrs_ok vs -> xset_ok rootx -> Forall2 (entry_back_x (fst (store_xattrs [] rootx)) vs num) vs out).
Proof. exact tar2sqfs_rooted_image_reads_back_l. Qed.
Print Assumptions tar2sqfs_rooted_image_reads_back.

(* ---- root entries and the theorems of section "ImgTar" (audit 3, W1: process_tarball_is_adds, image_view_of_adds and
   tar_roundtrip_view exclude them through no_root_op).
   (a) For EVERY archive (root entries anywhere, any number; side conditions: no root entry that is a hard link / not a
       directory — tar2sqfs fails on those — and every add is below the root — names are canonical): set_root_attribs
       commutes with fstree_add_generic, so the tree is the tree of the adds with the root entries' attributes applied in
       order (the last one wins).  This is process_tarball_is_adds without its side condition.
   (b) Root entry in FRONT and no directory created implicitly (no_implicitb: every proper prefix of an added path was
       added earlier; any sibling order — what tar writes; shape_no_implicit for sqfs2tar's shape): the tree is
       run_adds d' (fs_init d') of the remaining adds with d' = the root entry's attributes as defaults, so
       image_view_of_adds applies verbatim with d' (image_view_of_adds_rooted: spec_pview then gives the root the entry's
       attributes) and the tie's function on the archive is the tie's function on the rest under d'
       (tar_roundtrip_root_first, to which tar_roundtrip_view applies).
   NOT covered at image level: a root entry together with implicitly created directories (root attributes from the entry,
   implicit directories from the command line's defaults): ImgPost.pack_paths_roundtrip is stated for
   run_adds d (fs_init d) with ONE d; (a) covers that case at tree level only. ---- *)
Theorem tar2sqfs_tree_with_root_entries : forall o d vs,
  forallb no_bad_root (pt_ops o d vs) = true -> forallb add_below_root (pt_ops o d vs) = true ->
  tar2sqfs_tree o d vs =
  option_map (apply_roots (o_keep_time o) (pt_ops o d vs))
             (Bridge.run_adds d (FstreeModel.fs_init d) (adds_of_entries o d vs)).
Proof. exact tar2sqfs_tree_with_root_entries_l. Qed.
Print Assumptions tar2sqfs_tree_with_root_entries.

Theorem tar2sqfs_tree_root_first : forall o d t e vs,
  pt_op_of o d t = PRootAttr e ->
  forallb no_root_op (pt_ops o d vs) = true -> no_implicitb (adds_of_entries o d vs) = true ->
  let d' := root_defaults (o_keep_time o) d e in
  tar2sqfs_tree o d (t :: vs) = Bridge.run_adds d' (FstreeModel.fs_init d') (adds_of_entries o d vs).
Proof. exact tar2sqfs_tree_root_first_l. Qed.
Print Assumptions tar2sqfs_tree_root_first.

Theorem image_view_of_adds_rooted : forall compress uncompress,
  (forall b c, compress b = Common.CData c -> Common.lenN c <= Common.lenN b /\ uncompress c = Some b) ->
  forall limit, limit <= 65536 ->
  forall bs o d t e vs fs pp fb xa img,
  pt_op_of o d t = PRootAttr e ->
  forallb no_root_op (pt_ops o d vs) = true ->
  let ops := adds_of_entries o d vs in
  let d' := root_defaults (o_keep_time o) d e in
  no_implicitb ops = true -> ops_okb ops = true -> links_resolveb ops = true ->
  InputOk.input_okb bs d' ops = true ->
  tar2sqfs_tree o d (t :: vs) = Some fs ->
  PostModel.post_process fs = PostModel.POk pp ->
  InputOk.attached_okb bs fb xa pp = true ->
  TreeModel.serialize_fstree compress limit (Bridge.to_img fb xa pp) = Res.Ok img ->
  TreeModel.trace_fits img = true ->
  exists lt fl,
    TreeModel.read_tree uncompress bs (TreeModel.si_itbl img) (TreeModel.si_dtbl img) (TreeModel.si_ids img)
                        (length (PostModel.pp_inodes pp)) (TreeModel.si_root img) = Some lt /\
    PathsModel.flat_lt [] lt = map (PathsProofs.number (PostModel.pp_inodes pp)) fl /\
    StronglySorted path_lt (map fst3 fl) /\
    (forall p, In p (map fst3 fl) <-> p = [] \/ in_closure p ops) /\
    Forall (fun x => let '(p, v, id) := x in
                     spec_resolve (S (length ops)) ops p = Some id /\ v = spec_pview fb xa d' ops id) fl /\
    (forall x y, In x fl -> In y fl ->
       Bridge.ino_of (PostModel.pp_inodes pp) (snd x) = Bridge.ino_of (PostModel.pp_inodes pp) (snd y) -> snd x = snd y).
Proof. exact image_view_of_adds_rooted_l. Qed.
Print Assumptions image_view_of_adds_rooted.

Theorem tar_roundtrip_root_first : forall o d nl t e vs,
  pt_op_of o d t = PRootAttr e ->
  forallb no_root_op (pt_ops o d vs) = true -> no_implicitb (adds_of_entries o d vs) = true ->
  tar_roundtrip_entries o d nl (t :: vs) = tar_roundtrip_entries o (root_defaults (o_keep_time o) d e) nl vs.
Proof. exact tar_roundtrip_root_first_l. Qed.
Print Assumptions tar_roundtrip_root_first.

Theorem shape_no_implicit : forall d vs, tree_shapeb vs = true -> no_implicitb (adds_of_entries opts0 d vs) = true.
Proof. exact shape_no_implicit_l. Qed.

Theorem entry_back_meaning : forall vs num t e,
  entry_back vs num t e <->
  exists id u,
    item_ok t (re_path e, re_view e, id) /\ re_ino e = num id /\
    ent_at vs id = Some u /\ t_hard u = false /\ (t_hard t = false -> u = t) /\
    re_data e = (if is_reg (t_mode u) then Some (te_data u) else None) /\
    Permutation.Permutation (re_xattrs e) (xkept (te_xattr u)).
Proof. exact entry_back_meaning_l. Qed.

Theorem entry_back_x_meaning : forall tbl0 vs num t e,
  entry_back_x tbl0 vs num t e <->
  exists id u,
    item_ok t (re_path e, re_view e, id) /\ re_ino e = num id /\
    ent_at vs id = Some u /\ t_hard u = false /\ (t_hard t = false -> u = t) /\
    re_data e = (if is_reg (t_mode u) then Some (te_data u) else None) /\
    re_xattrs e = stored_at tbl0 vs id.
Proof. exact entry_back_x_meaning_l. Qed.

(* [stored_at tbl0] is the xattr list C04's reimage_all gives the entry of that name, started from the key table tbl0 *)
Theorem stored_at_is_reimage : forall tbl0 vs k t, NoDup (map ent_path vs) -> nth_error vs k = Some t ->
  exists r, nth_error (reimage_all tbl0 vs) k = Some r /\ te_xattr r = stored_at tbl0 vs (ent_path t).
Proof. exact stored_at_is_reimage_l. Qed.
Print Assumptions stored_at_is_reimage.

(* ---- conv_roundtrip_full: sqfs2tar's entries for that image — INCLUDING xattr lists and contents, read from the image
   bytes — are reimage_all of the archive ([feq]: meq on the header fields, the xattr list unless it is a hard link record,
   the contents of a regular file): what reimage_is_theorem took from reimage_all itself is discharged ---- *)
Theorem conv_roundtrip_full :
  forall (hashf : list N -> N)
         (dcompress : list N -> option (list N)) (duncompress : list N -> nat -> option (list N)),
  (forall b c, dcompress b = Some c ->
     (length c < length b)%nat /\ forall n, (length b <= n)%nat -> duncompress c n = Some b) ->
  forall (mcompress : list N -> Common.cres) (muncompress : list N -> option (list N)),
  (forall b c, mcompress b = Common.CData c -> Common.lenN c <= Common.lenN b /\ muncompress c = Some b) ->
  forall uc, Embed.uc_meets muncompress uc ->
  forall limit, limit <= 65535 ->
  forall half cfg no_tail_pack d opts sched vs r depth efuel fuel,
  tree_shapeb vs = true -> Forall data_ok vs -> xattrs_ok vs ->
  t2s_full opts0 no_tail_pack false d hashf dcompress duncompress half mcompress limit cfg opts sched vs = PDone r ->
  e2e_okb half cfg (pi_of no_tail_pack cfg d opts sched vs) (with_root r) = true ->
  (e2e_depth r <= depth)%nat -> (e2e_efuel r <= efuel)%nat -> (e2e_fuel r <= fuel)%nat ->
  exists out,
    sqfs2tar_full uc muncompress duncompress false false (FinishModel.image_bytes (r_w r)) depth efuel fuel = S2Ok out /\
    Forall2 feq out (reimage_all [] vs) /\
    write_archive out = write_archive (reimage_all [] vs).
Proof. exact conv_roundtrip_full_l. Qed.
(* Print Assumptions: conv_roundtrip_full and conv_fixpoint_full are lemmas of the proof of conv_second_round_full, printed below *)

(* ---- conv_fixpoint_full: conv_fixpoint_composed with NO component assumed.  sqfs2tar's archive of the listing [es],
   read by the tar iterator, packed by the composed tar2sqfs into image BYTES, read back by the reader models and walked
   by sqfs2tar's iterators with xattrs and contents attached as read, is written as the same archive, byte for byte ---- *)
Theorem conv_fixpoint_full :
  forall (hashf : list N -> N)
         (dcompress : list N -> option (list N)) (duncompress : list N -> nat -> option (list N)),
  (forall b c, dcompress b = Some c ->
     (length c < length b)%nat /\ forall n, (length b <= n)%nat -> duncompress c n = Some b) ->
  forall (mcompress : list N -> Common.cres) (muncompress : list N -> option (list N)),
  (forall b c, mcompress b = Common.CData c -> Common.lenN c <= Common.lenN b /\ muncompress c = Some b) ->
  forall uc, Embed.uc_meets muncompress uc ->
  forall limit, limit <= 65535 ->
  forall half cfg no_tail_pack d opts sched es r depth efuel fuel,
  Forall entry_ok es -> Forall img_shape es -> settled [] es ->
  let vs := views es in
  tree_shapeb vs = true -> xattrs_ok vs ->
  t2s_full opts0 no_tail_pack false d hashf dcompress duncompress half mcompress limit cfg opts sched vs = PDone r ->
  e2e_okb half cfg (pi_of no_tail_pack cfg d opts sched vs) (with_root r) = true ->
  (e2e_depth r <= depth)%nat -> (e2e_efuel r <= efuel)%nat -> (e2e_fuel r <= fuel)%nat ->
  read_archive (write_archive es) = RA_Ok vs /\
  exists out,
    sqfs2tar_full uc muncompress duncompress false false (FinishModel.image_bytes (r_w r)) depth efuel fuel = S2Ok out /\
    write_archive out = write_archive es.
Proof. exact conv_fixpoint_full_l. Qed.

(* ... and from ANY listing after one round (round_one establishes entry_ok, img_shape, settled) *)
Theorem conv_second_round_full :
  forall (hashf : list N -> N)
         (dcompress : list N -> option (list N)) (duncompress : list N -> nat -> option (list N)),
  (forall b c, dcompress b = Some c ->
     (length c < length b)%nat /\ forall n, (length b <= n)%nat -> duncompress c n = Some b) ->
  forall (mcompress : list N -> Common.cres) (muncompress : list N -> option (list N)),
  (forall b c, mcompress b = Common.CData c -> Common.lenN c <= Common.lenN b /\ muncompress c = Some b) ->
  forall uc, Embed.uc_meets muncompress uc ->
  forall limit, limit <= 65535 ->
  forall half cfg no_tail_pack d opts sched es r depth efuel fuel,
  Forall entry_ok es -> Forall short_name es ->
  let es1 := reimage_all [] (views es) in
  let vs := views es1 in
  tree_shapeb vs = true -> xattrs_ok vs ->
  t2s_full opts0 no_tail_pack false d hashf dcompress duncompress half mcompress limit cfg opts sched vs = PDone r ->
  e2e_okb half cfg (pi_of no_tail_pack cfg d opts sched vs) (with_root r) = true ->
  (e2e_depth r <= depth)%nat -> (e2e_efuel r <= efuel)%nat -> (e2e_fuel r <= fuel)%nat ->
  convert es = RA_Ok es1 /\
  read_archive (write_archive es1) = RA_Ok vs /\
  exists out,
    sqfs2tar_full uc muncompress duncompress false false (FinishModel.image_bytes (r_w r)) depth efuel fuel = S2Ok out /\
    write_archive out = write_archive es1.
Proof. exact conv_second_round_full_l. Qed.
Print Assumptions conv_second_round_full.

(* ... on BYTES: [conv_round] = tar iterator -> t2s_full -> image bytes -> sqfs2tar_full -> write_archive; sqfs2tar's
   archive of such a listing is a fixpoint *)
Theorem conv_round_fixpoint :
  forall (hashf : list N -> N)
         (dcompress : list N -> option (list N)) (duncompress : list N -> nat -> option (list N)),
  (forall b c, dcompress b = Some c ->
     (length c < length b)%nat /\ forall n, (length b <= n)%nat -> duncompress c n = Some b) ->
  forall (mcompress : list N -> Common.cres) (muncompress : list N -> option (list N)),
  (forall b c, mcompress b = Common.CData c -> Common.lenN c <= Common.lenN b /\ muncompress c = Some b) ->
  forall limit, limit <= 65535 ->
  forall half cfg d opts sched es r,
  Forall entry_ok es -> Forall img_shape es -> settled [] es ->
  let vs := views es in
  tree_shapeb vs = true -> xattrs_ok vs ->
  t2s_full opts0 false false d hashf dcompress duncompress half mcompress limit cfg opts sched vs = PDone r ->
  e2e_okb half cfg (pi_of false cfg d opts sched vs) (with_root r) = true ->
  exists out,
    conv_round hashf dcompress duncompress half mcompress muncompress limit cfg opts sched d (write_archive es)
    = RoundOk (FinishModel.image_bytes (r_w r)) out (write_archive es).
Proof. exact conv_round_fixpoint_l. Qed.
Print Assumptions conv_round_fixpoint.

(* the boolean forms used below are sound *)
Theorem full_checkers_sound : forall vs,
  (xattrs_okb vs = true -> xattrs_ok vs) /\ (forallb data_okb vs = true -> Forall data_ok vs).
Proof. intro vs. split; [exact (xattrs_okb_sound vs)|exact (data_okb_sound vs)]. Qed.

(* ---- non-vacuity.  fx_ss:  d/ (user.a)   d/f "hello" (decoded list user.b, user.a)   d/h => d/f   d/s SPARSE (size 10,
   map (0,3) (6,4): one hole)   l -> d/f.  The sparse entry's stream is the hole expansion ... ---- *)
Example ex_full_sparse :
  match nth_error fx_ss 3 with
  | Some s =>
      se_data s = [1; 2; 3; 0; 0; 0; 4; 5; 6; 7] /\
      se_data s = expand 0 (se_sparse s) (se_record s) (e_size (se_e s)) /\
      wf_map 0 (se_sparse s) (e_size (se_e s))
  | None => False
  end.
Proof. exact fx_sparse. Qed.

(* ... every decidable hypothesis of tar2sqfs_image_reads_back / conv_roundtrip_full holds (toy compressors of
   ImgE2E.Example, whose contracts are ex_e2e_contracts in Properties_C01.v) ... *)
Example ex_full_hyps :
  tree_shapeb fx_vs = true /\ forallb data_okb fx_vs = true /\ xattrs_okb fx_vs = true /\
  match fx_t2s fx_vs with
  | PDone r => fx_okb fx_vs r = true
  | _ => False
  end.
Proof. exact fx_hyps. Qed.

(* ... the reader models return from the image bytes: paths, inode numbers (d/f and d/h share one), modes, contents with
   the hole expanded, xattr lists in stored order (user.a in front of user.b for d/f: the key table has it from d/) ... *)
Example ex_full_back :
  match fx_t2s fx_vs with
  | PDone r =>
      match fx_read r with
      | RBase.Ok out =>
          map (fun e => (re_path e, re_ino e, PathsModel.pv_mode (re_view e), re_data e, re_xattrs e)) out =
          [ ([], 5, 16877, None, []);
            ([[100]], 3, 16877, None, [(fx_ka, [48])]);
            ([[100]; [102]], 1, 33188, Some fx_hello, [(fx_ka, [49]); (fx_kb, [50])]);
            ([[100]; [104]], 1, 33188, Some fx_hello, [(fx_ka, [49]); (fx_kb, [50])]);
            ([[100]; [115]], 2, 33188, Some [1; 2; 3; 0; 0; 0; 4; 5; 6; 7], []);
            ([[108]], 4, 41471, None, []) ]
      | _ => False
      end
  | _ => False
  end.
Proof. exact fx_back. Qed.

(* ... sqfs2tar's entries for it; they meet every hypothesis of conv_fixpoint_full; and one more round of the composed
   tools on the BYTES of that archive reproduces it: second round = fixpoint *)
Example ex_full_second_round :
  match fx_t2s fx_vs with
  | PDone r =>
      match fx_s2t r with
      | S2Ok es =>
          map (fun t => (e_name (te_e t), e_hardlink (te_e t), te_target t, te_xattr t, te_data t)) es =
          [ ([100; 47], false, None, [(fx_ka, [48])], []);
            (fx_f, false, None, [(fx_ka, [49]); (fx_kb, [50])], fx_hello);
            (fx_h, true, Some fx_f, [(fx_ka, [49]); (fx_kb, [50])], []);
            (fx_s, false, None, [], [1; 2; 3; 0; 0; 0; 4; 5; 6; 7]);
            (fx_l, false, Some fx_f, [], []) ] /\
          forallb entry_okb es && forallb img_shapeb es && settledb [] es = true /\
          tree_shapeb (views es) = true /\ xattrs_okb (views es) = true /\
          match fx_t2s (views es) with
          | PDone r2 => fx_okb (views es) r2 = true
          | _ => False
          end /\
          match fx_round (write_archive es) with
          | RoundOk img2 es2 tar2 => tar2 = write_archive es /\ es2 = es
          | _ => False
          end
      | _ => False
      end
  | _ => False
  end.
Proof. exact fx_second_round. Qed.

(* ---- corners ---- *)
(* FINDING F26: a PAX header that repeats a keyword (SCHILY.xattr.user.a = 1, then = 2; POSIX pax, GNU tar, Python tarfile:
   the later record counts).  The reader prepends (decoded [a=2; a=1]); the unrepaired copy_xattr added both and the xattr
   writer's later add replaced the value: the image held the FIRST record's "1".  Repaired: "2".  Reproduced with the real
   tools; props/C04/fixes/F26-duplicate-xattr-key-first-record-wins.patch *)
Example dup_xattr_key_first_record_wins_refuted :
  match read_archive fx_dup_archive with
  | RA_Ok [t] =>
      te_xattr t = [(fx_ka, [50]); (fx_ka, [49])] /\
      match copy_xattr_old false XattrModel.xw_empty (te_xattr t) with
      | Res.Ok (w, idx) => idx = 0 /\ map (XattrWriterProofs.kmap w) (XattrModel.x_blocks w) = [[(fx_ka, [49])]]
      | _ => False
      end /\
      match copy_xattr false XattrModel.xw_empty (te_xattr t) with
      | Res.Ok (w, idx) => idx = 0 /\ map (XattrWriterProofs.kmap w) (XattrModel.x_blocks w) = [[(fx_ka, [50])]]
      | _ => False
      end /\
      fx_xattrs_of [t] = Some [([102], [(fx_ka, [50])])]
  | _ => False
  end.
Proof. exact fx_dup_key_refuted. Qed.

(* xattrs on a hard link RECORD are not stored (the record is a second name of the inode and shows its pairs) but their
   keys enter the key table and move the pairs of later entries: [c; a] stored as [a; c] instead of [c; a] *)
Example hard_link_record_xattrs_dropped :
  fx_xattrs_of (fx_hl_archive [(fx_ka, [57])]) =
    Some [([102], [(fx_kb, [49])]); ([104], [(fx_kb, [49])]); ([105], [(fx_ka, [51]); (fx_kc, [50])])] /\
  fx_xattrs_of (fx_hl_archive []) =
    Some [([102], [(fx_kb, [49])]); ([104], [(fx_kb, [49])]); ([105], [(fx_kc, [50]); (fx_ka, [51])])].
Proof. exact fx_hard_link_record_xattrs. Qed.

(* a key with a prefix SquashFS does not know is dropped (with a warning); with --no-skip tar2sqfs fails *)
Example foreign_xattr_prefix_dropped :
  fx_xattrs_of fx_foreign = Some [([102], [(fx_ka, [50])])] /\
  match t2s_full opts0 false true fx_d0 DedupTheorems.const_hash DedupModel.toy_compress DedupModel.toy_uncompress fx_half
                 (TreeModel.img_compress 3) GenC01.c_id_table_limit fx_cfg [] [0%nat; 0%nat] fx_foreign with
  | PXattrErr _ => True
  | _ => False
  end.
Proof. exact fx_foreign_prefix_dropped. Qed.

(* ---- an archive WITH its root entry in front ("./" 0700, uid 7, gid 8, mtime 5, user.c): every hypothesis of
   tar2sqfs_rooted_image_reads_back holds and the root comes back with the ENTRY's attributes and pairs ---- *)
Example ex_full_rooted :
  pt_op_of opts0 fx_d0 fx_root = PRootAttr fx_root_gent /\
  tree_shapeb fx_vs = true /\ forallb data_okb fx_vs = true /\ xattrs_okb fx_vs = true /\ xset_okb fx_rootx = true /\
  match fx_t2s (fx_root :: fx_vs) with
  | PDone r =>
      fx_okb_rooted r = true /\
      match fx_read r with
      | RBase.Ok out =>
          map (fun e => (re_path e, PathsModel.pv_mode (re_view e), PathsModel.pv_uid (re_view e), PathsModel.pv_gid (re_view e),
                         PathsModel.pv_mtime (re_view e), re_xattrs e)) out =
          [ ([], 16832, Some 7, Some 8, 5, [(fx_kc, [57])]);
            ([[100]], 16877, Some 0, Some 0, 1600000000, [(fx_ka, [48])]);
            ([[100]; [102]], 33188, Some 1000, Some 100, 1600000001, [(fx_ka, [49]); (fx_kb, [50])]);
            ([[100]; [104]], 33188, Some 1000, Some 100, 1600000001, [(fx_ka, [49]); (fx_kb, [50])]);
            ([[100]; [115]], 33188, Some 0, Some 0, 5, []);
            ([[108]], 41471, Some 0, Some 0, 7, []) ]
      | _ => False
      end
  | _ => False
  end.
Proof. exact fx_rooted. Qed.

Theorem xset_okb_is_sound : forall s, xset_okb s = true -> xset_ok s.
Proof. exact xset_okb_sound. Qed.

(* the auditor's archive (S7.v: root entry with uid 7, then a file): excluded by no_root_op, inside
   tar2sqfs_tree_with_root_entries and tar2sqfs_tree_root_first; the tree has the root entry's owner *)
Example ex_root_entry_tree :
  forallb no_root_op (pt_ops opts0 fx_d0 fx_audit_rooted) = false /\
  forallb no_bad_root (pt_ops opts0 fx_d0 fx_audit_rooted) = true /\
  forallb add_below_root (pt_ops opts0 fx_d0 fx_audit_rooted) = true /\
  no_implicitb (adds_of_entries opts0 fx_d0 (tl fx_audit_rooted)) = true /\
  match tar2sqfs_tree opts0 fx_d0 fx_audit_rooted,
        Bridge.run_adds fx_d0 (FstreeModel.fs_init fx_d0) (adds_of_entries opts0 fx_d0 fx_audit_rooted) with
  | Some fs, Some fs' =>
      FstreeModel.a_uid (FstreeModel.node_attr (FstreeModel.fs_root fs)) = 7 /\
      FstreeModel.a_uid (FstreeModel.node_attr (FstreeModel.fs_root fs')) = 0 /\
      fs = apply_roots true (pt_ops opts0 fx_d0 fx_audit_rooted) fs'
  | _, _ => False
  end.
Proof. exact fx_audit_root_entry. Qed.

(* ---- audit 3, EXAMPLE-GAP G2: the hypotheses of subdir_keep_as_dir together (-k -d lib; -d lib/lib -d lib64/a) ---- *)
Example ex_subdir_keep_hyps :
  let subs1 := [[SubdirProofs.s_lib]] in
  let subs2 := [[SubdirProofs.s_lib; SubdirProofs.s_lib]; [SubdirProofs.s_lib64; SubdirProofs.s_a]] in
  subs1 <> [] /\ Forall SubdirProofs.wfp subs1 /\ SubdirModel.strip_of (map CanonSpec.join subs1) true = None /\
  subs2 <> [] /\ Forall SubdirProofs.wfp subs2 /\ SubdirModel.strip_of (map CanonSpec.join subs2) false = None /\
  SubdirProofs.wfp [SubdirProofs.s_lib; SubdirProofs.s_a].
Proof.
  cbv zeta. repeat split; try discriminate; try reflexivity;
    repeat (constructor; try (split; [discriminate|]); try (repeat constructor; discriminate)).
Qed.
