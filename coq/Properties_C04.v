(* C04 — tar <-> SquashFS conversion preserves the archive.  Statements only;
   every proof is one [exact] of a lemma from coq/C04/*Proofs.v. *)
From Coq Require Import List NArith ZArith Bool.
From SqfsV Require Import C04.TarNum C04.TarNumProofs.
Import ListNotations.
Local Open Scope N_scope.

(* ---- numeric fields: write_number / write_number_signed vs read_number ---- *)

(* 8-byte fields (mode, uid, gid, devmajor, devminor): octal with terminator,
   octal without terminator, base-256 *)
Theorem number_rt_8 : forall v, v < 127 * 2 ^ 56 ->
  read_number (write_number v 8) = Some v.
Proof. exact read_write_number_8. Qed.
Print Assumptions number_rt_8.

(* the bound is sharp: at 127 * 2^56 the base-256 marker 0x80 turns the first
   byte into 0xFF and the reader takes the field for a negative number
   (no tool can reach this value: SquashFS ids and device numbers are 32 bit) *)
Theorem number_rt_8_bound_sharp :
  read_number (write_number (127 * 2 ^ 56) 8) <> Some (127 * 2 ^ 56).
Proof. exact lim8_witness. Qed.

(* 12-byte fields (size, mtime): every unsigned 64-bit value *)
Theorem number_rt_12 : forall v, v < 2 ^ 64 ->
  read_number (write_number v 12) = Some v.
Proof. exact read_write_number_12. Qed.
Print Assumptions number_rt_12.

(* signed 12-byte field (mtime), as decode_header interprets it *)
Theorem number_rt_signed_12 : forall v : Z, (- 2 ^ 63 < v < 2 ^ 63)%Z ->
  exists f, read_number (write_number_signed v 12) = Some f /\ s64_of_u64 f = v.
Proof. exact read_write_signed_12. Qed.
Print Assumptions number_rt_signed_12.

(* the checksum field written by update_checksum reads back *)
Theorem checksum_field_rt : forall c, c < 8 ^ 6 ->
  read_number (chksum_field c) = Some c.
Proof. exact read_chksum_field. Qed.
Print Assumptions checksum_field_rt.

(* ---- non-vacuity ---- *)
Example ex_num_oct7 : write_number 493 8 = [48;48;48;48;55;53;53;32].        (* "0000755 " *)
Proof. vm_compute. reflexivity. Qed.
Example ex_num_oct8 : write_number 2097152 8 = [49;48;48;48;48;48;48;48].    (* 8^7: no terminator *)
Proof. vm_compute. reflexivity. Qed.
Example ex_num_bin8 : write_number 16777216 8 = [128;0;0;0;1;0;0;0].          (* 8^8: base-256 *)
Proof. vm_compute. reflexivity. Qed.
Example ex_num_bin12 : write_number (2 ^ 36) 12 = [128;0;0;0;0;0;0;16;0;0;0;0].
Proof. vm_compute. reflexivity. Qed.
Example ex_num_neg : write_number_signed (-1) 12 = [128;0;0;0;255;255;255;255;255;255;255;255].
Proof. vm_compute. reflexivity. Qed.
Example ex_num_rd_neg : option_map s64_of_u64 (read_number [255;255;255;255;255;255;255;255;255;255;255;254]) = Some (-2)%Z.
Proof. vm_compute. reflexivity. Qed.
